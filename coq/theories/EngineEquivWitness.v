(* EngineEquivWitness.v -- C03: the side conditions of the engine comparison cannot be dropped (concrete
   charts on which the two engine models differ), and they are satisfiable by non-trivial charts.
   Witness charts, computations by vm_compute. *)
From V Require Import Base NameMatch Chart Exec Large LargeLemmas Fast Interp Legal SetLemmas LegalAbstract LegalLarge
  LegalRun WfCore LegalOracle LargeCacheLemmas SelectConform SelectConformLemmas MicroConform MicroConformWitness
  EngineEquivBase EngineEquivDone EngineEquivStep EngineEquivSelect EngineEquivRun EngineEquivMain.
Local Open Scope nat_scope.

(* the two halves of ms_guardb, reported separately *)
Definition ms_parts (c : fchart) (l : lstate) (targets exitset transset : list nat) (ini : bool) : bool * bool :=
  let cfg := l_cfg l in
  let hist := if ini then l_hist l else remember_history c cfg exitset (l_hist l) in
  let es := fst (entry_set lg_fixed c cfg exitset hist targets transset) in
  let cfg1 := set_diff cfg exitset in
  let E := set_diff es cfg1 in
  let after := fold_left (fun a i => insert_sorted i a) E cfg1 in
  (forallb (fun f => negb (is_finalb c f) || no_later_entryb c E f) E,
   forallb (fun f => negb (is_finalb c f) || single_doneb c after f) E).

Lemma forallb_or_and {A} (p q r : A -> bool) l :
  forallb (fun a => p a || (q a && r a)) l = forallb (fun a => p a || q a) l && forallb (fun a => p a || r a) l.
Proof.
  induction l as [|a l IH]; [reflexivity|]. cbn [forallb]. rewrite IH.
  destruct (p a), (q a), (r a); cbn; try reflexivity; now rewrite ?andb_false_r.
Qed.

Lemma ms_parts_spec c l tg X ts ini :
  ms_guardb c l tg X ts ini = fst (ms_parts c l tg X ts ini) && snd (ms_parts c l tg X ts ini).
Proof. unfold ms_guardb, ms_parts, done_guardb. cbn zeta. cbn [fst snd]. apply forallb_or_and. Qed.

Local Open Scope N_scope.
Definition ee_tr (v : N) (ev : option bytes) (cnd : option bexpr) (tg : option (list N)) (int : bool) (body : block) : ttrans :=
  {| tt_vid := v; tt_event := ev; tt_cond := cnd; tt_targets := tg; tt_internal := int; tt_body := body |}.

(* ------------------------------------------------------------------ witnesses *)

(* C03-K4, first half: the default states of both regions of s2 are <final>s.  Entering s2 the fast engine
   raises done.state.s2 when s4 is entered (s5, s6 are not in the configuration yet, its scan does not miss
   them); the large engine raises it after s6 *)
Definition k4_tree : tree :=
  TNode KScxml 0 None [] [] [] []
    [TNode KState 1 None [ee_tr 101 (Some [101]) None (Some [2]) false []] [] [] [] [];
     TNode KParallel 2 None [] [] [] []
       [TNode KState 3 None [] [] [] [] [TNode KFinal 4 None [] [] [] [] []];
        TNode KState 5 None [] [] [] [] [TNode KFinal 6 None [] [] [] [] []]]].

(* C03-K4, second half: s6 completes the inner <parallel> s3 and the outer s1 at once; the large engine raises
   done.state.s3 then done.state.s1, the fast engine done.state.s1 then done.state.s3 *)
Definition nest_tree : tree :=
  TNode KScxml 0 None [] [] [] []
    [TNode KParallel 1 None [] [] [] []
       [TNode KState 2 None [] [] [] []
          [TNode KParallel 3 None [] [] [] []
             [TNode KState 4 None [] [] [] []
                [TNode KState 5 None [ee_tr 101 (Some [101]) None (Some [6]) false []] [] [] [] [];
                 TNode KFinal 6 None [] [] [] [] []]]]]].

(* C03-K1: s3 (target-less transition on e) below s2 (no transitions) below s1 (transition on e to s4).  The
   large engine selects both (s1 is not the directly following parent of s3, the exit set of a target-less
   transition is empty), the fast engine only the one of s3 (source ancestry conflicts) *)
Definition k1_tree : tree :=
  TNode KScxml 0 None [] [] [] []
    [TNode KState 1 None [ee_tr 102 (Some [101]) None (Some [4]) false []] [] [] []
       [TNode KState 2 None [] [] [] []
          [TNode KState 3 None [ee_tr 101 (Some [101]) None None false []] [] [] [] []]];
     TNode KState 4 None [] [] [] [] []].

(* a <parallel> without children (s3) inside a region: isInFinal of the large engine says "all of its (no)
   regions are final", the scan of the fast engine sees an active non-final state without a <final> below *)
Definition cp_tree : tree :=
  TNode KScxml 0 None [] [] [] []
    [TNode KParallel 1 None [] [] [] []
       [TNode KState 2 None [] [] [] [] [TNode KParallel 3 None [] [] [] [] []];
        TNode KState 4 None [] [] [] []
          [TNode KState 5 None [ee_tr 101 (Some [101]) None (Some [6]) false []] [] [] [] [];
           TNode KFinal 6 None [] [] [] [] []]]].

(* a chart inside the hypotheses: <parallel> s2 with two regions that reach their <final>s one after the other
   (e2, then e3 guarded by In(s5)), a target-less transition in the other region on e2, a transition on
   done.state.s2 to the top-level <final>, <data> with late binding, executable content *)
Definition ee_tree : tree :=
  TNode KScxml 0 None [] [] [] [(1, INum 5)]
    [TNode KState 1 None [ee_tr 101 (Some [101]) None (Some [2]) false [IAssign 301 1 (IAdd (IVar 1) (INum 1))]] [] [] [] [];
     TNode KParallel 2 None
       [ee_tr 110 (Some (s_done_state ++ state_name 2)) None (Some [9]) false [ILog 310 (IVar 1)]] [[IRaise 320 [120]]] [] []
       [TNode KState 3 None [] [] [] []
          [TNode KState 4 None [ee_tr 102 (Some [102]) None (Some [5]) false []] [] [] [] [];
           TNode KFinal 5 None [] [[ILog 305 (INum 5)]] [] [] []];
        TNode KState 6 None [] [] [] [(2, IVar 1)]
          [TNode KState 7 None [ee_tr 104 (Some [103]) (Some (BIn 5)) (Some [10]) false []] [] [] []
             [TNode KState 8 None [ee_tr 103 (Some [102]) (Some (BLt (IVar 2) (INum 100))) None false [ILog 303 (IVar 2)];
                                   ee_tr 105 (Some [103]) (Some BBad) (Some [8]) false []] [] [] [] []];
           TNode KFinal 10 None [] [] [] [] []]];
     TNode KFinal 9 None [] [] [] [] []].
Local Open Scope nat_scope.

Definition ee_evs : list bytes := [[101%N]; [102%N]; [103%N]].

(* ------------------------------------------------------------------ non-vacuity *)

Example ee_tree_guarded :
  let c := flatten true ee_tree in
  eq_chartb c = true /\ eq_guard_run ex_fixed c 40 l_pristine x_init ee_evs = true /\
  (* the run reaches the top-level <final> through done.state.s2 and finishes *)
  l_fin (fst (run_loop c lstate (large_step lg_fixed ex_fixed c) l_cfg 40 l_pristine x_init ee_evs)) = true /\
  In (TEv (s_done_state ++ state_name 2%N)) (fst (run_large lg_fixed ex_fixed true ee_tree ee_evs 40)) /\
  In (TLog 6%Z) (fst (run_large lg_fixed ex_fixed true ee_tree ee_evs 40)).
Proof.
  split; [vm_compute; reflexivity|]. split; [vm_compute; reflexivity|]. split; [vm_compute; reflexivity|].
  split; vm_compute; repeat (first [left; reflexivity | right]).
Qed.

Example ee_tree_engines_agree : run_fast ex_fixed true ee_tree ee_evs 40 = run_large lg_fixed ex_fixed true ee_tree ee_evs 40.
Proof. apply fast_large_trace_equiv_lemma; vm_compute; reflexivity. Qed.

Example ex_tree_guarded :
  let c := flatten false ex_tree in
  eq_chartb c = true /\ eq_guard_run ex_fixed c 12 l_pristine x_init [[101%N]; [101%N]] = true.
Proof. vm_compute. split; reflexivity. Qed.

Example regions_tree_guarded :
  let c := flatten false regions_tree in
  eq_chartb c = true /\ eq_guard_run ex_fixed c 14 l_pristine x_init [[101%N]] = true.
Proof. vm_compute. split; reflexivity. Qed.

(* ------------------------------------------------------------------ the side conditions cannot be dropped *)

Ltac conj_split := repeat match goal with |- _ /\ _ => split end.

Lemma pairwise_single c t : pairwise_ok lg_fixed c [t].
Proof. intros a b [<-|[]] [<-|[]] H. congruence. Qed.

(* sel_guardb (selection): C03-K1 *)
Lemma select_equiv_without_guard_refuted_lemma :
  exists c cfg ev x,
    wf_coreb c = true /\ trans_tableb c = true /\ legal_configb c cfg = true /\ ascb cfg = true /\
    sel_guardb c cfg ev (cfg_postfix c cfg) None [] x = false /\
    fst (fselect c cfg ev (seq 0 (ntrans c)) [] x) = [0] /\
    fst (select_loop lg_fixed c cfg ev (cfg_postfix c cfg) None [] x) = [0; 1].
Proof. exists (flatten false k1_tree), [0; 1; 2; 3], (ev_of 101%N), x_init. vm_compute. conj_split; reflexivity. Qed.

(* ms_guardb, first half (no state below the <parallel> is entered after the <final>): C03-K4 *)
Lemma microstep_equiv_premature_done_refuted_lemma :
  exists c l x sel,
    wf_coreb c = true /\ leaf_okb c = true /\ par_nonemptyb c = true /\ done_okb c = true /\
    legal_configb c (l_cfg l) = true /\ ascb (l_cfg l) = true /\
    (forall ti, In ti sel -> In (ft_source (tr c ti)) (l_cfg l)) /\ pairwise_ok lg_fixed c sel /\ plain_transb c sel = true /\
    ms_parts c l (sel_targets c sel) (sel_exitset c (l_cfg l) sel) sel false = (false, true) /\
    l_cfg (fst (fmicrostep ex_fixed c l x (sel_targets c sel) (sel_exitset c (l_cfg l) sel) sel false)) =
    l_cfg (fst (microstep lg_fixed ex_fixed c l x (sel_targets c sel) (sel_exitset c (l_cfg l) sel) sel false)) /\
    snd (fmicrostep ex_fixed c l x (sel_targets c sel) (sel_exitset c (l_cfg l) sel) sel false) <>
    snd (microstep lg_fixed ex_fixed c l x (sel_targets c sel) (sel_exitset c (l_cfg l) sel) sel false).
Proof.
  exists (flatten false k4_tree), (l_of [0; 1] []), x_init, [0].
  conj_split; try (vm_compute; reflexivity).
  - intros ti [<-|[]]. vm_compute. auto.
  - apply pairwise_single.
  - vm_compute. discriminate.
Qed.

(* ms_guardb, second half (at most one <parallel> ancestor is done): nested <parallel>s *)
Lemma microstep_equiv_nested_done_order_refuted_lemma :
  exists c l x sel,
    wf_coreb c = true /\ leaf_okb c = true /\ par_nonemptyb c = true /\
    legal_configb c (l_cfg l) = true /\ ascb (l_cfg l) = true /\
    (forall ti, In ti sel -> In (ft_source (tr c ti)) (l_cfg l)) /\ pairwise_ok lg_fixed c sel /\ plain_transb c sel = true /\
    ms_parts c l (sel_targets c sel) (sel_exitset c (l_cfg l) sel) sel false = (true, false) /\
    map ev_name (x_iq (snd (fmicrostep ex_fixed c l x (sel_targets c sel) (sel_exitset c (l_cfg l) sel) sel false))) =
      [s_done_state ++ state_name 4%N; s_done_state ++ state_name 1%N; s_done_state ++ state_name 3%N] /\
    map ev_name (x_iq (snd (microstep lg_fixed ex_fixed c l x (sel_targets c sel) (sel_exitset c (l_cfg l) sel) sel false))) =
      [s_done_state ++ state_name 4%N; s_done_state ++ state_name 3%N; s_done_state ++ state_name 1%N].
Proof.
  exists (flatten false nest_tree), (l_of [0; 1; 2; 3; 4; 5] []), x_init, [0].
  conj_split; try (vm_compute; reflexivity).
  - intros ti [<-|[]]. vm_compute. auto 10.
  - apply pairwise_single.
Qed.

(* whole runs: the three deviations are observable in the trace *)
Lemma run_equiv_without_guard_refuted_lemma :
  forall t, In t [k1_tree; k4_tree; nest_tree] ->
    let c := flatten false t in
    eq_chartb c = true /\ eq_guard_run ex_fixed c 12 l_pristine x_init [[101%N]] = false /\
    run_fast ex_fixed false t [[101%N]] 12 <> run_large lg_fixed ex_fixed false t [[101%N]] 12.
Proof.
  intros t [<-|[<-|[<-|[]]]]; vm_compute; (split; [reflexivity|]); (split; [reflexivity|]); discriminate.
Qed.

(* par_nonemptyb: a child-less <parallel> *)
Lemma run_equiv_childless_parallel_refuted_lemma :
  exists t evs fuel,
    let c := flatten false t in
    wf_coreb c = true /\ fs_type (st c 0) = FCompound /\ leaf_okb c = true /\ trans_tableb c = true /\ par_nonemptyb c = false /\
    eq_guard_run ex_fixed c fuel l_pristine x_init evs = true /\
    run_fast ex_fixed false t evs fuel <> run_large lg_fixed ex_fixed false t evs fuel.
Proof. exists cp_tree, [[101%N]], 12. vm_compute. conj_split; try reflexivity. discriminate. Qed.

(* _initializedData: the engine states are related, not equal *)
Lemma microstep_literal_equality_refuted_lemma :
  exists c,
    eq_chartb c = true /\ ms_guardb c l_pristine (fs_completion (st c 0)) [] [] true = true /\
    l_initd (fst (fmicrostep ex_fixed c l_pristine x_init (fs_completion (st c 0)) [] [] true)) = [0; 1] /\
    l_initd (fst (microstep lg_fixed ex_fixed c l_pristine x_init (fs_completion (st c 0)) [] [] true)) = [].
Proof. exists (flatten false ex_tree). vm_compute. conj_split; reflexivity. Qed.
