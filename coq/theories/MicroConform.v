(* MicroConform.v -- definitions for C01's microstep comparison: one microstep of the LargeMicroStep model
   (Large.microstep) against one microstep of Appendix D (Spec.spec_microstep) on the history-free core.
   Definitions only (the state correspondence, the boolean hypotheses); proofs are in MicroConformLemmas.v,
   MicroConformEntry.v and MicroConformFlatten.v. *)
From V Require Import Base NameMatch Chart Exec Large Spec SelectConformRoot.
Local Open Scope nat_scope.

(* In(sid) occurs in executable content *)
Fixpoint mentions_i (sid : N) (i : instr) : bool :=
  match i with
  | IIf _ c body =>
    mentions sid c ||
    (fix go (l : list ifitem) : bool :=
       match l with
       | [] => false
       | FElseif c' :: r => mentions sid c' || go r
       | FElse :: r => go r
       | FInstr j :: r => mentions_i sid j || go r
       end) body
  | _ => false
  end.
Definition mentions_b (sid : N) (b : block) : bool := existsb (mentions_i sid) b.
Definition mentions_bs (sid : N) (bs : list block) : bool := existsb (mentions_b sid) bs.

(* no executable content asks In(<sid of the root>): the engine's configuration contains the <scxml>
   element (index 0), Appendix D's does not, so only this predicate could tell the two views apart *)
Definition root_silentb (c : fchart) : bool :=
  let r := fs_sid (st c 0) in
  forallb (fun i => negb (mentions_bs r (fs_onentry (st c i))) && negb (mentions_bs r (fs_onexit (st c i))))
          (seq 0 (nstates c)) &&
  forallb (fun ti => negb (mentions_b r (ft_body (tr c ti)))) (seq 0 (ntrans c)).

(* ft_has_body says whether the body is non-empty (LargeMicroStep::init sets it so) *)
Definition has_body_okb (c : fchart) : bool :=
  forallb (fun ti => ft_has_body (tr c ti) || match ft_body (tr c ti) with [] => true | _ => false end)
          (seq 0 (ntrans c)).

(* early binding: only the root carries data *)
Definition early_data_okb (c : fchart) : bool :=
  fc_late c || forallb (fun i => match fs_data (st c i) with [] => true | _ => false end) (seq 1 (nstates c - 1)).

(* no target of a transition is a proper ancestor of another target of the same transition (Appendix D
   enters the default descendants of every target, the engine only where no target lies below) *)
Definition targets_antichainb (c : fchart) : bool :=
  forallb (fun ti => forallb (fun g1 => forallb (fun g2 => negb (mem g1 (fs_ancestors (st c g2))))
                                                (ft_targets (tr c ti))) (ft_targets (tr c ti)))
          (seq 0 (ntrans c)).

(* done.state events for <parallel>s: the engine walks up from the parent of an entered <final> and tests
   every <parallel> on the way with its own recursive test; Appendix D tests the grand-parent only.  They
   agree if no <final> is the child of a <parallel> and no <final> has a <parallel> above its grand-parent
   (the complement of Spec.diag's flag 4, plus the child case) *)
Definition is_parb (c : fchart) (a : nat) : bool := match fs_type (st c a) with FParallel => true | _ => false end.
Definition done_okb (c : fchart) : bool :=
  forallb (fun i => match fs_type (st c i), fs_parent (st c i) with
                    | FFinal, Some p =>
                      negb (is_parb c p) &&
                      forallb (fun a => (a =? p) || match fs_parent (st c p) with Some g => a =? g | None => false end ||
                                        negb (is_parb c a)) (fs_ancestors (st c i))
                    | _, _ => true
                    end) (seq 0 (nstates c)).

(* which states have had their data initialised: the engine records only states that have data *)
Definition data_rel (c : fchart) (initd entered : list nat) : Prop :=
  forall i, fs_data (st c i) <> [] -> mem i initd = mem i entered.

(* corresponding interpreter states: same configuration except that the engine's contains the root,
   "top-level final reached" = not running, the same states count as data-initialised *)
Definition corr (c : fchart) (l : lstate) (s : sstate) : Prop :=
  l_cfg l = 0 :: s_cfg s /\ l_tlf l = negb (s_running s) /\ data_rel c (l_initd l) (s_entered s).

(* the selection the engine computes from, as in Large.select_and_step *)
Definition sel_targets (c : fchart) (sel : list nat) : list nat :=
  fold_left (fun a ti => set_union a (ft_targets (tr c ti))) sel [].
Definition sel_exitset (c : fchart) (cfg sel : list nat) : list nat :=
  fold_left (fun a ti => set_union a (exit_states_of lg_fixed c cfg (tr c ti))) sel [].
