(* LegalHistParWf.v -- the boolean check wf_histpb of the record WFHP (LegalHistParBase.v): wf_histb generalised to
   <history> directly below <parallel>, its soundness wf_histpb c = true -> WFHP c, and
   wf_histb c = true -> wf_histpb c = true. *)
From V Require Import Base NameMatch Chart Exec Large Legal SetLemmas LegalAbstract LegalLarge WfCore LegalHistBase LegalHistWf LegalHistFast LegalHistParBase.
Local Open Scope nat_scope.

Section HPCheck.
Variable c : fchart.
Let n := nstates c.
Let par (i : nat) := fs_parent (st c i).
Let ch (i : nat) := fs_children (st c i).
Let kd (i : nat) := fs_type (st c i).
Let anc (i : nat) := fs_ancestors (st c i).
Let cpl (i : nat) := fs_completion (st c i).

Definition is_par (t : ftype) : bool := match t with FParallel => true | _ => false end.

(* hist_par_ok: a list that names a history h of a parallel state q names, below q, only children of q and no
   other pseudo-state *)
Definition hist_par_okb (T : list nat) : bool :=
  forallb (fun h => if is_hist (kd h) then
                      match par h with
                      | Some q => if is_par (kd q) then
                                    forallb (fun g => negb (mem q (anc g)) ||
                                                      (opt_eqb (par g) q && (negb (is_pseudo (kd g)) || (g =? h)))) T
                                  else true
                      | None => true
                      end
                    else true) T.

Definition whpb_pseudo_parent : bool :=
  forallb (fun i => if is_pseudo (kd i) then
                      match par i with Some q => is_comp (kd q) || (is_hist (kd i) && is_par (kd q)) | None => false end
                    else true) (seq 0 n).
Definition whpb_completion : bool :=
  forallb (fun i => match kd i with
                    | FCompound => negb (is_nil (cpl i)) && forallb (fun g => mem i (anc g)) (cpl i) && one_childb c (cpl i) &&
                                   hist_par_okb (cpl i)
                    | FParallel => list_eqb (cpl i) (filter (fun k => negb (is_pseudo (kd k))) (ch i))
                    | _ => true
                    end) (seq 0 n).
Definition whpb_target_sets : bool :=
  forallb (fun ti => one_childb c (ft_targets (tr c ti)) && hist_par_okb (ft_targets (tr c ti))) (seq 0 (ntrans c)).
(* a history of a parallel state: the parallel has a region, the history precedes the regions *)
Definition whpb_par_hist : bool :=
  forallb (fun i => if is_hist (kd i) then
                      match par i with
                      | Some q => if is_par (kd q) then
                                    negb (is_nil (cpl q)) && forallb (fun k => is_pseudo (kd k) || (i <? k)) (ch q)
                                  else true
                      | None => true
                      end
                    else true) (seq 0 n).

Definition wf_histpb : bool :=
  wfb_nonempty c && wfb_root c && wfb_parent c && wfb_children c && wfb_anc c && wfb_interval c &&
  wfb_root_type c && wfb_src c && wfb_targets c &&
  whpb_pseudo_parent && whb_pseudo_leaf c && whpb_completion && whpb_target_sets &&
  whb_initial c && whb_hist_default c && whb_hist_cpl c && whb_hist_disjoint c && whpb_par_hist.

End HPCheck.

Section HPSound.
Variable c : fchart.
Let n := nstates c.
Let par (i : nat) := fs_parent (st c i).
Let ch (i : nat) := fs_children (st c i).
Let kd (i : nat) := fs_type (st c i).
Let anc (i : nat) := fs_ancestors (st c i).
Let cpl (i : nat) := fs_completion (st c i).
Notation Anc := (LegalAbstract.Anc par).

Hypothesis H : wf_histpb c = true.

Lemma hst_out_p i : n <= i -> st c i = dummy_state.
Proof. intros Hi. unfold st. now apply nth_overflow. Qed.
Lemma htr_out_p i : ntrans c <= i -> tr c i = dummy_trans.
Proof. intros Hi. unfold tr. now apply nth_overflow. Qed.

Lemma hforallb_seq_p (f : nat -> bool) m : forallb f (seq 0 m) = true <-> forall i, i < m -> f i = true.
Proof.
  rewrite forallb_forall. split; intros Hf i Hi.
  - apply Hf. apply in_seq. lia.
  - apply in_seq in Hi. apply Hf. lia.
Qed.

Lemma hparts_p :
  wfb_nonempty c = true /\ wfb_root c = true /\ wfb_parent c = true /\ wfb_children c = true /\
  wfb_anc c = true /\ wfb_interval c = true /\ wfb_root_type c = true /\ wfb_src c = true /\ wfb_targets c = true /\
  whpb_pseudo_parent c = true /\ whb_pseudo_leaf c = true /\ whpb_completion c = true /\ whpb_target_sets c = true /\
  whb_initial c = true /\ whb_hist_default c = true /\ whb_hist_cpl c = true /\ whb_hist_disjoint c = true /\
  whpb_par_hist c = true.
Proof.
  unfold wf_histpb in H. repeat (apply andb_true_iff in H as [H ?]). repeat split; assumption.
Qed.

Lemma hroot_par_p : par 0 = None.
Proof. destruct hparts_p as (_ & P & _). unfold wfb_root in P. unfold par. destruct (fs_parent (st c 0)); [discriminate | reflexivity]. Qed.

Lemma hpar_in_p i : i < n -> match par i with Some p => p < i | None => i = 0 end.
Proof.
  intros Hi. destruct hparts_p as (_ & _ & P & _). unfold wfb_parent in P. rewrite hforallb_seq_p in P. specialize (P i Hi).
  unfold par. destruct (fs_parent (st c i)); [now apply Nat.ltb_lt | now apply Nat.eqb_eq].
Qed.

Lemma hpar_out_p i : n <= i -> par i = None.
Proof. intros Hi. unfold par. now rewrite hst_out_p. Qed.

Lemma hpar_lt_p i p : par i = Some p -> p < i /\ i < n.
Proof.
  intros Hp. destruct (Nat.lt_ge_cases i n) as [Hi|Hi].
  - pose proof (hpar_in_p i Hi) as P. rewrite Hp in P. tauto.
  - rewrite (hpar_out_p i Hi) in Hp. discriminate.
Qed.

Lemma hpar_some_p i : 0 < i -> i < n -> exists p, par i = Some p.
Proof. intros H0 Hi. pose proof (hpar_in_p i Hi) as P. destruct (par i) as [p|]; [now exists p | lia]. Qed.

Lemma hch_in_p p : p < n -> ch p = filter (fun k => opt_eqb (par k) p) (seq 0 n).
Proof.
  intros Hp. destruct hparts_p as (_ & _ & _ & P & _). unfold wfb_children in P. rewrite hforallb_seq_p in P.
  specialize (P p Hp). now apply list_eqb_eq in P.
Qed.

Lemma hchildren_spec_p p k : In k (ch p) <-> par k = Some p.
Proof.
  destruct (Nat.lt_ge_cases p n) as [Hp|Hp].
  - rewrite (hch_in_p p Hp), filter_In, in_seq. unfold opt_eqb. split.
    + intros [_ Hk]. destruct (par k) as [q|]; [apply Nat.eqb_eq in Hk; now subst | discriminate].
    + intros Hk. destruct (hpar_lt_p _ _ Hk). split; [lia|]. rewrite Hk. apply Nat.eqb_refl.
  - unfold ch. rewrite (hst_out_p p Hp). cbn. split; [tauto|]. intros Hk. destruct (hpar_lt_p _ _ Hk). lia.
Qed.

Lemma hchildren_nodup_p p : NoDup (ch p).
Proof.
  destruct (Nat.lt_ge_cases p n) as [Hp|Hp].
  - rewrite (hch_in_p p Hp). apply NoDup_filter, seq_NoDup.
  - unfold ch. rewrite (hst_out_p p Hp). constructor.
Qed.

Lemma hanc_in_p i : i < n -> anc i = match par i with Some p => insert_sorted p (anc p) | None => [] end.
Proof.
  intros Hi. destruct hparts_p as (_ & _ & _ & _ & P & _). unfold wfb_anc in P. rewrite hforallb_seq_p in P.
  specialize (P i Hi). now apply list_eqb_eq in P.
Qed.

Lemma hanc_spec_p : forall i a, In a (anc i) <-> Anc a i.
Proof.
  induction i as [i IH] using lt_wf_ind. intros a.
  destruct (Nat.lt_ge_cases i n) as [Hi|Hi].
  - rewrite (hanc_in_p i Hi). destruct (par i) as [p|] eqn:Hp.
    + destruct (hpar_lt_p _ _ Hp) as [Hlt _]. rewrite In_insert_sorted', (IH p Hlt). split.
      * intros [->|Ha]; [now apply anc_parent | eapply anc_step; eauto].
      * intros Ha. destruct (anc_child par _ _ _ Hp Ha); tauto.
    + split; [intros [] | intros Ha; inversion Ha; congruence].
  - unfold anc. rewrite (hst_out_p i Hi). cbn. split; [tauto|].
    intros Ha. inversion Ha as [? p Hp|? p ? Hp _]; subst; rewrite (hpar_out_p i Hi) in Hp; discriminate.
Qed.

Lemma hinterval_spec_p a i : a < n -> i < n -> (Anc a i <-> a < i /\ i < a + fs_size (st c a)).
Proof.
  intros Ha Hi. destruct hparts_p as (_ & _ & _ & _ & _ & P & _). unfold wfb_interval in P.
  rewrite hforallb_seq_p in P. specialize (P a Ha). rewrite hforallb_seq_p in P. specialize (P i Hi).
  apply eqb_prop in P. rewrite <- hanc_spec_p, <- mem_In. unfold anc at 1. rewrite P.
  rewrite andb_true_iff, !Nat.ltb_lt. tauto.
Qed.

Lemma hroot_type_p : kd 0 <> FParallel.
Proof.
  destruct hparts_p as (_ & _ & _ & _ & _ & _ & P & _). unfold wfb_root_type in P. unfold kd in *.
  destruct (fs_type (st c 0)); try discriminate; congruence.
Qed.

Lemma hkd_out_p i : n <= i -> kd i = FAtomic.
Proof. intros Hi. unfold kd. now rewrite hst_out_p. Qed.

Lemma hkd_in_p i : kd i <> FAtomic -> i < n.
Proof. intros Hk. destruct (Nat.lt_ge_cases i n) as [Hi|Hi]; [exact Hi | now rewrite (hkd_out_p i Hi) in Hk]. Qed.

Lemma hsrc_spec_p s ti : In ti (fs_trans (st c s)) -> ft_source (tr c ti) = s.
Proof.
  intros Hti. destruct (Nat.lt_ge_cases s n) as [Hs|Hs].
  - destruct hparts_p as (_ & _ & _ & _ & _ & _ & _ & P & _). unfold wfb_src in P. rewrite hforallb_seq_p in P.
    specialize (P s Hs). rewrite forallb_forall in P. specialize (P ti Hti). now apply Nat.eqb_eq.
  - rewrite (hst_out_p s Hs) in Hti. destruct Hti.
Qed.

Lemma htargets_spec_p ti g : In g (ft_targets (tr c ti)) -> 0 < g /\ g < n.
Proof.
  intros Hg. destruct (Nat.lt_ge_cases ti (ntrans c)) as [Ht|Ht].
  - destruct hparts_p as (_ & _ & _ & _ & _ & _ & _ & _ & P & _). unfold wfb_targets in P. rewrite hforallb_seq_p in P.
    specialize (P ti Ht). rewrite forallb_forall in P. specialize (P g Hg).
    apply andb_true_iff in P as [A B]. apply Nat.ltb_lt in A, B. tauto.
  - rewrite (htr_out_p ti Ht) in Hg. destruct Hg.
Qed.

Lemma one_childb_sound_p T : one_childb c T = true -> one_child_per_compound c T.
Proof.
  intros P j k1 k2 g1 g2 Hk H1 H2 Hg1 Hg2 P1 P2.
  assert (Hj : j < n) by (apply hkd_in_p; unfold kd; rewrite Hk; discriminate).
  unfold one_childb in P. rewrite hforallb_seq_p in P. specialize (P j Hj). rewrite Hk in P. apply Nat.leb_le in P.
  assert (Hon : forall k g, In g T -> on_pathP c k g -> existsb (on_path c k) T = true).
  { intros k g Hg [->|Ha]; apply existsb_exists; exists g; (split; [exact Hg|]); unfold on_path.
    - now rewrite Nat.eqb_refl.
    - apply orb_true_iff. right. apply mem_In. now apply hanc_spec_p. }
  apply hchildren_spec_p in H1, H2.
  eapply (@filter_le1 c nat _ (fs_children (st c j)) (hchildren_nodup_p j) P k1 k2); eauto.
Qed.

Lemma hpseudo_parent_p i : pseudoS c i = true -> exists q, par i = Some q /\
  (kd q = FCompound \/ (histS c i = true /\ kd q = FParallel)).
Proof.
  intros Hps. unfold pseudoS in Hps.
  assert (Hi : i < n) by (apply hkd_in_p; unfold kd; intros E; rewrite E in Hps; discriminate).
  destruct hparts_p as (_ & _ & _ & _ & _ & _ & _ & _ & _ & P & _). unfold whpb_pseudo_parent in P. rewrite hforallb_seq_p in P.
  specialize (P i Hi). rewrite Hps in P. unfold par. destruct (fs_parent (st c i)) as [q|]; [|discriminate].
  exists q. split; [reflexivity|]. unfold kd, histS. apply orb_true_iff in P as [P|P].
  - left. destruct (fs_type (st c q)); try discriminate. reflexivity.
  - right. apply andb_true_iff in P as [P1 P2]. split; [exact P1|]. destruct (fs_type (st c q)); try discriminate. reflexivity.
Qed.

Lemma hpseudo_leaf_p i k : pseudoS c i = true -> par k <> Some i.
Proof.
  intros Hps Hk. unfold pseudoS in Hps.
  assert (Hi : i < n) by (apply hkd_in_p; unfold kd; intros E; rewrite E in Hps; discriminate).
  destruct hparts_p as (_ & _ & _ & _ & _ & _ & _ & _ & _ & _ & P & _). unfold whb_pseudo_leaf in P. rewrite hforallb_seq_p in P.
  specialize (P i Hi). rewrite Hps in P. apply hchildren_spec_p in Hk. unfold ch in Hk.
  destruct (fs_children (st c i)); [destruct Hk | discriminate].
Qed.

Lemma hist_par_okb_sound T : hist_par_okb c T = true -> hist_par_ok c T.
Proof.
  intros P h q g Hh Hhs Hp Hq Hg Hqg. unfold hist_par_okb in P. rewrite forallb_forall in P. specialize (P h Hh).
  unfold histS in Hhs. rewrite Hhs in P. unfold par in Hp. rewrite Hp in P. unfold kd in Hq. rewrite Hq in P. cbn [is_par] in P.
  rewrite forallb_forall in P. specialize (P g Hg).
  apply hanc_spec_p, mem_In in Hqg. unfold anc in Hqg. rewrite Hqg in P. cbn [negb orb] in P.
  apply andb_true_iff in P as [P1 P2]. split.
  - unfold opt_eqb in P1. unfold par. destruct (fs_parent (st c g)) as [p|]; [|discriminate]. apply Nat.eqb_eq in P1. now subst.
  - intros Hps. unfold pseudoS in Hps. rewrite Hps in P2. cbn [negb orb] in P2. now apply Nat.eqb_eq in P2.
Qed.

Lemma hcompletion_in_p i : i < n ->
  match kd i with
  | FCompound => cpl i <> [] /\ (forall g, In g (cpl i) -> Anc i g) /\ one_child_per_compound c (cpl i) /\ hist_par_ok c (cpl i)
  | FParallel => cpl i = filter (fun k => negb (is_pseudo (kd k))) (ch i)
  | _ => True end.
Proof.
  intros Hi. destruct hparts_p as (_ & _ & _ & _ & _ & _ & _ & _ & _ & _ & _ & P & _). unfold whpb_completion in P.
  rewrite hforallb_seq_p in P. specialize (P i Hi). unfold kd, cpl, ch in *. destruct (fs_type (st c i)); try exact I.
  - apply andb_true_iff in P as [P P4]. apply andb_true_iff in P as [P P3]. apply andb_true_iff in P as [P1 P2]. split; [|split; [|split]].
    + intros E. rewrite E in P1. discriminate.
    + intros g Hg. rewrite forallb_forall in P2. specialize (P2 g Hg). apply mem_In in P2. now apply hanc_spec_p.
    + now apply one_childb_sound_p.
    + now apply hist_par_okb_sound.
  - now apply list_eqb_eq.
Qed.

Lemma hcompound_spec_p i : kd i = FCompound -> cpl i <> [] /\ (forall g, In g (cpl i) -> Anc i g).
Proof.
  intros Hk. assert (Hi : i < n) by (apply hkd_in_p; rewrite Hk; discriminate).
  pose proof (hcompletion_in_p i Hi) as P. rewrite Hk in P. tauto.
Qed.

Lemma hcpl_sets_p i : kd i = FCompound -> one_child_per_compound c (cpl i) /\ hist_par_ok c (cpl i).
Proof.
  intros Hk. assert (Hi : i < n) by (apply hkd_in_p; rewrite Hk; discriminate).
  pose proof (hcompletion_in_p i Hi) as P. rewrite Hk in P. tauto.
Qed.

Lemma hparallel_spec_p i k : kd i = FParallel -> (In k (cpl i) <-> par k = Some i /\ pseudoS c k = false).
Proof.
  intros Hk. assert (Hi : i < n) by (apply hkd_in_p; rewrite Hk; discriminate).
  pose proof (hcompletion_in_p i Hi) as P. rewrite Hk in P. rewrite P, filter_In, hchildren_spec_p, negb_true_iff. unfold pseudoS, kd. tauto.
Qed.

Lemma htarget_sets_p ti : one_child_per_compound c (ft_targets (tr c ti)) /\ hist_par_ok c (ft_targets (tr c ti)).
Proof.
  destruct (Nat.lt_ge_cases ti (ntrans c)) as [Ht|Ht].
  - destruct hparts_p as (_ & _ & _ & _ & _ & _ & _ & _ & _ & _ & _ & _ & P & _). unfold whpb_target_sets in P.
    rewrite hforallb_seq_p in P. specialize (P ti Ht). apply andb_true_iff in P as [P1 P2].
    split; [now apply one_childb_sound_p | now apply hist_par_okb_sound].
  - rewrite (htr_out_p ti Ht). split; [intros j k1 k2 g1 g2 _ _ _ [] | intros h q g []].
Qed.

Lemma hinitial_spec_p i q : kd i = FInitial -> par i = Some q ->
  exists ti, fs_trans (st c i) = [ti] /\ ft_targets (tr c ti) <> [] /\
             forall g, In g (ft_targets (tr c ti)) -> Anc q g /\ i < g /\ pseudoS c g = false.
Proof.
  intros Hk Hp. assert (Hi : i < n) by (apply hkd_in_p; rewrite Hk; discriminate).
  destruct hparts_p as (_ & _ & _ & _ & _ & _ & _ & _ & _ & _ & _ & _ & _ & P & _). unfold whb_initial in P.
  rewrite hforallb_seq_p in P. specialize (P i Hi). unfold kd, par in *. rewrite Hk, Hp in P.
  destruct (fs_trans (st c i)) as [|ti [|? ?]]; try discriminate. exists ti. split; [reflexivity|].
  apply andb_true_iff in P as [P1 P2]. split.
  - intros E. rewrite E in P1. discriminate.
  - intros g Hg. rewrite forallb_forall in P2. specialize (P2 g Hg).
    apply andb_true_iff in P2 as [P2 C]. apply andb_true_iff in P2 as [A B].
    split; [apply hanc_spec_p; now apply mem_In|]. split; [now apply Nat.ltb_lt|].
    unfold pseudoS. now apply negb_true_iff in C.
Qed.

Lemma hhist_kd_p i : histS c i = true -> i < n.
Proof. intros Hh. unfold histS in Hh. apply hkd_in_p. unfold kd. intros E. rewrite E in Hh. discriminate. Qed.

Lemma deep_eq_p i : is_deep (fs_type (st c i)) = deepS c i.
Proof. reflexivity. Qed.

Lemma hhist_default_p i q : histS c i = true -> par i = Some q ->
  exists ti r, fs_trans (st c i) = ti :: r /\ ft_targets (tr c ti) <> [] /\
               forall g, In g (ft_targets (tr c ti)) ->
                         i < g /\ pseudoS c g = false /\ (if deepS c i then Anc q g else par g = Some q).
Proof.
  intros Hh Hp. pose proof (hhist_kd_p i Hh) as Hi. unfold histS in Hh.
  destruct hparts_p as (_ & _ & _ & _ & _ & _ & _ & _ & _ & _ & _ & _ & _ & _ & P & _). unfold whb_hist_default in P.
  rewrite hforallb_seq_p in P. specialize (P i Hi). unfold par in *. rewrite Hh, Hp in P.
  destruct (fs_trans (st c i)) as [|ti r]; [discriminate|]. exists ti, r. split; [reflexivity|].
  apply andb_true_iff in P as [P1 P2]. split.
  - intros E. rewrite E in P1. discriminate.
  - intros g Hg. rewrite forallb_forall in P2. specialize (P2 g Hg).
    apply andb_true_iff in P2 as [P2 C]. apply andb_true_iff in P2 as [A B].
    split; [now apply Nat.ltb_lt|]. split; [unfold pseudoS; now apply negb_true_iff in B|].
    rewrite deep_eq_p in C. destruct (deepS c i).
    + apply hanc_spec_p. now apply mem_In.
    + unfold opt_eqb in C. destruct (fs_parent (st c g)) as [p|]; [|discriminate]. apply Nat.eqb_eq in C. now subst.
Qed.

Lemma hpar_hist_p i q : histS c i = true -> par i = Some q -> kd q = FParallel ->
  cpl q <> [] /\ forall k, par k = Some q -> pseudoS c k = false -> i < k.
Proof.
  intros Hh Hp Hq. pose proof (hhist_kd_p i Hh) as Hi. unfold histS in Hh.
  destruct hparts_p as (_ & _ & _ & _ & _ & _ & _ & _ & _ & _ & _ & _ & _ & _ & _ & _ & _ & P). unfold whpb_par_hist in P.
  rewrite hforallb_seq_p in P. specialize (P i Hi). unfold par in *. rewrite Hh, Hp in P. unfold kd in Hq. rewrite Hq in P. cbn [is_par] in P.
  apply andb_true_iff in P as [P1 P2]. split.
  - intros E. unfold cpl in E. rewrite E in P1. discriminate.
  - intros k Hk Hps. apply hchildren_spec_p in Hk. rewrite forallb_forall in P2. specialize (P2 k Hk).
    unfold pseudoS in Hps. rewrite Hps in P2. cbn [orb] in P2. now apply Nat.ltb_lt.
Qed.

Lemma hhist_cpl_p i q : histS c i = true -> par i = Some q ->
  (forall x, In x (cpl i) -> x < n /\ (pseudoS c x = false -> i < x) /\
             (par x = Some q \/ (deepS c i = true /\ exists p, par x = Some p /\ In p (cpl i)))) /\
  (forall k, par k = Some q -> pseudoS c k = false -> In k (cpl i)).
Proof.
  intros Hh Hp. pose proof (hhist_kd_p i Hh) as Hi. unfold histS in Hh.
  destruct hparts_p as (_ & _ & _ & _ & _ & _ & _ & _ & _ & _ & _ & _ & _ & _ & _ & P & _). unfold whb_hist_cpl in P.
  rewrite hforallb_seq_p in P. specialize (P i Hi). unfold par in *. rewrite Hh, Hp in P.
  apply andb_true_iff in P as [P1 P2]. split.
  - intros x Hx. rewrite forallb_forall in P1. specialize (P1 x Hx).
    apply andb_true_iff in P1 as [P1 C]. apply andb_true_iff in P1 as [A B].
    split; [now apply Nat.ltb_lt|]. split.
    + intros Hps. unfold pseudoS in Hps. rewrite Hps in B. cbn in B. now apply Nat.ltb_lt.
    + apply orb_true_iff in C as [C|C].
      * left. unfold opt_eqb in C. destruct (fs_parent (st c x)) as [p|]; [|discriminate]. apply Nat.eqb_eq in C. now subst.
      * right. apply andb_true_iff in C as [C1 C2]. split; [exact C1|].
        destruct (fs_parent (st c x)) as [p|]; [|discriminate]. exists p. split; [reflexivity | now apply mem_In].
  - intros k Hk Hps. apply hchildren_spec_p in Hk. rewrite forallb_forall in P2. specialize (P2 k Hk).
    unfold pseudoS in Hps. rewrite Hps in P2. cbn in P2. now apply mem_In.
Qed.

Lemma hhist_disjoint_p h1 h2 x : histS c h1 = true -> histS c h2 = true ->
  In x (cpl h1) -> In x (cpl h2) -> pseudoS c x = false -> par h1 = par h2.
Proof.
  intros H1 H2 Hx1 Hx2 Hps.
  pose proof (hhist_kd_p h1 H1) as Hn1. pose proof (hhist_kd_p h2 H2) as Hn2. unfold histS in H1, H2.
  destruct hparts_p as (_ & _ & _ & _ & _ & _ & _ & _ & _ & _ & _ & _ & _ & _ & _ & _ & P & _). unfold whb_hist_disjoint in P.
  rewrite hforallb_seq_p in P. specialize (P h1 Hn1). rewrite hforallb_seq_p in P. specialize (P h2 Hn2).
  rewrite H1, H2 in P. cbn [andb] in P. unfold par.
  destruct (opt_nat_eqb (fs_parent (st c h1)) (fs_parent (st c h2))) eqn:E.
  - unfold opt_nat_eqb in E. destruct (fs_parent (st c h1)), (fs_parent (st c h2)); try discriminate; [|reflexivity].
    apply Nat.eqb_eq in E. now subst.
  - exfalso. cbn [negb] in P. rewrite forallb_forall in P. specialize (P x Hx1). unfold pseudoS in Hps. rewrite Hps in P. cbn [orb] in P.
    apply negb_true_iff, mem_false_In in P. contradiction.
Qed.

Theorem wf_histpb_sound : WFHP c.
Proof.
  constructor.
  - exact hroot_par_p.
  - exact hpar_lt_p.
  - exact hpar_some_p.
  - exact hchildren_spec_p.
  - exact hchildren_nodup_p.
  - exact hanc_spec_p.
  - exact hinterval_spec_p.
  - exact hroot_type_p.
  - exact hpseudo_parent_p.
  - exact hpseudo_leaf_p.
  - exact hcompound_spec_p.
  - exact hcpl_sets_p.
  - exact hparallel_spec_p.
  - exact hsrc_spec_p.
  - exact htargets_spec_p.
  - exact htarget_sets_p.
  - exact hinitial_spec_p.
  - exact hhist_default_p.
  - exact hpar_hist_p.
  - exact hhist_cpl_p.
  - exact hhist_disjoint_p.
Qed.

End HPSound.

(* ------------------------------------------------------------------ wf_histb is the special case *)

Lemma forallb_imp {A} (f g : A -> bool) l : (forall x, In x l -> f x = true -> g x = true) -> forallb f l = true -> forallb g l = true.
Proof. intros Hi Hf. rewrite forallb_forall in *. intros x Hx. apply Hi; [exact Hx | now apply Hf]. Qed.

Section HistbSub.
Variable c : fchart.
Hypothesis H : wf_histb c = true.
Let W : WFH c := wf_histb_sound c H.

Lemma no_hist_below_parallel h q : is_hist (fs_type (st c h)) = true -> fs_parent (st c h) = Some q -> is_par (fs_type (st c q)) = false.
Proof.
  intros Hh Hp.
  assert (Hps : pseudoS c h = true) by (unfold pseudoS; destruct (fs_type (st c h)); try discriminate; reflexivity).
  destruct (wh_pseudo_parent c W h Hps) as (q' & Hq' & Hkq). rewrite Hp in Hq'. injection Hq' as <-. now rewrite Hkq.
Qed.

Lemma hist_par_okb_histb T : hist_par_okb c T = true.
Proof.
  unfold hist_par_okb. apply forallb_forall. intros h _.
  destruct (is_hist (fs_type (st c h))) eqn:Hh; [|reflexivity].
  destruct (fs_parent (st c h)) as [q|] eqn:Hp; [|reflexivity]. now rewrite (no_hist_below_parallel h q Hh Hp).
Qed.

Theorem wf_histb_histpb : wf_histpb c = true.
Proof.
  pose proof H as H0. unfold wf_histb in H0. repeat (apply andb_true_iff in H0 as [H0 ?]).
  unfold wf_histpb. repeat (apply andb_true_iff; split); try assumption.
  - match goal with Hq : whb_pseudo_parent c = true |- _ => revert Hq end. unfold whb_pseudo_parent, whpb_pseudo_parent.
    apply forallb_imp. intros i _. destruct (is_pseudo (fs_type (st c i))); [|tauto].
    destruct (fs_parent (st c i)); [|tauto]. intros ->. reflexivity.
  - match goal with Hq : whb_completion c = true |- _ => revert Hq end. unfold whb_completion, whpb_completion.
    apply forallb_imp. intros i _. destruct (fs_type (st c i)) eqn:Hk; try tauto.
    + intros ->. now rewrite hist_par_okb_histb.
    + intros Hq. apply list_eqb_eq in Hq. apply list_eqb_eq. rewrite Hq. symmetry. apply LegalHistFast.filter_all_true.
      intros k Hk'. apply negb_true_iff. apply (wh_children c W) in Hk'.
      destruct (is_pseudo (fs_type (st c k))) eqn:E; [|reflexivity]. exfalso.
      destruct (wh_pseudo_parent c W k E) as (q' & Hq' & Hkq). rewrite Hk' in Hq'. injection Hq' as <-. congruence.
  - match goal with Hq : whb_target_sets c = true |- _ => revert Hq end. unfold whb_target_sets, whpb_target_sets.
    apply forallb_imp. intros ti _ ->. now rewrite hist_par_okb_histb.
  - unfold whpb_par_hist. apply forallb_forall. intros i _.
    destruct (is_hist (fs_type (st c i))) eqn:Hh; [|reflexivity].
    destruct (fs_parent (st c i)) as [q|] eqn:Hp; [|reflexivity]. now rewrite (no_hist_below_parallel i q Hh Hp).
Qed.

End HistbSub.
