(* JsonRtBuild.v -- round trip, part 2: Data::fromJSON's stack-based builder, run on the token layout
   [toks_core] of a value of the property's class over the text toJSON wrote, rebuilds that value. *)
From V Require Import Base Jsmn Json JsmnLemmas JsonLemmas JsonEventLemmas JsonRtTokenize.
From Coq Require Import Lia ZArith.
Local Open Scope N_scope.

(* ---------------------------------------------------------------------------------------- *)
(* sub-lists at a position *)

Definition sub_at {A} (l : list A) (p : nat) (x : list A) : Prop := firstn (length x) (skipn p l) = x.

Lemma skipn_add {A} (a b : nat) : forall l : list A, skipn (a + b) l = skipn b (skipn a l).
Proof.
  induction a as [|a IH]; intros l; [reflexivity|]. destruct l; [now rewrite !skipn_nil|]. cbn [Nat.add skipn]. apply IH.
Qed.

Lemma sub_at_app {A} (l : list A) p a b :
  sub_at l p (a ++ b) -> sub_at l p a /\ sub_at l (p + length a) b.
Proof.
  unfold sub_at. rewrite app_length. intros H.
  pose proof (firstn_skipn (length a + length b) (skipn p l)) as E. rewrite H in E. symmetry in E.
  split.
  - rewrite E, <- app_assoc, firstn_app, Nat.sub_diag. cbn [firstn]. rewrite app_nil_r.
    now rewrite firstn_all.
  - rewrite skipn_add. rewrite E at 1. rewrite <- app_assoc.
    rewrite skipn_app, Nat.sub_diag, skipn_all. cbn [skipn app].
    rewrite firstn_app, Nat.sub_diag. cbn [firstn]. rewrite app_nil_r. now rewrite firstn_all.
Qed.

Lemma sub_at_cons {A} (l : list A) p x r : sub_at l p (x :: r) -> nth_error l p = Some x /\ sub_at l (S p) r.
Proof.
  intros H. change (x :: r) with ([x] ++ r) in H. apply sub_at_app in H as [H1 H2].
  split; [|now rewrite Nat.add_1_r in H2].
  unfold sub_at in H1. cbn [length] in H1. clear H2. revert p H1. induction l as [|y l IH]; intros p H1.
  - rewrite skipn_nil in H1. discriminate.
  - destruct p; cbn in *; [now inversion H1|]. now apply IH.
Qed.

Lemma substr_sub_at js p x : sub_at js p x -> substr js (Z.of_nat p) (Z.of_nat (p + length x)) = x.
Proof.
  unfold sub_at, substr. intros H.
  replace (Z.to_nat (Z.of_nat (p + length x) - Z.of_nat p)) with (length x) by lia.
  now rewrite Nat2Z.id.
Qed.

(* ---------------------------------------------------------------------------------------- *)

Fixpoint nodes (d : data) {struct d} : nat :=
  match d with
  | D _ _ arr comp =>
    match comp with
    | _ :: _ => S (fold_right (fun kv acc => nodes (snd kv) + acc)%nat O comp)
    | [] => match arr with
            | _ :: _ => S (fold_right (fun c acc => nodes c + acc)%nat O arr)
            | [] => 1%nat
            end
    end
  end.
Definition nodes_entries (m : list (bytes * data)) : nat := fold_right (fun kv acc => nodes (snd kv) + acc)%nat O m.
Definition nodes_elems (l : list data) : nat := fold_right (fun c acc => nodes c + acc)%nat O l.

Definition popped (d : data) (fs : list frame) : dstack :=
  match fs with [] => DSEmpty d | fr :: r => DS (plug fr d) r end.

Lemma ds_pop_DS d fs : ds_pop (DS d fs) = Some (popped d fs).
Proof. destruct fs; reflexivity. Qed.

Lemma ds_root_popped d fs : ds_root (popped d fs) = ds_root (DS d fs).
Proof. destruct fs; reflexivity. Qed.

Lemma unescape_plain s : forallb (fun c => negb (c =? 92)) s = true -> json_unescape s = s.
Proof.
  unfold json_unescape. induction s as [|c r IH]; [reflexivity|]. cbn [forallb]. intros H.
  apply andb_true_iff in H as [H1 H2]. apply negb_true_iff in H1. cbn [json_unescape_with]. rewrite H1.
  now rewrite IH.
Qed.

Lemma num_no_bslash s : forallb num_char s = true -> forallb (fun c => negb (c =? 92)) s = true.
Proof.
  induction s as [|c r IH]; [reflexivity|]. cbn [forallb]. intros H. apply andb_true_iff in H as [H1 H2].
  rewrite IH by exact H2. apply num_char_cases in H1. cbn [In] in H1.
  repeat (destruct H1 as [<-|H1]; [reflexivity|]). contradiction.
Qed.

Lemma num_not_null s : s <> [] -> forallb num_char s = true -> beq_bytes s s_null = false.
Proof.
  intros Hne H. destruct s as [|c r]; [congruence|]. cbn [forallb] in H. apply andb_true_iff in H as [H1 _].
  apply num_char_cases in H1. cbn [In] in H1.
  repeat (destruct H1 as [<-|H1]; [reflexivity|]). contradiction.
Qed.

(* the first token of a layout ends inside the text of its value *)
Lemma first_tok v ind p d :
  exists K r, toks_core v ind p d = K :: r /\ (Z.of_nat p < tend K <= Z.of_nat (p + length (core v ind d)))%Z.
Proof.
  destruct d as [vb a l m]. destruct m as [|kv m].
  - destruct l as [|x l].
    + destruct a as [|c a], vb; cbn [toks_core core leaf_json]; unfold s_null;
        eexists; eexists; (split; [reflexivity|]); cbn [tend tk length];
        repeat (rewrite app_length || cbn [length]); lia.
    + cbn [toks_core]. eexists; eexists; split; [reflexivity|]. cbn [tend tk core].
      repeat (rewrite app_length || cbn [length]). lia.
  - cbn [toks_core]. eexists; eexists; split; [reflexivity|]. cbn [tend tk core].
    repeat (rewrite app_length || cbn [length]). lia.
Qed.

Section MapSorted.
Context {A : Type}.
Lemma bytes_ltb_irrefl a : bytes_ltb a a = false.
Proof. induction a as [|x a IH]; cbn; [reflexivity|]. rewrite N.ltb_irrefl. exact IH. Qed.
Lemma bytes_ltb_asym a : forall b, bytes_ltb a b = true -> bytes_ltb b a = false.
Proof.
  induction a as [|x a IH]; intros [|y b]; cbn; try discriminate; try reflexivity.
  destruct (N.ltb_spec x y), (N.ltb_spec y x); try lia; try discriminate; try reflexivity. apply IH.
Qed.
Lemma ltb_neq a b : bytes_ltb a b = true -> beq_bytes b a = false.
Proof.
  intros H. destruct (beq_bytes b a) eqn:E; [|reflexivity]. apply beqb_eq in E. subst. now rewrite bytes_ltb_irrefl in H.
Qed.
Lemma map_find_fresh k (acc : list (bytes * A)) :
  forallb (fun kv => bytes_ltb (fst kv) k) acc = true -> map_find k acc = None.
Proof.
  induction acc as [|[k' x] r IH]; cbn; [reflexivity|]. intros H. apply andb_true_iff in H as [H1 H2].
  rewrite (ltb_neq _ _ H1). now apply IH.
Qed.
Lemma map_set_fresh k (x : A) acc :
  forallb (fun kv => bytes_ltb (fst kv) k) acc = true -> map_set k x acc = acc ++ [(k, x)].
Proof.
  induction acc as [|[k' y] r IH]; cbn; [reflexivity|]. intros H. apply andb_true_iff in H as [H1 H2].
  rewrite (ltb_neq _ _ H1), (bytes_ltb_asym _ _ H1). now rewrite IH.
Qed.
End MapSorted.

(* ---------------------------------------------------------------------------------------- *)

Section BuildRt.
Variable v : js_variant.
Hypothesis Hvtab : jv_escape_vtab v = false.
Variable ae : bool.
Hypothesis Hae : ae = true -> jv_null_atom v = false.
Variable js : bytes.
Variable t : list token.

Notation build' := (build v js t).
Notation bmid' := (bmid v js t).

(* the state between two values inside a container: the next token lies inside the container *)
Lemma bmid_inside rec cur d0 fs0 A ts0 K :
  let ds := DS d0 fs0 in
  tok_at t cur = Some K -> tend K <> 0%Z -> (tend K <= tend A)%Z ->
  bmid' rec cur ds (A :: ts0) =
  match bkey v js t A K cur ds with
  | Ok (true, _, ds3) => Ok (ds_root ds3)
  | Ok (false, cur3, ds3) =>
    if ttype A =? T_ARRAY then
      match ds_push_elem ds3 with Some ds4 => rec cur3 ds4 (A :: ts0) | None => Oob 2 end
    else rec cur3 ds3 (A :: ts0)
  | Err e => Err e
  | Oob w => Oob w
  | OutOfFuel => OutOfFuel
  end.
Proof.
  intros ds E Z0 Le. unfold bmid. rewrite E.
  destruct (Z.eqb_spec (tend K) 0); [contradiction|]. cbn [orb pop_loop].
  destruct (Z.ltb_spec (tend A) (tend K)); [lia|]. subst ds. cbn [ds_is_empty]. rewrite andb_false_r. reflexivity.
Qed.

(* a finished container is popped when the next token lies behind it, or at the end *)
Lemma bmid_close rec cur d fs A ts0 N :
  tok_at t cur = Some N -> (tend N = 0 \/ tend A < tend N)%Z -> (ts0 <> [] \/ tend N = 0%Z) ->
  bmid' rec cur (DS d fs) (A :: ts0) = bmid' rec cur (popped d fs) ts0.
Proof.
  intros E H1 H2. unfold bmid. rewrite E.
  destruct (Z.eqb_spec (tend N) 0) as [Z0|Z0]; cbn [orb].
  - now rewrite ds_root_popped.
  - destruct H1 as [H1|H1]; [contradiction|]. destruct H2 as [H2|H2]; [|contradiction].
    destruct ts0 as [|b0 ts0']; [congruence|]. cbn [pop_loop].
    destruct (Z.ltb_spec (tend A) (tend N)); [|lia]. rewrite ds_pop_DS. reflexivity.
Qed.

Definition Bstmt (ind : nat) (d : data) : Prop :=
  forall p i f fs ts0 N,
    sub_at js p (core v ind d) -> sub_at t i (toks_core v ind p d) ->
    tok_at t (i + ntok d) = Some N ->
    (tend N = 0 \/ Z.of_nat (p + length (core v ind d)) < tend N)%Z ->
    (ts0 <> [] \/ tend N = 0%Z) ->
    build' (nodes d + f) i (DS empty_data fs) ts0 = bmid' (build' f) (i + ntok d) (popped d fs) ts0.

Lemma json_escape_v' s : json_escape v s = json_escape js_fixed s.
Proof. unfold json_escape, escape_table. now rewrite Hvtab. Qed.

Lemma B_elems ind l :
  Forall (fun c => forall ind, Bstmt ind c) l ->
  forall first q i f acc fs ts0 A N,
    sub_at js q (json_elems (to_json v (S ind)) first l) ->
    sub_at t i (toks_elems (to_json v (S ind)) (fun q c => toks_core v (S ind) (q + length (lead (S ind) c)) c) first q l) ->
    ttype A = T_ARRAY ->
    (Z.of_nat (q + length (json_elems (to_json v (S ind)) first l)) <= tend A)%Z ->
    tok_at t (i + ntok_elems l) = Some N ->
    (tend N = 0 \/ tend A < tend N)%Z ->
    bmid' (build' (nodes_elems l + f)) i (DS (D false [] acc []) fs) (A :: ts0) =
    bmid' (build' f) (i + ntok_elems l) (DS (D false [] (acc ++ l) []) fs) (A :: ts0).
Proof.
  induction 1 as [|c r Hc Hr IH]; intros first q i f acc fs ts0 A N Tx Tk TA Le EN HN.
  - cbn [nodes_elems ntok_elems fold_right]. now rewrite Nat.add_0_r, app_nil_r.
  - cbn [nodes_elems ntok_elems fold_right] in *. fold (nodes_elems r) (ntok_elems r) in *.
    cbn [json_elems] in Tx, Le. cbn [toks_elems] in Tk. cbn zeta in Tk.
    set (sep := if first then [] else sep_comma) in *.
    apply sub_at_app in Tx as [_ Tx]. rewrite to_json_lead_core, <- app_assoc in Tx.
    apply sub_at_app in Tx as [_ Tx]. apply sub_at_app in Tx as [Txc Txr].
    apply sub_at_app in Tk as [Tkc Tkr].
    set (pc := (q + length sep + length (lead (S ind) c))%nat) in *.
    destruct (first_tok v (S ind) pc c) as (K & kr & EK & BK).
    assert (EKt : tok_at t i = Some K).
    { rewrite EK in Tkc. now apply sub_at_cons in Tkc as [? _]. }
    assert (Lens : length (sep ++ to_json v (S ind) c ++ json_elems (to_json v (S ind)) false r) =
                   (length sep + length (lead (S ind) c) + length (core v (S ind) c) +
                    length (json_elems (to_json v (S ind)) false r))%nat).
    { rewrite !app_length, to_json_lead_core, app_length. lia. }
    rewrite Lens in Le.
    rewrite (bmid_inside _ i _ _ A ts0 K EKt) by lia.
    unfold bkey. rewrite TA. change (T_ARRAY =? T_OBJECT) with false. cbn [andb].
    change (T_ARRAY =? T_ARRAY) with true. cbn [ds_push_elem].
    rewrite <- Nat.add_assoc.
    assert (Hnext : exists N', tok_at t (i + ntok c) = Some N' /\
                               (tend N' = 0 \/ Z.of_nat (pc + length (core v (S ind) c)) < tend N')%Z).
    { destruct r as [|c' r'].
      - cbn [ntok_elems fold_right] in EN. rewrite Nat.add_0_r in EN. exists N. split; [exact EN|].
        destruct HN as [HN|HN]; [now left|right]. cbn [json_elems length] in Le. lia.
      - cbn [toks_elems] in Tkr. cbn zeta in Tkr.
        destruct (first_tok v (S ind) (pc + length (core v (S ind) c) + length sep_comma + length (lead (S ind) c')) c')
          as (K' & kr' & EK' & BK').
        rewrite (proj2 (toks_core_shape v c _ _)) in Tkr.
        apply sub_at_app in Tkr as [Tkr _].
        replace (q + length sep + length (to_json v (S ind) c) + length sep_comma + length (lead (S ind) c'))%nat
          with (pc + length (core v (S ind) c) + length sep_comma + length (lead (S ind) c'))%nat in Tkr
          by (rewrite to_json_lead_core, app_length; subst pc; lia).
        rewrite EK' in Tkr. apply sub_at_cons in Tkr as [Tkr _].
        exists K'. split; [exact Tkr|right; lia]. }
    destruct Hnext as (N' & EN' & HN').
    rewrite (Hc (S ind) pc i (nodes_elems r + f)%nat (FArr (D false [] acc []) :: fs) (A :: ts0) N' Txc Tkc EN' HN')
      by (left; discriminate).
    cbn [popped plug].
    rewrite (proj2 (toks_core_shape v c _ _)) in Tkr.
    rewrite (IH false (q + length sep + length (to_json v (S ind) c))%nat (i + ntok c)%nat f (acc ++ [c]) fs ts0 A N).
    + rewrite <- app_assoc. cbn [app]. now rewrite Nat.add_assoc.
    + rewrite to_json_lead_core, app_length. subst pc.
      replace (q + length sep + (length (lead (S ind) c) + length (core v (S ind) c)))%nat
        with (q + length sep + length (lead (S ind) c) + length (core v (S ind) c))%nat by lia. exact Txr.
    + exact Tkr.
    + exact TA.
    + rewrite to_json_lead_core, app_length. lia.
    + now rewrite <- Nat.add_assoc.
    + exact HN.
Qed.

Lemma json_entries_split recj ind longest first k c r :
  json_entries v recj ind longest first ((k, c) :: r) =
  entry_skip ind first ++ [c_quote] ++ json_escape v k ++ [c_quote] ++ entry_mid longest k ++ recj c ++
  json_entries v recj ind longest false r.
Proof. cbn [json_entries]. unfold entry_skip, entry_mid. repeat rewrite <- app_assoc. reflexivity. Qed.

Lemma sorted_app_lt {A} (acc : list (bytes * A)) k x r :
  keys_sorted (acc ++ (k, x) :: r) = true -> forallb (fun kv => bytes_ltb (fst kv) k) acc = true.
Proof.
  induction acc as [|[k' y] acc IH]; cbn [app keys_sorted forallb fst]; [reflexivity|].
  intros H. apply andb_true_iff in H as [H1 H2]. rewrite forallb_app in H1. apply andb_true_iff in H1 as [_ H1].
  cbn [forallb fst] in H1. apply andb_true_iff in H1 as [H1 _]. rewrite H1. cbn [andb]. now apply IH.
Qed.

Lemma B_entries ind longest m :
  Forall (fun kv => forall ind, Bstmt ind (snd kv)) m ->
  forall first q i f acc fs ts0 A N,
    sub_at js q (json_entries v (to_json v (S ind)) ind longest first m) ->
    sub_at t i (toks_entries v (to_json v (S ind)) (fun q c => toks_core v (S ind) (q + length (lead (S ind) c)) c)
                             ind longest first q m) ->
    ttype A = T_OBJECT ->
    (Z.of_nat (q + length (json_entries v (to_json v (S ind)) ind longest first m)) <= tend A)%Z ->
    tok_at t (i + ntok_entries m) = Some N ->
    (tend N = 0 \/ tend A < tend N)%Z ->
    keys_sorted (acc ++ m) = true ->
    bmid' (build' (nodes_entries m + f)) i (DS (D false [] [] acc) fs) (A :: ts0) =
    bmid' (build' f) (i + ntok_entries m) (DS (D false [] [] (acc ++ m)) fs) (A :: ts0).
Proof.
  induction 1 as [|[k c] r Hc Hr IH]; intros first q i f acc fs ts0 A N Tx Tk TA Le EN HN Hs.
  - cbn [nodes_entries ntok_entries fold_right]. now rewrite Nat.add_0_r, app_nil_r.
  - cbn [snd] in Hc. cbn [nodes_entries ntok_entries fold_right snd] in *. fold (nodes_entries r) (ntok_entries r) in *.
    rewrite json_entries_split in Tx, Le. cbn [toks_entries] in Tk. cbn zeta in Tk.
    set (sk := entry_skip ind first) in *. set (mid := entry_mid longest k) in *.
    set (esc := json_escape v k) in *.
    apply sub_at_app in Tx as [_ Tx]. apply sub_at_app in Tx as [_ Tx]. apply sub_at_app in Tx as [Txk Tx].
    apply sub_at_app in Tx as [_ Tx]. apply sub_at_app in Tx as [_ Tx].
    rewrite to_json_lead_core, <- app_assoc in Tx.
    apply sub_at_app in Tx as [_ Tx]. apply sub_at_app in Tx as [Txc Txr].
    cbn [length] in Txk, Txc, Txr.
    apply sub_at_cons in Tk as [EKt Tk]. apply sub_at_app in Tk as [Tkc Tkr].
    set (ks := (q + length sk + 1)%nat) in *.
    set (pc := (ks + length esc + 1 + length mid + length (lead (S ind) c))%nat) in *.
    assert (Lens : length (sk ++ [c_quote] ++ esc ++ [c_quote] ++ mid ++ to_json v (S ind) c ++
                           json_entries v (to_json v (S ind)) ind longest false r) =
                   (length sk + 1 + length esc + 1 + length mid + length (lead (S ind) c) + length (core v (S ind) c) +
                    length (json_entries v (to_json v (S ind)) ind longest false r))%nat).
    { repeat (rewrite app_length || cbn [length]). rewrite to_json_lead_core, app_length. lia. }
    rewrite Lens in Le.
    rewrite (bmid_inside _ i _ _ A ts0 _ EKt) by (cbn [tend tk]; lia).
    (* the key *)
    unfold bkey. rewrite TA. change (T_OBJECT =? T_OBJECT) with true.
    change (is_keyish (tk T_STRING ks (ks + length esc))) with true. cbn [andb tstart tend tk].
    assert (Ekey : json_unescape (substr js (Z.of_nat ks) (Z.of_nat (ks + length esc))) = k).
    { rewrite substr_sub_at.
      - unfold esc. rewrite json_escape_v'. apply unescape_escape_lemma.
      - replace ks with (q + length sk + 1)%nat by reflexivity. exact Txk. }
    rewrite Ekey. cbn [ds_push_key d_comp].
    pose proof (sorted_app_lt _ _ _ _ Hs) as Hlt.
    rewrite (map_find_fresh _ _ Hlt).
    destruct (first_tok v (S ind) pc c) as (K2 & kr & EK2 & BK2).
    assert (EK2t : tok_at t (S i) = Some K2).
    { rewrite EK2 in Tkc. now apply sub_at_cons in Tkc as [? _]. }
    assert (Hb : (if jv_key_overread v then Ok (false, S i, DS empty_data (FKey (D false [] [] acc) k :: fs))
                  else match tok_at t (S i) with
                       | Some tk2 => Ok ((tend tk2 =? 0)%Z, S i, DS empty_data (FKey (D false [] [] acc) k :: fs))
                       | None => Oob 1
                       end) = Ok (false, S i, DS empty_data (FKey (D false [] [] acc) k :: fs))).
    { destruct (jv_key_overread v); [reflexivity|]. rewrite EK2t.
      destruct (Z.eqb_spec (tend K2) 0); [lia|reflexivity]. }
    rewrite Hb. change (T_OBJECT =? T_ARRAY) with false. cbv iota.
    rewrite <- Nat.add_assoc.
    assert (Hnext : exists N', tok_at t (S i + ntok c) = Some N' /\
                               (tend N' = 0 \/ Z.of_nat (pc + length (core v (S ind) c)) < tend N')%Z).
    { destruct r as [|[k' c'] r'].
      - cbn [ntok_entries fold_right] in EN. rewrite Nat.add_0_r in EN.
        replace (S i + ntok c)%nat with (i + S (ntok c))%nat by lia. exists N. split; [exact EN|].
        destruct HN as [HN|HN]; [now left|right]. cbn [json_entries length] in Le. subst pc ks. lia.
      - cbn [toks_entries] in Tkr. cbn zeta in Tkr.
        rewrite (proj2 (toks_core_shape v c _ _)) in Tkr.
        apply sub_at_cons in Tkr as [Tkr _].
        eexists. split; [exact Tkr|right]. cbn [tend tk]. rewrite to_json_lead_core, app_length. subst pc ks. lia. }
    destruct Hnext as (N' & EN' & HN').
    replace (ks + length esc + 1 + length mid + length (lead (S ind) c))%nat with pc in Tkc by reflexivity.
    rewrite (Hc (S ind) pc (S i) (nodes_entries r + f)%nat (FKey (D false [] [] acc) k :: fs) (A :: ts0) N')
      by (try assumption; left; discriminate).
    cbn [popped plug]. rewrite (map_set_fresh _ _ _ Hlt).
    rewrite (proj2 (toks_core_shape v c _ _)) in Tkr.
    rewrite (IH false (ks + length esc + 1 + length mid + length (to_json v (S ind) c))%nat (S i + ntok c)%nat f
                (acc ++ [(k, c)]) fs ts0 A N).
    + rewrite <- app_assoc. cbn [app]. f_equal. lia.
    + rewrite to_json_lead_core, app_length.
      replace (ks + length esc + 1 + length mid + (length (lead (S ind) c) + length (core v (S ind) c)))%nat
        with (pc + length (core v (S ind) c))%nat by (subst pc; lia). 
      replace (q + length sk + 1 + length esc + 1 + length mid + length (lead (S ind) c) + length (core v (S ind) c))%nat
        with (pc + length (core v (S ind) c))%nat in Txr by (subst pc ks; lia).
      exact Txr.
    + exact Tkr.
    + exact TA.
    + rewrite to_json_lead_core, app_length. subst ks. lia.
    + replace (S i + ntok c + ntok_entries r)%nat with (i + S (ntok c + ntok_entries r))%nat by lia. exact EN.
    + exact HN.
    + rewrite <- app_assoc. exact Hs.
Qed.

Lemma build_S f i d0 fs0 ts :
  let ds := DS d0 fs0 in
  build' (S f) i ds ts =
  match tok_at t i with
  | None => Oob 1
  | Some tk0 => match bswitch v js tk0 i ds ts with
                | Ok (cur1, ds1, ts1) => bmid' (build' f) cur1 ds1 ts1
                | Err e => Err e
                | Oob w => Oob w
                | OutOfFuel => OutOfFuel
                end
  end.
Proof. cbn [build ds_is_empty]. now rewrite andb_false_r. Qed.

Lemma bswitch_string s e fs ts0 i :
  bswitch v js (tk T_STRING s e) i (DS empty_data fs) ts0 =
  Ok (S i, popped (D true (json_unescape (substr js (Z.of_nat s) (Z.of_nat e))) [] []) fs, ts0).
Proof.
  unfold bswitch. cbn [ttype tk tstart tend ds_top empty_data].
  change (T_STRING =? T_STRING) with true. change (T_STRING =? T_PRIM) with false. cbn [orb].
  rewrite andb_false_r. cbn [andb ds_set_top]. now rewrite ds_pop_DS.
Qed.

Lemma bswitch_prim s e fs ts0 i :
  bswitch v js (tk T_PRIM s e) i (DS empty_data fs) ts0 =
  let value := json_unescape (substr js (Z.of_nat s) (Z.of_nat e)) in
  Ok (S i, popped (D false (if negb (jv_null_atom v) && beq_bytes value s_null then [] else value) [] []) fs, ts0).
Proof.
  unfold bswitch. cbn [ttype tk tstart tend ds_top empty_data].
  change (T_PRIM =? T_STRING) with false. change (T_PRIM =? T_PRIM) with true. cbn [orb].
  rewrite andb_true_r. cbn [ds_set_top]. now rewrite ds_pop_DS.
Qed.

Lemma bswitch_container ty s e ds ts0 i :
  ty = T_OBJECT \/ ty = T_ARRAY ->
  bswitch v js (tk ty s e) i ds ts0 = Ok (S i, ds, tk ty s e :: ts0).
Proof. intros [-> | ->]; reflexivity. Qed.

Lemma build_core d : canonical ae d = true -> forall ind, Bstmt ind d.
Proof.
  induction d as [vb a l m Hl Hm] using data_ind'. intros C ind.
  destruct (canonical_children _ _ _ _ _ C) as (Cl & Cm).
  assert (Hl' : Forall (fun c => forall ind, Bstmt ind c) l).
  { rewrite Forall_forall in *. intros x Hx. apply Hl; [exact Hx|]. rewrite forallb_forall in Cl. now apply Cl. }
  assert (Hm' : Forall (fun kv => forall ind, Bstmt ind (snd kv)) m).
  { rewrite Forall_forall in *. intros x Hx. apply Hm; [exact Hx|]. rewrite forallb_forall in Cm. now apply Cm. }
  clear Hl Hm. intros p i f fs ts0 N Tx Tk EN HN Hts.
  cbn [canonical] in C.
  destruct m as [|kv m].
  - destruct l as [|x l].
    + (* leaves *)
      cbn [nodes ntok Nat.add] in *. rewrite build_S; unfold tok_at.
      cbn [core toks_core] in Tx, Tk, HN.
      destruct a as [|c a].
      * destruct vb; cbn [leaf_json] in Tx, HN; apply sub_at_cons in Tk as [EK _]; rewrite EK.
        -- rewrite bswitch_string. replace (substr js (Z.of_nat (S p)) (Z.of_nat (S p))) with (@nil byte); [now rewrite Nat.add_1_r|].
           unfold substr. now rewrite Z.sub_diag.
        -- rewrite bswitch_prim. cbn zeta.
           replace (Z.of_nat (p + 4)) with (Z.of_nat (p + length s_null)) by reflexivity.
           rewrite (substr_sub_at _ _ _ Tx).
           change (json_unescape s_null) with s_null. change (beq_bytes s_null s_null) with true.
           cbn [orb] in C. rewrite (Hae C). cbn [negb andb]. now rewrite Nat.add_1_r.
      * destruct vb; cbn [leaf_json] in Tx, HN; apply sub_at_cons in Tk as [EK _]; rewrite EK.
        -- rewrite bswitch_string.
           apply sub_at_app in Tx as [_ Tx]. apply sub_at_app in Tx as [Tx _]. cbn [length] in Tx.
           replace (S p) with (p + 1)%nat by lia. rewrite (substr_sub_at _ _ _ Tx).
           rewrite json_escape_v', unescape_escape_lemma. now rewrite Nat.add_1_r.
        -- cbn [orb] in C. rewrite bswitch_prim. cbn zeta. rewrite (substr_sub_at _ _ _ Tx).
           rewrite (unescape_plain _ (num_no_bslash _ C)).
           rewrite (num_not_null (c :: a)) by (discriminate || exact C). rewrite andb_false_r.
           now rewrite Nat.add_1_r.
    + (* array *)
      destruct a; [|discriminate]. apply andb_true_iff in C as [Cv _]. apply negb_true_iff in Cv. subst vb.
      cbn [nodes ntok] in *. fold (nodes_elems (x :: l)) (ntok_elems (x :: l)) in *.
      cbn [Nat.add]. rewrite build_S; unfold tok_at.
      cbn [toks_core] in Tk. apply sub_at_cons in Tk as [EK Tk]. rewrite EK.
      rewrite bswitch_container by now right.
      cbn [core] in Tx. apply sub_at_app in Tx as [_ Tx]. apply sub_at_app in Tx as [Tx _]. cbn [length] in Tx.
      assert (Len : length (core v ind (D false [] (x :: l) [])) =
                    S (S (length (json_elems (to_json v (S ind)) true (x :: l))))).
      { cbn [core]. rewrite !app_length. cbn [length]. lia. }
      rewrite ?Len in *.
      rewrite Nat.add_1_r in Tx.
      replace (i + S (ntok_elems (x :: l)))%nat with (S i + ntok_elems (x :: l))%nat in * by lia.
      change empty_data with (D false [] [] []).
      match goal with |- bmid' _ _ _ (?A :: _) = _ =>
        rewrite (B_elems ind (x :: l) Hl' true (S p) (S i) f [] fs ts0 A N Tx Tk eq_refl) by (cbn [tend tk]; (lia || assumption)) end.
      cbn [app]. apply (bmid_close _ _ _ _ _ _ N EN); [cbn [tend tk]; destruct HN; [left|right]; lia|exact Hts].
  - (* object *)
    destruct l; [|discriminate]. destruct a; [|discriminate].
    apply andb_true_iff in C as [C _]. apply andb_true_iff in C as [Cv Cs]. apply negb_true_iff in Cv. subst vb.
    cbn [nodes ntok] in *. fold (nodes_entries (kv :: m)) (ntok_entries (kv :: m)) in *.
    cbn [Nat.add]. rewrite build_S; unfold tok_at.
    cbn [toks_core] in Tk. apply sub_at_cons in Tk as [EK Tk]. rewrite EK.
    rewrite bswitch_container by now left.
    cbn [core] in Tx.
    set (ents := json_entries v (to_json v (S ind)) ind (longest_key (kv :: m)) true (kv :: m)) in *.
    apply sub_at_app in Tx as [_ Tx]. apply sub_at_app in Tx as [Tx _]. cbn [length] in Tx.
    assert (Len : length (core v ind (D false [] [] (kv :: m))) =
                  S (S (length ents + length (nl ++ indent_of ind)))).
    { cbn [core]. fold ents. repeat (rewrite app_length || cbn [length]). lia. }
    rewrite ?Len in *.
    rewrite Nat.add_1_r in Tx.
    replace (i + S (ntok_entries (kv :: m)))%nat with (S i + ntok_entries (kv :: m))%nat in * by lia.
    change empty_data with (D false [] [] []).
    match goal with |- bmid' _ _ _ (?A :: _) = _ =>
      rewrite (B_entries ind _ (kv :: m) Hm' true (S p) (S i) f [] fs ts0 A N Tx Tk eq_refl) end.
    2-5: cbn [tend tk app]; fold ents; try lia; try assumption.
    cbn [app]. apply (bmid_close _ _ _ _ _ _ N EN); [cbn [tend tk]; destruct HN; [left|right]; lia|exact Hts].
Qed.

End BuildRt.
