(* DelayParseLemmas.v -- proofs about DelayParse.v (C09, the delay-string codec). *)
From V Require Import Base DelayParse.
Local Open Scope N_scope.

(* ---------- rendering of the grammar-conformant strings ---------- *)
Definition unit_bytes (un : dunit) : bytes :=
  match un with UnitMs => u_ms | UnitS => u_s | UnitNone => [] end.

Definition is_nil {A} (l : list A) : bool := match l with [] => true | _ => false end.

(* number := digit+ | digit* '.' digit+ *)
Definition wf_number (ip : bytes) (hasdot : bool) (fp : bytes) : bool :=
  all_digits ip && all_digits fp &&
  (if hasdot then negb (is_nil fp) else is_nil fp && negb (is_nil ip)).

Definition num_bytes (ip : bytes) (hasdot : bool) (fp : bytes) : bytes :=
  ip ++ (if hasdot then 46 :: fp else []).

Definition render (ip : bytes) (hasdot : bool) (fp : bytes) (un : dunit) : bytes :=
  num_bytes ip hasdot fp ++ unit_bytes un.

(* fixed-width decimal *)
Fixpoint dec_fixed (w : nat) (n : N) : bytes :=
  match w with
  | O => []
  | S w' => dec_fixed w' (n / 10) ++ [48 + n mod 10]
  end.
Definition dec (n : N) : bytes :=
  if n <? 10 then dec_fixed 1 n else if n <? 100 then dec_fixed 2 n
  else if n <? 1000 then dec_fixed 3 n else if n <? 10000 then dec_fixed 4 n else dec_fixed 10 n.
Definition render_s (i : N) (fl : nat) (f : N) : bytes := dec i ++ [46] ++ dec_fixed fl f ++ u_s.
Definition render_si (i : N) : bytes := dec i ++ u_s.

(* ---------- list facts ---------- *)
Lemma digit_numch c : is_digit c = true -> is_numch c = true.
Proof. unfold is_digit, is_numch. intros ->. reflexivity. Qed.

Lemma numch_not_blank c : is_numch c = true -> is_blank c = false.
Proof.
  unfold is_numch, is_blank. intros H.
  destruct (c =? 32) eqn:E1; [apply N.eqb_eq in E1; subst; discriminate|].
  destruct (c =? 9) eqn:E2; [apply N.eqb_eq in E2; subst; discriminate|]. reflexivity.
Qed.

Lemma take_drop_digits_app a b :
  all_digits a = true -> match b with [] => True | c :: _ => is_digit c = false end ->
  take_digits (a ++ b) = a /\ drop_digits (a ++ b) = b.
Proof.
  induction a as [|x a IH]; cbn.
  - intros _ Hb. destruct b as [|c b]; [now split|]. cbn. rewrite Hb. now split.
  - intros H Hb. apply andb_true_iff in H as [Hx Ha]. rewrite Hx. destruct (IH Ha Hb) as [-> ->]. now split.
Qed.

Lemma find_last_none f l : forall i acc, forallb (fun c => negb (f c)) l = true -> find_last_from f l i acc = acc.
Proof.
  induction l as [|c l IH]; cbn; intros i acc H; [reflexivity|].
  apply andb_true_iff in H as [Hc Hl]. apply negb_true_iff in Hc. rewrite Hc. now apply IH.
Qed.

Lemma find_last_app f a b : forall i acc,
  a <> [] -> forallb f a = true -> forallb (fun c => negb (f c)) b = true ->
  find_last_from f (a ++ b) i acc = Some (i + length a - 1)%nat.
Proof.
  induction a as [|x a IH]; [congruence|]. intros i acc _ Ha Hb. cbn in Ha.
  apply andb_true_iff in Ha as [Hx Ha]. cbn. rewrite Hx.
  destruct a as [|y a].
  - cbn. rewrite find_last_none by exact Hb. f_equal. lia.
  - rewrite IH; [|discriminate|exact Ha|exact Hb]. f_equal. cbn. lia.
Qed.

Lemma firstn_app_exact {A} (a b : list A) : firstn (length a) (a ++ b) = a.
Proof. induction a; cbn; [now destruct b | now f_equal]. Qed.
Lemma skipn_app_exact {A} (a b : list A) : skipn (length a) (a ++ b) = b.
Proof. induction a; cbn; auto. Qed.

(* ---------- NumAttr on a number followed by a unit ---------- *)
Lemma num_attr_render num ub :
  num <> [] -> forallb is_numch num = true ->
  forallb (fun c => negb (is_numch c) && negb (is_blank c)) ub = true ->
  num_attr (num ++ ub) = {| na_value := num; na_unit := ub |}.
Proof.
  intros Hne Hnum Hub.
  assert (Hub1 : forallb (fun c => negb (is_numch c)) ub = true).
  { rewrite forallb_forall in *. intros c Hc. specialize (Hub c Hc). now apply andb_true_iff in Hub as [-> _]. }
  assert (Hub2 : forallb (fun c => negb (is_blank c)) ub = true).
  { rewrite forallb_forall in *. intros c Hc. specialize (Hub c Hc). now apply andb_true_iff in Hub as [_ ->]. }
  assert (Hnb : forallb (fun c => negb (is_blank c)) (num ++ ub) = true).
  { rewrite forallb_app, Hub2, andb_true_r. rewrite forallb_forall in *. intros c Hc.
    now rewrite (numch_not_blank _ (Hnum c Hc)). }
  unfold num_attr.
  destruct num as [|c0 num'] eqn:En; [congruence|]. rewrite <- En in *.
  assert (Hff : find_first is_numch (num ++ ub) = Some 0%nat).
  { rewrite En. cbn. unfold find_first. cbn. rewrite En in Hnum. cbn in Hnum.
    apply andb_true_iff in Hnum as [-> _]. reflexivity. }
  rewrite Hff. unfold find_last. rewrite find_last_app by assumption.
  replace (0 + length num - 1 - 0 + 1)%nat with (length num) by (rewrite En; cbn; lia).
  replace (S (0 + length num - 1)) with (length num) by (rewrite En; cbn; lia).
  unfold substr at 1. cbn [skipn]. rewrite firstn_app_exact.
  rewrite skipn_app_exact. f_equal.
  destruct ub as [|u0 ub'].
  - reflexivity.
  - cbn [find_first_from]. cbn in Hub2. apply andb_true_iff in Hub2 as [Hu0 _]. rewrite Hu0.
    rewrite find_last_none by exact Hnb.
    unfold substr. rewrite skipn_app_exact. rewrite app_length.
    replace (length num + length (u0 :: ub') - length num)%nat with (length (u0 :: ub')) by lia.
    apply firstn_all.
Qed.

(* ---------- digits ---------- *)
Lemma digits_val_acc l : forall acc, digits_val acc l = acc * 10 ^ N.of_nat (length l) + digits_val 0 l.
Proof.
  induction l as [|c l IH]; intros acc; cbn [digits_val length].
  - cbn. lia.
  - rewrite IH. rewrite (IH (10 * 0 + (c - 48))).
    rewrite Nat2N.inj_succ, N.pow_succ_r'. lia.
Qed.

Lemma digits_val_app_gen a b : forall acc, digits_val acc (a ++ b) = digits_val (digits_val acc a) b.
Proof. induction a as [|c a IH]; intros acc; cbn; [reflexivity | apply IH]. Qed.

Lemma digits_val_app a b : digits_val 0 (a ++ b) = digits_val 0 a * 10 ^ N.of_nat (length b) + digits_val 0 b.
Proof. rewrite digits_val_app_gen. apply digits_val_acc. Qed.

Lemma digits_val_bound l : all_digits l = true -> digits_val 0 l < 10 ^ N.of_nat (length l).
Proof.
  induction l as [|c l IH] using rev_ind; intros H.
  - cbn. lia.
  - unfold all_digits in H. rewrite forallb_app in H. apply andb_true_iff in H as [Hl Hc].
    cbn in Hc. rewrite andb_true_r in Hc. unfold is_digit in Hc. apply andb_true_iff in Hc as [H1 H2].
    apply N.leb_le in H1, H2. rewrite digits_val_app. cbn [digits_val length].
    rewrite app_length. cbn [length]. rewrite Nat.add_1_r.
    specialize (IH Hl). unfold all_digits in IH.
    rewrite !Nat2N.inj_succ, !N.pow_succ_r', N.pow_0_r.
    remember (10 ^ N.of_nat (length l)) as P. remember (digits_val 0 l) as D. nia.
Qed.

(* ---------- the milliseconds / unit-less forms ---------- *)
Lemma wf_number_facts ip hasdot fp :
  wf_number ip hasdot fp = true ->
  all_digits ip = true /\ all_digits fp = true /\
  (hasdot = true -> fp <> []) /\ (hasdot = false -> fp = [] /\ ip <> []).
Proof.
  unfold wf_number. intros H. apply andb_true_iff in H as [H H3]. apply andb_true_iff in H as [H1 H2].
  split; [exact H1|]. split; [exact H2|]. split.
  - intros ->. destruct fp; discriminate.
  - intros ->. apply andb_true_iff in H3 as [H3 H4]. split; [now destruct fp | now destruct ip].
Qed.

Lemma num_bytes_numch ip hasdot fp :
  wf_number ip hasdot fp = true ->
  num_bytes ip hasdot fp <> [] /\ forallb is_numch (num_bytes ip hasdot fp) = true.
Proof.
  intros H. destruct (wf_number_facts _ _ _ H) as (Hi & Hf & Hd & Hn). unfold num_bytes. split.
  - destruct hasdot; [destruct ip; discriminate|]. destruct (Hn eq_refl) as [_ Hne]. now rewrite app_nil_r.
  - rewrite forallb_app. apply andb_true_iff. split.
    + unfold all_digits in Hi. rewrite forallb_forall in *. intros c Hc. apply digit_numch. auto.
    + destruct hasdot; [|reflexivity]. cbn. unfold all_digits in Hf. rewrite forallb_forall in *.
      intros c Hc. apply digit_numch. auto.
Qed.

Lemma first_not_ws_sign ip hasdot fp x r :
  wf_number ip hasdot fp = true -> num_bytes ip hasdot fp = x :: r ->
  is_ws x = false /\ x <> 43 /\ x <> 45.
Proof.
  intros H Heq. destruct (num_bytes_numch _ _ _ H) as [_ Hn]. rewrite Heq in Hn. cbn in Hn.
  apply andb_true_iff in Hn as [Hx _]. unfold is_numch in Hx. unfold is_ws, isspace.
  destruct (x =? 46) eqn:E.
  - apply N.eqb_eq in E; subst. split; [reflexivity|]. split; discriminate.
  - rewrite orb_false_r in Hx. apply andb_true_iff in Hx as [H1 H2]. apply N.leb_le in H1, H2.
    repeat split; try lia.
    destruct (x =? 32) eqn:E1; [apply N.eqb_eq in E1; lia|].
    destruct (9 <=? x) eqn:E2; [|reflexivity]. destruct (x <=? 13) eqn:E3; [|reflexivity].
    apply N.leb_le in E3. lia.
Qed.

Lemma parse_u32_num dv ip hasdot fp :
  wf_number ip hasdot fp = true -> digits_val 0 ip <= umax dv ->
  parse_u32 dv (num_bytes ip hasdot fp) = Some (digits_val 0 ip).
Proof.
  intros H Hle. destruct (wf_number_facts _ _ _ H) as (Hi & Hf & Hd & Hn).
  destruct (num_bytes_numch _ _ _ H) as [Hne _].
  destruct (num_bytes ip hasdot fp) as [|x r] eqn:Heq; [congruence|].
  destruct (first_not_ws_sign _ _ _ _ _ H Heq) as (Hws & H43 & H45).
  unfold parse_u32. cbn [drop_ws]. rewrite Hws.
  assert (Hsign : strip_sign (x :: r) = (false, x :: r)).
  { unfold strip_sign. destruct x as [|p]; [reflexivity|].
    do 6 (destruct p as [p|p|]; try reflexivity); congruence. }
  rewrite Hsign. rewrite <- Heq. unfold num_bytes.
  assert (Htd : take_digits (ip ++ (if hasdot then 46 :: fp else [])) = ip).
  { apply take_drop_digits_app; [exact Hi|]. now destruct hasdot. }
  rewrite Htd. destruct ip as [|c ip']; [reflexivity|].
  apply N.leb_le in Hle. rewrite N.leb_antisym in Hle. apply negb_true_iff in Hle. now rewrite Hle.
Qed.

Lemma spec_render ip hasdot fp un :
  wf_number ip hasdot fp = true ->
  parse_spec (render ip hasdot fp un) = Some {| ds_int := ip; ds_frac := fp; ds_unit := un |}.
Proof.
  intros H. destruct (wf_number_facts _ _ _ H) as (Hi & Hf & Hd & Hn).
  unfold parse_spec, render, num_bytes. rewrite <- app_assoc.
  assert (Hb : match (if hasdot then 46 :: fp else []) ++ unit_bytes un with [] => True | c :: _ => is_digit c = false end).
  { destruct hasdot; [reflexivity|]. destruct un; exact I || reflexivity. }
  destruct (take_drop_digits_app ip _ Hi Hb) as [-> ->].
  destruct hasdot.
  - cbn [app].
    assert (Hb2 : match unit_bytes un with [] => True | c :: _ => is_digit c = false end)
      by (destruct un; exact I || reflexivity).
    destruct (take_drop_digits_app fp _ Hf Hb2) as [-> ->].
    specialize (Hd eq_refl). destruct fp as [|f0 fp']; [congruence|]. cbn [negb].
    destruct un; reflexivity.
  - destruct (Hn eq_refl) as [-> Hne]. cbn [app].
    destruct un; cbn; destruct ip; try congruence; reflexivity.
Qed.

Lemma delay_parse_ms_lemma dv ip fp (hasdot : bool) un :
  wf_number ip hasdot fp = true -> un <> UnitS -> digits_val 0 ip <= umax dv ->
  delay_parse dv (render ip hasdot fp un) = DpMs (digits_val 0 ip) /\
  delay_spec (render ip hasdot fp un) = Some (digits_val 0 ip).
Proof.
  intros H Hun Hle. destruct (num_bytes_numch _ _ _ H) as [Hne Hnum]. split.
  - unfold delay_parse, render.
    destruct (num_bytes ip hasdot fp ++ unit_bytes un) eqn:Es.
    { destruct (num_bytes ip hasdot fp); [congruence | discriminate]. }
    rewrite <- Es. rewrite num_attr_render; [|exact Hne|exact Hnum|destruct un; reflexivity].
    cbn [na_unit na_value]. rewrite parse_u32_num by assumption.
    destruct un; [reflexivity | congruence | reflexivity].
  - unfold delay_spec. rewrite spec_render by exact H. cbn [option_map]. f_equal.
    destruct (wf_number_facts _ _ _ H) as (Hi & Hf & _). unfold spec_ms. cbn [ds_int ds_frac ds_unit].
    assert (Hx : digits_val 0 (ip ++ fp) / pow10 (N.of_nat (length fp)) = digits_val 0 ip).
    { rewrite digits_val_app. unfold pow10. pose proof (digits_val_bound _ Hf).
      rewrite N.div_add_l by (apply N.pow_nonzero; lia). rewrite N.div_small by assumption. lia. }
    destruct un; [exact Hx | congruence | exact Hx].
Qed.

(* ---------- seconds: by computation, bounds in the statements ---------- *)
Definition nrange (n : N) : list N := N.recursion [] (fun k acc => k :: acc) n.
Lemma nrange_in n : forall x, x < n -> In x (nrange n).
Proof.
  induction n as [|n IH] using N.peano_ind; intros x Hx; [lia|].
  unfold nrange. rewrite N.recursion_succ; [|reflexivity|intros ? ? -> ? ? ->; reflexivity].
  destruct (N.eq_dec x n) as [->|Hne]; [now left | right]. apply IH. lia.
Qed.

Definition chk_s (i : N) (fl : nat) (f : N) : bool :=
  match delay_parse dpv_pinned (render_s i fl f), delay_spec (render_s i fl f) with
  | DpMs m, Some sp => (sp - 1 <=? m) && (m <=? sp)
  | _, _ => false
  end.

Lemma chk_s_all :
  forallb (fun i => forallb (fun fl => forallb (fun f => chk_s i fl f) (nrange (10 ^ N.of_nat fl)))
                            [1%nat; 2%nat; 3%nat]) (nrange 30) = true.
Proof. vm_cast_no_check (eq_refl true). Qed.

Lemma delay_parse_s_fraction_lemma i fl f :
  i < 30 -> (1 <= fl <= 3)%nat -> f < 10 ^ N.of_nat fl ->
  exists m sp, delay_parse dpv_pinned (render_s i fl f) = DpMs m /\ delay_spec (render_s i fl f) = Some sp /\
               sp - 1 <= m /\ m <= sp.
Proof.
  intros Hi Hfl Hf. pose proof chk_s_all as H. rewrite forallb_forall in H.
  specialize (H i (nrange_in 30 i Hi)). rewrite forallb_forall in H.
  assert (Hin : In fl [1%nat; 2%nat; 3%nat]) by (cbn; lia).
  specialize (H fl Hin). rewrite forallb_forall in H.
  assert (Hr : In f (nrange (10 ^ N.of_nat fl))) by (now apply nrange_in).
  specialize (H f Hr). unfold chk_s in H.
  destruct (delay_parse dpv_pinned (render_s i fl f)) as [m| |]; try discriminate.
  destruct (delay_spec (render_s i fl f)) as [sp|]; try discriminate.
  apply andb_true_iff in H as [H1 H2]. apply N.leb_le in H1, H2. now exists m, sp.
Qed.

Definition chk_si (i : N) : bool :=
  match delay_parse dpv_pinned (render_si i), delay_spec (render_si i) with
  | DpMs m, Some sp => (m =? 1000 * i) && (sp =? 1000 * i)
  | _, _ => false
  end.
Lemma chk_si_all : forallb chk_si (nrange 5001) = true.
Proof. vm_cast_no_check (eq_refl true). Qed.

Lemma delay_parse_s_integral_lemma i :
  i <= 5000 -> delay_parse dpv_pinned (render_si i) = DpMs (1000 * i) /\ delay_spec (render_si i) = Some (1000 * i).
Proof.
  intros Hi. pose proof chk_si_all as H. rewrite forallb_forall in H.
  assert (Hr : In i (nrange 5001)) by (apply nrange_in; lia).
  specialize (H i Hr). unfold chk_si in H.
  destruct (delay_parse dpv_pinned (render_si i)) as [m| |]; try discriminate.
  destruct (delay_spec (render_si i)) as [sp|]; try discriminate.
  apply andb_true_iff in H as [H1 H2]. apply N.eqb_eq in H1, H2. now subst.
Qed.

(* ---------- refutations ---------- *)
(* "1.001s" *)
Lemma delay_parse_s_exact_refuted_lemma : forall dv, exists s m, delay_spec s = Some m /\ delay_parse dv s <> DpMs m.
Proof. intros [[|] [|]]; exists [49; 46; 48; 48; 49; 115], 1001; (split; [reflexivity|]); vm_compute; discriminate. Qed.

(* "4294968s" and "abc" *)
Lemma delay_parse_defined_refuted_lemma :
  (exists s m, delay_spec s = Some m /\ delay_parse dpv_pinned s = DpUB) /\ (exists s, delay_parse dpv_pinned s = DpUninit).
Proof.
  split.
  - exists [52; 50; 57; 52; 57; 54; 56; 115], 4294968000. split; vm_compute; reflexivity.
  - exists [97; 98; 99]. vm_compute. reflexivity.
Qed.

(* the repaired codec: every text has a defined result or ends in the (now 64 bit) range check;
   the two witnesses are defined *)
Lemma delay_parse_fixed_init_lemma : forall dv s, dpv_init dv = true -> delay_parse dv s <> DpUninit.
Proof.
  intros dv s Hi. unfold delay_parse. destruct s as [|c s]; [discriminate|]. rewrite Hi.
  destruct (ieq_bytes _ u_ms).
  - destruct (parse_u32 dv _); discriminate.
  - destruct (ieq_bytes _ u_s).
    + destruct (parse_double _); [|discriminate]. unfold dbl_to_u32. destruct (_ <=? _); discriminate.
    + destruct (na_unit _); [|discriminate]. destruct (parse_u32 dv _); discriminate.
Qed.

Lemma delay_parse_fixed_witnesses :
  delay_parse dpv_fixed [52; 50; 57; 52; 57; 54; 56; 115] = DpMs 4294968000 /\
  delay_parse dpv_fixed [97; 98; 99] = DpMs 0.
Proof. split; vm_compute; reflexivity. Qed.
