(* PmlEquivStep.v -- C06: EXIT_STATES, TAKE_TRANSITIONS and ENTER_STATES of the emitted step process against
   FastMicroStep (Fast.fmicrostep after ESTABLISH_ENTRYSET), on the history-free core: starting from corresponding
   states and the same exit set / transition set / entry set, the emitted loops over `i < N` exit, take and enter
   the same states and transitions in the same order, execute the same content (PmlEquivContent.v), raise the same
   done events and end in the same configuration with the same top-level-final flag -- as long as no `chan` of the
   emitted model is full (the flag p_full of the final state is the side condition).  Proofs only. *)
From V Require Import Base NameMatch Chart Exec Large Legal SetLemmas LegalAbstract LegalLarge WfCore Fast Trie PmlStep
                      TraceLemmas PmlStepLemmas SerializeCodecLemmas PmlEquivBase PmlEquivCore PmlEquivContent.
From Coq Require Import Sorted.
Local Open Scope nat_scope.

(* every piece of executable content of the chart is of the kind PmlEquivContent.v covers; a transition without
   content has the empty body (flatten sets ft_has_body that way) *)
Definition content_ok (dom : list N) (c : fchart) : bool :=
  forallb (fun s => blocks_ok dom (fs_onentry s) && blocks_ok dom (fs_onexit s)) (fc_states c) &&
  forallb (fun t => block_ok dom (ft_body t) && (ft_has_body t || match ft_body t with [] => true | _ => false end) &&
                    match ft_cond t with Some cnd => bexpr_ok dom cnd | None => true end) (fc_trans c).

Section Phases.
Variable pv : pml_variant.
Variable c : fchart.
Variable iq eq : nat.
Variable dom : list N.
Hypothesis Hin : pv_in_reads_root pv = false.
Hypothesis H : wf_coreb c = true.
Hypothesis Hcontent : content_ok dom c = true.
Notation n := (nstates c).
Notation nt := (ntrans c).
Notation Rx := (Rx c).
Notation guard_ok := PmlEquivContent.guard_ok.

(* ---- the chart's content ---- *)
Lemma state_content_ok i : blocks_ok dom (fs_onentry (st c i)) = true /\ blocks_ok dom (fs_onexit (st c i)) = true.
Proof.
  unfold content_ok in Hcontent. apply andb_true_iff in Hcontent as [Hs _]. rewrite forallb_forall in Hs.
  unfold st. destruct (nth_in_or_default i (fc_states c) dummy_state) as [I|D].
  - specialize (Hs _ I). now apply andb_true_iff in Hs.
  - rewrite D. split; reflexivity.
Qed.

Lemma trans_content_ok j :
  block_ok dom (ft_body (tr c j)) = true /\ (ft_has_body (tr c j) = false -> ft_body (tr c j) = []) /\
  (forall cnd, ft_cond (tr c j) = Some cnd -> bexpr_ok dom cnd = true).
Proof.
  unfold content_ok in Hcontent. apply andb_true_iff in Hcontent as [_ Ht]. rewrite forallb_forall in Ht.
  unfold tr. destruct (nth_in_or_default j (fc_trans c) dummy_trans) as [I|D].
  - specialize (Ht _ I). apply andb_true_iff in Ht as [Ht Hc]. apply andb_true_iff in Ht as [Hb Hh].
    split; [exact Hb|]. split.
    + intros E. rewrite E in Hh. cbn [orb] in Hh. destruct (ft_body (nth j (fc_trans c) dummy_trans)); [reflexivity|discriminate].
    + intros cnd E. now rewrite E in Hc.
  - rewrite D. cbn. repeat split; auto. discriminate.
Qed.

(* ---- the "queue full" flag only ever goes up ---- *)
Definition mono (f : pstate -> pstate) : Prop := forall s, p_full s = true -> p_full (f s) = true.

Lemma mono_keeps f : keeps f -> mono f.
Proof. intros K s. now destruct (K s). Qed.
Lemma mono_comp f g : mono f -> mono g -> mono (fun s => g (f s)).
Proof. intros Hf Hg s Hs. apply Hg, Hf, Hs. Qed.
Lemma mono_fold {A} (f : pstate -> A -> pstate) l : (forall a, mono (fun s => f s a)) -> mono (fun s => fold_left f l s).
Proof.
  intros Hf. induction l as [|a r IH]; cbn [fold_left]; [intros s Hs; exact Hs|].
  apply (mono_comp (fun s => f s a) (fun s => fold_left f r s)); [apply Hf|exact IH].
Qed.
Lemma mono_if (b : pstate -> bool) f g : mono f -> mono g -> mono (fun s => if b s then f s else g s).
Proof. intros Hf Hg s Hs. destruct (b s); auto. Qed.
Lemma mono_id : mono (fun s => s).
Proof. intros s Hs; exact Hs. Qed.

(* not full at the end: not full in between *)
Lemma not_full_before f s : mono f -> p_full (f s) = false -> p_full s = false.
Proof. intros M Hf. destruct (p_full s) eqn:E; [|reflexivity]. rewrite (M s E) in Hf. discriminate. Qed.

(* ---- small steps of the relation ---- *)
Lemma Rx_out_none t s x : pobs c t = None -> Rx s x -> Rx (out t s) x.
Proof. intros E (R1 & R2 & R3 & R4). unfold PmlEquivContent.Rx. cbn [out p_store p_iq p_eq p_out]. rewrite pobs_cons, E. auto. Qed.
Lemma Rx_emit_none t s x : fobs t = None -> Rx s x -> Rx s (emit t x).
Proof. intros E (R1 & R2 & R3 & R4). unfold PmlEquivContent.Rx. cbn [emit x_store x_iq x_eq x_out]. rewrite fobs_cons, E. auto. Qed.
Lemma Rx_out_emit tp tf v s x : pobs c tp = Some v -> fobs tf = Some v -> Rx s x -> Rx (out tp s) (emit tf x).
Proof.
  intros E1 E2 (R1 & R2 & R3 & R4). unfold PmlEquivContent.Rx.
  cbn [out emit p_store p_iq p_eq p_out x_store x_iq x_eq x_out]. rewrite pobs_cons, fobs_cons, E1, E2, R4. auto.
Qed.
Lemma Rx_set_cfg g s x : Rx s x -> Rx (set_cfg g s) x.
Proof. intros R; exact R. Qed.
Lemma Rx_set_flags a b d e s x : Rx s x -> Rx (set_flags a b d e s) x.
Proof. intros R; exact R. Qed.

Lemma Rx_raise_direct e s x : ev_kind e = EvInternal \/ True ->
  p_full (p_raise_direct iq (ev_name e) s) = false -> Rx s x ->
  Rx (p_raise_direct iq (ev_name e) s) (raise_int e x).
Proof.
  intros _ Hf (R1 & R2 & R3 & R4). unfold p_raise_direct in *.
  destruct (length (p_iq s) <? iq); [|rewrite set_full_is_full in Hf; discriminate].
  unfold PmlEquivContent.Rx. cbn [set_iq raise_int p_store p_iq p_eq p_out x_store x_iq x_eq x_out].
  rewrite map_app, R2. auto.
Qed.

Definition prest (s : pstate) := (p_hist s, (p_spont s, p_tlf s, p_found s, p_fin s)).

Lemma pframe_split s s' : pframe s' = pframe s -> p_cfg s' = p_cfg s /\ prest s' = prest s.
Proof. unfold pframe, prest. intros [= E1 E2 E3 E4 E5 E6]. rewrite E1, E2, E3, E4, E5, E6. auto. Qed.

Lemma guard_ok_rest s s' : prest s' = prest s -> guard_ok s -> guard_ok s'.
Proof. unfold prest, PmlEquivContent.guard_ok. intros [= _ _ E1 _ E2]. now rewrite E1, E2. Qed.

(* blocks run on a state, in the form the three phases use them: `match bs with [] => s | _ => pexec_blocks bs (out t s)` *)
Lemma sim_opt_blocks bs t s x : pobs c t = None -> blocks_ok dom bs = true ->
  Rx s x -> store_has dom (x_store x) -> guard_ok s ->
  let s' := match bs with [] => s | b :: l => pexec_blocks pv c iq eq (b :: l) (out t s) end in
  p_full s' = false ->
  Rx s' (exec_blocks ex_fixed (inst_of c (p_cfg s)) bs x) /\
  store_has dom (x_store (exec_blocks ex_fixed (inst_of c (p_cfg s)) bs x)) /\ pframe s' = pframe s.
Proof.
  intros Et Hok R Hs G. destruct bs as [|b r]; cbv zeta; intros Hf.
  - cbn. auto.
  - destruct (sim_blocks pv c iq eq dom Hin (b :: r) (out t s) x Hok (Rx_out_none t s x Et R) Hs G Hf) as [R' Hs'].
    split; [exact R'|]. split; [exact Hs'|]. now destruct (keeps_blocks pv c iq eq (b :: r) (out t s)).
Qed.

Lemma mono_opt_blocks bs t : mono (fun s => match bs with [] => s | b :: l => pexec_blocks pv c iq eq (b :: l) (out t s) end).
Proof.
  destruct bs as [|b r]; [apply mono_id|].
  apply (mono_comp (out t) (pexec_blocks pv c iq eq (b :: r))); [intros s Hs; exact Hs | apply mono_keeps, keeps_blocks].
Qed.

(* ================================================================== EXIT_STATES *)
Definition p_exit_body (s : pstate) (i : nat) : pstate :=
  let s1 := out (PExiting i) s in
  let s2 := match fs_onexit (st c i) with
            | [] => s1
            | bs => pexec_blocks pv c iq eq bs (out (PProcExit i) s1)
            end in
  set_cfg (set_remove i (p_cfg s2)) s2.

Lemma mono_exit_body i : mono (fun s => p_exit_body s i).
Proof.
  unfold p_exit_body. intros s Hs. cbn [set_cfg p_full].
  apply (mono_opt_blocks (fs_onexit (st c i)) (PProcExit i) (out (PExiting i) s)). exact Hs.
Qed.

Lemma exit_body_sim s x i : Rx s x -> store_has dom (x_store x) -> guard_ok s ->
  p_full (p_exit_body s i) = false ->
  p_cfg (p_exit_body s i) = fst (exit_one ex_fixed c (p_cfg s, x) i) /\
  Rx (p_exit_body s i) (snd (exit_one ex_fixed c (p_cfg s, x) i)) /\
  store_has dom (x_store (snd (exit_one ex_fixed c (p_cfg s, x) i))) /\ prest (p_exit_body s i) = prest s.
Proof.
  intros R Hs G Hf. unfold p_exit_body in *. cbn [set_cfg p_full] in Hf. cbv zeta in *.
  destruct (state_content_ok i) as [_ Hok].
  assert (R1 : Rx (out (PExiting i) s) (emit (TXb (fs_sid (st c i))) x)) by (apply (Rx_out_emit _ _ (VExit (fs_sid (st c i)))); auto).
  destruct (sim_opt_blocks (fs_onexit (st c i)) (PProcExit i) (out (PExiting i) s) _ eq_refl Hok R1 Hs G Hf) as (R2 & Hs2 & F2).
  apply pframe_split in F2 as [C2 P2]. cbn [out p_cfg] in C2.
  unfold exit_one. cbn [fst snd set_cfg p_cfg]. rewrite C2. split; [reflexivity|]. split.
  - apply Rx_emit_none; [reflexivity|]. apply Rx_set_cfg. exact R2.
  - split; [exact Hs2|]. unfold prest in *. cbn [set_cfg p_hist p_spont p_tlf p_found p_fin]. exact P2.
Qed.

Lemma exit_fold_sim l : forall s x, NoDup l -> (forall i, In i l -> In i (p_cfg s)) ->
  Rx s x -> store_has dom (x_store x) -> guard_ok s ->
  let s' := fold_left (fun s i => if mem i (p_cfg s) then p_exit_body s i else s) l s in
  p_full s' = false ->
  p_cfg s' = fst (fold_left (exit_one ex_fixed c) l (p_cfg s, x)) /\
  Rx s' (snd (fold_left (exit_one ex_fixed c) l (p_cfg s, x))) /\
  store_has dom (x_store (snd (fold_left (exit_one ex_fixed c) l (p_cfg s, x)))) /\ prest s' = prest s.
Proof.
  induction l as [|i r IH]; intros s x Hnd Hin' R Hs G; cbn [fold_left]; intros Hf; [auto|].
  inversion Hnd as [|? ? Hni Hnd']; subst.
  rewrite (In_mem_true i (p_cfg s) (Hin' i (or_introl eq_refl))) in *.
  assert (M : mono (fun s => fold_left (fun s i => if mem i (p_cfg s) then p_exit_body s i else s) r s)).
  { apply mono_fold. intros a. apply (mono_if (fun s => mem a (p_cfg s))); [apply mono_exit_body|apply mono_id]. }
  pose proof (not_full_before _ _ M Hf) as Hf1.
  destruct (exit_body_sim s x i R Hs G Hf1) as (C1 & R1 & Hs1 & P1).
  destruct (exit_one ex_fixed c (p_cfg s, x) i) as [cfg1 x1] eqn:E1. cbn [fst snd] in *.
  assert (Hin1 : forall j, In j r -> In j (p_cfg (p_exit_body s i))).
  { intros j Hj. rewrite C1. unfold exit_one in E1. injection E1 as <- _. apply In_set_remove. split; [apply Hin'; now right|].
    intros ->. contradiction. }
  destruct (IH (p_exit_body s i) x1 Hnd' Hin1 R1 Hs1 (guard_ok_rest _ _ P1 G) Hf) as (C2 & R2 & Hs2 & P2).
  rewrite C1 in C2, R2, Hs2. split; [exact C2|]. split; [exact R2|]. split; [exact Hs2|congruence].
Qed.

Lemma exit_phase ex s x : ssorted ex -> bounded n ex -> (forall i, In i ex -> In i (p_cfg s)) ->
  Rx s x -> store_has dom (x_store x) -> guard_ok s ->
  let s' := fold_left (p_exit_one pv c iq eq ex) (rev (seq 0 (pn c))) s in
  p_full s' = false ->
  p_cfg s' = fst (fold_left (exit_one ex_fixed c) (rev ex) (p_cfg s, x)) /\
  Rx s' (snd (fold_left (exit_one ex_fixed c) (rev ex) (p_cfg s, x))) /\
  store_has dom (x_store (snd (fold_left (exit_one ex_fixed c) (rev ex) (p_cfg s, x)))) /\ prest s' = prest s.
Proof.
  intros Hso Hbd Hsub R Hs G. cbv zeta.
  assert (E : fold_left (p_exit_one pv c iq eq ex) (rev (seq 0 (pn c))) s =
              fold_left (fun s i => if mem i (p_cfg s) then p_exit_body s i else s) (rev ex) s).
  { rewrite <- (fold_revseq_as_set ex (pn c) (fun s i => mem i (p_cfg s)) p_exit_body s Hso Hbd). reflexivity. }
  rewrite E. apply exit_fold_sim; auto.
  - apply NoDup_rev. now apply ssorted_NoDup.
  - intros i Hi. apply Hsub. now apply in_rev.
Qed.

(* ================================================================== TAKE_TRANSITIONS *)
Definition p_trans_body (s : pstate) (j : nat) : pstate :=
  pexec_block pv c iq eq (ft_body (tr c j)) (out (PProcTrans j) s).

Lemma mono_trans_body j : mono (fun s => p_trans_body s j).
Proof.
  unfold p_trans_body. apply (mono_comp (out (PProcTrans j)) (pexec_block pv c iq eq (ft_body (tr c j)))).
  - intros s Hs; exact Hs.
  - apply mono_keeps, keeps_block.
Qed.

(* the content of one transition, bracketed as the engine brackets it *)
Lemma trans_body_sim s x j : Rx s x -> store_has dom (x_store x) -> guard_ok s ->
  p_full (p_trans_body s j) = false ->
  let x' := emit (TTe (ft_vid (tr c j)))
              (if ft_has_body (tr c j) then exec_block ex_fixed (inst_of c (p_cfg s)) (ft_body (tr c j)) (emit (TTb (ft_vid (tr c j))) x)
               else emit (TTb (ft_vid (tr c j))) x) in
  Rx (p_trans_body s j) x' /\ store_has dom (x_store x') /\ pframe (p_trans_body s j) = pframe s.
Proof.
  intros R Hs G Hf. unfold p_trans_body in *. cbv zeta.
  destruct (trans_content_ok j) as (Hb & Hnb & _).
  assert (R1 : Rx (out (PProcTrans j) s) (emit (TTb (ft_vid (tr c j))) x)) by (apply (Rx_out_emit _ _ (VTrans (ft_vid (tr c j)))); auto).
  destruct (sim_block pv c iq eq dom Hin (ft_body (tr c j)) (out (PProcTrans j) s) _ Hb R1 Hs G Hf) as [R2 Hs2].
  cbn [out p_cfg] in R2, Hs2.
  assert (F : pframe (pexec_block pv c iq eq (ft_body (tr c j)) (out (PProcTrans j) s)) = pframe s)
    by now destruct (keeps_block pv c iq eq (ft_body (tr c j)) (out (PProcTrans j) s)).
  destruct (ft_has_body (tr c j)) eqn:Hb'.
  - split; [apply Rx_emit_none; [reflexivity|exact R2]|]. split; [exact Hs2|exact F].
  - rewrite (Hnb eq_refl) in *. cbn [exec_block] in R2, Hs2.
    split; [apply Rx_emit_none; [reflexivity|exact R2]|]. split; [exact Hs2|exact F].
Qed.

Definition take_guard (s : pstate) (j : nat) : bool := negb (ft_history (tr c j)) && negb (ft_initial (tr c j)).

Lemma take_fold_sim l : forall s x, Rx s x -> store_has dom (x_store x) -> guard_ok s ->
  let s' := fold_left (fun s j => if take_guard s j then p_trans_body (out (PTaking j) s) j else s) l s in
  p_full s' = false ->
  Rx s' (fold_left (take_one ex_fixed c (p_cfg s)) l x) /\
  store_has dom (x_store (fold_left (take_one ex_fixed c (p_cfg s)) l x)) /\ pframe s' = pframe s.
Proof.
  induction l as [|j r IH]; intros s x R Hs G; cbn [fold_left]; intros Hf; [auto|].
  assert (M : mono (fun s => fold_left (fun s j => if take_guard s j then p_trans_body (out (PTaking j) s) j else s) r s)).
  { apply mono_fold. intros a. apply (mono_if (fun s => take_guard s a)); [|apply mono_id].
    apply (mono_comp (out (PTaking a)) (fun s => p_trans_body s a)); [intros s0 Hs0; exact Hs0 | apply mono_trans_body]. }
  pose proof (not_full_before _ _ M Hf) as Hf1.
  assert (Eg : take_guard s j = negb (ft_history (tr c j) || ft_initial (tr c j))) by (unfold take_guard; now rewrite negb_orb).
  rewrite Eg in *.
  destruct (ft_history (tr c j) || ft_initial (tr c j)) eqn:HI; cbn [negb] in *.
  - assert (Et : take_one ex_fixed c (p_cfg s) x j = x) by (unfold take_one; now rewrite HI).
    rewrite Et. apply IH; auto.
  - assert (Et : take_one ex_fixed c (p_cfg s) x j =
                 emit (TTe (ft_vid (tr c j)))
                   (if ft_has_body (tr c j) then exec_block ex_fixed (inst_of c (p_cfg s)) (ft_body (tr c j)) (emit (TTb (ft_vid (tr c j))) x)
                    else emit (TTb (ft_vid (tr c j))) x)) by (unfold take_one; now rewrite HI).
    rewrite Et.
    assert (R0 : Rx (out (PTaking j) s) x) by (apply Rx_out_none; auto).
    destruct (trans_body_sim (out (PTaking j) s) x j R0 Hs G Hf1) as (R1 & Hs1 & F1). cbv zeta in R1, Hs1. cbn [out p_cfg] in R1, Hs1.
    apply pframe_split in F1 as [C1 P1]. cbn [out p_cfg] in C1. change (prest (out (PTaking j) s)) with (prest s) in P1.
    destruct (IH _ _ R1 Hs1 (guard_ok_rest _ _ P1 G) Hf) as (R2 & Hs2 & F2).
    rewrite C1 in R2, Hs2. split; [exact R2|]. split; [exact Hs2|].
    apply pframe_split in F2 as [C2 P2]. unfold pframe, prest in *. congruence.
Qed.

Lemma take_phase ts s x : ssorted ts -> bounded nt ts ->
  Rx s x -> store_has dom (x_store x) -> guard_ok s ->
  let s' := fold_left (p_take_one pv c iq eq ts) (seq 0 (pnt c)) s in
  p_full s' = false ->
  Rx s' (fold_left (take_one ex_fixed c (p_cfg s)) ts x) /\
  store_has dom (x_store (fold_left (take_one ex_fixed c (p_cfg s)) ts x)) /\ pframe s' = pframe s.
Proof.
  intros Hso Hbd R Hs G. cbv zeta.
  assert (E : fold_left (p_take_one pv c iq eq ts) (seq 0 (pnt c)) s =
              fold_left (fun s j => if take_guard s j then p_trans_body (out (PTaking j) s) j else s) ts s).
  { rewrite <- (fold_seq_as_set ts (pnt c) take_guard (fun s j => p_trans_body (out (PTaking j) s) j) s Hso Hbd).
    apply fold_ext. intros s0 j _. unfold p_take_one, take_guard, p_trans_body. now rewrite andb_assoc. }
  rewrite E. now apply take_fold_sim.
Qed.

(* ================================================================== ENTER_STATES *)
(* "are we the last final state to leave a parallel state?" -- the temporary set of both sides *)
Lemma par_tmp_eq cfg j : ssorted cfg -> bounded n cfg ->
  fold_left (fun tmp k =>
               if mem j (fs_ancestors (st c k)) && mem k cfg then
                 if is_fin (ptype c k) then set_diff tmp (fs_ancestors (st c k)) else insert_sorted k tmp
               else tmp) (seq 0 (pn c)) [] =
  fold_left (fun tmp k =>
               if mem j (fs_ancestors (st c k)) then
                 match fs_type (st c k) with
                 | FFinal => set_diff tmp (fs_ancestors (st c k))
                 | _ => insert_sorted k tmp
                 end
               else tmp) cfg [].
Proof.
  intros Hso Hbd.
  rewrite <- (fold_seq_as_set cfg (pn c) (fun _ k => mem j (fs_ancestors (st c k)))
                (fun tmp k => match fs_type (st c k) with FFinal => set_diff tmp (fs_ancestors (st c k)) | _ => insert_sorted k tmp end)
                [] Hso Hbd).
  apply fold_ext. intros tmp k _. rewrite andb_comm. destruct (mem k cfg && mem j (fs_ancestors (st c k))); [|reflexivity].
  unfold ptype. destruct (fs_type (st c k)); reflexivity.
Qed.

Definition done_guard (i : nat) (s : pstate) (j : nat) : bool := is_par (ptype c j).

Definition p_done_body (s : pstate) (j : nat) : pstate :=
  match fold_left (fun tmp k =>
                     if mem j (fs_ancestors (st c k)) && mem k (p_cfg s) then
                       if is_fin (ptype c k) then set_diff tmp (fs_ancestors (st c k)) else insert_sorted k tmp
                     else tmp) (seq 0 (pn c)) [] with
  | [] => p_raise_direct iq (done_name c j) s
  | _ => s
  end.

Lemma keeps_done_body j : keeps (fun s => p_done_body s j).
Proof.
  intros s. unfold p_done_body. destruct (fold_left _ _ _); [apply keeps_raise_direct|split; auto].
Qed.

Lemma done_name_event j : done_name c j = ev_name (done_event c j).
Proof. reflexivity. Qed.

Lemma done_fold_sim l : forall s x cfg, p_cfg s = cfg -> ssorted cfg -> bounded n cfg -> Rx s x ->
  let s' := fold_left (fun s j => if done_guard 0 s j then p_done_body s j else s) l s in
  p_full s' = false ->
  Rx s' (fold_left (fun x j => match fs_type (st c j) with
                               | FParallel => if fpar_done c cfg j then raise_int (done_event c j) x else x
                               | _ => x
                               end) l x) /\ pframe s' = pframe s.
Proof.
  induction l as [|j r IH]; intros s x cfg Hc Hso Hbd R; cbn [fold_left]; intros Hf; [auto|].
  assert (M : mono (fun s => fold_left (fun s j => if done_guard 0 s j then p_done_body s j else s) r s)).
  { apply mono_fold. intros a. apply (mono_if (fun s => done_guard 0 s a)); [apply mono_keeps, keeps_done_body|apply mono_id]. }
  pose proof (not_full_before _ _ M Hf) as Hf1.
  assert (Eg : done_guard 0 s j = is_par (fs_type (st c j))) by reflexivity.
  rewrite Eg in *.
  destruct (fs_type (st c j)) eqn:Et; cbn [is_par] in *; try (apply IH; auto).
  destruct (keeps_done_body j s) as [F1 _]. apply pframe_split in F1 as [C1 P1].
  assert (R1 : Rx (p_done_body s j) (if fpar_done c cfg j then raise_int (done_event c j) x else x)).
  { unfold p_done_body in *. unfold fpar_done. rewrite Hc in *. rewrite (par_tmp_eq cfg j Hso Hbd) in *.
    destruct (fold_left _ cfg []); [|exact R]. rewrite done_name_event in *. apply Rx_raise_direct; auto. }
  destruct (IH (p_done_body s j) _ cfg ltac:(congruence) Hso Hbd R1 Hf) as (R2 & F2).
  split; [exact R2|]. apply pframe_split in F2 as [C2 P2]. unfold pframe, prest in *. congruence.
Qed.

(* the <history>/<initial> transitions whose content runs after the parent's <onentry> *)
Definition pseudo_guard (i : nat) (s : pstate) (j : nat) : bool :=
  (ft_history (tr c j) || ft_initial (tr c j)) && (pparent c (ft_source (tr c j)) =? i).

Lemma pseudo_fold_sim i l : i <> 0 -> forall s x, Rx s x -> store_has dom (x_store x) -> guard_ok s ->
  let s' := fold_left (fun s j => if pseudo_guard i s j then p_trans_body s j else s) l s in
  p_full s' = false ->
  let x' := fold_left (fun x ti =>
                 let t := tr c ti in
                 if (ft_history t || ft_initial t) &&
                    match fs_parent (st c (ft_source t)) with Some p => p =? i | None => false end then
                   let y1 := emit (TTb (ft_vid t)) x in
                   let y2 := if ft_has_body t then exec_block ex_fixed (inst_of c (p_cfg s)) (ft_body t) y1 else y1 in
                   emit (TTe (ft_vid t)) y2
                 else x) l x in
  Rx s' x' /\ store_has dom (x_store x') /\ pframe s' = pframe s.
Proof.
  intros Hi. induction l as [|j r IH]; intros s x R Hs G; cbn [fold_left]; intros Hf; [auto|].
  assert (M : mono (fun s => fold_left (fun s j => if pseudo_guard i s j then p_trans_body s j else s) r s)).
  { apply mono_fold. intros a. apply (mono_if (fun s => pseudo_guard i s a)); [apply mono_trans_body|apply mono_id]. }
  pose proof (not_full_before _ _ M Hf) as Hf1. cbv zeta.
  assert (Eg : pseudo_guard i s j =
               (ft_history (tr c j) || ft_initial (tr c j)) &&
               match fs_parent (st c (ft_source (tr c j))) with Some p => p =? i | None => false end).
  { unfold pseudo_guard, pparent. destruct (fs_parent (st c (ft_source (tr c j)))); [reflexivity|].
    replace (0 =? i) with false by (symmetry; apply Nat.eqb_neq; lia). reflexivity. }
  rewrite Eg in *.
  destruct ((ft_history (tr c j) || ft_initial (tr c j)) &&
            match fs_parent (st c (ft_source (tr c j))) with Some p => p =? i | None => false end).
  - destruct (trans_body_sim s x j R Hs G Hf1) as (R1 & Hs1 & F1). cbv zeta in R1, Hs1.
    apply pframe_split in F1 as [C1 P1].
    destruct (IH _ _ R1 Hs1 (guard_ok_rest _ _ P1 G) Hf) as (R2 & Hs2 & F2). cbv zeta in R2, Hs2.
    rewrite C1 in R2, Hs2. split; [exact R2|]. split; [exact Hs2|].
    apply pframe_split in F2 as [C2 P2]. unfold pframe, prest in *. congruence.
  - apply IH; auto.
Qed.

(* ENTER_STATES for one state, in five parts *)
Definition pe1 (i : nat) (s : pstate) : pstate := set_cfg (insert_sorted i (p_cfg s)) (out (PEntering i) s).
Definition pe2 (i : nat) (s1 : pstate) : pstate :=
  match fs_onentry (st c i) with
  | [] => s1
  | b :: l => pexec_blocks pv c iq eq (b :: l) (out (PProcEntry i) s1)
  end.
Definition pe3 (ts : list nat) (i : nat) (s2 : pstate) : pstate :=
  fold_left (fun a j =>
               let t := tr c j in
               if mem j ts && (ft_history t || ft_initial t) && (pparent c (ft_source t) =? i) then
                 pexec_block pv c iq eq (ft_body t) (out (PProcTrans j) a)
               else a) (seq 0 (pnt c)) s2.
Definition pe4 (i : nat) (s3 : pstate) : pstate :=
  if mem 1 (fs_children (st c (pparent c i))) then set_flags (p_spont s3) true (p_found s3) true s3
  else match fs_parent (st c i) with
       | Some p => p_raise_direct iq (done_name c p) s3
       | None => s3
       end.
Definition pe5 (i : nat) (s4 : pstate) : pstate := fold_left (p_parallel_done c iq i) (seq 0 (pn c)) s4.

Definition p_enter_body (ts : list nat) (s : pstate) (i : nat) : pstate :=
  let s3 := pe3 ts i (pe2 i (pe1 i s)) in
  if is_fin (ptype c i) then pe5 i (pe4 i s3) else s3.

Lemma p_enter_one_form es ts s i :
  p_enter_one pv c iq eq es ts s i =
  if mem i es && (negb (mem i (p_cfg s)) && negb (is_pseudo (ptype c i))) then p_enter_body ts s i else s.
Proof. unfold p_enter_one. rewrite andb_assoc. reflexivity. Qed.

Lemma pe3_as_set ts i s2 : ssorted ts -> bounded nt ts ->
  pe3 ts i s2 = fold_left (fun s j => if pseudo_guard i s j then p_trans_body s j else s) ts s2.
Proof.
  intros Hts Htb. unfold pe3.
  rewrite <- (fold_seq_as_set ts (pnt c) (pseudo_guard i) p_trans_body s2 Hts Htb).
  apply fold_ext. intros s' j _. cbv zeta. unfold pseudo_guard, p_trans_body. now rewrite andb_assoc.
Qed.

Lemma pe5_as_set i s4 :
  pe5 i s4 = fold_left (fun s j => if done_guard 0 s j then p_done_body s j else s) (fs_ancestors (st c i)) s4.
Proof.
  unfold pe5.
  rewrite <- (fold_seq_as_set (fs_ancestors (st c i)) (pn c) (done_guard 0) p_done_body s4 (anc_sorted c H i) (anc_bounded c H i)).
  apply fold_ext. intros s' j _. unfold p_parallel_done, done_guard, p_done_body. now rewrite andb_comm.
Qed.

Lemma mono_pe1 i : mono (pe1 i).
Proof. intros s Hs; exact Hs. Qed.
Lemma mono_pe2 i : mono (pe2 i).
Proof. unfold pe2. apply mono_opt_blocks. Qed.
Lemma mono_pe3 ts i : mono (pe3 ts i).
Proof.
  unfold pe3. apply mono_fold. intros j s Hs. cbv zeta. destruct (_ && _); [|exact Hs].
  now apply (mono_keeps _ (keeps_block pv c iq eq (ft_body (tr c j)))).
Qed.
Lemma mono_pe4 i : mono (pe4 i).
Proof.
  intros s Hs. unfold pe4. destruct (mem 1 _); [exact Hs|]. destruct (fs_parent (st c i)); [|exact Hs].
  now apply (mono_keeps _ (keeps_raise_direct iq _)).
Qed.
Lemma mono_pe5 i : mono (pe5 i).
Proof.
  unfold pe5. apply mono_fold. intros j s Hs. unfold p_parallel_done.
  destruct (is_par (ptype c j) && mem j (fs_ancestors (st c i))); [|exact Hs].
  match goal with |- p_full (match ?t with [] => _ | _ => _ end) = true => destruct t end;
    [now apply (mono_keeps _ (keeps_raise_direct iq _))|exact Hs].
Qed.

Lemma mono_enter_body ts i : mono (fun s => p_enter_body ts s i).
Proof.
  intros s Hs. unfold p_enter_body. cbv zeta.
  pose proof (mono_pe3 ts i _ (mono_pe2 i _ (mono_pe1 i _ Hs))) as H3.
  destruct (is_fin (ptype c i)); [|exact H3]. apply mono_pe5, mono_pe4, H3.
Qed.

(* one state entered *)
Record ecorr (s : pstate) (a : enter_acc) : Prop := {
  ec_cfg : p_cfg s = ea_cfg a;
  ec_rx : Rx s (ea_x a);
  ec_store : store_has dom (x_store (ea_x a));
  ec_tlf : p_tlf s = ea_tlf a;
  ec_fin : p_fin s = ea_tlf a;
  ec_sorted : ssorted (ea_cfg a);
  ec_bounded : bounded n (ea_cfg a);
  ec_root : In 0 (ea_cfg a)
}.

Hypothesis Hdata : forall i, i <> 0 -> fs_data (st c i) = [].

(* the engine's side, with the data initialisation (nothing to do outside the root) removed *)
Definition fe3 (ts : list nat) (i : nat) (cfg1 : list nat) (x : xstate) : xstate :=
  let x3 := exec_blocks ex_fixed (inst_of c cfg1) (fs_onentry (st c i)) (emit (TEb (fs_sid (st c i))) x) in
  fold_left (fun x ti =>
               let t := tr c ti in
               if (ft_history t || ft_initial t) &&
                  match fs_parent (st c (ft_source t)) with Some p => p =? i | None => false end then
                 let y1 := emit (TTb (ft_vid t)) x in
                 let y2 := if ft_has_body t then exec_block ex_fixed (inst_of c cfg1) (ft_body t) y1 else y1 in
                 emit (TTe (ft_vid t)) y2
               else x) ts (emit (TEe (fs_sid (st c i))) x3).

Definition fe5 (i : nat) (cfg1 : list nat) (x6 : xstate) : xstate :=
  fold_left (fun x j => match fs_type (st c j) with
                        | FParallel => if fpar_done c cfg1 j then raise_int (done_event c j) x else x
                        | _ => x
                        end) (fs_ancestors (st c i)) x6.

Lemma fenter_one_form ts a i : i <> 0 -> ~ In i (ea_cfg a) ->
  let cfg1 := insert_sorted i (ea_cfg a) in
  let x5 := fe3 ts i cfg1 (ea_x a) in
  let r := fenter_one ex_fixed c ts a i in
  ea_cfg r = cfg1 /\
  match fs_type (st c i) with
  | FFinal =>
    let top := match fs_ancestors (st c i) with [0] => true | _ => false end in
    ea_tlf r = (ea_tlf a || top) /\
    ea_x r = fe5 i cfg1 (if top then x5 else match fs_parent (st c i) with Some p => raise_int (done_event c p) x5 | None => x5 end)
  | _ => ea_tlf r = ea_tlf a /\ ea_x r = x5
  end.
Proof.
  intros Hi0 Hni. cbv zeta. unfold fenter_one, fe3, fe5.
  rewrite (proj2 (mem_false_In i (ea_cfg a)) Hni), (core_proper c H i), (Hdata i Hi0). cbn [fold_left].
  destruct (mem i (ea_initd a)); destruct (fs_type (st c i)); cbn [ea_cfg ea_tlf ea_x]; auto.
Qed.

Lemma fe5_store i cfg1 x : x_store (fe5 i cfg1 x) = x_store x.
Proof.
  unfold fe5. generalize (fs_ancestors (st c i)). intros l. revert x.
  induction l as [|j r IHl]; intros x0; cbn [fold_left]; [reflexivity|]. rewrite IHl.
  destruct (fs_type (st c j)); try reflexivity. destruct (fpar_done c cfg1 j); reflexivity.
Qed.

Lemma enter_body_sim ts s a i : ssorted ts -> bounded nt ts -> i < n -> ~ In i (ea_cfg a) ->
  ecorr s a -> p_full (p_enter_body ts s i) = false ->
  ecorr (p_enter_body ts s i) (fenter_one ex_fixed c ts a i) /\
  p_hist (p_enter_body ts s i) = p_hist s /\ p_spont (p_enter_body ts s i) = p_spont s.
Proof.
  intros Hts Htb Hi Hni [Ec Er Es Et Ef Eso Ebd E0] Hf.
  assert (Hi0 : i <> 0) by (intros ->; contradiction).
  assert (G : guard_ok s) by (unfold PmlEquivContent.guard_ok; rewrite Et, Ef; now destruct (ea_tlf a)).
  destruct (fenter_one_form ts a i Hi0 Hni) as [Fc Fr]. cbv zeta in Fc, Fr.
  set (cfg1 := insert_sorted i (ea_cfg a)) in *.
  set (r := fenter_one ex_fixed c ts a i) in *.
  unfold p_enter_body in *. cbv zeta in *.
  set (s1 := pe1 i s) in *. set (s2 := pe2 i s1) in *. set (s3 := pe3 ts i s2) in *.
  (* not full at the end: not full after each part *)
  assert (Hf3 : p_full s3 = false).
  { destruct (is_fin (ptype c i)); [|exact Hf].
    apply (not_full_before (fun s => pe5 i (pe4 i s)) s3); [|exact Hf].
    apply (mono_comp (pe4 i) (pe5 i)); [apply mono_pe4|apply mono_pe5]. }
  pose proof (not_full_before (pe3 ts i) s2 (mono_pe3 ts i) Hf3) as Hf2.
  assert (C1 : p_cfg s1 = cfg1) by (unfold s1, pe1, cfg1; cbn [set_cfg p_cfg]; now rewrite Ec).
  assert (R1 : Rx s1 (emit (TEb (fs_sid (st c i))) (ea_x a))).
  { unfold s1, pe1. apply Rx_set_cfg. apply (Rx_out_emit _ _ (VEnter (fs_sid (st c i)))); auto. }
  assert (P1 : prest s1 = prest s) by reflexivity.
  destruct (state_content_ok i) as [Hok _].
  assert (G1 : guard_ok s1) by now apply (guard_ok_rest s).
  destruct (sim_opt_blocks (fs_onentry (st c i)) (PProcEntry i) s1 _ eq_refl Hok R1 Es G1 Hf2) as (R2 & Hs2 & F2).
  fold (pe2 i s1) in R2, F2. fold s2 in R2, F2. rewrite C1 in R2, Hs2. apply pframe_split in F2 as [C2 P2].
  assert (R2' : Rx s2 (emit (TEe (fs_sid (st c i))) (exec_blocks ex_fixed (inst_of c cfg1) (fs_onentry (st c i)) (emit (TEb (fs_sid (st c i))) (ea_x a)))))
    by (apply Rx_emit_none; auto).
  assert (G2 : guard_ok s2) by now apply (guard_ok_rest s1).
  unfold s3 in Hf3. rewrite (pe3_as_set ts i s2 Hts Htb) in Hf3.
  destruct (pseudo_fold_sim i ts Hi0 s2 _ R2' Hs2 G2 Hf3) as (R3 & Hs3 & F3). cbv zeta in R3, Hs3.
  rewrite <- (pe3_as_set ts i s2 Hts Htb) in R3, F3. fold s3 in R3, F3.
  rewrite C2, C1 in R3, Hs3. fold (fe3 ts i cfg1 (ea_x a)) in R3, Hs3.
  apply pframe_split in F3 as [C3 P3].
  assert (C3' : p_cfg s3 = cfg1) by congruence.
  assert (P3' : prest s3 = prest s) by congruence.
  assert (Hso1 : ssorted cfg1) by (apply insert_sorted_ssorted; exact Eso).
  assert (Hbd1 : bounded n cfg1).
  { apply bounded_intro. intros y Hy. apply insert_sorted_In in Hy as [->|Hy]; [exact Hi | now apply (bounded_In n (ea_cfg a))]. }
  assert (H01 : In 0 cfg1) by (apply insert_sorted_In; now right).
  unfold ptype in *.
  destruct (fs_type (st c i)) eqn:Ety; cbn [is_fin] in *;
    try (destruct Fr as [Ft Fx]; unfold prest in P3';
         split; [constructor; rewrite ?Fc, ?Ft, ?Fx; auto; congruence | split; congruence]).
  (* a final state *)
  destruct Fr as [Ft Fx].
  destruct (parent_some c H i ltac:(lia) Hi) as (p & Hp & Hpi).
  assert (Epp : pparent c i = p) by (unfold pparent; now rewrite Hp).
  rewrite Hp, (top_level_tests c H i p Hp) in *.
  set (top := mem 1 (fs_children (st c p))) in *.
  set (s4 := pe4 i s3) in *.
  pose proof (not_full_before (pe5 i) s4 (mono_pe5 i) Hf) as Hf4.
  assert (R4 : Rx s4 (if top then fe3 ts i cfg1 (ea_x a) else raise_int (done_event c p) (fe3 ts i cfg1 (ea_x a))) /\
               p_cfg s4 = cfg1 /\ p_hist s4 = p_hist s /\
               p_spont s4 = p_spont s /\ p_tlf s4 = (ea_tlf a || top) /\ p_fin s4 = (ea_tlf a || top)).
  { unfold s4, pe4 in *. rewrite Epp, Hp in *. fold top in Hf4 |- *. unfold prest in P3'. destruct top.
    - cbn [set_flags p_cfg p_hist p_spont p_tlf p_fin]. rewrite orb_true_r.
      split; [apply Rx_set_flags; exact R3|]. repeat split; congruence.
    - rewrite orb_false_r. destruct (keeps_raise_direct iq (done_name c p) s3) as [F4 _].
      apply pframe_split in F4 as [C4 P4]. unfold prest in P4. rewrite done_name_event in *.
      split; [apply Rx_raise_direct; auto|]. repeat split; congruence. }
  destruct R4 as (R4 & C4 & Hh4 & Hsp4 & Ht4 & Hfi4).
  rewrite (pe5_as_set i s4) in *.
  destruct (done_fold_sim (fs_ancestors (st c i)) s4 _ cfg1 C4 Hso1 Hbd1 R4 Hf) as (R5 & F5).
  apply pframe_split in F5 as [C5 P5]. unfold prest in P5.
  split; [|split; congruence].
  constructor; rewrite ?Fc, ?Ft, ?Fx.
  - congruence.
  - unfold fe5. destruct top; exact R5.
  - rewrite fe5_store. destruct top; exact Hs3.
  - congruence.
  - congruence.
  - exact Hso1.
  - exact Hbd1.
  - exact H01.
Qed.

Lemma enter_fold_sim ts l : ssorted ts -> bounded nt ts -> (forall i, In i l -> i < n) ->
  forall s a, ecorr s a ->
  let s' := fold_left (fun s i => if negb (mem i (p_cfg s)) && negb (is_pseudo (ptype c i)) then p_enter_body ts s i else s) l s in
  p_full s' = false ->
  ecorr s' (fold_left (fenter_one ex_fixed c ts) l a) /\ p_hist s' = p_hist s /\ p_spont s' = p_spont s.
Proof.
  intros Hts Htb. induction l as [|i r IH]; intros Hl s a E; cbn [fold_left]; intros Hf; [auto|].
  assert (M : mono (fun s => fold_left (fun s i => if negb (mem i (p_cfg s)) && negb (is_pseudo (ptype c i)) then p_enter_body ts s i else s) r s)).
  { apply mono_fold. intros j. apply (mono_if (fun s => negb (mem j (p_cfg s)) && negb (is_pseudo (ptype c j)))); [apply mono_enter_body|apply mono_id]. }
  pose proof (not_full_before _ _ M Hf) as Hf1.
  unfold ptype at 1 in Hf1. unfold ptype at 2 in Hf. unfold ptype at 2 4 6. rewrite (core_proper c H i) in *. rewrite andb_true_r in *.
  rewrite (ec_cfg _ _ E) in *.
  destruct (mem i (ea_cfg a)) eqn:Mi; cbn [negb] in *.
  - assert (Ea : fenter_one ex_fixed c ts a i = a) by (unfold fenter_one; now rewrite Mi).
    rewrite Ea. apply IH; auto. intros j Hj. apply Hl. now right.
  - apply mem_false_In in Mi.
    destruct (enter_body_sim ts s a i Hts Htb (Hl i (or_introl eq_refl)) Mi E Hf1) as (E1 & Hh1 & Hs1).
    destruct (IH (fun j Hj => Hl j (or_intror Hj)) _ _ E1 Hf) as (E2 & Hh2 & Hs2).
    split; [exact E2|split; congruence].
Qed.

Lemma enter_as_set es ts s : ssorted es -> bounded n es ->
  fold_left (p_enter_one pv c iq eq es ts) (seq 0 (pn c)) s =
  fold_left (fun s i => if negb (mem i (p_cfg s)) && negb (is_pseudo (ptype c i)) then p_enter_body ts s i else s) es s.
Proof.
  intros Hes Heb.
  rewrite <- (fold_seq_as_set es (pn c) (fun s i => negb (mem i (p_cfg s)) && negb (is_pseudo (ptype c i))) (p_enter_body ts) s Hes Heb).
  apply fold_ext. intros s' i _. apply p_enter_one_form.
Qed.

Lemma enter_phase es ts s a : ssorted es -> bounded n es -> ssorted ts -> bounded nt ts ->
  ecorr s a ->
  let s' := fold_left (p_enter_one pv c iq eq es ts) (seq 0 (pn c)) s in
  p_full s' = false ->
  ecorr s' (fold_left (fenter_one ex_fixed c ts) es a) /\ p_hist s' = p_hist s /\ p_spont s' = p_spont s.
Proof.
  intros Hes Heb Hts Htb E. cbv zeta. rewrite (enter_as_set es ts s Hes Heb).
  apply enter_fold_sim; auto. intros i Hi. now apply (bounded_In n es).
Qed.

(* the phases as a whole never clear the "queue full" flag *)
Lemma mono_take_phase ts : mono (fun s => fold_left (p_take_one pv c iq eq ts) (seq 0 (pnt c)) s).
Proof.
  apply mono_fold. intros j s Hs. unfold p_take_one. destruct (_ && _); [|exact Hs].
  now apply (mono_keeps _ (keeps_block pv c iq eq (ft_body (tr c j)))).
Qed.
Lemma mono_enter_phase es ts : mono (fun s => fold_left (p_enter_one pv c iq eq es ts) (seq 0 (pn c)) s).
Proof.
  apply mono_fold. intros i s Hs. rewrite p_enter_one_form. destruct (_ && _); [|exact Hs]. now apply mono_enter_body.
Qed.

(* ================================================================== the three phases together *)
Lemma exit_cfg_fold' l : forall cfg x,
  fst (fold_left (exit_one ex_fixed c) l (cfg, x)) = fold_left (fun g i => set_remove i g) l cfg.
Proof. induction l as [|i r IH]; intros cfg x; cbn [fold_left]; [reflexivity|]. unfold exit_one at 2. apply IH. Qed.

Theorem phases_sim ex ts es s x initd :
  ssorted ex -> bounded n ex -> ssorted ts -> bounded nt ts -> ssorted es -> bounded n es ->
  ssorted (p_cfg s) -> bounded n (p_cfg s) -> In 0 (p_cfg s) -> mem 0 ex = false -> (forall i, In i ex -> In i (p_cfg s)) ->
  Rx s x -> store_has dom (x_store x) -> p_fin s = p_tlf s ->
  let s3 := fold_left (p_exit_one pv c iq eq ex) (rev (seq 0 (pn c))) s in
  let s4 := fold_left (p_take_one pv c iq eq ts) (seq 0 (pnt c)) s3 in
  let s5 := fold_left (p_enter_one pv c iq eq es ts) (seq 0 (pn c)) s4 in
  let cx1 := fold_left (exit_one ex_fixed c) (rev ex) (p_cfg s, x) in
  let x2 := fold_left (take_one ex_fixed c (fst cx1)) ts (snd cx1) in
  let a := fold_left (fenter_one ex_fixed c ts) es {| ea_cfg := fst cx1; ea_initd := initd; ea_tlf := p_tlf s; ea_x := x2 |} in
  p_full s5 = false ->
  p_cfg s5 = ea_cfg a /\ Rx s5 (ea_x a) /\ store_has dom (x_store (ea_x a)) /\
  p_tlf s5 = ea_tlf a /\ p_fin s5 = ea_tlf a /\ p_hist s5 = p_hist s /\ p_spont s5 = p_spont s.
Proof.
  intros Xs Xb Ts Tb Es Eb Cs Cb C0 X0 Xsub R Hs Hft. cbv zeta. intros Hfull.
  set (s3 := fold_left (p_exit_one pv c iq eq ex) (rev (seq 0 (pn c))) s) in *.
  set (s4 := fold_left (p_take_one pv c iq eq ts) (seq 0 (pnt c)) s3) in *.
  pose proof (not_full_before _ s4 (mono_enter_phase es ts) Hfull) as Hf4.
  pose proof (not_full_before _ s3 (mono_take_phase ts) Hf4) as Hf3.
  assert (G : guard_ok s) by (unfold PmlEquivContent.guard_ok; rewrite Hft; now destruct (p_tlf s)).
  destruct (exit_phase ex s x Xs Xb Xsub R Hs G Hf3) as (C3 & R3 & S3 & P3). fold s3 in C3, R3, S3, P3.
  destruct (fold_left (exit_one ex_fixed c) (rev ex) (p_cfg s, x)) as [cfg1 x1] eqn:Eex. cbn [fst snd] in *.
  assert (Ecfg1 : cfg1 = fold_left (fun g i => set_remove i g) (rev ex) (p_cfg s)).
  { pose proof (exit_cfg_fold' (rev ex) (p_cfg s) x) as E. rewrite Eex in E. exact E. }
  destruct (take_phase ts s3 x1 Ts Tb R3 S3 (guard_ok_rest _ _ P3 G) Hf4) as (R4 & S4 & F4).
  fold s4 in R4, S4, F4. rewrite C3 in R4, S4. apply pframe_split in F4 as [C4 P4].
  assert (P4' : prest s4 = prest s) by congruence. unfold prest in P4'.
  assert (Hin1 : forall y, In y cfg1 -> In y (p_cfg s)).
  { intros y. rewrite Ecfg1. generalize (rev ex), (p_cfg s). induction l as [|i r IH]; intros g Hy; cbn [fold_left] in Hy; [exact Hy|].
    apply IH in Hy. apply In_set_remove in Hy. tauto. }
  assert (H01 : In 0 cfg1).
  { rewrite Ecfg1. assert (Hn : ~ In 0 (rev ex)) by (rewrite <- in_rev; now apply mem_false_In).
    revert Hn C0. generalize (rev ex), (p_cfg s). induction l as [|i r IH]; intros g Hn Hg; cbn [fold_left]; [exact Hg|].
    apply IH; [intros Hr; apply Hn; now right|]. apply In_set_remove. split; [exact Hg|]. intros E. apply Hn. left. now symmetry. }
  assert (Hs1 : ssorted cfg1).
  { rewrite Ecfg1. revert Cs. generalize (rev ex), (p_cfg s). induction l as [|i r IH]; intros g Hg; cbn [fold_left]; [exact Hg|].
    apply IH. now apply set_remove_ssorted. }
  assert (E4 : ecorr s4 {| ea_cfg := cfg1; ea_initd := initd; ea_tlf := p_tlf s; ea_x := fold_left (take_one ex_fixed c cfg1) ts x1 |}).
  { constructor; cbn [ea_cfg ea_x ea_tlf].
    - congruence.
    - exact R4.
    - exact S4.
    - congruence.
    - congruence.
    - exact Hs1.
    - apply bounded_intro. intros y Hy. apply (bounded_In n (p_cfg s)); auto.
    - exact H01. }
  destruct (enter_phase es ts s4 _ Es Eb Ts Tb E4 Hfull) as ([F1 F2 F3 F4' F5 _ _ _] & Hh5 & Hsp5).
  split; [exact F1|]. split; [exact F2|]. split; [exact F3|]. split; [exact F4'|]. split; [exact F5|]. split; congruence.
Qed.

End Phases.
