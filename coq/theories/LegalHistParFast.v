(* LegalHistParFast.v -- the loop invariant HInvP (LegalHistParEntry.v) for the descendant loop of the FAST engine
   (Fast.fdescend_one / fentry_set) on charts of WFHP: LegalHistFast.v with <history> directly below <parallel>. *)
From V Require Import Base NameMatch Chart Exec Large Fast LargeLemmas Legal SetLemmas LegalAbstract LegalLarge
     LegalHistBase LegalHistEntry LegalHistStep LegalHistFast LegalHistParBase LegalHistParEntry LegalHistParStep.
Local Open Scope nat_scope.

Section FPEntry.
Variable c : fchart.
Let n := nstates c.
Let par (i : nat) := fs_parent (st c i).
Let ch (i : nat) := fs_children (st c i).
Let kd (i : nat) := fs_type (st c i).
Let cpl (i : nat) := fs_completion (st c i).
Notation Anc := (Anc par).
Notation pseudo := (pseudoS c).

Hypothesis W : WFHP c.

Lemma filter_all_true_p {A} (f : A -> bool) (l : list A) : (forall x, In x l -> f x = true) -> filter f l = l.
Proof.
  induction l as [|x r IH]; intros Hf; cbn [filter]; [reflexivity|].
  rewrite (Hf x (or_introl eq_refl)). f_equal. apply IH. intros y Hy. apply Hf. now right.
Qed.

Lemma desc_spec_p i x : i < n -> x < n -> (In x (desc c i) <-> Anc i x).
Proof.
  intros Hi Hx. unfold desc. rewrite in_seq. pose proof (whp_interval c W i x Hi Hx) as [A B].
  split; intros H; [apply B; lia | apply A in H; lia].
Qed.

Lemma fold_cond_all_p (P : nat -> bool) (f : nat -> list nat) l : (forall y, In y l -> P y = true) ->
  forall acc, fold_left (fun a y => if P y then set_union a (f y) else a) l acc = fold_left (fun a y => set_union a (f y)) l acc.
Proof.
  induction l as [|y r IH]; intros HP acc; cbn [fold_left]; [reflexivity|].
  rewrite (HP y (or_introl eq_refl)). apply IH. intros z Hz. apply HP. now right.
Qed.

Section Loop.
Variable cfg exitset hist tg ts0 : list nat.
Hypothesis tg_bound : forall g, In g tg -> 0 < g /\ g < n.
Hypothesis HH : HistOK c hist.
Hypothesis HE0_uniq : forall i k1 k2, kd i = FCompound -> par k1 = Some i -> par k2 = Some i ->
  In k1 (HE0 c tg) -> In k2 (HE0 c tg) -> k1 = k2.
Hypothesis HE0_par : forall q h x, kd q = FParallel -> par h = Some q -> pseudo h = true ->
  In h (HE0 c tg) -> In x (HE0 c tg) -> Anc q x -> par x = Some q.
Hypothesis HE0_par2 : forall q h1 h2, kd q = FParallel -> par h1 = Some q -> par h2 = Some q ->
  pseudo h1 = true -> pseudo h2 = true -> In h1 (HE0 c tg) -> In h2 (HE0 c tg) -> h1 = h2.

Variable Q : nat -> Prop.
Hypothesis Q0 : forall x, In x (HE0 c tg) -> Q x.
Hypothesis Qpar : forall j x, Q j -> kd j = FParallel -> par x = Some j -> pseudo x = false -> Q x.
Hypothesis Qcomp : forall j x, Q j -> kd j = FCompound -> (forall k, par k = Some j -> ~ surv cfg exitset k) -> Anc j x -> Q x.
Hypothesis Qpseudo : forall j q x, Q j -> pseudo j = true -> par j = Some q -> Anc q x -> Q x.

(* what the fast engine's test relies on *)
Hypothesis cfg_bound : forall x, In x cfg -> x < n.
Hypothesis cfg_closed : closedS c (fun x => In x cfg).
Hypothesis exit_sub : forall x, In x exitset -> In x cfg.
Hypothesis exit_dom : forall x, In x exitset ->
  exists d, In d (HE0 c tg) /\ pseudo d = false /\ Anc d x /\ forall y, In y cfg -> Anc d y -> In y exitset.

Notation FInv := (HInvP c cfg exitset tg Q).

Lemma intersects_desc_p (S : list nat) j : j < n -> (forall x, In x S -> x < n) ->
  (intersects S (desc c j) = true <-> exists x, In x S /\ Anc j x).
Proof.
  intros Hj HS. rewrite intersects_spec. split; intros (x & Hx & Hd); exists x; (split; [exact Hx|]).
  - now apply (desc_spec_p j x Hj (HS x Hx)).
  - now apply (desc_spec_p j x Hj (HS x Hx)).
Qed.

(* the fast engine's test for a compound state in the entry set against "blocked" of the large engine *)
Lemma fast_compound_test_p j es : j < n -> FInv j es -> In j es ->
  (negb (intersects es (desc c j)) && (negb (intersects cfg (desc c j)) || intersects exitset (desc c j)) = true
   <-> ~ hblocked c cfg exitset es j).
Proof.
  intros Hj HI Hje.
  pose proof (intersects_desc_p es j Hj (hip_bound _ _ _ _ _ _ _ HI)) as Ies.
  pose proof (intersects_desc_p cfg j Hj cfg_bound) as Icf.
  pose proof (intersects_desc_p exitset j Hj (fun x Hx => cfg_bound x (exit_sub x Hx))) as Iex.
  split.
  - intros Hc (k & Hk & Hb). apply andb_true_iff in Hc as [C1 C2]. apply negb_true_iff in C1.
    apply (whp_children c W) in Hk. assert (Hjk : Anc j k) by now apply anc_parent.
    destruct Hb as [Hke|[Hkc Hkx]].
    + assert (intersects es (desc c j) = true) by (apply Ies; exists k; tauto). congruence.
    + apply orb_true_iff in C2 as [C2|C2].
      * apply negb_true_iff in C2. assert (intersects cfg (desc c j) = true) by (apply Icf; exists k; tauto). congruence.
      * apply Iex in C2 as (x & Hxx & Hjx). destruct (exit_dom x Hxx) as (d & Hd0 & Hdp & Hdx & Hdall).
        destruct (hanc_chain_p c d j x Hdx Hjx) as [->|[Hdj|Hjd]].
        -- apply Hkx. now apply Hdall.
        -- apply Hkx. apply Hdall; [exact Hkc | eapply hanc_trans_p; eauto].
        -- assert (intersects es (desc c j) = true) by (apply Ies; exists d; split; [apply (hip_base _ _ _ _ _ _ _ HI); assumption | exact Hjd]).
           congruence.
  - intros Hnb. apply andb_true_iff. split.
    + apply negb_true_iff, not_true_is_false. intros E.
      apply Ies in E as (x & Hx & Hjx).
      destruct (closed_desc_child_p c (fun y => In y es) j x (hip_closed _ _ _ _ _ _ _ HI) Hx Hjx) as (k & Hk & Hke & _).
      apply Hnb. exists k. split; [now apply (whp_children c W) | now left].
    + apply orb_true_iff.
      destruct (bool_dec (intersects cfg (desc c j)) true) as [E|E]; [|left; now apply negb_true_iff, not_true_is_false].
      destruct (bool_dec (intersects exitset (desc c j)) true) as [E2|E2]; [now right|]. exfalso.
      apply Icf in E as (x & Hx & Hjx).
      destruct (closed_desc_child_p c (fun y => In y cfg) j x cfg_closed Hx Hjx) as (k & Hk & Hkc & _).
      apply Hnb. exists k. split; [now apply (whp_children c W)|]. right. split; [exact Hkc|].
      intros Hkx. apply E2. apply Iex. exists k. split; [exact Hkx | now apply anc_parent].
Qed.

Lemma FInv_step_p j es ts : j < n -> FInv j es ->
  FInv (S j) (fst (fdescend_one c cfg exitset hist (es, ts) j)).
Proof.
  intros Hj HI. unfold fdescend_one. destruct (mem j es) eqn:Hm; cbn [negb].
  2: { cbn [fst]. apply mem_false_In in Hm. apply (HInv_keep_p c W); [exact HI | intros H; contradiction]. }
  apply mem_In in Hm.
  destruct (fs_type (st c j)) eqn:Hk.
  - (* atomic *) cbn [fst]. apply (HInv_keep_p c W); [exact HI|]. intros _. unfold pseudoS. rewrite Hk.
    repeat split; try discriminate.
  - (* compound *)
    pose proof (fast_compound_test_p j es Hj HI Hm) as Htest.
    destruct (negb (intersects es (desc c j)) && (negb (intersects cfg (desc c j)) || intersects exitset (desc c j))) eqn:Hb.
    + assert (Hnb : ~ hblocked c cfg exitset es j) by now apply Htest.
      cbn [fst]. destruct (whp_compound c W j Hk) as [Hne Hbelow]. fold (cpl j) in *.
      apply (HInv_grow_p c W cfg exitset tg Q Qcomp Qpseudo j es _ j (IC c j (cpl j)) HI Hm).
      * left. auto.
      * apply (frag_IC_p c); [exact Hne | exact Hbelow | exact (proj1 (whp_cpl_sets c W j Hk))].
      * intros x [Hjx (g & Hg & Hon)]. destruct (hanc_lt_p c W _ _ Hjx). lia.
      * apply (Spar_IC c W). exact (proj2 (whp_cpl_sets c W j Hk)).
      * intros x.
        rewrite (fold_cond_all_p (fun y => j <? y) (fun y => fs_ancestors (st c y)) (cpl j)).
        2: { intros y Hy. apply Nat.ltb_lt. now destruct (hanc_lt_p c W _ _ (Hbelow y Hy)). }
        rewrite In_fold_union, In_set_union.
        rewrite <- (full_closed_IC_p c es j (cpl j) x (hip_closed _ _ _ _ _ _ _ HI) Hm Hne Hbelow). split.
        -- intros [[H|H]|(g & Hg & Hx)]; [tauto | right; exists x; split; [exact H | now left]|].
           right. exists g. split; [exact Hg|]. right. now apply (whp_anc c W).
        -- intros [H|(g & Hg & [->|Ha])]; [tauto | tauto|]. right. exists g. split; [exact Hg|]. now apply (whp_anc c W).
    + cbn [fst]. apply (HInv_keep_p c W); [exact HI|]. intros _. unfold pseudoS. rewrite Hk.
      repeat split; try discriminate. intros _.
      destruct (LegalLarge.blocked_dec c cfg exitset es j) as [Hbl|Hnb].
      * destruct Hbl as (k & Hin & Hbk). exists k. split; [exact Hin | exact Hbk].
      * exfalso. assert (Hnb' : ~ hblocked c cfg exitset es j).
        { intros (k & Hin & Hbk). apply Hnb. exists k. split; [exact Hin | exact Hbk]. }
        apply Htest in Hnb'. congruence.
  - (* parallel *)
    cbn [fst]. apply (HInv_par_p c W cfg exitset tg Q Qpar j es _ HI Hm Hk). intros x. rewrite In_set_union. now rewrite (whp_parallel c W j x Hk).
  - (* final *) cbn [fst]. apply (HInv_keep_p c W); [exact HI|]. intros _. unfold pseudoS. rewrite Hk.
    repeat split; try discriminate.
  - (* shallow history *)
    assert (Hps : pseudo j = true) by (unfold pseudoS; now rewrite Hk).
    assert (Hhs : histS c j = true) by (unfold histS; now rewrite Hk).
    destruct (whp_pseudo_parent c W j Hps) as (q & Hpq & Hkq).
    destruct (whp_hist_cpl c W j q Hhs Hpq) as [Hcpl _].
    fold (cpl j). destruct (intersects (cpl j) hist) eqn:Hint; cbn [negb].
    + cbn [fst]. destruct HH as [Hprop HR]. destruct (HR j q Hhs Hpq) as [Hnone|HF].
      { exfalso. apply intersects_spec in Hint as (x & H1 & H2). apply (Hnone x). split; assumption. }
      apply (HInv_grow_p c W cfg exitset tg Q Qcomp Qpseudo j es _ q (Rh c hist j) HI Hm).
      * right. split; [exact Hps|]. split; [exact Hpq|]. intros x [_ Hx]. now apply Hprop.
      * exact HF.
      * intros x [Hx1 Hx2]. destruct (Hcpl x Hx1) as (A & B & _). split; [apply B; now apply Hprop | exact A].
      * apply Spar_proper. intros x [_ Hx]. now apply Hprop.
      * intros x. rewrite In_set_union, In_set_inter. unfold Rh. tauto.
    + destruct (whp_hist_default c W j q Hhs Hpq) as (ti & r & Htr & Htne & Htg). rewrite Htr. cbn [fst].
      unfold deepS in Htg. rewrite Hk in Htg.
      assert (Hch : forall g, In g (ft_targets (tr c ti)) -> par g = Some q) by (intros g Hg; now destruct (Htg g Hg) as (_ & _ & H)).
      apply (HInv_grow_p c W cfg exitset tg Q Qcomp Qpseudo j es _ q (IC c q (ft_targets (tr c ti))) HI Hm).
      * right. split; [exact Hps|]. split; [exact Hpq|]. intros x Hx. apply (IC_children_p c W q _ x Hch) in Hx. now destruct (Htg x Hx) as (_ & H & _).
      * apply (frag_IC_p c); [exact Htne | intros g Hg; apply anc_parent; now apply Hch | exact (proj1 (whp_target_sets c W ti))].
      * intros x Hx. apply (IC_children_p c W q _ x Hch) in Hx. destruct (Htg x Hx) as (A & _ & _).
        split; [exact A | now destruct (whp_tr_targets c W ti x Hx)].
      * apply Spar_proper. intros x Hx. apply (IC_children_p c W q _ x Hch) in Hx. now destruct (Htg x Hx) as (_ & H & _).
      * intros x. rewrite In_set_union. now rewrite (IC_children_p c W q _ x Hch).
  - (* deep history *)
    assert (Hps : pseudo j = true) by (unfold pseudoS; now rewrite Hk).
    assert (Hhs : histS c j = true) by (unfold histS; now rewrite Hk).
    assert (Hdp : deepS c j = true) by (unfold deepS; now rewrite Hk).
    destruct (whp_pseudo_parent c W j Hps) as (q & Hpq & Hkq).
    destruct (whp_hist_cpl c W j q Hhs Hpq) as [Hcpl _].
    fold (cpl j). destruct (intersects (cpl j) hist) eqn:Hint; cbn [negb].
    + cbn [fst]. destruct HH as [Hprop HR]. destruct (HR j q Hhs Hpq) as [Hnone|HF].
      { exfalso. apply intersects_spec in Hint as (x & H1 & H2). apply (Hnone x). split; assumption. }
      apply (HInv_grow_p c W cfg exitset tg Q Qcomp Qpseudo j es _ q (Rh c hist j) HI Hm).
      * right. split; [exact Hps|]. split; [exact Hpq|]. intros x [_ Hx]. now apply Hprop.
      * exact HF.
      * intros x [Hx1 Hx2]. destruct (Hcpl x Hx1) as (A & B & _). split; [apply B; now apply Hprop | exact A].
      * apply Spar_proper. intros x [_ Hx]. now apply Hprop.
      * intros x. rewrite In_set_union, In_set_inter. unfold Rh. tauto.
    + destruct (whp_hist_default c W j q Hhs Hpq) as (ti & r & Htr & Htne & Htg). rewrite Htr. cbn [fst].
      rewrite Hdp in Htg.
      assert (Hbelow : forall g, In g (ft_targets (tr c ti)) -> Anc q g) by (intros g Hg; now destruct (Htg g Hg) as (_ & _ & H)).
      assert (Hni : intersects (ft_targets (tr c ti)) (desc c j) = false).
      { apply not_true_is_false. intros E. apply intersects_spec in E as (x & Hxt & Hx).
        destruct (whp_tr_targets c W ti x Hxt) as [_ Hxn].
        apply (desc_spec_p j x Hj Hxn) in Hx. exact (pseudo_no_anc_p c W j x Hps Hx). }
      rewrite Hni. cbn [negb].
      assert (Hfil : filter (fun k => j <? k) (ft_targets (tr c ti)) = ft_targets (tr c ti)).
      { apply filter_all_true_p. intros g Hg. apply Nat.ltb_lt. now destruct (Htg g Hg) as (A & _). }
      rewrite Hfil.
      assert (Hqe : In q es) by exact (hip_closed _ _ _ _ _ _ _ HI j q Hm Hpq).
      apply (HInv_grow_p c W cfg exitset tg Q Qcomp Qpseudo j es _ q (IC c q (ft_targets (tr c ti))) HI Hm).
      * right. split; [exact Hps|]. split; [exact Hpq|]. intros x [Hqx (g & Hg & [->|Hxg])].
        -- now destruct (Htg g Hg) as (_ & H & _).
        -- exact (anc_not_pseudo_p c W x g Hxg).
      * apply (frag_IC_p c); [exact Htne | exact Hbelow | exact (proj1 (whp_target_sets c W ti))].
      * intros x [Hqx (g & Hg & Hon)]. destruct (Htg g Hg) as (A & _ & _). split.
        -- exact (inner_gt_leaf_p c W q j x g Hpq Hps Hqx Hon A).
        -- destruct Hon as [->|Ha]; [now destruct (whp_tr_targets c W ti g Hg) | destruct (hanc_lt_p c W _ _ Ha); destruct (whp_tr_targets c W ti g Hg); lia].
      * apply Spar_proper. intros x [Hqx (g & Hg & [->|Hxg])].
        -- now destruct (Htg g Hg) as (_ & H & _).
        -- exact (anc_not_pseudo_p c W x g Hxg).
      * intros x. rewrite In_fold_union, In_set_union.
        rewrite <- (full_closed_IC_p c es q _ x (hip_closed _ _ _ _ _ _ _ HI) Hqe Htne Hbelow). split.
        -- intros [[H|H]|(g & Hg & Hx)]; [tauto | right; exists x; split; [exact H | now left]|].
           right. exists g. split; [exact Hg|]. right. now apply (whp_anc c W).
        -- intros [H|(g & Hg & [->|Ha])]; [tauto | tauto|]. right. exists g. split; [exact Hg|]. now apply (whp_anc c W).
  - (* initial: the pseudo-state itself is taken out *)
    assert (Hps : pseudo j = true) by (unfold pseudoS; now rewrite Hk).
    destruct (whp_pseudo_parent c W j Hps) as (q & Hpq & Hkq).
    destruct (whp_initial c W j q Hk Hpq) as (ti & Htr & Htne & Htg). rewrite Htr. cbn [fold_left fst snd].
    assert (Hbelow : forall g, In g (ft_targets (tr c ti)) -> Anc q g) by (intros g Hg; now destruct (Htg g Hg) as (H & _)).
    assert (Hqe : In q es) by exact (hip_closed _ _ _ _ _ _ _ HI j q Hm Hpq).
    apply (HInv_grow_rm_p c W cfg exitset tg Q Qcomp Qpseudo true j es _ q (IC c q (ft_targets (tr c ti))) HI Hm).
    + right. split; [exact Hps|]. split; [exact Hpq|]. intros x [Hqx (g & Hg & [->|Hxg])].
      * now destruct (Htg g Hg) as (_ & _ & H).
      * exact (anc_not_pseudo_p c W x g Hxg).
    + apply (frag_IC_p c); [exact Htne | exact Hbelow | exact (proj1 (whp_target_sets c W ti))].
    + intros x [Hqx (g & Hg & Hon)]. destruct (Htg g Hg) as (_ & A & _). split.
      * exact (inner_gt_leaf_p c W q j x g Hpq Hps Hqx Hon A).
      * destruct Hon as [->|Ha]; [now destruct (whp_tr_targets c W ti g Hg) | destruct (hanc_lt_p c W _ _ Ha); destruct (whp_tr_targets c W ti g Hg); lia].
    + apply Spar_proper. intros x [Hqx (g & Hg & [->|Hxg])].
      * now destruct (Htg g Hg) as (_ & _ & H).
      * exact (anc_not_pseudo_p c W x g Hxg).
    + intros x.
      rewrite (fold_cond_all_p (fun y => j <? y) (fun y => fs_ancestors (st c y)) (ft_targets (tr c ti))).
      2: { intros y Hy. apply Nat.ltb_lt. now destruct (Htg y Hy) as (_ & A & _). }
      rewrite In_fold_union, In_set_union, In_set_remove.
      assert (Hfull : (exists g, In g (ft_targets (tr c ti)) /\ on_pathP c x g) <->
                      (IC c q (ft_targets (tr c ti)) x \/ ((x = q \/ Anc x q) /\ ft_targets (tr c ti) <> []))) by exact (full_vs_IC_p c q _ x Hbelow).
      split.
      * intros [[[H1 H2]|H]|(g & Hg & Hx)].
        -- left. split; [exact H1 | intros _; exact H2].
        -- right. split; [now apply Hbelow | exists x; split; [exact H | now left]].
        -- assert (Hex : exists g, In g (ft_targets (tr c ti)) /\ on_pathP c x g) by (exists g; split; [exact Hg | right; now apply (whp_anc c W)]).
           apply Hfull in Hex as [HIC|[Hxq _]]; [now right|]. left.
           split; [destruct Hxq as [->|Hxq]; [exact Hqe | exact (closed_anc_p c (fun y => In y es) q x (hip_closed _ _ _ _ _ _ _ HI) Hqe Hxq)]|].
           intros _ ->. destruct Hxq as [E|Hjq]; [|exact (pseudo_no_anc_p c W j q Hps Hjq)].
           rewrite E in Hpq. destruct (whp_par_lt c W _ _ Hpq). lia.
      * intros [[H1 H2]|[Hqx (g & Hg & [->|Ha])]].
        -- left. left. split; [exact H1 | now apply H2].
        -- left. now right.
        -- right. exists g. split; [exact Hg | now apply (whp_anc c W)].
Qed.

Notation FEfin := (FEfin c cfg exitset hist tg ts0).

Lemma FInv_fin_p : FInv n FEfin.
Proof.
  unfold LegalHistFast.FEfin, fentry_set.
  pose proof (fold_seq_inv c (fdescend_one c cfg exitset hist)
                           (fun j acc => FInv j (fst acc)) n 0 (HE0 c tg, ts0)
                           (HInv_0_p c W cfg exitset tg tg_bound HE0_uniq HE0_par HE0_par2 Q Q0)) as H.
  cbn [Nat.add] in H. apply H.
  intros j [es ts] _ Hj HI. cbn [fst] in HI. now apply FInv_step_p.
Qed.

End Loop.
End FPEntry.
