(* MicroConformCompose.v -- C01, microstep comparison on the history-free core: the composition of the
   phases (exit, transition content, entry set, entry) for any flat chart with the structural
   well-formedness WF; the chart-specific premises (Appendix D's exit set and transition domain are the
   engine's) are hypotheses here and are discharged for flatten in MicroConformFlatten.v.  Proofs only. *)
From V Require Import Base NameMatch Chart Exec Large LargeLemmas Spec Legal SetLemmas LegalAbstract LegalLarge
  Interp LegalRun LargeCacheLemmas SelectConform SelectConformLemmas SelectConformRoot MicroConform MicroConformLemmas MicroConformEntry.
Local Open Scope nat_scope.

(* ------------------------------------------------------------------ sortedness of the engine's sets *)

Lemma ssorted_fold_insert b : forall a, ssorted a -> ssorted (fold_left (fun a x => insert_sorted x a) b a).
Proof. induction b as [|y r IH]; intros a Ha; cbn [fold_left]; [exact Ha|]. apply IH. now apply ssorted_insert. Qed.

Lemma ssorted_set_union a b : ssorted a -> ssorted (set_union a b).
Proof. apply ssorted_fold_insert. Qed.

Lemma ssorted_set_of_list l : ssorted (set_of_list l).
Proof. apply ssorted_fold_insert. exact I. Qed.

Lemma ssorted_fold_union {A} (f : A -> list nat) l : forall acc, ssorted acc ->
  ssorted (fold_left (fun a y => set_union a (f y)) l acc).
Proof. induction l as [|y r IH]; intros acc Ha; cbn [fold_left]; [exact Ha|]. apply IH. now apply ssorted_set_union. Qed.

Section Compose.
Variable c : fchart.
Hypothesis W : WF c.
Notation Anc := (LegalAbstract.Anc (fun i => fs_parent (st c i))).

(* the descend loop on the core: the transition set is not touched, the state set stays sorted *)
Lemma descend_one_core cfg X hist es ts i : ssorted es ->
  snd (descend_one lg_fixed c cfg X hist (es, ts) i) = ts /\ ssorted (fst (descend_one lg_fixed c cfg X hist (es, ts) i)).
Proof.
  intros Hs. unfold descend_one. destruct (negb (mem i es)); [split; [reflexivity | exact Hs]|].
  destruct (wf_types c W i) as [Ht|[Ht|[Ht|Ht]]]; rewrite Ht; cbn [fst snd].
  - split; [reflexivity | exact Hs].
  - destruct (existsb _ _); cbn [fst snd]; [split; [reflexivity | exact Hs]|]. split; [reflexivity|].
    assert (Hg : forall l acc, ssorted acc ->
              ssorted (fold_left (fun a cm => if mem cm (fs_children (st c i)) then a else set_union a (fs_ancestors (st c cm))) l acc)).
    { induction l as [|y r IH]; intros acc Ha; cbn [fold_left]; [exact Ha|]. apply IH.
      destruct (mem y (fs_children (st c i))); [exact Ha | now apply ssorted_set_union]. }
    apply Hg. now apply ssorted_set_union.
  - split; [reflexivity | now apply ssorted_set_union].
  - split; [reflexivity | exact Hs].
Qed.

Lemma entry_set_core cfg X hist tg ts : ssorted tg ->
  snd (entry_set lg_fixed c cfg X hist tg ts) = ts /\ ssorted (fst (entry_set lg_fixed c cfg X hist tg ts)).
Proof.
  intros Hs. unfold entry_set.
  assert (H0 : ssorted (Large.add_ancestors c tg)) by (unfold Large.add_ancestors; now apply ssorted_fold_union).
  assert (Hg : forall l acc, snd acc = ts -> ssorted (fst acc) ->
             snd (fold_left (descend_one lg_fixed c cfg X hist) l acc) = ts /\
             ssorted (fst (fold_left (descend_one lg_fixed c cfg X hist) l acc))).
  { induction l as [|i r IH]; intros [es ts'] H1 H2; cbn [fold_left]; [auto|]. cbn [fst snd] in *. subst ts'.
    destruct (descend_one_core cfg X hist es ts i H2) as [A B]. apply IH; assumption. }
  apply Hg; [reflexivity | exact H0].
Qed.

Variable sel : list nat.
Variable l : lstate.
Variable s : sstate.
Variable x : xstate.
Let cfg := l_cfg l.

Hypothesis Hcorr : corr c l s.
Hypothesis Hlegal : LegalCfg c cfg.
Hypothesis Hsel_src : forall ti, In ti sel -> In (ft_source (tr c ti)) cfg.
Hypothesis Hsel_ok : pairwise_ok lg_fixed c sel.
Hypothesis Hsel_np : forall ti, In ti sel -> ft_history (tr c ti) || ft_initial (tr c ti) = false.
Hypothesis Hanti : forall ti g1 g2, In ti sel -> In g1 (ft_targets (tr c ti)) -> In g2 (ft_targets (tr c ti)) -> ~ Anc g1 g2.
Hypothesis Hbody : forall ti, ft_has_body (tr c ti) = false -> ft_body (tr c ti) = [].
Hypothesis Hsilent : root_silentb c = true.
Hypothesis Hdata : fc_late c = false -> forall i, i <> 0 -> fs_data (st c i) = [].
Hypothesis HPAR : forall s, s < nstates c -> fs_type (st c s) = FParallel -> fs_children (st c s) <> [].
Hypothesis Hfin_par : forall i p, fs_type (st c i) = FFinal -> fs_parent (st c i) = Some p -> fs_type (st c p) <> FParallel.
Hypothesis Hfin_up : forall i p a, fs_type (st c i) = FFinal -> fs_parent (st c i) = Some p -> Anc a p ->
  fs_parent (st c p) = Some a \/ fs_type (st c a) <> FParallel.
(* PREMISES discharged for flatten (ExitSetLemmas) *)
Hypothesis Hdom : forall ti, In ti sel -> transition_domain c (s_hv s) (tr c ti) = domain c (tr c ti).
Hypothesis Hexit : forall z, In z (compute_exit_set c (s_cfg s) (s_hv s) (map (tr c) sel)) <-> In z (sel_exitset c cfg sel).

Theorem microstep_conforms_sec :
  let r := microstep lg_fixed ex_fixed c l (emit TMsB x) (sel_targets c sel) (sel_exitset c cfg sel) sel false in
  let q := spec_microstep c sel s x in
  corr c (fst r) (fst q) /\ snd q = emit (spec_cfg_tok c (fst q)) (snd r) /\ s_hv (fst q) = s_hv s.
Proof.
  destruct Hcorr as (Hc & Ht & Hd). destruct Hlegal as [Hleg Hbound]. fold cfg in Hc.
  destruct (root_silent_parts c Hsilent) as (Sen & Sex & Sbody).
  assert (Hcore : forall i, match fs_type (st c i) with FHistShallow | FHistDeep => False | _ => True end).
  { intros i. destruct (wf_types c W i) as [H|[H|[H|H]]]; rewrite H; exact I. }
  set (X := sel_exitset c cfg sel).
  assert (HXs : ssorted X) by (unfold X, sel_exitset; apply ssorted_fold_union; exact I).
  assert (HXeq : sort_doc (compute_exit_set c (s_cfg s) (s_hv s) (map (tr c) sel)) = X).
  { apply ssorted_ext; [apply ssorted_set_of_list | exact HXs|]. intros z. unfold sort_doc. rewrite In_set_of_list. apply Hexit. }
  assert (H0X : ~ In 0 (rev X)).
  { intros H. apply in_rev in H. apply (In_exitset c W cfg sel Hleg Hbound Hsel_src) in H as [_ (d & _ & Ha)].
    exact (no_anc_root _ (wf_root_par c W) _ Ha). }
  cbn zeta. unfold microstep, spec_microstep. cbn zeta. fold cfg. fold X.
  set (hist := remember_history c cfg X (l_hist l)).
  destruct (entry_set_core cfg X hist (sel_targets c sel) sel) as [Hts Hes].
  { unfold sel_targets. apply ssorted_fold_union. exact I. }
  destruct (entry_set lg_fixed c cfg X hist (sel_targets c sel) sel) as [es ts] eqn:Ees. cbn [fst snd] in Hts, Hes. subst ts.
  (* exit *)
  rewrite (exit_states_core c sel s (emit TMsB x) Hcore). cbn zeta. rewrite HXeq.
  rewrite Hc, (exit_fold_conforms c (rev X) (s_cfg s) (emit TMsB x) Sex H0X).
  set (rx := fold_left (spec_exit_one c) (rev X) (s_cfg s, emit TMsB x)).
  (* transitions *)
  rewrite (take_fold_conforms c (fst rx) sel (snd rx) Sbody Hsel_np (fun ti _ => Hbody ti)).
  cbn [s_cfg].
  set (x2 := fold_left (fun x0 ti => exec_trans_content c (fst rx) ti x0) sel (snd rx)).
  (* entry set *)
  unfold enter_states. cbn [s_hv]. rewrite enter_states_e_fold.
  set (e := compute_entry_set c (s_hv s) sel).
  destruct (entry_set_conforms_sec c W cfg sel (s_hv s) Hleg Hbound Hsel_src Hsel_ok Hanti Hdom hist) as [Hhc Hset].
  fold e in Hhc, Hset.
  assert (Hcfg1 : forall y, In y (0 :: fst rx) <-> In y cfg /\ ~ In y X).
  { intros y. pose proof (exit_fold_cfg c ex_fixed (rev X) cfg (emit TMsB x) y) as H.
    rewrite Hc, (exit_fold_conforms c (rev X) (s_cfg s) (emit TMsB x) Sex H0X) in H. cbn [fst] in H. fold rx in H.
    rewrite <- Hc in H. rewrite H, <- in_rev. tauto. }
  assert (Hes1 : set_diff es (0 :: fst rx) = sort_doc (e_enter e)).
  { apply ssorted_ext; [unfold set_diff; now apply ssorted_filter | apply ssorted_set_of_list|].
    intros z. unfold sort_doc. rewrite In_set_diff, In_set_of_list, Hset, Hcfg1.
    unfold Efs, Efin, Surv. fold X. change (targets c sel) with (sel_targets c sel). change (exitset c cfg sel) with X.
    rewrite Ees. cbn [fst]. tauto. }
  rewrite Hes1.
  (* entering *)
  assert (Hb : forall i, In i (sort_doc (e_enter e)) -> 0 < i /\ i < nstates c).
  { intros i Hi. unfold sort_doc in Hi. rewrite In_set_of_list in Hi. apply Hset in Hi as [Hi Hns]. split.
    - destruct (Nat.eq_dec i 0) as [->|]; [|lia]. exfalso. apply Hns. split; [exact (lg_root _ _ _ _ Hleg)|].
      intros H. apply H0X. now apply in_rev in H.
    - exact (inv_bound _ _ _ _ _ _ (InvF c W cfg sel hist) i Hi). }
  set (CF := fun y => (In y cfg /\ ~ In y X) \/ In y (Efs c cfg sel hist)).
  pose proof (microstep_sets_legal c W cfg sel Hleg Hbound Hsel_src Hsel_ok hist) as HCF.
  change (exitset c cfg sel) with X in HCF. fold CF in HCF.
  assert (Huniq : forall q k1 k2, fs_type (st c q) = FCompound -> In k1 (fs_children (st c q)) -> In k2 (fs_children (st c q)) ->
                  CF k1 -> CF k2 -> k1 = k2).
  { intros q k1 k2 Hq Hk1 Hk2 C1 C2. apply (lg_compound_uniq _ _ _ _ HCF q k1 k2); try assumption.
    apply (lg_parent _ _ _ _ HCF k1 q C1). now apply (wf_children c W). }
  pose proof (enter_fold_conforms c W sel e CF Hhc Sen Hdata HPAR Hfin_par Hfin_up Huniq (sort_doc (e_enter e))
                {| ea_cfg := 0 :: fst rx; ea_initd := l_initd l; ea_tlf := l_tlf l; ea_x := x2 |}
                ({| s_cfg := fst rx; s_hv := s_hv s; s_running := s_running s; s_entered := s_entered s |}, x2)) as HE.
  destruct HE as [(E1 & E2 & E3 & E4) _].
  { split; [unfold erel; cbn [fst snd ea_cfg ea_tlf ea_initd ea_x s_cfg s_running s_entered]; auto|].
    cbn [fst s_cfg]. intros y Hy. left. apply Hcfg1. now right. }
  { intros i Hi. destruct (Hb i Hi) as [A B]. split; [exact A|]. split; [exact B|]. right.
    unfold sort_doc in Hi. rewrite In_set_of_list in Hi. now apply Hset in Hi as [Hi _]. }
  set (a := fold_left (enter_one ex_fixed c sel) (sort_doc (e_enter e)) _) in *.
  set (sx := fold_left (spec_enter_one c e) (sort_doc (e_enter e)) _) in *.
  destruct sx as [s2 x3] eqn:Esx. cbn [fst snd] in *.
  split; [unfold corr; cbn [l_cfg l_tlf l_initd]; auto|]. split; [rewrite E4; reflexivity|].
  (* the history value is not touched when entering *)
  assert (Hhv : forall es0 sx0, s_hv (fst (fold_left (spec_enter_one c e) es0 sx0)) = s_hv (fst sx0)).
  { induction es0 as [|i r IH]; intros [s0 x0]; cbn [fold_left]; [reflexivity|]. rewrite IH.
    rewrite spec_enter_one_staged. destruct (fc_late c && negb (mem i (s_entered s0))); unfold s_tail; cbn zeta;
      (destruct (is_final_state c i); [destruct (fs_parent (st c i)) as [[|p]|]|]); reflexivity. }
  specialize (Hhv (sort_doc (e_enter e)) ({| s_cfg := fst rx; s_hv := s_hv s; s_running := s_running s; s_entered := s_entered s |}, x2)).
  fold sx in Hhv. rewrite Esx in Hhv. exact Hhv.
Qed.

End Compose.
