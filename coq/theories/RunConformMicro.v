(* RunConformMicro.v -- C01, run-level composition, layer 1: the microstep comparison of MicroConformCompose.v
   from ANY execution state after beforeMicroStep.  Appendix D's transliteration emits one token more than the
   engine between MS{ and the first exit (Spec.spec_microstep_d: the diagnostic token TDiag), so the run-level
   proof needs the microstep theorem for a start state that is not literally [emit TMsB x].  [spec_body] is
   Spec.spec_microstep without its first token; the proof is the one of microstep_conforms_sec.  Proofs only. *)
From V Require Import Base NameMatch NameMatchLemmas Chart Exec Large LargeLemmas Spec Legal SetLemmas LegalAbstract LegalLarge
  Interp LegalRun WfCore LegalOracle LargeCacheLemmas ExitSetLemmas SelectConform SelectConformLemmas SelectConformOrder
  SelectConformRoot SelectConformFlatten MicroConform MicroConformLemmas MicroConformEntry MicroConformCompose MicroConformFlatten.
Local Open Scope nat_scope.

(* exitStates; the transitions' content; enterStates; afterMicroStep; the configuration token *)
Definition spec_body (c : fchart) (ts : list nat) (s : sstate) (x0 : xstate) : sstate * xstate :=
  let '(s1, x1) := exit_states c ts s x0 in
  let x2 := fold_left (fun x ti => exec_trans_content c (s_cfg s1) ti x) ts x1 in
  let '(s2, x3) := enter_states c ts s1 x2 in
  (s2, emit (spec_cfg_tok c s2) (emit TMsE x3)).

Lemma spec_microstep_body c ts s x : spec_microstep c ts s x = spec_body c ts s (emit TMsB x).
Proof. reflexivity. Qed.

Lemma spec_microstep_d_body c d ts s x : spec_microstep_d c d ts s x = spec_body c ts s (emit (TDiag d) (emit TMsB x)).
Proof. reflexivity. Qed.

Section Compose.
Variable c : fchart.
Hypothesis W : WF c.
Notation Anc := (LegalAbstract.Anc (fun i => fs_parent (st c i))).

Variable sel : list nat.
Variable l : lstate.
Variable s : sstate.
Variable x0 : xstate.
Let cfg := l_cfg l.

Hypothesis Hcorr : corr c l s.
Hypothesis Hlegal : LegalCfg c cfg.
Hypothesis Hsel_src : forall ti, In ti sel -> In (ft_source (tr c ti)) cfg.
Hypothesis Hsel_ok : pairwise_ok lg_fixed c sel.
Hypothesis Hsel_np : forall ti, In ti sel -> ft_history (tr c ti) || ft_initial (tr c ti) = false.
Hypothesis Hanti : forall ti g1 g2, In ti sel -> In g1 (ft_targets (tr c ti)) -> In g2 (ft_targets (tr c ti)) -> ~ Anc g1 g2.
Hypothesis Hbody : forall ti, ft_has_body (tr c ti) = false -> ft_body (tr c ti) = [].
Hypothesis Hsilent : root_silentb c = true.
Hypothesis Hdata : fc_late c = false -> forall i, i <> 0 -> fs_data (st c i) = [].
Hypothesis HPAR : forall s, s < nstates c -> fs_type (st c s) = FParallel -> fs_children (st c s) <> [].
Hypothesis Hfin_par : forall i p, fs_type (st c i) = FFinal -> fs_parent (st c i) = Some p -> fs_type (st c p) <> FParallel.
Hypothesis Hfin_up : forall i p a, fs_type (st c i) = FFinal -> fs_parent (st c i) = Some p -> Anc a p ->
  fs_parent (st c p) = Some a \/ fs_type (st c a) <> FParallel.
Hypothesis Hdom : forall ti, In ti sel -> transition_domain c (s_hv s) (tr c ti) = domain c (tr c ti).
Hypothesis Hexit : forall z, In z (compute_exit_set c (s_cfg s) (s_hv s) (map (tr c) sel)) <-> In z (sel_exitset c cfg sel).

Theorem body_conforms_sec :
  let r := microstep lg_fixed ex_fixed c l x0 (sel_targets c sel) (sel_exitset c cfg sel) sel false in
  let q := spec_body c sel s x0 in
  corr c (fst r) (fst q) /\ snd q = emit (spec_cfg_tok c (fst q)) (snd r) /\ s_hv (fst q) = s_hv s.
Proof.
  destruct Hcorr as (Hc & Ht & Hd). destruct Hlegal as [Hleg Hbound]. fold cfg in Hc.
  destruct (root_silent_parts c Hsilent) as (Sen & Sex & Sbody).
  assert (Hcore : forall i, match fs_type (st c i) with FHistShallow | FHistDeep => False | _ => True end).
  { intros i. destruct (wf_types c W i) as [H|[H|[H|H]]]; rewrite H; exact I. }
  set (X := sel_exitset c cfg sel).
  assert (HXs : ssorted X) by (unfold X, sel_exitset; apply ssorted_fold_union; exact I).
  assert (HXeq : sort_doc (compute_exit_set c (s_cfg s) (s_hv s) (map (tr c) sel)) = X).
  { apply ssorted_ext; [apply ssorted_set_of_list | exact HXs|]. intros z. unfold sort_doc. rewrite In_set_of_list. apply Hexit. }
  assert (H0X : ~ In 0 (rev X)).
  { intros H. apply in_rev in H. apply (In_exitset c W cfg sel Hleg Hbound Hsel_src) in H as [_ (d & _ & Ha)].
    exact (no_anc_root _ (wf_root_par c W) _ Ha). }
  cbn zeta. unfold microstep, spec_body. cbn zeta. fold cfg. fold X.
  set (hist := remember_history c cfg X (l_hist l)).
  destruct (entry_set_core c W cfg X hist (sel_targets c sel) sel) as [Hts Hes].
  { unfold sel_targets. apply ssorted_fold_union. exact I. }
  destruct (entry_set lg_fixed c cfg X hist (sel_targets c sel) sel) as [es ts] eqn:Ees. cbn [fst snd] in Hts, Hes. subst ts.
  (* exit *)
  rewrite (exit_states_core c sel s x0 Hcore). cbn zeta. rewrite HXeq.
  rewrite Hc, (exit_fold_conforms c (rev X) (s_cfg s) x0 Sex H0X).
  set (rx := fold_left (spec_exit_one c) (rev X) (s_cfg s, x0)).
  (* transitions *)
  rewrite (take_fold_conforms c (fst rx) sel (snd rx) Sbody Hsel_np (fun ti _ => Hbody ti)).
  cbn [s_cfg].
  set (x2 := fold_left (fun x1 ti => exec_trans_content c (fst rx) ti x1) sel (snd rx)).
  (* entry set *)
  unfold enter_states. cbn [s_hv]. rewrite enter_states_e_fold.
  set (e := compute_entry_set c (s_hv s) sel).
  destruct (entry_set_conforms_sec c W cfg sel (s_hv s) Hleg Hbound Hsel_src Hsel_ok Hanti Hdom hist) as [Hhc Hset].
  fold e in Hhc, Hset.
  assert (Hcfg1 : forall y, In y (0 :: fst rx) <-> In y cfg /\ ~ In y X).
  { intros y. pose proof (exit_fold_cfg c ex_fixed (rev X) cfg x0 y) as H.
    rewrite Hc, (exit_fold_conforms c (rev X) (s_cfg s) x0 Sex H0X) in H. cbn [fst] in H. fold rx in H.
    rewrite <- Hc in H. rewrite H, <- in_rev. tauto. }
  assert (Hes1 : set_diff es (0 :: fst rx) = sort_doc (e_enter e)).
  { apply ssorted_ext; [unfold set_diff; now apply ssorted_filter | apply ssorted_set_of_list|].
    intros z. unfold sort_doc. rewrite In_set_diff, In_set_of_list, Hset, Hcfg1.
    unfold Efs, Efin, Surv. fold X. change (targets c sel) with (sel_targets c sel). change (exitset c cfg sel) with X.
    rewrite Ees. cbn [fst]. tauto. }
  rewrite Hes1.
  (* entering *)
  assert (Hb : forall i, In i (sort_doc (e_enter e)) -> 0 < i /\ i < nstates c).
  { intros i Hi. unfold sort_doc in Hi. rewrite In_set_of_list in Hi. apply Hset in Hi as [Hi Hns]. split.
    - destruct (Nat.eq_dec i 0) as [->|]; [|lia]. exfalso. apply Hns. split; [exact (lg_root _ _ _ _ Hleg)|].
      intros H. apply H0X. now apply in_rev in H.
    - exact (inv_bound _ _ _ _ _ _ (InvF c W cfg sel hist) i Hi). }
  set (CF := fun y => (In y cfg /\ ~ In y X) \/ In y (Efs c cfg sel hist)).
  pose proof (microstep_sets_legal c W cfg sel Hleg Hbound Hsel_src Hsel_ok hist) as HCF.
  change (exitset c cfg sel) with X in HCF. fold CF in HCF.
  assert (Huniq : forall q k1 k2, fs_type (st c q) = FCompound -> In k1 (fs_children (st c q)) -> In k2 (fs_children (st c q)) ->
                  CF k1 -> CF k2 -> k1 = k2).
  { intros q k1 k2 Hq Hk1 Hk2 C1 C2. apply (lg_compound_uniq _ _ _ _ HCF q k1 k2); try assumption.
    apply (lg_parent _ _ _ _ HCF k1 q C1). now apply (wf_children c W). }
  pose proof (enter_fold_conforms c W sel e CF Hhc Sen Hdata HPAR Hfin_par Hfin_up Huniq (sort_doc (e_enter e))
                {| ea_cfg := 0 :: fst rx; ea_initd := l_initd l; ea_tlf := l_tlf l; ea_x := x2 |}
                ({| s_cfg := fst rx; s_hv := s_hv s; s_running := s_running s; s_entered := s_entered s |}, x2)) as HE.
  destruct HE as [(E1 & E2 & E3 & E4) _].
  { split; [unfold erel; cbn [fst snd ea_cfg ea_tlf ea_initd ea_x s_cfg s_running s_entered]; auto|].
    cbn [fst s_cfg]. intros y Hy. left. apply Hcfg1. now right. }
  { intros i Hi. destruct (Hb i Hi) as [A B]. split; [exact A|]. split; [exact B|]. right.
    unfold sort_doc in Hi. rewrite In_set_of_list in Hi. now apply Hset in Hi as [Hi _]. }
  set (a := fold_left (enter_one ex_fixed c sel) (sort_doc (e_enter e)) _) in *.
  set (sx := fold_left (spec_enter_one c e) (sort_doc (e_enter e)) _) in *.
  destruct sx as [s2 x3] eqn:Esx. cbn [fst snd] in *.
  split; [unfold corr; cbn [l_cfg l_tlf l_initd]; auto|]. split; [rewrite E4; reflexivity|].
  assert (Hhv : forall es0 sx0, s_hv (fst (fold_left (spec_enter_one c e) es0 sx0)) = s_hv (fst sx0)).
  { induction es0 as [|i r IH]; intros [s0 y0]; cbn [fold_left]; [reflexivity|]. rewrite IH.
    rewrite spec_enter_one_staged. destruct (fc_late c && negb (mem i (s_entered s0))); unfold s_tail; cbn zeta;
      (destruct (is_final_state c i); [destruct (fs_parent (st c i)) as [[|p]|]|]); reflexivity. }
  specialize (Hhv (sort_doc (e_enter e)) ({| s_cfg := fst rx; s_hv := s_hv s; s_running := s_running s; s_entered := s_entered s |}, x2)).
  fold sx in Hhv. rewrite Esx in Hhv. exact Hhv.
Qed.

End Compose.

(* the same for the charts LargeMicroStep::init builds, on the boolean hypotheses of microstep_conforms *)
Section Flat.
Variable late : bool.
Variable t0 : tree.
Notation c := (flatten late t0).

Lemma body_conforms_lemma sel l s x0 :
  wf_coreb c = true -> par_nonemptyb c = true -> targets_antichainb c = true -> done_okb c = true -> root_silentb c = true ->
  legal_configb c (l_cfg l) = true -> corr c l s ->
  (forall ti, In ti sel -> In (ft_source (tr c ti)) (l_cfg l)) ->
  pairwise_ok lg_fixed c sel ->
  (forall ti, In ti sel -> ft_history (tr c ti) || ft_initial (tr c ti) = false) ->
  let r := microstep lg_fixed ex_fixed c l x0 (sel_targets c sel) (sel_exitset c (l_cfg l) sel) sel false in
  let q := spec_body c sel s x0 in
  corr c (fst r) (fst q) /\ snd q = emit (spec_cfg_tok c (fst q)) (snd r) /\ s_hv (fst q) = s_hv s.
Proof.
  intros Hwf Hpar Hanti Hfin Hsil Hleg Hcorr Hsrc Hok Hnp. pose proof (wf_coreb_sound c Hwf) as W.
  destruct (done_okb_sound c W Hfin) as [Hfp Hfu].
  apply (body_conforms_sec c W sel l s x0 Hcorr (LegalOracle.legal_configb_sound c W _ Hleg) Hsrc Hok Hnp).
  - intros ti g1 g2 _. now apply (targets_antichainb_sound c W Hanti).
  - apply flatten_has_body.
  - exact Hsil.
  - intros Hl i Hi. destruct late; [discriminate Hl|]. now apply flatten_early_data.
  - exact (par_nonemptyb_sound c Hpar).
  - exact Hfp.
  - exact Hfu.
  - intros ti _. symmetry. apply domain_agrees_t. now apply wf_targets_plain.
  - destruct Hcorr as (Hc & _). rewrite Hc in *. now apply exit_sets_agree.
Qed.

(* with the transitions the engine itself selects *)
Lemma body_selected_conforms_lemma l s ev xsel x0 :
  wf_coreb c = true -> par_nonemptyb c = true -> targets_antichainb c = true -> done_okb c = true -> root_silentb c = true ->
  legal_configb c (l_cfg l) = true -> corr c l s ->
  let sel := fst (select_loop lg_fixed c (l_cfg l) ev (cfg_postfix c (l_cfg l)) None [] xsel) in
  let r := microstep lg_fixed ex_fixed c l x0 (sel_targets c sel) (sel_exitset c (l_cfg l) sel) sel false in
  let q := spec_body c sel s x0 in
  corr c (fst r) (fst q) /\ snd q = emit (spec_cfg_tok c (fst q)) (snd r) /\ s_hv (fst q) = s_hv s.
Proof.
  intros Hwf Hpar Hanti Hfin Hsil Hleg Hcorr sel. pose proof (wf_coreb_sound c Hwf) as W.
  apply body_conforms_lemma; try assumption.
  - apply (select_loop_sources c W); [intros z; apply cfg_postfix_sub | intros ti []].
  - apply select_loop_pairwise. apply nil_pairwise.
  - apply select_loop_np. intros ti [].
Qed.

End Flat.
