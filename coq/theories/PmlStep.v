(* PmlStep.v -- the step process `ROOT_step()` that ChartToPromela::writeFSM emits
   (src/uscxml/transform/ChartToPromela.cpp:1243-2730, executable content 962-1240, writeIfBlock 2732),
   transcribed AS WRITTEN in the template strings, as a function over the flat chart of Chart.v.
   Model only; lemmas are in PmlStepLemmas.v.

   The Promela text is a re-transcription of the bit-array micro-step of FastMicroStep / the generated C
   (Fast.v models the former) and deviates from it.  Every deviation that was confirmed on emitted models
   sits behind a switch of [pml_variant]; [pml_as_written] is the template of the working tree,
   [pml_repaired] the template with the proposed patches.  Sets (Promela `bool x[N]`) are the ascending
   lists of Chart.v, loops over `i < N` are folds over [seq 0 N] in the direction the template iterates.

   What the function prints is the TRACE_EXECUTION output of the emitted model, line by line ([ptok]),
   so that the correspondence check compares the model with `spin -T` on every line, not on a digest.

   The tables the template reads (`ROOT_states[i].*`, `ROOT_transitions[j].*`) are written by
   ChartToPromela::writeStates/writeTransitions from the attributes ChartToC::prepare leaves on the DOM;
   here they are computed from the flat chart the same way (children = direct children, exit set =
   proper descendants of the transition domain as Predicates.cpp::getExitSet, conflicts = exit sets
   intersect or sources equal/nested, hasHistoryChild).  C05 is the property about those tables. *)
From V Require Import Base NameMatch Chart Exec Large Trie.
Local Open Scope nat_scope.

(* ------------------------------------------------------------------ variant points *)
Record pml_variant := {
  (* `In(s)` is written `config[s]` (test/w3c/confPromela.xsl); adaptCode prefixes the identifier and
     writeVariables declares `hidden int ROOT_s` (value 0): the test reads config[0], the <scxml> root *)
  pv_in_reads_root : bool;
  (* ancestor loop for the targets of an <initial> transition: `:: else -> break;` at the first k > i that
     is no target (FastMicroStep / generated C: continue) *)
  pv_initial_break : bool;
  (* `if :: STATES_HAS_AND(completion, children)` before "deep completion" (generated C: `if (!bit_has_and(...))`),
     with a loop from i + 2 that stops at the first state of the completion *)
  pv_deep_unnegated : bool;
  (* default history transition only `&& !config[states[i].parent]` (engines after fix 4e21d7ce: no such test) *)
  pv_hist_parent_test : bool;
  (* nested-history completion under `type[HAS_HISTORY] || type[HISTORY_DEEP]`
     (engines, generated C: type == (HAS_HISTORY | HISTORY_DEEP)) *)
  pv_hist_or : bool;
  (* ChartToC::setHistoryCompletion (shared by the three transpilers) removes from a history's completion
     every state already `covered` by a history of another parent that precedes it; histories are moved
     to the front of their parent, so a history below a <history type="deep"> gets an empty completion
     (the engines' getHistoryCompletion has no covering) *)
  pv_hist_covered : bool;
  (* ... with the histories walked in reverse document order (inner histories first), the order the covering
     was designed for (an alternative repair: the outer deep history then leaves the states of nested
     histories to them and re-enters them through the nested-history step) *)
  pv_hist_inner_first : bool;
  (* `flags[TRANSITION_FOUND] = false` is only emitted `if (_transitions.size() > 0)`: in a document without
     any transition the flag set by the initial entry is never cleared *)
  pv_found_stale : bool;
  (* writeFSMSelectTransitions writes `(i == I && <event test> && <cond>)` with the text of the cond attribute
     and no parentheses around it: a condition `x || y` (top-level operator `||`, no outer parentheses in the
     document) makes the disjunct `(i == I && <event test> && x) || y`, and y alone enables EVERY transition that
     is active, not pre-empted and of the right spontaneity.  The switch stands for "the document spells such
     conditions without outer parentheses and the template adds none" *)
  pv_cond_bare : bool;
  (* the ancestors of a compound state's completion are added only when the completion is no direct child
     (generated C; the repaired Promela template).  FastMicroStep adds them always, which also supplies the
     ancestors of a state that a history record put into the entry set without them (a <history> of a state that
     stays active can look recorded, because a nested history wrote into the shared history array) *)
  pv_completion_guarded : bool;
  (* event descriptor resolution, see Trie.v *)
  pv_trie : trie_variant
}.
Definition pml_as_written : pml_variant :=
  {| pv_in_reads_root := true; pv_initial_break := true; pv_deep_unnegated := true;
     pv_hist_parent_test := true; pv_hist_or := true; pv_hist_covered := true; pv_hist_inner_first := false; pv_found_stale := true; pv_cond_bare := true; pv_completion_guarded := true; pv_trie := tv_as_written |}.
Definition pml_repaired : pml_variant :=
  {| pv_in_reads_root := false; pv_initial_break := false; pv_deep_unnegated := false;
     pv_hist_parent_test := false; pv_hist_or := false; pv_hist_covered := false; pv_hist_inner_first := false; pv_found_stale := false; pv_cond_bare := false; pv_completion_guarded := false; pv_trie := tv_repaired |}.

(* ------------------------------------------------------------------ trace lines of the emitted model *)
Inductive ptok :=
| PStep                                 (* Taking a step *)
| PSpont | PDeqInt | PDeqExt            (* Trying with a spontaneous event / Deqeued an internal / external event *)
| PEvent (name : bytes)                 (* Establishing optimal transition set for event %d ([] = 0) *)
| PConfig (s : list nat) | PSelected (s : list nat) | PTarget (s : list nat) | PExit (s : list nat)
| PInitialEntry | PFound | PNotFound
| PSaveHist | PHistExit (i : nat) | PHComplet (s : list nat) | PHConfig (s : list nat) | PHTmp (s : list nat)
| PHistory (s : list nat)
| PDescHist (i : nat) | PFresh | PEstab | PDeep | PDescInit (i : nat) | PAddTrans (j : nat)
| PEntrySet (s : list nat)
| PExiting (i : nat) | PProcExit (i : nat) | PTaking (j : nat) | PProcTrans (j : nat)
| PEntering (i : nat) | PProcEntry (i : nat)
| PLog (z : Z)
| PFinished | PDone
| PTimeout                              (* spin: the only process is blocked on the empty external queue *)
| PQueueFull                            (* spin: "stmnt in d_step blocks": send on a full channel *)
| PLimit.                               (* end of the observed prefix (spin -u) *)

Inductive pstatus := PRunning | PTerminated | PBlocked | PFull | POutOfFuel.

Record pstate := {
  p_cfg : list nat;        (* ROOT_config *)
  p_hist : list nat;       (* ROOT_history *)
  p_spont : bool;          (* flags[USCXML_CTX_SPONTANEOUS] *)
  p_tlf : bool;            (* flags[USCXML_CTX_TOP_LEVEL_FINAL] *)
  p_found : bool;          (* flags[USCXML_CTX_TRANSITION_FOUND] *)
  p_fin : bool;            (* flags[USCXML_CTX_FINISHED] *)
  p_store : store;         (* the datamodel variables *)
  p_iq : list bytes;       (* ROOT_iQ, oldest first; events are their names *)
  p_eq : list bytes;       (* ROOT_eQ *)
  p_full : bool;           (* a send found its channel full *)
  p_out : list ptok        (* newest first *)
}.

Definition out (t : ptok) (s : pstate) : pstate :=
  {| p_cfg := p_cfg s; p_hist := p_hist s; p_spont := p_spont s; p_tlf := p_tlf s; p_found := p_found s;
     p_fin := p_fin s; p_store := p_store s; p_iq := p_iq s; p_eq := p_eq s; p_full := p_full s; p_out := t :: p_out s |}.
Definition set_cfg (x : list nat) (s : pstate) : pstate :=
  {| p_cfg := x; p_hist := p_hist s; p_spont := p_spont s; p_tlf := p_tlf s; p_found := p_found s;
     p_fin := p_fin s; p_store := p_store s; p_iq := p_iq s; p_eq := p_eq s; p_full := p_full s; p_out := p_out s |}.
Definition set_hist (x : list nat) (s : pstate) : pstate :=
  {| p_cfg := p_cfg s; p_hist := x; p_spont := p_spont s; p_tlf := p_tlf s; p_found := p_found s;
     p_fin := p_fin s; p_store := p_store s; p_iq := p_iq s; p_eq := p_eq s; p_full := p_full s; p_out := p_out s |}.
Definition set_flags (spont tlf found fin : bool) (s : pstate) : pstate :=
  {| p_cfg := p_cfg s; p_hist := p_hist s; p_spont := spont; p_tlf := tlf; p_found := found;
     p_fin := fin; p_store := p_store s; p_iq := p_iq s; p_eq := p_eq s; p_full := p_full s; p_out := p_out s |}.
Definition set_pstore (x : store) (s : pstate) : pstate :=
  {| p_cfg := p_cfg s; p_hist := p_hist s; p_spont := p_spont s; p_tlf := p_tlf s; p_found := p_found s;
     p_fin := p_fin s; p_store := x; p_iq := p_iq s; p_eq := p_eq s; p_full := p_full s; p_out := p_out s |}.
Definition set_iq (x : list bytes) (s : pstate) : pstate :=
  {| p_cfg := p_cfg s; p_hist := p_hist s; p_spont := p_spont s; p_tlf := p_tlf s; p_found := p_found s;
     p_fin := p_fin s; p_store := p_store s; p_iq := x; p_eq := p_eq s; p_full := p_full s; p_out := p_out s |}.
Definition set_eq (x : list bytes) (s : pstate) : pstate :=
  {| p_cfg := p_cfg s; p_hist := p_hist s; p_spont := p_spont s; p_tlf := p_tlf s; p_found := p_found s;
     p_fin := p_fin s; p_store := p_store s; p_iq := p_iq s; p_eq := x; p_full := p_full s; p_out := p_out s |}.
(* the failing send: spin reports the error; nothing after it is part of the observed behaviour *)
Definition set_full (s : pstate) : pstate :=
  if p_full s then s else
  {| p_cfg := p_cfg s; p_hist := p_hist s; p_spont := p_spont s; p_tlf := p_tlf s; p_found := p_found s;
     p_fin := p_fin s; p_store := p_store s; p_iq := p_iq s; p_eq := p_eq s; p_full := true; p_out := PQueueFull :: p_out s |}.

(* ------------------------------------------------------------------ expressions as the emitted Promela evaluates them *)
Fixpoint pml_ieval (s : store) (e : iexpr) : Z :=
  match e with
  | INum z => z
  | IVar v => match lookup s v with Some z => z | None => 0%Z end
  | IAdd a b => (pml_ieval s a + pml_ieval s b)%Z
  | ISub a b => (pml_ieval s a - pml_ieval s b)%Z
  | IBad => 0%Z        (* not renderable; outside the fragment *)
  end.

Fixpoint pml_beval (inst : N -> bool) (s : store) (e : bexpr) : bool :=
  match e with
  | BTrue => true
  | BFalse => false
  | BIn sid => inst sid
  | BLt a b => (pml_ieval s a <? pml_ieval s b)%Z
  | BNot a => negb (pml_beval inst s a)
  | BAnd a b => pml_beval inst s a && pml_beval inst s b
  | BOr a b => pml_beval inst s a || pml_beval inst s b
  | BBad => false
  end.

Definition nonempty {A} (l : list A) : bool := match l with [] => false | _ => true end.

(* event names that PromelaCodeAnalyzer::analyze puts into the trie: the descriptors of every transition
   (a trailing "*" and then a trailing "." removed), the names raised and sent, done.state.<id> of every
   compound and parallel state with an id *)
Definition analyzer_strip (d : bytes) : bytes :=
  let d1 := if ends_with [c_star] d then drop_last 1 d else d in
  if ends_with [c_dot] d1 then drop_last 1 d1 else d1.

Fixpoint instr_events (i : instr) : list bytes :=
  match i with
  | IRaise _ e | ISend _ e | ISendBadType _ e | ISendBadTarget _ e => [e]
  | ILog _ _ | IAssign _ _ _ => []
  | IIf _ _ body =>
    (fix go (l : list ifitem) : list bytes :=
       match l with
       | [] => []
       | FInstr j :: r => instr_events j ++ go r
       | _ :: r => go r
       end) body
  end.
Definition block_events (b : block) : list bytes := flat_map instr_events b.

Section Pml.
Variable pv : pml_variant.
Variable c : fchart.
Variable iqcap eqcap : nat.     (* `chan ROOT_iQ = [7]`, `chan ROOT_eQ = [7 + 6]` *)

Definition pn := nstates c.
Definition pnt := ntrans c.
Definition ptype (i : nat) : ftype := fs_type (st c i).
(* `ROOT_states[i].parent`; 0 for the root *)
Definition pparent (i : nat) : nat := match fs_parent (st c i) with Some p => p | None => 0 end.
Definition is_par (t : ftype) := match t with FParallel => true | _ => false end.
Definition is_fin (t : ftype) := match t with FFinal => true | _ => false end.
Definition is_deep (t : ftype) := match t with FHistDeep => true | _ => false end.

(* type[USCXML_STATE_HAS_HISTORY]: ChartToC::prepare sets hasHistoryChild on an element with a <history>
   child, ChartToC::setHistoryCompletion on a <history> whose parent has another <history> descendant *)
Definition has_hist (i : nat) : bool :=
  existsb (fun ch => is_hist (ptype ch)) (fs_children (st c i)) ||
  (is_hist (ptype i) &&
   existsb (fun k => negb (k =? i) && is_hist (ptype k) && mem (pparent i) (fs_ancestors (st c k))) (seq 0 pn)).

(* `ROOT_states[i].completion`; for <history> as ChartToC::setHistoryCompletion writes it (histories are
   leaves, so their post-fix order is their document order) *)
Definition hist_tables : list (nat * list nat) :=
  snd (fold_left
    (fun (a : (list nat * list nat * option nat) * list (nat * list nat)) h =>
       if is_hist (ptype h) then
         let '(covered, per, parent) := fst a in
         let p := pparent h in
         let same := match parent with Some q => q =? p | None => false end in
         let covered1 := if same then covered else set_union covered per in
         let per1 := if same then per else [] in
         let compl :=
           filter (fun j => negb (j =? h) && negb (mem j covered1) && negb (is_hist (ptype j)) &&
                            (if is_deep (ptype h) then mem p (fs_ancestors (st c j))
                             else (pparent j =? p) && negb (j =? 0))) (seq 0 pn) in
         ((covered1, set_union per1 compl, Some p), snd a ++ [(h, compl)])
       else a)
    (if pv_hist_inner_first pv then rev (seq 0 pn) else seq 0 pn) (([], [], None), [])).

Definition pcompl (i : nat) : list nat :=
  if is_hist (ptype i) && pv_hist_covered pv then
    match find (fun e => fst e =? i) hist_tables with Some e => snd e | None => [] end
  else fs_completion (st c i).

Definition done_name (i : nat) : bytes := s_done_state ++ state_name (fs_sid (st c i)).

Definition chart_event_names : list bytes :=
  flat_map (fun t => if ft_spontaneous t then [] else
                     filter nonempty (map analyzer_strip (tokens (ft_event t)))) (fc_trans c) ++
  flat_map (fun s => flat_map block_events (fs_onentry s) ++ flat_map block_events (fs_onexit s)) (fc_states c) ++
  flat_map (fun t => block_events (ft_body t)) (fc_trans c) ++
  flat_map (fun i => match ptype i with
                     | FCompound | FParallel => match i with O => [] | _ => [done_name i] end
                     | _ => []
                     end) (seq 0 pn).

Definition event_trie : trie := trie_of chart_event_names.

(* the literals of transition j's guard; None = no test of the event name *)
Definition guard_literals (j : nat) : option (list bytes) :=
  let t := tr c j in
  if ft_spontaneous t then None else resolve_attr (pv_trie pv) event_trie (ft_event t).

(* `ROOT_transitions[j].exit_set`: Predicates.cpp::getExitSet -- <state>, <parallel>, <final> below the domain *)
Definition exit_static (t : ftrans) : list nat :=
  let '(f, s) := exit_interval lg_fixed c t in
  if f =? 0 then [] else filter (fun i => negb (is_pseudo (ptype i))) (seq f (S s - f)).

(* `ROOT_transitions[i].conflicts[j]` *)
Definition conflict_static (t1 t2 : ftrans) : bool :=
  intersects (exit_static t1) (exit_static t2) ||
  (ft_source t1 =? ft_source t2) ||
  mem (ft_source t2) (fs_ancestors (st c (ft_source t1))) ||
  mem (ft_source t1) (fs_ancestors (st c (ft_source t2))).
Definition conflicts_of (i : nat) : list nat :=
  filter (fun j => conflict_static (tr c i) (tr c j)) (seq 0 pnt).

(* `config[s]` in a condition *)
Definition pml_in (cfg : list nat) (sid : N) : bool :=
  if pv_in_reads_root pv then mem 0 cfg else inst_of c cfg sid.

(* ------------------------------------------------------------------ executable content (writeExecContent) *)
(* raise / send: `if :: !flags[FINISHED] || flags[TOP_LEVEL_FINAL] -> { Q!e; skip } :: else -> skip fi` *)
Definition p_raise (ev : bytes) (s : pstate) : pstate :=
  if negb (p_fin s) || p_tlf s then
    if length (p_iq s) <? iqcap then set_iq (p_iq s ++ [ev]) s else set_full s
  else s.
Definition p_send (ev : bytes) (s : pstate) : pstate :=
  if negb (p_fin s) || p_tlf s then
    if length (p_eq s) <? eqcap then set_eq (p_eq s ++ [ev]) s else set_full s
  else s.
(* the done events are sent without that guard *)
Definition p_raise_direct (ev : bytes) (s : pstate) : pstate :=
  if length (p_iq s) <? iqcap then set_iq (p_iq s ++ [ev]) s else set_full s.

Fixpoint pexec_instr (i : instr) (s : pstate) {struct i} : pstate :=
  match i with
  | IRaise _ ev => p_raise ev s
  | ISend _ ev => p_send ev s
  | ISendBadType _ ev => p_send ev s          (* the type attribute is not looked at *)
  | ISendBadTarget _ ev => s                  (* unknown target: no queue is chosen, only `skip` *)
  | ILog _ e => out (PLog (pml_ieval (p_store s) e)) s
  | IAssign _ v e => set_pstore (update (p_store s) v (pml_ieval (p_store s) e)) s
  | IIf _ cnd body =>
    (* writeIfBlock: `if :: (cond) -> { elements up to the next elseif/else } :: else -> { the rest, nested } fi` *)
    (fix items (l : list ifitem) (taken : bool) (s : pstate) {struct l} : pstate :=
       match l with
       | [] => s
       | FElseif c' :: r =>
         if taken then s else items r (pml_beval (pml_in (p_cfg s)) (p_store s) c') s
       | FElse :: r => if taken then s else items r true s
       | FInstr j :: r => if taken then items r taken (pexec_instr j s) else items r taken s
       end) body (pml_beval (pml_in (p_cfg s)) (p_store s) cnd) s
  end.

Definition pexec_block (b : block) (s : pstate) : pstate := fold_left (fun a i => pexec_instr i a) b s.
Definition pexec_blocks (bs : list block) (s : pstate) : pstate := fold_left (fun a b => pexec_block b a) bs s.

(* ------------------------------------------------------------------ SELECT_TRANSITIONS *)
Record psel := { k_found : bool; k_conf : list nat; k_target : list nat; k_exit : list nat; k_trans : list nat }.

(* "is it matching and enabled?": `(false || (i == 0 && ...) || (i == 1 && ...) ...)` evaluated for index i *)
Definition guard_value (cfg : list nat) (ev : option bytes) (sto : store) (i : nat) : bool :=
  let evtest := match ev with Some e => resolved_match (guard_literals i) e | None => true end in
  if pv_cond_bare pv then
    (evtest && match ft_cond (tr c i) with
               | Some (BOr x _) => pml_beval (pml_in cfg) sto x
               | Some cnd => pml_beval (pml_in cfg) sto cnd
               | None => true
               end) ||
    existsb (fun j => match ft_cond (tr c j) with
                      | Some (BOr _ y) => pml_beval (pml_in cfg) sto y
                      | _ => false
                      end) (seq 0 pnt)
  else
    evtest && match ft_cond (tr c i) with Some cnd => pml_beval (pml_in cfg) sto cnd | None => true end.

Definition psel_one (cfg : list nat) (ev : option bytes) (sto : store) (a : psel) (i : nat) : psel :=
  let t := tr c i in
  if ft_history t || ft_initial t then a
  else if mem (ft_source t) cfg &&
          negb (mem i (k_conf a)) &&
          (match ev with None => ft_spontaneous t | Some _ => negb (ft_spontaneous t) end) &&
          guard_value cfg ev sto i
  then {| k_found := true;
          k_conf := set_union (k_conf a) (conflicts_of i);
          k_target := set_union (k_target a) (ft_targets t);
          k_exit := set_union (k_exit a) (exit_static t);
          k_trans := insert_sorted i (k_trans a) |}
  else a.

(* with no transition in the document the flag TRANSITION_FOUND is not reset and nothing is printed *)
Definition p_select (ev : option bytes) (s : pstate) : psel * pstate :=
  match pnt with
  | O => ({| k_found := pv_found_stale pv && p_found s; k_conf := []; k_target := []; k_exit := []; k_trans := [] |},
          out (PExit []) (out (PTarget []) s))
  | _ =>
    let s1 := out (PConfig (p_cfg s)) (out (PEvent (match ev with Some e => e | None => [] end)) s) in
    let a := fold_left (psel_one (p_cfg s) ev (p_store s)) (seq 0 pnt)
                       {| k_found := false; k_conf := []; k_target := []; k_exit := []; k_trans := [] |} in
    let a1 := {| k_found := k_found a; k_conf := k_conf a; k_target := k_target a;
                 k_exit := set_inter (k_exit a) (p_cfg s); k_trans := k_trans a |} in
    (a1, out (PExit (k_exit a1)) (out (PTarget (k_target a1)) (out (PSelected (k_trans a1)) s1)))
  end.

(* ------------------------------------------------------------------ REMEMBER_HISTORY *)
Definition p_history_one (exitset : list nat) (s : pstate) (i : nat) : pstate :=
  if is_hist (ptype i) && mem (pparent i) exitset then
    let compl := pcompl i in
    let tmp := set_inter compl (p_cfg s) in
    let s1 := out (PHTmp tmp) (out (PHConfig (p_cfg s)) (out (PHComplet compl) (out (PHistExit i) s))) in
    set_hist (set_union (set_diff (p_hist s1) compl) tmp) s1
  else s.

Definition p_remember (exitset : list nat) (s : pstate) : pstate :=
  let s1 := out PSaveHist s in
  if nonempty (p_cfg s1) then
    let s2 := fold_left (p_history_one exitset) (seq 0 pn) s1 in
    out (PHistory (p_hist s2)) s2
  else s1.

(* ------------------------------------------------------------------ ESTABLISH_ENTRY_SET *)
Definition p_anc_close (target : list nat) : list nat :=
  fold_left (fun es i => if mem i es then set_union es (fs_ancestors (st c i)) else es) (seq 0 pn) target.

Definition targets_above (i : nat) (targets : list nat) : list nat :=
  filter (fun k => mem k targets) (seq (S i) (pn - S i)).

Definition p_descend_one (cfg exitset hist : list nat) (acc : list nat * list nat * pstate) (i : nat)
  : list nat * list nat * pstate :=
  let '(es, ts, s) := acc in
  if negb (mem i es) then acc else
  let si := st c i in
  match fs_type si with
  | FParallel => (set_union es (fs_completion si), ts, s)
  | FHistShallow | FHistDeep =>
    let s1 := out (PDescHist i) s in
    if negb (intersects (pcompl i) hist) &&
       (negb (pv_hist_parent_test pv) || negb (mem (pparent i) cfg)) then
      let s2 := out PFresh s1 in
      match find (fun j => ft_source (tr c j) =? i) (seq 0 pnt) with
      | Some j =>
        let t := tr c j in
        let es1 := set_union es (ft_targets t) in
        let es2 := if is_deep (fs_type si) && negb (intersects (ft_targets t) (fs_children si)) then
                     fold_left (fun a k => set_union a (fs_ancestors (st c k))) (targets_above i (ft_targets t)) es1
                   else es1 in
        (es2, insert_sorted j ts, s2)
      | None => (es, ts, s2)
      end
    else
      let s2 := out PEstab s1 in
      let es1 := set_union es (set_inter (pcompl i) hist) in
      if (if pv_hist_or pv then has_hist i || is_deep (fs_type si) else has_hist i && is_deep (fs_type si)) then
        (fold_left
           (fun e j =>
              if mem j (pcompl i) && mem j e && has_hist j then
                fold_left (fun e' k => if is_hist (ptype k) && mem k (fs_children (st c j)) then insert_sorted k e' else e')
                          (seq (S j) (pn - S j)) e
              else e)
           (seq (S i) (pn - S i)) es1, ts, out PDeep s2)
      else (es1, ts, s2)
  | FInitial =>
    match pnt with
    | O => acc
    | _ =>
      fold_left
        (fun (a : list nat * list nat * pstate) j =>
           let '(e, tset, s') := a in
           let t := tr c j in
           if ft_source t =? i then
             let e1 := set_union (set_remove i e) (ft_targets t) in
             let e2 :=
               if pv_initial_break pv then
                 fst (fold_left (fun (b : list nat * bool) k =>
                                   if snd b then
                                     if mem k (ft_targets t) then (set_union (fst b) (fs_ancestors (st c k)), true)
                                     else (fst b, false)
                                   else b)
                                (seq (S i) (pn - S i)) (e1, true))
               else
                 fold_left (fun b k => if mem k (ft_targets t) then set_union b (fs_ancestors (st c k)) else b)
                           (seq (S i) (pn - S i)) e1 in
             (e2, insert_sorted j tset, out (PAddTrans j) s')
           else a)
        (seq 0 pnt) (es, ts, out (PDescInit i) s)
    end
  | FCompound =>
    if negb (intersects es (fs_children si)) &&
       (negb (intersects cfg (fs_children si)) || intersects exitset (fs_children si)) then
      let es1 := set_union es (fs_completion si) in
      let among_children := intersects (fs_completion si) (fs_children si) in
      if pv_deep_unnegated pv then
        if among_children then
          (* j = i + 1; do :: j < N - 1 -> { j = j + 1; if :: completion[j] -> { ...; break } ... *)
          match filter (fun j => mem j (fs_completion si)) (seq (i + 2) (pn - (i + 2))) with
          | j :: _ => (set_union es1 (fs_ancestors (st c j)), ts, s)
          | [] => (es1, ts, s)
          end
        else (es1, ts, s)
      else
        (* patched (as FastMicroStep after a86cfda4): test negated, every state of the completion above i *)
        if negb (pv_completion_guarded pv) || negb among_children then
          (fold_left (fun e j => if mem j (fs_completion si) then set_union e (fs_ancestors (st c j)) else e)
                     (seq (S i) (pn - S i)) es1, ts, s)
        else (es1, ts, s)
    else acc
  | FAtomic | FFinal => acc
  end.

Definition p_entry_set (cfg exitset hist target transset : list nat) (s : pstate) : list nat * list nat * pstate :=
  let '(es, ts, s1) := fold_left (p_descend_one cfg exitset hist) (seq 0 pn) (p_anc_close target, transset, s) in
  (es, ts, out (PEntrySet es) s1).

(* ------------------------------------------------------------------ EXIT_STATES, TAKE_TRANSITIONS, ENTER_STATES *)
Definition p_exit_one (exitset : list nat) (s : pstate) (i : nat) : pstate :=
  if mem i exitset && mem i (p_cfg s) then
    let s1 := out (PExiting i) s in
    let s2 := match fs_onexit (st c i) with
              | [] => s1
              | bs => pexec_blocks bs (out (PProcExit i) s1)
              end in
    set_cfg (set_remove i (p_cfg s2)) s2
  else s.

Definition p_take_one (ts : list nat) (s : pstate) (j : nat) : pstate :=
  let t := tr c j in
  if mem j ts && negb (ft_history t) && negb (ft_initial t) then
    pexec_block (ft_body t) (out (PProcTrans j) (out (PTaking j) s))
  else s.

(* "are we the last final state to leave a parallel state?" *)
Definition p_parallel_done (i : nat) (s : pstate) (j : nat) : pstate :=
  if is_par (ptype j) && mem j (fs_ancestors (st c i)) then
    let tmp :=
      fold_left (fun tmp k =>
                   if mem j (fs_ancestors (st c k)) && mem k (p_cfg s) then
                     if is_fin (ptype k) then set_diff tmp (fs_ancestors (st c k)) else insert_sorted k tmp
                   else tmp) (seq 0 pn) [] in
    match tmp with
    | [] => p_raise_direct (done_name j) s
    | _ => s
    end
  else s.

Definition p_enter_one (es ts : list nat) (s : pstate) (i : nat) : pstate :=
  if mem i es && negb (mem i (p_cfg s)) && negb (is_pseudo (ptype i)) then
    let s1 := set_cfg (insert_sorted i (p_cfg s)) (out (PEntering i) s) in
    let s2 := match fs_onentry (st c i) with
              | [] => s1
              | bs => pexec_blocks bs (out (PProcEntry i) s1)
              end in
    let s3 := fold_left (fun a j =>
                           let t := tr c j in
                           if mem j ts && (ft_history t || ft_initial t) && (pparent (ft_source t) =? i) then
                             pexec_block (ft_body t) (out (PProcTrans j) a)
                           else a) (seq 0 pnt) s2 in
    if is_fin (ptype i) then
      let s4 :=
        (* `ROOT_states[ROOT_states[i].parent].children[1]`: is the parent the <scxml> root *)
        if mem 1 (fs_children (st c (pparent i))) then set_flags (p_spont s3) true (p_found s3) true s3
        else match fs_parent (st c i) with
             | Some p => p_raise_direct (done_name p) s3
             | None => s3
             end in
      fold_left (p_parallel_done i) (seq 0 pn) s4
    else s3
  else s.

Definition p_microstep (target exitset transset : list nat) (s : pstate) : pstate :=
  let s1 := p_remember exitset s in
  let '(es, ts, s2) := p_entry_set (p_cfg s1) exitset (p_hist s1) target transset s1 in
  let s3 := fold_left (p_exit_one exitset) (rev (seq 0 pn)) s2 in
  let s4 := fold_left (p_take_one ts) (seq 0 pnt) s3 in
  fold_left (p_enter_one es ts) (seq 0 pn) s4.

(* ------------------------------------------------------------------ one iteration of `do :: !flags[FINISHED] -> { ... } od` *)
(* writeFSMDequeueEvent: the part of the iteration outside d_step.  None: no option of
   `if :: len(eQ) != 0 -> eQ ? _event fi` is executable, the process blocks *)
Definition pml_dequeue (s : pstate) : option (option bytes * pstate) :=
  if p_spont s then Some (None, out PSpont s)
  else match p_iq s with
       | e :: r => Some (Some e, out PDeqInt (set_iq r s))
       | [] =>
         (* DEQUEUE_EXTERNAL; no invocations in the fragment *)
         match p_eq s with
         | e :: r => Some (Some e, out PDeqExt (set_eq r s))
         | [] => None
         end
       end.

(* d_step { SELECT_TRANSITIONS ... ENTER_STATES } *)
Definition pml_dstep (ev : option bytes) (s1 : pstate) : pstate * pstatus :=
  let '(a, s2) := p_select ev s1 in
  let s2' := set_flags (p_spont s2) (p_tlf s2) (k_found a) (p_fin s2) s2 in
  let '(target, s3) :=
    if negb (nonempty (p_cfg s2')) then
      (fs_completion (st c 0), out PInitialEntry (set_flags true (p_tlf s2') true (p_fin s2') s2'))
    else if p_found s2' then (k_target a, set_flags true (p_tlf s2') (p_found s2') (p_fin s2') (out PFound s2'))
    else (k_target a, out PNotFound (set_flags false (p_tlf s2') (p_found s2') (p_fin s2') s2')) in
  let s4 := if p_found s3 then p_microstep target (k_exit a) (k_trans a) s3 else s3 in
  (s4, if p_full s4 then PFull else PRunning).

Definition pml_iter (s0 : pstate) : pstate * pstatus :=
  let s := out PStep s0 in
  match pml_dequeue s with
  | None => (out PTimeout s, PBlocked)
  | Some (ev, s1) => pml_dstep ev s1
  end.

(* TERMINATE_MACHINE *)
Definition p_terminate (s : pstate) : pstate :=
  let s1 := out PFinished s in
  let s2 := fold_left (fun a i =>
                         if mem i (p_cfg a) && p_tlf a then
                           match fs_onexit (st c i) with
                           | [] => a
                           | bs => pexec_blocks bs (out (PProcExit i) a)
                           end
                         else a) (rev (seq 0 pn)) s1 in
  out PDone s2.

(* the process, observed for at most [fuel] iterations *)
Fixpoint pml_loop (fuel : nat) (s : pstate) : pstate * pstatus :=
  if p_fin s then (p_terminate s, PTerminated)
  else match fuel with
       | O => (out PLimit s, POutOfFuel)
       | S f =>
         let '(s1, r) := pml_iter s in
         match r with
         | PRunning => pml_loop f s1
         | _ => (s1, r)
         end
       end.

(* `init { ... flags[PRISTINE] = true; flags[SPONTANEOUS] = true; <data initialisers in document order> }`;
   late binding is not implemented by the template (ENTER_STATES: "TODO: late data binding not supported yet") *)
Definition p_init : pstate :=
  {| p_cfg := []; p_hist := []; p_spont := true; p_tlf := false; p_found := false; p_fin := false;
     p_store := fold_left (fun sto d => update sto (fst d) (pml_ieval sto (snd d)))
                          (flat_map (fun s => fs_data s) (fc_states c)) [];
     p_iq := []; p_eq := []; p_full := false; p_out := [] |}.

End Pml.

(* what spin shows: nothing after the failing send *)
Fixpoint cut_at_full (l : list ptok) : list ptok :=
  match l with
  | [] => []
  | PQueueFull :: _ => [PQueueFull]
  | t :: r => t :: cut_at_full r
  end.

Definition pml_run (pv : pml_variant) (c : fchart) (iqcap eqcap fuel : nat) : list ptok * pstatus :=
  let '(s, r) := pml_loop pv c iqcap eqcap fuel (p_init c) in
  (cut_at_full (rev (p_out s)), r).

Definition pml_run_tree (pv : pml_variant) (t : tree) (iqcap eqcap fuel : nat) : list ptok * pstatus :=
  pml_run pv (flatten false t) iqcap eqcap fuel.

(* ------------------------------------------------------------------ the observable behaviour the property is about:
   events consumed, and per microstep the states exited, transitions taken (with their content's log
   output), states entered, and the configuration reached.  One projection from the model's trace lines,
   one from the interpreter's trace tokens (Exec.tok). *)
Inductive vtok :=
| VEv (name : bytes) | VMsB | VMsE | VCfg (sids : list N)
| VExit (sid : N) | VTrans (vid : N) | VEnter (sid : N) | VLog (z : Z) | VFin.

Section View.
Variable c : fchart.
Definition sid_of (i : nat) : N := fs_sid (st c i).

(* [open] = inside a microstep; [cfg] = configuration reconstructed from the Entering/Exiting lines *)
Fixpoint pview_aux (l : list ptok) (open : bool) (cfg : list nat) : list vtok :=
  let close := if open then [VMsE; VCfg (map sid_of cfg)] else [] in
  match l with
  | [] => close
  | t :: r =>
    match t with
    | PStep => close ++ pview_aux r false cfg
    | PEvent [] => pview_aux r open cfg
    | PEvent e => VEv e :: pview_aux r open cfg
    | PInitialEntry | PFound => VMsB :: pview_aux r true cfg
    | PExiting i => VExit (sid_of i) :: pview_aux r open (set_remove i cfg)
    | PEntering i => VEnter (sid_of i) :: pview_aux r open (insert_sorted i cfg)
    | PProcTrans j => VTrans (ft_vid (tr c j)) :: pview_aux r open cfg
    | PLog z => VLog z :: pview_aux r open cfg
    | PFinished => close ++ VFin :: pview_aux r false cfg
    | PTimeout => close ++ pview_aux r false cfg
    | PLimit | PQueueFull => []        (* the step in progress is not part of the observed prefix *)
    | _ => pview_aux r open cfg
    end
  end.
Definition pview (l : list ptok) : list vtok := pview_aux l false [].
End View.

Fixpoint fview_aux (l : list tok) (want_cfg : bool) : list vtok :=
  match l with
  | [] => []
  | t :: r =>
    match t with
    | TEv e => VEv e :: fview_aux r want_cfg
    | TMsB => VMsB :: fview_aux r want_cfg
    | TMsE => VMsE :: fview_aux r true
    | TCfg ids => if want_cfg then VCfg ids :: fview_aux r false else fview_aux r false
    | TXb s => VExit s :: fview_aux r want_cfg
    | TTb v => VTrans v :: fview_aux r want_cfg
    | TEb s => VEnter s :: fview_aux r want_cfg
    | TLog z => VLog z :: fview_aux r want_cfg
    | TComplB => VFin :: fview_aux r want_cfg
    | _ => fview_aux r want_cfg
    end
  end.
Definition fview (l : list tok) : list vtok := fview_aux l false.
