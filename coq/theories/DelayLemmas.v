(* DelayLemmas.v -- proofs about Delay.v (C09).  All theorems are over arbitrary programs of the
   interpreter thread and arbitrary schedules (lists of thread ids of any length), by invariants
   of [dstep]. *)
From V Require Import Base Delay.
Local Open Scope N_scope.

(* ------------------------------------------------------------------------------------------ *)
(* finite maps *)
Section MapLemmas.
  Context {A : Type}.
  Implicit Types m : list (N * A).

  Lemma lookup_remove m k k' : lookup (remove k m) k' = if k =? k' then None else lookup m k'.
  Proof.
    unfold remove. induction m as [|[a x] m IH]; cbn [filter lookup fst].
    - now destruct (k =? k').
    - destruct (a =? k) eqn:Hak; cbn [negb lookup].
      + apply N.eqb_eq in Hak; subst a. rewrite IH. destruct (k =? k') eqn:E; reflexivity.
      + rewrite IH. destruct (a =? k') eqn:Hak'; [|reflexivity].
        apply N.eqb_eq in Hak'; subst a. now rewrite N.eqb_sym, Hak.
  Qed.

  Lemma lookup_insert m k v k' : lookup (insert k v m) k' = if k =? k' then Some v else lookup m k'.
  Proof.
    induction m as [|[a x] m IH]; cbn.
    - reflexivity.
    - destruct (k <? a) eqn:Hlt; cbn; [reflexivity|].
      destruct (k =? a) eqn:Hka; cbn.
      + apply N.eqb_eq in Hka; subst a. now destruct (k =? k').
      + rewrite IH. destruct (a =? k') eqn:Hak'; [|reflexivity].
        apply N.eqb_eq in Hak'; subst a. now rewrite Hka.
  Qed.

  Lemma lookup_put m k v k' : lookup (put k v m) k' = if k =? k' then Some v else lookup m k'.
  Proof.
    unfold put. rewrite lookup_insert, lookup_remove. now destruct (k =? k').
  Qed.

  Lemma lookup_upd m k f k' :
    lookup (upd k f m) k' = if k =? k' then option_map f (lookup m k') else lookup m k'.
  Proof.
    unfold upd. induction m as [|[a x] m IH]; cbn [map lookup fst snd].
    - now destruct (k =? k').
    - destruct (a =? k) eqn:Hak; cbn [lookup].
      + apply N.eqb_eq in Hak; subst a. destruct (k =? k') eqn:E; [reflexivity|].
        exact IH.
      + rewrite IH. destruct (a =? k') eqn:Hak'; [|reflexivity].
        apply N.eqb_eq in Hak'; subst a. now rewrite N.eqb_sym, Hak.
  Qed.

  Lemma lookup_In m k v : lookup m k = Some v -> In (k, v) m.
  Proof.
    induction m as [|[a x] m IH]; cbn; [discriminate|].
    destruct (a =? k) eqn:E.
    - apply N.eqb_eq in E; subst. intros [= ->]. now left.
    - intros H. right. now apply IH.
  Qed.

  Lemma In_lookup m k v : NoDup (map fst m) -> In (k, v) m -> lookup m k = Some v.
  Proof.
    induction m as [|[a x] m IH]; cbn; [easy|].
    intros Hnd [H|H].
    - inversion H; subst. now rewrite N.eqb_refl.
    - inversion Hnd as [|? ? Hni Hnd']; subst.
      destruct (a =? k) eqn:E.
      + apply N.eqb_eq in E; subst a. exfalso. apply Hni.
        change k with (fst (k, v)). now apply in_map.
      + now apply IH.
  Qed.

  Lemma keys_remove_subset m k a : In a (map fst (remove k m)) -> In a (map fst m) /\ a <> k.
  Proof.
    unfold remove. rewrite in_map_iff. intros [[b x] [<- H]]. apply filter_In in H as [H1 H2].
    cbn in *. split.
    - change b with (fst (b, x)). now apply in_map.
    - intros ->. now rewrite N.eqb_refl in H2.
  Qed.

  Lemma nodup_remove m k : NoDup (map fst m) -> NoDup (map fst (remove k m)).
  Proof.
    induction m as [|[a x] m IH]; cbn; [easy|].
    intros Hnd. inversion Hnd as [|? ? Hni Hnd']; subst.
    destruct (a =? k); cbn; [now apply IH|].
    constructor; [|now apply IH].
    intros H. apply keys_remove_subset in H. tauto.
  Qed.

  Lemma keys_upd m k f : map fst (upd k f m) = map fst m.
  Proof.
    unfold upd. rewrite map_map. apply map_ext. intros [a x]; cbn. now destruct (a =? k).
  Qed.

  Lemma keys_insert m k v a : In a (map fst (insert k v m)) -> a = k \/ In a (map fst m).
  Proof.
    induction m as [|[b x] m IH]; cbn.
    - intros [H|[]]. now left.
    - destruct (k <? b); cbn; [intros [H|[H|H]]; auto|].
      destruct (k =? b) eqn:E; cbn.
      + intros [H|H]; auto.
      + intros [H|H]; auto. apply IH in H as [H|H]; auto.
  Qed.

  Lemma nodup_insert m k v : NoDup (map fst m) -> ~ In k (map fst m) -> NoDup (map fst (insert k v m)).
  Proof.
    induction m as [|[b x] m IH]; cbn; intros Hnd Hni.
    - constructor; [easy|constructor].
    - inversion Hnd as [|? ? Hnb Hnd']; subst. cbn in Hni.
      destruct (k <? b); cbn.
      + constructor; [cbn; tauto|]. now constructor.
      + destruct (k =? b) eqn:E; cbn.
        * apply N.eqb_eq in E. exfalso. apply Hni. left. now symmetry.
        * constructor.
          -- intros H. apply keys_insert in H as [H|H]; [subst; tauto|tauto].
          -- apply IH; tauto.
  Qed.

  Lemma nodup_put m k v : NoDup (map fst m) -> NoDup (map fst (put k v m)).
  Proof.
    intros H. unfold put. apply nodup_insert; [now apply nodup_remove|].
    intros Hin. apply keys_remove_subset in Hin. tauto.
  Qed.

  Lemma lookup_none_notin m k : lookup m k = None -> ~ In k (map fst m).
  Proof.
    induction m as [|[a x] m IH]; cbn; [tauto|].
    destruct (a =? k) eqn:E; [discriminate|].
    intros H [H1|H1]; [subst; now rewrite N.eqb_refl in E | now apply IH].
  Qed.
End MapLemmas.

(* ------------------------------------------------------------------------------------------ *)
(* the steps as a relation with named premises *)

Definition mk now prog ipc tpc pending targets cur dm qm tr : dstate :=
  {| now := now; prog := prog; ipc := ipc; tpc := tpc; pending := pending; targets := targets;
     current_cb := cur; delayM := dm; queueM := qm; trace := tr; fault := None |}.

Definition new_pend (t d : N) : pend := {| p_enq := t; p_delay := d; p_alloc := true; p_armed := true |}.

Definition sid_keys (sid : N) (tg : list (N * (N * N))) : list N :=
  map fst (filter (fun kv => fst (snd kv) =? sid) tg).

Definition ready_trace (v : dvariant) (s : dstate) (u : N) : list obs :=
  match lookup (targets s) u with
  | Some (_, tgt) => EDeliver u (now s) tgt true :: trace s
  | None => if dv_ready_checks v then trace s else EDeliver u (now s) 0 true :: trace s
  end.

Section Rel.
  Variable v : dvariant.
  Variable pick : list (N * N) -> N -> option N.

  Inductive step_rel (s : dstate) : dstate -> Prop :=
  | SI_send0 u sid tgt rest :
      ipc s = IIdle -> prog s = OSend u sid tgt 0 :: rest -> available (delayM s) Interp = true ->
      step_rel s (mk (now s) rest IIdle (tpc s) (pending s) (remove u (targets s)) (current_cb s)
                     (delayM s) (queueM s) (EDeliver u (now s) tgt false :: ESend u sid tgt (now s) 0 :: trace s))
  | SI_send u sid tgt d rest pd :
      ipc s = IIdle -> prog s = OSend u sid tgt d :: rest -> d <> 0 ->
      available (delayM s) Interp = true -> available (queueM s) Interp = true ->
      cancel_entry v (current_cb s) (pending s) u = CDone pd ->
      step_rel s (mk (now s) rest IIdle (tpc s) (put u (new_pend (now s) d) pd) (put u (sid, tgt) (targets s))
                     (current_cb s) (delayM s) (queueM s) (ESend u sid tgt (now s) d :: trace s))
  | SI_send_fault u sid tgt d rest f :
      ipc s = IIdle -> prog s = OSend u sid tgt d :: rest -> d <> 0 ->
      cancel_entry v (current_cb s) (pending s) u = CFault f ->
      step_rel s (set_fault s f)
  | SI_cancel_none sid rest dl :
      ipc s = IIdle -> prog s = OCancel sid :: rest -> acquire (delayM s) Interp = Some dl ->
      sid_keys sid (targets s) = [] ->
      step_rel s (mk (now s) rest IIdle (tpc s) (pending s) (targets s) (current_cb s)
                     (release dl) (queueM s) (ECancelDone sid (now s) :: trace s))
  | SI_cancel_some sid rest dl u todo :
      ipc s = IIdle -> prog s = OCancel sid :: rest -> acquire (delayM s) Interp = Some dl ->
      sid_keys sid (targets s) = u :: todo ->
      step_rel s (mk (now s) rest (IQBefore sid u todo) (tpc s) (pending s) (targets s) (current_cb s)
                     dl (queueM s) (trace s))
  | SI_all rest ql :
      ipc s = IIdle -> prog s = OCancelAll :: rest -> acquire (queueM s) Interp = Some ql ->
      step_rel s (mk (now s) rest IAllLocked (tpc s) (pending s) (targets s) (current_cb s)
                     (delayM s) ql (trace s))
  | SI_all_done pd :
      ipc s = IAllLocked ->
      cancel_all v (current_cb s) (map fst (pending s)) (pending s) = CDone pd ->
      step_rel s (mk (now s) (prog s) IIdle (tpc s) pd (targets s) (current_cb s)
                     (delayM s) (release (queueM s)) (trace s))
  | SI_all_fault f :
      ipc s = IAllLocked ->
      cancel_all v (current_cb s) (map fst (pending s)) (pending s) = CFault f ->
      step_rel s (set_fault s f)
  | SI_qbefore sid u todo ql :
      ipc s = IQBefore sid u todo -> acquire (queueM s) Interp = Some ql ->
      step_rel s (mk (now s) (prog s) (IQLocked sid u todo) (tpc s) (pending s) (targets s) (current_cb s)
                     (delayM s) ql (trace s))
  | SI_qlocked_last sid u pd :
      ipc s = IQLocked sid u [] -> cancel_entry v (current_cb s) (pending s) u = CDone pd ->
      step_rel s (mk (now s) (prog s) IIdle (tpc s) pd (remove u (targets s)) (current_cb s)
                     (release (delayM s)) (release (queueM s)) (ECancelDone sid (now s) :: trace s))
  | SI_qlocked_next sid u u' todo' pd :
      ipc s = IQLocked sid u (u' :: todo') -> cancel_entry v (current_cb s) (pending s) u = CDone pd ->
      step_rel s (mk (now s) (prog s) (IQBefore sid u' todo') (tpc s) pd (remove u (targets s)) (current_cb s)
                     (delayM s) (release (queueM s)) (trace s))
  | SI_qlocked_fault sid u todo f :
      ipc s = IQLocked sid u todo -> cancel_entry v (current_cb s) (pending s) u = CFault f ->
      step_rel s (set_fault s f)
  | ST_expire u p :
      tpc s = TIdle -> pick (armed_list (pending s)) (now s) = Some u -> lookup (pending s) u = Some p ->
      step_rel s (mk (now s) (prog s) (ipc s) (TCbEnter u) (upd u disarm (pending s)) (targets s) (Some u)
                     (delayM s) (queueM s) (EExpire u (p_due p) :: trace s))
  | ST_enter_gone u :
      tpc s = TCbEnter u -> available (queueM s) Timer = true -> lookup (pending s) u = None ->
      dv_cancel_noblock v = true ->
      step_rel s (mk (now s) (prog s) (ipc s) TIdle (pending s) (targets s) None
                     (delayM s) (queueM s) (trace s))
  | ST_enter_gone_fault u :
      tpc s = TCbEnter u -> available (queueM s) Timer = true -> lookup (pending s) u = None ->
      dv_cancel_noblock v = false ->
      step_rel s (set_fault s (UseAfterFree u))
  | ST_enter_dfree u p :
      tpc s = TCbEnter u -> available (queueM s) Timer = true -> lookup (pending s) u = Some p ->
      p_alloc p = false ->
      step_rel s (set_fault s (DoubleFree u))
  | ST_enter u p :
      tpc s = TCbEnter u -> available (queueM s) Timer = true -> lookup (pending s) u = Some p ->
      p_alloc p = true ->
      step_rel s (mk (now s) (prog s) (ipc s) (TCbUnlocked u)
                     (if dv_cb_takes_entry v then remove u (pending s) else upd u dealloc (pending s))
                     (targets s) (current_cb s) (delayM s) (queueM s) (trace s))
  | ST_unlocked u dl :
      tpc s = TCbUnlocked u -> acquire (delayM s) Timer = Some dl ->
      step_rel s (mk (now s) (prog s) (ipc s) (TReadyLocked u) (pending s) (targets s) (current_cb s)
                     dl (queueM s) (trace s))
  | ST_ready u :
      tpc s = TReadyLocked u ->
      step_rel s (mk (now s) (prog s) (ipc s) (TDelivered u) (pending s) (remove u (targets s)) (current_cb s)
                     (release (delayM s)) (queueM s) (ready_trace v s u))
  | ST_delivered u :
      tpc s = TDelivered u -> available (queueM s) Timer = true ->
      step_rel s (mk (now s) (prog s) (ipc s) TIdle
                     (if dv_cb_takes_entry v then pending s else remove u (pending s))
                     (targets s) None (delayM s) (queueM s) (trace s))
  | S_clock :
      step_rel s (mk (now s + 1) (prog s) (ipc s) (tpc s) (pending s) (targets s) (current_cb s)
                     (delayM s) (queueM s) (trace s)).

  Lemma negb_false_true b : negb b = false -> b = true.
  Proof. now destruct b. Qed.

  Lemma dstep_rel s t s' : dstep v pick s t = Some s' -> fault s = None /\ step_rel s s'.
  Proof.
    unfold dstep. destruct (fault s) eqn:Hf; [discriminate|]. intros H. split; [reflexivity|].
    destruct t.
    - (* interpreter *)
      unfold istep in H.
      destruct (ipc s) as [|sid u todo|sid u todo|] eqn:Hipc.
      + destruct (prog s) as [|[u sid tgt d|sid|] rest] eqn:Hprog; [discriminate| | |].
        * destruct (negb (available (delayM s) Interp)) eqn:Hav; [discriminate|].
          apply negb_false_true in Hav.
          destruct (d =? 0) eqn:Hd.
          -- apply N.eqb_eq in Hd; subst d. injection H as <-. now apply SI_send0.
          -- apply N.eqb_neq in Hd.
             destruct (negb (available (queueM s) Interp)) eqn:Hav2; [discriminate|].
             apply negb_false_true in Hav2.
             destruct (cancel_entry v (current_cb s) (pending s) u) as [pd| |f] eqn:Hce; [|discriminate|].
             ++ injection H as <-. now apply SI_send.
             ++ injection H as <-. eapply SI_send_fault; eauto.
        * destruct (acquire (delayM s) Interp) as [dl|] eqn:Hacq; [|discriminate].
          destruct (map fst (filter (fun kv => fst (snd kv) =? sid) (targets s))) as [|u todo] eqn:Hk;
            injection H as <-.
          -- now apply SI_cancel_none.
          -- now apply SI_cancel_some.
        * destruct (acquire (queueM s) Interp) as [ql|] eqn:Hacq; [|discriminate].
          injection H as <-. now apply SI_all.
      + destruct (acquire (queueM s) Interp) as [ql|] eqn:Hacq; [|discriminate].
        injection H as <-. now apply SI_qbefore.
      + destruct (cancel_entry v (current_cb s) (pending s) u) as [pd| |f] eqn:Hce; [|discriminate|].
        * destruct todo as [|u' todo']; injection H as <-.
          -- now apply SI_qlocked_last.
          -- now apply SI_qlocked_next.
        * injection H as <-. eapply SI_qlocked_fault; eauto.
      + destruct (cancel_all v (current_cb s) (map fst (pending s)) (pending s)) as [pd| |f] eqn:Hca;
          [|discriminate|]; injection H as <-.
        * now apply SI_all_done.
        * now apply SI_all_fault.
    - (* timer *)
      unfold tstep in H.
      destruct (tpc s) as [|u|u|u|u] eqn:Htpc.
      + destruct (pick (armed_list (pending s)) (now s)) as [u|] eqn:Hp; [|discriminate].
        destruct (lookup (pending s) u) as [p|] eqn:Hl; [|discriminate].
        injection H as <-. now apply ST_expire.
      + destruct (negb (available (queueM s) Timer)) eqn:Hav; [discriminate|].
        apply negb_false_true in Hav.
        destruct (lookup (pending s) u) as [p|] eqn:Hl.
        * destruct (negb (p_alloc p)) eqn:Hal; injection H as <-.
          -- eapply ST_enter_dfree; eauto. now destruct (p_alloc p).
          -- eapply ST_enter; eauto. now destruct (p_alloc p).
        * destruct (dv_cancel_noblock v) eqn:Hnb; injection H as <-.
          -- now apply ST_enter_gone with (u := u).
          -- now apply ST_enter_gone_fault.
      + destruct (acquire (delayM s) Timer) as [dl|] eqn:Hacq; [|discriminate].
        injection H as <-. now apply ST_unlocked.
      + injection H as <-. now apply ST_ready.
      + destruct (negb (available (queueM s) Timer)) eqn:Hav; [discriminate|].
        apply negb_false_true in Hav. injection H as <-. now apply ST_delivered with (u := u).
    - injection H as <-. apply S_clock.
  Qed.
End Rel.

(* ------------------------------------------------------------------------------------------ *)
(* observations *)

Fixpoint sent_uuids (tr : list obs) : list N :=
  match tr with
  | [] => []
  | ESend u _ _ _ _ :: r => u :: sent_uuids r
  | _ :: r => sent_uuids r
  end.

Definition tpc_on (t : tpc_t) : option N :=
  match t with TIdle => None | TCbEnter u | TCbUnlocked u | TReadyLocked u | TDelivered u => Some u end.
Definition tpc_pre (t : tpc_t) : option N :=
  match t with TCbEnter u | TCbUnlocked u | TReadyLocked u => Some u | _ => None end.

Fixpoint last_expire (tr : list obs) : option (N * N) :=
  match tr with
  | [] => None
  | EExpire u d :: _ => Some (u, d)
  | _ :: r => last_expire r
  end.

Lemma sent_in tr u sid tgt enq d : In (ESend u sid tgt enq d) tr -> In u (sent_uuids tr).
Proof.
  induction tr as [|o tr IH]; cbn; [easy|].
  intros [->|H]; [now left|]. destruct o; cbn; auto.
Qed.

Lemma sent_uuids_in tr u : In u (sent_uuids tr) -> exists sid tgt enq d, In (ESend u sid tgt enq d) tr.
Proof.
  induction tr as [|o tr IH]; cbn; [easy|].
  destruct o as [u' sid tgt enq d| | |]; cbn.
  - intros [->|H]; [now exists sid, tgt, enq, d; left|].
    destruct (IH H) as (a & b & c & e & He). exists a, b, c, e. now right.
  - intros H. destruct (IH H) as (a & b & c & e & He). exists a, b, c, e. now right.
  - intros H. destruct (IH H) as (a & b & c & e & He). exists a, b, c, e. now right.
  - intros H. destruct (IH H) as (a & b & c & e & He). exists a, b, c, e. now right.
Qed.

Lemma delivered_in tr u t g b : In (EDeliver u t g b) tr -> In u (delivered tr).
Proof.
  induction tr as [|o tr IH]; cbn; [easy|].
  intros [->|H]; [now left|]. destruct o; cbn; auto.
Qed.

Lemma in_delivered tr u : In u (delivered tr) -> exists t g b, In (EDeliver u t g b) tr.
Proof.
  induction tr as [|o tr IH]; cbn; [easy|].
  destruct o as [| |u' t g b|]; cbn.
  - intros H. destruct (IH H) as (a & c & e & He). exists a, c, e. now right.
  - intros H. destruct (IH H) as (a & c & e & He). exists a, c, e. now right.
  - intros [->|H]; [now exists t, g, b; left|].
    destruct (IH H) as (a & c & e & He). exists a, c, e. now right.
  - intros H. destruct (IH H) as (a & c & e & He). exists a, c, e. now right.
Qed.

Lemma send_unique tr u a b c d a' b' c' d' :
  NoDup (sent_uuids tr) -> In (ESend u a b c d) tr -> In (ESend u a' b' c' d') tr ->
  a = a' /\ b = b' /\ c = c' /\ d = d'.
Proof.
  induction tr as [|o tr IH]; cbn; [easy|].
  intros Hnd [H1|H1] [H2|H2].
  - subst o. now inversion H2.
  - subst o. cbn in Hnd. inversion Hnd as [|? ? Hni ?]; subst. exfalso. apply Hni. eapply sent_in; eauto.
  - subst o. cbn in Hnd. inversion Hnd as [|? ? Hni ?]; subst. exfalso. apply Hni. eapply sent_in; eauto.
  - apply IH; auto. destruct o; cbn in Hnd; auto. now inversion Hnd.
Qed.

(* ------------------------------------------------------------------------------------------ *)
(* cancel_entry / cancel_all only take entries away *)

Definition submap (pd pd0 : list (N * pend)) : Prop :=
  forall k p, lookup pd k = Some p -> lookup pd0 k = Some p.

Lemma cancel_entry_done v cur pd0 u pd :
  cancel_entry v cur pd0 u = CDone pd ->
  (forall k, lookup pd k = if u =? k then None else lookup pd0 k) /\
  (NoDup (map fst pd0) -> NoDup (map fst pd)) /\
  (forall p, lookup pd0 u = Some p -> p_alloc p = true /\ (cur = Some u -> dv_cancel_noblock v = true)).
Proof.
  unfold cancel_entry. destruct (lookup pd0 u) as [p|] eqn:Hl.
  - destruct (negb (p_alloc p)) eqn:Hal; [discriminate|].
    assert (Ha : p_alloc p = true) by (now destruct (p_alloc p)).
    assert (Hrem : CDone (remove u pd0) = CDone pd ->
            (forall k, lookup pd k = if u =? k then None else lookup pd0 k) /\
            (NoDup (map fst pd0) -> NoDup (map fst pd))).
    { intros [= <-]. split; [intros k; apply lookup_remove | apply nodup_remove]. }
    assert (Hfin : forall (Q : Prop), Q -> CDone (remove u pd0) = CDone pd ->
            (forall k, lookup pd k = if u =? k then None else lookup pd0 k) /\
            (NoDup (map fst pd0) -> NoDup (map fst pd)) /\
            (forall p0, Some p = Some p0 -> p_alloc p0 = true /\ Q)).
    { intros Q HQ H. destruct (Hrem H) as [H1 H2]. split; [exact H1|]. split; [exact H2|].
      intros p0 [= <-]. split; [exact Ha | exact HQ]. }
    destruct cur as [c|].
    + destruct (c =? u) eqn:Hc.
      * apply N.eqb_eq in Hc; subst c.
        destruct (dv_cancel_noblock v) eqn:Hnb; [|discriminate].
        apply Hfin. intros _. reflexivity.
      * apply Hfin. intros [= ->]. now rewrite N.eqb_refl in Hc.
    + apply Hfin. discriminate.
  - intros [= <-]. split; [|split].
    + intros k. destruct (u =? k) eqn:E; [|reflexivity]. apply N.eqb_eq in E; now subst.
    + auto.
    + discriminate.
Qed.

Lemma cancel_entry_submap v cur pd0 u pd : cancel_entry v cur pd0 u = CDone pd -> submap pd pd0.
Proof.
  intros H k p. destruct (cancel_entry_done _ _ _ _ _ H) as [H1 _]. rewrite H1.
  now destruct (u =? k).
Qed.

Lemma cancel_all_done v cur keys : forall pd0 pd,
  cancel_all v cur keys pd0 = CDone pd ->
  submap pd pd0 /\ (NoDup (map fst pd0) -> NoDup (map fst pd)) /\
  (forall k, In k keys -> lookup pd k = None).
Proof.
  induction keys as [|u r IH]; cbn; intros pd0 pd.
  - intros [= <-]. repeat split; auto. intros k p H; exact H. intros k [].
  - destruct (cancel_entry v cur pd0 u) as [pd1| |f] eqn:Hce; try discriminate.
    intros H. destruct (IH _ _ H) as (Hs & Hn & Hk).
    destruct (cancel_entry_done _ _ _ _ _ Hce) as (H1 & H2 & _).
    repeat split.
    + intros k p Hl. apply Hs in Hl. rewrite H1 in Hl. now destruct (u =? k).
    + auto.
    + intros k [->|Hin]; [|now apply Hk].
      destruct (lookup pd k) as [p|] eqn:Hl; [|reflexivity].
      apply Hs in Hl. rewrite H1, N.eqb_refl in Hl. discriminate.
Qed.
