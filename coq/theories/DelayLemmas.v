(* DelayLemmas.v -- proofs about Delay.v (C09).  All theorems are over arbitrary programs of the
   interpreter thread and arbitrary schedules (lists of thread ids of any length), by invariants
   of [dstep]. *)
From V Require Import Base Delay.
Local Open Scope N_scope.

(* ------------------------------------------------------------------------------------------ *)
(* finite maps *)
Section MapLemmas.
  Context {A : Type}.
  Implicit Types m : list (N * A).

  Lemma lookup_remove m k k' : lookup (remove k m) k' = if k =? k' then None else lookup m k'.
  Proof.
    unfold remove. induction m as [|[a x] m IH]; cbn [filter lookup fst].
    - now destruct (k =? k').
    - destruct (a =? k) eqn:Hak; cbn [negb lookup].
      + apply N.eqb_eq in Hak; subst a. rewrite IH. destruct (k =? k') eqn:E; reflexivity.
      + rewrite IH. destruct (a =? k') eqn:Hak'; [|reflexivity].
        apply N.eqb_eq in Hak'; subst a. now rewrite N.eqb_sym, Hak.
  Qed.

  Lemma lookup_insert m k v k' : lookup (insert k v m) k' = if k =? k' then Some v else lookup m k'.
  Proof.
    induction m as [|[a x] m IH]; cbn.
    - reflexivity.
    - destruct (k <? a) eqn:Hlt; cbn; [reflexivity|].
      destruct (k =? a) eqn:Hka; cbn.
      + apply N.eqb_eq in Hka; subst a. now destruct (k =? k').
      + rewrite IH. destruct (a =? k') eqn:Hak'; [|reflexivity].
        apply N.eqb_eq in Hak'; subst a. now rewrite Hka.
  Qed.

  Lemma lookup_put m k v k' : lookup (put k v m) k' = if k =? k' then Some v else lookup m k'.
  Proof.
    unfold put. rewrite lookup_insert, lookup_remove. now destruct (k =? k').
  Qed.

  Lemma lookup_upd m k f k' :
    lookup (upd k f m) k' = if k =? k' then option_map f (lookup m k') else lookup m k'.
  Proof.
    unfold upd. induction m as [|[a x] m IH]; cbn [map lookup fst snd].
    - now destruct (k =? k').
    - destruct (a =? k) eqn:Hak; cbn [lookup].
      + apply N.eqb_eq in Hak; subst a. destruct (k =? k') eqn:E; [reflexivity|].
        exact IH.
      + rewrite IH. destruct (a =? k') eqn:Hak'; [|reflexivity].
        apply N.eqb_eq in Hak'; subst a. now rewrite N.eqb_sym, Hak.
  Qed.

  Lemma lookup_In m k v : lookup m k = Some v -> In (k, v) m.
  Proof.
    induction m as [|[a x] m IH]; cbn; [discriminate|].
    destruct (a =? k) eqn:E.
    - apply N.eqb_eq in E; subst. intros [= ->]. now left.
    - intros H. right. now apply IH.
  Qed.

  Lemma In_lookup m k v : NoDup (map fst m) -> In (k, v) m -> lookup m k = Some v.
  Proof.
    induction m as [|[a x] m IH]; cbn; [easy|].
    intros Hnd [H|H].
    - inversion H; subst. now rewrite N.eqb_refl.
    - inversion Hnd as [|? ? Hni Hnd']; subst.
      destruct (a =? k) eqn:E.
      + apply N.eqb_eq in E; subst a. exfalso. apply Hni.
        change k with (fst (k, v)). now apply in_map.
      + now apply IH.
  Qed.

  Lemma keys_remove_subset m k a : In a (map fst (remove k m)) -> In a (map fst m) /\ a <> k.
  Proof.
    unfold remove. rewrite in_map_iff. intros [[b x] [<- H]]. apply filter_In in H as [H1 H2].
    cbn in *. split.
    - change b with (fst (b, x)). now apply in_map.
    - intros ->. now rewrite N.eqb_refl in H2.
  Qed.

  Lemma nodup_remove m k : NoDup (map fst m) -> NoDup (map fst (remove k m)).
  Proof.
    induction m as [|[a x] m IH]; cbn; [easy|].
    intros Hnd. inversion Hnd as [|? ? Hni Hnd']; subst.
    destruct (a =? k); cbn; [now apply IH|].
    constructor; [|now apply IH].
    intros H. apply keys_remove_subset in H. tauto.
  Qed.

  Lemma keys_upd m k f : map fst (upd k f m) = map fst m.
  Proof.
    unfold upd. rewrite map_map. apply map_ext. intros [a x]; cbn. now destruct (a =? k).
  Qed.

  Lemma keys_insert m k v a : In a (map fst (insert k v m)) -> a = k \/ In a (map fst m).
  Proof.
    induction m as [|[b x] m IH]; cbn.
    - intros [H|[]]. now left.
    - destruct (k <? b); cbn; [intros [H|[H|H]]; auto|].
      destruct (k =? b) eqn:E; cbn.
      + intros [H|H]; auto.
      + intros [H|H]; auto. apply IH in H as [H|H]; auto.
  Qed.

  Lemma nodup_insert m k v : NoDup (map fst m) -> ~ In k (map fst m) -> NoDup (map fst (insert k v m)).
  Proof.
    induction m as [|[b x] m IH]; cbn; intros Hnd Hni.
    - constructor; [easy|constructor].
    - inversion Hnd as [|? ? Hnb Hnd']; subst. cbn in Hni.
      destruct (k <? b); cbn.
      + constructor; [cbn; tauto|]. now constructor.
      + destruct (k =? b) eqn:E; cbn.
        * apply N.eqb_eq in E. exfalso. apply Hni. left. now symmetry.
        * constructor.
          -- intros H. apply keys_insert in H as [H|H]; [subst; tauto|tauto].
          -- apply IH; tauto.
  Qed.

  Lemma nodup_put m k v : NoDup (map fst m) -> NoDup (map fst (put k v m)).
  Proof.
    intros H. unfold put. apply nodup_insert; [now apply nodup_remove|].
    intros Hin. apply keys_remove_subset in Hin. tauto.
  Qed.

  Lemma lookup_none_notin m k : lookup m k = None -> ~ In k (map fst m).
  Proof.
    induction m as [|[a x] m IH]; cbn; [tauto|].
    destruct (a =? k) eqn:E; [discriminate|].
    intros H [H1|H1]; [subst; now rewrite N.eqb_refl in E | now apply IH].
  Qed.
End MapLemmas.

(* ------------------------------------------------------------------------------------------ *)
(* the steps as a relation with named premises *)

Definition mk now prog ipc tpc pending targets cur dm qm tr : dstate :=
  {| now := now; prog := prog; ipc := ipc; tpc := tpc; pending := pending; targets := targets;
     current_cb := cur; delayM := dm; queueM := qm; trace := tr; fault := None |}.

Definition new_pend (t d : N) : pend := {| p_enq := t; p_delay := d; p_alloc := true; p_armed := true |}.

Definition sid_keys (sid : N) (tg : list (N * (N * N))) : list N :=
  map fst (filter (fun kv => fst (snd kv) =? sid) tg).

Definition ready_trace (v : dvariant) (s : dstate) (u : N) : list obs :=
  match lookup (targets s) u with
  | Some (_, tgt) => EDeliver u (now s) tgt true :: trace s
  | None => if dv_ready_checks v then trace s else EDeliver u (now s) 0 true :: trace s
  end.

Section Rel.
  Variable v : dvariant.
  Variable pick : list (N * N) -> N -> option N.

  Inductive step_rel (s : dstate) : dstate -> Prop :=
  | SI_send0 u sid tgt rest :
      ipc s = IIdle -> prog s = OSend u sid tgt 0 :: rest -> available (delayM s) Interp = true ->
      step_rel s (mk (now s) rest IIdle (tpc s) (pending s) (remove u (targets s)) (current_cb s)
                     (delayM s) (queueM s) (EDeliver u (now s) tgt false :: ESend u sid tgt (now s) 0 :: trace s))
  | SI_send u sid tgt d rest pd dl :
      ipc s = IIdle -> prog s = OSend u sid tgt d :: rest -> d <> 0 ->
      available (queueM s) Interp = true ->
      (if dv_enqueue_arms_first v then Some (delayM s) else acquire (delayM s) Interp) = Some dl ->
      cancel_entry v (current_cb s) (pending s) u = CDone pd ->
      step_rel s (mk (now s) rest (ISendArmed u sid tgt) (tpc s) (put u (new_pend (now s) d) pd)
                     (if dv_enqueue_arms_first v then targets s else put u (sid, tgt) (targets s))
                     (current_cb s) dl (queueM s) (ESend u sid tgt (now s) d :: trace s))
  | SI_armed_off u sid tgt :
      ipc s = ISendArmed u sid tgt -> dv_enqueue_arms_first v = false ->
      step_rel s (mk (now s) (prog s) IIdle (tpc s) (pending s) (targets s) (current_cb s)
                     (release (delayM s)) (queueM s) (trace s))
  | SI_armed_on u sid tgt :
      ipc s = ISendArmed u sid tgt -> dv_enqueue_arms_first v = true ->
      available (delayM s) Interp = true ->
      step_rel s (mk (now s) (prog s) IIdle (tpc s) (pending s) (put u (sid, tgt) (targets s)) (current_cb s)
                     (delayM s) (queueM s) (trace s))
  | SI_send_fault u sid tgt d rest f :
      ipc s = IIdle -> prog s = OSend u sid tgt d :: rest -> d <> 0 ->
      cancel_entry v (current_cb s) (pending s) u = CFault f ->
      step_rel s (set_fault s f)
  | SI_cancel_none sid rest dl :
      ipc s = IIdle -> prog s = OCancel sid :: rest -> acquire (delayM s) Interp = Some dl ->
      sid_keys sid (targets s) = [] ->
      step_rel s (mk (now s) rest IIdle (tpc s) (pending s) (targets s) (current_cb s)
                     (release dl) (queueM s) (ECancelDone sid (now s) :: trace s))
  | SI_cancel_some sid rest dl u todo :
      ipc s = IIdle -> prog s = OCancel sid :: rest -> acquire (delayM s) Interp = Some dl ->
      sid_keys sid (targets s) = u :: todo ->
      step_rel s (mk (now s) rest (IQBefore sid u todo) (tpc s) (pending s) (targets s) (current_cb s)
                     dl (queueM s) (trace s))
  | SI_all rest ql :
      ipc s = IIdle -> prog s = OCancelAll :: rest -> acquire (queueM s) Interp = Some ql ->
      step_rel s (mk (now s) rest IAllLocked (tpc s) (pending s) (targets s) (current_cb s)
                     (delayM s) ql (trace s))
  | SI_all_done pd :
      ipc s = IAllLocked ->
      cancel_all v (current_cb s) (map fst (pending s)) (pending s) = CDone pd ->
      step_rel s (mk (now s) (prog s) IIdle (tpc s) pd (targets s) (current_cb s)
                     (delayM s) (release (queueM s)) (trace s))
  | SI_all_fault f :
      ipc s = IAllLocked ->
      cancel_all v (current_cb s) (map fst (pending s)) (pending s) = CFault f ->
      step_rel s (set_fault s f)
  | SI_qbefore sid u todo ql :
      ipc s = IQBefore sid u todo -> acquire (queueM s) Interp = Some ql ->
      step_rel s (mk (now s) (prog s) (IQLocked sid u todo) (tpc s) (pending s) (targets s) (current_cb s)
                     (delayM s) ql (trace s))
  | SI_qlocked_last sid u pd :
      ipc s = IQLocked sid u [] -> cancel_entry v (current_cb s) (pending s) u = CDone pd ->
      step_rel s (mk (now s) (prog s) IIdle (tpc s) pd (remove u (targets s)) (current_cb s)
                     (release (delayM s)) (release (queueM s)) (ECancelDone sid (now s) :: trace s))
  | SI_qlocked_next sid u u' todo' pd :
      ipc s = IQLocked sid u (u' :: todo') -> cancel_entry v (current_cb s) (pending s) u = CDone pd ->
      step_rel s (mk (now s) (prog s) (IQBefore sid u' todo') (tpc s) pd (remove u (targets s)) (current_cb s)
                     (delayM s) (release (queueM s)) (trace s))
  | SI_qlocked_fault sid u todo f :
      ipc s = IQLocked sid u todo -> cancel_entry v (current_cb s) (pending s) u = CFault f ->
      step_rel s (set_fault s f)
  | ST_expire u p :
      tpc s = TIdle -> pick (armed_list (pending s)) (now s) = Some u -> lookup (pending s) u = Some p ->
      step_rel s (mk (now s) (prog s) (ipc s) (TCbEnter u) (upd u disarm (pending s)) (targets s) (Some u)
                     (delayM s) (queueM s) (EExpire u (p_due p) :: trace s))
  | ST_enter_gone u :
      tpc s = TCbEnter u -> available (queueM s) Timer = true -> lookup (pending s) u = None ->
      dv_cancel_noblock v = true ->
      step_rel s (mk (now s) (prog s) (ipc s) TIdle (pending s) (targets s) None
                     (delayM s) (queueM s) (trace s))
  | ST_enter_gone_fault u :
      tpc s = TCbEnter u -> available (queueM s) Timer = true -> lookup (pending s) u = None ->
      dv_cancel_noblock v = false ->
      step_rel s (set_fault s (UseAfterFree u))
  | ST_enter_dfree u p :
      tpc s = TCbEnter u -> available (queueM s) Timer = true -> lookup (pending s) u = Some p ->
      p_alloc p = false ->
      step_rel s (set_fault s (DoubleFree u))
  | ST_enter u p :
      tpc s = TCbEnter u -> available (queueM s) Timer = true -> lookup (pending s) u = Some p ->
      p_alloc p = true ->
      step_rel s (mk (now s) (prog s) (ipc s) (TCbUnlocked u)
                     (if dv_cb_takes_entry v then remove u (pending s) else upd u dealloc (pending s))
                     (targets s) (current_cb s) (delayM s) (queueM s) (trace s))
  | ST_unlocked u dl :
      tpc s = TCbUnlocked u -> acquire (delayM s) Timer = Some dl ->
      step_rel s (mk (now s) (prog s) (ipc s) (TReadyLocked u) (pending s) (targets s) (current_cb s)
                     dl (queueM s) (trace s))
  | ST_ready u :
      tpc s = TReadyLocked u ->
      step_rel s (mk (now s) (prog s) (ipc s) (TDelivered u) (pending s) (remove u (targets s)) (current_cb s)
                     (release (delayM s)) (queueM s) (ready_trace v s u))
  | ST_delivered u :
      tpc s = TDelivered u -> available (queueM s) Timer = true ->
      step_rel s (mk (now s) (prog s) (ipc s) TIdle
                     (if dv_cb_takes_entry v then pending s else remove u (pending s))
                     (targets s) None (delayM s) (queueM s) (trace s))
  | S_clock :
      step_rel s (mk (now s + 1) (prog s) (ipc s) (tpc s) (pending s) (targets s) (current_cb s)
                     (delayM s) (queueM s) (trace s)).

  Lemma negb_false_true b : negb b = false -> b = true.
  Proof. now destruct b. Qed.

  Lemma dstep_rel s t s' : dstep v pick s t = Some s' -> fault s = None /\ step_rel s s'.
  Proof.
    unfold dstep. destruct (fault s) eqn:Hf; [discriminate|]. intros H. split; [reflexivity|].
    destruct t.
    - (* interpreter *)
      unfold istep in H.
      destruct (ipc s) as [|u0 sid0 tgt0|sid u todo|sid u todo|] eqn:Hipc.
      + destruct (prog s) as [|[u sid tgt d|sid|] rest] eqn:Hprog; [discriminate| | |].
        * destruct (d =? 0) eqn:Hd.
          -- destruct (negb (available (delayM s) Interp)) eqn:Hav; [discriminate|].
             apply negb_false_true in Hav.
             apply N.eqb_eq in Hd; subst d. injection H as <-. now apply SI_send0.
          -- apply N.eqb_neq in Hd.
             destruct (negb (available (queueM s) Interp)) eqn:Hav2; [discriminate|].
             apply negb_false_true in Hav2.
             destruct (if dv_enqueue_arms_first v then Some (delayM s) else acquire (delayM s) Interp) as [dl|] eqn:Hdl;
               [|discriminate].
             destruct (cancel_entry v (current_cb s) (pending s) u) as [pd| |f] eqn:Hce; [|discriminate|].
             ++ injection H as <-. now apply SI_send.
             ++ injection H as <-. eapply SI_send_fault; eauto.
        * destruct (acquire (delayM s) Interp) as [dl|] eqn:Hacq; [|discriminate].
          destruct (map fst (filter (fun kv => fst (snd kv) =? sid) (targets s))) as [|u todo] eqn:Hk;
            injection H as <-.
          -- now apply SI_cancel_none.
          -- now apply SI_cancel_some.
        * destruct (acquire (queueM s) Interp) as [ql|] eqn:Hacq; [|discriminate].
          injection H as <-. now apply SI_all.
      + destruct (dv_enqueue_arms_first v) eqn:Haf.
        * destruct (negb (available (delayM s) Interp)) eqn:Hav; [discriminate|].
          apply negb_false_true in Hav. injection H as <-. now apply SI_armed_on with (u := u0) (sid := sid0) (tgt := tgt0).
        * injection H as <-. now apply SI_armed_off with (u := u0) (sid := sid0) (tgt := tgt0).
      + destruct (acquire (queueM s) Interp) as [ql|] eqn:Hacq; [|discriminate].
        injection H as <-. now apply SI_qbefore.
      + destruct (cancel_entry v (current_cb s) (pending s) u) as [pd| |f] eqn:Hce; [|discriminate|].
        * destruct todo as [|u' todo']; injection H as <-.
          -- now apply SI_qlocked_last.
          -- now apply SI_qlocked_next.
        * injection H as <-. eapply SI_qlocked_fault; eauto.
      + destruct (cancel_all v (current_cb s) (map fst (pending s)) (pending s)) as [pd| |f] eqn:Hca;
          [|discriminate|]; injection H as <-.
        * now apply SI_all_done.
        * now apply SI_all_fault.
    - (* timer *)
      unfold tstep in H.
      destruct (tpc s) as [|u|u|u|u] eqn:Htpc.
      + destruct (pick (armed_list (pending s)) (now s)) as [u|] eqn:Hp; [|discriminate].
        destruct (lookup (pending s) u) as [p|] eqn:Hl; [|discriminate].
        injection H as <-. now apply ST_expire.
      + destruct (negb (available (queueM s) Timer)) eqn:Hav; [discriminate|].
        apply negb_false_true in Hav.
        destruct (lookup (pending s) u) as [p|] eqn:Hl.
        * destruct (negb (p_alloc p)) eqn:Hal; injection H as <-.
          -- eapply ST_enter_dfree; eauto. now destruct (p_alloc p).
          -- eapply ST_enter; eauto. now destruct (p_alloc p).
        * destruct (dv_cancel_noblock v) eqn:Hnb; injection H as <-.
          -- now apply ST_enter_gone with (u := u).
          -- now apply ST_enter_gone_fault.
      + destruct (acquire (delayM s) Timer) as [dl|] eqn:Hacq; [|discriminate].
        injection H as <-. now apply ST_unlocked.
      + injection H as <-. now apply ST_ready.
      + destruct (negb (available (queueM s) Timer)) eqn:Hav; [discriminate|].
        apply negb_false_true in Hav. injection H as <-. now apply ST_delivered with (u := u).
    - injection H as <-. apply S_clock.
  Qed.
End Rel.

(* ------------------------------------------------------------------------------------------ *)
(* observations *)

Fixpoint sent_uuids (tr : list obs) : list N :=
  match tr with
  | [] => []
  | ESend u _ _ _ _ :: r => u :: sent_uuids r
  | _ :: r => sent_uuids r
  end.

Definition tpc_on (t : tpc_t) : option N :=
  match t with TIdle => None | TCbEnter u | TCbUnlocked u | TReadyLocked u | TDelivered u => Some u end.
Definition tpc_pre (t : tpc_t) : option N :=
  match t with TCbEnter u | TCbUnlocked u | TReadyLocked u => Some u | _ => None end.

Fixpoint last_expire (tr : list obs) : option (N * N) :=
  match tr with
  | [] => None
  | EExpire u d :: _ => Some (u, d)
  | _ :: r => last_expire r
  end.

Lemma sent_in tr u sid tgt enq d : In (ESend u sid tgt enq d) tr -> In u (sent_uuids tr).
Proof.
  induction tr as [|o tr IH]; cbn; [easy|].
  intros [->|H]; [now left|]. destruct o; cbn; auto.
Qed.

Lemma sent_uuids_in tr u : In u (sent_uuids tr) -> exists sid tgt enq d, In (ESend u sid tgt enq d) tr.
Proof.
  induction tr as [|o tr IH]; cbn; [easy|].
  destruct o as [u' sid tgt enq d| | |]; cbn.
  - intros [->|H]; [now exists sid, tgt, enq, d; left|].
    destruct (IH H) as (a & b & c & e & He). exists a, b, c, e. now right.
  - intros H. destruct (IH H) as (a & b & c & e & He). exists a, b, c, e. now right.
  - intros H. destruct (IH H) as (a & b & c & e & He). exists a, b, c, e. now right.
  - intros H. destruct (IH H) as (a & b & c & e & He). exists a, b, c, e. now right.
Qed.

Lemma delivered_in tr u t g b : In (EDeliver u t g b) tr -> In u (delivered tr).
Proof.
  induction tr as [|o tr IH]; cbn; [easy|].
  intros [->|H]; [now left|]. destruct o; cbn; auto.
Qed.

Lemma in_delivered tr u : In u (delivered tr) -> exists t g b, In (EDeliver u t g b) tr.
Proof.
  induction tr as [|o tr IH]; cbn; [easy|].
  destruct o as [| |u' t g b|]; cbn.
  - intros H. destruct (IH H) as (a & c & e & He). exists a, c, e. now right.
  - intros H. destruct (IH H) as (a & c & e & He). exists a, c, e. now right.
  - intros [->|H]; [now exists t, g, b; left|].
    destruct (IH H) as (a & c & e & He). exists a, c, e. now right.
  - intros H. destruct (IH H) as (a & c & e & He). exists a, c, e. now right.
Qed.

Lemma send_unique tr u a b c d a' b' c' d' :
  NoDup (sent_uuids tr) -> In (ESend u a b c d) tr -> In (ESend u a' b' c' d') tr ->
  a = a' /\ b = b' /\ c = c' /\ d = d'.
Proof.
  induction tr as [|o tr IH]; cbn; [easy|].
  intros Hnd [H1|H1] [H2|H2].
  - subst o. now inversion H2.
  - subst o. cbn in Hnd. inversion Hnd as [|? ? Hni ?]; subst. exfalso. apply Hni. eapply sent_in; eauto.
  - subst o. cbn in Hnd. inversion Hnd as [|? ? Hni ?]; subst. exfalso. apply Hni. eapply sent_in; eauto.
  - apply IH; auto. destruct o; cbn in Hnd; auto. now inversion Hnd.
Qed.

(* ------------------------------------------------------------------------------------------ *)
(* cancel_entry / cancel_all only take entries away *)

Definition submap (pd pd0 : list (N * pend)) : Prop :=
  forall k p, lookup pd k = Some p -> lookup pd0 k = Some p.

Lemma cancel_entry_done v cur pd0 u pd :
  cancel_entry v cur pd0 u = CDone pd ->
  (forall k, lookup pd k = if u =? k then None else lookup pd0 k) /\
  (NoDup (map fst pd0) -> NoDup (map fst pd)) /\
  (forall p, lookup pd0 u = Some p -> p_alloc p = true /\ (cur = Some u -> dv_cancel_noblock v = true)).
Proof.
  unfold cancel_entry. destruct (lookup pd0 u) as [p|] eqn:Hl.
  - destruct (negb (p_alloc p)) eqn:Hal; [discriminate|].
    assert (Ha : p_alloc p = true) by (now destruct (p_alloc p)).
    assert (Hrem : CDone (remove u pd0) = CDone pd ->
            (forall k, lookup pd k = if u =? k then None else lookup pd0 k) /\
            (NoDup (map fst pd0) -> NoDup (map fst pd))).
    { intros [= <-]. split; [intros k; apply lookup_remove | apply nodup_remove]. }
    assert (Hfin : forall (Q : Prop), Q -> CDone (remove u pd0) = CDone pd ->
            (forall k, lookup pd k = if u =? k then None else lookup pd0 k) /\
            (NoDup (map fst pd0) -> NoDup (map fst pd)) /\
            (forall p0, Some p = Some p0 -> p_alloc p0 = true /\ Q)).
    { intros Q HQ H. destruct (Hrem H) as [H1 H2]. split; [exact H1|]. split; [exact H2|].
      intros p0 [= <-]. split; [exact Ha | exact HQ]. }
    destruct cur as [c|].
    + destruct (c =? u) eqn:Hc.
      * apply N.eqb_eq in Hc; subst c.
        destruct (dv_cancel_noblock v) eqn:Hnb; [|discriminate].
        apply Hfin. intros _. reflexivity.
      * apply Hfin. intros [= ->]. now rewrite N.eqb_refl in Hc.
    + apply Hfin. discriminate.
  - intros [= <-]. split; [|split].
    + intros k. destruct (u =? k) eqn:E; [|reflexivity]. apply N.eqb_eq in E; now subst.
    + auto.
    + discriminate.
Qed.

Lemma cancel_entry_submap v cur pd0 u pd : cancel_entry v cur pd0 u = CDone pd -> submap pd pd0.
Proof.
  intros H k p. destruct (cancel_entry_done _ _ _ _ _ H) as [H1 _]. rewrite H1.
  now destruct (u =? k).
Qed.

Lemma cancel_all_done v cur keys : forall pd0 pd,
  cancel_all v cur keys pd0 = CDone pd ->
  submap pd pd0 /\ (NoDup (map fst pd0) -> NoDup (map fst pd)) /\
  (forall k, In k keys -> lookup pd k = None).
Proof.
  induction keys as [|u r IH]; cbn; intros pd0 pd.
  - intros [= <-]. repeat split; auto. intros k p H; exact H. intros k [].
  - destruct (cancel_entry v cur pd0 u) as [pd1| |f] eqn:Hce; try discriminate.
    intros H. destruct (IH _ _ H) as (Hs & Hn & Hk).
    destruct (cancel_entry_done _ _ _ _ _ Hce) as (H1 & H2 & _).
    repeat split.
    + intros k p Hl. apply Hs in Hl. rewrite H1 in Hl. now destruct (u =? k).
    + auto.
    + intros k [->|Hin]; [|now apply Hk].
      destruct (lookup pd k) as [p|] eqn:Hl; [|reflexivity].
      apply Hs in Hl. rewrite H1, N.eqb_refl in Hl. discriminate.
Qed.

(* ------------------------------------------------------------------------------------------ *)
(* the basic invariant: at most once, never early *)
Require Import Coq.Sorting.Permutation.

Record Inv1 (s : dstate) : Prop := {
  i_keys : NoDup (map fst (pending s));
  i_sends : NoDup (send_uuids (prog s) ++ sent_uuids (trace s));
  i_pend : forall u p, lookup (pending s) u = Some p ->
             exists sid tgt, In (ESend u sid tgt (p_enq p) (p_delay p)) (trace s);
  i_tgt : forall u sid tgt, lookup (targets s) u = Some (sid, tgt) ->
             exists enq d, In (ESend u sid tgt enq d) (trace s);
  i_cb : forall u, tpc_on (tpc s) = Some u ->
             (exists sid tgt enq d, In (ESend u sid tgt enq d) (trace s) /\ enq + d <= now s) /\
             (forall p, lookup (pending s) u = Some p -> p_armed p = false) /\
             (exists d, last_expire (trace s) = Some (u, d));
  i_pre : forall u, tpc_pre (tpc s) = Some u -> ~ In u (delivered (trace s));
  i_dlv_unarmed : forall u p, In u (delivered (trace s)) -> lookup (pending s) u = Some p -> p_armed p = false;
  i_dlv_nodup : NoDup (delivered (trace s));
  i_dlv : forall u t tgt b, In (EDeliver u t tgt b) (trace s) ->
             t <= now s /\ exists sid tgt' enq d, In (ESend u sid tgt' enq d) (trace s) /\ enq + d <= t;
  i_armed : forall u sid tgt, ipc s = ISendArmed u sid tgt -> exists enq d, In (ESend u sid tgt enq d) (trace s)
}.

Lemma tpc_pre_on t u : tpc_pre t = Some u -> tpc_on t = Some u.
Proof. destruct t; cbn; congruence. Qed.

(* a uuid about to be sent has not been sent *)
Lemma fresh_uuid s u sid tgt d rest :
  Inv1 s -> prog s = OSend u sid tgt d :: rest ->
  ~ In u (sent_uuids (trace s)) /\ NoDup (send_uuids rest ++ u :: sent_uuids (trace s)).
Proof.
  intros HI Hp. pose proof (i_sends _ HI) as Hnd. rewrite Hp in Hnd. cbn in Hnd.
  split.
  - inversion Hnd as [|? ? Hni _]; subst. intros H. apply Hni. apply in_or_app. now right.
  - eapply Permutation_NoDup; [|exact Hnd]. apply Permutation_middle.
Qed.

Lemma fresh_not_delivered s u : Inv1 s -> ~ In u (sent_uuids (trace s)) -> ~ In u (delivered (trace s)).
Proof.
  intros HI Hf Hd. apply in_delivered in Hd as (t & g & b & Hd).
  destruct (i_dlv _ HI _ _ _ _ Hd) as (_ & sid & tgt' & enq & d & Hs & _).
  apply Hf. eapply sent_in; eauto.
Qed.

Lemma fresh_not_pending s u p : Inv1 s -> ~ In u (sent_uuids (trace s)) -> lookup (pending s) u = Some p -> False.
Proof.
  intros HI Hf Hl. destruct (i_pend _ HI _ _ Hl) as (sid & tgt & Hs). apply Hf. eapply sent_in; eauto.
Qed.

Lemma fresh_not_cb s u : Inv1 s -> ~ In u (sent_uuids (trace s)) -> tpc_on (tpc s) = Some u -> False.
Proof.
  intros HI Hf Hc. destruct (i_cb _ HI _ Hc) as ((sid & tgt & enq & d & Hs & _) & _).
  apply Hf. eapply sent_in; eauto.
Qed.

Section Preserve1.
  Variable v : dvariant.
  Variable pick : list (N * N) -> N -> option N.
  (* libevent: the callback that runs next belongs to a timer that is due *)
  Definition pick_sound : Prop :=
    forall l t u, pick l t = Some u ->
      exists d, In (u, d) l /\ d <= t /\ forall u' d', In (u', d') l -> d' <= t -> d <= d'.
  Hypothesis Hpick : pick_sound.

  Lemma armed_list_in pd u d :
    In (u, d) (armed_list pd) <-> exists p, In (u, p) pd /\ p_armed p = true /\ d = p_due p.
  Proof.
    unfold armed_list. rewrite in_map_iff. split.
    - intros [[k p] [Heq Hin]]. apply filter_In in Hin as [Hin Ha]. cbn in *.
      inversion Heq; subst. now exists p.
    - intros (p & Hin & Ha & ->). exists (u, p). split; [reflexivity|].
      apply filter_In. now split.
  Qed.

  Ltac wk := repeat match goal with
    | H : exists _, _ |- _ => destruct H
    | H : _ /\ _ |- _ => destruct H
    end; cbn; eauto 12 using in_cons, in_eq.

  Lemma Inv1_step s s' : step_rel v pick s s' -> Inv1 s -> Inv1 s'.
  Proof.
    intros Hs HI. destruct Hs.
    - (* send, delay 0 *)
      destruct (fresh_uuid _ _ _ _ _ _ HI H0) as [Hf Hnd].
      constructor; cbn.
      + apply (i_keys _ HI).
      + exact Hnd.
      + intros u0 p Hl. destruct (i_pend _ HI _ _ Hl) as (a & b & Hin). wk.
      + intros u0 sid0 tgt0 Hl. rewrite lookup_remove in Hl. destruct (u =? u0); [discriminate|].
        destruct (i_tgt _ HI _ _ _ Hl) as (a & b & Hin). wk.
      + intros u0 Hc. destruct (i_cb _ HI _ Hc) as (H2 & H3 & H4). repeat split; auto. wk.
      + intros u0 Hc [->|Hd].
        * apply (fresh_not_cb _ _ HI Hf). now apply tpc_pre_on.
        * now apply (i_pre _ HI _ Hc).
      + intros u0 p [<-|Hd] Hl.
        * exfalso. eapply fresh_not_pending; eauto.
        * eapply i_dlv_unarmed; eauto.
      + constructor; [now apply fresh_not_delivered | apply (i_dlv_nodup _ HI)].
      + intros u0 t tgt0 b [Heq|[Heq|Hin]].
        * inversion Heq; subst. split; [lia|]. exists sid, tgt0, (now s), 0. split; [right; now left | lia].
        * discriminate.
        * destruct (i_dlv _ HI _ _ _ _ Hin) as (Ht & a & b0 & c & e & Hin' & Hle). split; [exact Ht|].
          exists a, b0, c, e. split; [right; right; exact Hin' | exact Hle].
      + discriminate.
    - (* send with a delay *)
      destruct (fresh_uuid _ _ _ _ _ _ HI H0) as [Hf Hnd].
      destruct (cancel_entry_done _ _ _ _ _ H4) as (Hlk & Hk & _).
      constructor; cbn.
      + apply nodup_put. apply Hk. apply (i_keys _ HI).
      + exact Hnd.
      + intros u0 p Hl. rewrite lookup_put in Hl. destruct (u =? u0) eqn:E.
        * apply N.eqb_eq in E; subst u0. injection Hl as <-. cbn. exists sid, tgt. now left.
        * rewrite Hlk, E in Hl. destruct (i_pend _ HI _ _ Hl) as (a & b & Hin). wk.
      + intros u0 sid0 tgt0 Hl. destruct (dv_enqueue_arms_first v).
        * destruct (i_tgt _ HI _ _ _ Hl) as (a & b & Hin). wk.
        * rewrite lookup_put in Hl. destruct (u =? u0) eqn:E.
          -- apply N.eqb_eq in E; subst u0. injection Hl as <- <-. exists (now s), d. now left.
          -- destruct (i_tgt _ HI _ _ _ Hl) as (a & b & Hin). wk.
      + intros u0 Hc. destruct (i_cb _ HI _ Hc) as (H5 & H6 & H7). split; [wk|]. split; [|wk].
        intros p Hl. rewrite lookup_put in Hl. destruct (u =? u0) eqn:E.
        * apply N.eqb_eq in E; subst u0. exfalso. eapply fresh_not_cb; eauto.
        * rewrite Hlk, E in Hl. auto.
      + intros u0 Hc. now apply (i_pre _ HI _ Hc).
      + intros u0 p Hd Hl. rewrite lookup_put in Hl. destruct (u =? u0) eqn:E.
        * apply N.eqb_eq in E; subst u0. exfalso. now apply (fresh_not_delivered _ _ HI Hf).
        * rewrite Hlk, E in Hl. eapply i_dlv_unarmed; eauto.
      + apply (i_dlv_nodup _ HI).
      + intros u0 t tgt0 b [Heq|Hin]; [discriminate|].
        destruct (i_dlv _ HI _ _ _ _ Hin) as (Ht & a & b0 & c & e & Hin' & Hle). split; [exact Ht|].
        exists a, b0, c, e. split; [right; exact Hin' | exact Hle].
      + intros u0 sid0 tgt0 [= <- <- <-]. exists (now s), d. now left.
    - (* enqueue returns *)
      destruct HI; constructor; cbn; try assumption. discriminate.
    - (* enqueue records the target after arming *)
      constructor; cbn; try apply HI; [|discriminate].
      intros u0 sid0 tgt0 Hl. rewrite lookup_put in Hl. destruct (u =? u0) eqn:E.
      + apply N.eqb_eq in E; subst u0. injection Hl as <- <-. apply (i_armed _ HI _ _ _ H).
      + apply (i_tgt _ HI _ _ _ Hl).
    - (* fault *) destruct HI; constructor; cbn; assumption.
    - (* cancel, nothing to do *)
      assert (Hp : send_uuids (prog s) = send_uuids rest) by (now rewrite H0).
      constructor; cbn.
      + apply (i_keys _ HI).
      + rewrite <- Hp. apply (i_sends _ HI).
      + intros u0 p Hl. destruct (i_pend _ HI _ _ Hl) as (a & b & Hin). wk.
      + intros u0 sid0 tgt0 Hl. destruct (i_tgt _ HI _ _ _ Hl) as (a & b & Hin). wk.
      + intros u0 Hc. destruct (i_cb _ HI _ Hc) as (H3 & H4 & H5). repeat split; auto. wk.
      + apply (i_pre _ HI).
      + apply (i_dlv_unarmed _ HI).
      + apply (i_dlv_nodup _ HI).
      + intros u0 t tgt0 b [Heq|Hin]; [discriminate|].
        destruct (i_dlv _ HI _ _ _ _ Hin) as (Ht & a & b0 & c & e & Hin' & Hle). split; [exact Ht|].
        exists a, b0, c, e. split; [right; exact Hin' | exact Hle].
      + discriminate.
    - (* cancel starts *)
      assert (Hp : send_uuids (prog s) = send_uuids rest) by (now rewrite H0).
      destruct HI; constructor; cbn; try assumption; try discriminate. now rewrite <- Hp.
    - (* cancelAll takes the lock *)
      assert (Hp : send_uuids (prog s) = send_uuids rest) by (now rewrite H0).
      destruct HI; constructor; cbn; try assumption; try discriminate. now rewrite <- Hp.
    - (* cancelAll done *)
      destruct (cancel_all_done _ _ _ _ _ H0) as (Hsub & Hk & _).
      constructor; cbn.
      + apply Hk, (i_keys _ HI).
      + apply (i_sends _ HI).
      + intros u0 p Hl. apply Hsub in Hl. apply (i_pend _ HI _ _ Hl).
      + apply (i_tgt _ HI).
      + intros u0 Hc. destruct (i_cb _ HI _ Hc) as (H3 & H4 & H5). repeat split; auto.
      + apply (i_pre _ HI).
      + intros u0 p Hd Hl. apply Hsub in Hl. eapply i_dlv_unarmed; eauto.
      + apply (i_dlv_nodup _ HI).
      + apply (i_dlv _ HI).
      + discriminate.
    - destruct HI; constructor; cbn; assumption.
    - destruct HI; constructor; cbn; try assumption. discriminate.
    - (* last cancel step *)
      pose proof (cancel_entry_submap _ _ _ _ _ H0) as Hsub.
      destruct (cancel_entry_done _ _ _ _ _ H0) as (_ & Hk & _).
      constructor; cbn.
      + apply Hk, (i_keys _ HI).
      + apply (i_sends _ HI).
      + intros u0 p Hl. apply Hsub in Hl. destruct (i_pend _ HI _ _ Hl) as (a & b & Hin). wk.
      + intros u0 sid0 tgt0 Hl. rewrite lookup_remove in Hl. destruct (u =? u0); [discriminate|].
        destruct (i_tgt _ HI _ _ _ Hl) as (a & b & Hin). wk.
      + intros u0 Hc. destruct (i_cb _ HI _ Hc) as (H3 & H4 & H5). repeat split; auto. wk.
      + apply (i_pre _ HI).
      + intros u0 p Hd Hl. apply Hsub in Hl. eapply i_dlv_unarmed; eauto.
      + apply (i_dlv_nodup _ HI).
      + intros u0 t tgt0 b [Heq|Hin]; [discriminate|].
        destruct (i_dlv _ HI _ _ _ _ Hin) as (Ht & a & b0 & c & e & Hin' & Hle). split; [exact Ht|].
        exists a, b0, c, e. split; [right; exact Hin' | exact Hle].
      + discriminate.
    - (* cancel step, more to do *)
      pose proof (cancel_entry_submap _ _ _ _ _ H0) as Hsub.
      destruct (cancel_entry_done _ _ _ _ _ H0) as (_ & Hk & _).
      constructor; cbn.
      + apply Hk, (i_keys _ HI).
      + apply (i_sends _ HI).
      + intros u0 p Hl. apply Hsub in Hl. apply (i_pend _ HI _ _ Hl).
      + intros u0 sid0 tgt0 Hl. rewrite lookup_remove in Hl. destruct (u =? u0); [discriminate|].
        apply (i_tgt _ HI _ _ _ Hl).
      + intros u0 Hc. destruct (i_cb _ HI _ Hc) as (H3 & H4 & H5). repeat split; auto.
      + apply (i_pre _ HI).
      + intros u0 p Hd Hl. apply Hsub in Hl. eapply i_dlv_unarmed; eauto.
      + apply (i_dlv_nodup _ HI).
      + apply (i_dlv _ HI).
      + discriminate.
    - destruct HI; constructor; cbn; assumption.
    - (* expire *)
      destruct (Hpick _ _ _ H0) as (d & Hin & Hle & _).
      apply armed_list_in in Hin as (p' & Hin & Harm & ->).
      pose proof (In_lookup _ _ _ (i_keys _ HI) Hin) as Hl'. rewrite H1 in Hl'. injection Hl' as <-.
      destruct (i_pend _ HI _ _ H1) as (sid & tgt & Hsent).
      constructor; cbn.
      + rewrite keys_upd. apply (i_keys _ HI).
      + apply (i_sends _ HI).
      + intros u0 p0 Hl. rewrite lookup_upd in Hl. destruct (u =? u0) eqn:E.
        * destruct (lookup (pending s) u0) as [q|] eqn:Hq; [|discriminate]. cbn in Hl. injection Hl as <-.
          destruct (i_pend _ HI _ _ Hq) as (a & b & Hi). cbn. wk.
        * destruct (i_pend _ HI _ _ Hl) as (a & b & Hi). wk.
      + intros u0 sid0 tgt0 Hl. destruct (i_tgt _ HI _ _ _ Hl) as (a & b & Hi). wk.
      + intros u0 [= <-]. split; [|split].
        * exists sid, tgt, (p_enq p), (p_delay p). split; [now right | exact Hle].
        * intros p0 Hl. rewrite lookup_upd, N.eqb_refl, H1 in Hl. cbn in Hl. now injection Hl as <-.
        * now exists (p_due p).
      + intros u0 [= <-] Hd. pose proof (i_dlv_unarmed _ HI _ _ Hd H1). congruence.
      + intros u0 p0 Hd Hl. rewrite lookup_upd in Hl. destruct (u =? u0) eqn:E.
        * destruct (lookup (pending s) u0) as [q|] eqn:Hq; [|discriminate]. cbn in Hl. now injection Hl as <-.
        * eapply i_dlv_unarmed; eauto.
      + apply (i_dlv_nodup _ HI).
      + intros u0 t tgt0 b [Heq|Hi]; [discriminate|].
        destruct (i_dlv _ HI _ _ _ _ Hi) as (Ht & a & b0 & c & e & Hin' & Hle'). split; [exact Ht|].
        exists a, b0, c, e. split; [right; exact Hin' | exact Hle'].
      + intros u0 sid0 tgt0 Hi. destruct (i_armed _ HI _ _ _ Hi) as (a & b & Hin'). wk.
    - (* callback finds nothing and returns *)
      constructor; cbn; try apply HI. discriminate. discriminate.
    - destruct HI; constructor; cbn; assumption.
    - destruct HI; constructor; cbn; assumption.
    - (* section 1 *)
      assert (Hsub : forall k q, lookup (if dv_cb_takes_entry v then remove u (pending s) else upd u dealloc (pending s)) k = Some q ->
                exists q0, lookup (pending s) k = Some q0 /\ p_enq q = p_enq q0 /\ p_delay q = p_delay q0 /\ p_armed q = p_armed q0).
      { intros k q. destruct (dv_cb_takes_entry v).
        - rewrite lookup_remove. destruct (u =? k); [discriminate|]. intros Hl. now exists q.
        - rewrite lookup_upd. destruct (u =? k).
          + destruct (lookup (pending s) k) as [q0|]; [|discriminate]. cbn. intros [= <-]. now exists q0.
          + intros Hl. now exists q. }
      constructor; cbn.
      + destruct (dv_cb_takes_entry v); [apply nodup_remove | rewrite keys_upd]; apply (i_keys _ HI).
      + apply (i_sends _ HI).
      + intros u0 q Hl. destruct (Hsub _ _ Hl) as (q0 & Hq0 & -> & -> & _). apply (i_pend _ HI _ _ Hq0).
      + apply (i_tgt _ HI).
      + intros u0 [= <-]. destruct (i_cb _ HI u) as (H3 & H4 & H5); [now rewrite H|].
        repeat split; auto. intros q Hl. destruct (Hsub _ _ Hl) as (q0 & Hq0 & _ & _ & ->). auto.
      + intros u0 [= <-]. apply (i_pre _ HI). now rewrite H.
      + intros u0 q Hd Hl. destruct (Hsub _ _ Hl) as (q0 & Hq0 & _ & _ & ->). eapply i_dlv_unarmed; eauto.
      + apply (i_dlv_nodup _ HI).
      + apply (i_dlv _ HI).
      + apply (i_armed _ HI).
    - (* eventReady takes the lock *)
      constructor; cbn; try apply HI.
      + intros u0 [= <-]. apply (i_cb _ HI). now rewrite H.
      + intros u0 [= <-]. apply (i_pre _ HI). now rewrite H.
    - (* delivery *)
      destruct (i_cb _ HI u) as ((sid & tgt & enq & d & Hsent & Hdue) & Hun & Hlast); [now rewrite H|].
      assert (Hnd : ~ In u (delivered (trace s))) by (apply (i_pre _ HI); now rewrite H).
      assert (Htr : ready_trace v s u = trace s \/ exists tgt0, ready_trace v s u = EDeliver u (now s) tgt0 true :: trace s).
      { unfold ready_trace. destruct (lookup (targets s) u) as [[a b]|]; [right; now exists b|].
        destruct (dv_ready_checks v); [now left | right; now exists 0]. }
      constructor; cbn.
      + apply (i_keys _ HI).
      + destruct Htr as [->|[tgt0 ->]]; cbn; apply (i_sends _ HI).
      + intros u0 p Hl. destruct (i_pend _ HI _ _ Hl) as (a & b & Hi).
        destruct Htr as [->|[tgt0 ->]]; wk.
      + intros u0 sid0 tgt0 Hl. rewrite lookup_remove in Hl. destruct (u =? u0); [discriminate|].
        destruct (i_tgt _ HI _ _ _ Hl) as (a & b & Hi). destruct Htr as [->|[tgt1 ->]]; wk.
      + intros u0 [= <-]. split; [|split]; auto.
        * exists sid, tgt, enq, d. split; [|exact Hdue]. destruct Htr as [->|[tgt1 ->]]; wk.
        * destruct Hlast as [d0 Hlast]. exists d0. destruct Htr as [->|[tgt1 ->]]; cbn; auto.
      + discriminate.
      + intros u0 p Hd Hl. destruct Htr as [Htr|[tgt0 Htr]]; rewrite Htr in Hd; cbn in Hd.
        * eapply i_dlv_unarmed; eauto.
        * destruct Hd as [<-|Hd]; [auto | eapply i_dlv_unarmed; eauto].
      + destruct Htr as [->|[tgt0 ->]]; cbn; [apply (i_dlv_nodup _ HI)|].
        constructor; [exact Hnd | apply (i_dlv_nodup _ HI)].
      + intros u0 t tgt0 b Hi. destruct Htr as [Htr|[tgt1 Htr]]; rewrite Htr in *; cbn in Hi.
        * apply (i_dlv _ HI _ _ _ _ Hi).
        * destruct Hi as [Heq|Hi].
          -- inversion Heq; subst. split; [lia|]. exists sid, tgt, enq, d. split; [now right | exact Hdue].
          -- destruct (i_dlv _ HI _ _ _ _ Hi) as (Ht & a & b0 & c & e & Hin' & Hle'). split; [exact Ht|].
             exists a, b0, c, e. split; [right; exact Hin' | exact Hle'].
      + intros u0 sid0 tgt0 Hi. destruct (i_armed _ HI _ _ _ Hi) as (a & b & Hin').
        destruct Htr as [->|[tgt1 ->]]; wk.
    - (* section 3 *)
      assert (Hsub : submap (if dv_cb_takes_entry v then pending s else remove u (pending s)) (pending s)).
      { intros k q. destruct (dv_cb_takes_entry v); [auto|]. rewrite lookup_remove. now destruct (u =? k). }
      constructor; cbn; try apply HI.
      + destruct (dv_cb_takes_entry v); [|apply nodup_remove]; apply (i_keys _ HI).
      + intros u0 q Hl. apply Hsub in Hl. apply (i_pend _ HI _ _ Hl).
      + discriminate.
      + discriminate.
      + intros u0 q Hd Hl. apply Hsub in Hl. eapply i_dlv_unarmed; eauto.
    - (* clock *)
      constructor; cbn; try apply HI.
      + intros u0 Hc. destruct (i_cb _ HI _ Hc) as ((a & b & c & e & Hi & Hle) & H4 & H5).
        repeat split; auto. exists a, b, c, e. split; [exact Hi | lia].
      + intros u0 t tgt0 b Hi. destruct (i_dlv _ HI _ _ _ _ Hi) as (Ht & Hrest). split; [lia | exact Hrest].
  Qed.
End Preserve1.

(* ------------------------------------------------------------------------------------------ *)
(* due order *)

Fixpoint expire_dues (tr : list obs) : list N :=
  match tr with
  | [] => []
  | EExpire _ d :: r => d :: expire_dues r
  | _ :: r => expire_dues r
  end.

Fixpoint sorted_ge (l : list N) : Prop :=
  match l with
  | [] => True
  | d :: r => (forall d', In d' r -> d' <= d) /\ sorted_ge r
  end.

Lemma expire_dues_in tr d : In d (expire_dues tr) -> exists u, In (EExpire u d) tr.
Proof.
  induction tr as [|o tr IH]; cbn; [easy|].
  destruct o as [| u d0 | |]; cbn; try (intros H; destruct (IH H) as [u' Hu]; exists u'; now right).
  intros [->|H]; [exists u; now left|]. destruct (IH H) as [u' Hu]. exists u'. now right.
Qed.

Lemma expire_dues_app a b : expire_dues (a ++ b) = expire_dues a ++ expire_dues b.
Proof. induction a as [|o a IH]; cbn; [reflexivity|]. destruct o; cbn; now rewrite ?IH. Qed.

Lemma sorted_ge_app_r a b : sorted_ge (a ++ b) -> sorted_ge b.
Proof. induction a as [|x a IH]; cbn; [auto|]. intros [_ H]. auto. Qed.

Lemma last_expire_in l u d : last_expire l = Some (u, d) -> In (EExpire u d) l.
Proof.
  induction l as [|o l IH]; cbn; [discriminate|].
  destruct o; try (intros H; right; now apply IH). intros [= -> ->]. now left.
Qed.

Lemma last_expire_sorted la lb u1 x1 u2 x2 :
  sorted_ge (expire_dues (la ++ lb)) ->
  last_expire (la ++ lb) = Some (u2, x2) -> last_expire lb = Some (u1, x1) -> x1 <= x2.
Proof.
  induction la as [|o la IH]; cbn.
  - intros _ H1 H2. rewrite H1 in H2. injection H2 as -> ->. lia.
  - destruct o as [| u d | |]; cbn; auto.
    intros [Hall _] [= -> ->] H2. apply Hall. rewrite expire_dues_app. apply in_or_app. right.
    apply last_expire_in in H2. clear -H2.
    induction lb as [|o lb IH]; cbn in *; [easy|].
    destruct H2 as [->|H2]; [now left|]. destruct o; cbn; auto.
Qed.

Lemma cons_decomp (o : obs) tr l1 x l2 :
  o :: tr = l1 ++ x :: l2 -> (l1 = [] /\ o = x /\ tr = l2) \/ (exists l1', l1 = o :: l1' /\ tr = l1' ++ x :: l2).
Proof.
  destruct l1 as [|a l1]; cbn; intros H; inversion H; subst; [now left|]. right. now exists l1.
Qed.

Record InvOrd (s : dstate) : Prop := {
  o_sorted : sorted_ge (expire_dues (trace s));
  o_le_now : forall u d, In (EExpire u d) (trace s) -> d <= now s;
  o_armed : forall k p, lookup (pending s) k = Some p -> p_armed p = true ->
              forall u d, In (EExpire u d) (trace s) -> d <= p_due p;
  o_sent : forall u d, In (EExpire u d) (trace s) ->
              exists sid tgt enq dl, In (ESend u sid tgt enq dl) (trace s) /\ d = enq + dl;
  o_dlv : forall l1 u t tgt l2, trace s = l1 ++ EDeliver u t tgt true :: l2 ->
              exists d, last_expire l2 = Some (u, d)
}.

Section PreserveOrd.
  Variable v : dvariant.
  Variable pick : list (N * N) -> N -> option N.
  Hypothesis Hpick : pick_sound pick.

  (* a step that leaves the history, the clock and the armed timers alone *)
  Lemma InvOrd_frame s s' :
    InvOrd s -> trace s' = trace s -> now s <= now s' ->
    (forall k p, lookup (pending s') k = Some p -> p_armed p = true ->
       exists p0, lookup (pending s) k = Some p0 /\ p_armed p0 = true /\ p_due p0 = p_due p) ->
    InvOrd s'.
  Proof.
    intros HO Ht Hn Hp. constructor; rewrite ?Ht.
    - apply (o_sorted _ HO).
    - intros u d Hi. pose proof (o_le_now _ HO _ _ Hi). lia.
    - intros k p Hl Ha u d Hi. destruct (Hp _ _ Hl Ha) as (p0 & Hl0 & Ha0 & <-).
      eapply o_armed; eauto.
    - apply (o_sent _ HO).
    - apply (o_dlv _ HO).
  Qed.

  (* a step that adds one observation other than an expiry or a timer delivery *)
  Lemma InvOrd_obs s s' o :
    InvOrd s -> trace s' = o :: trace s -> now s' = now s ->
    (forall u d, o <> EExpire u d) -> (forall u t g, o <> EDeliver u t g true) ->
    (forall k p, lookup (pending s') k = Some p -> p_armed p = true ->
       (exists p0, lookup (pending s) k = Some p0 /\ p_armed p0 = true /\ p_due p0 = p_due p) \/ now s <= p_due p) ->
    InvOrd s'.
  Proof.
    intros HO Ht Hn Hne Hnd Hp.
    assert (Hin : forall u d, In (EExpire u d) (o :: trace s) -> In (EExpire u d) (trace s)).
    { intros u d [->|H]; [exfalso; eapply Hne; eauto | exact H]. }
    constructor; rewrite ?Ht, ?Hn.
    - pose proof (o_sorted _ HO). destruct o; cbn; auto. exfalso; eapply Hne; eauto.
    - intros u d Hi. apply Hin in Hi. apply (o_le_now _ HO _ _ Hi).
    - intros k p Hl Ha u d Hi. apply Hin in Hi. destruct (Hp _ _ Hl Ha) as [(p0 & Hl0 & Ha0 & <-)|Hge].
      + eapply o_armed; eauto.
      + pose proof (o_le_now _ HO _ _ Hi). lia.
    - intros u d Hi. apply Hin in Hi. destruct (o_sent _ HO _ _ Hi) as (a & b & c & e & Hs & He).
      exists a, b, c, e. split; [now right | exact He].
    - intros l1 u t tgt l2 Heq. apply cons_decomp in Heq as [(_ & He & _)|(l1' & _ & Heq)].
      + exfalso; eapply Hnd; eauto.
      + eapply o_dlv; eauto.
  Qed.

  Lemma InvOrd_step s s' : step_rel v pick s s' -> Inv1 s -> InvOrd s -> InvOrd s'.
  Proof.
    intros Hs HI HO. destruct Hs.
    - (* send 0: two observations *)
      apply InvOrd_obs with (s := mk (now s) rest IIdle (tpc s) (pending s) (remove u (targets s)) (current_cb s)
                                    (delayM s) (queueM s) (ESend u sid tgt (now s) 0 :: trace s))
                            (o := EDeliver u (now s) tgt false); cbn; try easy.
      + apply InvOrd_obs with (s := s) (o := ESend u sid tgt (now s) 0); cbn; try easy.
        intros k p Hl Ha. left. now exists p.
      + intros k p Hl Ha. left. now exists p.
    - (* send *)
      destruct (cancel_entry_done _ _ _ _ _ H4) as (Hlk & _ & _).
      apply InvOrd_obs with (s := s) (o := ESend u sid tgt (now s) d); cbn; try easy.
      intros k p Hl Ha. rewrite lookup_put in Hl. destruct (u =? k) eqn:E.
      + injection Hl as <-. right. unfold p_due; cbn. lia.
      + rewrite Hlk, E in Hl. left. now exists p.
    - apply InvOrd_frame with (s := s); cbn; auto; try lia. intros k q Hl Ha. now exists q.
    - apply InvOrd_frame with (s := s); cbn; auto; try lia. intros k q Hl Ha. now exists q.
    - apply InvOrd_frame with (s := s); cbn; auto; try lia. intros k q Hl Ha. now exists q.
    - apply InvOrd_obs with (s := s) (o := ECancelDone sid (now s)); cbn; try easy.
      intros k p Hl Ha. left. now exists p.
    - apply InvOrd_frame with (s := s); cbn; auto; try lia. intros k q Hl Ha. now exists q.
    - apply InvOrd_frame with (s := s); cbn; auto; try lia. intros k q Hl Ha. now exists q.
    - destruct (cancel_all_done _ _ _ _ _ H0) as (Hsub & _ & _).
      apply InvOrd_frame with (s := s); cbn; auto; try lia. intros k p Hl Ha. apply Hsub in Hl. now exists p.
    - apply InvOrd_frame with (s := s); cbn; auto; try lia. intros k q Hl Ha. now exists q.
    - apply InvOrd_frame with (s := s); cbn; auto; try lia. intros k q Hl Ha. now exists q.
    - pose proof (cancel_entry_submap _ _ _ _ _ H0) as Hsub.
      apply InvOrd_obs with (s := s) (o := ECancelDone sid (now s)); cbn; try easy.
      intros k p Hl Ha. apply Hsub in Hl. left. now exists p.
    - pose proof (cancel_entry_submap _ _ _ _ _ H0) as Hsub.
      apply InvOrd_frame with (s := s); cbn; auto; try lia. intros k p Hl Ha. apply Hsub in Hl. now exists p.
    - apply InvOrd_frame with (s := s); cbn; auto; try lia. intros k q Hl Ha. now exists q.
    - (* expire *)
      destruct (Hpick _ _ _ H0) as (d & Hin & Hle & Hmin).
      apply armed_list_in in Hin as (p' & Hin & Harm & ->).
      pose proof (In_lookup _ _ _ (i_keys _ HI) Hin) as Hl'. rewrite H1 in Hl'. injection Hl' as <-.
      destruct (i_pend _ HI _ _ H1) as (sid & tgt & Hsent).
      assert (Hhead : forall d', In d' (expire_dues (trace s)) -> d' <= p_due p).
      { intros d' Hd'. apply expire_dues_in in Hd' as [u' Hu']. eapply o_armed; eauto. }
      constructor; cbn.
      + split; [exact Hhead | apply (o_sorted _ HO)].
      + intros u0 d0 [Heq|Hi]; [inversion Heq; subst; exact Hle | apply (o_le_now _ HO _ _ Hi)].
      + intros k q Hl Ha u0 d0 Hi. rewrite lookup_upd in Hl. destruct (u =? k) eqn:E.
        * destruct (lookup (pending s) k); [|discriminate]. cbn in Hl. injection Hl as <-. discriminate.
        * destruct Hi as [Heq|Hi]; [|eapply o_armed; eauto].
          inversion Heq; subst u0 d0.
          destruct (N.le_gt_cases (p_due q) (now s)) as [Hq|Hq]; [|lia].
          apply (Hmin k (p_due q)); [|exact Hq].
          apply armed_list_in. exists q. split; [now apply lookup_In | auto].
      + intros u0 d0 [Heq|Hi].
        * inversion Heq; subst. exists sid, tgt, (p_enq p), (p_delay p). split; [now right | reflexivity].
        * destruct (o_sent _ HO _ _ Hi) as (a & b & c & e & Hs & He). exists a, b, c, e. split; [now right | exact He].
      + intros l1 u0 t tgt0 l2 Heq. apply cons_decomp in Heq as [(_ & He & _)|(l1' & _ & Heq)]; [discriminate|].
        eapply o_dlv; eauto.
    - apply InvOrd_frame with (s := s); cbn; auto; try lia. intros k q Hl Ha. now exists q.
    - apply InvOrd_frame with (s := s); cbn; auto; try lia. intros k q Hl Ha. now exists q.
    - apply InvOrd_frame with (s := s); cbn; auto; try lia. intros k q Hl Ha. now exists q.
    - (* section 1 *)
      apply InvOrd_frame with (s := s); cbn; auto; try lia. intros k q Hl Ha.
      destruct (dv_cb_takes_entry v).
      + rewrite lookup_remove in Hl. destruct (u =? k); [discriminate|]. now exists q.
      + rewrite lookup_upd in Hl. destruct (u =? k); [|now exists q].
        destruct (lookup (pending s) k) as [q0|] eqn:Hq; [|discriminate]. cbn in Hl. injection Hl as <-.
        exists q0. auto.
    - apply InvOrd_frame with (s := s); cbn; auto; try lia. intros k q Hl Ha. now exists q.
    - (* delivery *)
      destruct (i_cb _ HI u) as (_ & _ & Hlast); [now rewrite H|].
      unfold ready_trace.
      assert (Hsame : InvOrd (mk (now s) (prog s) (ipc s) (TDelivered u) (pending s) (remove u (targets s))
                               (current_cb s) (release (delayM s)) (queueM s) (trace s))).
      { apply InvOrd_frame with (s := s); cbn; auto; try lia. intros k q Hl Ha. now exists q. }
      assert (Hdl : forall g, InvOrd (mk (now s) (prog s) (ipc s) (TDelivered u) (pending s) (remove u (targets s))
                               (current_cb s) (release (delayM s)) (queueM s) (EDeliver u (now s) g true :: trace s))).
      { intros g. constructor; cbn.
        - apply (o_sorted _ HO).
        - intros u0 d0 [Heq|Hi]; [discriminate | apply (o_le_now _ HO _ _ Hi)].
        - intros k p Hl Ha u0 d0 [Heq|Hi]; [discriminate | eapply o_armed; eauto].
        - intros u0 d0 [Heq|Hi]; [discriminate|].
          destruct (o_sent _ HO _ _ Hi) as (a & b & c & e & Hs & He). exists a, b, c, e. split; [now right | exact He].
        - intros l1 u0 t tgt0 l2 Heq. apply cons_decomp in Heq as [(_ & He & <-)|(l1' & _ & Heq)].
          + inversion He; subst. exact Hlast.
          + eapply o_dlv; eauto. }
      destruct (lookup (targets s) u) as [[a b]|]; [apply Hdl|].
      destruct (dv_ready_checks v); [exact Hsame | apply Hdl].
    - (* section 3 *)
      apply InvOrd_frame with (s := s); cbn; auto; try lia. intros k q Hl Ha.
      destruct (dv_cb_takes_entry v); [now exists q|].
      rewrite lookup_remove in Hl. destruct (u =? k); [discriminate|]. now exists q.
    - apply InvOrd_frame with (s := s); cbn; auto; try lia. intros k q Hl Ha. now exists q.
  Qed.
End PreserveOrd.

(* ------------------------------------------------------------------------------------------ *)
(* a cancel that returns before the due time *)

Definition dead (s : dstate) (u : N) : Prop :=
  lookup (pending s) u = None /\ tpc_on (tpc s) <> Some u /\ ~ In u (delivered (trace s)).

Definition cancel_todo (i : ipc_t) : option (N * list N) :=
  match i with
  | IQBefore sid u todo | IQLocked sid u todo => Some (sid, u :: todo)
  | _ => None
  end.

(* the (sendid, target) entry of u is recorded -- or, in the deviating variant, about to be *)
Definition has_target (v : dvariant) (s : dstate) (u sid : N) : Prop :=
  (exists x, lookup (targets s) u = Some x) \/
  (dv_enqueue_arms_first v = true /\ exists tgt, ipc s = ISendArmed u sid tgt).

Record InvCan (v : dvariant) (s : dstate) : Prop := {
  c_K : forall u sid tgt enq d, In (ESend u sid tgt enq d) (trace s) ->
          has_target v s u sid \/ enq + d <= now s \/ dead s u;
  c_M : forall sid l, cancel_todo (ipc s) = Some (sid, l) ->
          forall u tgt enq d, In (ESend u sid tgt enq d) (trace s) ->
            In u l \/ enq + d <= now s \/ dead s u;
  c_L : forall l1 sid tc l2, trace s = l1 ++ ECancelDone sid tc :: l2 ->
          forall u tgt enq d, In (ESend u sid tgt enq d) l2 -> tc < enq + d -> dead s u
}.

Lemma nodup_app_r {A} (a b : list A) : NoDup (a ++ b) -> NoDup b.
Proof. induction a as [|x a IH]; cbn; [auto|]. intros H. inversion H; auto. Qed.

Lemma sent_nodup s : Inv1 s -> NoDup (sent_uuids (trace s)).
Proof. intros HI. pose proof (i_sends _ HI) as H. now apply nodup_app_r in H. Qed.

Lemma sid_keys_in tg u sid tgt : lookup tg u = Some (sid, tgt) -> In u (sid_keys sid tg).
Proof.
  intros H. apply lookup_In in H. unfold sid_keys. apply in_map_iff. exists (u, (sid, tgt)).
  split; [reflexivity|]. apply filter_In. split; [exact H|]. cbn. apply N.eqb_refl.
Qed.

Lemma tpc_on_dec t u : {tpc_on t = Some u} + {tpc_on t <> Some u}.
Proof.
  destruct (tpc_on t) as [x|]; [|right; discriminate].
  destruct (N.eq_dec x u) as [->|Hne]; [now left | right; congruence].
Qed.

(* once the entry of u is gone: either u was already due, or nothing can deliver it any more *)
Lemma after_removal s u sid tgt enq d :
  Inv1 s -> In (ESend u sid tgt enq d) (trace s) ->
  enq + d <= now s \/ (tpc_on (tpc s) <> Some u /\ ~ In u (delivered (trace s))).
Proof.
  intros HI Hs. destruct (tpc_on_dec (tpc s) u) as [Hc|Hc].
  - left. destruct (i_cb _ HI _ Hc) as ((a & b & c & e & Hs' & Hle) & _).
    destruct (send_unique _ _ _ _ _ _ _ _ _ _ (sent_nodup _ HI) Hs Hs') as (_ & _ & -> & ->). exact Hle.
  - destruct (in_dec N.eq_dec u (delivered (trace s))) as [Hd|Hd]; [|right; now split].
    left. apply in_delivered in Hd as (t & g & b & Hd).
    destruct (i_dlv _ HI _ _ _ _ Hd) as (Ht & a & b0 & c & e & Hs' & Hle).
    destruct (send_unique _ _ _ _ _ _ _ _ _ _ (sent_nodup _ HI) Hs Hs') as (_ & _ & -> & ->). lia.
Qed.

Section PreserveCan.
  Variable v : dvariant.
  Variable pick : list (N * N) -> N -> option N.

  Lemma dead_step s s' u :
    step_rel v pick s s' -> Inv1 s -> In u (sent_uuids (trace s)) -> dead s u -> dead s' u.
  Proof.
    intros Hs HI Hsent (Hp & Hc & Hd). destruct Hs; unfold dead; cbn.
    - destruct (fresh_uuid _ _ _ _ _ _ HI H0) as [Hf _].
      repeat split; auto. intros [<-|Hx]; auto.
    - destruct (fresh_uuid _ _ _ _ _ _ HI H0) as [Hf _].
      destruct (cancel_entry_done _ _ _ _ _ H4) as (Hlk & _ & _).
      repeat split; auto. rewrite lookup_put. destruct (u0 =? u) eqn:E.
      + apply N.eqb_eq in E; subst. contradiction.
      + rewrite Hlk, E. exact Hp.
    - repeat split; auto.
    - repeat split; auto.
    - repeat split; auto.
    - repeat split; auto.
    - repeat split; auto.
    - repeat split; auto.
    - destruct (cancel_all_done _ _ _ _ _ H0) as (Hsub & _ & _). repeat split; auto.
      destruct (lookup pd u) eqn:E; [|reflexivity]. apply Hsub in E. congruence.
    - repeat split; auto.
    - repeat split; auto.
    - pose proof (cancel_entry_submap _ _ _ _ _ H0) as Hsub. repeat split; auto.
      destruct (lookup pd u) eqn:E; [|reflexivity]. apply Hsub in E. congruence.
    - pose proof (cancel_entry_submap _ _ _ _ _ H0) as Hsub. repeat split; auto.
      destruct (lookup pd u) eqn:E; [|reflexivity]. apply Hsub in E. congruence.
    - repeat split; auto.
    - repeat split; auto.
      + rewrite lookup_upd. destruct (u0 =? u); [now rewrite Hp | exact Hp].
      + intros [= ->]. congruence.
    - repeat split; auto. discriminate.
    - repeat split; auto.
    - repeat split; auto.
    - repeat split; auto.
      + destruct (dv_cb_takes_entry v).
        * rewrite lookup_remove. now destruct (u0 =? u).
        * rewrite lookup_upd. destruct (u0 =? u); [now rewrite Hp | exact Hp].
      + intros [= ->]. apply Hc. now rewrite H.
    - repeat split; auto. intros [= ->]. apply Hc. now rewrite H.
    - repeat split; auto.
      + intros [= ->]. apply Hc. now rewrite H.
      + unfold ready_trace. assert (u0 <> u) by (intros ->; apply Hc; now rewrite H).
        destruct (lookup (targets s) u0) as [[a b]|]; cbn; [intros [?|?]; auto|].
        destruct (dv_ready_checks v); cbn; [auto | intros [?|?]; auto].
    - repeat split; auto; [|discriminate].
      destruct (dv_cb_takes_entry v); [exact Hp|]. rewrite lookup_remove. now destruct (u0 =? u).
    - repeat split; auto.
  Qed.

  (* observations a step adds are never sends of an already sent uuid, and the history only grows *)
  Lemma trace_grows s s' : step_rel v pick s s' -> exists l, trace s' = l ++ trace s.
  Proof.
    intros Hs. destruct Hs; cbn;
      try (now exists []); try (eexists [_]; reflexivity); try (eexists [_; _]; reflexivity).
    unfold ready_trace. destruct (lookup (targets s) u) as [[a b]|]; [eexists [_]; reflexivity|].
    destruct (dv_ready_checks v); [now exists [] | eexists [_]; reflexivity].
  Qed.

  Lemma now_grows s s' : step_rel v pick s s' -> now s <= now s'.
  Proof. intros Hs. destruct Hs; cbn; lia. Qed.

  Lemma sent_mono s s' u : step_rel v pick s s' -> In u (sent_uuids (trace s)) -> In u (sent_uuids (trace s')).
  Proof.
    intros Hs Hin. destruct (trace_grows _ _ Hs) as [l ->].
    apply sent_uuids_in in Hin as (a & b & c & e & Hin). eapply sent_in. apply in_or_app. right. exact Hin.
  Qed.
End PreserveCan.

Section PreserveCan2.
  Variable v : dvariant.
  Variable pick : list (N * N) -> N -> option N.

  Lemma new_send s s' u a b c e :
    step_rel v pick s s' -> In (ESend u a b c e) (trace s') ->
    In (ESend u a b c e) (trace s) \/
    (ipc s = IIdle /\ exists rest, prog s = OSend u a b e :: rest /\ c = now s).
  Proof.
    intros Hs Hin. destruct Hs; cbn in Hin; auto;
      try (destruct Hin as [Heq|Hin]; [discriminate | auto]; fail).
    - destruct Hin as [Heq|[Heq|Hin]]; [discriminate| |auto].
      inversion Heq; subst. right. split; [assumption|]. now exists rest.
    - destruct Hin as [Heq|Hin]; [|auto]. inversion Heq; subst. right. split; [assumption|]. now exists rest.
    - unfold ready_trace in Hin. destruct (lookup (targets s) u0) as [[x y]|].
      + destruct Hin as [Heq|Hin]; [discriminate | auto].
      + destruct (dv_ready_checks v); [auto|]. destruct Hin as [Heq|Hin]; [discriminate | auto].
  Qed.

  (* after the entry of u has been taken out of both maps *)
  Lemma removed_alt s s' u sid tgt enq d :
    Inv1 s -> In (ESend u sid tgt enq d) (trace s) ->
    lookup (pending s') u = None -> tpc s' = tpc s -> delivered (trace s') = delivered (trace s) ->
    enq + d <= now s \/ dead s' u.
  Proof.
    intros HI Hs Hp Ht Hd. destruct (after_removal _ _ _ _ _ _ HI Hs) as [Hle|[Hc Hnd]]; [now left|].
    right. unfold dead. rewrite Ht, Hd. auto.
  Qed.

  Lemma K_old s s' : step_rel v pick s s' -> Inv1 s -> InvCan v s ->
    forall u sid tgt enq d, In (ESend u sid tgt enq d) (trace s) ->
      has_target v s' u sid \/ enq + d <= now s' \/ dead s' u.
  Proof.
    intros Hs HI HC u sid tgt enq d Hin.
    pose proof (now_grows _ _ _ _ Hs) as Hnow.
    destruct (c_K _ _ HC _ _ _ _ _ Hin) as [[[x Hx]|[Haf [tg Hip]]]|[Hle|Hdead]].
    3: { right; left; lia. }
    3: { right; right. eapply dead_step; eauto. eapply sent_in; eauto. }
    2: { (* the send of u is between arming and recording *)
         left. destruct Hs; cbn in *; try congruence; try (right; split; [exact Haf | now exists tg]).
         rewrite H in Hip. injection Hip as <- <- <-. left. cbn. rewrite lookup_put, N.eqb_refl. eauto. }
    unfold has_target. destruct Hs; cbn in *; try (left; left; exists x; exact Hx).
    - (* send 0 removes the fresh uuid *)
      destruct (fresh_uuid _ _ _ _ _ _ HI H0) as [Hf _].
      left. left. exists x. rewrite lookup_remove. destruct (u0 =? u) eqn:E; [|exact Hx].
      apply N.eqb_eq in E; subst. exfalso. apply Hf. eapply sent_in; eauto.
    - left. left. destruct (dv_enqueue_arms_first v); [eauto|]. rewrite lookup_put. destruct (u0 =? u); eauto.
    - left. left. rewrite lookup_put. destruct (u0 =? u); eauto.
    - (* last cancel step *)
      destruct (cancel_entry_done _ _ _ _ _ H0) as (Hlk & _ & _).
      rewrite lookup_remove. destruct (u0 =? u) eqn:E; [|left; left; exists x; exact Hx].
      apply N.eqb_eq in E; subst u0. right.
      eapply removed_alt; eauto; cbn; auto. rewrite Hlk, N.eqb_refl. reflexivity.
    - destruct (cancel_entry_done _ _ _ _ _ H0) as (Hlk & _ & _).
      rewrite lookup_remove. destruct (u0 =? u) eqn:E; [|left; left; exists x; exact Hx].
      apply N.eqb_eq in E; subst u0. right.
      eapply removed_alt; eauto; cbn; auto. rewrite Hlk, N.eqb_refl. reflexivity.
    - (* delivery *)
      rewrite lookup_remove. destruct (u0 =? u) eqn:E; [|left; left; exists x; exact Hx].
      apply N.eqb_eq in E; subst u0. right. left.
      destruct (i_cb _ HI u) as ((a & b & c & e & Hs' & Hle) & _); [now rewrite H|].
      destruct (send_unique _ _ _ _ _ _ _ _ _ _ (sent_nodup _ HI) Hin Hs') as (_ & _ & -> & ->). exact Hle.
  Qed.

  Lemma L_old s s' : step_rel v pick s s' -> Inv1 s -> InvCan v s ->
    forall l1 sid tc l2, trace s = l1 ++ ECancelDone sid tc :: l2 ->
      forall u tgt enq d, In (ESend u sid tgt enq d) l2 -> tc < enq + d -> dead s' u.
  Proof.
    intros Hs HI HC l1 sid tc l2 Heq u tgt enq d Hin Hlt.
    eapply dead_step; eauto.
    - eapply sent_in. rewrite Heq. apply in_or_app. right. right. exact Hin.
    - eapply (c_L v); eauto.
  Qed.

  Ltac old_decomp Heq :=
    let l := fresh "lx" in let He := fresh "He" in
    apply cons_decomp in Heq as [(_ & He & _)|(l & _ & Heq)]; [discriminate|].

  Lemma InvCan_step s s' : step_rel v pick s s' -> Inv1 s -> InvCan v s -> InvCan v s'.
  Proof.
    intros Hs HI HC.
    pose proof (K_old _ _ Hs HI HC) as HK.
    pose proof (L_old _ _ Hs HI HC) as HL.
    pose proof (now_grows _ _ _ _ Hs) as Hnow.
    assert (HM : forall sid l, cancel_todo (ipc s) = Some (sid, l) ->
              forall u tgt enq d, In (ESend u sid tgt enq d) (trace s) ->
                In u l \/ enq + d <= now s' \/ dead s' u).
    { intros sid l Hc u tgt enq d Hin. destruct (c_M _ _ HC _ _ Hc _ _ _ _ Hin) as [H|[H|H]]; auto.
      - right; left; lia.
      - right; right. eapply dead_step; eauto. eapply sent_in; eauto. }
    destruct Hs.
    - (* send 0 *)
      constructor; cbn in *.
      + intros u0 sid0 tgt0 enq d [Heq|[Heq|Hin]]; [discriminate| |eapply HK; eauto].
        inversion Heq; subst. right; left. lia.
      + discriminate.
      + intros l1 sid0 tc l2 Heq. old_decomp Heq. old_decomp Heq. eapply HL; eauto.
    - (* send *)
      constructor; cbn in *.
      + intros u0 sid0 tgt0 enq d0 [Heq|Hin]; [|eapply HK; eauto].
        inversion Heq; subst. left. unfold has_target. cbn. destruct (dv_enqueue_arms_first v) eqn:Haf.
        * right. split; [reflexivity | now exists tgt0].
        * left. rewrite lookup_put, N.eqb_refl. eauto.
      + discriminate.
      + intros l1 sid0 tc l2 Heq. old_decomp Heq. eapply HL; eauto.
    - constructor; cbn in *; [apply HK | discriminate | apply HL].
    - constructor; cbn in *; [apply HK | discriminate | apply HL].
    - (* fault *)
      constructor; cbn in *; [apply HK | apply HM | apply HL].
    - (* cancel with nothing to do *)
      constructor; cbn in *.
      + intros u0 sid0 tgt0 enq d [Heq|Hin]; [discriminate | eapply HK; eauto].
      + discriminate.
      + intros l1 sid0 tc l2 Heq u0 tgt0 enq d Hin Hlt.
        apply cons_decomp in Heq as [(_ & He & <-)|(l1' & _ & Heq)]; [|eapply HL; eauto].
        inversion He; subst sid0 tc.
        destruct (HK _ _ _ _ _ Hin) as [[[[sid1 tgt1] Hx]|[_ [tg Hip]]]|[Hle|Hdead]];
          [cbn in Hx|cbn in Hip; discriminate|lia|exact Hdead].
        exfalso. destruct (i_tgt _ HI _ _ _ Hx) as (c & e & Hs').
        destruct (send_unique _ _ _ _ _ _ _ _ _ _ (sent_nodup _ HI) Hin Hs') as (-> & _).
        apply sid_keys_in in Hx. rewrite H2 in Hx. exact Hx.
    - (* cancel starts *)
      constructor; cbn in *; [apply HK | | apply HL].
      intros sid0 l [= <- <-] u0 tgt0 enq d Hin.
      destruct (HK _ _ _ _ _ Hin) as [[[[sid1 tgt1] Hx]|[_ [tg Hip]]]|[Hle|Hdead]];
        [cbn in Hx|cbn in Hip; discriminate|now (right; left)|now (right; right)].
      left. destruct (i_tgt _ HI _ _ _ Hx) as (c & e & Hs').
      destruct (send_unique _ _ _ _ _ _ _ _ _ _ (sent_nodup _ HI) Hin Hs') as (-> & _).
      apply sid_keys_in in Hx. now rewrite H2 in Hx.
    - constructor; cbn in *; [apply HK | discriminate | apply HL].
    - constructor; cbn in *; [apply HK | discriminate | apply HL].
    - constructor; cbn in *; [apply HK | apply HM | apply HL].
    - constructor; cbn in *; [apply HK | | apply HL].
      intros sid0 l [= <- <-]. apply HM. now rewrite H.
    - (* last cancel step *)
      destruct (cancel_entry_done _ _ _ _ _ H0) as (Hlk & _ & _).
      constructor; cbn in *.
      + intros u0 sid0 tgt0 enq d [Heq|Hin]; [discriminate | eapply HK; eauto].
      + discriminate.
      + intros l1 sid0 tc l2 Heq u0 tgt0 enq d Hin Hlt.
        apply cons_decomp in Heq as [(_ & He & <-)|(l1' & _ & Heq)]; [|eapply HL; eauto].
        inversion He; subst sid0 tc.
        destruct (HM sid [u]) with (u := u0) (tgt := tgt0) (enq := enq) (d := d) as [[<-|[]]|[Hle|Hdead]];
          [now rewrite H | exact Hin | | lia | exact Hdead].
        destruct (removed_alt s (mk (now s) (prog s) IIdle (tpc s) pd (remove u (targets s)) (current_cb s)
                     (release (delayM s)) (release (queueM s)) (ECancelDone sid (now s) :: trace s))
                   u sid tgt0 enq d HI Hin) as [Hle|Hdead]; cbn; auto; [|lia].
        rewrite Hlk, N.eqb_refl. reflexivity.
    - (* cancel step, more to do *)
      destruct (cancel_entry_done _ _ _ _ _ H0) as (Hlk & _ & _).
      constructor; cbn in *; [apply HK | | apply HL].
      intros sid0 l [= <- <-] u0 tgt0 enq d Hin.
      destruct (HM sid (u :: u' :: todo')) with (u := u0) (tgt := tgt0) (enq := enq) (d := d) as [[<-|Hl]|[Hle|Hdead]];
        [now rewrite H | exact Hin | | now left | now (right; left) | now (right; right)].
      right.
      destruct (removed_alt s (mk (now s) (prog s) (IQBefore sid u' todo') (tpc s) pd (remove u (targets s)) (current_cb s)
                     (delayM s) (release (queueM s)) (trace s))
                 u sid tgt0 enq d HI Hin) as [Hle|Hdead]; cbn; auto.
      rewrite Hlk, N.eqb_refl. reflexivity.
    - constructor; cbn in *; [apply HK | apply HM | apply HL].
    - (* expire *)
      constructor; cbn in *.
      + intros u0 sid0 tgt0 enq d [Heq|Hin]; [discriminate | eapply HK; eauto].
      + intros sid0 l Hc u0 tgt0 enq d [Heq|Hin]; [discriminate | eapply HM; eauto].
      + intros l1 sid0 tc l2 Heq. old_decomp Heq. eapply HL; eauto.
    - constructor; cbn in *; [apply HK | apply HM | apply HL].
    - constructor; cbn in *; [apply HK | apply HM | apply HL].
    - constructor; cbn in *; [apply HK | apply HM | apply HL].
    - constructor; cbn in *; [apply HK | apply HM | apply HL].
    - constructor; cbn in *; [apply HK | apply HM | apply HL].
    - (* delivery *)
      assert (Hold : forall x, In x (ready_trace v s u) -> (exists a b c e, x = EDeliver a b c e) \/ In x (trace s)).
      { intros x. unfold ready_trace. destruct (lookup (targets s) u) as [[a b]|].
        - intros [<-|Hx]; [left; eauto | now right].
        - destruct (dv_ready_checks v); [now right|]. intros [<-|Hx]; [left; eauto | now right]. }
      constructor; cbn in *.
      + intros u0 sid0 tgt0 enq d Hin. destruct (Hold _ Hin) as [(a & b & c & e & Heq)|Hin']; [discriminate|].
        eapply HK; eauto.
      + intros sid0 l Hc u0 tgt0 enq d Hin. destruct (Hold _ Hin) as [(a & b & c & e & Heq)|Hin']; [discriminate|].
        eapply HM; eauto.
      + intros l1 sid0 tc l2 Heq. unfold ready_trace in Heq.
        destruct (lookup (targets s) u) as [[a b]|].
        * old_decomp Heq. eapply HL; eauto.
        * destruct (dv_ready_checks v); [eapply HL; eauto|]. old_decomp Heq. eapply HL; eauto.
    - constructor; cbn in *; [apply HK | apply HM | apply HL].
    - constructor; cbn in *; [apply HK | apply HM | apply HL].
  Qed.
End PreserveCan2.

(* ------------------------------------------------------------------------------------------ *)
(* all schedules *)

Lemma nodup_N_spec l : nodup_N l = true <-> NoDup l.
Proof.
  induction l as [|x l IH]; cbn.
  - split; [constructor | reflexivity].
  - rewrite andb_true_iff, negb_true_iff, IH. split.
    + intros [Hx Hnd]. constructor; [|exact Hnd]. intros Hin.
      assert (existsb (N.eqb x) l = true) by (apply existsb_exists; exists x; split; [exact Hin | apply N.eqb_refl]).
      congruence.
    + intros H. inversion H as [|? ? Hni Hnd]; subst. split; [|exact Hnd].
      destruct (existsb (N.eqb x) l) eqn:E; [|reflexivity].
      apply existsb_exists in E as (y & Hy & Heq). apply N.eqb_eq in Heq; subst. contradiction.
Qed.

Section AllSchedules.
  Variable v : dvariant.
  Variable pick : list (N * N) -> N -> option N.
  Hypothesis Hpick : pick_sound pick.

  Definition Inv (s : dstate) : Prop := Inv1 s /\ InvOrd s /\ InvCan v s.

  Lemma Inv_init p : wf_prog p = true -> Inv (init p).
  Proof.
    intros Hwf. apply nodup_N_spec in Hwf. split; [|split].
    - constructor; cbn; try easy.
      + constructor.
      + now rewrite app_nil_r.
      + constructor.
    - constructor; cbn; try easy; intros l1 u t tgt l2 H; now destruct l1.
    - constructor; cbn; try easy; intros l1 sid tc l2 H; now destruct l1.
  Qed.

  Lemma Inv_step s t : Inv s -> Inv (step_or_stay v pick s t).
  Proof.
    intros (H1 & H2 & H3). unfold step_or_stay. destruct (dstep v pick s t) as [s'|] eqn:E; [|split; [exact H1 | split; [exact H2 | exact H3]]].
    apply dstep_rel in E as [_ Hr]. split; [|split].
    - eapply Inv1_step; eauto.
    - eapply InvOrd_step; eauto.
    - eapply InvCan_step; eauto.
  Qed.

  Lemma Inv_run sched : forall s, Inv s -> Inv (run v pick s sched).
  Proof. induction sched as [|t r IH]; cbn; intros s H; [exact H|]. apply IH. now apply Inv_step. Qed.

  Lemma Inv_reach p sched : wf_prog p = true -> Inv (run v pick (init p) sched).
  Proof. intros H. apply Inv_run. now apply Inv_init. Qed.

  (* delivered at most once *)
  Lemma fires_at_most_once_lemma p sched :
    wf_prog p = true -> NoDup (delivered (trace (run v pick (init p) sched))).
  Proof. intros H. apply (i_dlv_nodup _ (proj1 (Inv_reach p sched H))). Qed.

  (* never before enqueue time + delay *)
  Lemma never_early_lemma p sched u t tgt b :
    wf_prog p = true ->
    In (EDeliver u t tgt b) (trace (run v pick (init p) sched)) ->
    exists sid tgt' enq d, In (ESend u sid tgt' enq d) (trace (run v pick (init p) sched)) /\ enq + d <= t.
  Proof.
    intros H Hin. destruct (i_dlv _ (proj1 (Inv_reach p sched H)) _ _ _ _ Hin) as (_ & Hx). exact Hx.
  Qed.

  (* deliveries by the timer thread are in due order: the later one is not due earlier *)
  Lemma due_order_lemma p sched l1 l2 l3 u1 t1 g1 u2 t2 g2 s1 a1 e1 d1 s2 a2 e2 d2 :
    wf_prog p = true ->
    let tr := trace (run v pick (init p) sched) in
    tr = l1 ++ EDeliver u2 t2 g2 true :: l2 ++ EDeliver u1 t1 g1 true :: l3 ->
    In (ESend u1 s1 a1 e1 d1) tr -> In (ESend u2 s2 a2 e2 d2) tr ->
    e1 + d1 <= e2 + d2.
  Proof.
    intros H tr Heq Hs1 Hs2. destruct (Inv_reach p sched H) as (HI & HO & _). fold tr in HI, HO.
    set (s := run v pick (init p) sched) in *.
    destruct (o_dlv _ HO _ _ _ _ _ Heq) as [x2 Hx2].
    assert (Heq' : trace s = (l1 ++ EDeliver u2 t2 g2 true :: l2) ++ EDeliver u1 t1 g1 true :: l3).
    { fold tr. rewrite Heq. now rewrite <- app_assoc. }
    destruct (o_dlv _ HO _ _ _ _ _ Heq') as [x1 Hx1].
    assert (Hle : x1 <= x2).
    { change (l2 ++ EDeliver u1 t1 g1 true :: l3) with (l2 ++ [EDeliver u1 t1 g1 true] ++ l3) in Hx2.
      rewrite app_assoc in Hx2.
      eapply last_expire_sorted; [|exact Hx2|exact Hx1].
      pose proof (o_sorted _ HO) as Hso. fold tr in Hso. rewrite Heq in Hso.
      rewrite expire_dues_app in Hso. apply sorted_ge_app_r in Hso. cbn in Hso.
      change (l2 ++ EDeliver u1 t1 g1 true :: l3) with (l2 ++ [EDeliver u1 t1 g1 true] ++ l3) in Hso.
      now rewrite app_assoc in Hso. }
    assert (Hin1 : In (EExpire u1 x1) (trace s)).
    { rewrite Heq'. apply in_or_app. right. right. now apply last_expire_in. }
    assert (Hin2 : In (EExpire u2 x2) (trace s)).
    { fold tr. rewrite Heq. apply in_or_app. right. right. now apply last_expire_in. }
    destruct (o_sent _ HO _ _ Hin1) as (a & b & c & e & Hsa & ->).
    destruct (o_sent _ HO _ _ Hin2) as (a' & b' & c' & e' & Hsb & ->).
    destruct (send_unique _ _ _ _ _ _ _ _ _ _ (sent_nodup _ HI) Hs1 Hsa) as (_ & _ & -> & ->).
    destruct (send_unique _ _ _ _ _ _ _ _ _ _ (sent_nodup _ HI) Hs2 Hsb) as (_ & _ & -> & ->).
    exact Hle.
  Qed.

  (* after a cancel that returned before the due time the event is never delivered *)
  Lemma cancel_before_due_lemma p sched l1 sid tc l2 u tgt enq d :
    wf_prog p = true ->
    trace (run v pick (init p) sched) = l1 ++ ECancelDone sid tc :: l2 ->
    In (ESend u sid tgt enq d) l2 -> tc < enq + d ->
    ~ In u (delivered (trace (run v pick (init p) sched))).
  Proof.
    intros H Heq Hin Hlt. destruct (Inv_reach p sched H) as (_ & _ & HC).
    destruct (c_L _ _ HC _ _ _ _ Heq _ _ _ _ Hin Hlt) as (_ & _ & Hd). exact Hd.
  Qed.
  (* ... and at every later moment -- in particular when the cancel returns (l1 = []) -- EVERY event sent
     under that sendid and not yet due is gone from _callbackData, is not in a running callback and
     has not been delivered.  Nothing restricts how many sends share the sendid: [wf_prog] only asks
     for distinct UUIDs. *)
  Lemma cancel_removes_all_lemma p sched l1 sid tc l2 :
    wf_prog p = true ->
    let s := run v pick (init p) sched in
    trace s = l1 ++ ECancelDone sid tc :: l2 ->
    forall u tgt enq d, In (ESend u sid tgt enq d) l2 -> tc < enq + d ->
      lookup (pending s) u = None /\ tpc_on (tpc s) <> Some u /\ ~ In u (delivered (trace s)).
  Proof.
    intros H s Heq u tgt enq d Hin Hlt. destruct (Inv_reach p sched H) as (_ & _ & HC).
    exact (c_L _ _ HC _ _ _ _ Heq _ _ _ _ Hin Hlt).
  Qed.
End AllSchedules.

(* the instantiated choice function satisfies the assumption (so the theorems are not vacuous) *)
Lemma pick_min_aux_sound l : forall best t u,
  (forall bu bd, best = Some (bu, bd) -> bd <= t) ->
  pick_min_aux best l t = Some u ->
  exists d, (In (u, d) l \/ best = Some (u, d)) /\ d <= t /\
            (forall u' d', In (u', d') l -> d' <= t -> d <= d') /\
            (forall bu bd, best = Some (bu, bd) -> d <= bd).
Proof.
  induction l as [|[k dk] l IH]; cbn; intros best t u Hb H.
  - destruct best as [[bu bd]|]; [|discriminate]. injection H as ->.
    exists bd. repeat split; eauto. intros u' d' []. intros bu' bd' [= _ ->]. lia.
  - destruct (dk <=? t) eqn:Hle.
    + apply N.leb_le in Hle. destruct best as [[bu bd]|].
      * destruct (dk <? bd) eqn:Hlt.
        -- apply N.ltb_lt in Hlt. apply IH in H as (d & Hin & Hd & Hmin & Hbest).
           2: { intros ? ? [= _ <-]. exact Hle. }
           exists d. repeat split.
           ++ destruct Hin as [Hin|Heq]; [left; now right|]. injection Heq as <- <-. left. now left.
           ++ exact Hd.
           ++ intros u' d' [Heq|Hin'] Hd'; [|eapply Hmin; eauto]. inversion Heq; subst. eapply Hbest; eauto.
           ++ intros bu' bd' [= _ <-]. specialize (Hbest _ _ eq_refl). lia.
        -- apply N.ltb_ge in Hlt. apply IH in H as (d & Hin & Hd & Hmin & Hbest); [|exact Hb].
           exists d. repeat split.
           ++ destruct Hin as [Hin|Heq]; [left; now right | now right].
           ++ exact Hd.
           ++ intros u' d' [Heq|Hin'] Hd'; [|eapply Hmin; eauto]. inversion Heq; subst.
              specialize (Hbest _ _ eq_refl). lia.
           ++ exact Hbest.
      * apply IH in H as (d & Hin & Hd & Hmin & Hbest).
        2: { intros ? ? [= _ <-]. exact Hle. }
        exists d. repeat split.
        -- destruct Hin as [Hin|Heq]; [left; now right|]. injection Heq as <- <-. left. now left.
        -- exact Hd.
        -- intros u' d' [Heq|Hin'] Hd'; [|eapply Hmin; eauto]. inversion Heq; subst. eapply Hbest; eauto.
        -- discriminate.
    + apply N.leb_gt in Hle. apply IH in H as (d & Hin & Hd & Hmin & Hbest); [|exact Hb].
      exists d. repeat split.
      * destruct Hin as [Hin|Heq]; [left; now right | now right].
      * exact Hd.
      * intros u' d' [Heq|Hin'] Hd'; [|eapply Hmin; eauto]. inversion Heq; subst. lia.
      * exact Hbest.
Qed.

Lemma pick_min_sound : pick_sound pick_min.
Proof.
  intros l t u H. unfold pick_min in H. apply pick_min_aux_sound in H as (d & Hin & Hd & Hmin & _).
  - exists d. destruct Hin as [Hin|Heq]; [|discriminate]. repeat split; auto.
  - discriminate.
Qed.

