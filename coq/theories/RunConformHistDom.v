(* RunConformHistDom.v -- C01 on charts with <history> (wf_histb), for the charts LargeMicroStep::init builds: the
   transition domain and the exit set of a transition WITH <history> targets.  Appendix D measures the domain from the
   effective targets (the recorded value or the default targets of a history), the engines from the <history> element
   itself (known finding C01-K5).  They agree for a transition t unless a target of t is a DEEP history whose parent
   properly encloses the source of t ([TLocal]); for a shallow history the effective targets are children of the
   history's parent -- siblings of the <history> element -- and the two domains coincide.  Proofs only. *)
From V Require Import Base NameMatch Chart Exec Large LargeLemmas Spec Legal SetLemmas LegalAbstract LegalLarge
  Tables TreeLemmas ExitSetLemmas LegalHistBase LegalHistEntry LegalHistStep LegalHistRun MicroConformEntry
  RunConformInitialBase RunConformInitialSpec RunConformHistRel RunConformHistSpec RunConformHistEntry.
From Coq Require Import Sorted.
Local Open Scope nat_scope.

Lemma find_fallback_zero_in (P Q : nat -> bool) l :
  StronglySorted (fun x y => y < x) l -> (forall a, In a l -> a <> 0 -> P a = Q a) ->
  match find P l with Some a => Some a | None => Some 0 end =
  match find Q l with Some a => Some a | None => Some 0 end.
Proof.
  induction l as [|x l IH]; intros Hs Hpq; [reflexivity|].
  inversion Hs as [|? ? Hs' Hall]; subst. cbn [find]. destruct (Nat.eq_dec x 0) as [->|Hx].
  - destruct l as [|y l']; [|rewrite Forall_forall in Hall; specialize (Hall y (or_introl eq_refl)); lia].
    cbn [find]. destruct (P 0), (Q 0); reflexivity.
  - rewrite (Hpq x (or_introl eq_refl) Hx). destruct (Q x); [reflexivity|]. apply IH; [assumption|].
    intros a Ha. apply Hpq. now right.
Qed.

(* no target of the transition is a deep history whose parent properly encloses the transition's source *)
Definition TLocal (c : fchart) (t : ftrans) : Prop :=
  forall g q, In g (ft_targets t) -> deepS c g = true -> fs_parent (st c g) = Some q ->
    ~ LegalAbstract.Anc (fun i => fs_parent (st c i)) q (ft_source t).

Section DomH.
Variable late : bool.
Variable t0 : tree.
Notation c := (flatten late t0).
Let par (i : nat) := fs_parent (st c i).
Notation Anc := (LegalAbstract.Anc par).

Hypothesis W : WFH c.
Hypothesis HtgAnti : TgAnti c.
Hypothesis HPAR : forall s, s < nstates c -> fs_type (st c s) = FParallel -> fs_children (st c s) <> [].
Hypothesis Hleaf : forall x k, is_atomic_state c x = true -> fs_parent (st c k) <> Some x.
Variable cfg : list nat.
Hypothesis Hleg : LegalH c (fun x => In x cfg).
Hypothesis Hbound : forall x, In x cfg -> x < nstates c.
Variable hist : list nat.
Variable h : hv.
Hypothesis HH : HistOK c hist.
Hypothesis HD : HistDown c hist.
Hypothesis HR : hv_rel c hist h.

Variable t : ftrans.
Hypothesis Hloc : TLocal c t.

Notation T := (ft_targets t).
Notation ts := (eff_targets c (Spec.n c) h T).
Notation res := (RunConformHistSpec.res c h).

Lemma ts_spec x : In x ts <-> exists s, In s T /\ In x (res s).
Proof.
  apply (eff_spec c W HPAR cfg h hist Hleg Hbound). intros s _ Hh. exact (res_ok c W HtgAnti HPAR Hleaf h hist HH HD HR s Hh).
Qed.

(* a state that is the source of t or above it lies above the targets as written iff it lies above the effective ones *)
Lemma above_iff a : (a = ft_source t \/ Anc a (ft_source t)) ->
  ((forall x, In x T -> Anc a x) <-> (forall y, In y ts -> Anc a y)).
Proof.
  intros Ha. split.
  - intros HT y Hy. apply ts_spec in Hy as (s & Hs & Hr). pose proof (HT s Hs) as Has.
    destruct (histS c s) eqn:Hh.
    + destruct (res_ok c W HtgAnti HPAR Hleaf h hist HH HD HR s Hh) as (q & R). destruct (ro_below _ _ _ _ _ R y Hr) as [Hqy _].
      destruct (anc_child par _ _ _ (ro_par _ _ _ _ _ R) Has) as [->|F]; [exact Hqy | eapply (hanc_trans c); eauto].
    + rewrite (res_plain c h s Hh) in Hr. destruct Hr as [<-|[]]. exact Has.
  - intros Hts x Hx. destruct (histS c x) eqn:Hh.
    + destruct (res_ok c W HtgAnti HPAR Hleaf h hist HH HD HR x Hh) as (q & R).
      pose proof (ro_ne _ _ _ _ _ R) as Hne. destruct (res x) as [|y l] eqn:Er; [congruence|].
      assert (Hy : In y (res x)) by (rewrite Er; now left).
      assert (Hyt : In y ts) by (apply ts_spec; eauto).
      pose proof (Hts y Hyt) as Hay. destruct (ro_below _ _ _ _ _ R y Hy) as [Hqy _].
      assert (Hqx : Anc q x) by (apply anc_parent; exact (ro_par _ _ _ _ _ R)).
      destruct (hanc_chain c a q y Hay Hqy) as [E|[E|E]].
      * now subst a.
      * eapply (hanc_trans c); eauto.
      * exfalso. assert (Hqs : Anc q (ft_source t)) by (destruct Ha as [<-|Ha]; [exact E | eapply (hanc_trans c); eauto]).
        destruct (deepS c x) eqn:Hd.
        -- exact (Hloc x q Hx Hd (ro_par _ _ _ _ _ R) Hqs).
        -- pose proof (ro_shallow _ _ _ _ _ R Hd y Hy) as Hpy. fold (par y) in Hpy.
           destruct (anc_child par _ _ _ Hpy Hay) as [->|F]; [exact (hanc_irrefl c W _ E) | exact (hanc_antisym c W _ _ E F)].
    + apply Hts. apply ts_spec. exists x. split; [exact Hx|]. rewrite (res_plain c h x Hh). now left.
Qed.

Lemma forallb_above a : (a = ft_source t \/ Anc a (ft_source t)) ->
  forallb (fun x => mem a (fs_ancestors (st c x))) T = forallb (fun s => is_descendant c s a) ts.
Proof.
  intros Ha. pose proof (above_iff a Ha) as Hiff.
  assert (H1 : forallb (fun x => mem a (fs_ancestors (st c x))) T = true <-> (forall x, In x T -> Anc a x)).
  { rewrite forallb_forall. split; intros H x Hx; [apply (wh_anc c W), mem_In; now apply H | apply mem_In, (wh_anc c W); now apply H]. }
  assert (H2 : forallb (fun s => is_descendant c s a) ts = true <-> (forall y, In y ts -> Anc a y)).
  { rewrite forallb_forall. split; intros H y Hy.
    - apply (wh_anc c W), mem_In. rewrite <- is_descendant_mem. now apply H.
    - rewrite is_descendant_mem. apply mem_In, (wh_anc c W). now apply H. }
  destruct (forallb (fun s => is_descendant c s a) ts) eqn:E2.
  - apply H1, Hiff, H2. reflexivity.
  - destruct (forallb (fun x => mem a (fs_ancestors (st c x))) T) eqn:E1; [|reflexivity].
    assert (Hf : false = true) by (apply H2, Hiff, H1; reflexivity). discriminate Hf.
Qed.

Theorem domain_agrees_hist : Large.domain c t = Spec.transition_domain c h t.
Proof.
  unfold Large.domain, Spec.transition_domain.
  pose proof ts_spec as Hspec. pose proof forallb_above as Hfa.
  assert (Hex : forall x, In x T -> exists y, In y (res x)).
  { intros x _. destruct (histS c x) eqn:Hh.
    - destruct (res_ok c W HtgAnti HPAR Hleaf h hist HH HD HR x Hh) as (q & R). pose proof (ro_ne _ _ _ _ _ R).
      destruct (res x) as [|y l]; [congruence | exists y; now left].
    - rewrite (res_plain c h x Hh). exists x. now left. }
  remember ts as tsv eqn:Etsv. clear Etsv. remember T as Tv eqn:ETv. clear ETv.
  destruct Tv as [|x tg]; destruct tsv as [|y ts'].
  - reflexivity.
  - exfalso. destruct (proj1 (Hspec y) (or_introl eq_refl)) as (s & [] & _).
  - exfalso. destruct (Hex x (or_introl eq_refl)) as (y & Hy).
    assert (Hyt : In y []) by (apply Hspec; exists x; split; [now left | exact Hy]). destruct Hyt.
  - change (Large.is_comp (fs_type (st c (ft_source t)))) with (Spec.is_compound_state c (ft_source t)).
    rewrite (Hfa (ft_source t) (or_introl eq_refl)).
    destruct (ft_internal t && Spec.is_compound_state c (ft_source t) &&
              forallb (fun s => Spec.is_descendant c s (ft_source t)) (y :: ts')); [reflexivity|].
    unfold Spec.find_lcca. rewrite <- ancs_rev_ancestors.
    apply find_fallback_zero_in; [apply ancs_sorted|].
    intros a Hin Ha. rewrite (Hfa a) by (right; exact (ancs_sound_h c _ _ _ _ Hin)).
    change (Large.is_comp (fs_type (st c a))) with (Spec.is_compound_state c a).
    replace (a =? 0) with false by (symmetry; apply Nat.eqb_neq; exact Ha). rewrite orb_false_r. reflexivity.
Qed.

Theorem exit_set_agrees_hist cfg' : (forall s, In s cfg' -> s < nstates c) ->
  forall s, In s (Large.exit_states_of lg_fixed c cfg' t) <-> In s (Spec.compute_exit_set c cfg' h [t]).
Proof.
  intros Hcfg s. unfold Large.exit_states_of, Large.exit_interval, Spec.compute_exit_set. cbn [fold_left].
  rewrite <- domain_agrees_hist.
  destruct (Large.domain c t) as [d|] eqn:Hd.
  - assert (Htg : ft_targets t <> []) by (unfold Large.domain in Hd; destruct (ft_targets t); [discriminate | discriminate]).
    destruct (ft_targets t) as [|x tg]; [congruence|].
    pose proof (domain_lt late t0 t d Hd) as Hdn. cbn [lg_exit_overreach lg_fixed andb lg_targetless_exits_root negb].
    replace (S d =? 0) with false by reflexivity. cbn [andb].
    rewrite In_fold_desc, filter_In. cbn [In].
    destruct (tree_interval_flatten late t0) as (_ & Hsz & _). destruct (Hsz d Hdn) as [Hs1 _].
    split.
    + intros [Hin Hr]. left. split; [exact Hin|]. specialize (Hcfg s Hin). rewrite flatten_nstates in Hcfg.
      apply (is_descendant_interval late t0 s d Hcfg Hdn). apply andb_true_iff in Hr. destruct Hr as [H1 H2].
      apply Nat.leb_le in H1, H2. lia.
    + intros [[Hin Hdesc] | []]. split; [exact Hin|]. specialize (Hcfg s Hin). rewrite flatten_nstates in Hcfg.
      apply (is_descendant_interval late t0 s d Hcfg Hdn) in Hdesc. apply andb_true_iff. split; apply Nat.leb_le; lia.
  - cbn. destruct (ft_targets t); reflexivity.
Qed.

End DomH.

(* ------------------------------------------------------------------ the boolean *)

(* no transition targets a deep history whose parent properly encloses the transition's source *)
Definition hist_target_localb (c : fchart) : bool :=
  forallb (fun ti =>
    forallb (fun g => match fs_type (st c g), fs_parent (st c g) with
                      | FHistDeep, Some q => negb (mem q (fs_ancestors (st c (ft_source (tr c ti)))))
                      | _, _ => true
                      end) (ft_targets (tr c ti))) (seq 0 (ntrans c)).

Lemma hist_target_localb_sound c : WFH c -> hist_target_localb c = true -> forall ti, TLocal c (tr c ti).
Proof.
  intros W H ti g q Hg Hd Hq Ha. destruct (Nat.lt_ge_cases ti (ntrans c)) as [Hlt|Hge].
  - unfold hist_target_localb in H. rewrite forallb_forall in H. specialize (H ti ltac:(apply in_seq; lia)).
    rewrite forallb_forall in H. specialize (H g Hg). unfold deepS in Hd. rewrite Hq in H.
    destruct (fs_type (st c g)); try discriminate. apply negb_true_iff, mem_false_In in H. apply H. now apply (wh_anc c W).
  - unfold tr in Hg. rewrite nth_overflow in Hg by exact Hge. destruct Hg.
Qed.
