(* RunConformHistRel.v -- C01 on charts with <history> (wf_histb): the relation between Appendix D's historyValue
   (Spec.s_hv: one list per history state) and LargeMicroStep's _history (Large.l_hist: ONE set of states shared by
   all histories).  Under the disjointness clause of wf_histb every history H owns the part  l_hist /\ completion(H)
   (LegalHistEntry.Rh); Appendix D's value is that part for a shallow history (the active children of the parent) and
   its atomic members for a deep history (Appendix D records the active atomic descendants, the engine ALL active
   proper descendants).  [hv_rel] is preserved by the recording at exit time: Spec.exit_states' loop over the states
   to exit ([record_hv]) against Large.remember_history.  [HistDown]: the recorded part of a deep history is closed
   downwards like a configuration (needed to rebuild it from its atomic members).  Definitions and proofs. *)
From V Require Import Base NameMatch Chart Exec Large LargeLemmas Interp Spec Legal SetLemmas LegalAbstract LegalLarge LegalRun
  LegalHistBase LegalHistEntry LegalHistStep LegalHistRun MicroConformEntry MicroConformLemmas RunConformInitialSpec.
Local Open Scope nat_scope.

(* ------------------------------------------------------------------ hv_get / hv_set *)

Lemma hv_get_filter h i j : j <> i -> hv_get (filter (fun p => negb (fst p =? i)) h) j = hv_get h j.
Proof.
  intros Hne. induction h as [|[k v] r IH]; cbn [filter hv_get fst]; [reflexivity|].
  destruct (k =? i) eqn:E; cbn [negb].
  - apply Nat.eqb_eq in E. subst k. replace (i =? j) with false by (symmetry; apply Nat.eqb_neq; lia). exact IH.
  - cbn [hv_get]. destruct (k =? j); [reflexivity | exact IH].
Qed.

Lemma hv_get_set h i v j : hv_get (hv_set h i v) j = if i =? j then Some v else hv_get h j.
Proof.
  unfold hv_set. cbn [hv_get]. destruct (i =? j) eqn:E; [reflexivity|]. apply hv_get_filter. apply Nat.eqb_neq in E. lia.
Qed.

Lemma rch_fold_ext {A B} (f g : A -> B -> A) l : (forall a b, f a b = g a b) -> forall a, fold_left f l a = fold_left g l a.
Proof. intros H. induction l as [|b r IH]; intros a; cbn [fold_left]; [reflexivity|]. rewrite H. apply IH. Qed.

(* ------------------------------------------------------------------ Appendix D's recording as a function *)

(* the value recorded for the child [ch] of the exited state [st0] *)
Definition rec_val (c : fchart) (cfgS : list nat) (st0 ch : nat) : option (list nat) :=
  match sty c ch with
  | FHistDeep => Some (filter (fun s0 => is_atomic_state c s0 && is_descendant c s0 st0) cfgS)
  | FHistShallow => Some (filter (fun s0 => match fs_parent (st c s0) with Some p => p =? st0 | None => false end) cfgS)
  | _ => None
  end.

Definition rec_child (c : fchart) (cfgS : list nat) (st0 : nat) (h : hv) (ch : nat) : hv :=
  match rec_val c cfgS st0 ch with Some v => hv_set h ch v | None => h end.

Definition record_hv (c : fchart) (cfgS to_exit : list nat) (h : hv) : hv :=
  fold_left (fun h st0 => fold_left (rec_child c cfgS st0) (fs_children (st c st0)) h) to_exit h.

(* Appendix D's exitStates: the history is recorded for all states to exit, then the handlers run *)
Lemma exit_states_hv c ts s x :
  exit_states c ts s x =
  (let to_exit := rev (sort_doc (compute_exit_set c (s_cfg s) (s_hv s) (map (tr c) ts))) in
   let r := fold_left (spec_exit_one c) to_exit (s_cfg s, x) in
   ({| s_cfg := fst r; s_hv := record_hv c (s_cfg s) to_exit (s_hv s); s_running := s_running s; s_entered := s_entered s |}, snd r)).
Proof.
  unfold exit_states. cbn zeta.
  set (to_exit := rev (sort_doc (compute_exit_set c (s_cfg s) (s_hv s) (map (tr c) ts)))).
  assert (Hh : forall l h,
     fold_left (fun h st0 =>
                 fold_left (fun h ch =>
                              match sty c ch with
                              | FHistDeep => hv_set h ch (filter (fun s0 => is_atomic_state c s0 && is_descendant c s0 st0) (s_cfg s))
                              | FHistShallow => hv_set h ch (filter (fun s0 => match fs_parent (st c s0) with Some p => p =? st0 | None => false end) (s_cfg s))
                              | _ => h
                              end) (fs_children (st c st0)) h) l h = record_hv c (s_cfg s) l h).
  { intros l h. unfold record_hv. apply rch_fold_ext. intros h0 st0. apply rch_fold_ext. intros h1 ch.
    unfold rec_child, rec_val. destruct (sty c ch); reflexivity. }
  rewrite Hh.
  rewrite (rch_fold_ext _ (spec_exit_one c)) by (intros [cfg0 x0] st0; reflexivity).
  destruct (fold_left (spec_exit_one c) to_exit (s_cfg s, x)) as [cfg1 x1]. reflexivity.
Qed.

Lemma rec_inner_get c cfgS st0 l : forall h H,
  hv_get (fold_left (rec_child c cfgS st0) l h) H =
  if existsb (Nat.eqb H) l then match rec_val c cfgS st0 H with Some v => Some v | None => hv_get h H end else hv_get h H.
Proof.
  induction l as [|ch r IH]; intros h H; cbn [fold_left existsb]; [reflexivity|].
  rewrite IH.
  assert (E1 : hv_get (rec_child c cfgS st0 h ch) H =
               if ch =? H then match rec_val c cfgS st0 H with Some v => Some v | None => hv_get h H end else hv_get h H).
  { unfold rec_child. destruct (ch =? H) eqn:E.
    - apply Nat.eqb_eq in E. subst ch. destruct (rec_val c cfgS st0 H) as [v|]; [|reflexivity].
      rewrite hv_get_set, Nat.eqb_refl. reflexivity.
    - destruct (rec_val c cfgS st0 ch) as [v|]; [|reflexivity]. rewrite hv_get_set, E. reflexivity. }
  rewrite E1. rewrite (Nat.eqb_sym H ch).
  destruct (existsb (Nat.eqb H) r); destruct (ch =? H); cbn [orb]; try reflexivity.
  destruct (rec_val c cfgS st0 H); reflexivity.
Qed.

Section HRel.
Variable c : fchart.
Let n := nstates c.
Let par (i : nat) := fs_parent (st c i).
Let kd (i : nat) := fs_type (st c i).
Let cpl (i : nat) := fs_completion (st c i).
Notation Anc := (LegalAbstract.Anc par).
Notation pseudo := (pseudoS c).

Hypothesis W : WFH c.

Lemma existsb_child H st0 : existsb (Nat.eqb H) (fs_children (st c st0)) = true <-> par H = Some st0.
Proof.
  rewrite existsb_exists. split.
  - intros (k & Hk & E). apply Nat.eqb_eq in E. subst k. now apply (wh_children c W).
  - intros Hk. exists H. split; [now apply (wh_children c W) | apply Nat.eqb_refl].
Qed.

Lemma record_hv_get cfgS L : forall h H q, par H = Some q ->
  hv_get (record_hv c cfgS L h) H =
  if mem q L then match rec_val c cfgS q H with Some v => Some v | None => hv_get h H end else hv_get h H.
Proof.
  induction L as [|st0 r IH]; intros h H q Hq; cbn [mem]; [reflexivity|].
  unfold record_hv. cbn [fold_left]. fold (record_hv c cfgS r (fold_left (rec_child c cfgS st0) (fs_children (st c st0)) h)).
  rewrite (IH _ H q Hq), rec_inner_get.
  destruct (existsb (Nat.eqb H) (fs_children (st c st0))) eqn:Ex.
  - apply existsb_child in Ex. rewrite Hq in Ex. injection Ex as <-. rewrite Nat.eqb_refl. cbn [orb].
    destruct (mem q r); destruct (rec_val c cfgS q H); reflexivity.
  - assert (Hne : q <> st0).
    { intros ->. assert (existsb (Nat.eqb H) (fs_children (st c st0)) = true) by now apply existsb_child. congruence. }
    replace (q =? st0) with false by (symmetry; now apply Nat.eqb_neq). cbn [orb]. reflexivity.
Qed.

(* ------------------------------------------------------------------ the relation *)

(* Appendix D's value of history H against the part of the engine's set that H owns *)
Definition hv_rel (hist : list nat) (h : hv) : Prop :=
  forall H, histS c H = true ->
    match hv_get h H with
    | None => forall x, ~ Rh c hist H x
    | Some v => (exists x, Rh c hist H x) /\
                forall x, In x v <-> Rh c hist H x /\ (deepS c H = true -> is_atomic_state c x = true)
    end.

(* what a deep history has recorded is closed downwards like a configuration *)
Definition HistDown (hist : list nat) : Prop :=
  forall H x, histS c H = true -> deepS c H = true -> Rh c hist H x ->
    (kd x = FCompound -> exists k, par k = Some x /\ Rh c hist H k) /\
    (kd x = FParallel -> forall k, par k = Some x -> Rh c hist H k).

(* the completion of a deep history holds every proper state below the history's parent (LargeMicroStep::init
   builds it so: RunConformHistWf.v) *)
Definition DeepFull : Prop :=
  forall H q x, histS c H = true -> deepS c H = true -> par H = Some q -> Anc q x -> pseudo x = false -> In x (cpl H).

Lemma hv_rel_nil : hv_rel [] [].
Proof. intros H _. cbn. intros x [_ []]. Qed.

Lemma HistDown_nil : HistDown [].
Proof. intros H x _ _ [_ []]. Qed.

Lemma hist_pseudo H : histS c H = true -> pseudo H = true.
Proof. unfold histS, pseudoS. destruct (fs_type (st c H)); cbn; congruence. Qed.

Lemma hist_sty H : histS c H = true -> (deepS c H = true /\ sty c H = FHistDeep) \/ (deepS c H = false /\ sty c H = FHistShallow).
Proof. unfold histS, deepS, sty. destruct (fs_type (st c H)); cbn; try discriminate; auto. Qed.

(* ------------------------------------------------------------------ recording at exit time *)

Section Record.
Variable cfgS X : list nat.
Notation cfg := (0 :: cfgS).
Hypothesis Hleg : LegalH c (fun x => In x cfg).
Hypothesis Hprop : forall x, In x cfg -> pseudo x = false.
Hypothesis Hbound : forall x, In x cfg -> x < n.
Hypothesis Hexit : forall x, In x X -> In x cfg.
Hypothesis HDF : DeepFull.
Variable hist : list nat.
Variable h : hv.
Variable L : list nat.
Hypothesis HL : forall x, In x L <-> In x X.
Hypothesis HH : HistOK c hist.

Notation hist' := (remember_history c cfg X hist).
Notation h' := (record_hv c cfgS L h).

Lemma hist'_proper x : In x hist' -> pseudo x = false.
Proof.
  rewrite remember_unfold. intros Hx.
  apply (rec_fold_sub c cfg X (rec_one c cfg X) (rec_one_spec c cfg X)) in Hx as [Hx|Hx]; [now apply Hprop | now apply (proj1 HH)].
Qed.

Lemma condb_exit H q : histS c H = true -> par H = Some q -> (condb c X H = true <-> In q X).
Proof.
  intros Hh Hq. unfold condb. unfold histS in Hh. rewrite Hh. cbn [andb]. unfold par in Hq. rewrite Hq. apply mem_In.
Qed.

(* what H owns after the recording *)
Lemma Rh_exited H q : histS c H = true -> par H = Some q -> In q X ->
  forall x, Rh c hist' H x <-> In x (cpl H) /\ In x cfg.
Proof.
  intros Hh Hq HqX x. unfold Rh. fold (cpl H). split; intros [Hx Hy]; (split; [exact Hx|]).
  - rewrite remember_unfold in Hy. apply (rec_fold_touched c cfg X (rec_one c cfg X) (rec_one_spec c cfg X)) in Hy; [exact Hy|].
    exists H. split; [apply in_seq; destruct (wh_par_lt c W _ _ Hq); unfold n in *; lia|]. split; [now apply (condb_exit H q) | exact Hx].
  - rewrite remember_unfold. apply (rec_fold_touched c cfg X (rec_one c cfg X) (rec_one_spec c cfg X)); [|exact Hy].
    exists H. split; [apply in_seq; destruct (wh_par_lt c W _ _ Hq); unfold n in *; lia|]. split; [now apply (condb_exit H q) | exact Hx].
Qed.

Lemma Rh_kept H q : histS c H = true -> par H = Some q -> ~ In q X ->
  forall x, Rh c hist' H x <-> Rh c hist H x.
Proof.
  intros Hh Hq HqX x0.
  assert (Hother : forall x h2, condb c X h2 = true -> In x (cpl H) -> In x (cpl h2) -> pseudo x = false -> False).
  { intros x h2 E2 Hx Hx2 Epx. pose proof E2 as E2'. unfold condb in E2. apply andb_true_iff in E2 as [E2 E3].
    pose proof (wh_hist_disjoint c W H h2 x Hh E2 Hx Hx2 Epx) as Hpar.
    assert (Hc : condb c X H = true).
    { unfold condb. unfold histS in Hh. rewrite Hh. cbn [andb]. rewrite Hpar. exact E3. }
    apply (condb_exit H q Hh Hq) in Hc. contradiction. }
  revert Hother. generalize x0 as x. clear x0. intros x Hother.
  unfold Rh. fold (cpl H). destruct (pseudo x) eqn:Epx.
  - split; intros [_ Hx]; exfalso; [apply hist'_proper in Hx | apply (proj1 HH) in Hx]; congruence.
  - split; intros [Hx Hxh]; (split; [exact Hx|]).
    + rewrite remember_unfold in Hxh. apply (rec_fold_untouched c cfg X (rec_one c cfg X) (rec_one_spec c cfg X) (seq 0 (nstates c)) hist x); [|exact Hxh].
      intros (h2 & _ & E2 & Hx2). exact (Hother x h2 E2 Hx Hx2 Epx).
    + rewrite remember_unfold. apply (rec_fold_untouched c cfg X (rec_one c cfg X) (rec_one_spec c cfg X) (seq 0 (nstates c)) hist x); [|exact Hxh].
      intros (h2 & _ & E2 & Hx2). exact (Hother x h2 E2 Hx Hx2 Epx).
Qed.

Lemma cfgS_cfg x p : par x = Some p -> (In x cfgS <-> In x cfg).
Proof.
  intros Hp. cbn [In]. split; [tauto|]. intros [<-|H]; [|exact H]. pose proof (wh_root_par c W) as R. unfold par in Hp. rewrite R in Hp. discriminate.
Qed.

(* the members of the recorded values *)
Lemma rec_val_deep H q : sty c H = FHistDeep ->
  exists v, rec_val c cfgS q H = Some v /\
            forall x, In x v <-> In x cfg /\ is_atomic_state c x = true /\ Anc q x.
Proof.
  intros Hs. unfold rec_val. rewrite Hs. eexists. split; [reflexivity|]. intros x. rewrite filter_In, andb_true_iff. split.
  - intros (Hx & Ha & Hd). assert (Hxc : In x cfg) by now right.
    split; [exact Hxc|]. split; [exact Ha|]. apply (is_desc_iff_h c W x q); [now apply Hbound | exact Hd].
  - intros (Hx & Ha & Hd). destruct (hanc_lt c W _ _ Hd) as [_ Hxn].
    assert (Hpx : exists p, par x = Some p) by (inversion Hd; eauto).
    destruct Hpx as (p & Hpx). split; [now apply (cfgS_cfg x p Hpx)|]. split; [exact Ha|].
    apply (is_desc_iff_h c W x q); [exact Hxn | exact Hd].
Qed.

Lemma rec_val_shallow H q : sty c H = FHistShallow ->
  exists v, rec_val c cfgS q H = Some v /\ forall x, In x v <-> In x cfg /\ par x = Some q.
Proof.
  intros Hs. unfold rec_val. rewrite Hs. eexists. split; [reflexivity|]. intros x. rewrite filter_In. fold (par x). split.
  - intros [Hx Hp]. destruct (par x) as [p|] eqn:E; [|discriminate]. apply Nat.eqb_eq in Hp. subst p. split; [now right | reflexivity].
  - intros [Hx Hp]. rewrite Hp, Nat.eqb_refl. split; [now apply (cfgS_cfg x q Hp) | reflexivity].
Qed.

Theorem record_hv_rel : hv_rel hist h -> hv_rel hist' h'.
Proof.
  intros HR H Hh. pose proof (hist_pseudo H Hh) as Hps.
  destruct (wh_pseudo_parent c W H Hps) as (q & Hq & Hkq). fold (par H) in Hq.
  rewrite (record_hv_get cfgS L h H q Hq).
  destruct (mem q L) eqn:Em.
  - apply mem_In, HL in Em. pose proof (Rh_exited H q Hh Hq Em) as HRh.
    destruct (wh_hist_cpl c W H q Hh Hq) as [Hc1 Hc2]. fold (cpl H) in Hc1, Hc2.
    assert (Hqc : In q cfg) by now apply Hexit.
    assert (Hex : exists x, Rh c hist' H x).
    { destruct (hcfg_compound_ex c W cfg Hleg q Hqc Hkq) as (k & Hpk & Hkc). exists k. apply HRh.
      split; [apply Hc2; [exact Hpk | now apply Hprop] | exact Hkc]. }
    destruct (hist_sty H Hh) as [[Hd Hs]|[Hd Hs]].
    + destruct (rec_val_deep H q Hs) as (v & Ev & Hv). rewrite Ev. split; [exact Hex|].
      intros x. rewrite Hv, HRh. split.
      * intros (Hx & Ha & Hqx). split; [|intros _; exact Ha]. split; [|exact Hx].
        apply (HDF H q x Hh Hd Hq Hqx). now apply Hprop.
      * intros [[Hx Hxc] Ha]. split; [exact Hxc|]. split; [now apply Ha|]. exact (hist_cpl_below c W H q Hh Hq x Hx).
    + destruct (rec_val_shallow H q Hs) as (v & Ev & Hv). rewrite Ev. split; [exact Hex|].
      intros x. rewrite Hv, HRh. split.
      * intros [Hx Hp]. split; [|intros E; congruence]. split; [|exact Hx]. apply Hc2; [exact Hp | now apply Hprop].
      * intros [[Hx Hxc] _]. split; [exact Hxc|]. destruct (Hc1 x Hx) as (_ & _ & [Hp|(E & _)]); [exact Hp | congruence].
  - apply mem_false_In in Em. assert (HqX : ~ In q X) by (intros F; apply Em; now apply HL).
    pose proof (Rh_kept H q Hh Hq HqX) as HRh.
    assert (E : match rec_val c cfgS q H with Some v => Some v | None => hv_get h H end = hv_get h H \/ True) by now right.
    specialize (HR H Hh). destruct (hv_get h H) as [v|].
    + destruct HR as [(x0 & Hx0) Hv]. split; [exists x0; now apply HRh|]. intros x. rewrite Hv, HRh. tauto.
    + intros x Hx. apply (HR x). now apply HRh.
Qed.

Theorem record_HistDown : HistDown hist -> HistDown hist'.
Proof.
  intros HD H x Hh Hd Hx. pose proof (hist_pseudo H Hh) as Hps.
  destruct (wh_pseudo_parent c W H Hps) as (q & Hq & Hkq). fold (par H) in Hq.
  destruct (in_dec Nat.eq_dec q X) as [HqX|HqX].
  - pose proof (Rh_exited H q Hh Hq HqX) as HRh. apply HRh in Hx as [Hx Hxc].
    pose proof (hist_cpl_below c W H q Hh Hq x Hx) as Hqx. split.
    + intros Hk. destruct (hcfg_compound_ex c W cfg Hleg x Hxc Hk) as (k & Hpk & Hkc). exists k. split; [exact Hpk|].
      apply HRh. split; [|exact Hkc]. apply (HDF H q k Hh Hd Hq); [eapply anc_step; eauto | now apply Hprop].
    + intros Hk k Hpk. pose proof (hcfg_parallel c W cfg Hleg x k Hxc Hk Hpk) as Hkc.
      apply HRh. split; [|exact Hkc]. apply (HDF H q k Hh Hd Hq); [eapply anc_step; eauto | now apply Hprop].
  - pose proof (Rh_kept H q Hh Hq HqX) as HRh. apply HRh in Hx. destruct (HD H x Hh Hd Hx) as [A B]. split.
    + intros Hk. destruct (A Hk) as (k & Hpk & Hkr). exists k. split; [exact Hpk | now apply HRh].
    + intros Hk k Hpk. apply HRh. now apply B.
Qed.

End Record.

(* ------------------------------------------------------------------ what the relation says about the values *)

Section Values.
Variable hist : list nat.
Variable h : hv.
Hypothesis HH : HistOK c hist.
Hypothesis HD : HistDown hist.
Hypothesis HR : hv_rel hist h.
Hypothesis HPAR : forall s, s < n -> kd s = FParallel -> fs_children (st c s) <> [].
(* atomic and final states have no children *)
Hypothesis Hleaf : forall x k, is_atomic_state c x = true -> par k <> Some x.

Lemma frag_up q (S : nat -> Prop) g x : Frag c q S -> S g -> Anc x g -> Anc q x -> S x.
Proof.
  intros HF Hg Hxg. revert Hg. induction Hxg as [g p Hp|g p x Hp Hxp IH]; intros Hg Hqx.
  - destruct (fr_par c q S HF g p Hg Hp) as [->|Hs]; [exfalso; exact (hanc_irrefl c W _ Hqx) | exact Hs].
  - destruct (fr_par c q S HF g p Hg Hp) as [->|Hs]; [exfalso; exact (hanc_antisym c W _ _ Hqx Hxp) | now apply IH].
Qed.

Lemma anc_sib_absurd j k1 k2 : par k1 = Some j -> par k2 = Some j -> Anc k1 k2 -> False.
Proof.
  intros H1 H2 Ha. destruct (wh_par_lt c W _ _ H1) as [L1 _].
  destruct (anc_child par _ _ _ H2 Ha) as [->|F]; [lia|]. destruct (hanc_lt c W _ _ F). lia.
Qed.

(* two children of j on the path to y coincide *)
Lemma sibling_on_path j k1 k2 y : par k1 = Some j -> par k2 = Some j -> (k1 = y \/ Anc k1 y) -> (k2 = y \/ Anc k2 y) -> k1 = k2.
Proof.
  intros H1 H2 [->|A1] [->|A2]; [reflexivity | | |].
  - exfalso. exact (anc_sib_absurd j k2 y H2 H1 A2).
  - exfalso. exact (anc_sib_absurd j k1 y H1 H2 A1).
  - destruct (hanc_chain c k1 k2 y A1 A2) as [F|[F|F]]; [exact F | exfalso; exact (anc_sib_absurd j k1 k2 H1 H2 F) | exfalso; exact (anc_sib_absurd j k2 k1 H2 H1 F)].
Qed.

(* members of a fragment name at most one child of every compound state *)
Lemma frag_one_child q (S : nat -> Prop) v : kd q = FCompound -> Frag c q S -> (forall g, In g v -> S g) -> one_child_per_compound c v.
Proof.
  intros Hkq HF Hv j k1 k2 g1 g2 Hj H1 H2 Hg1 Hg2 P1 P2.
  assert (Hbelow : forall k g, par k = Some j -> In g v -> on_pathP c k g -> Anc j g).
  { intros k g Hk Hg [->|Ha]; [now apply anc_parent | eapply (hanc_trans c); [apply anc_parent; exact Hk | exact Ha]]. }
  pose proof (fr_below c q S HF g1 (Hv g1 Hg1)) as Hq1.
  pose proof (Hbelow k1 g1 H1 Hg1 P1) as Hj1.
  assert (HS : forall k g, par k = Some j -> In g v -> on_pathP c k g -> Anc q k -> S k).
  { intros k g Hk Hg [->|Ha] Hqk; [now apply Hv | exact (frag_up q S g k HF (Hv g Hg) Ha Hqk)]. }
  destruct (hanc_chain c j q g1 Hj1 Hq1) as [E|[E|E]].
  - subst j. apply (fr_uniq c q S HF q k1 k2 Hkq H1 H2).
    + apply (HS k1 g1 H1 Hg1 P1). now apply anc_parent.
    + apply (HS k2 g2 H2 Hg2 P2). now apply anc_parent.
  - (* j above q: both children lie on the path to q *)
    assert (Hon : forall k g, par k = Some j -> In g v -> on_pathP c k g -> k = q \/ Anc k q).
    { intros k g Hk Hg Pk. pose proof (fr_below c q S HF g (Hv g Hg)) as Hqg.
      destruct Pk as [->|Hkg].
      - exfalso. apply (hanc_antisym c W j q E). inversion Hqg as [? p Hp|? p ? Hp Hqp]; subst.
        + unfold par in Hk. rewrite Hk in Hp. injection Hp as ->. exact (False_ind _ (hanc_irrefl c W _ E)).
        + unfold par in Hk. rewrite Hk in Hp. injection Hp as <-. exact Hqp.
      - destruct (hanc_chain c k q g Hkg Hqg) as [F|[F|F]]; [now left | now right|].
        exfalso. destruct (anc_child par _ _ _ Hk F) as [->|Hqj]; [exact (hanc_irrefl c W _ E) | exact (hanc_antisym c W _ _ E Hqj)]. }
    exact (sibling_on_path j k1 k2 q H1 H2 (Hon k1 g1 H1 Hg1 P1) (Hon k2 g2 H2 Hg2 P2)).
  - apply (fr_uniq c q S HF j k1 k2 Hj H1 H2).
    + apply (HS k1 g1 H1 Hg1 P1). eapply anc_step; [exact H1 | exact E].
    + apply (HS k2 g2 H2 Hg2 P2). eapply anc_step; [exact H2 | exact E].
Qed.

(* below every recorded state of a deep history there is a recorded atomic state *)
Lemma deep_leaf H : histS c H = true -> deepS c H = true -> forall x, Rh c hist H x ->
  exists g, Rh c hist H g /\ is_atomic_state c g = true /\ on_pathP c x g.
Proof.
  intros Hh Hd. assert (Hgen : forall m x, n - x <= m -> Rh c hist H x ->
    exists g, Rh c hist H g /\ is_atomic_state c g = true /\ on_pathP c x g).
  { induction m as [|m IH]; intros x Hm Hx.
    - exfalso. destruct Hx as [Hx _]. pose proof (hist_pseudo H Hh) as Hps.
      destruct (wh_pseudo_parent c W H Hps) as (q & Hq & _). destruct (wh_hist_cpl c W H q Hh Hq) as [Hc _].
      destruct (Hc x Hx) as (Hxn & _). unfold n in Hm. lia.
    - pose proof (proj1 HH x (proj2 Hx)) as Hpx. destruct (HD H x Hh Hd Hx) as [Hc Hp].
      assert (Hstep : forall k, par k = Some x -> Rh c hist H k -> exists g, Rh c hist H g /\ is_atomic_state c g = true /\ on_pathP c x g).
      { intros k Hk Hkr. destruct (wh_par_lt c W _ _ Hk) as [Hlt Hkn]. destruct (IH k ltac:(unfold n in *; lia) Hkr) as (g & A & B & C).
        exists g. split; [exact A|]. split; [exact B|]. right. destruct C as [->|C]; [now apply anc_parent|].
        eapply (hanc_trans c); [apply anc_parent; exact Hk | exact C]. }
      unfold pseudoS, is_pseudo in Hpx. fold (kd x) in Hpx. destruct (kd x) eqn:Hk; try discriminate.
      + exists x. split; [exact Hx|]. split; [unfold is_atomic_state, sty; fold (kd x); now rewrite Hk | now left].
      + destruct (Hc eq_refl) as (k & Hpk & Hkr). exact (Hstep k Hpk Hkr).
      + assert (Hxn : x < n).
        { destruct Hx as [Hx _]. pose proof (hist_pseudo H Hh) as Hps. destruct (wh_pseudo_parent c W H Hps) as (q & Hq & _).
          destruct (wh_hist_cpl c W H q Hh Hq) as [Hc1 _]. now destruct (Hc1 x Hx). }
        pose proof (HPAR x Hxn Hk) as Hne. destruct (fs_children (st c x)) as [|k r] eqn:Ech; [congruence|].
        assert (Hpk : par k = Some x) by (apply (wh_children c W); rewrite Ech; now left).
        exact (Hstep k Hpk (Hp eq_refl k Hpk)).
      + exists x. split; [exact Hx|]. split; [unfold is_atomic_state, sty; fold (kd x); now rewrite Hk | now left]. }
  intros x Hx. exact (Hgen (n - x) x (le_n _) Hx).
Qed.

Theorem hv_value_facts H q v : histS c H = true -> par H = Some q -> hv_get h H = Some v ->
  v <> [] /\
  (forall x, In x v -> Anc q x /\ pseudo x = false /\ (deepS c H = false -> par x = Some q)) /\
  one_child_per_compound c v /\
  (forall g1 g2, In g1 v -> In g2 v -> ~ Anc g1 g2) /\
  (forall x, Rh c hist H x <-> IC c q v x).
Proof.
  intros Hh Hq Hv. pose proof (HR H Hh) as HRH. rewrite Hv in HRH. destruct HRH as [(x0 & Hx0) Hmem].
  pose proof (hist_pseudo H Hh) as Hps. destruct (wh_pseudo_parent c W H Hps) as (q' & Hq' & Hkq).
  fold (par H) in Hq'. rewrite Hq in Hq'. injection Hq' as <-.
  destruct (wh_hist_cpl c W H q Hh Hq) as [Hc1 Hc2]. fold (cpl H) in Hc1, Hc2.
  destruct (proj2 HH H q Hh Hq) as [Hnone|HF]; [exfalso; exact (Hnone x0 Hx0)|].
  assert (HvS : forall g, In g v -> Rh c hist H g) by (intros g Hg; now apply Hmem in Hg).
  assert (Hshallow : deepS c H = false -> forall x, Rh c hist H x -> par x = Some q).
  { intros Hd x [Hx _]. destruct (Hc1 x Hx) as (_ & _ & [Hp|(E & _)]); [exact Hp | congruence]. }
  split; [|split; [|split; [|split]]].
  - destruct (deepS c H) eqn:Hd.
    + destruct (deep_leaf H Hh Hd x0 Hx0) as (g & A & B & _). intros E.
      assert (Hg : In g v) by (apply Hmem; auto). rewrite E in Hg. destruct Hg.
    + intros E. assert (Hg : In x0 v) by (apply Hmem; split; [exact Hx0 | intros F; discriminate]). rewrite E in Hg. destruct Hg.
  - intros x Hx. pose proof (HvS x Hx) as Hr. split; [exact (fr_below c q _ HF x Hr)|].
    split; [exact (proj1 HH x (proj2 Hr)) | intros Hd; exact (Hshallow Hd x Hr)].
  - exact (frag_one_child q _ v Hkq HF HvS).
  - intros g1 g2 Hg1 Hg2 Ha. destruct (deepS c H) eqn:Hd.
    + apply Hmem in Hg1 as [_ A1]. specialize (A1 eq_refl).
      inversion Ha as [? p Hp|? p ? Hp Hgp]; subst.
      * exact (Hleaf g1 g2 A1 Hp).
      * destruct (hanc_child_on_path c g1 p Hgp) as (k & Hk & _). exact (Hleaf g1 k A1 Hk).
    + pose proof (Hshallow eq_refl g1 (HvS g1 Hg1)) as P1. pose proof (Hshallow eq_refl g2 (HvS g2 Hg2)) as P2.
      destruct (anc_child par _ _ _ P2 Ha) as [->|F].
      * unfold par in P1. destruct (wh_par_lt c W _ _ P1). lia.
      * destruct (wh_par_lt c W _ _ P1). destruct (hanc_lt c W _ _ F). lia.
  - intros x. split.
    + intros Hx. split; [exact (fr_below c q _ HF x Hx)|]. destruct (deepS c H) eqn:Hd.
      * destruct (deep_leaf H Hh Hd x Hx) as (g & A & B & C). exists g. split; [apply Hmem; auto | exact C].
      * exists x. split; [apply Hmem; split; [exact Hx | intros F; discriminate] | now left].
    + intros [Hqx (g & Hg & Hon)]. destruct Hon as [->|Hxg]; [now apply HvS|].
      exact (frag_up q _ g x HF (HvS g Hg) Hxg Hqx).
Qed.

(* no value: nothing recorded; the engine's test *)
Lemma hv_none_iff H : histS c H = true -> (hv_get h H = None <-> intersects (cpl H) hist = false).
Proof.
  intros Hh. pose proof (HR H Hh) as HRH. split.
  - intros E. rewrite E in HRH. destruct (intersects (cpl H) hist) eqn:Ei; [|reflexivity].
    exfalso. apply intersects_spec in Ei as (x & H1 & H2). exact (HRH x (conj H1 H2)).
  - intros Ei. destruct (hv_get h H) as [v|]; [|reflexivity]. exfalso. destruct HRH as [(x & H1 & H2) _].
    assert (intersects (cpl H) hist = true) by (apply intersects_spec; exists x; auto). congruence.
Qed.

End Values.

End HRel.
