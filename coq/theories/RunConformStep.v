(* RunConformStep.v -- C01, run-level composition, layer 3: one call of LargeMicroStep::step (Large.large_step, ALL
   branches) against the part of Appendix D's interpret()/mainEventLoop() that corresponds to it.

   Appendix D is one loop; step() is one pass through a state machine whose program counter are the context
   flags (FINISHED, TOP_LEVEL_FINAL, PRISTINE/INITIALIZED, SPONTANEOUS, STABLE).  [spec_step] is Appendix D cut at
   the points where step() returns: which piece of the loop is due is read off the engine's flags.
     FINISHED            nothing (absorbing)
     TOP_LEVEL_FINAL     exitInterpreter (running = false <-> TOP_LEVEL_FINAL, MicroConform.corr)
     pristine            global data, enterStates([doc.initial.transition])
     SPONTANEOUS         selectEventlessTransitions; microstep if any
     internal queue      dequeue, selectTransitions(event); microstep if any
     no STABLE yet       nothing: the onStable notification has no counterpart in Appendix D
     external queue      dequeue (blocking in Appendix D, non-blocking here), selectTransitions; microstep if any
     empty               nothing (IDLE); a cancelled interpreter: running = false
   [rsim] relates the two sides; [large_step_conforms_lemma] says one call of step(), followed by the two tokens the
   driver loop records (return code, configuration), leads from related states to related states.
   The run-level composition (RunConformLoop.v) shows that the pieces are executed in the order of Appendix D's loop. *)
From V Require Import Base NameMatch NameMatchLemmas Chart Exec Large LargeLemmas Spec Legal SetLemmas LegalAbstract LegalLarge
  Interp LegalRun WfCore LegalOracle LargeCacheLemmas ExitSetLemmas SelectConform SelectConformLemmas SelectConformOrder
  SelectConformRoot SelectConformFlatten MicroConform MicroConformLemmas MicroConformEntry MicroConformCompose MicroConformFlatten
  Serialize SerializeCongLemmas RunConformBase RunConformTok RunConformMicro RunConformInit.
Local Open Scope nat_scope.

(* ------------------------------------------------------------------ Appendix D in pieces *)

Definition mkext (nm : bytes) : event := {| ev_name := nm; ev_kind := EvExternal |}.

(* selectTransitions / selectEventlessTransitions and, if the set is not empty, microstep *)
Definition spec_select_step (c : fchart) (s : sstate) (x : xstate) (ev : option event) : sstate * xstate :=
  let '(en, x1) := select_transitions c (s_cfg s) (s_hv s) ev x in
  match en with
  | [] => (s, x1)
  | _ => spec_microstep_d c (diag c (s_hv s) (s_cfg s) ev x) en s x1
  end.

Definition deq_int (x : xstate) (e : event) (r : list event) : xstate :=
  emit (TEv (ev_name e)) {| x_store := x_store x; x_iq := r; x_eq := x_eq x; x_out := x_out x |}.
Definition deq_ext (x : xstate) (e : event) (r : list event) : xstate :=
  emit (TEv (ev_name e)) {| x_store := x_store x; x_iq := x_iq x; x_eq := r; x_out := x_out x |}.

Definition stop_running (s : sstate) : sstate :=
  {| s_cfg := s_cfg s; s_hv := s_hv s; s_running := false; s_entered := s_entered s |}.

Definition spec_step (c : fchart) (l : lstate) (s : sstate) (x : xstate) : sstate * xstate :=
  if l_fin l then (s, x)
  else if l_tlf l then (s, exit_interpreter c s x)
  else if is_pristine l then spec_init c x
  else if l_spont l then spec_select_step c s x None
  else
    match x_iq x with
    | e :: r => spec_select_step c s (deq_int x e r) (Some e)
    | [] =>
      if negb (l_stable l) then (s, x)
      else match x_eq x with
           | e :: r => spec_select_step c s (deq_ext x e r) (Some e)
           | [] => if l_cancelled l then (stop_running s, x) else (s, x)
           end
    end.

(* ------------------------------------------------------------------ the boolean conditions *)

(* static *)
Definition root_onexit_emptyb (c : fchart) : bool := match fs_onexit (st c 0) with [] => true | _ => false end.
Definition root_compoundb (c : fchart) : bool := match fs_type (st c 0) with FCompound => true | _ => false end.

Definition static_okb (c : fchart) : bool :=
  wf_coreb c && root_compoundb c && par_nonemptyb c && root_unmentionedb c && targets_antichainb c && done_okb c &&
  root_silentb c && chart_named c && root_onexit_emptyb c.

(* the dynamic hypotheses of selection_conforms *)
Definition sel_guardb (c : fchart) (cfg : list nat) (ev : option event) (x : xstate) : bool :=
  unrelated_enabledb c cfg ev x && conds_pureb c cfg x && descs_okb c cfg ev.

Definition namedb (e : event) : bool := match ev_name e with [] => false | _ => true end.

(* exitInterpreter removes a state from the configuration after its onexit handlers; LargeMicroStep leaves the
   configuration as it is while it runs the handlers.  The difference is invisible if no handler of an active
   state asks In() about an active state that comes later in document order (exited before it). *)
Definition compl_guardb (c : fchart) (cfg : list nat) : bool :=
  forallb (fun i => forallb (fun j => negb (i <? j) || negb (MicroConform.mentions_bs (fs_sid (st c j)) (fs_onexit (st c i)))) cfg) cfg.

(* what the step that is due looks at *)
Definition step_guardb (c : fchart) (l : lstate) (x : xstate) : bool :=
  if l_fin l then true
  else if l_tlf l then compl_guardb c (l_cfg l)
  else if is_pristine l then true
  else if l_spont l then sel_guardb c (l_cfg l) None x
  else
    match x_iq x with
    | e :: r => namedb e && sel_guardb c (l_cfg l) (Some e) (deq_int x e r)
    | [] =>
      if negb (l_stable l) then true
      else match x_eq x with
           | e :: r => namedb e && sel_guardb c (l_cfg l) (Some e) (deq_ext x e r)
           | [] => true
           end
    end.

(* ------------------------------------------------------------------ the relation *)

Definition noev (c : fchart) (s : sstate) (xs : xstate) : Prop :=
  select_transitions c (s_cfg s) (s_hv s) None xs = ([], xs).

Definition rphase (c : fchart) (l : lstate) (s : sstate) (xs : xstate) : Prop :=
  (is_pristine l = true /\ l_cfg l = [] /\ l_initd l = []) \/
  (l_init l = true /\ corr c l s /\ LegalCfg c (l_cfg l) /\ ssorted (l_cfg l) /\
   (l_fin l = false -> l_tlf l = false -> l_spont l = false -> noev c s xs)).

Record rsim (c : fchart) (l : lstate) (xl : xstate) (s : sstate) (xs : xstate) : Prop := {
  rs_dyn : same_dyn xl xs;
  rs_veq : veq (fs_sid (st c 0)) (x_out xl) (x_out xs);
  rs_want : vw (fs_sid (st c 0)) false (rev (x_out xl)) = false;
  rs_phase : rphase c l s xs
}.

(* the two tokens of the driver loop (Interp.run_loop) *)
Definition loop_toks (c : fchart) (l1 : lstate) (rc : N) (x1 : xstate) : xstate :=
  emit (cfg_tok c lstate l_cfg l1) (emit (TRet rc) x1).

Lemma veq_loop_toks c l1 rc x1 o2 :
  vw (fs_sid (st c 0)) false (rev (x_out x1)) = false -> veq (fs_sid (st c 0)) (x_out x1) o2 ->
  veq (fs_sid (st c 0)) (x_out (loop_toks c l1 rc x1)) o2 /\ vw (fs_sid (st c 0)) false (rev (x_out (loop_toks c l1 rc x1))) = false.
Proof.
  intros Hw Hv. unfold loop_toks, cfg_tok. cbn [emit x_out]. split; [|apply vw_cfg].
  apply veq_cfg_unwanted_l.
  - rewrite vw_same; [exact Hw | reflexivity].
  - apply veq_drop_l; [reflexivity | exact Hv].
Qed.

(* ------------------------------------------------------------------ static facts *)

Lemma static_parts c : static_okb c = true ->
  wf_coreb c = true /\ fs_type (st c 0) = FCompound /\ par_nonemptyb c = true /\ root_unmentionedb c = true /\
  targets_antichainb c = true /\ done_okb c = true /\ root_silentb c = true /\ chart_named c = true /\ fs_onexit (st c 0) = [].
Proof.
  unfold static_okb. intros H. do 8 (apply andb_true_iff in H as [H ?]).
  repeat split; try assumption.
  - unfold root_compoundb in *. destruct (fs_type (st c 0)); try discriminate; reflexivity.
  - unfold root_onexit_emptyb in *. destruct (fs_onexit (st c 0)); [reflexivity | discriminate].
Qed.

Lemma flatten_root_onentry late t0 : fs_onentry (st (flatten late t0) 0) = [].
Proof.
  destruct (Nat.lt_ge_cases 0 (nstates (flatten late t0))) as [Hlt|Hge].
  - revert Hlt. unfold nstates, st, flatten. cbn [fc_states]. rewrite map_length, combine_length, seq_length, Nat.min_id.
    intros Hs. set (nodes := doc_nodes (resort t0) 0 None) in *.
    set (g := fun p : tree * option nat * nat => let '(t1, parent, j) := p in _).
    rewrite (nth_indep _ dummy_state (g ((resort t0, None), 0))) by (now rewrite map_length, combine_length, seq_length, Nat.min_id).
    rewrite map_nth, combine_nth by (now rewrite seq_length).
    rewrite seq_nth by exact Hs. cbn [plus].
    destruct (nth 0 nodes (resort t0, None)) as [t1 p1]. unfold g. reflexivity.
  - unfold st. rewrite nth_overflow by exact Hge. reflexivity.
Qed.

Lemma microstep_flags c l x tg ex ts ini :
  let l1 := fst (microstep lg_fixed ex_fixed c l x tg ex ts ini) in
  l_init l1 = true /\ l_spont l1 = true /\ l_fin l1 = l_fin l /\ l_stable l1 = l_stable l /\ l_cancelled l1 = l_cancelled l.
Proof.
  unfold microstep. cbn zeta.
  destruct (entry_set lg_fixed c _ _ _ _ _) as [es ts']. destruct (fold_left (exit_one ex_fixed c) _ _) as [cfg1 x2].
  cbn [fst l_init l_spont l_fin l_stable l_cancelled]. repeat split.
Qed.

(* ------------------------------------------------------------------ exitInterpreter *)

Definition sx_step (c : fchart) (acc : list nat * xstate) (i : nat) : list nat * xstate :=
  let '(cfg, x) := acc in (set_remove i cfg, exec_blocks ex_fixed (inst_of c cfg) (fs_onexit (st c i)) x).

Lemma exit_interpreter_fold c s x :
  exit_interpreter c s x = emit TComplE (snd (fold_left (sx_step c) (rev (s_cfg s)) (s_cfg s, emit TComplB x))).
Proof.
  unfold exit_interpreter. cbn zeta.
  change (fun (acc : list nat * xstate) (i : nat) => let '(cfg, x0) := acc in
            (set_remove i cfg, exec_blocks ex_fixed (inst_of c cfg) (fs_onexit (st c i)) x0)) with (sx_step c).
  destruct (fold_left (sx_step c) (rev (s_cfg s)) (s_cfg s, emit TComplB x)) as [cf x2]. reflexivity.
Qed.

Definition remove_all (X cur : list nat) : list nat := fold_left (fun cf j => set_remove j cf) X cur.

Lemma In_remove_all X : forall cur y, In y (remove_all X cur) <-> In y cur /\ ~ In y X.
Proof.
  unfold remove_all. induction X as [|j X IH]; intros cur y; cbn [fold_left In]; [tauto|].
  rewrite IH, In_set_remove. intuition.
Qed.

Lemma compl_fold c full : forall X cur x,
  (forall X1 i X2, X = X1 ++ i :: X2 ->
     agree_on (inst_of c full) (inst_of c (remove_all X1 cur)) (fun sid => MicroConform.mentions_bs sid (fs_onexit (st c i)))) ->
  snd (fold_left (sx_step c) X (cur, x)) =
  fold_left (fun x i => exec_blocks ex_fixed (inst_of c full) (fs_onexit (st c i)) x) X x.
Proof.
  induction X as [|i X IH]; intros cur x H; cbn [fold_left]; [reflexivity|].
  unfold sx_step at 2. rewrite <- (exec_blocks_ext (inst_of c full) (inst_of c cur)) by (apply (H [] i X eq_refl)).
  apply IH. intros X1 j X2 E. subst X. exact (H (i :: X1) j X2 eq_refl).
Qed.

Lemma ssorted_app_cons a i b : ssorted (a ++ i :: b) -> forall j, In j b -> i < j.
Proof.
  induction a as [|y a IH]; cbn [app ssorted]; intros [H1 H2] j Hj; [now apply H1 | now apply IH].
Qed.

Lemma inst_of_In c cfg sid : inst_of c cfg sid = true <-> exists j, In j cfg /\ fs_sid (st c j) = sid.
Proof.
  unfold inst_of. rewrite existsb_exists. split; intros (j & Hj & E); exists j; (split; [exact Hj|]); now apply N.eqb_eq.
Qed.

Lemma compl_conforms c cs x :
  fs_onexit (st c 0) = [] ->
  (forall i, MicroConform.mentions_bs (fs_sid (st c 0)) (fs_onexit (st c i)) = false) ->
  ssorted cs -> compl_guardb c (0 :: cs) = true ->
  fold_left (fun x i => exec_blocks ex_fixed (inst_of c (0 :: cs)) (fs_onexit (st c i)) x) (rev (0 :: cs)) x =
  snd (fold_left (sx_step c) (rev cs) (cs, x)).
Proof.
  intros Hox Hsil Hs Hg. cbn [rev]. rewrite fold_left_app. cbn [fold_left]. rewrite Hox. unfold exec_blocks at 1. cbn [fold_left].
  symmetry. apply compl_fold. intros X1 i X2 E sid Hm.
  assert (Hcs : cs = rev X2 ++ i :: rev X1).
  { rewrite <- (rev_involutive cs), E, rev_app_distr. cbn [rev]. now rewrite <- app_assoc. }
  assert (Hi : In i cs) by (rewrite Hcs; apply in_or_app; right; now left).
  assert (Hlt : forall j, In j X1 -> i < j).
  { intros j Hj. apply (ssorted_app_cons (rev X2) i (rev X1)); [now rewrite <- Hcs | now apply in_rev in Hj]. }
  assert (Hroot : (fs_sid (st c 0) =? sid)%N = false).
  { apply N.eqb_neq. intros <-. rewrite Hsil in Hm. discriminate. }
  unfold inst_of at 1. cbn [existsb]. rewrite Hroot. cbn [orb]. fold (inst_of c cs sid).
  apply eq_iff_eq_true. rewrite !inst_of_In. split.
  - intros (j & Hj & Ej). exists j. split; [|exact Ej]. apply In_remove_all. split; [exact Hj|].
    intros HjX. unfold compl_guardb in Hg. rewrite forallb_forall in Hg.
    specialize (Hg i (or_intror Hi)). rewrite forallb_forall in Hg. specialize (Hg j (or_intror Hj)).
    apply orb_true_iff in Hg as [Hg|Hg].
    + apply negb_true_iff, Nat.ltb_ge in Hg. specialize (Hlt j HjX). lia.
    + apply negb_true_iff in Hg. rewrite Ej in Hg. congruence.
  - intros (j & Hj & Ej). apply In_remove_all in Hj as [Hj _]. exists j. tauto.
Qed.

Lemma fold_onexit_E c inst X : chart_named c = true -> forall ox oy x y, RxE ox oy x y ->
  RxE ox oy (fold_left (fun x i => exec_blocks ex_fixed inst (fs_onexit (st c i)) x) X x)
            (fold_left (fun x i => exec_blocks ex_fixed inst (fs_onexit (st c i)) x) X y).
Proof.
  intros Hn ox oy. induction X as [|i rr IH]; intros x y H; cbn [fold_left]; [exact H|].
  apply IH. apply (exec_blocks_E c); [apply (onexit_named c Hn) | exact H].
Qed.

Lemma fold_onexit_quiet r c inst X : forall x,
  quiet r x (fold_left (fun x i => exec_blocks ex_fixed inst (fs_onexit (st c i)) x) X x).
Proof.
  induction X as [|i rr IH]; intros x; cbn [fold_left]; [apply quiet_refl|].
  eapply quiet_trans; [apply exec_blocks_quiet | apply IH].
Qed.

(* ------------------------------------------------------------------ selection + microstep *)

Record xsim (r : N) (xl xs : xstate) : Prop := {
  xs_dyn : same_dyn xl xs;
  xs_veq : veq r (x_out xl) (x_out xs);
  xs_want : vw r false (rev (x_out xl)) = false
}.

Section Step.
Variable late : bool.
Variable t0 : tree.
Notation c := (flatten late t0).
Notation r := (fs_sid (st c 0)).
Hypothesis Hstatic : static_okb c = true.

Lemma select_step_conforms l s xl xs ev :
  l_init l = true -> corr c l s -> LegalCfg c (l_cfg l) -> ssorted (l_cfg l) ->
  xsim r xl xs -> sel_guardb c (l_cfg l) ev xl = true ->
  let rl := select_and_step lg_fixed ex_fixed c l xl ev in
  let q := spec_select_step c s xs ev in
  let l1 := fst (fst rl) in
  snd rl = RC_MICROSTEPPED /\
  rsim c l1 (loop_toks c l1 (snd rl) (snd (fst rl))) (fst q) (snd q) /\
  l_fin l1 = l_fin l /\ l_cancelled l1 = l_cancelled l /\ s_hv (fst q) = s_hv s /\
  (* which piece of the loop this was *)
  (fst (select_transitions c (s_cfg s) (s_hv s) ev xs) = [] -> q = (s, xs) /\ l_spont l1 = match ev with Some _ => true | None => false end) /\
  (fst (select_transitions c (s_cfg s) (s_hv s) ev xs) <> [] -> l_spont l1 = true) /\
  snd (select_transitions c (s_cfg s) (s_hv s) ev xs) = xs.
Proof.
  intros Hinit Hcorr HL Hs [Hdyn Hveq Hwant] Hg.
  destruct (static_parts c Hstatic) as (Hwf & Hroot & Hpar & Hun & Hanti & Hfin & Hsil & Hnamed & Hox).
  pose proof (wf_coreb_sound c Hwf) as W.
  pose proof (legal_configb_complete c _ W HL (ssorted_NoDup _ Hs)) as Hleg.
  pose proof (ssorted_ascb _ Hs) as Hasc.
  unfold sel_guardb in Hg. apply andb_true_iff in Hg as [Hg G3]. apply andb_true_iff in Hg as [G1 G2].
  assert (Hst : x_store xl = x_store xs) by (destruct Hdyn as (A & _); exact A).
  assert (G1s : unrelated_enabledb c (l_cfg l) ev xs = true) by (now rewrite <- (unrelated_enabledb_store c _ ev xl xs Hst)).
  assert (G2s : conds_pureb c (l_cfg l) xs = true) by (now rewrite <- (conds_pureb_store c _ xl xs Hst)).
  destruct (enabled_transitions_conform_lemma c (l_cfg l) ev xl Hwf (trans_order_flatten late t0) Hpar Hleg Hasc G1 G2 G3) as (_ & El & _).
  destruct (enabled_transitions_conform_lemma c (l_cfg l) ev xs Hwf (trans_order_flatten late t0) Hpar Hleg Hasc G1s G2s G3) as (_ & Es & _).
  pose proof Hcorr as (Hc & Ht & Hd).
  pose proof (selection_conforms_spec_cfg_lemma late t0 (s_cfg s) ev xs (s_hv s)) as Hsp. cbn zeta in Hsp.
  rewrite <- Hc in Hsp. specialize (Hsp Hwf Hroot Hpar Hun Hleg Hasc G1s G2s G3).
  destruct (select_loop_E c (x_out xs) (x_out xl) (l_cfg l) ev (cfg_postfix c (l_cfg l)) None [] xs xl
              (RxE_intro xs xl (same_dyn_sym _ _ Hdyn))) as [Hfst _].
  set (sel := fst (select_loop lg_fixed c (l_cfg l) ev (cfg_postfix c (l_cfg l)) None [] xs)) in *.
  assert (Esl : select_loop lg_fixed c (l_cfg l) ev (cfg_postfix c (l_cfg l)) None [] xl = (sel, xl)).
  { rewrite Hfst. rewrite El. reflexivity. }
  assert (Ess : select_transitions c (s_cfg s) (s_hv s) ev xs = (sel, xs)).
  { rewrite <- Hsp. unfold sel. rewrite Es. reflexivity. }
  pose proof (select_and_step_legal c ex_fixed W l xl ev HL) as HL1.
  pose proof (select_and_step_ssorted lg_fixed ex_fixed c l xl ev Hs) as Hs1.
  pose proof (body_selected_conforms_lemma late t0 (upd_flags l (l_spont l) false) s ev xs
                (emit (TDiag (diag c (s_hv s) (s_cfg s) ev xs)) (emit TMsB xs)) Hwf Hpar Hanti Hfin Hsil Hleg Hcorr) as HB.
  cbn zeta in HB. change (l_cfg (upd_flags l (l_spont l) false)) with (l_cfg l) in HB. fold sel in HB.
  revert HL1 Hs1. cbn zeta. unfold select_and_step, spec_select_step. cbn zeta.
  change (l_cfg (upd_flags l (l_spont l) false)) with (l_cfg l).
  rewrite Esl, Ess. cbn [fst snd].
  destruct sel as [|t rr] eqn:Esel.
  - (* nothing enabled *)
    cbn [fst snd]. intros HL1 Hs1.
    split; [reflexivity|]. split; [|repeat split; try reflexivity; try tauto; intros H; now elim H].
    destruct (veq_loop_toks c (upd_flags (upd_flags l (l_spont l) false) match ev with Some _ => true | None => false end false)
                RC_MICROSTEPPED xl (x_out xs) Hwant Hveq) as [V1 V2].
    constructor; [exact Hdyn | exact V1 | exact V2|].
    right. cbn [l_init l_cfg upd_flags l_fin l_tlf l_spont]. split; [exact Hinit|]. split; [exact Hcorr|].
    split; [exact HL|]. split; [exact Hs|]. intros _ _ Hsp0. destruct ev; [discriminate|]. exact Ess.
  - (* a microstep *)
    rewrite <- Esel in *.
    change (fold_left (fun a ti => set_union a (ft_targets (tr c ti))) sel []) with (sel_targets c sel).
    change (fold_left (fun a ti => set_union a (exit_states_of lg_fixed c (l_cfg l) (tr c ti))) sel []) with (sel_exitset c (l_cfg l) sel).
    rewrite spec_microstep_d_body.
    set (x0 := emit (TDiag (diag c (s_hv s) (s_cfg s) ev xs)) (emit TMsB xs)) in *.
    destruct (microstep_E c Hnamed (x_out x0) (x_out (emit TMsB xl)) (upd_flags l (l_spont l) false) x0 (emit TMsB xl)
                (sel_targets c sel) (sel_exitset c (l_cfg l) sel) sel false) as [M1 M2].
    { apply RxE_intro. unfold x0. destruct Hdyn as (A & B & C). repeat split; cbn; congruence. }
    apply RxE_elim in M2 as [M2 (d & M3 & M4)].
    destruct (microstep_flags c (upd_flags l (l_spont l) false) (emit TMsB xl) (sel_targets c sel) (sel_exitset c (l_cfg l) sel) sel false)
      as (F1 & F2 & F3 & F4 & F5).
    destruct HB as (B1 & B2 & B3).
    destruct (microstep lg_fixed ex_fixed c (upd_flags l (l_spont l) false) (emit TMsB xl) (sel_targets c sel) (sel_exitset c (l_cfg l) sel) sel false)
      as [l1 x2] eqn:Eml.
    destruct (microstep lg_fixed ex_fixed c (upd_flags l (l_spont l) false) x0 (sel_targets c sel) (sel_exitset c (l_cfg l) sel) sel false)
      as [l1' x2'] eqn:Ems.
    destruct (spec_body c sel s x0) as [s2 xs2] eqn:Esb.
    cbn [fst snd] in *. subst l1'. intros HL1 Hs1.
    split; [reflexivity|].
    split; [|split; [exact F3|]; split; [exact F5|]; split; [exact B3|]; split; [intros H; rewrite H in Esel; discriminate Esel|];
             split; [intros _; exact F2 | reflexivity]].
    pose proof B1 as (C1 & C2 & C3).
    constructor.
    + unfold loop_toks. cbn [emit]. subst xs2. unfold same_dyn in *. cbn [emit x_store x_iq x_eq]. destruct M2 as (A & B & C). repeat split; congruence.
    + unfold loop_toks, cfg_tok. cbn [emit x_out]. subst xs2. unfold spec_cfg_tok. cbn [emit x_out].
      rewrite C1. cbn [map]. rewrite M3, M4. apply veq_cfg. apply veq_drop_l; [reflexivity|].
      apply veq_app. unfold x0. cbn [emit x_out]. apply veq_drop_r; [reflexivity|]. now apply veq_cons.
    + unfold loop_toks. cbn [emit x_out]. apply vw_cfg.
    + right. split; [exact F1|]. split; [exact B1|]. split; [exact HL1|]. split; [exact Hs1|].
      intros _ _ Hsp0. rewrite F2 in Hsp0. discriminate.
Qed.

(* a step with no counterpart in Appendix D: the engine's configuration and queues are left alone, the tokens it
   emits are dropped by the projection *)
Lemma stutter_conforms l1 xl x1 s xs rc :
  xsim r xl xs -> same_dyn x1 xl ->
  (x_out x1 = x_out xl \/ x_out x1 = TStable :: x_out xl) ->
  rphase c l1 s xs ->
  rsim c l1 (loop_toks c l1 rc x1) s xs.
Proof.
  intros [Hdyn Hveq Hwant] Hd Ho Hph1.
  assert (Hv1 : veq r (x_out x1) (x_out xs) /\ vw r false (rev (x_out x1)) = false).
  { destruct Ho as [->| ->]; [split; assumption|]. split; [apply veq_drop_l; [reflexivity | exact Hveq]|].
    rewrite vw_same; [exact Hwant | reflexivity]. }
  destruct (veq_loop_toks c l1 rc x1 (x_out xs) (proj2 Hv1) (proj1 Hv1)) as [V1 V2].
  constructor; [|exact V1 | exact V2 | exact Hph1].
  unfold loop_toks. apply same_dyn_emit_l, same_dyn_emit_l. exact (same_dyn_trans _ _ _ Hd Hdyn).
Qed.

Lemma init_not_pristine' l : l_init l = true -> is_pristine l = false.
Proof. intros H. unfold is_pristine. rewrite H. now rewrite orb_true_r. Qed.

(* one call of step(), all branches *)
Theorem large_step_conforms_lemma l xl s xs :
  rsim c l xl s xs -> step_guardb c l xl = true ->
  let rl := large_step lg_fixed ex_fixed c l xl in
  let q := spec_step c l s xs in
  rsim c (fst (fst rl)) (loop_toks c (fst (fst rl)) (snd rl) (snd (fst rl))) (fst q) (snd q).
Proof.
  intros HR Hg.
  destruct (static_parts c Hstatic) as (Hwf & Hroot & Hpar & Hun & Hanti & Hfin & Hsil & Hnamed & Hox).
  pose proof (wf_coreb_sound c Hwf) as W.
  destruct (root_silent_parts c Hsil) as (Sen & Sex & Sbody).
  pose proof HR as [Hdyn Hveq Hwant Hph].
  pose proof Hdyn as (Dst & Diq & Deq).
  cbn zeta. unfold large_step, spec_step, step_guardb in *.
  destruct (l_fin l) eqn:Ffin.
  { (* FINISHED *) cbn [fst snd]. apply (stutter_conforms l xl xl s xs RC_FINISHED (Build_xsim r xl xs Hdyn Hveq Hwant) (same_dyn_refl _)); [now left | exact Hph]. }
  destruct (l_tlf l) eqn:Ftlf.
  { (* TOP_LEVEL_FINAL: exitInterpreter *)
    cbn [fst snd].
    destruct Hph as [(Hp & _)|(Hi & Hcorr & HL & Hs & Hno)].
    { unfold is_pristine in Hp. rewrite Ftlf, !orb_true_r in Hp. discriminate. }
    pose proof Hcorr as (Hc & Ht & Hd).
    rewrite exit_interpreter_fold.
    assert (Hs' : ssorted (s_cfg s)) by (rewrite Hc in Hs; cbn [ssorted] in Hs; tauto).
    rewrite Hc in Hg. rewrite Hc.
    set (F := fun y => fold_left (fun x i => exec_blocks ex_fixed (inst_of c (0 :: s_cfg s)) (fs_onexit (st c i)) x) (rev (0 :: s_cfg s)) y).
    assert (HF : forall ox oy x y, RxE ox oy x y -> RxE ox oy (F x) (F y)).
    { intros ox oy x y H. unfold F. now apply fold_onexit_E. }
    pose proof (HF _ _ (emit TComplB xl) (emit TComplB xs) (RxE_intro (emit TComplB xl) (emit TComplB xs) Hdyn)) as HR1.
    apply RxE_elim in HR1 as [HD1 (d & O1 & O2)].
    assert (HQ : forall x, quiet r x (F x)).
    { intros x. unfold F. apply fold_onexit_quiet. }
    rewrite <- (compl_conforms c (s_cfg s) (emit TComplB xs) Hox Sex Hs' Hg). fold (F (emit TComplB xs)). fold (F (emit TComplB xl)).
    constructor.
    - unfold loop_toks. apply same_dyn_emit_l, same_dyn_emit_l, same_dyn_emit_l, same_dyn_emit_r. exact HD1.
    - unfold loop_toks, cfg_tok. cbn [emit x_out l_cfg]. apply veq_cfg_unwanted_l.
      + rewrite vw_same; [|reflexivity]. rewrite vw_same; [|reflexivity]. rewrite (quiet_vw r _ _ (HQ (emit TComplB xl))).
        cbn [emit x_out]. rewrite vw_same; [exact Hwant | reflexivity].
      + apply veq_drop_l; [reflexivity|]. rewrite O1, O2. apply veq_cons. apply veq_app. cbn [emit x_out]. now apply veq_cons.
    - unfold loop_toks. cbn [emit x_out]. apply vw_cfg.
    - right. cbn [l_init l_cfg l_tlf l_initd l_fin]. split; [exact Hi|].
      split; [unfold corr; cbn [l_cfg l_tlf l_initd]; split; [reflexivity | split; [congruence | exact Hd]]|].
      split; [rewrite <- Hc; exact HL|]. split; [rewrite <- Hc; exact Hs|]. intros H; discriminate H. }
  destruct (is_pristine l) eqn:Fpr.
  { (* the initial microstep *)
    destruct Hph as [(Hp & Hcfg0 & Hinitd0)|(Hi & _)]; [|rewrite (init_not_pristine' l Hi) in Fpr; discriminate].
    destruct (done_okb_sound c W Hfin) as [Hfp Hfu].
    pose proof (initial_step_sec c W Hnamed Hroot (flatten_root_onentry late t0) Hsil
                  (fun Hl i Hi => match late as b return (fc_late (flatten b t0) = false -> fs_data (st (flatten b t0) i) = []) with
                                  | true => fun Hl' => False_ind _ (Bool.diff_true_false Hl')
                                  | false => fun _ => flatten_early_data t0 i Hi end Hl)
                  (par_nonemptyb_sound c Hpar) Hfp Hfu l xl xs Hp Hcfg0 Hinitd0 Hdyn) as HI.
    cbn zeta in HI.
    pose proof (initial_step_legal c ex_fixed W Hroot l (emit TMsB xl) Hp Hcfg0) as HL1.
    pose proof (microstep_ssorted lg_fixed ex_fixed c l (emit TMsB xl) (fs_completion (st c 0)) [] [] true) as Hs1.
    rewrite Hcfg0 in Hs1. specialize (Hs1 I).
    destruct (microstep lg_fixed ex_fixed c l (emit TMsB xl) (fs_completion (st c 0)) [] [] true) as [l1 x1] eqn:Em.
    destruct (spec_init c xs) as [s1 xs1] eqn:Esi.
    cbn [fst snd] in *.
    destruct HI as (C1 & Hhv & D1 & F1 & F2 & F3 & F4 & F5 & d & dg & O1 & O2).
    constructor.
    - unfold loop_toks. apply same_dyn_emit_l, same_dyn_emit_l. exact D1.
    - unfold loop_toks, cfg_tok. cbn [emit x_out]. rewrite O1, O2. unfold spec_cfg_tok.
      destruct C1 as (C1 & _). rewrite C1. cbn [map]. apply veq_cfg. apply veq_drop_l; [reflexivity|].
      apply veq_cons. apply veq_app. apply veq_drop_l; [cbn; apply N.eqb_refl|]. apply veq_drop_l; [cbn; apply N.eqb_refl|].
      apply veq_drop_r; [reflexivity|]. now apply veq_cons.
    - unfold loop_toks. cbn [emit x_out]. apply vw_cfg.
    - right. split; [exact F2|]. split; [exact C1|]. split; [exact HL1|]. split; [exact Hs1|].
      intros _ _ H. rewrite F1 in H. discriminate. }
  destruct Hph as [(Hp & _)|(Hi & Hcorr & HL & Hs & Hno)]; [congruence|].
  assert (Hsel : forall x1 x1s ev, xsim r x1 x1s -> sel_guardb c (l_cfg l) ev x1 = true ->
            let rl := select_and_step lg_fixed ex_fixed c l x1 ev in
            let q := spec_select_step c s x1s ev in
            rsim c (fst (fst rl)) (loop_toks c (fst (fst rl)) (snd rl) (snd (fst rl))) (fst q) (snd q)).
  { intros x1 x1s ev Hx Hgs. exact (proj1 (proj2 (select_step_conforms l s x1 x1s ev Hi Hcorr HL Hs Hx Hgs))). }
  destruct (l_spont l) eqn:Fsp.
  { (* eventless selection *) apply Hsel; [constructor; assumption | exact Hg]. }
  rewrite <- Diq. destruct (x_iq xl) as [|e rq] eqn:Eiq.
  - destruct (l_stable l) eqn:Fst; cbn [negb] in *.
    + rewrite <- Deq. destruct (x_eq xl) as [|e rq] eqn:Eeq.
      * (* both queues empty *)
        destruct (l_cancelled l) eqn:Fc; cbn [fst snd].
        -- apply (stutter_conforms _ xl xl (stop_running s) xs RC_CANCELLED (Build_xsim r xl xs Hdyn Hveq Hwant) (same_dyn_refl _)); [now left|].
           right. cbn [l_init l_cfg l_tlf l_initd l_fin l_spont]. split; [exact Hi|].
              destruct Hcorr as (Hc & Ht & Hd). split; [unfold corr, stop_running; cbn [l_cfg l_tlf l_initd s_cfg s_running s_entered]; auto|].
              split; [exact HL|]. split; [exact Hs|]. intros _ H. discriminate H.
        -- apply (stutter_conforms l xl xl s xs RC_IDLE (Build_xsim r xl xs Hdyn Hveq Hwant) (same_dyn_refl _)); [now left|].
           right. split; [exact Hi|]. split; [exact Hcorr|]. split; [exact HL|]. split; [exact Hs|]. intros A B _. now apply Hno.
      * (* an external event *)
        apply andb_true_iff in Hg as [Hn Hgs]. unfold namedb in Hn. destruct (ev_name e) as [|b bs] eqn:En; [discriminate|].
        rewrite <- En. unfold deq_ext in Hgs. rewrite Eiq in Hgs. apply Hsel; [|exact Hgs].
        constructor; [unfold deq_ext, same_dyn; cbn [emit x_store x_iq x_eq]; auto | unfold deq_ext; cbn [emit x_out]; now apply veq_cons |].
        unfold deq_ext. cbn [emit x_out]. rewrite vw_same; [exact Hwant | reflexivity].
    + (* the stable notification *)
      cbn [fst snd]. apply (stutter_conforms _ xl (emit TStable xl) s xs RC_MACROSTEPPED (Build_xsim r xl xs Hdyn Hveq Hwant) (same_dyn_refl _)); [now right|].
      right. cbn [upd_flags l_init l_cfg l_fin l_tlf l_spont]. split; [exact Hi|]. split; [exact Hcorr|]. split; [exact HL|]. split; [exact Hs|].
      intros A B _. now apply Hno.
  - (* an internal event *)
    apply andb_true_iff in Hg as [Hn Hgs]. unfold namedb in Hn. destruct (ev_name e) as [|b bs] eqn:En; [discriminate|].
    rewrite <- En. apply Hsel; [|exact Hgs].
    constructor; [unfold deq_int, same_dyn; cbn [emit x_store x_iq x_eq]; auto | unfold deq_int; cbn [emit x_out]; now apply veq_cons |].
    unfold deq_int. cbn [emit x_out]. rewrite vw_same; [exact Hwant | reflexivity].
Qed.


End Step.
