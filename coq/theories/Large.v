(* Large.v -- LargeMicroStep::step (src/uscxml/interpreter/LargeMicroStep.cpp) as a function.
   Model only; follows the C++ control flow (labels SELECT_TRANSITIONS, REMEMBER_HISTORY,
   ESTABLISH_ENTRYSET, EXIT_STATES, TAKE_TRANSITIONS, ENTER_STATES). *)
From V Require Import Base NameMatch Chart Exec.
Local Open Scope nat_scope.

(* points at which the pinned code deviated; repaired code has all switches off *)
Record lg_variant := {
  (* getExitSet: a domain without a following sibling got the interval up to the LAST state of the
     document instead of the last state of its own sub-tree *)
  lg_exit_overreach : bool;
  (* a target-less transition has the exit interval (0,0); `config >= 0 && config <= 0` put the
     <scxml> root into the exit set *)
  lg_targetless_exits_root : bool;
  (* a history whose parent is active and has no recorded value got neither its default transition
     nor a recorded value *)
  lg_hist_active_parent : bool
}.
Definition lg_fixed := {| lg_exit_overreach := false; lg_targetless_exits_root := false; lg_hist_active_parent := false |}.
Definition lg_pinned := {| lg_exit_overreach := true; lg_targetless_exits_root := true; lg_hist_active_parent := true |}.

Record lstate := {
  l_cfg : list nat;          (* _configuration, ascending document order *)
  l_hist : list nat;         (* _history *)
  l_initd : list nat;        (* _initializedData *)
  l_spont : bool;            (* USCXML_CTX_SPONTANEOUS *)
  l_init : bool;             (* USCXML_CTX_INITIALIZED *)
  l_tlf : bool;              (* USCXML_CTX_TOP_LEVEL_FINAL *)
  l_fin : bool;              (* USCXML_CTX_FINISHED *)
  l_stable : bool;           (* USCXML_CTX_STABLE *)
  l_cancelled : bool         (* _isCancelled *)
}.

Definition l_pristine : lstate :=
  {| l_cfg := []; l_hist := []; l_initd := []; l_spont := false; l_init := false; l_tlf := false;
     l_fin := false; l_stable := false; l_cancelled := false |}.

Definition is_pristine (l : lstate) : bool :=
  negb (l_spont l || l_init l || l_tlf l || l_fin l || l_stable l).

(* decimal rendering of state ids: the id attribute of state [sid] is "s<sid>" *)
Fixpoint dec_fuel (fuel : nat) (n : N) (acc : bytes) : bytes :=
  match fuel with
  | O => acc
  | S f => let (q, r) := N.div_eucl n 10 in
           let acc' := (48 + r)%N :: acc in
           if (q =? 0)%N then acc' else dec_fuel f q acc'
  end.
Definition dec (n : N) : bytes := dec_fuel (S (N.size_nat n)) n [].
Definition state_name (sid : N) : bytes := 115%N :: dec sid.      (* 's' *)

Section Large.
Variable v : lg_variant.
Variable xv : ex_variant.
Variable c : fchart.

Definition n_states := nstates c.

Definition is_comp (t : ftype) := match t with FCompound => true | _ => false end.
Definition is_hist (t : ftype) := match t with FHistShallow | FHistDeep => true | _ => false end.
Definition is_pseudo (t : ftype) := match t with FHistShallow | FHistDeep | FInitial => true | _ => false end.

Definition is_last_child (d : nat) : bool :=
  match fs_parent (st c d) with
  | None => true
  | Some p => match rev (fs_children (st c p)) with x :: _ => x =? d | [] => true end
  end.

(* getTransitionDomain: None = numeric_limits::max() *)
Definition domain (t : ftrans) : option nat :=
  match ft_targets t with
  | [] => None
  | tg =>
    let src := ft_source t in
    if ft_internal t && is_comp (fs_type (st c src)) &&
       forallb (fun x => mem src (fs_ancestors (st c x))) tg
    then Some src
    else
      match find (fun a => is_comp (fs_type (st c a)) && forallb (fun x => mem a (fs_ancestors (st c x))) tg)
                 (rev (fs_ancestors (st c src))) with
      | Some a => Some a
      | None => Some 0
      end
  end.

(* getExitSet: (first, second), (0,0) for an empty domain *)
Definition exit_interval (t : ftrans) : nat * nat :=
  match domain t with
  | None => (0, 0)
  | Some d =>
    let own_end := d + fs_size (st c d) - 1 in
    (S d, if lg_exit_overreach v && is_last_child d then n_states - 1 else own_end)
  end.

Definition conflicts (t1 t2 : ftrans) : bool :=
  let '(f1, s1) := exit_interval t1 in
  let '(f2, s2) := exit_interval t2 in
  negb (f1 =? 0) && negb (f2 =? 0) &&
  (((f1 <=? f2) && (f2 <=? s1)) || ((f2 <=? f1) && (f1 <=? s2))).

Definition inst_of (cfg : list nat) (sid : N) : bool :=
  existsb (fun i => (fs_sid (st c i) =? sid)%N) cfg.

(* ---- SELECT_TRANSITIONS ---- *)

(* active states that have transitions, ordered by the post-fix index of their first transition *)
Fixpoint insert_by (key : nat -> nat) (x : nat) (l : list nat) : list nat :=
  match l with
  | [] => [x]
  | y :: r => if key x <? key y then x :: l else y :: insert_by key x r
  end.
Definition first_trans (s : nat) : nat := hd 0 (fs_trans (st c s)).
Definition cfg_postfix (cfg : list nat) : list nat :=
  fold_left (fun a s => insert_by first_trans s a)
            (filter (fun s => match fs_trans (st c s) with [] => false | _ => true end) cfg) [].

(* after a selection in [cur]: skip the following states as long as each is the parent of the one before *)
Fixpoint drop_parents (cur : nat) (l : list nat) {struct l} : list nat :=
  match l with
  | [] => []
  | y :: r => match fs_parent (st c cur) with
              | Some p => if p =? y then drop_parents y r else l
              | None => l
              end
  end.

(* the first transition of the state's list that passes all tests *)
Fixpoint pick_trans (cfg : list nat) (ev : option event) (selected : list nat) (ts : list nat) (x : xstate)
  : option nat * xstate :=
  match ts with
  | [] => (None, x)
  | ti :: r =>
    let t := tr c ti in
    if ft_history t || ft_initial t then pick_trans cfg ev selected r x
    else if match ev with
            | Some _ => ft_spontaneous t
            | None => negb (ft_spontaneous t)
            end then pick_trans cfg ev selected r x
    else if existsb (fun si => conflicts t (tr c si)) selected then pick_trans cfg ev selected r x
    else if match ev with
            | Some e => negb (name_match_impl nm_fixed (ft_event t) (ev_name e))
            | None => false
            end then pick_trans cfg ev selected r x
    else
      match ft_cond t with
      | None => (Some ti, x)
      | Some cnd =>
        let '(b, x') := is_true (inst_of cfg) cnd x in
        if b then (Some ti, x') else pick_trans cfg ev selected r x'
      end
  end.

(* [skip = Some cur]: a transition was just selected in [cur] (or [cur] was skipped as its parent):
   the next state is skipped if it is the parent of [cur] (see drop_parents, which this inlines
   to keep the recursion structural) *)
Fixpoint select_loop (cfg : list nat) (ev : option event) (order : list nat) (skip : option nat)
         (selected : list nat) (x : xstate) {struct order} : list nat * xstate :=
  match order with
  | [] => (selected, x)
  | s :: r =>
    let skipped := match skip with
                   | Some cur => match fs_parent (st c cur) with Some p => p =? s | None => false end
                   | None => false
                   end in
    if skipped then select_loop cfg ev r (Some s) selected x
    else
      let '(o, x') := pick_trans cfg ev selected (fs_trans (st c s)) x in
      match o with
      | Some ti => select_loop cfg ev r (Some s) (insert_sorted ti selected) x'
      | None => select_loop cfg ev r None selected x'
      end
  end.

Definition exit_states_of (cfg : list nat) (t : ftrans) : list nat :=
  let '(f, s) := exit_interval t in
  if (f =? 0) && (s =? 0) && negb (lg_targetless_exits_root v) then []
  else filter (fun i => (f <=? i) && (i <=? s)) cfg.

(* ---- REMEMBER_HISTORY ---- *)
Definition remember_history (cfg exitset hist : list nat) : list nat :=
  fold_left
    (fun h i =>
       let s := st c i in
       if is_hist (fs_type s) && match fs_parent s with Some p => mem p exitset | None => false end
       then fold_left (fun h' cm => if mem cm cfg then insert_sorted cm h' else set_remove cm h') (fs_completion s) h
       else h)
    (seq 0 n_states) hist.

(* ---- ESTABLISH_ENTRYSET ---- *)
Definition add_ancestors (es : list nat) : list nat :=
  fold_left (fun a s => set_union a (fs_ancestors (st c s))) es es.

(* one step of the "iterate for descendants" loop, for state i if it is in the entry set *)
Definition descend_one (cfg exitset hist : list nat) (acc : list nat * list nat) (i : nat) : list nat * list nat :=
  let '(es, ts) := acc in
  if negb (mem i es) then acc else
  let s := st c i in
  match fs_type s with
  | FFinal | FAtomic => acc
  | FParallel => (set_union es (fs_completion s), ts)
  | FHistShallow | FHistDeep =>
    let parent_active := match fs_parent s with Some p => mem p cfg | None => false end in
    if (negb parent_active || negb (lg_hist_active_parent v)) && negb (intersects (fs_completion s) hist) then
      match fs_trans s with
      | [] => acc
      | ti :: _ =>
        let t := tr c ti in
        let es1 := set_union es (ft_targets t) in
        let es2 := match fs_type s with
                   | FHistDeep =>
                     if negb (intersects (ft_targets t) (fs_children s))
                     then fold_left (fun a x => set_union a (fs_ancestors (st c x))) (ft_targets t) es1
                     else es1
                   | _ => es1
                   end in
        (es2, insert_sorted ti ts)
      end
    else (set_union es (set_inter (fs_completion s) hist), ts)
  | FInitial =>
    fold_left (fun a ti =>
                 let t := tr c ti in
                 (fold_left (fun e x => set_union (insert_sorted x e) (fs_ancestors (st c x))) (ft_targets t) (fst a),
                  insert_sorted ti (snd a)))
              (fs_trans s) (es, ts)
  | FCompound =>
    if existsb (fun ch => mem ch es || (negb (mem ch exitset) && mem ch cfg)) (fs_children s) then acc
    else
      let es1 := set_union es (fs_completion s) in
      (fold_left (fun a cm => if mem cm (fs_children s) then a else set_union a (fs_ancestors (st c cm)))
                 (fs_completion s) es1, ts)
  end.

Definition entry_set (cfg exitset hist targets : list nat) (transset : list nat) : list nat * list nat :=
  fold_left (descend_one cfg exitset hist) (seq 0 n_states) (add_ancestors targets, transset).

(* ---- isInFinal ---- *)
Fixpoint in_final (fuel : nat) (cfg : list nat) (i : nat) : bool :=
  match fuel with
  | O => false
  | S f =>
    let s := st c i in
    match fs_type s with
    | FFinal => true
    | FAtomic => false
    | FParallel => forallb (in_final f cfg) (fs_children s)
    | FInitial => false
    | FCompound =>
      match find (fun ch => mem ch cfg) (fs_children s) with
      | Some ch => in_final f cfg ch
      | None => false
      end
    | FHistShallow | FHistDeep => true
    end
  end.

Definition done_event (i : nat) : event :=
  {| ev_name := s_done_state ++ state_name (fs_sid (st c i)); ev_kind := EvInternal |}.

(* walk up from the parent of an entered final state *)
Fixpoint done_walk (fuel : nat) (cfg : list nat) (anc : option nat) (x : xstate) : xstate :=
  match fuel, anc with
  | S f, Some a =>
    match fs_type (st c a) with
    | FParallel =>
      if in_final n_states cfg a then done_walk f cfg (fs_parent (st c a)) (raise_int (done_event a) x)
      else x
    | _ => done_walk f cfg (fs_parent (st c a)) x
    end
  | _, _ => x
  end.

(* ---- EXIT_STATES, TAKE_TRANSITIONS, ENTER_STATES ---- *)

Definition exit_one (acc : list nat * xstate) (i : nat) : list nat * xstate :=
  let '(cfg, x) := acc in
  let s := st c i in
  let x1 := emit (TXb (fs_sid s)) x in
  let x2 := exec_blocks xv (inst_of cfg) (fs_onexit s) x1 in
  (set_remove i cfg, emit (TXe (fs_sid s)) x2).

Definition take_one (cfg : list nat) (x : xstate) (ti : nat) : xstate :=
  let t := tr c ti in
  if ft_history t || ft_initial t then x
  else
    let x1 := emit (TTb (ft_vid t)) x in
    let x2 := if ft_has_body t then exec_block xv (inst_of cfg) (ft_body t) x1 else x1 in
    emit (TTe (ft_vid t)) x2.

Record enter_acc := { ea_cfg : list nat; ea_initd : list nat; ea_tlf : bool; ea_x : xstate }.

Definition enter_one (transset : list nat) (a : enter_acc) (i : nat) : enter_acc :=
  let s := st c i in
  if is_pseudo (fs_type s) then a else
  let x1 := emit (TEb (fs_sid s)) (ea_x a) in
  let cfg1 := insert_sorted i (ea_cfg a) in
  let '(initd1, x2) :=
    match fs_data s with
    | [] => (ea_initd a, x1)
    | ds => if mem i (ea_initd a) then (ea_initd a, x1)
            else (insert_sorted i (ea_initd a), fold_left (fun x d => init_data d x) ds x1)
    end in
  let x3 := exec_blocks xv (inst_of cfg1) (fs_onentry s) x2 in
  let x4 := emit (TEe (fs_sid s)) x3 in
  let x5 :=
    fold_left
      (fun x ch =>
         if is_pseudo (fs_type (st c ch)) then
           fold_left (fun x ti =>
                        let t := tr c ti in
                        if (ft_history t || ft_initial t) && mem ti transset then
                          let y1 := emit (TTb (ft_vid t)) x in
                          let y2 := if ft_has_body t then exec_block xv (inst_of cfg1) (ft_body t) y1 else y1 in
                          emit (TTe (ft_vid t)) y2
                        else x)
                     (fs_trans (st c ch)) x
         else x)
      (fs_children s) x4 in
  match fs_type s with
  | FFinal =>
    let top := match fs_parent s with Some 0 => true | _ => false end in
    let x6 := if top then x5
              else match fs_parent s with Some p => raise_int (done_event p) x5 | None => x5 end in
    {| ea_cfg := cfg1; ea_initd := initd1; ea_tlf := ea_tlf a || top;
       ea_x := done_walk n_states cfg1 (fs_parent s) x6 |}
  | _ => {| ea_cfg := cfg1; ea_initd := initd1; ea_tlf := ea_tlf a; ea_x := x5 |}
  end.

(* from REMEMBER_HISTORY (or ESTABLISH_ENTRYSET for the initial step) to the end of step() *)
Definition microstep (l : lstate) (x : xstate) (targets exitset transset : list nat) (initial_step : bool)
  : lstate * xstate :=
  let cfg := l_cfg l in
  let hist := if initial_step then l_hist l else remember_history cfg exitset (l_hist l) in
  let '(es, ts) := entry_set cfg exitset hist targets transset in
  let '(cfg1, x1) := fold_left exit_one (rev exitset) (cfg, x) in
  let x2 := fold_left (take_one cfg1) ts x1 in
  let es1 := set_diff es cfg1 in
  let a := fold_left (enter_one ts) es1
                     {| ea_cfg := cfg1; ea_initd := l_initd l; ea_tlf := l_tlf l; ea_x := x2 |} in
  ({| l_cfg := ea_cfg a; l_hist := hist; l_initd := ea_initd a; l_spont := true; l_init := true;
      l_tlf := ea_tlf a; l_fin := l_fin l; l_stable := l_stable l; l_cancelled := l_cancelled l |},
   emit TMsE (ea_x a)).

Definition upd_flags (l : lstate) (spont stable : bool) : lstate :=
  {| l_cfg := l_cfg l; l_hist := l_hist l; l_initd := l_initd l; l_spont := spont; l_init := l_init l;
     l_tlf := l_tlf l; l_fin := l_fin l; l_stable := stable; l_cancelled := l_cancelled l |}.

Definition select_and_step (l : lstate) (x : xstate) (ev : option event) : lstate * xstate * N :=
  let l0 := upd_flags l (l_spont l) false in
  let cfg := l_cfg l0 in
  let '(sel, x1) := select_loop cfg ev (cfg_postfix cfg) None [] x in
  match sel with
  | [] =>
    (* nothing enabled: after an event the event-less transitions are selected once more before the next
       event is dequeued; after an event-less selection the engine goes on to the queues *)
    (upd_flags l0 (match ev with Some _ => true | None => false end) false, x1, RC_MICROSTEPPED)
  | _ =>
    let targets := fold_left (fun a ti => set_union a (ft_targets (tr c ti))) sel [] in
    let exitset := fold_left (fun a ti => set_union a (exit_states_of cfg (tr c ti))) sel [] in
    let '(l1, x2) := microstep l0 (emit TMsB x1) targets exitset sel false in
    (l1, x2, RC_MICROSTEPPED)
  end.

Definition pop_named (q : list event) : option (event * list event) :=
  match q with
  | e :: r => match ev_name e with [] => None | _ => Some (e, r) end
  | [] => None
  end.

(* LargeMicroStep::step after initialisation; external dequeue is non-blocking (blockMs = 0) *)
Definition large_step (l : lstate) (x : xstate) : lstate * xstate * N :=
  if l_fin l then (l, x, RC_FINISHED)
  else if l_tlf l then
    let x1 := emit TComplB x in
    let x2 := fold_left (fun x i => exec_blocks xv (inst_of (l_cfg l)) (fs_onexit (st c i)) x) (rev (l_cfg l)) x1 in
    ({| l_cfg := l_cfg l; l_hist := l_hist l; l_initd := l_initd l; l_spont := l_spont l; l_init := l_init l;
        l_tlf := true; l_fin := true; l_stable := l_stable l; l_cancelled := l_cancelled l |},
     emit TComplE x2, RC_FINISHED)
  else if is_pristine l then
    let '(l1, x1) := microstep l (emit TMsB x) (fs_completion (st c 0)) [] [] true in
    (l1, x1, RC_MICROSTEPPED)
  else if l_spont l then select_and_step l x None
  else
    match x_iq x with
    | e :: r =>
      match ev_name e with
      | [] => (l, x, RC_IDLE) (* not produced by the fragment *)
      | _ =>
        let x1 := emit (TEv (ev_name e)) {| x_store := x_store x; x_iq := r; x_eq := x_eq x; x_out := x_out x |} in
        select_and_step l x1 (Some e)
      end
    | [] =>
      if negb (l_stable l) then (upd_flags l (l_spont l) true, emit TStable x, RC_MACROSTEPPED)
      else
        match x_eq x with
        | e :: r =>
          let x0 := {| x_store := x_store x; x_iq := x_iq x; x_eq := r; x_out := x_out x |} in
          match ev_name e with
          | [] =>
            (* the empty event of cancel() is dequeued but is no event *)
            if l_cancelled l then
              ({| l_cfg := l_cfg l; l_hist := l_hist l; l_initd := l_initd l; l_spont := l_spont l; l_init := l_init l;
                  l_tlf := true; l_fin := l_fin l; l_stable := l_stable l; l_cancelled := true |}, x0, RC_CANCELLED)
            else (l, x0, RC_IDLE)
          | _ => select_and_step l (emit (TEv (ev_name e)) x0) (Some e)
          end
        | [] =>
          if l_cancelled l then
            ({| l_cfg := l_cfg l; l_hist := l_hist l; l_initd := l_initd l; l_spont := l_spont l; l_init := l_init l;
                l_tlf := true; l_fin := l_fin l; l_stable := l_stable l; l_cancelled := true |}, x, RC_CANCELLED)
          else (l, x, RC_IDLE)
        end
    end.

End Large.
