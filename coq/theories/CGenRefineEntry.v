(* CGenRefineEntry.v -- C04, data refinement, layer 3b: REMEMBER_HISTORY and ESTABLISH_ENTRY_SET.
   The byte-level passes (CGen.b_remember, b_entry_set with b_anc_one, b_descend_one, b_hist_default, b_hist_nested,
   b_add_anc_of over history / entry_set / trans_set / tmp_states) against the set-level passes (CGen.cremember,
   centry_set = add_ancestors + cdescend_one): from arrays holding the configuration, the history, the exit set, the
   target set and the transition set they end normally with arrays holding the set-level results.
   Proofs only. *)
From V Require Import Base NameMatch Chart Exec Large Fast GenCGen CGen CGenLemmas SetLemmas SerializeCodecLemmas
                      CGenRefineBits CGenRefineTables CGenRefineSelect.
From Coq Require Import Lia Sorted ZifyBool.
Local Open Scope nat_scope.

Lemma mem_fold_cond {A} (p : A -> bool) (f : A -> list nat) x (l : list A) : forall acc,
  mem x (fold_left (fun a k => if p k then set_union a (f k) else a) l acc) = mem x acc || existsb (fun k => p k && mem x (f k)) l.
Proof.
  induction l as [|k r IH]; intros acc; cbn [fold_left existsb]; [now rewrite orb_false_r|].
  rewrite IH. destruct (p k); cbn [andb orb]; [|reflexivity]. rewrite memb_union, orb_assoc. reflexivity.
Qed.

Lemma fold_cond_ssorted {A} (p : A -> bool) (f : A -> list nat) (l : list A) : forall acc,
  ssorted acc -> ssorted (fold_left (fun a k => if p k then set_union a (f k) else a) l acc).
Proof.
  induction l as [|k r IH]; intros acc Sa; cbn [fold_left]; [exact Sa|]. apply IH. destruct (p k); [now apply set_union_ssorted | exact Sa].
Qed.

Lemma existsb_filter {A} (p f : A -> bool) l : existsb f (filter p l) = existsb (fun k => p k && f k) l.
Proof.
  induction l as [|k r IH]; cbn [filter existsb]; [reflexivity|].
  destruct (p k); cbn [existsb andb orb]; rewrite IH; reflexivity.
Qed.

Lemma kind_par t : (kind_code t =? CG_STATE_PARALLEL)%N = match t with FParallel => true | _ => false end.
Proof. destruct t; reflexivity. Qed.
Lemma kind_ini t : (kind_code t =? CG_STATE_INITIAL)%N = match t with FInitial => true | _ => false end.
Proof. destruct t; reflexivity. Qed.
Lemma kind_comp t : (kind_code t =? CG_STATE_COMPOUND)%N = match t with FCompound => true | _ => false end.
Proof. destruct t; reflexivity. Qed.
Lemma kind_fin t : (kind_code t =? CG_STATE_FINAL)%N = match t with FFinal => true | _ => false end.
Proof. destruct t; reflexivity. Qed.
Lemma kind_deep t : (kind_code t =? CG_STATE_HISTORY_DEEP)%N = match t with FHistDeep => true | _ => false end.
Proof. destruct t; reflexivity. Qed.

Section Entry.
Variable cv : cg_variant.
Variable c : fchart.
Notation ns := (nstates c).
Notation nt := (ntrans c).
Notation bm := (bmachine_of cv c).
Notation MS := (m_maxs c).
Notation MT := (m_maxt c).
Notation NTB := (NTB cv c).
Notation WS := (8 * MS).
Notation WT := (8 * NTB).
Notation anc := (fun k => fs_ancestors (st c k)).

Hypothesis Hns : (N.of_nat ns < 2 ^ 24)%N.
Hypothesis Hnt : (N.of_nat nt < 2 ^ 24)%N.
Hypothesis Hok : bref_chartb c = true.
Set Default Proof Using "cv Hns Hnt Hok".

Let HW : ns <= WS := ns_le_WS cv c Hns Hnt Hok.
Let HWt : nt <= WT := nt_le_WT cv c Hns Hnt Hok.
Let Hntb : NTB <= MT := ntb_le cv c Hns Hnt Hok.

Lemma hist_parent i : i < ns -> is_hist (fs_type (st c i)) = true -> exists p, fs_parent (st c i) = Some p /\ p < ns.
Proof.
  intros Hi Eh. destruct (st_parts cv c Hns Hnt Hok i Hi) as (_ & _ & _ & _ & P & _).
  rewrite Eh in P. specialize (P eq_refl). unfold bref_has_parent in P.
  destruct (fs_parent (st c i)) as [p|] eqn:Ep; [|discriminate]. exists p. split; [reflexivity|].
  eapply (par_lt cv c Hns Hnt Hok); eassumption.
Qed.

(* ------------------------------------------------------------------ REMEMBER_HISTORY *)
Definition crem1 (cfg exitset h : list nat) (i : nat) : list nat :=
  let s := st c i in
  if is_hist (fs_type s) && match fs_parent s with Some p => mem p exitset | None => false end
  then set_union (set_diff h (ccompl cv c i)) (set_inter (ccompl cv c i) cfg)
  else h.

Lemma cremember_fold cfg exitset hist : cremember cv c cfg exitset hist = fold_left (crem1 cfg exitset) (seq 0 ns) hist.
Proof. reflexivity. Qed.

Lemma remember_one_ref cfg exitset i m h :
  i < ns -> mem_shape c m -> rep WS (get m A_CONFIG) cfg -> rep WS (get m A_EXIT) exitset -> rep WS (get m A_HISTORY) h ->
  okp (b_remember_one bm i m)
      (fun m' => frames m m' [A_HISTORY; A_TMP] /\ rep WS (get m' A_HISTORY) (crem1 cfg exitset h i)).
Proof.
  intros Hi Hm Rc Rx Rh. unfold b_remember_one, crem1. cbv zeta.
  rewrite (st_at_eq cv c Hns Hnt Hok 201 i Hi). rewrite bind_ok. rewrite (bs_is_hist cv c Hns Hnt Hok).
  destruct (is_hist (fs_type (st c i))) eqn:Eh; cbn [negb andb]; [|split; [apply frames_refl | exact Rh]].
  destruct (hist_parent i Hi Eh) as (p & Ep & Hp). cbn [bstate_of bs_parent bs_completion]. rewrite Ep.
  lens_of m.
  rewrite (srep_bit_has 202 MS _ _ _ (srep_of_rep _ _ _ Rx)) by lia. rewrite bind_ok.
  destruct (mem p exitset); cbn [negb]; [|split; [apply frames_refl | exact Rh]].
  rewrite (nsb_eq cv c Hns Hnt Hok).
  pose proof (bs_completion_srep cv c Hns Hnt Hok i) as Rrow. cbn [bstate_of bs_completion] in Rrow.
  eapply okp_bind; [apply (srep_bit_copy 203 MS m A_TMP _ _ Rrow); [lia | rewrite to_bytes_length; lia]|].
  intros m1 [F1 R1]. carry F1. lens_of m1.
  eapply okp_bind; [apply (srep_bit_and 204 MS m1 A_TMP _ _ _ R1 (srep_of_rep _ _ _ ltac:(eassumption))); lia|].
  intros m2 [F2 R2]. carry F2. lens_of m2.
  eapply okp_bind; [apply (rep_bit_and_not 205 MS m2 A_HISTORY _ _ _ ltac:(eassumption) Rrow); [lia | rewrite to_bytes_length; lia]|].
  intros m3 [F3 R3]. carry F3. lens_of m3.
  eapply okp_weaken; [apply (rep_bit_or 206 MS m3 A_HISTORY _ _ _ R3 ltac:(eassumption)); lia|].
  intros m4 [F4 R4]. split; [|exact R4].
  eapply frames_step; [eapply frames_step; [eapply frames_step; [eapply frames_of_frame; [exact F1 | isin] | exact F2 | isin] | exact F3 | isin] | exact F4 | isin].
Qed.

Lemma b_remember_ref cfg exitset hist m :
  mem_shape c m -> rep WS (get m A_CONFIG) cfg -> rep WS (get m A_EXIT) exitset -> rep WS (get m A_HISTORY) hist ->
  okp (b_remember bm m)
      (fun m' => frames m m' [A_HISTORY; A_TMP] /\ rep WS (get m' A_HISTORY) (cremember cv c cfg exitset hist)).
Proof.
  intros Hm Rc Rx Rh. unfold b_remember. rewrite cremember_fold.
  apply (okp_forM_fold bmem (list nat) (fun m' h => frames m m' [A_HISTORY; A_TMP] /\ rep WS (get m' A_HISTORY) h)).
  - split; [apply frames_refl | exact Rh].
  - intros i m' h Hi [F R]. apply in_seq in Hi. carrys F.
    eapply okp_weaken; [apply (remember_one_ref cfg exitset i m' h); try assumption; lia|].
    intros m'' [F' R']. split; [eapply frames_trans; eassumption | exact R'].
Qed.

(* ------------------------------------------------------------------ ESTABLISH_ENTRY_SET: ancestors of the targets *)
Lemma anc_loop_ref targets m :
  mem_shape c m -> rep WS (get m A_ENTRY) targets -> bounded ns targets ->
  okp (forM (seq 0 ns) (b_anc_one bm) m)
      (fun m' => frame m m' A_ENTRY /\ rep WS (get m' A_ENTRY) (add_ancestors c targets)).
Proof.
  intros Hm Re Bt. pose proof (rep_ssorted _ _ _ Re) as St.
  unfold add_ancestors. rewrite (fold_sorted_seq (fun a s => set_union a (fs_ancestors (st c s))) targets ns St Bt).
  pose (R := fun (j : nat) (m' : bmem) (acc : list nat) =>
               frame m m' A_ENTRY /\ rep WS (get m' A_ENTRY) acc /\
               (forall x, mem x acc = true -> mem x targets = true \/ x < j) /\
               (forall x, mem x targets = true -> mem x acc = true)).
  eapply okp_weaken.
  - apply (okp_forM_seq bmem (list nat) R (b_anc_one bm)
             (fun t i => if mem i targets then set_union t (fs_ancestors (st c i)) else t) ns 0 m targets).
    + unfold R. split; [apply frame_refl|]. split; [exact Re|]. split; auto.
    + intros j m' acc Hj (F & Ra & I1 & I2). unfold b_anc_one. carry F. lens_of m'.
      rewrite (srep_bit_has 301 MS _ _ _ (srep_of_rep _ _ _ Ra)) by lia. rewrite bind_ok.
      assert (E : mem j acc = mem j targets).
      { apply bool_eq_iff. split; [|apply I2]. intros H'. destruct (I1 j H') as [H''|H'']; [exact H'' | lia]. }
      rewrite E. destruct (mem j targets) eqn:Mj; cbn [negb].
      * rewrite (st_at_eq cv c Hns Hnt Hok 302 j) by lia. rewrite bind_ok. rewrite (nsb_eq cv c Hns Hnt Hok).
        eapply okp_weaken; [apply (rep_bit_or 303 MS m' A_ENTRY _ _ _ Ra (bs_ancestors_srep cv c Hns Hnt Hok j)); [lia | cbn [bstate_of bs_ancestors]; rewrite to_bytes_length; lia]|].
        intros m'' [F' R']. unfold R. split; [eapply frame_trans; eassumption|]. split; [exact R'|]. split.
        -- intros x Hx. rewrite memb_union in Hx. apply orb_true_iff in Hx as [Hx|Hx].
           ++ destruct (I1 x Hx); [now left | right; lia].
           ++ apply mem_In in Hx. apply (ancestors_lt cv c Hns Hnt Hok) in Hx. right. lia.
        -- intros x Hx. rewrite memb_union, (I2 x Hx). reflexivity.
      * unfold R. cbn [okp]. split; [exact F|]. split; [exact Ra|]. split; [|exact I2].
        intros x Hx. destruct (I1 x Hx); [now left | right; lia].
  - intros m' (F & Ra & _). cbn [Nat.add] in *. split; assumption.
Qed.

(* ------------------------------------------------------------------ the ancestors of the states of a row above i *)
Lemma add_anc_of_ref row i m es :
  mem_shape c m -> rep WS (get m A_ENTRY) es -> bounded ns row ->
  okp (b_add_anc_of bm false (to_bytes MS row) i m)
      (fun m' => frame m m' A_ENTRY /\ exists es', rep WS (get m' A_ENTRY) es' /\
                 forall x, mem x es' = mem x es || existsb (fun k => (i <? k) && mem x (fs_ancestors (st c k))) row).
Proof.
  intros Hm Re Br. unfold b_add_anc_of. cbn [bmachine_of bm_ns].
  pose (R := fun (j : nat) (m' : bmem) (acc : list nat) => frame m m' A_ENTRY /\ rep WS (get m' A_ENTRY) acc).
  eapply okp_weaken.
  - apply (okp_forB_seq bmem (list nat) R _ (fun a k => if mem k row then set_union a (fs_ancestors (st c k)) else a)
             (ns - S i) (S i) m es).
    + split; [apply frame_refl | exact Re].
    + intros j m' acc Hj [F Ra]. carry F. lens_of m'.
      rewrite (srep_bit_has 311 MS _ _ _ (srep_row MS row (bounded_mono cv c Hns Hnt Hok _ _ _ HW Br))) by (rewrite ?to_bytes_length; lia).
      rewrite bind_ok. destruct (mem j row); cbn [negb].
      * rewrite (st_at_eq cv c Hns Hnt Hok 312 j) by lia. rewrite bind_ok. rewrite (nsb_eq cv c Hns Hnt Hok).
        eapply okp_bind; [apply (rep_bit_or 313 MS m' A_ENTRY _ _ _ Ra (bs_ancestors_srep cv c Hns Hnt Hok j)); [lia | cbn [bstate_of bs_ancestors]; rewrite to_bytes_length; lia]|].
        intros m'' [F' R']. cbn [okp fst snd]. split; [reflexivity|]. split; [eapply frame_trans; eassumption | exact R'].
      * cbn [okp fst snd]. split; [reflexivity|]. split; assumption.
  - intros m' [F Ra]. split; [exact F|]. eexists. split; [exact Ra|].
    intros x. rewrite mem_fold_cond. f_equal.
    apply bool_eq_iff. rewrite !existsb_exists. split.
    + intros (k & Hk & E). apply in_seq in Hk. apply andb_true_iff in E as [E1 E2]. exists k. split; [now apply mem_In|].
      rewrite E2. assert (X : (i <? k) = true) by (apply Nat.ltb_lt; lia). rewrite X. reflexivity.
    + intros (k & Hk & E). apply andb_true_iff in E as [E1 E2]. apply Nat.ltb_lt in E1. exists k. split.
      * apply in_seq. pose proof (bounded_in _ _ _ Br Hk). lia.
      * rewrite E2. apply mem_In in Hk. rewrite Hk. reflexivity.
Qed.

(* ------------------------------------------------------------------ a history without recorded value: its default transition *)
Definition chdef (i : nat) (acc : list nat * list nat) : list nat * list nat :=
  match first_trans_from c i with
  | None => acc
  | Some ti =>
    let t := tr c ti in
    let es1 := set_union (fst acc) (ft_targets t) in
    let es2 := match fs_type (st c i) with
               | FHistDeep =>
                 if negb (intersects (ft_targets t) (fs_children (st c i)))
                 then fold_left (fun a k => set_union a (fs_ancestors (st c k))) (filter (fun k => i <? k) (ft_targets t)) es1
                 else es1
               | _ => es1
               end in
    (es2, insert_sorted ti (snd acc))
  end.

Lemma row_small row : small (to_bytes MS row).
Proof. apply small_to_bytes. Qed.

Lemma hist_default_ref i m es ts :
  i < ns -> mem_shape c m -> rep WS (get m A_ENTRY) es -> rep WT (get m A_TRSET) ts ->
  okp (b_hist_default bm i (bstate_of cv c i) m)
      (fun m' => frames m m' [A_ENTRY; A_TRSET] /\
                 rep WS (get m' A_ENTRY) (fst (chdef i (es, ts))) /\ rep WT (get m' A_TRSET) (snd (chdef i (es, ts)))).
Proof.
  intros Hi Hm Re Rt. unfold b_hist_default, chdef, first_trans_from. cbn [bmachine_of bm_nt fst snd].
  assert (G : forall l, (forall j, In j l -> j < nt) ->
    okp (forB l (fun j m0 =>
           do t <- tr_at 321 bm j;
           if negb (bt_source t =? i) then Ok (false, m0) else
           do m1 <- bit_or 322 m0 A_ENTRY (bt_target t) (bm_nsb bm);
           do m2 <- (if (kind_of (bs_type (bstate_of cv c i)) =? CG_STATE_HISTORY_DEEP)%N then
                       do x <- bit_has_and 323 (bt_target t) (bs_children (bstate_of cv c i)) (bm_nsb bm);
                       if x then Ok m1 else b_add_anc_of bm false (bt_target t) i m1
                     else Ok m1);
           do m3 <- bit_set_at 324 m2 A_TRSET j; Ok (true, m3)) m)
        (fun m' => frames m m' [A_ENTRY; A_TRSET] /\
           rep WS (get m' A_ENTRY)
             (fst match find (fun j => ft_source (tr c j) =? i) l with
                  | None => (es, ts)
                  | Some ti =>
                    (match fs_type (st c i) with
                     | FHistDeep =>
                       if negb (intersects (ft_targets (tr c ti)) (fs_children (st c i)))
                       then fold_left (fun a k => set_union a (fs_ancestors (st c k))) (filter (fun k => i <? k) (ft_targets (tr c ti)))
                                      (set_union es (ft_targets (tr c ti)))
                       else set_union es (ft_targets (tr c ti))
                     | _ => set_union es (ft_targets (tr c ti))
                     end, insert_sorted ti ts)
                  end) /\
           rep WT (get m' A_TRSET)
             (snd match find (fun j => ft_source (tr c j) =? i) l with
                  | None => (es, ts)
                  | Some ti =>
                    (match fs_type (st c i) with
                     | FHistDeep =>
                       if negb (intersects (ft_targets (tr c ti)) (fs_children (st c i)))
                       then fold_left (fun a k => set_union a (fs_ancestors (st c k))) (filter (fun k => i <? k) (ft_targets (tr c ti)))
                                      (set_union es (ft_targets (tr c ti)))
                       else set_union es (ft_targets (tr c ti))
                     | _ => set_union es (ft_targets (tr c ti))
                     end, insert_sorted ti ts)
                  end))).
  { induction l as [|j l IH]; intros Hl; cbn [forB find].
    - cbn [okp fst snd]. split; [apply frames_refl | split; assumption].
    - assert (Hj : j < nt) by (apply Hl; now left).
      rewrite (tr_at_eq cv c Hns Hnt Hok 321 j Hj). rewrite bind_ok. cbn [btrans_of bt_source bt_target].
      destruct (ft_source (tr c j) =? i) eqn:Es; cbn [negb].
      2:{ rewrite bind_ok. cbn [fst snd]. apply IH. intros k Hk. apply Hl. now right. }
      match goal with |- okp _ ?P => eapply okp_bind with (Q := fun bs => fst bs = true /\ P (snd bs)) end.
      2:{ intros [b m'] [Hb HP]. cbn [fst snd] in *. subst b. exact HP. }
      rewrite (nsb_eq cv c Hns Hnt Hok). lens_of m.
      pose proof (bt_target_srep cv c Hns Hnt Hok j) as Rtg. cbn [btrans_of bt_target] in Rtg.
      eapply okp_bind; [apply (rep_bit_or 322 MS m A_ENTRY _ _ _ Re Rtg); [lia | rewrite to_bytes_length; lia]|].
      intros m1 [F1 R1]. carry F1. lens_of m1.
      rewrite (bs_kind cv c Hns Hnt Hok), kind_deep.
      eapply okp_bind with (Q := fun m2 => frame m1 m2 A_ENTRY /\
         rep WS (get m2 A_ENTRY)
             match fs_type (st c i) with
             | FHistDeep =>
               if negb (intersects (ft_targets (tr c j)) (fs_children (st c i)))
               then fold_left (fun a k => set_union a (fs_ancestors (st c k))) (filter (fun k => i <? k) (ft_targets (tr c j)))
                              (set_union es (ft_targets (tr c j)))
               else set_union es (ft_targets (tr c j))
             | _ => set_union es (ft_targets (tr c j))
             end).
      { destruct (fs_type (st c i)); try (cbn [okp]; split; [apply frame_refl | exact R1]).
        pose proof (bs_children_srep cv c Hns Hnt Hok i) as Rch. cbn [bstate_of bs_children] in *.
        rewrite (srep_bit_has_and 323 MS _ _ _ _ Rtg Rch) by (rewrite ?to_bytes_length; try lia; left; apply row_small).
        rewrite bind_ok. destruct (intersects (ft_targets (tr c j)) (fs_children (st c i))); cbn [negb].
        - cbn [okp]. split; [apply frame_refl | exact R1].
        - eapply okp_weaken; [apply (add_anc_of_ref _ i m1 _ ltac:(assumption) R1 (targets_bounded cv c Hns Hnt Hok j))|].
          intros m2 (F2 & es' & R2 & E2). split; [exact F2|].
          apply (rep_same _ _ _ _ R2).
          + apply (fold_union_ssorted cv c Hns Hnt Hok). apply set_union_ssorted, (rep_ssorted _ _ _ Re).
          + intros x. rewrite E2, memb_fold_union, existsb_filter. reflexivity. }
      intros m2 [F2 R2]. carry F2. lens_of m2.
      eapply okp_bind; [apply (rep_bit_set_at 324 NTB m2 A_TRSET ts j ltac:(assumption)); lia|].
      intros m3 [F3 R3]. carry F3. cbn [okp fst snd].
      split; [reflexivity|]. split; [|split; assumption].
      eapply frames_step; [eapply frames_step; [eapply frames_of_frame; [exact F1 | isin] | exact F2 | isin] | exact F3 | isin]. }
  apply G. intros j Hj. apply in_seq in Hj. lia.
Qed.

(* ------------------------------------------------------------------ a deep history with histories below its parent *)
Definition chnest (i : nat) (es1 : list nat) : list nat :=
  fold_left (fun e j =>
               if mem j (ccompl cv c i) && mem j e && has_history c j then
                 fold_left (fun e' k => if is_hist (fs_type (st c k)) && mem k (fs_children (st c j))
                                        then insert_sorted k e' else e')
                           (seq (S j) (ns - S j)) e
               else e)
            (seq (S i) (ns - S i)) es1.

Lemma hist_nested_ref i m es :
  i < ns -> mem_shape c m -> rep WS (get m A_ENTRY) es ->
  okp (b_hist_nested bm i (bstate_of cv c i) m)
      (fun m' => frame m m' A_ENTRY /\ rep WS (get m' A_ENTRY) (chnest i es)).
Proof.
  intros Hi Hm Re. unfold b_hist_nested, chnest. cbn [bmachine_of bm_ns].
  apply (okp_forM_fold bmem (list nat) (fun m' e => frame m m' A_ENTRY /\ rep WS (get m' A_ENTRY) e)).
  { split; [apply frame_refl | exact Re]. }
  intros j m1 e Hj [F1 R1]. apply in_seq in Hj. carry F1. lens_of m1.
  pose proof (bs_completion_srep cv c Hns Hnt Hok i) as Rcp. cbn [bstate_of bs_completion] in *.
  rewrite (srep_bit_has 331 MS _ _ _ Rcp) by (rewrite ?to_bytes_length; lia). rewrite bind_ok.
  destruct (mem j (ccompl cv c i)); cbn [negb andb]; [|split; assumption].
  rewrite (srep_bit_has 332 MS _ _ _ (srep_of_rep _ _ _ R1)) by lia. rewrite bind_ok.
  destruct (mem j e); cbn [negb andb]; [|split; assumption].
  rewrite (st_at_eq cv c Hns Hnt Hok 333 j) by lia. rewrite bind_ok. rewrite (bs_has_history cv c Hns Hnt Hok).
  destruct (has_history c j); cbn [negb]; [|split; assumption].
  apply (okp_forM_fold bmem (list nat) (fun m' e' => frame m m' A_ENTRY /\ rep WS (get m' A_ENTRY) e')).
  { split; assumption. }
  intros k m2 e2 Hk [F2 R2]. apply in_seq in Hk. carry F2. lens_of m2.
  rewrite (st_at_eq cv c Hns Hnt Hok 334 k) by lia. rewrite bind_ok. rewrite (bs_is_hist cv c Hns Hnt Hok).
  destruct (is_hist (fs_type (st c k))); cbn [negb andb]; [|split; assumption].
  pose proof (bs_children_srep cv c Hns Hnt Hok j) as Rch. cbn [bstate_of bs_children] in *.
  rewrite (srep_bit_has 335 MS _ _ _ Rch) by (rewrite ?to_bytes_length; lia). rewrite bind_ok.
  destruct (mem k (fs_children (st c j))); [|split; assumption].
  eapply okp_weaken; [apply (rep_bit_set_at 336 MS m2 A_ENTRY e2 k R2); lia|].
  intros m3 [F3 R3]. split; [eapply frame_trans; eassumption | exact R3].
Qed.

(* ------------------------------------------------------------------ one state of the entry set *)
Lemma frames3 m m' d : frame m m' d -> In d [A_ENTRY; A_TRSET; A_TMP] -> frames m m' [A_ENTRY; A_TRSET; A_TMP].
Proof. intros F Hd. eapply frames_of_frame; eassumption. Qed.

Lemma descend_one_ref cfg exitset hist i m es ts :
  i < ns -> mem_shape c m -> rep WS (get m A_CONFIG) cfg -> rep WS (get m A_HISTORY) hist ->
  (rep WS (get m A_EXIT) exitset \/ cfg = []) ->
  rep WS (get m A_ENTRY) es -> rep WT (get m A_TRSET) ts ->
  okp (b_descend_one cv bm i m)
      (fun m' => frames m m' [A_ENTRY; A_TRSET; A_TMP] /\
                 rep WS (get m' A_ENTRY) (fst (cdescend_one cv c cfg exitset hist (es, ts) i)) /\
                 rep WT (get m' A_TRSET) (snd (cdescend_one cv c cfg exitset hist (es, ts) i))).
Proof.
  intros Hi Hm Rc Rh Rx Re Rt. unfold b_descend_one, cdescend_one. cbv beta iota zeta. lens_of m.
  assert (Same : okp (Ok m) (fun m' => frames m m' [A_ENTRY; A_TRSET; A_TMP] /\ rep WS (get m' A_ENTRY) es /\ rep WT (get m' A_TRSET) ts)).
  { cbn [okp]. split; [apply frames_refl | split; assumption]. }
  rewrite (srep_bit_has 341 MS _ _ _ (srep_of_rep _ _ _ Re)) by lia. rewrite bind_ok.
  destruct (mem i es); cbn [negb fst snd]; [|exact Same].
  rewrite (st_at_eq cv c Hns Hnt Hok 342 i Hi), bind_ok.
  rewrite (bs_kind cv c Hns Hnt Hok), kind_par, (bs_is_hist cv c Hns Hnt Hok), kind_ini, kind_comp, (nsb_eq cv c Hns Hnt Hok).
  pose proof (bs_completion_srep cv c Hns Hnt Hok i) as Rcp. pose proof (bs_children_srep cv c Hns Hnt Hok i) as Rch.
  cbn [bstate_of bs_completion bs_children bs_parent] in *.
  destruct (fs_type (st c i)) eqn:Et; cbn [is_hist fst snd]; try exact Same.
  - (* compound *)
    rewrite (srep_bit_has_and 361 MS _ _ _ _ (srep_of_rep _ _ _ Re) Rch) by (rewrite ?to_bytes_length; try lia; right; apply row_small).
    rewrite bind_ok. destruct (intersects es (fs_children (st c i))); cbn [negb andb fst snd]; [exact Same|].
    rewrite (srep_bit_has_and 362 MS _ _ _ _ (srep_of_rep _ _ _ Rc) Rch) by (rewrite ?to_bytes_length; try lia; right; apply row_small).
    rewrite bind_ok.
    assert (Hx : okp (if intersects cfg (fs_children (st c i))
                      then bit_has_and 363 (get m A_EXIT) (to_bytes MS (fs_children (st c i))) MS else Ok true)
                     (fun x => x = negb (intersects cfg (fs_children (st c i))) || intersects exitset (fs_children (st c i)))).
    { destruct (intersects cfg (fs_children (st c i))) eqn:Ic; cbn [negb orb okp]; [|reflexivity].
      destruct Rx as [Rx | Rx]; [|subst cfg; discriminate].
      rewrite (srep_bit_has_and 363 MS _ _ _ _ (srep_of_rep _ _ _ Rx) Rch) by (rewrite ?to_bytes_length; try lia; right; apply row_small).
      reflexivity. }
    eapply okp_bind; [exact Hx|]. intros x ->. clear Hx.
    destruct (negb (intersects cfg (fs_children (st c i))) || intersects exitset (fs_children (st c i))); cbn [negb fst snd]; [|exact Same].
    eapply okp_bind; [apply (rep_bit_or 364 MS m A_ENTRY _ _ _ Re Rcp); [lia | rewrite to_bytes_length; lia]|].
    intros m1 [F1 R1]. carry F1. lens_of m1.
    rewrite (srep_bit_has_and 365 MS _ _ _ _ Rcp Rch) by (rewrite ?to_bytes_length; try lia; right; apply row_small).
    rewrite bind_ok. destruct (intersects (ccompl cv c i) (fs_children (st c i))); cbn [negb fst snd].
    + cbn [okp]. split; [now apply (frames3 _ _ _ F1); isin|]. split; assumption.
    + eapply okp_weaken; [apply (add_anc_of_ref _ i m1 _ ltac:(assumption) R1 (ccompl_bounded cv c Hns Hnt Hok i))|].
      intros m2 (F2 & es' & R2 & E2). carry F2. split; [|split; [|assumption]].
      * eapply frames_step; [apply (frames3 _ _ _ F1); isin | exact F2 | isin].
      * apply (rep_same _ _ _ _ R2).
        -- apply (fold_union_ssorted cv c Hns Hnt Hok). apply set_union_ssorted, (rep_ssorted _ _ _ Re).
        -- intros x. rewrite E2, memb_fold_union, existsb_filter. reflexivity.
  - (* parallel *)
    eapply okp_weaken; [apply (rep_bit_or 343 MS m A_ENTRY _ _ _ Re Rcp); [lia | rewrite to_bytes_length; lia]|].
    intros m1 [F1 R1]. carry F1. split; [apply (frames3 _ _ _ F1); isin|]. split; assumption.
  - (* shallow history *)
    destruct (hist_parent i Hi) as (p & Ep & Hp); [rewrite Et; reflexivity|]. rewrite Ep.
    rewrite (srep_bit_has_and 344 MS _ _ _ _ Rcp (srep_of_rep _ _ _ Rh)) by (rewrite ?to_bytes_length; try lia; left; apply row_small).
    rewrite bind_ok.
    assert (Hpa : okp (if intersects (ccompl cv c i) hist || negb (cg_hist_active_parent cv) then Ok false
                       else bit_has 345 (get m A_CONFIG) p)
                      (fun pa => negb (intersects (ccompl cv c i) hist) && negb pa =
                                 negb (intersects (ccompl cv c i) hist) && (negb (cg_hist_active_parent cv) || negb (mem p cfg)))).
    { destruct (intersects (ccompl cv c i) hist); cbn [orb negb andb okp]; [reflexivity|].
      destruct (cg_hist_active_parent cv); cbn [negb orb okp]; [|reflexivity].
      rewrite (srep_bit_has 345 MS _ _ _ (srep_of_rep _ _ _ Rc)) by lia. reflexivity. }
    eapply okp_bind; [exact Hpa|]. intros pa ->. clear Hpa.
    destruct (negb (intersects (ccompl cv c i) hist) && (negb (cg_hist_active_parent cv) || negb (mem p cfg))).
    + eapply okp_weaken; [apply (hist_default_ref i m es ts Hi Hm Re Rt)|].
      intros m1 (F1 & R1 & R1'). unfold chdef in R1, R1'. rewrite Et in R1, R1'.
      split; [eapply frames_mono; [exact F1 | cbv; tauto]|]. split; [exact R1 | exact R1'].
    + eapply okp_bind; [apply (srep_bit_copy 346 MS m A_TMP _ _ Rcp); [lia | rewrite to_bytes_length; lia]|].
      intros m1 [F1 R1]. carry F1. lens_of m1.
      eapply okp_bind; [apply (srep_bit_and 347 MS m1 A_TMP _ _ _ R1 (srep_of_rep WS (get m1 A_HISTORY) hist ltac:(assumption))); lia|].
      intros m2 [F2 R2]. carry F2. lens_of m2.
      eapply okp_bind; [apply (rep_bit_or 348 MS m2 A_ENTRY (get m2 A_TMP) es _ ltac:(assumption) R2); lia|].
      intros m3 [F3 R3]. carry F3.
      rewrite (bs_deep_with_hist cv c Hns Hnt Hok), Et. cbn [okp fst snd].
      split; [|split; assumption].
      eapply frames_step; [eapply frames_step; [apply (frames3 _ _ _ F1); isin | exact F2 | isin] | exact F3 | isin].
  - (* deep history *)
    destruct (hist_parent i Hi) as (p & Ep & Hp); [rewrite Et; reflexivity|]. rewrite Ep.
    rewrite (srep_bit_has_and 344 MS _ _ _ _ Rcp (srep_of_rep _ _ _ Rh)) by (rewrite ?to_bytes_length; try lia; left; apply row_small).
    rewrite bind_ok.
    assert (Hpa : okp (if intersects (ccompl cv c i) hist || negb (cg_hist_active_parent cv) then Ok false
                       else bit_has 345 (get m A_CONFIG) p)
                      (fun pa => negb (intersects (ccompl cv c i) hist) && negb pa =
                                 negb (intersects (ccompl cv c i) hist) && (negb (cg_hist_active_parent cv) || negb (mem p cfg)))).
    { destruct (intersects (ccompl cv c i) hist); cbn [orb negb andb okp]; [reflexivity|].
      destruct (cg_hist_active_parent cv); cbn [negb orb okp]; [|reflexivity].
      rewrite (srep_bit_has 345 MS _ _ _ (srep_of_rep _ _ _ Rc)) by lia. reflexivity. }
    eapply okp_bind; [exact Hpa|]. intros pa ->. clear Hpa.
    destruct (negb (intersects (ccompl cv c i) hist) && (negb (cg_hist_active_parent cv) || negb (mem p cfg))).
    + eapply okp_weaken; [apply (hist_default_ref i m es ts Hi Hm Re Rt)|].
      intros m1 (F1 & R1 & R1'). unfold chdef in R1, R1'. rewrite Et in R1, R1'.
      split; [eapply frames_mono; [exact F1 | cbv; tauto]|]. split; [exact R1 | exact R1'].
    + eapply okp_bind; [apply (srep_bit_copy 346 MS m A_TMP _ _ Rcp); [lia | rewrite to_bytes_length; lia]|].
      intros m1 [F1 R1]. carry F1. lens_of m1.
      eapply okp_bind; [apply (srep_bit_and 347 MS m1 A_TMP _ _ _ R1 (srep_of_rep WS (get m1 A_HISTORY) hist ltac:(assumption))); lia|].
      intros m2 [F2 R2]. carry F2. lens_of m2.
      eapply okp_bind; [apply (rep_bit_or 348 MS m2 A_ENTRY (get m2 A_TMP) es _ ltac:(assumption) R2); lia|].
      intros m3 [F3 R3]. carry F3.
      assert (F13 : frames m m3 [A_ENTRY; A_TRSET; A_TMP]).
      { eapply frames_step; [eapply frames_step; [apply (frames3 _ _ _ F1); isin | exact F2 | isin] | exact F3 | isin]. }
      rewrite (bs_deep_with_hist cv c Hns Hnt Hok), Et.
      destruct (has_history c i); cbn [fst snd].
      * eapply okp_weaken; [apply (hist_nested_ref i m3 _ Hi ltac:(assumption) R3)|].
        intros m4 [F4 R4]. carry F4. split; [eapply frames_step; [exact F13 | exact F4 | isin]|]. split; [exact R4 | assumption].
      * cbn [okp]. split; [exact F13|]. split; assumption.
  - (* initial *)
    cbn [bmachine_of bm_nt].
    eapply okp_weaken.
    + apply (okp_forM_fold bmem (list nat * list nat)
               (fun m' a => frames m m' [A_ENTRY; A_TRSET; A_TMP] /\ rep WS (get m' A_ENTRY) (fst a) /\ rep WT (get m' A_TRSET) (snd a))
               (seq 0 nt) _
               (fun a ti => if ft_source (tr c ti) =? i
                            then (fold_left (fun e k => if i <? k then set_union e (fs_ancestors (st c k)) else e) (ft_targets (tr c ti))
                                            (set_union (set_remove i (fst a)) (ft_targets (tr c ti))), insert_sorted ti (snd a))
                            else a) m (es, ts)).
      * split; [apply frames_refl | split; assumption].
      * intros j m1 [e1 t1] Hj (F1 & R1 & R1'). cbn [fst snd] in *. apply in_seq in Hj. carrys F1. lens_of m1. pose proof (rep_ssorted _ _ _ R1) as Se1.
        rewrite (tr_at_eq cv c Hns Hnt Hok 351 j) by lia. rewrite bind_ok. cbn [btrans_of bt_source bt_target].
        destruct (ft_source (tr c j) =? i); cbn [negb okp]; [|split; [exact F1 | split; assumption]].
        pose proof (bt_target_srep cv c Hns Hnt Hok j) as Rtg. cbn [btrans_of bt_target] in Rtg.
        eapply okp_bind; [apply (rep_bit_set_at 352 NTB m1 A_TRSET _ j R1'); lia|].
        intros m2 [F2 R2]. carry F2. lens_of m2.
        eapply okp_bind; [apply (rep_bit_clear 353 MS m2 A_ENTRY _ i ltac:(eassumption)); lia|].
        intros m3 [F3 R3]. carry F3. lens_of m3.
        eapply okp_bind; [apply (rep_bit_or 354 MS m3 A_ENTRY _ _ _ R3 Rtg); [lia | rewrite to_bytes_length; lia]|].
        intros m4 [F4 R4]. carry F4.
        eapply okp_weaken; [apply (add_anc_of_ref _ i m4 _ ltac:(assumption) R4 (targets_bounded cv c Hns Hnt Hok j))|].
        intros m5 (F5 & es' & R5 & E5). carry F5. cbn [fst snd]. split; [|split; [|assumption]].
        -- eapply frames_step; [eapply frames_step; [eapply frames_step; [eapply frames_step; [exact F1 | exact F2 | isin] | exact F3 | isin] | exact F4 | isin] | exact F5 | isin].
        -- apply (rep_same _ _ _ _ R5).
           ++ apply fold_cond_ssorted. apply set_union_ssorted, set_remove_ssorted, Se1.
           ++ intros x. rewrite E5, mem_fold_cond. reflexivity.
    + intros m' (F & R1 & R2). split; [exact F|]. split; assumption.
Qed.

(* ------------------------------------------------------------------ ESTABLISH_ENTRY_SET *)
Lemma b_entry_set_ref cfg exitset hist targets transset m :
  mem_shape c m -> rep WS (get m A_CONFIG) cfg -> rep WS (get m A_HISTORY) hist ->
  (rep WS (get m A_EXIT) exitset \/ cfg = []) ->
  rep WS (get m A_TARGET) targets -> bounded ns targets -> rep WT (get m A_TRSET) transset ->
  okp (b_entry_set cv bm m)
      (fun m' => frames m m' [A_ENTRY; A_TRSET; A_TMP] /\
                 rep WS (get m' A_ENTRY) (fst (centry_set cv c cfg exitset hist targets transset)) /\
                 rep WT (get m' A_TRSET) (snd (centry_set cv c cfg exitset hist targets transset))).
Proof.
  intros Hm Rc Rh Rx Rg Bg Rt. unfold b_entry_set, centry_set. rewrite (nsb_eq cv c Hns Hnt Hok). cbn [bmachine_of bm_ns]. lens_of m.
  eapply okp_bind; [apply (rep_bit_copy 371 MS m A_ENTRY _ _ Rg); lia|].
  intros m1 [F1 R1]. assert (Rx1 : rep WS (get m1 A_EXIT) exitset \/ cfg = []).
  { destruct Rx as [Rx|Rx]; [left | now right]. eapply rep_frame; [exact F1 | cbv; discriminate | exact Rx]. }
  carry F1.
  eapply okp_bind; [apply (anc_loop_ref targets m1 ltac:(assumption) R1 Bg)|].
  intros m2 [F2 R2]. assert (Rx2 : rep WS (get m2 A_EXIT) exitset \/ cfg = []).
  { destruct Rx1 as [Rx1|Rx1]; [left | now right]. eapply rep_frame; [exact F2 | cbv; discriminate | exact Rx1]. }
  carry F2.
  assert (F02 : frames m m2 [A_ENTRY; A_TRSET; A_TMP]).
  { eapply frames_step; [apply (frames3 _ _ _ F1); isin | exact F2 | isin]. }
  eapply okp_weaken.
  - apply (okp_forM_fold bmem (list nat * list nat)
             (fun m' a => frames m m' [A_ENTRY; A_TRSET; A_TMP] /\ rep WS (get m' A_ENTRY) (fst a) /\ rep WT (get m' A_TRSET) (snd a))
             (seq 0 ns) _ (cdescend_one cv c cfg exitset hist) m2 (add_ancestors c targets, transset)).
    + split; [exact F02 | split; assumption].
    + intros i m3 [e3 t3] Hi (F3 & R3 & R3'). cbn [fst snd] in *. apply in_seq in Hi.
      assert (Rx3 : rep WS (get m3 A_EXIT) exitset \/ cfg = []).
      { destruct Rx as [Rx|Rx]; [left | now right]. eapply rep_frames; [exact F3 | notin | exact Rx]. }
      clear Rx1 Rx2. carrys F3.
      eapply okp_weaken; [apply (descend_one_ref cfg exitset hist i m3 e3 t3); try assumption; lia|].
      intros m4 (F4 & R4 & R4'). split; [eapply frames_trans; eassumption | split; assumption].
  - intros m' (F & Ra & Rb). unfold cn. split; [exact F | split; assumption].
Qed.

End Entry.
Unset Default Proof Using.
