(* EngineQueueSteps.v -- one call of step() of the two engine models, for EVERY flat chart (no
   well-formedness hypothesis), every engine variant and executor variant:
   * the twelve cases of the control flow around the queues ([ocase]), shared by LargeMicroStep::step and
     FastMicroStep::step through TraceCompleteStep.outer_step;
   * what selection + micro-step ([select_and_step] / [fselect_and_step]) and the initial micro-step do to
     the flags, the queues and the trace;
   * the selection reads the execution state through the datamodel only and leaves the datamodel alone
     (conditions are evaluated by InterpreterImpl::isTrue: an error enqueues error.execution, nothing else),
     so the result of an event-less selection is a function of configuration and datamodel;
   * an event-less selection selects nothing iff no event-less transition is enabled. *)
From V Require Import Base NameMatch Chart Exec Large Fast Interp Trace TraceLemmas SetLemmas
     TraceComplete TraceCompleteBase TraceCompleteMicro TraceCompleteStep TraceCompleteRun TraceCompleteFast
     EngineQueue.
From Coq Require Import ZifyBool.
Local Open Scope nat_scope.

(* ------------------------------------------------------------------ the cases of step() *)

Definition set_completed (l : lstate) : lstate :=
  {| l_cfg := l_cfg l; l_hist := l_hist l; l_initd := l_initd l; l_spont := l_spont l; l_init := l_init l;
     l_tlf := true; l_fin := true; l_stable := l_stable l; l_cancelled := l_cancelled l |}.
Definition set_tlf_cancelled (l : lstate) : lstate :=
  {| l_cfg := l_cfg l; l_hist := l_hist l; l_initd := l_initd l; l_spont := l_spont l; l_init := l_init l;
     l_tlf := true; l_fin := l_fin l; l_stable := l_stable l; l_cancelled := true |}.

Section Cases.
Variable xv : ex_variant.
Variable c : fchart.
Variable ms0 : lstate -> xstate -> lstate * xstate.
Variable sel : lstate -> xstate -> option event -> lstate * xstate * N.

Inductive ocase (l : lstate) (x : xstate) : lstate * xstate * N -> Prop :=
| oc_fin : l_fin l = true -> ocase l x (l, x, RC_FINISHED)
| oc_compl : l_fin l = false -> l_tlf l = true ->
    ocase l x (set_completed l,
               emit TComplE (completion_exec xv c (l_cfg l) (rev (l_cfg l)) (emit TComplB x)), RC_FINISHED)
| oc_init : l_fin l = false -> l_tlf l = false -> is_pristine l = true ->
    ocase l x (fst (ms0 l x), snd (ms0 l x), RC_MICROSTEPPED)
| oc_spont : l_fin l = false -> l_tlf l = false -> is_pristine l = false -> l_spont l = true ->
    ocase l x (sel l x None)
| oc_int e r : l_fin l = false -> l_tlf l = false -> is_pristine l = false -> l_spont l = false ->
    x_iq x = e :: r -> ev_name e <> [] ->
    ocase l x (sel l (emit (TEv (ev_name e)) (pop_iq x)) (Some e))
| oc_int_unnamed e r : l_fin l = false -> l_tlf l = false -> is_pristine l = false -> l_spont l = false ->
    x_iq x = e :: r -> ev_name e = [] ->
    ocase l x (l, x, RC_IDLE)
| oc_stable : l_fin l = false -> l_tlf l = false -> is_pristine l = false -> l_spont l = false ->
    x_iq x = [] -> l_stable l = false ->
    ocase l x (upd_flags l (l_spont l) true, emit TStable x, RC_MACROSTEPPED)
| oc_ext e r : l_fin l = false -> l_tlf l = false -> is_pristine l = false -> l_spont l = false ->
    x_iq x = [] -> l_stable l = true -> x_eq x = e :: r -> ev_name e <> [] ->
    ocase l x (sel l (emit (TEv (ev_name e)) (pop_eq x)) (Some e))
| oc_ext_unnamed_c e r : l_fin l = false -> l_tlf l = false -> is_pristine l = false -> l_spont l = false ->
    x_iq x = [] -> l_stable l = true -> x_eq x = e :: r -> ev_name e = [] -> l_cancelled l = true ->
    ocase l x (set_tlf_cancelled l, pop_eq x, RC_CANCELLED)
| oc_ext_unnamed_i e r : l_fin l = false -> l_tlf l = false -> is_pristine l = false -> l_spont l = false ->
    x_iq x = [] -> l_stable l = true -> x_eq x = e :: r -> ev_name e = [] -> l_cancelled l = false ->
    ocase l x (l, pop_eq x, RC_IDLE)
| oc_empty_c : l_fin l = false -> l_tlf l = false -> is_pristine l = false -> l_spont l = false ->
    x_iq x = [] -> l_stable l = true -> x_eq x = [] -> l_cancelled l = true ->
    ocase l x (set_tlf_cancelled l, x, RC_CANCELLED)
| oc_empty_i : l_fin l = false -> l_tlf l = false -> is_pristine l = false -> l_spont l = false ->
    x_iq x = [] -> l_stable l = true -> x_eq x = [] -> l_cancelled l = false ->
    ocase l x (l, x, RC_IDLE).

Lemma pop_iq_eq x e r : x_iq x = e :: r ->
  {| x_store := x_store x; x_iq := r; x_eq := x_eq x; x_out := x_out x |} = pop_iq x.
Proof. intros H. unfold pop_iq. now rewrite H. Qed.
Lemma pop_eq_eq x e r : x_eq x = e :: r ->
  {| x_store := x_store x; x_iq := x_iq x; x_eq := r; x_out := x_out x |} = pop_eq x.
Proof. intros H. unfold pop_eq. now rewrite H. Qed.

Lemma bool_case {A} (b : bool) (P : A -> Prop) t e :
  (b = true -> P t) -> (b = false -> P e) -> P (if b then t else e).
Proof. destruct b; auto. Qed.
Lemma list_case {A B} (l : list A) (P : B -> Prop) n (f : A -> list A -> B) :
  (l = [] -> P n) -> (forall a r, l = a :: r -> P (f a r)) -> P (match l with [] => n | a :: r => f a r end).
Proof. destruct l; auto. Qed.

Lemma outer_ocase l x : ocase l x (outer_step xv c ms0 sel l x).
Proof.
  unfold outer_step.
  apply (bool_case (l_fin l) (ocase l x)); intros Efin; [now apply oc_fin|].
  apply (bool_case (l_tlf l) (ocase l x)); intros Etlf; [now apply oc_compl|].
  apply (bool_case (is_pristine l) (ocase l x)); intros Epr.
  { pose proof (oc_init l x Efin Etlf Epr) as H. destruct (ms0 l x) as [l1 x1]. exact H. }
  apply (bool_case (l_spont l) (ocase l x)); intros Esp; [now apply oc_spont|].
  apply (list_case (x_iq x) (ocase l x)).
  - intros Eiq.
    apply (bool_case (negb (l_stable l)) (ocase l x)); intros Est.
    { apply negb_true_iff in Est. now apply oc_stable. }
    apply negb_false_iff in Est.
    apply (list_case (x_eq x) (ocase l x)).
    + intros Eeq. apply (bool_case (l_cancelled l) (ocase l x)); intros Ec; [now apply oc_empty_c | now apply oc_empty_i].
    + intros e r Eeq. cbn zeta. rewrite (pop_eq_eq x e r Eeq).
      apply (list_case (ev_name e) (ocase l x)).
      * intros En. apply (bool_case (l_cancelled l) (ocase l x)); intros Ec;
          [now apply (oc_ext_unnamed_c l x e r) | now apply (oc_ext_unnamed_i l x e r)].
      * intros b bs En. apply (oc_ext l x e r); auto. rewrite En. discriminate.
  - intros e r Eiq.
    apply (list_case (ev_name e) (ocase l x)).
    + intros En. now apply (oc_int_unnamed l x e r).
    + intros b bs En. cbn zeta. rewrite (pop_iq_eq x e r Eiq). apply (oc_int l x e r); auto. rewrite En. discriminate.
Qed.

End Cases.

(* ------------------------------------------------------------------ the datamodel and the selection *)

Lemma is_true_store inst cnd x : x_store (snd (is_true inst cnd x)) = x_store x.
Proof. unfold is_true. now destruct (beval inst (x_store x) cnd). Qed.

Lemma is_true_fst inst cnd x :
  fst (is_true inst cnd x) = match beval inst (x_store x) cnd with Some b => b | None => false end.
Proof. unfold is_true. now destruct (beval inst (x_store x) cnd). Qed.

Section LargeSel.
Variable v : lg_variant.
Variable c : fchart.

Lemma pick_trans_store cfg ev sel ts : forall x y, x_store x = x_store y ->
  fst (pick_trans v c cfg ev sel ts x) = fst (pick_trans v c cfg ev sel ts y) /\
  x_store (snd (pick_trans v c cfg ev sel ts x)) = x_store x.
Proof.
  induction ts as [|ti r IH]; intros x y Hxy; cbn [pick_trans]; [now split|].
  destruct (ft_history (tr c ti) || ft_initial (tr c ti)); [now apply IH|].
  destruct (match ev with Some _ => ft_spontaneous (tr c ti) | None => negb (ft_spontaneous (tr c ti)) end); [now apply IH|].
  destruct (existsb _ sel); [now apply IH|].
  destruct (match ev with Some e => negb (name_match_impl nm_fixed (ft_event (tr c ti)) (ev_name e)) | None => false end);
    [now apply IH|].
  destruct (ft_cond (tr c ti)) as [cnd|]; [|now split].
  unfold is_true. rewrite <- Hxy. destruct (beval (inst_of c cfg) (x_store x) cnd) as [[|]|].
  - now split.
  - now apply IH.
  - destruct (IH (raise_int err_exec x) (raise_int err_exec y) Hxy) as [H1 H2]. now split.
Qed.

Lemma select_loop_store cfg ev order : forall skip sel x y, x_store x = x_store y ->
  fst (select_loop v c cfg ev order skip sel x) = fst (select_loop v c cfg ev order skip sel y) /\
  x_store (snd (select_loop v c cfg ev order skip sel x)) = x_store x.
Proof.
  induction order as [|s r IH]; intros skip sel x y Hxy; cbn [select_loop]; [now split|].
  destruct (match skip with Some cur => match fs_parent (st c cur) with Some p => p =? s | None => false end | None => false end);
    [now apply IH|].
  destruct (pick_trans_store cfg ev sel (fs_trans (st c s)) x y Hxy) as [H1 H2].
  destruct (pick_trans_store cfg ev sel (fs_trans (st c s)) y y eq_refl) as [_ H3].
  destruct (pick_trans v c cfg ev sel (fs_trans (st c s)) x) as [o x'].
  destruct (pick_trans v c cfg ev sel (fs_trans (st c s)) y) as [o' y'].
  cbn [fst snd] in *. subst o'.
  assert (Hxy' : x_store x' = x_store y') by congruence.
  destruct o as [ti|].
  - destruct (IH (Some s) (insert_sorted ti sel) x' y' Hxy') as [H4 H5]. split; [exact H4 | congruence].
  - destruct (IH None sel x' y' Hxy') as [H4 H5]. split; [exact H4 | congruence].
Qed.

Lemma large_esel_store cfg x y : x_store x = x_store y -> large_esel v c cfg x = large_esel v c cfg y.
Proof. intros H. unfold large_esel. now apply select_loop_store. Qed.

(* a non-empty selection stays non-empty *)
Lemma insert_sorted_not_nil i l : insert_sorted i l <> [].
Proof.
  destruct l as [|y r]; cbn [insert_sorted]; [discriminate|].
  destruct (i <? y); [discriminate|]. destruct (i =? y); discriminate.
Qed.

Lemma select_loop_keeps cfg ev order : forall skip sel x, sel <> [] ->
  fst (select_loop v c cfg ev order skip sel x) <> [].
Proof.
  induction order as [|s r IH]; intros skip sel x Hs; cbn [select_loop]; [exact Hs|].
  destruct (match skip with Some cur => match fs_parent (st c cur) with Some p => p =? s | None => false end | None => false end);
    [now apply IH|].
  destruct (pick_trans v c cfg ev sel (fs_trans (st c s)) x) as [o x'].
  destruct o; apply IH; [apply insert_sorted_not_nil | exact Hs].
Qed.

(* the first transition that passes the tests, for the event-less selection with nothing selected yet *)
Lemma pick_trans_none_iff cfg ts : forall x,
  fst (pick_trans v c cfg None [] ts x) = None <->
  (forall ti, In ti ts -> eventless_enabled c cfg (x_store x) (tr c ti) = false).
Proof.
  induction ts as [|ti r IH]; intros x; cbn [pick_trans]; [split; [intros _ ? [] | reflexivity]|].
  unfold eventless_enabled at 1.
  destruct (ft_history (tr c ti) || ft_initial (tr c ti)) eqn:E1.
  { rewrite IH. split.
    - intros H t [<-|Ht]; [unfold eventless_enabled; now rewrite E1 | now apply H].
    - intros H t Ht. apply H. now right. }
  destruct (ft_spontaneous (tr c ti)) eqn:E2; cbn [negb].
  2:{ rewrite IH. split.
      - intros H t [<-|Ht]; [unfold eventless_enabled; rewrite E1, E2; reflexivity | now apply H].
      - intros H t Ht. apply H. now right. }
  cbn [existsb].
  unfold cond_holds at 1.
  destruct (ft_cond (tr c ti)) as [cnd|] eqn:E3.
  - unfold is_true. destruct (beval (inst_of c cfg) (x_store x) cnd) as [[|]|] eqn:E4; cbn [fst].
    + split; [discriminate|]. intros H. specialize (H ti (or_introl eq_refl)).
      unfold eventless_enabled, cond_holds in H. rewrite E1, E2, E3, E4 in H. discriminate.
    + rewrite IH. split.
      * intros H t [<-|Ht]; [unfold eventless_enabled, cond_holds; now rewrite E1, E2, E3, E4 | now apply H].
      * intros H t Ht. apply H. now right.
    + rewrite IH. change (x_store (raise_int err_exec x)) with (x_store x). split.
      * intros H t [<-|Ht]; [unfold eventless_enabled, cond_holds; now rewrite E1, E2, E3, E4 | now apply H].
      * intros H t Ht. apply H. now right.
  - cbn [fst]. split; [discriminate|]. intros H. specialize (H ti (or_introl eq_refl)).
    unfold eventless_enabled, cond_holds in H. rewrite E1, E2, E3 in H. discriminate.
Qed.

Lemma select_loop_nil_iff cfg order : forall x,
  fst (select_loop v c cfg None order None [] x) = [] <->
  (forall s ti, In s order -> In ti (fs_trans (st c s)) -> eventless_enabled c cfg (x_store x) (tr c ti) = false).
Proof.
  induction order as [|s r IH]; intros x; cbn [select_loop]; [split; [intros _ ? ? [] | reflexivity]|].
  pose proof (pick_trans_none_iff cfg (fs_trans (st c s)) x) as Hp.
  destruct (pick_trans_store cfg None [] (fs_trans (st c s)) x x eq_refl) as [_ Hst].
  destruct (pick_trans v c cfg None [] (fs_trans (st c s)) x) as [o x']. cbn [fst snd] in *.
  destruct o as [ti|].
  - split.
    + intros H. exfalso. revert H. apply select_loop_keeps. apply insert_sorted_not_nil.
    + intros H. exfalso. assert (Hn : Some ti = None); [|discriminate].
      apply Hp. intros t Ht. apply (H s t); [now left | exact Ht].
  - rewrite IH, Hst. split.
    + intros H s' t [<-|Hs'] Ht; [apply Hp; auto | now apply (H s' t)].
    + intros H s' t Hs' Ht. apply (H s' t); [now right | exact Ht].
Qed.

Lemma In_insert_by key a l b : In b (insert_by key a l) <-> b = a \/ In b l.
Proof.
  induction l as [|y r IH]; cbn [insert_by]; [cbn; intuition|].
  destruct (key a <? key y); cbn [In]; [intuition|]. rewrite IH. intuition.
Qed.

Lemma In_cfg_postfix cfg s : In s (cfg_postfix c cfg) <-> In s cfg /\ fs_trans (st c s) <> [].
Proof.
  unfold cfg_postfix.
  assert (H : forall l acc, In s (fold_left (fun a s0 => insert_by (first_trans c) s0 a) l acc) <-> In s l \/ In s acc).
  { induction l as [|y r IH]; intros acc; cbn [fold_left]; [cbn; intuition|].
    rewrite IH, In_insert_by. cbn [In]. intuition. }
  rewrite H, filter_In. cbn [In]. split.
  - intros [[H1 H2]|[]]. split; [exact H1|]. destruct (fs_trans (st c s)); [discriminate | discriminate].
  - intros [H1 H2]. left. split; [exact H1|]. destruct (fs_trans (st c s)); [congruence | reflexivity].
Qed.

(* the event-less selection selects nothing iff no event-less transition of an active state is enabled *)
Lemma large_esel_nil_iff cfg x :
  large_esel v c cfg x = [] <-> large_none_enabled c cfg (x_store x).
Proof.
  unfold large_esel, large_none_enabled. rewrite select_loop_nil_iff. split.
  - intros H i ti Hi Hti. apply (H i ti); [|exact Hti]. apply In_cfg_postfix. split; [exact Hi|].
    destruct (fs_trans (st c i)); [destruct Hti | discriminate].
  - intros H s ti Hs Hti. apply In_cfg_postfix in Hs. apply (H s ti); tauto.
Qed.

End LargeSel.

Section FastSel.
Variable c : fchart.

Lemma fselect_store cfg ev ts : forall sel x y, x_store x = x_store y ->
  fst (fselect c cfg ev ts sel x) = fst (fselect c cfg ev ts sel y) /\
  x_store (snd (fselect c cfg ev ts sel x)) = x_store x.
Proof.
  induction ts as [|ti r IH]; intros sel x y Hxy; cbn [fselect]; [now split|].
  destruct (ft_history (tr c ti) || ft_initial (tr c ti)); [now apply IH|].
  destruct (negb (mem (ft_source (tr c ti)) cfg)); [now apply IH|].
  destruct (existsb _ sel); [now apply IH|].
  destruct (match ev with Some _ => ft_spontaneous (tr c ti) | None => negb (ft_spontaneous (tr c ti)) end); [now apply IH|].
  destruct (match ev with Some e => negb (name_match_impl nm_fixed (ft_event (tr c ti)) (ev_name e)) | None => false end);
    [now apply IH|].
  destruct (ft_cond (tr c ti)) as [cnd|]; [|now apply IH].
  unfold is_true. rewrite <- Hxy. destruct (beval (inst_of c cfg) (x_store x) cnd) as [[|]|].
  - now apply IH.
  - now apply IH.
  - destruct (IH sel (raise_int err_exec x) (raise_int err_exec y) Hxy) as [H1 H2]. now split.
Qed.

Lemma fast_esel_store cfg x y : x_store x = x_store y -> fast_esel c cfg x = fast_esel c cfg y.
Proof. intros H. unfold fast_esel. now apply fselect_store. Qed.

Lemma fselect_keeps cfg ev ts : forall sel x, sel <> [] -> fst (fselect c cfg ev ts sel x) <> [].
Proof.
  assert (Happ : forall (l : list nat) a, l ++ [a] <> []) by (intros [|? ?] a; discriminate).
  induction ts as [|ti r IH]; intros sel x Hs; cbn [fselect]; [exact Hs|].
  repeat match goal with
         | |- context [if ?b then _ else _] => destruct b; try (apply IH; exact Hs)
         end.
  destruct (ft_cond (tr c ti)) as [cnd|]; [|apply IH; apply Happ].
  destruct (is_true (inst_of c cfg) cnd x) as [b x']. destruct b; apply IH; [apply Happ | exact Hs].
Qed.

Lemma fselect_nil_iff cfg ts : forall x,
  fst (fselect c cfg None ts [] x) = [] <->
  (forall ti, In ti ts -> mem (ft_source (tr c ti)) cfg = true -> eventless_enabled c cfg (x_store x) (tr c ti) = false).
Proof.
  induction ts as [|ti r IH]; intros x; cbn [fselect]; [split; [intros _ ? [] | reflexivity]|].
  assert (Hskip : forall y, x_store y = x_store x ->
            (mem (ft_source (tr c ti)) cfg = true -> eventless_enabled c cfg (x_store x) (tr c ti) = false) ->
            (fst (fselect c cfg None r [] y) = [] <->
             (forall t, ti = t \/ In t r -> mem (ft_source (tr c t)) cfg = true ->
                        eventless_enabled c cfg (x_store x) (tr c t) = false))).
  { intros y Hy Hti. rewrite IH, Hy. split.
    - intros H t [<-|Ht]; [exact Hti | now apply H].
    - intros H t Ht. apply H. now right. }
  destruct (ft_history (tr c ti) || ft_initial (tr c ti)) eqn:E1.
  { apply Hskip; [reflexivity|]. intros _. unfold eventless_enabled. now rewrite E1. }
  destruct (mem (ft_source (tr c ti)) cfg) eqn:E0; cbn [negb].
  2:{ apply Hskip; [reflexivity | discriminate]. }
  cbn [existsb].
  destruct (ft_spontaneous (tr c ti)) eqn:E2; cbn [negb].
  2:{ apply Hskip; [reflexivity|]. intros _. unfold eventless_enabled. rewrite E1, E2. reflexivity. }
  destruct (ft_cond (tr c ti)) as [cnd|] eqn:E3.
  - unfold is_true. destruct (beval (inst_of c cfg) (x_store x) cnd) as [[|]|] eqn:E4.
    + split.
      * intros H. exfalso. revert H. apply fselect_keeps. discriminate.
      * intros H. specialize (H ti (or_introl eq_refl) E0).
        unfold eventless_enabled, cond_holds in H. rewrite E1, E2, E3, E4 in H. discriminate.
    + apply Hskip; [reflexivity|]. intros _. unfold eventless_enabled, cond_holds. now rewrite E1, E2, E3, E4.
    + apply Hskip; [reflexivity|]. intros _. unfold eventless_enabled, cond_holds. now rewrite E1, E2, E3, E4.
  - split.
    + intros H. exfalso. revert H. apply fselect_keeps. discriminate.
    + intros H. specialize (H ti (or_introl eq_refl) E0).
      unfold eventless_enabled, cond_holds in H. rewrite E1, E2, E3 in H. discriminate.
Qed.

Lemma fast_esel_nil_iff cfg x :
  fast_esel c cfg x = [] <-> fast_none_enabled c cfg (x_store x).
Proof.
  unfold fast_esel, fast_none_enabled. rewrite fselect_nil_iff. split.
  - intros H ti Hti. apply H. apply in_seq. lia.
  - intros H ti Hti. apply H. apply in_seq in Hti. lia.
Qed.

End FastSel.

(* ------------------------------------------------------------------ selection + micro-step: flags, queues, trace *)

(* what the generic layer needs of the initial micro-step and of selection + micro-step *)
Record ms0_spec (c : fchart) (ms0 : lstate -> xstate -> lstate * xstate) : Prop := {
  ms0_rep : forall l x, exists sk, rep (raise_names_okb c) x (snd (ms0 l x)) sk /\ ev_of sk = [];
  ms0_flags : forall l x,
    l_spont (fst (ms0 l x)) = true /\ l_init (fst (ms0 l x)) = true /\ l_fin (fst (ms0 l x)) = l_fin l /\
    l_cancelled (fst (ms0 l x)) = l_cancelled l /\ l_stable (fst (ms0 l x)) = l_stable l
}.

Record sel_spec (c : fchart) (esel : list nat -> xstate -> list nat)
       (sel : lstate -> xstate -> option event -> lstate * xstate * N) : Prop := {
  sel_rep : forall l x ev, exists sk, rep (raise_names_okb c) x (snd (fst (sel l x ev))) sk /\ ev_of sk = [];
  sel_rc : forall l x ev, snd (sel l x ev) = RC_MICROSTEPPED;
  sel_flags : forall l x ev,
    l_fin (fst (fst (sel l x ev))) = l_fin l /\ l_cancelled (fst (fst (sel l x ev))) = l_cancelled l /\
    (l_init l = true -> l_init (fst (fst (sel l x ev))) = true) /\ l_stable (fst (fst (sel l x ev))) = false;
  sel_spont_event : forall l x e, l_spont (fst (fst (sel l x (Some e)))) = true;
  sel_spont_none : forall l x ev, l_spont (fst (fst (sel l x ev))) = false ->
    esel (l_cfg (fst (fst (sel l x ev)))) (snd (fst (sel l x ev))) = [];
  esel_store : forall cfg x y, x_store x = x_store y -> esel cfg x = esel cfg y
}.

Lemma ev_of_micro_bracket c pt xs tl en : ev_of (TMsB :: micro_skel_with c pt xs tl en ++ [TMsE]) = [].
Proof.
  change (TMsB :: micro_skel_with c pt xs tl en ++ [TMsE]) with ([TMsB] ++ micro_skel_with c pt xs tl en ++ [TMsE]).
  rewrite !ev_of_app, (ev_of_inner _ (micro_skel_inner c pt xs tl en)). reflexivity.
Qed.

Section LargeSpec.
Variable v : lg_variant.
Variable xv : ex_variant.
Variable c : fchart.
Let ok := raise_names_okb c.

Lemma microstep_flags l x targets exitset transset initial_step :
  let l' := fst (microstep v xv c l x targets exitset transset initial_step) in
  l_spont l' = true /\ l_init l' = true /\ l_fin l' = l_fin l /\ l_cancelled l' = l_cancelled l /\
  l_stable l' = l_stable l.
Proof.
  cbn zeta. unfold microstep. cbn zeta.
  destruct (entry_set v c (l_cfg l) exitset _ targets transset) as [es ts].
  destruct (fold_left (exit_one xv c) (rev exitset) (l_cfg l, x)) as [cfg1 x1].
  cbn [fst l_spont l_init l_fin l_cancelled l_stable]. auto.
Qed.

Lemma microstep_bracket_rep l x targets exitset transset initial_step :
  exists sk, rep ok x (snd (microstep v xv c l (emit TMsB x) targets exitset transset initial_step)) sk /\ ev_of sk = [].
Proof.
  destruct (microstep_rep v xv c l (emit TMsB x) targets exitset transset initial_step) as (_ & _ & _ & _ & _ & Hrep).
  cbn zeta in Hrep.
  eexists. split.
  - eapply rep_trans; [apply (rep_tok ok x TMsB); reflexivity | exact Hrep].
  - cbn [app]. apply ev_of_micro_bracket.
Qed.

Lemma large_ms0_spec :
  ms0_spec c (fun l x => microstep v xv c l (emit TMsB x) (fs_completion (st c 0)) [] [] true).
Proof.
  split.
  - intros l x. apply microstep_bracket_rep.
  - intros l x. apply microstep_flags.
Qed.

Lemma select_and_step_cases l x ev :
  let l0 := upd_flags l (l_spont l) false in
  let r := select_loop v c (l_cfg l) ev (cfg_postfix c (l_cfg l)) None [] x in
  (fst r = [] /\
   select_and_step v xv c l x ev =
     (upd_flags l0 (match ev with Some _ => true | None => false end) false, snd r, RC_MICROSTEPPED)) \/
  (fst r <> [] /\ exists targets exitset,
   select_and_step v xv c l x ev =
     (fst (microstep v xv c l0 (emit TMsB (snd r)) targets exitset (fst r) false),
      snd (microstep v xv c l0 (emit TMsB (snd r)) targets exitset (fst r) false), RC_MICROSTEPPED)).
Proof.
  cbn zeta. unfold select_and_step. cbn zeta. cbn [upd_flags l_cfg].
  destruct (select_loop v c (l_cfg l) ev (cfg_postfix c (l_cfg l)) None [] x) as [sel x1].
  cbn [fst snd]. destruct sel as [|t r]; [left; split; reflexivity|].
  right. split; [discriminate|]. eexists. eexists.
  match goal with |- (let '(l1, x2) := ?m in _) = _ => rewrite (surjective_pairing m) end. reflexivity.
Qed.

Lemma large_sel_spec : sel_spec c (large_esel v c) (select_and_step v xv c).
Proof.
  split.
  - intros l x ev.
    pose proof (select_loop_quiet v c (l_cfg l) ev (cfg_postfix c (l_cfg l)) None [] x) as Hq.
    destruct (select_and_step_cases l x ev) as [[_ ->]|(_ & tg & ex & ->)]; cbn [fst snd].
    + exists []. split; [now apply rep_quiet | reflexivity].
    + destruct (microstep_bracket_rep (upd_flags l (l_spont l) false)
                  (snd (select_loop v c (l_cfg l) ev (cfg_postfix c (l_cfg l)) None [] x)) tg ex
                  (fst (select_loop v c (l_cfg l) ev (cfg_postfix c (l_cfg l)) None [] x)) false) as (sk & H1 & H2).
      exists sk. split; [|exact H2]. change sk with ([] ++ sk). eapply rep_trans; [apply rep_quiet; exact Hq | exact H1].
  - intros l x ev. destruct (select_and_step_cases l x ev) as [[_ ->]|(_ & tg & ex & ->)]; reflexivity.
  - intros l x ev. destruct (select_and_step_cases l x ev) as [[_ ->]|(_ & tg & ex & ->)]; cbn [fst snd].
    + cbn. auto.
    + match goal with |- context [microstep v xv c ?l0 ?x0 tg ex ?s false] =>
        destruct (microstep_flags l0 x0 tg ex s false) as (H1 & H2 & H3 & H4 & H5) end.
      cbn zeta in *. rewrite H3, H4, H5. cbn. auto.
  - intros l x e. destruct (select_and_step_cases l x (Some e)) as [[_ ->]|(_ & tg & ex & ->)]; cbn [fst snd].
    + reflexivity.
    + match goal with |- context [microstep v xv c ?l0 ?x0 tg ex ?s false] =>
        destruct (microstep_flags l0 x0 tg ex s false) as (H1 & _) end. exact H1.
  - intros l x ev. destruct (select_and_step_cases l x ev) as [[Hn ->]|(_ & tg & ex & ->)]; cbn [fst snd].
    + destruct ev as [e|]; [cbn; discriminate|]. intros _. cbn [upd_flags l_cfg]. unfold large_esel.
      destruct (select_loop_store v c (l_cfg l) None (cfg_postfix c (l_cfg l)) None [] x x eq_refl) as [_ Hst].
      destruct (select_loop_store v c (l_cfg l) None (cfg_postfix c (l_cfg l)) None []
                    (snd (select_loop v c (l_cfg l) None (cfg_postfix c (l_cfg l)) None [] x)) x Hst) as [H _].
      rewrite H. exact Hn.
    + match goal with |- context [microstep v xv c ?l0 ?x0 tg ex ?s false] =>
        destruct (microstep_flags l0 x0 tg ex s false) as (H1 & _) end. cbn zeta in H1. rewrite H1. discriminate.
  - apply large_esel_store.
Qed.

End LargeSpec.

Section FastSpec.
Variable xv : ex_variant.
Variable c : fchart.
Let ok := raise_names_okb c.

Lemma fmicrostep_flags l x targets exitset transset initial_step :
  let l' := fst (fmicrostep xv c l x targets exitset transset initial_step) in
  l_spont l' = true /\ l_init l' = true /\ l_fin l' = l_fin l /\ l_cancelled l' = l_cancelled l /\
  l_stable l' = l_stable l.
Proof.
  cbn zeta. unfold fmicrostep. cbn zeta.
  destruct (fentry_set c (l_cfg l) exitset _ targets transset) as [es ts].
  destruct (fold_left (exit_one xv c) (rev exitset) (l_cfg l, x)) as [cfg1 x1].
  cbn [fst l_spont l_init l_fin l_cancelled l_stable]. auto.
Qed.

Lemma fmicrostep_bracket_rep l x targets exitset transset initial_step :
  exists sk, rep ok x (snd (fmicrostep xv c l (emit TMsB x) targets exitset transset initial_step)) sk /\ ev_of sk = [].
Proof.
  destruct (fmicrostep_rep xv c l (emit TMsB x) targets exitset transset initial_step) as (_ & _ & _ & Hrep).
  cbn zeta in Hrep.
  eexists. split.
  - eapply rep_trans; [apply (rep_tok ok x TMsB); reflexivity | exact Hrep].
  - cbn [app]. apply ev_of_micro_bracket.
Qed.

Lemma fast_ms0_spec :
  ms0_spec c (fun l x => fmicrostep xv c l (emit TMsB x) (fs_completion (st c 0)) [] [] true).
Proof.
  split.
  - intros l x. apply fmicrostep_bracket_rep.
  - intros l x. apply fmicrostep_flags.
Qed.

Lemma fselect_and_step_cases l x ev :
  let l0 := upd_flags l (l_spont l) false in
  let r := fselect c (l_cfg l) ev (seq 0 (ntrans c)) [] x in
  (fst r = [] /\
   fselect_and_step xv c l x ev =
     (upd_flags l0 (match ev with Some _ => true | None => false end) false, snd r, RC_MICROSTEPPED)) \/
  (fst r <> [] /\ exists targets exitset,
   fselect_and_step xv c l x ev =
     (fst (fmicrostep xv c l0 (emit TMsB (snd r)) targets exitset (fst r) false),
      snd (fmicrostep xv c l0 (emit TMsB (snd r)) targets exitset (fst r) false), RC_MICROSTEPPED)).
Proof.
  cbn zeta. unfold fselect_and_step. cbn zeta. cbn [upd_flags l_cfg].
  destruct (fselect c (l_cfg l) ev (seq 0 (ntrans c)) [] x) as [sel x1].
  cbn [fst snd]. destruct sel as [|t r]; [left; split; reflexivity|].
  right. split; [discriminate|]. eexists. eexists.
  match goal with |- (let '(l1, x2) := ?m in _) = _ => rewrite (surjective_pairing m) end. reflexivity.
Qed.

Lemma fast_sel_spec : sel_spec c (fast_esel c) (fselect_and_step xv c).
Proof.
  split.
  - intros l x ev.
    pose proof (fselect_quiet c (l_cfg l) ev (seq 0 (ntrans c)) [] x) as Hq.
    destruct (fselect_and_step_cases l x ev) as [[_ ->]|(_ & tg & ex & ->)]; cbn [fst snd].
    + exists []. split; [now apply rep_quiet | reflexivity].
    + destruct (fmicrostep_bracket_rep (upd_flags l (l_spont l) false)
                  (snd (fselect c (l_cfg l) ev (seq 0 (ntrans c)) [] x)) tg ex
                  (fst (fselect c (l_cfg l) ev (seq 0 (ntrans c)) [] x)) false) as (sk & H1 & H2).
      exists sk. split; [|exact H2]. change sk with ([] ++ sk). eapply rep_trans; [apply rep_quiet; exact Hq | exact H1].
  - intros l x ev. destruct (fselect_and_step_cases l x ev) as [[_ ->]|(_ & tg & ex & ->)]; reflexivity.
  - intros l x ev. destruct (fselect_and_step_cases l x ev) as [[_ ->]|(_ & tg & ex & ->)]; cbn [fst snd].
    + cbn. auto.
    + match goal with |- context [fmicrostep xv c ?l0 ?x0 tg ex ?s false] =>
        destruct (fmicrostep_flags l0 x0 tg ex s false) as (H1 & H2 & H3 & H4 & H5) end.
      cbn zeta in *. rewrite H3, H4, H5. cbn. auto.
  - intros l x e. destruct (fselect_and_step_cases l x (Some e)) as [[_ ->]|(_ & tg & ex & ->)]; cbn [fst snd].
    + reflexivity.
    + match goal with |- context [fmicrostep xv c ?l0 ?x0 tg ex ?s false] =>
        destruct (fmicrostep_flags l0 x0 tg ex s false) as (H1 & _) end. exact H1.
  - intros l x ev. destruct (fselect_and_step_cases l x ev) as [[Hn ->]|(_ & tg & ex & ->)]; cbn [fst snd].
    + destruct ev as [e|]; [cbn; discriminate|]. intros _. cbn [upd_flags l_cfg]. unfold fast_esel.
      destruct (fselect_store c (l_cfg l) None (seq 0 (ntrans c)) [] x x eq_refl) as [_ Hst].
      destruct (fselect_store c (l_cfg l) None (seq 0 (ntrans c)) []
                    (snd (fselect c (l_cfg l) None (seq 0 (ntrans c)) [] x)) x Hst) as [H _].
      rewrite H. exact Hn.
    + match goal with |- context [fmicrostep xv c ?l0 ?x0 tg ex ?s false] =>
        destruct (fmicrostep_flags l0 x0 tg ex s false) as (H1 & _) end. cbn zeta in H1. rewrite H1. discriminate.
  - apply fast_esel_store.
Qed.

End FastSpec.
