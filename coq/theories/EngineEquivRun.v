(* EngineEquivRun.v -- C03: step() of FastMicroStep (Fast.fast_step) against step() of LargeMicroStep
   (Large.large_step) and whole runs of the driver loop (Interp.run_loop), on the history-free core, under
   the computable side conditions collected in [step_guardb] / [eq_guard_run] (evaluated along the LARGE
   engine's run).  Definitions of the guards and proofs. *)
From V Require Import Base NameMatch Chart Exec Large LargeLemmas Fast Interp Legal SetLemmas LegalAbstract LegalLarge
  LegalRun WfCore LegalOracle LargeCacheLemmas SelectConform SelectConformLemmas MicroConform MicroConformLemmas
  MicroConformEntry MicroConformCompose EngineEquivBase EngineEquivEntry EngineEquivDone EngineEquivStep
  EngineEquivMicro EngineEquivSelect.
Local Open Scope nat_scope.

(* ------------------------------------------------------------------ the guards *)

(* selection and the microstep that follows it *)
Definition sas_guardb (c : fchart) (l : lstate) (x : xstate) (ev : option event) : bool :=
  let cfg := l_cfg l in
  sel_guardb c cfg ev (cfg_postfix c cfg) None [] x &&
  let '(sel, x1) := select_loop lg_fixed c cfg ev (cfg_postfix c cfg) None [] x in
  match sel with
  | [] => true
  | _ => ms_guardb c l (sel_targets c sel) (sel_exitset c cfg sel) sel false
  end.

(* one step(): the control flow of Large.large_step *)
Definition step_guardb (c : fchart) (l : lstate) (x : xstate) : bool :=
  if l_fin l then true
  else if l_tlf l then true
  else if is_pristine l then ms_guardb c l (fs_completion (st c 0)) [] [] true
  else if l_spont l then sas_guardb c l x None
  else
    match x_iq x with
    | e :: r =>
      match ev_name e with
      | [] => true
      | _ => sas_guardb c l (emit (TEv (ev_name e)) {| x_store := x_store x; x_iq := r; x_eq := x_eq x; x_out := x_out x |}) (Some e)
      end
    | [] =>
      if negb (l_stable l) then true
      else
        match x_eq x with
        | e :: r =>
          match ev_name e with
          | [] => true
          | _ => sas_guardb c l (emit (TEv (ev_name e)) {| x_store := x_store x; x_iq := x_iq x; x_eq := r; x_out := x_out x |}) (Some e)
          end
        | [] => true
        end
    end.

(* a whole run: re-runs the large engine and checks the step guard at every step *)
Fixpoint eq_guard_run (xv : ex_variant) (c : fchart) (fuel : nat) (l : lstate) (x : xstate) (evs : list bytes) : bool :=
  match fuel with
  | O => true
  | S f =>
    step_guardb c l x &&
    let '(l1, x1, rc) := large_step lg_fixed xv c l x in
    let x2 := emit (cfg_tok c lstate l_cfg l1) (emit (TRet rc) x1) in
    if (rc =? RC_FINISHED)%N then true
    else if (rc =? RC_IDLE)%N then
      match evs with
      | [] => true
      | e :: r => eq_guard_run xv c f l1 (raise_ext {| ev_name := e; ev_kind := EvExternal |} x2) r
      end
    else eq_guard_run xv c f l1 x2 evs
  end.

(* the static side conditions *)
Definition eq_chartb (c : fchart) : bool :=
  wf_coreb c && match fs_type (st c 0) with FCompound => true | _ => false end && leaf_okb c && par_nonemptyb c &&
  trans_tableb c.

(* ------------------------------------------------------------------ proofs *)

Lemma upd_flags_eqv c lf ll a b : lstate_eqv c lf ll -> lstate_eqv c (upd_flags lf a b) (upd_flags ll a b).
Proof.
  intros (Rc & Rh & Ri & Rs & Rin & Rt & Rf & Rst & Rca). unfold lstate_eqv, upd_flags.
  cbn [l_cfg l_hist l_initd l_spont l_init l_tlf l_fin l_stable l_cancelled]. repeat split; assumption.
Qed.

Lemma CfgOK_eqv c lf ll : lstate_eqv c lf ll -> CfgOK c ll -> CfgOK c lf.
Proof.
  intros (Rc & Rh & Ri & Rs & Rin & Rt & Rf & Rst & Rca) [[Hp Hn]|[Hi HL]].
  - left. unfold is_pristine in *. rewrite Rs, Rin, Rt, Rf, Rst, Rc. tauto.
  - right. rewrite Rin, Rc. tauto.
Qed.

Section Steps.
Variable xv : ex_variant.
Variable c : fchart.
Hypothesis Hwf : wf_coreb c = true.
Hypothesis Hroot : fs_type (st c 0) = FCompound.
Hypothesis Hleaf : leaf_okb c = true.
Hypothesis Hpar : par_nonemptyb c = true.
Hypothesis Htab : trans_tableb c = true.
Let W : WF c := wf_coreb_sound c Hwf.

(* results of a step: engine states related, execution state and return code equal *)
Definition res_eqv (rf rl : lstate * xstate * N) : Prop :=
  lstate_eqv c (fst (fst rf)) (fst (fst rl)) /\ snd (fst rf) = snd (fst rl) /\ snd rf = snd rl.

(* selection equality as a hypothesis *)
Lemma ee_sas_given_selection lf ll x ev :
  lstate_eqv c lf ll -> LegalCfg c (l_cfg ll) -> ssorted (l_cfg ll) ->
  fselect c (l_cfg ll) ev (seq 0 (ntrans c)) [] x = select_loop lg_fixed c (l_cfg ll) ev (cfg_postfix c (l_cfg ll)) None [] x ->
  (let '(sel, x1) := select_loop lg_fixed c (l_cfg ll) ev (cfg_postfix c (l_cfg ll)) None [] x in
   match sel with [] => true | _ => ms_guardb c ll (sel_targets c sel) (sel_exitset c (l_cfg ll) sel) sel false end) = true ->
  res_eqv (fselect_and_step xv c lf x ev) (select_and_step lg_fixed xv c ll x ev).
Proof.
  intros Hrel HL Hs Hsel Hms. pose proof Hrel as (Rc & _).
  unfold fselect_and_step, select_and_step. cbn zeta.
  change (l_cfg (upd_flags lf (l_spont lf) false)) with (l_cfg lf).
  change (l_cfg (upd_flags ll (l_spont ll) false)) with (l_cfg ll).
  rewrite Rc, Hsel.
  assert (Hspont : l_spont lf = l_spont ll) by (destruct Hrel as (_ & _ & _ & H & _); exact H).
  pose proof (select_loop_pairwise lg_fixed c (l_cfg ll) ev (cfg_postfix c (l_cfg ll)) None [] x (nil_pairwise _ _)) as Hok.
  pose proof (select_loop_sources c W (l_cfg ll) ev (cfg_postfix c (l_cfg ll)) None [] x (cfg_postfix_sub c (l_cfg ll)) (fun ti (H : In ti []) => match H with end)) as Hsrc.
  pose proof (ee_select_plain c (l_cfg ll) ev (cfg_postfix c (l_cfg ll)) None [] x eq_refl) as Hplain.
  destruct (select_loop lg_fixed c (l_cfg ll) ev (cfg_postfix c (l_cfg ll)) None [] x) as [sel x1]. cbn [fst] in *.
  destruct sel as [|t r] eqn:Esel.
  - unfold res_eqv. cbn [fst snd]. rewrite Hspont. split; [|split; reflexivity].
    apply upd_flags_eqv. now apply upd_flags_eqv.
  - rewrite <- Esel in *. clear Esel.
    assert (Hrel0 : lstate_eqv c (upd_flags lf (l_spont lf) false) (upd_flags ll (l_spont ll) false)).
    { rewrite Hspont. now apply upd_flags_eqv. }
    pose proof (ee_microstep_sel xv c Hwf Hleaf Hpar (upd_flags lf (l_spont lf) false) (upd_flags ll (l_spont ll) false)
                  (emit TMsB x1) sel Hrel0 HL Hs Hsrc Hok Hplain Hms) as [M1 M2].
    change (l_cfg (upd_flags ll (l_spont ll) false)) with (l_cfg ll) in M1, M2.
    change (fold_left (fun a ti => set_union a (ft_targets (tr c ti))) sel []) with (sel_targets c sel).
    change (fold_left (fun a ti => set_union a (exit_states_of lg_fixed c (l_cfg ll) (tr c ti))) sel []) with (sel_exitset c (l_cfg ll) sel).
    destruct (fmicrostep xv c _ _ _ _ _ _) as [l1f x2f]. destruct (microstep lg_fixed xv c _ _ _ _ _ _) as [l1l x2l].
    unfold res_eqv. cbn [fst snd] in *. tauto.
Qed.

Lemma ee_sas_rel lf ll x ev :
  lstate_eqv c lf ll -> LegalCfg c (l_cfg ll) -> ssorted (l_cfg ll) -> sas_guardb c ll x ev = true ->
  res_eqv (fselect_and_step xv c lf x ev) (select_and_step lg_fixed xv c ll x ev).
Proof.
  intros Hrel HL Hs Hg. unfold sas_guardb in Hg. cbn zeta in Hg.
  apply andb_true_iff in Hg as [G2 G3].
  apply ee_sas_given_selection; try assumption.
  apply (ee_select_eq c W); [now apply ssorted_NoDup | | exact G2].
  apply (ee_cand_ok c Htab); [now apply ssorted_NoDup | exact (proj2 HL)].
Qed.

Theorem ee_step_rel lf ll x :
  lstate_eqv c lf ll -> CfgOK c ll -> ssorted (l_cfg ll) -> step_guardb c ll x = true ->
  res_eqv (fast_step xv c lf x) (large_step lg_fixed xv c ll x).
Proof.
  intros Hrel HOK Hs Hg. pose proof Hrel as (Rc & Rh & Ri & Rs & Rin & Rt & Rf & Rst & Rca).
  assert (Hpr : is_pristine lf = is_pristine ll) by (unfold is_pristine; now rewrite Rs, Rin, Rt, Rf, Rst).
  unfold fast_step, large_step, step_guardb in *. rewrite Rf, Rt, Hpr, Rs, Rst, Rca, Rc.
  destruct (l_fin ll) eqn:Hfin.
  { unfold res_eqv. cbn [fst snd]. tauto. }
  destruct (l_tlf ll) eqn:Htlf.
  { unfold res_eqv. cbn [fst snd]. split; [|split; reflexivity].
    unfold lstate_eqv. cbn [l_cfg l_hist l_initd l_spont l_init l_tlf l_fin l_stable l_cancelled]. repeat split; assumption. }
  destruct (is_pristine ll) eqn:Hp.
  { destruct HOK as [[_ Hnil]|[Hi _]]; [|rewrite (init_not_pristine ll Hi) in Hp; discriminate].
    pose proof (ee_microstep_init xv c Hwf Hleaf Hpar Hroot lf ll (emit TMsB x) Hrel Hnil Hg) as [M1 M2].
    destruct (fmicrostep xv c _ _ _ _ _ _) as [l1f x2f]. destruct (microstep lg_fixed xv c _ _ _ _ _ _) as [l1l x2l].
    unfold res_eqv. cbn [fst snd] in *. tauto. }
  assert (HL : LegalCfg c (l_cfg ll)) by (destruct HOK as [[Hp' _]|[_ H]]; [congruence | exact H]).
  destruct (l_spont ll) eqn:Hsp; [now apply ee_sas_rel|].
  destruct (x_iq x) as [|e r].
  - destruct (l_stable ll) eqn:Hst; cbn [negb] in *.
    + destruct (x_eq x) as [|e r].
      * destruct (l_cancelled ll); unfold res_eqv; cbn [fst snd]; (split; [|split; reflexivity]); [|exact Hrel].
        unfold lstate_eqv. cbn [l_cfg l_hist l_initd l_spont l_init l_tlf l_fin l_stable l_cancelled]. repeat split; assumption.
      * destruct (ev_name e) eqn:He.
        -- destruct (l_cancelled ll); unfold res_eqv; cbn [fst snd]; (split; [|split; reflexivity]); [|exact Hrel].
           unfold lstate_eqv. cbn [l_cfg l_hist l_initd l_spont l_init l_tlf l_fin l_stable l_cancelled]. repeat split; assumption.
        -- now apply ee_sas_rel.
    + unfold res_eqv. cbn [fst snd]. split; [|split; reflexivity]. now apply upd_flags_eqv.
  - destruct (ev_name e) eqn:He.
    + unfold res_eqv. cbn [fst snd]. tauto.
    + now apply ee_sas_rel.
Qed.

(* ---- whole runs ---- *)

Theorem ee_run_rel : forall fuel lf ll x evs,
  lstate_eqv c lf ll -> CfgOK c ll -> ssorted (l_cfg ll) -> eq_guard_run xv c fuel ll x evs = true ->
  lstate_eqv c (fst (run_loop c lstate (fast_step xv c) l_cfg fuel lf x evs))
               (fst (run_loop c lstate (large_step lg_fixed xv c) l_cfg fuel ll x evs)) /\
  snd (run_loop c lstate (fast_step xv c) l_cfg fuel lf x evs) =
  snd (run_loop c lstate (large_step lg_fixed xv c) l_cfg fuel ll x evs).
Proof.
  induction fuel as [|f IH]; intros lf ll x evs Hrel HOK Hs Hg; cbn [run_loop]; [cbn [fst snd]; tauto|].
  cbn [eq_guard_run] in Hg. apply andb_true_iff in Hg as [G1 G2].
  pose proof (ee_step_rel lf ll x Hrel HOK Hs G1) as (S1 & S2 & S3).
  pose proof (large_step_legal c xv W Hroot ll x HOK) as HOK1.
  pose proof (large_step_ssorted lg_fixed xv c ll x Hs) as Hs1.
  destruct (fast_step xv c lf x) as [[lf1 xf1] rcf]. destruct (large_step lg_fixed xv c ll x) as [[ll1 xl1] rcl].
  cbn [fst snd] in *. subst xf1 rcf.
  assert (Htok : cfg_tok c lstate l_cfg lf1 = cfg_tok c lstate l_cfg ll1) by (unfold cfg_tok; destruct S1 as (E & _); now rewrite E).
  rewrite Htok.
  destruct (N.eqb rcl RC_FINISHED); [cbn [fst snd]; tauto|].
  destruct (N.eqb rcl RC_IDLE).
  - destruct evs as [|e r]; [cbn [fst snd]; tauto|]. now apply IH.
  - now apply IH.
Qed.

End Steps.
