(* ValidateBridgeRows.v -- the rows of the flat tables Chart.flatten builds for ANY document (pseudo-states
   included), against the resorted tree root = resort t0: types, children, parent, completion, blocks of the
   document-order numbering, resolution of ids (with unique ids), the transition table and the transitions of one
   state.  Generalises FlattenWfKinds.v (which needs resort t = t).  Proofs only. *)
From V Require Import Base Chart Tables TreeLemmas LargeCacheLemmas WfCore FlattenWf FlattenWfTree FlattenWfStruct
     FlattenWfKinds FlattenWfLemmas FlattenWfSideLemmas ValidateBridge.
From Coq Require Import Permutation.
Local Open Scope nat_scope.

(* ------------------------------------------------------------------ post-fix listing: every number once *)

Lemma postfix_perm : forall t s, Permutation (postfix_states t s) (seq s (tsize t)).
Proof.
  induction t as [k sd i tr en ex d kids IH] using tree_ind'. intros s.
  rewrite postfix_states_unfold, tsize_unfold. cbn [t_kids seq].
  assert (Hf : forall nx, Permutation (postfix_forest kids nx) (seq nx (tsize_list kids))).
  { induction IH as [|x r Hx _ IHr]; intros nx; [constructor|]. cbn [postfix_forest]. rewrite tsize_list_cons, seq_app.
    apply Permutation_app; [apply Hx | apply IHr]. }
  eapply Permutation_trans; [apply Permutation_app_comm|]. cbn [app]. constructor. apply Hf.
Qed.

Lemma postfix_NoDup t : NoDup (postfix_states t 0).
Proof. eapply Permutation_NoDup; [apply Permutation_sym, postfix_perm | apply seq_NoDup]. Qed.

Lemma postfix_all_general t i : i < tsize t -> In i (postfix_states t 0).
Proof.
  intros Hi. apply (Permutation_in _ (Permutation_sym (postfix_perm t 0))). apply in_seq. lia.
Qed.

Lemma flat_map_ext_in' {A B} (f g : A -> list B) l : (forall x, In x l -> f x = g x) -> flat_map f l = flat_map g l.
Proof. induction l as [|x r IH]; intros H; [reflexivity|]. cbn [flat_map]. rewrite (H x (or_introl eq_refl)), IH; [reflexivity|]. intros y Hy. apply H. now right. Qed.

Lemma index_where_length {A} (f : A -> bool) : forall l b, length (index_where f l b) = length (filter f l).
Proof. induction l as [|x r IH]; intros b; cbn [index_where filter]; [reflexivity|]. destruct (f x); cbn [length]; now rewrite IH. Qed.

Lemma flat_map_pick {B} (g : nat -> list B) i : forall l, NoDup l -> In i l ->
  length (flat_map (fun j => if j =? i then g j else []) l) = length (g i).
Proof.
  induction l as [|x r IH]; intros Hn Hin; [destruct Hin|]. inversion Hn as [|? ? Hx Hr]; subst. cbn [flat_map].
  rewrite app_length. destruct (Nat.eqb_spec x i) as [->|Hne].
  - assert (E : flat_map (fun j => if j =? i then g j else []) r = []).
    { clear - Hx. induction r as [|y r IH]; [reflexivity|]. cbn [flat_map]. destruct (Nat.eqb_spec y i) as [->|_].
      - exfalso. apply Hx. now left.
      - cbn [app]. apply IH. intros H. apply Hx. now right. }
    rewrite E. cbn [length]. lia.
  - destruct Hin as [E|Hin]; [congruence|]. cbn [length]. now rewrite IH.
Qed.

Lemma filter_flat_map {A B} (f : B -> bool) (g : A -> list B) l : filter f (flat_map g l) = flat_map (fun x => filter f (g x)) l.
Proof. induction l as [|x r IH]; [reflexivity|]. cbn [flat_map]. now rewrite filter_app, IH. Qed.

(* ------------------------------------------------------------------ rows *)

Section GRows.
Variable late : bool.
Variable t0 : tree.
Let root := resort t0.
Let c := flatten late t0.
Let n := tsize root.
Let nodes := nodes_of root.
Let ids := fl_ids t0.

Lemma g_nstates : nstates c = n. Proof. apply fl_nstates. Qed.

Lemma g_st i : i < n ->
  fs_type (st c i) = type_of (ntree nodes i) /\
  fs_children (st c i) = child_indices (t_kids (ntree nodes i)) (S i) /\
  fs_size (st c i) = tsize (ntree nodes i) /\
  fs_completion (st c i) =
    completion_of (doc_nodes root 0 None) ids i (ntree nodes i) (npar nodes i)
                  (child_indices (t_kids (ntree nodes i)) (S i)) /\
  fs_parent (st c i) = npar nodes i /\
  fs_sid (st c i) = t_sid (ntree nodes i).
Proof.
  intros Hi. destruct (st_flatten late t0 i Hi) as (E1 & E2 & _ & E4 & E5 & E6). fold c root in E1, E2, E4, E5, E6.
  pose proof (fl_completion late t0 i Hi) as E7. fold c root in E7.
  rewrite <- (ntree_nodes root i Hi) in E2, E4, E5, E6. fold nodes in E2, E4, E5, E6, E7.
  rewrite <- (npar_nodes root i Hi) in E1. fold nodes in E1. repeat split; assumption.
Qed.

Lemma g_anc a b : a < n -> b < n -> (mem a (fs_ancestors (st c b)) = true <-> a < b < a + tsize (ntree nodes a)).
Proof.
  intros Ha Hb. destruct (tree_interval_flatten late t0) as (_ & _ & Hanc & _). fold c root n in Hanc.
  rewrite (Hanc a b Ha Hb). destruct (g_st a Ha) as (_ & _ & Es & _). now rewrite Es.
Qed.

Lemma g_kid i j kid : i < n -> nth_error (t_kids (ntree nodes i)) j = Some kid ->
  let b := S i + tsize_list (firstn j (t_kids (ntree nodes i))) in
  b < n /\ ntree nodes b = kid /\ fs_parent (st c b) = Some i /\ In b (fs_children (st c i)).
Proof.
  intros Hi Hj b. destruct (ntree_kid root i j kid Hi Hj) as [Hb Hn]. fold nodes b in Hb, Hn.
  split; [exact Hb|]. split; [exact Hn|].
  assert (Hin : In b (fs_children (st c i))).
  { destruct (g_st i Hi) as (_ & Ec & _). rewrite Ec. apply child_indices_spec. exists j, kid. split; [exact Hj | reflexivity]. }
  split; [|exact Hin].
  destruct (tree_interval_flatten late t0) as (_ & _ & _ & _ & _ & Hc & _). fold c root n in Hc. now apply (Hc i b Hi).
Qed.

Lemma g_parent_kid b i : b < n -> fs_parent (st c b) = Some i ->
  i < n /\ i < b < i + tsize (ntree nodes i) /\
  exists j, nth_error (t_kids (ntree nodes i)) j = Some (ntree nodes b) /\ b = S i + tsize_list (firstn j (t_kids (ntree nodes i))).
Proof.
  intros Hb Hp. destruct (tree_interval_flatten late t0) as (_ & _ & _ & Hpar & _ & Hc & _). fold c root n in Hpar, Hc.
  destruct (Hpar i b Hb Hp) as [H1 H2]. assert (Hi : i < n) by lia. split; [exact Hi|].
  destruct (g_st i Hi) as (_ & Ec & Es & _). rewrite Es in H2. split; [lia|].
  assert (Hin : In b (fs_children (st c i))) by (apply (Hc i b Hi); split; assumption).
  rewrite Ec in Hin. apply child_indices_spec in Hin as (j & kid & Hj & Eb). exists j. split; [|exact Eb].
  destruct (ntree_kid root i j kid Hi Hj) as [_ Hn]. fold nodes in Hn. rewrite <- Eb in Hn. now rewrite Hn.
Qed.

Lemma g_root_parent : fs_parent (st c 0) = None.
Proof.
  destruct (tree_interval_flatten late t0) as (_ & _ & _ & _ & H0 & _). fold c root n in H0.
  apply (H0 0); [apply tsize_pos | reflexivity].
Qed.

Lemma g_parent_some b : b < n -> 0 < b -> exists i, fs_parent (st c b) = Some i.
Proof.
  intros Hb H0. destruct (tree_interval_flatten late t0) as (_ & _ & _ & _ & Hz & _). fold c root n in Hz.
  destruct (fs_parent (st c b)) as [i|] eqn:E; [now exists i|]. apply (Hz b Hb) in E. lia.
Qed.

Lemma g_below i g : i < n -> i < g < i + tsize (ntree nodes i) ->
  exists j kid, nth_error (t_kids (ntree nodes i)) j = Some kid /\
    let b := S i + tsize_list (firstn j (t_kids (ntree nodes i))) in b <= g < b + tsize kid.
Proof. intros Hi Hg. rewrite tsize_unfold in Hg. apply kid_block_find. lia. Qed.

Lemma g_in_block b g : b < n -> b <= g < b + tsize (ntree nodes b) -> g < n /\ In (ntree nodes g) (subtrees (ntree nodes b)).
Proof. intros Hb [H1 H2]. apply (ntree_block_in root b g Hb); [exact H1 | exact H2]. Qed.

Lemma g_in_block_strict b g : b < n -> b < g < b + tsize (ntree nodes b) -> g < n /\ In (ntree nodes g) (tbelow (ntree nodes b)).
Proof.
  intros Hb Hg. destruct (g_below b g Hb Hg) as (j & kid & Hj & Hr). cbn zeta in Hr.
  destruct (g_kid b j kid Hb Hj) as (Hkb & Hk & _). cbn zeta in Hkb, Hk.
  destruct (g_in_block _ g Hkb) as [Hgn Hin]; [rewrite Hk; lia|]. split; [exact Hgn|].
  unfold tbelow. apply in_flat_map. exists kid. split; [eapply nth_error_In; exact Hj | now rewrite Hk in Hin].
Qed.

(* the numbers of the sub-trees of node i *)
Lemma g_sub_index i w : i < n -> In w (subtrees (ntree nodes i)) -> exists g, i <= g < i + tsize (ntree nodes i) /\ g < n /\ ntree nodes g = w.
Proof.
  intros Hi Hw. destruct (subtrees_ntree (ntree nodes i) w Hw) as (k & Hk & Ek).
  destruct (ntree_block root i k Hi Hk) as [Hlt He]. fold nodes in He. exists (i + k). split; [lia|]. split; [exact Hlt|]. now rewrite He.
Qed.

Lemma g_below_index i w : i < n -> In w (tbelow (ntree nodes i)) -> exists g, i < g < i + tsize (ntree nodes i) /\ g < n /\ ntree nodes g = w.
Proof.
  intros Hi Hw. set (u := ntree nodes i) in *.
  assert (Hs : subtrees u = u :: tbelow u) by (rewrite subtrees_unfold; reflexivity).
  destruct (In_nth _ _ dummy_tree Hw) as (k & Hk & Ek).
  assert (Hk' : S k < tsize u) by (rewrite <- subtrees_length, Hs; cbn [length]; lia).
  destruct (ntree_block root i (S k) Hi Hk') as [Hlt He]. fold nodes u in He.
  exists (i + S k). split; [lia|]. split; [exact Hlt|]. rewrite He, (ntree_nth u (S k) Hk'), Hs. exact Ek.
Qed.

(* ------------------------------------------------------------------ ids *)

Lemma g_ids_eq : ids = combine (sids root) (seq 0 n). Proof. apply fl_ids_sids. Qed.

Lemma g_sids_length : length (sids root) = n. Proof. unfold sids. now rewrite map_length, subtrees_length. Qed.

Lemma g_sid_nth i : i < n -> nth i (sids root) 0%N = t_sid (ntree nodes i). Proof. apply sids_nth. Qed.

Lemma g_resolve_some s g : nat_of_sid ids s = Some g -> g < n /\ t_sid (ntree nodes g) = s.
Proof.
  unfold nat_of_sid. rewrite g_ids_eq, <- g_sids_length. pose proof (find_combine_seq s (sids root) 0) as F.
  destruct (find _ _) as [p|]; [|discriminate]. intros E. inversion E; subst g.
  destruct F as (_ & F2 & F3 & _). rewrite Nat.sub_0_r in F3. split; [lia|].
  rewrite <- g_sid_nth by (rewrite <- g_sids_length; lia). exact F3.
Qed.

Hypothesis U : NoDup (sids root).

Lemma g_resolve_unique i : i < n -> nat_of_sid ids (t_sid (ntree nodes i)) = Some i.
Proof.
  intros Hi. unfold nat_of_sid. rewrite g_ids_eq. pose proof (find_combine_seq (t_sid (ntree nodes i)) (sids root) 0) as F.
  rewrite g_sids_length in F. fold n in F.
  destruct (find _ _) as [p|].
  - destruct F as (_ & F2 & F3 & _). rewrite Nat.sub_0_r in F3. f_equal. rewrite <- (g_sid_nth i Hi) in F3.
    apply (proj1 (NoDup_nth (sids root) 0%N) U); [rewrite g_sids_length; lia | rewrite g_sids_length; exact Hi | exact F3].
  - exfalso. apply F. rewrite <- (g_sid_nth i Hi). apply nth_In. rewrite g_sids_length. exact Hi.
Qed.

Lemma g_sid_inj i j : i < n -> j < n -> t_sid (ntree nodes i) = t_sid (ntree nodes j) -> i = j.
Proof.
  intros Hi Hj E. pose proof (g_resolve_unique i Hi) as E1. rewrite E, (g_resolve_unique j Hj) in E1. now inversion E1.
Qed.

(* an id of an element strictly below node i (with property P) resolves into the block of i *)
Lemma g_resolve_below (P : tree -> bool) i s : i < n -> In s (map t_sid (filter P (tbelow (ntree nodes i)))) ->
  exists g, nat_of_sid ids s = Some g /\ i < g < i + tsize (ntree nodes i) /\ g < n /\ P (ntree nodes g) = true /\ t_sid (ntree nodes g) = s.
Proof.
  intros Hi Hs. apply in_map_iff in Hs as (w & Es & Hw). apply filter_In in Hw as [Hw Pw].
  destruct (g_below_index i w Hi Hw) as (g & Hr & Hg & Eg). exists g. split; [rewrite <- Es, <- Eg; now apply g_resolve_unique|].
  split; [exact Hr|]. split; [exact Hg|]. rewrite Eg. split; assumption.
Qed.

(* an id of a child of node i *)
Lemma g_resolve_kid (P : tree -> bool) i s : i < n -> In s (map t_sid (filter P (t_kids (ntree nodes i)))) ->
  exists g, nat_of_sid ids s = Some g /\ g < n /\ fs_parent (st c g) = Some i /\ P (ntree nodes g) = true /\ t_sid (ntree nodes g) = s.
Proof.
  intros Hi Hs. apply in_map_iff in Hs as (w & Es & Hw). apply filter_In in Hw as [Hw Pw].
  destruct (In_nth_error _ _ Hw) as [j Hj]. destruct (g_kid i j w Hi Hj) as (Hb & Eb & Hp & _). cbn zeta in Hb, Eb, Hp.
  eexists. split; [rewrite <- Es, <- Eb; now apply g_resolve_unique|]. split; [exact Hb|]. split; [exact Hp|]. rewrite Eb. split; assumption.
Qed.

End GRows.

(* ------------------------------------------------------------------ transitions *)

Section GTrans.
Variable late : bool.
Variable t0 : tree.
Let root := resort t0.
Let c := flatten late t0.
Let n := tsize root.
Let nodes := nodes_of root.
Let ids := fl_ids t0.

Lemma g_ntrans : ntrans c = length (trs t0). Proof. apply fl_ntrans. Qed.

Lemma trs_entry e : In e (trs t0) ->
  fst (fst e) < n /\ In (snd (fst e)) (t_trans (ntree nodes (fst (fst e)))) /\ snd e = t_kind (ntree nodes (fst (fst e))).
Proof.
  intros Hin. unfold trs, all_trans in Hin. apply in_flat_map in Hin as (i & Hi & Hy). apply postfix_states_lt in Hi.
  rewrite (nth_nodes_ntree t0 i Hi) in Hy. cbn [fst] in Hy. apply in_map_iff in Hy as (y & <- & Hy).
  cbn [fst snd]. repeat split; assumption.
Qed.

Lemma g_tr ti : ti < ntrans c ->
  exists k x, k < n /\ In x (t_trans (ntree nodes k)) /\ tr c ti = mk_trans ids k (t_kind (ntree nodes k)) x.
Proof.
  intros Hti. rewrite g_ntrans in Hti. pose proof (fl_tr late t0 ti Hti) as E. fold c in E.
  destruct (trs_entry _ (nth_In (trs t0) dtr Hti)) as (H1 & H2 & H3).
  exists (fst (fst (nth ti (trs t0) dtr))), (snd (fst (nth ti (trs t0) dtr))). split; [exact H1|]. split; [exact H2|].
  rewrite E, H3. reflexivity.
Qed.

Lemma g_fs_trans i ti : i < n -> In ti (fs_trans (st c i)) ->
  ti < ntrans c /\ exists x, In x (t_trans (ntree nodes i)) /\ tr c ti = mk_trans ids i (t_kind (ntree nodes i)) x.
Proof.
  intros Hi Hti. unfold c in Hti. rewrite fs_trans_flatten in Hti by (rewrite (fl_nstates late t0); exact Hi).
  fold root in Hti. change (all_trans (doc_nodes root 0 None) root) with (trs t0) in Hti.
  pose proof (index_where_range _ _ _ _ Hti) as Hr.
  destruct (index_where_spec (fun x : nat * ttrans * skind => fst (fst x) =? i) dtr (trs t0) 0) as [_ Hsp].
  destruct (Hsp ti Hti) as [_ Hf]. rewrite Nat.sub_0_r in Hf. apply Nat.eqb_eq in Hf.
  assert (Hlt : ti < length (trs t0)) by lia. split; [rewrite g_ntrans; exact Hlt|].
  pose proof (fl_tr late t0 ti Hlt) as E. fold c in E.
  destruct (trs_entry _ (nth_In (trs t0) dtr Hlt)) as (H1 & H2 & H3). rewrite Hf in H2, H3.
  exists (snd (fst (nth ti (trs t0) dtr))). split; [exact H2|]. rewrite E, H3, Hf. reflexivity.
Qed.

Lemma g_fs_trans_length i : i < n -> length (fs_trans (st c i)) = length (t_trans (ntree nodes i)).
Proof.
  intros Hi. unfold c. rewrite fs_trans_flatten by (rewrite (fl_nstates late t0); exact Hi). fold root.
  rewrite index_where_length. unfold all_trans. rewrite filter_flat_map.
  rewrite (flat_map_ext_in' _ (fun j => if j =? i then map (fun x => (j, x, t_kind (fst (nth j (doc_nodes root 0 None) (root, None)))))
                                                       (t_trans (fst (nth j (doc_nodes root 0 None) (root, None)))) else [])).
  - rewrite (flat_map_pick _ i); [|apply postfix_NoDup | now apply postfix_all_general].
    rewrite map_length. unfold root. rewrite (nth_nodes_ntree t0 i Hi). reflexivity.
  - intros j _. destruct (Nat.eqb_spec j i) as [->|Hne].
    + apply filter_all. intros e He. apply in_map_iff in He as (x & <- & _). cbn [fst]. apply Nat.eqb_refl.
    + apply filter_none. intros e He. apply in_map_iff in He as (x & <- & _). cbn [fst]. now apply Nat.eqb_neq.
Qed.

End GTrans.
