(* RunConformInitialWitness.v -- C01 on charts with <initial> elements and deep / multiple initial attributes: the
   hypotheses of run_conforms_initial are satisfiable by a non-trivial document, none of the new static conditions
   can be dropped (witnesses by computation), and a document whose <scxml> 'initial' attribute has several deep
   targets conforms (Spec.spec_run once entered the targets one by one; it now applies computeEntrySet's loop body to
   the document's initial transition, as Appendix D does).  *)
From V Require Import Base NameMatch NameMatchLemmas Chart Exec Large LargeLemmas Spec Interp WfCore SelectConform SelectConformLemmas SelectConformRoot
  MicroConform MicroConformFlatten Serialize LargeCacheLemmas
  RunConformBase RunConformInit RunConformStep RunConformLoop RunConformWitness LegalHistBase LegalHistEntry LegalHistWf
  RunConformInitialBase RunConformInitialWf RunConformInitialFlags RunConformInitialFlat RunConformInitialInit RunConformInitialStep RunConformInitialLoop.
Local Open Scope N_scope.

Definition ini_el (sid : N) (v : N) (tg : list N) (body : block) : tree :=
  TNode KInitial sid None [rw_tr v None None (Some tg) false body] [] [] [] [].
Definition leaf_st (s : N) : tree := TNode KState s None [] [] [] [] [].

(* s1 (initial="s4 s7": two states in the two regions of the <parallel> s2, two levels down; e/log -> s9)
     s2 = parallel { s3 (onentry log; <initial> with content: log, Var1 += 1 -> s5) { s4 --f--> s3, s5 (onentry log) },
                     s6 { s7, s8 } }
   s9 (onentry log; <initial> with content: raise g -> s11, two levels down) { s10 { s11 --g [In(s10)]--> s12 } }
   s12 = final.   Events f, e; g is raised by the content of s9's <initial>. *)
Definition iw_tree : tree :=
  TNode KScxml 0 None [] [] [] [(1, INum 0)]
    [TNode KState 1 (Some [4; 7]) [rw_tr 101 (Some [101]) None (Some [9]) false [ILog 201 (IVar 1)]] [] [] []
       [TNode KParallel 2 None [] [] [] []
          [TNode KState 3 None [] [[ILog 202 (INum 3)]] [] []
             [ini_el 20 120 [5] [ILog 301 (INum 1); IAssign 302 1 (IAdd (IVar 1) (INum 1))];
              TNode KState 4 None [rw_tr 102 (Some [102]) None (Some [3]) false []] [] [] [] [];
              TNode KState 5 None [] [[ILog 203 (INum 5)]] [] [] []];
           TNode KState 6 None [] [] [] [] [leaf_st 7; leaf_st 8]]];
     TNode KState 9 None [] [[ILog 204 (INum 9)]] [] []
       [ini_el 21 121 [11] [IRaise 303 [103]];
        TNode KState 10 None [] [] [] []
          [TNode KState 11 None [rw_tr 103 (Some [103]) (Some (BIn 10)) (Some [12]) false []] [] [] [] []]];
     TNode KFinal 12 None [] [] [] [] []].

Definition iw_evs : list bytes := [[102]; [101]].

(* the hypotheses hold for the whole run: the initial step (entering s4 and s7 through the deep initial attribute),
   f (s3 is re-entered by default: the content of its <initial> runs after its onentry, s5 is entered), e (s9 is
   entered by default: content of its <initial>, s10 and s11), the raised g, a top-level final, completion *)
Example run_conforms_initial_nonvacuous :
  let c := flatten false iw_tree in
  static_ib c = true /\ wf_coreb c = false /\ run_guardb c iw_evs 40 = true /\ run_completeb c iw_evs 40 = true /\
  count_ms (fst (run_large lg_fixed ex_fixed false iw_tree iw_evs 40)) = 4%nat /\
  snd (run_large lg_fixed ex_fixed false iw_tree iw_evs 40) = [(1, 1%Z)].
Proof. vm_compute. repeat split. Qed.

Example run_conforms_initial_example : forall fuel', (40 <= fuel')%nat ->
  spec_view 0 (fst (run_large lg_fixed ex_fixed false iw_tree iw_evs 40)) = spec_view 0 (fst (run_spec false iw_tree iw_evs fuel')) /\
  snd (run_large lg_fixed ex_fixed false iw_tree iw_evs 40) = snd (run_spec false iw_tree iw_evs fuel').
Proof.
  intros fuel' H. destruct run_conforms_initial_nonvacuous as (A & _ & B & C & _).
  exact (run_conforms_initial_lemma false iw_tree A iw_evs 40%nat B C fuel' H).
Qed.

(* ---- outside the hypotheses ---- *)

Definition static_i_parts_of (c : fchart) :=
  (wf_initb c, root_compoundb c, par_nonemptyb c, targets_antichainb c, done_okb c, root_silentb c,
   (cpl_okb c, cpl_antib c, targets_properb c), (root_unmentionedb c, chart_named c, root_onexit_emptyb c), root_plainb c).

(* <scxml initial="s3 s6"> with s6 not the default of its region (once the witness that Spec.spec_run was not
   Appendix D: it entered s5 AND s6): all hypotheses of run_conforms_initial hold, the engine enters s1 s2 s3 s4 s6 *)
Definition iw_root_multi : tree :=
  TNode KScxml 0 (Some [3; 6]) [] [] [] []
    [TNode KParallel 1 None [] [] [] [] [TNode KState 2 None [] [] [] [] [leaf_st 3]; TNode KState 4 None [] [] [] [] [leaf_st 5; leaf_st 6]]].

Example run_root_multi_target_hypotheses :
  let c := flatten false iw_root_multi in
  static_ib c = true /\ run_guardb c [] 10 = true /\ run_completeb c [] 10 = true /\
  spec_view 0 (fst (run_large lg_fixed ex_fixed false iw_root_multi [] 10)) =
    [TMsB; TEb 1; TEe 1; TEb 2; TEe 2; TEb 3; TEe 3; TEb 4; TEe 4; TEb 6; TEe 6; TMsE; TCfg [1; 2; 3; 4; 6]].
Proof. vm_compute. repeat split. Qed.

(* an instance of run_conforms_initial (no computation of the Spec side) *)
Theorem run_root_multi_target_conforms : forall fuel', (10 <= fuel')%nat ->
  spec_view 0 (fst (run_large lg_fixed ex_fixed false iw_root_multi [] 10)) = spec_view 0 (fst (run_spec false iw_root_multi [] fuel')) /\
  snd (run_large lg_fixed ex_fixed false iw_root_multi [] 10) = snd (run_spec false iw_root_multi [] fuel').
Proof.
  intros fuel' H. destruct run_root_multi_target_hypotheses as (A & B & C & _).
  exact (run_conforms_initial_lemma false iw_root_multi A [] 10%nat B C fuel' H).
Qed.

(* an <initial> element below <scxml>: the engine runs its transition (T{ }T before the entries), Appendix D
   enters the targets of the document's initial transition without executing it *)
Lemma run_root_initial_element_refuted :
  exists late t evs fuel, let c := flatten late t in
    static_i_parts_of c = (true, true, true, true, true, true, (true, true, true), (true, true, true), false) /\
    run_guardb c evs fuel = true /\ run_completeb c evs fuel = true /\ views_differ late t evs fuel.
Proof.
  exists false, (TNode KScxml 0 None [] [] [] [] [ini_el 20 120 [1] []; leaf_st 1]), [], 10%nat.
  split; [vm_compute; reflexivity|]. split; [vm_compute; reflexivity|]. split; [vm_compute; reflexivity|].
  unfold views_differ. vm_compute. discriminate.
Qed.

(* initial="s2 s5" with s5 below s2: Appendix D enters the default descendants of s2 (s4) and s5; the engine only s5 *)
Lemma run_initial_attribute_antichain_refuted :
  exists late t evs fuel, let c := flatten late t in
    static_i_parts_of c = (true, true, true, true, true, true, (true, false, true), (true, true, true), true) /\
    run_guardb c evs fuel = true /\ run_completeb c evs fuel = true /\ views_differ late t evs fuel.
Proof.
  exists false,
    (TNode KScxml 0 None [] [] [] []
       [TNode KState 1 (Some [2; 5]) [] [] [] []
          [TNode KParallel 2 None [] [] [] [] [TNode KState 3 None [] [] [] [] [leaf_st 4; leaf_st 5]]]]), [], 10%nat.
  split; [vm_compute; reflexivity|]. split; [vm_compute; reflexivity|]. split; [vm_compute; reflexivity|].
  unfold views_differ. vm_compute. discriminate.
Qed.

(* an 'initial' attribute that names an <initial> element of a child: Appendix D runs the element's transition
   after the onentry of the state with the attribute, the engine after the onentry of the element's parent *)
Lemma run_initial_attribute_names_initial_refuted :
  exists late t evs fuel, let c := flatten late t in
    static_i_parts_of c = (true, true, true, true, true, true, (false, true, true), (true, true, true), true) /\
    run_guardb c evs fuel = true /\ run_completeb c evs fuel = true /\ views_differ late t evs fuel.
Proof.
  exists false,
    (TNode KScxml 0 None [] [] [] []
       [TNode KState 1 (Some [20]) [] [] [] [] [TNode KState 2 None [] [] [] [] [ini_el 20 120 [4] []; leaf_st 3; leaf_st 4]]]), [], 10%nat.
  split; [vm_compute; reflexivity|]. split; [vm_compute; reflexivity|]. split; [vm_compute; reflexivity|].
  unfold views_differ. vm_compute. discriminate.
Qed.

(* a transition whose target is an <initial> element: Appendix D puts the element into the configuration, the
   engine takes the element's transition *)
Lemma run_target_initial_element_refuted :
  exists late t evs fuel, let c := flatten late t in
    static_i_parts_of c = (true, true, true, true, true, true, (true, true, false), (true, true, true), true) /\
    run_guardb c evs fuel = true /\ run_completeb c evs fuel = true /\ views_differ late t evs fuel.
Proof.
  exists false,
    (TNode KScxml 0 None [] [] [] []
       [TNode KState 1 None [rw_tr 101 (Some [101]) None (Some [20]) false []] [] [] [] [];
        TNode KState 2 None [] [] [] [] [ini_el 20 120 [4] []; leaf_st 3; leaf_st 4]]), [[101]], 10%nat.
  split; [vm_compute; reflexivity|]. split; [vm_compute; reflexivity|]. split; [vm_compute; reflexivity|].
  unfold views_differ. vm_compute. discriminate.
Qed.
