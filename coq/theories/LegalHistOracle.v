(* LegalHistOracle.v -- C02 on charts with pseudo-states: the headline lemmas (every run of the large-engine
   model keeps the configuration legal under wf_initb / wf_histb), the oracle legal_configb against the
   Prop-level legality, non-vacuity examples computed from flatten, and witnesses that the side conditions
   cannot be dropped. *)
From V Require Import Base NameMatch Chart Exec Large LargeLemmas Interp Legal SetLemmas LegalAbstract LegalLarge LegalRun
     WfCore LegalOracle LegalHistBase LegalHistEntry LegalHistStep LegalHistRun LegalHistWf.
Local Open Scope nat_scope.

(* ------------------------------------------------------------------ headline lemmas *)

(* histories allowed (pairwise disjoint value sets): legal configuration of proper states AND a usable
   history record after every step of every run *)
Theorem run_legal_history_strong c xv : wf_histb c = true -> fs_type (st c 0) = FCompound ->
  forall fuel evs, CfgOKH c (fst (run_loop c lstate (large_step lg_fixed xv c) l_cfg fuel l_pristine x_init evs)).
Proof.
  intros H R fuel evs. apply run_states_legal_h; [now apply wf_histb_sound | exact R | apply pristine_ok_h].
Qed.

(* the same in the shape of run_always_legal (LegalRun.CfgOK) *)
Theorem run_legal_history c xv : wf_histb c = true -> fs_type (st c 0) = FCompound ->
  forall fuel evs, CfgOK c (fst (run_loop c lstate (large_step lg_fixed xv c) l_cfg fuel l_pristine x_init evs)).
Proof.
  intros H R fuel evs. apply CfgOKH_CfgOK; [now apply wf_histb_sound|]. now apply run_legal_history_strong.
Qed.

Theorem run_legal_initial c xv : wf_initb c = true -> fs_type (st c 0) = FCompound ->
  forall fuel evs, CfgOK c (fst (run_loop c lstate (large_step lg_fixed xv c) l_cfg fuel l_pristine x_init evs)).
Proof. intros H. apply run_legal_history. now apply wf_initb_histb. Qed.

(* one step() from any state with a legal configuration and a usable history record *)
Theorem step_legal_history c xv : wf_histb c = true -> fs_type (st c 0) = FCompound ->
  forall l x, CfgOKH c l -> CfgOKH c (fst (fst (large_step lg_fixed xv c l x))).
Proof. intros H R. apply large_step_legal_h; [now apply wf_histb_sound | exact R]. Qed.

(* ------------------------------------------------------------------ the oracle *)

Section HOracle.
Variable c : fchart.
Hypothesis W : WFH c.

Lemma state_ok_parts_h cfg i : state_ok c cfg i = true ->
  i < nstates c /\ pseudoS c i = false /\
  (forall p, fs_parent (st c i) = Some p -> In p cfg) /\
  (fs_type (st c i) = FCompound -> length (filter (fun ch0 => mem ch0 cfg) (proper_children c i)) = 1) /\
  (fs_type (st c i) = FParallel -> forall k, In k (proper_children c i) -> In k cfg).
Proof.
  unfold state_ok. intros H.
  apply andb_true_iff in H as [H H4]. apply andb_true_iff in H as [H H3]. apply andb_true_iff in H as [H1 H2].
  split; [now apply Nat.ltb_lt|]. split; [|split; [|split]].
  - unfold pseudoS. rewrite proper_type_pseudo in H2. now apply negb_true_iff in H2.
  - intros p Hp. rewrite Hp in H3. now apply mem_In.
  - intros Hk. rewrite Hk in H4. now apply Nat.eqb_eq in H4.
  - intros Hk k Hin. rewrite Hk in H4. rewrite forallb_forall in H4. apply mem_In. now apply H4.
Qed.

Theorem legal_configb_sound_h cfg : legal_configb c cfg = true -> LegalCfgH c cfg.
Proof.
  unfold legal_configb. intros H. apply andb_true_iff in H as [H Hall]. apply andb_true_iff in H as [H0 Hnd].
  rewrite forallb_forall in Hall. apply mem_In in H0.
  assert (Hst : forall i, In i cfg -> _) by (intros i Hi; exact (state_ok_parts_h cfg i (Hall i Hi))).
  split.
  - constructor.
    + exact H0.
    + intros i p Hi Hp. destruct (Hst i Hi) as (_ & _ & P & _). apply P. now apply ppar_par.
    + intros i Hi Hk. destruct (Hst i Hi) as (_ & _ & _ & P & _). specialize (P Hk).
      destruct (filter_len1 _ _ P) as (k & Hin & Hm). exists k. split; [exact Hin | now apply mem_In].
    + intros i k1 k2 Hi Hk H1 H2 Hc1 Hc2. destruct (Hst i Hi) as (_ & _ & _ & P & _). specialize (P Hk).
      assert (Hnd' : NoDup (pch c i)) by (apply NoDup_filter; exact (wh_children_nodup c W i)).
      apply (@filter_le1 c nat (fun ch0 => mem ch0 cfg) (pch c i) Hnd'); auto; try (unfold pch; lia); now apply mem_In.
    + intros i k Hi Hk Hin. destruct (Hst i Hi) as (_ & _ & _ & _ & P). now apply P.
  - intros x Hx. destruct (Hst x Hx) as (P & Q & _). tauto.
Qed.
End HOracle.

(* ------------------------------------------------------------------ non-vacuity *)
Local Open Scope N_scope.

Definition htr_ (v : N) (ev : option bytes) (tg : option (list N)) (int : bool) : ttrans :=
  {| tt_vid := v; tt_event := ev; tt_cond := None; tt_targets := tg; tt_internal := int; tt_body := [] |}.

(* <initial> element with a deep target (s2 -> s5 through s4), a deep initial attribute with two targets in
   the two regions of a parallel state (s6 initial="s9 s11"), a deep initial attribute of <scxml>, and
   external / internal / target-less transitions.  No history. *)
Definition hini_tree : tree :=
  TNode KScxml 0 (Some [5]) [] [] [] []
    [TNode KState 1 None [htr_ 101 (Some [101]) (Some [2]) false; htr_ 106 (Some [102]) (Some [10; 12]) false] [] [] []
       [TNode KState 2 None [htr_ 102 (Some [101]) (Some [6]) false] [] [] []
          [TNode KState 3 None [] [] [] [] [];
           TNode KState 4 None [] [] [] []
             [TNode KState 5 None [htr_ 103 (Some [101]) None false] [] [] [] []];
           TNode KInitial 20 None [htr_ 104 None (Some [5]) false] [] [] [] []];
        TNode KState 6 (Some [9; 11]) [htr_ 105 (Some [101]) (Some [1]) true] [] [] []
          [TNode KParallel 7 None [] [] [] []
             [TNode KState 8 None [] [] [] [] [TNode KState 13 None [] [] [] [] []; TNode KState 9 None [] [] [] [] []];
              TNode KState 10 None [] [] [] [] [TNode KState 14 None [] [] [] [] []; TNode KState 11 None [] [] [] [] [TNode KState 12 None [] [] [] [] []]]]]]].

Example hini_tree_wf :
  wf_initb (flatten false hini_tree) = true /\ fs_type (st (flatten false hini_tree) 0%nat) = FCompound /\
  wf_coreb (flatten false hini_tree) = false.
Proof. vm_compute. repeat split; reflexivity. Qed.

(* what flatten produces for the <initial> element and the deep initial attributes *)
Example hini_tree_flat :
  let c := flatten false hini_tree in
  map (fun s => fs_type s) (fc_states c) =
    [FCompound; FCompound; FCompound; FInitial; FAtomic; FCompound; FAtomic; FCompound; FParallel;
     FCompound; FAtomic; FAtomic; FCompound; FAtomic; FCompound; FAtomic]%list /\
  fs_completion (st c 0%nat) = [6]%nat /\           (* initial="s5": the state as written, not a child *)
  fs_completion (st c 2%nat) = [3]%nat /\           (* the <initial> element, moved to the front *)
  ft_targets (tr c (hd 0%nat (fs_trans (st c 3%nat)))) = [6]%nat /\
  fs_completion (st c 7%nat) = [11; 14]%nat.        (* initial="s9 s11" *)
Proof. vm_compute. repeat split; reflexivity. Qed.

Example hini_tree_run :
  let c := flatten false hini_tree in
  map (fun f => l_cfg (fst (run_loop c lstate (large_step lg_fixed ex_fixed c) l_cfg f l_pristine x_init [[101]; [101]; [101]])))
      [2; 5; 8; 12]%nat =
  [[0; 1; 2; 5; 6]; [0; 1; 7; 8; 9; 11; 12; 14; 15]; [0; 1; 7; 8; 9; 11; 12; 14; 15]; [0; 1; 2; 5; 6]]%nat.
Proof. vm_compute. reflexivity. Qed.

(* a deep history (in s1) and a shallow history (in s5) in different sub-trees, an <initial> element next to the
   deep history, transitions into both histories.  s1{deep h20 (default s4), <initial> -> s3, s2{s3, s4}},
   s5{shallow h21 (default s6), s6, s7{s8}} *)
Definition hh_tree : tree :=
  TNode KScxml 0 None [] [] [] []
    [TNode KState 1 None [htr_ 101 (Some [101]) (Some [5]) false] [] [] []
       [TNode KState 2 None [] [] [] []
          [TNode KState 3 None [htr_ 102 (Some [102]) (Some [4]) false] [] [] [] [];
           TNode KState 4 None [] [] [] [] []];
        TNode KHistDeep 20 None [htr_ 103 None (Some [4]) false] [] [] [] [];
        TNode KInitial 22 None [htr_ 107 None (Some [3]) false] [] [] [] []];
     TNode KState 5 None [htr_ 104 (Some [101]) (Some [20]) false] [] [] []
       [TNode KState 6 None [htr_ 105 (Some [102]) (Some [8]) false] [] [] [] [];
        TNode KState 7 None [] [] [] [] [TNode KState 8 None [] [] [] [] []];
        TNode KHistShallow 21 None [htr_ 106 None (Some [6]) false] [] [] [] []];
     TNode KState 9 None [htr_ 108 (Some [103]) (Some [21]) false] [] [] [] []].

Example hh_tree_wf :
  wf_histb (flatten false hh_tree) = true /\ fs_type (st (flatten false hh_tree) 0%nat) = FCompound /\
  wf_initb (flatten false hh_tree) = false.
Proof. vm_compute. repeat split; reflexivity. Qed.

(* e2: s3 -> s4; e: s1 -> s5 (h20 records s2, s4); e2: s6 -> s8; e: s5 -> h20 restores s2, s4 (h21 records s7) *)
Example hh_tree_run :
  let c := flatten false hh_tree in
  let l := fst (run_loop c lstate (large_step lg_fixed ex_fixed c) l_cfg 20%nat l_pristine x_init [[102]; [101]; [102]; [101]]) in
  l_cfg l = [0; 1; 4; 6]%nat /\ l_hist l = [4; 6; 10]%nat.
Proof. vm_compute. split; reflexivity. Qed.

(* a deep and a shallow history in the SAME state (allowed: they are written together and agree) *)
Definition h2_tree : tree :=
  TNode KScxml 0 None [] [] [] []
    [TNode KState 1 None [htr_ 101 (Some [101]) (Some [6]) false] [] [] []
       [TNode KHistDeep 20 None [htr_ 103 None (Some [3]) false] [] [] [] [];
        TNode KState 2 None [] [] [] []
          [TNode KState 3 None [htr_ 102 (Some [102]) (Some [4]) false] [] [] [] [];
           TNode KState 4 None [] [] [] [] []];
        TNode KHistShallow 21 None [htr_ 104 None (Some [5]) false] [] [] [] [];
        TNode KState 5 None [] [] [] [] []];
     TNode KState 6 None [htr_ 105 (Some [101]) (Some [20]) false; htr_ 106 (Some [103]) (Some [21]) false] [] [] [] []].

(* e2: s3 -> s4; e: s1 -> s6 (both histories record); then e: s6 -> deep history restores s2, s4;
   or e3: s6 -> shallow history restores s2, completed by its default child s3 *)
Example h2_tree_wf_run :
  let c := flatten false h2_tree in
  let cfg evs := l_cfg (fst (run_loop c lstate (large_step lg_fixed ex_fixed c) l_cfg 20%nat l_pristine x_init evs)) in
  wf_histb c = true /\ cfg [[102]; [101]; [101]] = [0; 1; 4; 6]%nat /\ cfg [[102]; [101]; [103]] = [0; 1; 4; 5]%nat.
Proof. vm_compute. repeat split; reflexivity. Qed.

(* ------------------------------------------------------------------ the side conditions cannot be dropped *)

(* C02-K1 (kho_tree of LegalOracle.v): a deep history above a state that owns a history.  It fails exactly the
   disjointness check, all other conjuncts hold *)
Example kho_tree_fails_disjointness :
  let c := flatten false kho_tree in
  wf_histb c = false /\ whb_hist_disjoint c = false /\
  (wfb_nonempty c && wfb_root c && wfb_parent c && wfb_children c && wfb_anc c && wfb_interval c &&
   wfb_root_type c && wfb_src c && wfb_targets c && whb_pseudo_parent c && whb_pseudo_leaf c && whb_completion c &&
   whb_target_sets c && whb_initial c && whb_hist_default c && whb_hist_cpl c)%bool = true.
Proof. vm_compute. repeat split; reflexivity. Qed.

Theorem history_disjointness_needed_refuted :
  exists t evs fuel,
    let c := flatten false t in
    whb_hist_disjoint c = false /\
    (wfb_nonempty c && wfb_root c && wfb_parent c && wfb_children c && wfb_anc c && wfb_interval c &&
     wfb_root_type c && wfb_src c && wfb_targets c && whb_pseudo_parent c && whb_pseudo_leaf c && whb_completion c &&
     whb_target_sets c && whb_initial c && whb_hist_default c && whb_hist_cpl c)%bool = true /\
    legal_configb c (l_cfg (fst (run_loop c lstate (large_step lg_fixed ex_fixed c) l_cfg fuel l_pristine x_init evs))) = false.
Proof. exists kho_tree, [[101]], 12%nat. vm_compute. repeat split; reflexivity. Qed.

(* a shallow history whose default transition names a grandchild of the parent: the engine adds the target
   without its parent.  s1{shallow h20 (default s3), s2{s3}}, s4 --e--> h20, <scxml initial="s4"> *)
Definition hsd_tree : tree :=
  TNode KScxml 0 (Some [4]) [] [] [] []
    [TNode KState 1 None [] [] [] []
       [TNode KHistShallow 20 None [htr_ 102 None (Some [3]) false] [] [] [] [];
        TNode KState 2 None [] [] [] [] [TNode KState 3 None [] [] [] [] []]];
     TNode KState 4 None [htr_ 101 (Some [101]) (Some [20]) false] [] [] [] []].

Theorem shallow_default_child_needed_refuted :
  exists t evs fuel,
    let c := flatten false t in
    whb_hist_default c = false /\
    (wfb_nonempty c && wfb_root c && wfb_parent c && wfb_children c && wfb_anc c && wfb_interval c &&
     wfb_root_type c && wfb_src c && wfb_targets c && whb_pseudo_parent c && whb_pseudo_leaf c && whb_completion c &&
     whb_target_sets c && whb_initial c && whb_hist_cpl c && whb_hist_disjoint c)%bool = true /\
    legal_configb c (l_cfg (fst (run_loop c lstate (large_step lg_fixed ex_fixed c) l_cfg fuel l_pristine x_init evs))) = false.
Proof. exists hsd_tree, [[101]], 12%nat. vm_compute. repeat split; reflexivity. Qed.

(* an initial attribute naming two children of one compound state *)
Definition hia_tree : tree :=
  TNode KScxml 0 None [] [] [] []
    [TNode KState 1 (Some [2; 3]) [] [] [] []
       [TNode KState 2 None [] [] [] [] []; TNode KState 3 None [] [] [] [] []]].

Theorem initial_attribute_target_set_needed_refuted :
  exists t evs fuel,
    let c := flatten false t in
    whb_completion c = false /\
    (wfb_nonempty c && wfb_root c && wfb_parent c && wfb_children c && wfb_anc c && wfb_interval c &&
     wfb_root_type c && wfb_src c && wfb_targets c && whb_pseudo_parent c && whb_pseudo_leaf c &&
     whb_target_sets c && whb_initial c && whb_hist_default c && whb_hist_cpl c && whb_hist_disjoint c)%bool = true /\
    legal_configb c (l_cfg (fst (run_loop c lstate (large_step lg_fixed ex_fixed c) l_cfg fuel l_pristine x_init evs))) = false.
Proof. exists hia_tree, [], 4%nat. vm_compute. repeat split; reflexivity. Qed.
