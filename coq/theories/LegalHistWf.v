(* LegalHistWf.v -- boolean checks of the well-formedness record WFH (LegalHistBase.v) and their soundness:
     wf_histb c = true -> WFH c      (core + <initial> + deep/multiple initial attributes + histories; those with
                                      different parents have disjoint value sets)
     wf_initb c = wf_histb c and no history state.
   The checks are evaluated on every generated chart by the C02 check (which charts the theorems cover). *)
From V Require Import Base NameMatch Chart Exec Large Legal SetLemmas LegalAbstract LegalLarge WfCore LegalHistBase.
Local Open Scope nat_scope.

Section HCheck.
Variable c : fchart.
Let n := nstates c.
Let par (i : nat) := fs_parent (st c i).
Let ch (i : nat) := fs_children (st c i).
Let kd (i : nat) := fs_type (st c i).
Let anc (i : nat) := fs_ancestors (st c i).
Let cpl (i : nat) := fs_completion (st c i).

Definition is_nil (l : list nat) : bool := match l with [] => true | _ => false end.
Definition is_deep (t : ftype) : bool := match t with FHistDeep => true | _ => false end.

(* the list names at most one child of every compound state *)
Definition one_childb (T : list nat) : bool :=
  forallb (fun j => match kd j with
                    | FCompound => length (filter (fun k => existsb (on_path c k) T) (ch j)) <=? 1
                    | _ => true
                    end) (seq 0 n).

Definition whb_pseudo_parent : bool :=
  forallb (fun i => if is_pseudo (kd i) then match par i with Some q => is_comp (kd q) | None => false end else true) (seq 0 n).
Definition whb_pseudo_leaf : bool :=
  forallb (fun i => if is_pseudo (kd i) then is_nil (ch i) else true) (seq 0 n).
Definition whb_completion : bool :=
  forallb (fun i => match kd i with
                    | FCompound => negb (is_nil (cpl i)) && forallb (fun g => mem i (anc g)) (cpl i) && one_childb (cpl i)
                    | FParallel => list_eqb (cpl i) (ch i)
                    | _ => true
                    end) (seq 0 n).
Definition whb_target_sets : bool := forallb (fun ti => one_childb (ft_targets (tr c ti))) (seq 0 (ntrans c)).
Definition whb_initial : bool :=
  forallb (fun i => match kd i with
                    | FInitial =>
                      match par i, fs_trans (st c i) with
                      | Some q, [ti] =>
                        negb (is_nil (ft_targets (tr c ti))) &&
                        forallb (fun g => mem q (anc g) && (i <? g) && negb (is_pseudo (kd g))) (ft_targets (tr c ti))
                      | _, _ => false
                      end
                    | _ => true
                    end) (seq 0 n).
Definition whb_hist_default : bool :=
  forallb (fun i => if is_hist (kd i) then
                      match par i, fs_trans (st c i) with
                      | Some q, ti :: _ =>
                        negb (is_nil (ft_targets (tr c ti))) &&
                        forallb (fun g => (i <? g) && negb (is_pseudo (kd g)) &&
                                          (if is_deep (kd i) then mem q (anc g) else opt_eqb (par g) q))
                                (ft_targets (tr c ti))
                      | _, _ => false
                      end
                    else true) (seq 0 n).
Definition whb_hist_cpl : bool :=
  forallb (fun i => if is_hist (kd i) then
                      match par i with
                      | Some q =>
                        forallb (fun x => (x <? n) && (is_pseudo (kd x) || (i <? x)) &&
                                          (opt_eqb (par x) q ||
                                           (is_deep (kd i) && match par x with Some p => mem p (cpl i) | None => false end)))
                                (cpl i) &&
                        forallb (fun k => is_pseudo (kd k) || mem k (cpl i)) (ch q)
                      | None => false
                      end
                    else true) (seq 0 n).
Definition opt_nat_eqb (a b : option nat) : bool :=
  match a, b with Some x, Some y => x =? y | None, None => true | _, _ => false end.
Definition whb_hist_disjoint : bool :=
  forallb (fun h1 => forallb (fun h2 =>
     if is_hist (kd h1) && is_hist (kd h2) && negb (opt_nat_eqb (par h1) (par h2))
     then forallb (fun x => is_pseudo (kd x) || negb (mem x (cpl h2))) (cpl h1) else true) (seq 0 n)) (seq 0 n).

Definition wf_histb : bool :=
  wfb_nonempty c && wfb_root c && wfb_parent c && wfb_children c && wfb_anc c && wfb_interval c &&
  wfb_root_type c && wfb_src c && wfb_targets c &&
  whb_pseudo_parent && whb_pseudo_leaf && whb_completion && whb_target_sets &&
  whb_initial && whb_hist_default && whb_hist_cpl && whb_hist_disjoint.

Definition no_histb : bool := forallb (fun i => negb (is_hist (kd i))) (seq 0 n).
Definition wf_initb : bool := wf_histb && no_histb.

End HCheck.

Section HSound.
Variable c : fchart.
Let n := nstates c.
Let par (i : nat) := fs_parent (st c i).
Let ch (i : nat) := fs_children (st c i).
Let kd (i : nat) := fs_type (st c i).
Let anc (i : nat) := fs_ancestors (st c i).
Let cpl (i : nat) := fs_completion (st c i).
Notation Anc := (LegalAbstract.Anc par).

Hypothesis H : wf_histb c = true.

Lemma hst_out i : n <= i -> st c i = dummy_state.
Proof. intros Hi. unfold st. now apply nth_overflow. Qed.
Lemma htr_out i : ntrans c <= i -> tr c i = dummy_trans.
Proof. intros Hi. unfold tr. now apply nth_overflow. Qed.

Lemma hforallb_seq (f : nat -> bool) m : forallb f (seq 0 m) = true <-> forall i, i < m -> f i = true.
Proof.
  rewrite forallb_forall. split; intros Hf i Hi.
  - apply Hf. apply in_seq. lia.
  - apply in_seq in Hi. apply Hf. lia.
Qed.

Lemma hparts :
  wfb_nonempty c = true /\ wfb_root c = true /\ wfb_parent c = true /\ wfb_children c = true /\
  wfb_anc c = true /\ wfb_interval c = true /\ wfb_root_type c = true /\ wfb_src c = true /\ wfb_targets c = true /\
  whb_pseudo_parent c = true /\ whb_pseudo_leaf c = true /\ whb_completion c = true /\ whb_target_sets c = true /\
  whb_initial c = true /\ whb_hist_default c = true /\ whb_hist_cpl c = true /\ whb_hist_disjoint c = true.
Proof.
  unfold wf_histb in H. repeat (apply andb_true_iff in H as [H ?]). repeat split; assumption.
Qed.

Lemma hroot_par : par 0 = None.
Proof. destruct hparts as (_ & P & _). unfold wfb_root in P. unfold par. destruct (fs_parent (st c 0)); [discriminate | reflexivity]. Qed.

Lemma hpar_in i : i < n -> match par i with Some p => p < i | None => i = 0 end.
Proof.
  intros Hi. destruct hparts as (_ & _ & P & _). unfold wfb_parent in P. rewrite hforallb_seq in P. specialize (P i Hi).
  unfold par. destruct (fs_parent (st c i)); [now apply Nat.ltb_lt | now apply Nat.eqb_eq].
Qed.

Lemma hpar_out i : n <= i -> par i = None.
Proof. intros Hi. unfold par. now rewrite hst_out. Qed.

Lemma hpar_lt i p : par i = Some p -> p < i /\ i < n.
Proof.
  intros Hp. destruct (Nat.lt_ge_cases i n) as [Hi|Hi].
  - pose proof (hpar_in i Hi) as P. rewrite Hp in P. tauto.
  - rewrite (hpar_out i Hi) in Hp. discriminate.
Qed.

Lemma hpar_some i : 0 < i -> i < n -> exists p, par i = Some p.
Proof. intros H0 Hi. pose proof (hpar_in i Hi) as P. destruct (par i) as [p|]; [now exists p | lia]. Qed.

Lemma hch_in p : p < n -> ch p = filter (fun k => opt_eqb (par k) p) (seq 0 n).
Proof.
  intros Hp. destruct hparts as (_ & _ & _ & P & _). unfold wfb_children in P. rewrite hforallb_seq in P.
  specialize (P p Hp). now apply list_eqb_eq in P.
Qed.

Lemma hchildren_spec p k : In k (ch p) <-> par k = Some p.
Proof.
  destruct (Nat.lt_ge_cases p n) as [Hp|Hp].
  - rewrite (hch_in p Hp), filter_In, in_seq. unfold opt_eqb. split.
    + intros [_ Hk]. destruct (par k) as [q|]; [apply Nat.eqb_eq in Hk; now subst | discriminate].
    + intros Hk. destruct (hpar_lt _ _ Hk). split; [lia|]. rewrite Hk. apply Nat.eqb_refl.
  - unfold ch. rewrite (hst_out p Hp). cbn. split; [tauto|]. intros Hk. destruct (hpar_lt _ _ Hk). lia.
Qed.

Lemma hchildren_nodup p : NoDup (ch p).
Proof.
  destruct (Nat.lt_ge_cases p n) as [Hp|Hp].
  - rewrite (hch_in p Hp). apply NoDup_filter, seq_NoDup.
  - unfold ch. rewrite (hst_out p Hp). constructor.
Qed.

Lemma hanc_in i : i < n -> anc i = match par i with Some p => insert_sorted p (anc p) | None => [] end.
Proof.
  intros Hi. destruct hparts as (_ & _ & _ & _ & P & _). unfold wfb_anc in P. rewrite hforallb_seq in P.
  specialize (P i Hi). now apply list_eqb_eq in P.
Qed.

Lemma hanc_spec : forall i a, In a (anc i) <-> Anc a i.
Proof.
  induction i as [i IH] using lt_wf_ind. intros a.
  destruct (Nat.lt_ge_cases i n) as [Hi|Hi].
  - rewrite (hanc_in i Hi). destruct (par i) as [p|] eqn:Hp.
    + destruct (hpar_lt _ _ Hp) as [Hlt _]. rewrite In_insert_sorted', (IH p Hlt). split.
      * intros [->|Ha]; [now apply anc_parent | eapply anc_step; eauto].
      * intros Ha. destruct (anc_child par _ _ _ Hp Ha); tauto.
    + split; [intros [] | intros Ha; inversion Ha; congruence].
  - unfold anc. rewrite (hst_out i Hi). cbn. split; [tauto|].
    intros Ha. inversion Ha as [? p Hp|? p ? Hp _]; subst; rewrite (hpar_out i Hi) in Hp; discriminate.
Qed.

Lemma hinterval_spec a i : a < n -> i < n -> (Anc a i <-> a < i /\ i < a + fs_size (st c a)).
Proof.
  intros Ha Hi. destruct hparts as (_ & _ & _ & _ & _ & P & _). unfold wfb_interval in P.
  rewrite hforallb_seq in P. specialize (P a Ha). rewrite hforallb_seq in P. specialize (P i Hi).
  apply eqb_prop in P. rewrite <- hanc_spec, <- mem_In. unfold anc at 1. rewrite P.
  rewrite andb_true_iff, !Nat.ltb_lt. tauto.
Qed.

Lemma hroot_type : kd 0 <> FParallel.
Proof.
  destruct hparts as (_ & _ & _ & _ & _ & _ & P & _). unfold wfb_root_type in P. unfold kd in *.
  destruct (fs_type (st c 0)); try discriminate; congruence.
Qed.

Lemma hkd_out i : n <= i -> kd i = FAtomic.
Proof. intros Hi. unfold kd. now rewrite hst_out. Qed.

Lemma hkd_in i : kd i <> FAtomic -> i < n.
Proof. intros Hk. destruct (Nat.lt_ge_cases i n) as [Hi|Hi]; [exact Hi | now rewrite (hkd_out i Hi) in Hk]. Qed.

Lemma hsrc_spec s ti : In ti (fs_trans (st c s)) -> ft_source (tr c ti) = s.
Proof.
  intros Hti. destruct (Nat.lt_ge_cases s n) as [Hs|Hs].
  - destruct hparts as (_ & _ & _ & _ & _ & _ & _ & P & _). unfold wfb_src in P. rewrite hforallb_seq in P.
    specialize (P s Hs). rewrite forallb_forall in P. specialize (P ti Hti). now apply Nat.eqb_eq.
  - rewrite (hst_out s Hs) in Hti. destruct Hti.
Qed.

Lemma htargets_spec ti g : In g (ft_targets (tr c ti)) -> 0 < g /\ g < n.
Proof.
  intros Hg. destruct (Nat.lt_ge_cases ti (ntrans c)) as [Ht|Ht].
  - destruct hparts as (_ & _ & _ & _ & _ & _ & _ & _ & P & _). unfold wfb_targets in P. rewrite hforallb_seq in P.
    specialize (P ti Ht). rewrite forallb_forall in P. specialize (P g Hg).
    apply andb_true_iff in P as [A B]. apply Nat.ltb_lt in A, B. tauto.
  - rewrite (htr_out ti Ht) in Hg. destruct Hg.
Qed.

Lemma one_childb_sound T : one_childb c T = true -> one_child_per_compound c T.
Proof.
  intros P j k1 k2 g1 g2 Hk H1 H2 Hg1 Hg2 P1 P2.
  assert (Hj : j < n) by (apply hkd_in; unfold kd; rewrite Hk; discriminate).
  unfold one_childb in P. rewrite hforallb_seq in P. specialize (P j Hj). rewrite Hk in P. apply Nat.leb_le in P.
  assert (Hon : forall k g, In g T -> on_pathP c k g -> existsb (on_path c k) T = true).
  { intros k g Hg [->|Ha]; apply existsb_exists; exists g; (split; [exact Hg|]); unfold on_path.
    - now rewrite Nat.eqb_refl.
    - apply orb_true_iff. right. apply mem_In. now apply hanc_spec. }
  apply hchildren_spec in H1, H2.
  eapply (@filter_le1 c nat _ (fs_children (st c j)) (hchildren_nodup j) P k1 k2); eauto.
Qed.

Lemma hpseudo_parent i : pseudoS c i = true -> exists q, par i = Some q /\ kd q = FCompound.
Proof.
  intros Hps. unfold pseudoS in Hps.
  assert (Hi : i < n) by (apply hkd_in; unfold kd; intros E; rewrite E in Hps; discriminate).
  destruct hparts as (_ & _ & _ & _ & _ & _ & _ & _ & _ & P & _). unfold whb_pseudo_parent in P. rewrite hforallb_seq in P.
  specialize (P i Hi). rewrite Hps in P. unfold par. destruct (fs_parent (st c i)) as [q|]; [|discriminate].
  exists q. split; [reflexivity|]. unfold kd. destruct (fs_type (st c q)); try discriminate. reflexivity.
Qed.

Lemma hpseudo_leaf i k : pseudoS c i = true -> par k <> Some i.
Proof.
  intros Hps Hk. unfold pseudoS in Hps.
  assert (Hi : i < n) by (apply hkd_in; unfold kd; intros E; rewrite E in Hps; discriminate).
  destruct hparts as (_ & _ & _ & _ & _ & _ & _ & _ & _ & _ & P & _). unfold whb_pseudo_leaf in P. rewrite hforallb_seq in P.
  specialize (P i Hi). rewrite Hps in P. apply hchildren_spec in Hk. unfold ch in Hk.
  destruct (fs_children (st c i)); [destruct Hk | discriminate].
Qed.

Lemma hcompletion_in i : i < n ->
  match kd i with
  | FCompound => cpl i <> [] /\ (forall g, In g (cpl i) -> Anc i g) /\ one_child_per_compound c (cpl i)
  | FParallel => cpl i = ch i
  | _ => True end.
Proof.
  intros Hi. destruct hparts as (_ & _ & _ & _ & _ & _ & _ & _ & _ & _ & _ & P & _). unfold whb_completion in P.
  rewrite hforallb_seq in P. specialize (P i Hi). unfold kd, cpl, ch in *. destruct (fs_type (st c i)); try exact I.
  - apply andb_true_iff in P as [P P3]. apply andb_true_iff in P as [P1 P2]. split; [|split].
    + intros E. rewrite E in P1. discriminate.
    + intros g Hg. rewrite forallb_forall in P2. specialize (P2 g Hg). apply mem_In in P2. now apply hanc_spec.
    + now apply one_childb_sound.
  - now apply list_eqb_eq.
Qed.

Lemma hcompound_spec i : kd i = FCompound -> cpl i <> [] /\ (forall g, In g (cpl i) -> Anc i g).
Proof.
  intros Hk. assert (Hi : i < n) by (apply hkd_in; rewrite Hk; discriminate).
  pose proof (hcompletion_in i Hi) as P. rewrite Hk in P. tauto.
Qed.

Lemma hcpl_sets i : kd i = FCompound -> one_child_per_compound c (cpl i).
Proof.
  intros Hk. assert (Hi : i < n) by (apply hkd_in; rewrite Hk; discriminate).
  pose proof (hcompletion_in i Hi) as P. rewrite Hk in P. tauto.
Qed.

Lemma hparallel_spec i k : kd i = FParallel -> (In k (cpl i) <-> In k (ch i)).
Proof.
  intros Hk. assert (Hi : i < n) by (apply hkd_in; rewrite Hk; discriminate).
  pose proof (hcompletion_in i Hi) as P. rewrite Hk in P. now rewrite P.
Qed.

Lemma htarget_sets ti : one_child_per_compound c (ft_targets (tr c ti)).
Proof.
  destruct (Nat.lt_ge_cases ti (ntrans c)) as [Ht|Ht].
  - destruct hparts as (_ & _ & _ & _ & _ & _ & _ & _ & _ & _ & _ & _ & P & _). unfold whb_target_sets in P.
    rewrite hforallb_seq in P. apply one_childb_sound. now apply P.
  - rewrite (htr_out ti Ht). intros j k1 k2 g1 g2 _ _ _ [].
Qed.

Lemma hinitial_spec i q : kd i = FInitial -> par i = Some q ->
  exists ti, fs_trans (st c i) = [ti] /\ ft_targets (tr c ti) <> [] /\
             forall g, In g (ft_targets (tr c ti)) -> Anc q g /\ i < g /\ pseudoS c g = false.
Proof.
  intros Hk Hp. assert (Hi : i < n) by (apply hkd_in; rewrite Hk; discriminate).
  destruct hparts as (_ & _ & _ & _ & _ & _ & _ & _ & _ & _ & _ & _ & _ & P & _). unfold whb_initial in P.
  rewrite hforallb_seq in P. specialize (P i Hi). unfold kd, par in *. rewrite Hk, Hp in P.
  destruct (fs_trans (st c i)) as [|ti [|? ?]]; try discriminate. exists ti. split; [reflexivity|].
  apply andb_true_iff in P as [P1 P2]. split.
  - intros E. rewrite E in P1. discriminate.
  - intros g Hg. rewrite forallb_forall in P2. specialize (P2 g Hg).
    apply andb_true_iff in P2 as [P2 C]. apply andb_true_iff in P2 as [A B].
    split; [apply hanc_spec; now apply mem_In|]. split; [now apply Nat.ltb_lt|].
    unfold pseudoS. now apply negb_true_iff in C.
Qed.

Lemma hhist_kd i : histS c i = true -> i < n.
Proof. intros Hh. unfold histS in Hh. apply hkd_in. unfold kd. intros E. rewrite E in Hh. discriminate. Qed.

Lemma deep_eq i : is_deep (fs_type (st c i)) = deepS c i.
Proof. reflexivity. Qed.

Lemma hhist_default i q : histS c i = true -> par i = Some q ->
  exists ti r, fs_trans (st c i) = ti :: r /\ ft_targets (tr c ti) <> [] /\
               forall g, In g (ft_targets (tr c ti)) ->
                         i < g /\ pseudoS c g = false /\ (if deepS c i then Anc q g else par g = Some q).
Proof.
  intros Hh Hp. pose proof (hhist_kd i Hh) as Hi. unfold histS in Hh.
  destruct hparts as (_ & _ & _ & _ & _ & _ & _ & _ & _ & _ & _ & _ & _ & _ & P & _). unfold whb_hist_default in P.
  rewrite hforallb_seq in P. specialize (P i Hi). unfold par in *. rewrite Hh, Hp in P.
  destruct (fs_trans (st c i)) as [|ti r]; [discriminate|]. exists ti, r. split; [reflexivity|].
  apply andb_true_iff in P as [P1 P2]. split.
  - intros E. rewrite E in P1. discriminate.
  - intros g Hg. rewrite forallb_forall in P2. specialize (P2 g Hg).
    apply andb_true_iff in P2 as [P2 C]. apply andb_true_iff in P2 as [A B].
    split; [now apply Nat.ltb_lt|]. split; [unfold pseudoS; now apply negb_true_iff in B|].
    rewrite deep_eq in C. destruct (deepS c i).
    + apply hanc_spec. now apply mem_In.
    + unfold opt_eqb in C. destruct (fs_parent (st c g)) as [p|]; [|discriminate]. apply Nat.eqb_eq in C. now subst.
Qed.

Lemma hhist_cpl i q : histS c i = true -> par i = Some q ->
  (forall x, In x (cpl i) -> x < n /\ (pseudoS c x = false -> i < x) /\
             (par x = Some q \/ (deepS c i = true /\ exists p, par x = Some p /\ In p (cpl i)))) /\
  (forall k, par k = Some q -> pseudoS c k = false -> In k (cpl i)).
Proof.
  intros Hh Hp. pose proof (hhist_kd i Hh) as Hi. unfold histS in Hh.
  destruct hparts as (_ & _ & _ & _ & _ & _ & _ & _ & _ & _ & _ & _ & _ & _ & _ & P & _). unfold whb_hist_cpl in P.
  rewrite hforallb_seq in P. specialize (P i Hi). unfold par in *. rewrite Hh, Hp in P.
  apply andb_true_iff in P as [P1 P2]. split.
  - intros x Hx. rewrite forallb_forall in P1. specialize (P1 x Hx).
    apply andb_true_iff in P1 as [P1 C]. apply andb_true_iff in P1 as [A B].
    split; [now apply Nat.ltb_lt|]. split.
    + intros Hps. unfold pseudoS in Hps. rewrite Hps in B. cbn in B. now apply Nat.ltb_lt.
    + apply orb_true_iff in C as [C|C].
      * left. unfold opt_eqb in C. destruct (fs_parent (st c x)) as [p|]; [|discriminate]. apply Nat.eqb_eq in C. now subst.
      * right. apply andb_true_iff in C as [C1 C2]. split; [exact C1|].
        destruct (fs_parent (st c x)) as [p|]; [|discriminate]. exists p. split; [reflexivity | now apply mem_In].
  - intros k Hk Hps. apply hchildren_spec in Hk. rewrite forallb_forall in P2. specialize (P2 k Hk).
    unfold pseudoS in Hps. rewrite Hps in P2. cbn in P2. now apply mem_In.
Qed.

Lemma hhist_disjoint h1 h2 x : histS c h1 = true -> histS c h2 = true ->
  In x (cpl h1) -> In x (cpl h2) -> pseudoS c x = false -> par h1 = par h2.
Proof.
  intros H1 H2 Hx1 Hx2 Hps.
  pose proof (hhist_kd h1 H1) as Hn1. pose proof (hhist_kd h2 H2) as Hn2. unfold histS in H1, H2.
  destruct hparts as (_ & _ & _ & _ & _ & _ & _ & _ & _ & _ & _ & _ & _ & _ & _ & _ & P). unfold whb_hist_disjoint in P.
  rewrite hforallb_seq in P. specialize (P h1 Hn1). rewrite hforallb_seq in P. specialize (P h2 Hn2).
  rewrite H1, H2 in P. cbn [andb] in P. unfold par.
  destruct (opt_nat_eqb (fs_parent (st c h1)) (fs_parent (st c h2))) eqn:E.
  - unfold opt_nat_eqb in E. destruct (fs_parent (st c h1)), (fs_parent (st c h2)); try discriminate; [|reflexivity].
    apply Nat.eqb_eq in E. now subst.
  - exfalso. cbn [negb] in P. rewrite forallb_forall in P. specialize (P x Hx1). unfold pseudoS in Hps. rewrite Hps in P. cbn [orb] in P.
    apply negb_true_iff, mem_false_In in P. contradiction.
Qed.

Theorem wf_histb_sound : WFH c.
Proof.
  constructor.
  - exact hroot_par.
  - exact hpar_lt.
  - exact hpar_some.
  - exact hchildren_spec.
  - exact hchildren_nodup.
  - exact hanc_spec.
  - exact hinterval_spec.
  - exact hroot_type.
  - exact hpseudo_parent.
  - exact hpseudo_leaf.
  - exact hcompound_spec.
  - exact hcpl_sets.
  - exact hparallel_spec.
  - exact hsrc_spec.
  - exact htargets_spec.
  - exact htarget_sets.
  - exact hinitial_spec.
  - exact hhist_default.
  - exact hhist_cpl.
  - exact hhist_disjoint.
Qed.

End HSound.

Lemma wf_initb_histb c : wf_initb c = true -> wf_histb c = true.
Proof. unfold wf_initb. intros H. now apply andb_true_iff in H. Qed.

