(* CGenRefineTables.v -- C04, data refinement, layer 2: the emitted tables (CGen.bmachine_of) read back.
   - the sizes uscxml_step() computes against the declared array lengths, for fewer than 2^24 states / transitions;
   - states[i] / transitions[i] looked up in the emitted tables are the rows written for the flat chart; the type codes
     and flags decoded;
   - [bref_chartb]: the (computable) conditions on the flat chart under which the byte level and the set level of CGen.v
     describe the same machine: every table entry is an index below the number of states, ancestors precede their
     state, pseudo-states and final states have a parent, `parent == 0` is `ancestors == {0}` for final states, the
     root's completion is ascending and the root is no history;
   - the rows as (loose) representations of the table lists.
   Proofs only. *)
From V Require Import Base NameMatch Chart Exec Large Fast GenCGen CGen CGenLemmas SetLemmas SerializeCodecLemmas CGenRefineBits.
From Coq Require Import Lia Sorted ZifyBool.
Local Open Scope nat_scope.

Fixpoint bref_sortedb (l : list nat) : bool :=
  match l with
  | x :: r => match r with y :: _ => (x <? y) && bref_sortedb r | [] => true end
  | [] => true
  end.

Lemma bref_sortedb_sound l : bref_sortedb l = true -> ssorted l.
Proof.
  induction l as [|x r IH]; intros H; [constructor|].
  destruct r as [|y r']; [repeat constructor|].
  cbn [bref_sortedb] in H. apply andb_true_iff in H as [H1 H2]. apply Nat.ltb_lt in H1. specialize (IH H2).
  constructor; [exact IH|]. apply ssorted_cons_inv in IH as [_ F]. constructor; [exact H1|].
  rewrite Forall_forall in *. intros z Hz. specialize (F z Hz). lia.
Qed.

Definition bref_blt (n : nat) (l : list nat) : bool := forallb (fun x => x <? n) l.
Lemma bref_blt_sound n l : bref_blt n l = true -> bounded n l.
Proof. unfold bref_blt. rewrite forallb_forall. intros H. apply bounded_intro. intros x Hx. apply Nat.ltb_lt. now apply H. Qed.

Definition bref_has_parent (s : fstate) : bool := match fs_parent s with Some _ => true | None => false end.
Definition bref_is_final (t : ftype) : bool := match t with FFinal => true | _ => false end.

Section Check.
Variable c : fchart.
Let ns := nstates c.

Definition bref_state_okb (i : nat) : bool :=
  let s := st c i in
  bref_blt ns (fs_children s) && bref_blt ns (fs_completion s) && bref_blt i (fs_ancestors s) && bref_sortedb (fs_ancestors s) &&
  (if is_hist (fs_type s) || bref_is_final (fs_type s) then bref_has_parent s else true) &&
  match fs_type s, fs_parent s with
  | FFinal, Some p => Bool.eqb (list_eqb (fs_ancestors s) [0]) (p =? 0)
  | _, _ => true
  end.

Definition bref_trans_okb (j : nat) : bool :=
  let t := tr c j in
  bref_blt ns (ft_targets t) && (if ft_history t || ft_initial t then bref_has_parent (st c (ft_source t)) else true).

Definition bref_chartb : bool :=
  chart_idx_ok c && forallb bref_state_okb (seq 0 ns) && forallb bref_trans_okb (seq 0 (ntrans c)) &&
  bref_sortedb (fs_completion (st c 0)) && negb (is_hist (fs_type (st c 0))).
End Check.

(* ------------------------------------------------------------------ type codes and flags *)

Lemma kind_code_inj a b : kind_code a = kind_code b -> a = b.
Proof. destruct a, b; cbn; intros H; try reflexivity; discriminate. Qed.

Lemma kind_of_code t (h : bool) : kind_of (N.lor (kind_code t) (if h then CG_STATE_HAS_HISTORY else 0%N)) = kind_code t.
Proof. destruct t, h; reflexivity. Qed.

Lemma is_histk_code t (h : bool) : is_histk (N.lor (kind_code t) (if h then CG_STATE_HAS_HISTORY else 0%N)) = is_hist t.
Proof. destruct t, h; reflexivity. Qed.

Lemma has_hist_code t (h : bool) : flag_on (N.lor (kind_code t) (if h then CG_STATE_HAS_HISTORY else 0%N)) CG_STATE_HAS_HISTORY = h.
Proof. destruct t, h; reflexivity. Qed.

Lemma deep_with_hist_code t (h : bool) :
  (N.lor (kind_code t) (if h then CG_STATE_HAS_HISTORY else 0%N) =? N.lor CG_STATE_HAS_HISTORY CG_STATE_HISTORY_DEEP)%N =
  match t with FHistDeep => h | _ => false end.
Proof. destruct t, h; reflexivity. Qed.

Lemma hist_or_init_code (tl it sp h i : bool) :
  hist_or_init (N.lor (if tl then CG_TRANS_TARGETLESS else 0%N)
               (N.lor (if it then CG_TRANS_INTERNAL else 0%N)
               (N.lor (if sp then CG_TRANS_SPONTANEOUS else 0%N)
               (N.lor (if h then CG_TRANS_HISTORY else 0%N) (if i then CG_TRANS_INITIAL else 0%N))))) = h || i.
Proof. destruct tl, it, sp, h, i; reflexivity. Qed.

(* ------------------------------------------------------------------ the machine written for a chart *)
Section Tables.
Variable cv : cg_variant.
Variable c : fchart.
Notation ns := (nstates c).
Notation nt := (ntrans c).
Notation bm := (bmachine_of cv c).
Notation MS := (m_maxs c).
Notation MT := (m_maxt c).
Definition NTB : nat := bm_ntb bm.
Notation WS := (8 * MS).
Notation WT := (8 * NTB).

Hypothesis Hns : (N.of_nat ns < 2 ^ 24)%N.
Hypothesis Hnt : (N.of_nat nt < 2 ^ 24)%N.
Hypothesis Hok : bref_chartb c = true.
Set Default Proof Using "cv Hns Hnt Hok".

Lemma okb_parts :
  chart_idx_ok c = true /\ (forall i, i < ns -> bref_state_okb c i = true) /\ (forall j, j < nt -> bref_trans_okb c j = true) /\
  ssorted (fs_completion (st c 0)) /\ is_hist (fs_type (st c 0)) = false.
Proof.
  pose proof Hok as K. unfold bref_chartb in K. rewrite !andb_true_iff in K. destruct K as [[[[A B] C] D] E].
  repeat split.
  - exact A.
  - intros i Hi. rewrite forallb_forall in B. apply B. apply in_seq. lia.
  - intros j Hj. rewrite forallb_forall in C. apply C. apply in_seq. lia.
  - now apply bref_sortedb_sound.
  - now apply negb_true_iff.
Qed.

Lemma idx_ok : chart_idx_ok c = true.
Proof. apply okb_parts. Qed.

Lemma ns_pos : 0 < ns.
Proof.
  pose proof idx_ok as H. unfold chart_idx_ok in H. rewrite !andb_true_iff in H. destruct H as [[H _] _]. now apply Nat.ltb_lt.
Qed.

Lemma src_lt j : j < nt -> ft_source (tr c j) < ns.
Proof.
  intros Hj. pose proof idx_ok as H. unfold chart_idx_ok in H. rewrite !andb_true_iff in H. destruct H as [_ H].
  rewrite forallb_forall in H. apply Nat.ltb_lt. apply H. now apply tr_in.
Qed.

Lemma par_lt i p : i < ns -> fs_parent (st c i) = Some p -> p < ns.
Proof.
  intros Hi Hp. pose proof idx_ok as H. unfold chart_idx_ok in H. rewrite !andb_true_iff in H. destruct H as [[_ H] _].
  rewrite forallb_forall in H. specialize (H _ (st_in c i Hi)). rewrite Hp in H. now apply Nat.ltb_lt.
Qed.

Lemma mok : machine_ok bm MS MT.
Proof. apply bmachine_of_ok; [apply idx_ok | exact Hns | exact Hnt]. Qed.

Lemma nsb_eq : bm_nsb bm = MS.
Proof.
  cbn [bmachine_of bm_nsb]. unfold m_ws, m_maxs. rewrite nr_bytes_eq, max_bytes_eq by exact Hns.
  pose proof ns_pos. assert (1 <= (N.of_nat ns + 7) / 8)%N; [|lia].
  apply N.div_le_lower_bound; lia.
Qed.

Lemma ntb_eq : NTB = N.to_nat ((N.of_nat nt + 7) / 8).
Proof. unfold NTB. cbn [bmachine_of bm_ntb]. unfold m_wt. rewrite nr_bytes_eq by exact Hnt. reflexivity. Qed.

Lemma ntb_le : NTB <= MT.
Proof. apply (mo_ntb _ _ _ mok). Qed.

Lemma ns_le_WS : ns <= WS.
Proof. apply (mo_bits_s _ _ _ mok). Qed.

Lemma nt_le_WT : nt <= WT.
Proof.
  rewrite ntb_eq. pose proof (N.div_mod (N.of_nat nt + 7) 8 ltac:(lia)). pose proof (N.mod_lt (N.of_nat nt + 7) 8 ltac:(lia)). lia.
Qed.

Lemma bm_ns_eq : bm_ns bm = ns. Proof. reflexivity. Qed.
Lemma bm_nt_eq : bm_nt bm = nt. Proof. reflexivity. Qed.

Lemma st_at_eq site i : i < ns -> st_at site bm i = Ok (bstate_of cv c i).
Proof.
  intros Hi. unfold st_at. cbn [bmachine_of bm_states].
  rewrite (nth_error_nth' _ (bstate_of cv c 0)) by (rewrite map_length, seq_length; exact Hi).
  rewrite map_nth, seq_nth by exact Hi. reflexivity.
Qed.

Lemma tr_at_eq site j : j < nt -> tr_at site bm j = Ok (btrans_of c j).
Proof.
  intros Hj. unfold tr_at. cbn [bmachine_of bm_trans].
  rewrite (nth_error_nth' _ (btrans_of c 0)) by (rewrite map_length, seq_length; exact Hj).
  rewrite map_nth, seq_nth by exact Hj. reflexivity.
Qed.

Lemma counters_ok : counters_fit bm = true.
Proof. apply counters_fit_single_machine; assumption. Qed.

Lemma trunc_ns : N.to_nat (trunc (bm_iw bm) (N.of_nat (bm_ns bm))) = ns.
Proof.
  pose proof counters_ok as H. unfold counters_fit in H. apply andb_true_iff in H as [H _]. apply N.ltb_lt in H.
  unfold trunc. rewrite N.mod_small by exact H. cbn [bmachine_of bm_ns]. apply Nat2N.id.
Qed.

(* ---- what the chart conditions say ---- *)
Lemma st_parts i : i < ns ->
  bounded ns (fs_children (st c i)) /\ bounded ns (fs_completion (st c i)) /\ bounded i (fs_ancestors (st c i)) /\
  ssorted (fs_ancestors (st c i)) /\
  (is_hist (fs_type (st c i)) || bref_is_final (fs_type (st c i)) = true -> bref_has_parent (st c i) = true) /\
  (forall p, fs_type (st c i) = FFinal -> fs_parent (st c i) = Some p ->
             match fs_ancestors (st c i) with [0] => true | _ => false end = (p =? 0)).
Proof.
  intros Hi. destruct okb_parts as (_ & H & _). specialize (H i Hi). unfold bref_state_okb in H. cbv zeta in H.
  repeat (apply andb_true_iff in H as [H ?]).
  split; [now apply bref_blt_sound|]. split; [now apply bref_blt_sound|]. split; [now apply bref_blt_sound|]. split; [now apply bref_sortedb_sound|].
  split.
  - intros E. rewrite E in H1. exact H1.
  - intros p Ef Ep. rewrite Ef, Ep in H0. apply Bool.eqb_prop in H0. rewrite <- H0.
    destruct (fs_ancestors (st c i)) as [|[|a] [|b r]]; reflexivity.
Qed.

Lemma children_bounded i : bounded ns (fs_children (st c i)).
Proof.
  destruct (Nat.lt_ge_cases i ns) as [L|G]; [apply (st_parts i L)|].
  unfold st. rewrite nth_overflow by exact G. constructor.
Qed.
Lemma completion_bounded i : bounded ns (fs_completion (st c i)).
Proof.
  destruct (Nat.lt_ge_cases i ns) as [L|G]; [apply (st_parts i L)|].
  unfold st. rewrite nth_overflow by exact G. constructor.
Qed.
Lemma ancestors_lt i a : In a (fs_ancestors (st c i)) -> a < i /\ a < ns.
Proof.
  intros Ha. destruct (Nat.lt_ge_cases i ns) as [L|G].
  - destruct (st_parts i L) as (_ & _ & B & _). pose proof (bounded_in _ _ _ B Ha). lia.
  - unfold st in Ha. rewrite nth_overflow in Ha by exact G. destruct Ha.
Qed.
Lemma ancestors_bounded i : bounded ns (fs_ancestors (st c i)).
Proof. apply bounded_intro. intros a Ha. now apply ancestors_lt in Ha. Qed.
Lemma ancestors_sorted i : ssorted (fs_ancestors (st c i)).
Proof.
  destruct (Nat.lt_ge_cases i ns) as [L|G]; [apply (st_parts i L)|].
  unfold st. rewrite nth_overflow by exact G. constructor.
Qed.
Lemma targets_bounded j : bounded ns (ft_targets (tr c j)).
Proof.
  destruct (Nat.lt_ge_cases j nt) as [L|G].
  - destruct okb_parts as (_ & _ & H & _). specialize (H j L). unfold bref_trans_okb in H. apply andb_true_iff in H as [H _].
    now apply bref_blt_sound.
  - unfold tr. rewrite nth_overflow by exact G. constructor.
Qed.
Lemma pseudo_trans_parent j : j < nt -> ft_history (tr c j) || ft_initial (tr c j) = true ->
  exists p, fs_parent (st c (ft_source (tr c j))) = Some p.
Proof.
  intros L E. destruct okb_parts as (_ & _ & H & _). specialize (H j L). unfold bref_trans_okb in H. apply andb_true_iff in H as [_ H].
  rewrite E in H. unfold bref_has_parent in H. destruct (fs_parent (st c (ft_source (tr c j)))); [eauto | discriminate].
Qed.

(* the generator's history completions are parts of the engines' *)
Lemma cover_sub hs : forall prev cov per h x,
  In (h, x) (cover c hs prev cov per) -> forall y, In y x -> In y (fs_completion (st c h)).
Proof.
  induction hs as [|h0 r IH]; intros prev cov per h x H y Hy; cbn [cover] in H; [destruct H|].
  destruct H as [H|H].
  - inversion H; subst. apply filter_In in Hy. tauto.
  - eapply IH; eassumption.
Qed.

Lemma ccompl_sub i y : In y (ccompl cv c i) -> exists h, In y (fs_completion (st c h)).
Proof.
  unfold ccompl. destruct (is_hist (fs_type (st c i))); [|eauto].
  destruct (find (fun p => fst p =? i) (hist_table cv c)) as [[h x]|] eqn:F; [|intros []].
  apply find_some in F as [F _]. cbn [snd]. intros Hy. exists h.
  unfold hist_table in F. destruct (cg_cover cv).
  - eapply cover_sub; eassumption.
  - eapply cover_sub; eassumption.
  - apply in_map_iff in F as (h' & E & _). inversion E; subst. exact Hy.
Qed.

Lemma ccompl_bounded i : bounded ns (ccompl cv c i).
Proof.
  apply bounded_intro. intros y Hy. apply ccompl_sub in Hy as (h & Hy). apply (bounded_in _ _ _ (completion_bounded h) Hy).
Qed.

Lemma ccompl_root : ccompl cv c 0 = fs_completion (st c 0).
Proof. unfold ccompl. destruct okb_parts as (_ & _ & _ & _ & H). rewrite H. reflexivity. Qed.

Lemma bounded_mono n n' l : n <= n' -> bounded n l -> bounded n' l.
Proof. intros H B. apply bounded_intro. intros x Hx. pose proof (bounded_in _ _ _ B Hx). lia. Qed.

(* ---- the rows ---- *)
Lemma row_srep row : bounded ns row -> srep WS (to_bytes MS row) row.
Proof. intros B. apply srep_row. eapply bounded_mono; [apply ns_le_WS | exact B]. Qed.

Lemma row_len row : length (to_bytes MS row) = MS.
Proof. apply to_bytes_length. Qed.

Lemma bs_children_srep i : srep WS (bs_children (bstate_of cv c i)) (fs_children (st c i)).
Proof. apply row_srep, children_bounded. Qed.
Lemma bs_completion_srep i : srep WS (bs_completion (bstate_of cv c i)) (ccompl cv c i).
Proof. apply row_srep, ccompl_bounded. Qed.
Lemma bs_ancestors_srep i : srep WS (bs_ancestors (bstate_of cv c i)) (fs_ancestors (st c i)).
Proof. apply row_srep, ancestors_bounded. Qed.
Lemma bs_ancestors_rep i : rep WS (bs_ancestors (bstate_of cv c i)) (fs_ancestors (st c i)).
Proof. apply rep_of_srep; [apply ancestors_sorted | apply bs_ancestors_srep]. Qed.
Lemma bt_target_srep j : srep WS (bt_target (btrans_of c j)) (ft_targets (tr c j)).
Proof. apply row_srep, targets_bounded. Qed.

Lemma bs_kind i : kind_of (bs_type (bstate_of cv c i)) = kind_code (fs_type (st c i)).
Proof. apply kind_of_code. Qed.
Lemma bs_is_hist i : is_histk (bs_type (bstate_of cv c i)) = is_hist (fs_type (st c i)).
Proof. apply is_histk_code. Qed.
Lemma bs_has_history i : flag_on (bs_type (bstate_of cv c i)) CG_STATE_HAS_HISTORY = has_history c i.
Proof. apply has_hist_code. Qed.
Lemma bs_deep_with_hist i :
  (bs_type (bstate_of cv c i) =? N.lor CG_STATE_HAS_HISTORY CG_STATE_HISTORY_DEEP)%N =
  match fs_type (st c i) with FHistDeep => has_history c i | _ => false end.
Proof. apply deep_with_hist_code. Qed.
Lemma bt_hist_or_init j : hist_or_init (bt_type (btrans_of c j)) = ft_history (tr c j) || ft_initial (tr c j).
Proof. apply hist_or_init_code. Qed.

End Tables.
Unset Default Proof Using.

(* ------------------------------------------------------------------ the shape of the memory; bookkeeping tactics *)

Lemma shape_len c m a : mem_shape c m -> length (get m a) = nth a (LL (m_maxs c) (m_maxt c)) 0.
Proof. intros H. rewrite get_len, H. reflexivity. Qed.

Lemma frame_shape c m m' dst : frame m m' dst -> mem_shape c m -> mem_shape c m'.
Proof. intros [L _] H. unfold mem_shape in *. congruence. Qed.

Lemma shape_lens c m : mem_shape c m ->
  length (get m A_CONFIG) = m_maxs c /\ length (get m A_HISTORY) = m_maxs c /\ length (get m A_INVOC) = m_maxs c /\
  length (get m A_INITD) = m_maxs c /\ length (get m A_CONFL) = m_maxt c /\ length (get m A_TRSET) = m_maxt c /\
  length (get m A_TARGET) = m_maxs c /\ length (get m A_EXIT) = m_maxs c /\ length (get m A_ENTRY) = m_maxs c /\
  length (get m A_TMP) = m_maxs c.
Proof. intros H. repeat split; rewrite (shape_len c m _ H); reflexivity. Qed.

(* carry the facts about the arrays other than [dst] over an operation that wrote [dst] only *)
Ltac absent P := lazymatch goal with | _ : P |- _ => fail | _ => idtac end.

Ltac carry F :=
  match type of F with
  | frame ?m ?m' ?dst =>
    repeat match goal with
           | H : rep ?W (get m ?a) ?l |- _ =>
             absent (rep W (get m' a) l);
             assert (rep W (get m' a) l) by (apply (rep_frame W m m' dst a l F); [cbv; discriminate | exact H])
           | H : srep ?W (get m ?a) ?l |- _ =>
             absent (srep W (get m' a) l);
             assert (srep W (get m' a) l) by (apply (srep_frame W m m' dst a l F); [cbv; discriminate | exact H])
           end;
    match goal with
    | H : mem_shape ?c m |- _ => pose proof (frame_shape c m m' dst F H)
    | _ => idtac
    end
  end.

(* lengths of the arrays of a memory of the right shape *)
Ltac lens_of m :=
  match goal with
  | H : mem_shape ?c m |- _ =>
    let L := fresh "L" in pose proof (shape_lens c m H) as L; cbv beta in L
  end.

(* ------------------------------------------------------------------ several destinations; indexed loops *)

Definition frames (m m' : bmem) (ds : list nat) : Prop := lens m' = lens m /\ forall a, ~ In a ds -> get m' a = get m a.

Lemma frames_refl m ds : frames m m ds.
Proof. split; auto. Qed.
Lemma frames_trans m1 m2 m3 ds : frames m1 m2 ds -> frames m2 m3 ds -> frames m1 m3 ds.
Proof. intros [A B] [C D]. split; [congruence|]. intros a Ha. rewrite D, B by exact Ha. reflexivity. Qed.
Lemma frames_of_frame m m' d ds : frame m m' d -> In d ds -> frames m m' ds.
Proof. intros [A B] Hd. split; [exact A|]. intros a Ha. apply B. intros ->. contradiction. Qed.
Lemma frames_step m1 m2 m3 d ds : frames m1 m2 ds -> frame m2 m3 d -> In d ds -> frames m1 m3 ds.
Proof. intros F1 F2 Hd. eapply frames_trans; [exact F1 | eapply frames_of_frame; eassumption]. Qed.
Lemma frames_mono m m' ds ds' : frames m m' ds -> (forall a, In a ds -> In a ds') -> frames m m' ds'.
Proof. intros [A B] H. split; [exact A|]. intros a Ha. apply B. intros Hd. apply Ha, H, Hd. Qed.
Lemma frames_shape c m m' ds : frames m m' ds -> mem_shape c m -> mem_shape c m'.
Proof. intros [L _] H. unfold mem_shape in *. congruence. Qed.
Lemma rep_frames W m m' ds a l : frames m m' ds -> ~ In a ds -> rep W (get m a) l -> rep W (get m' a) l.
Proof. intros [_ F] Ha R. rewrite F by exact Ha. exact R. Qed.
Lemma srep_frames W m m' ds a l : frames m m' ds -> ~ In a ds -> srep W (get m a) l -> srep W (get m' a) l.
Proof. intros [_ F] Ha R. rewrite F by exact Ha. exact R. Qed.

Ltac notin := cbv; intuition discriminate.
Ltac isin := cbv; tauto.

Ltac carrys F :=
  match type of F with
  | frames ?m ?m' ?ds =>
    repeat match goal with
           | H : rep ?W (get m ?a) ?l |- _ =>
             absent (rep W (get m' a) l);
             assert (rep W (get m' a) l) by (apply (rep_frames W m m' ds a l F); [notin | exact H])
           | H : srep ?W (get m ?a) ?l |- _ =>
             absent (srep W (get m' a) l);
             assert (srep W (get m' a) l) by (apply (srep_frames W m m' ds a l F); [notin | exact H])
           end;
    match goal with
    | H : mem_shape ?c m |- _ => pose proof (frames_shape c m m' ds F H)
    | _ => idtac
    end
  end.

Lemma okp_forM_seq S T (R : nat -> S -> T -> Prop) (body : nat -> S -> res S) (g : T -> nat -> T) :
  forall k i s t, R i s t ->
  (forall j s t, i <= j < i + k -> R j s t -> okp (body j s) (fun s' => R (Datatypes.S j) s' (g t j))) ->
  okp (forM (seq i k) body s) (fun s' => R (i + k) s' (fold_left g (seq i k) t)).
Proof.
  induction k as [|k IH]; intros i s t Hs Hb; cbn [seq forM fold_left].
  - cbn [okp]. now rewrite Nat.add_0_r.
  - eapply okp_bind; [apply Hb; [lia | exact Hs]|]. intros s' Hs'.
    replace (i + Datatypes.S k) with (Datatypes.S i + k) by lia. apply IH; [exact Hs'|].
    intros j u v Hj Hu. apply Hb; [lia | exact Hu].
Qed.

Lemma okp_forB_seq S T (R : nat -> S -> T -> Prop) (body : nat -> S -> res (bool * S)) (g : T -> nat -> T) :
  forall k i s t, R i s t ->
  (forall j s t, i <= j < i + k -> R j s t ->
                 okp (body j s) (fun bs => fst bs = false /\ R (Datatypes.S j) (snd bs) (g t j))) ->
  okp (forB (seq i k) body s) (fun s' => R (i + k) s' (fold_left g (seq i k) t)).
Proof.
  induction k as [|k IH]; intros i s t Hs Hb; cbn [seq forB fold_left].
  - cbn [okp]. now rewrite Nat.add_0_r.
  - eapply okp_bind; [apply Hb; [lia | exact Hs]|]. intros [b s'] [Hb' Hs']. cbn [fst snd] in *. subst b.
    replace (i + Datatypes.S k) with (Datatypes.S i + k) by lia. apply IH; [exact Hs'|].
    intros j u v Hj Hu. apply Hb; [lia | exact Hu].
Qed.

Lemma rep_same W a l l' : rep W a l -> ssorted l' -> (forall x, mem x l' = mem x l) -> rep W a l'.
Proof. intros R Sl E. apply rep_intro; [exact Sl|]. intros j. rewrite E. apply (rep_mem _ _ _ R). Qed.

Lemma existsb_ext_in {A} (f g : A -> bool) l : (forall x, In x l -> f x = g x) -> existsb f l = existsb g l.
Proof.
  induction l as [|x r IH]; intros H; cbn [existsb]; [reflexivity|].
  rewrite (H x (or_introl eq_refl)), IH; [reflexivity|]. intros y Hy. apply H. now right.
Qed.

Lemma bind_ok A B (a : A) (k : A -> res B) : bind (Ok a) k = k a.
Proof. reflexivity. Qed.
