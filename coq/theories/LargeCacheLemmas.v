(* LargeCacheLemmas.v -- the engine with the lazily filled conflict caches (LargeCache.v) takes exactly
   the steps of the engine that compares a candidate with every selected transition (Large.v), for every
   chart whose states own disjoint duplicate-free transition lists, every cache content that is sound,
   and every run.  Soundness of the caches is an invariant. *)
From V Require Import Base NameMatch Chart Exec Large LargeLemmas Interp LargeCache.
Local Open Scope nat_scope.

(* ---- lists ---- *)

Lemma mem_true_In x l : mem x l = true <-> In x l.
Proof.
  induction l as [|y r IH]; cbn [mem In]; [split; [discriminate|tauto]|].
  rewrite orb_true_iff, IH, Nat.eqb_eq. intuition.
Qed.

Lemma mem_app_or x a b : mem x (a ++ b) = mem x a || mem x b.
Proof. induction a as [|y r IH]; cbn [mem app]; [reflexivity|]. now rewrite IH, orb_assoc. Qed.

Lemma pmem_cons a b p l : pmem a b (p :: l) = ((fst p =? a) && (snd p =? b)) || pmem a b l.
Proof. reflexivity. Qed.

Lemma mem_row a b l : mem b (row a l) = pmem a b l.
Proof.
  unfold row, pmem. induction l as [|[p q] r IH]; cbn [filter map existsb mem fst snd]; [reflexivity|].
  destruct (p =? a) eqn:E; cbn [map mem andb orb snd].
  - rewrite IH. f_equal. apply Nat.eqb_sym.
  - exact IH.
Qed.

Lemma existsb_insert_sorted (f : nat -> bool) x l :
  existsb f (insert_sorted x l) = f x || existsb f l.
Proof.
  induction l as [|y r IH]; cbn [insert_sorted existsb]; [reflexivity|].
  destruct (x <? y); [reflexivity|].
  destruct (x =? y) eqn:E.
  - apply Nat.eqb_eq in E; subst. cbn [existsb]. destruct (f y); reflexivity.
  - cbn [existsb]. rewrite IH. destruct (f y), (f x); reflexivity.
Qed.

Lemma NoDup_app_remove_l {A} (a b : list A) : NoDup (a ++ b) -> NoDup b.
Proof. induction a as [|x r IH]; cbn [app]; [auto|]. intros H. inversion H. auto. Qed.

Section Dec.
Variable v : lg_variant.
Variable c : fchart.

Definition cf (a b : nat) : bool := conflicts v c (tr c a) (tr c b).

Lemma cf_sym a b : cf a b = cf b a.
Proof. apply conflicts_sym. Qed.

(* what the caches claim is what `conflicts` computes *)
Definition cache_sound (k : tcache) : Prop :=
  (forall a b, pmem a b (tc_compat k) = true -> cf a b = false) /\
  (forall a b, pmem a b (tc_confl k) = true -> cf a b = true).

Lemma cache_sound_empty : cache_sound tc_empty.
Proof. split; intros a b H; discriminate H. Qed.

(* the bit arrays of the running selection under-approximate the two relations to `selected` *)
Definition sel_inv (selected : list nat) (s : selst) : Prop :=
  (forall u, mem u (ss_confl s) = true -> existsb (fun si => cf u si) selected = true) /\
  (forall u, mem u (ss_compat s) = true -> existsb (fun si => cf u si) selected = false).

(* [rem]: the transitions the selection has not looked at yet *)
Definition INV (selected : list nat) (s : selst) (k : tcache) (rem : list nat) : Prop :=
  cache_sound k /\ sel_inv selected s /\
  (forall e u, In e selected -> In u rem -> pmem e u (tc_confl k) = true -> mem u (ss_confl s) = true) /\
  (forall e, In e selected -> ~ In e rem) /\ NoDup rem.

Lemma INV_weaken selected s k rem rem' :
  INV selected s k rem -> (forall u, In u rem' -> In u rem) -> NoDup rem' -> INV selected s k rem'.
Proof.
  intros (H1 & H2 & H3 & H4 & _) Hs Hn. repeat split; try apply H1; try apply H2; auto.
  - intros e u He Hu. apply H3; auto.
  - intros e He Hu. apply (H4 e He). auto.
Qed.

Lemma INV_init k rem : cache_sound k -> NoDup rem -> INV [] ss_empty k rem.
Proof.
  intros Hk Hn. repeat split; try apply Hk; auto; try (intros; discriminate); intros e u [].
Qed.

(* the comparison loop *)
Lemma check_enabled_spec ti : forall en k,
  cache_sound k -> (forall e, In e en -> pmem e ti (tc_confl k) = false) ->
  fst (check_enabled v c ti en k) = existsb (fun si => cf ti si) en /\
  cache_sound (snd (check_enabled v c ti en k)) /\
  (forall a b, pmem a b (tc_confl (snd (check_enabled v c ti en k))) = true ->
               pmem a b (tc_confl k) = true \/ a = ti \/ b = ti).
Proof.
  induction en as [|e r IH]; intros k Hk Hn; cbn [check_enabled existsb].
  - cbn. auto.
  - rewrite (Hn e (or_introl eq_refl)), orb_false_r.
    destruct (pmem e ti (tc_compat k)) eqn:Ec.
    + destruct Hk as [Hc Hf]. pose proof (Hc _ _ Ec) as Hce. rewrite cf_sym in Hce.
      fold (cf ti e). rewrite Hce. cbn [orb].
      apply IH. { split; assumption. } intros e' He'. apply Hn. now right.
    + fold (cf ti e). destruct (cf ti e) eqn:Ecf; cbn [fst snd orb].
      * split; [reflexivity|]. split.
        -- destruct Hk as [Hc Hf]. split; [exact Hc|]. cbn [tc_confl]. intros a b.
           rewrite !pmem_cons. cbn [fst snd]. rewrite !orb_true_iff, !andb_true_iff, !Nat.eqb_eq.
           intros [[<- <-]|[[<- <-]|H]]; [exact Ecf| now rewrite cf_sym | now apply Hf].
        -- cbn [tc_confl]. intros a b. rewrite !pmem_cons. cbn [fst snd].
           rewrite !orb_true_iff, !andb_true_iff, !Nat.eqb_eq. intuition.
      * assert (Hk' : cache_sound {| tc_compat := (ti, e) :: (e, ti) :: tc_compat k; tc_confl := tc_confl k |}).
        { destruct Hk as [Hc Hf]. split; [|exact Hf]. cbn [tc_compat]. intros a b.
          rewrite !pmem_cons. cbn [fst snd]. rewrite !orb_true_iff, !andb_true_iff, !Nat.eqb_eq.
          intros [[<- <-]|[[<- <-]|H]]; [exact Ecf| now rewrite cf_sym | now apply Hc]. }
        specialize (IH _ Hk'). cbn [tc_confl] in IH. apply IH. intros e' He'. apply Hn. now right.
Qed.

(* the test under USCXML_CTX_TRANSITION_FOUND decides `existsb conflicts selected` *)
Lemma cached_conflict_spec ti selected s k rem :
  INV selected s k (ti :: rem) ->
  fst (cached_conflict v c ti selected s k) = existsb (fun si => cf ti si) selected /\
  INV selected s (snd (cached_conflict v c ti selected s k)) rem.
Proof.
  intros HI. pose proof HI as (Hk & Hs & Hcov & Hdis & Hnd).
  assert (HIr : INV selected s k rem).
  { apply (INV_weaken _ _ _ _ _ HI); [intros u Hu; now right | now inversion Hnd]. }
  unfold cached_conflict. destruct selected as [|s0 sr] eqn:Esel; [cbn; auto|]. rewrite <- Esel in *.
  destruct (mem ti (ss_confl s)) eqn:E1.
  { cbn [fst snd]. split; [|exact HIr]. symmetry. now apply Hs. }
  destruct (mem ti (ss_compat s)) eqn:E2.
  { cbn [fst snd]. split; [|exact HIr]. symmetry. now apply Hs. }
  assert (Hn : forall e, In e selected -> pmem e ti (tc_confl k) = false).
  { intros e He. destruct (pmem e ti (tc_confl k)) eqn:Ep; [|reflexivity].
    rewrite (Hcov e ti He (or_introl eq_refl) Ep) in E1. discriminate. }
  destruct (check_enabled_spec ti selected k Hk Hn) as (R1 & R2 & R3).
  split; [exact R1|]. repeat split; try apply R2; try apply Hs.
  - intros e u He Hu Hp. destruct (R3 _ _ Hp) as [Ho|[->| ->]].
    + apply (Hcov e u He); [now right | exact Ho].
    + exfalso. apply (Hdis ti He). now left.
    + exfalso. inversion Hnd; auto.
  - intros e He Hu. apply (Hdis e He). now right.
  - now inversion Hnd.
Qed.

(* taking [ti] *)
Lemma select_update_INV ti selected s k rem :
  INV selected s k rem -> existsb (fun si => cf ti si) selected = false -> ~ In ti rem ->
  INV (insert_sorted ti selected) (select_update ti selected s k) k rem.
Proof.
  intros (Hk & [Hs1 Hs2] & Hcov & Hdis & Hnd) Hfree Hnot.
  destruct Hk as [Hc Hf].
  assert (Hrow_f : forall u, mem u (row ti (tc_confl k)) = true -> cf u ti = true).
  { intros u Hu. rewrite mem_row in Hu. rewrite cf_sym. now apply Hf. }
  assert (Hrow_c : forall u, mem u (row ti (tc_compat k)) = true -> cf u ti = false).
  { intros u Hu. rewrite mem_row in Hu. rewrite cf_sym. now apply Hc. }
  split; [split; assumption|]. split; [|split; [|split; [|exact Hnd]]].
  - (* sel_inv *)
    unfold select_update. destruct selected as [|s0 sr] eqn:Esel.
    + cbn [insert_sorted]. split; intros u Hu; cbn [ss_confl ss_compat] in Hu; cbn [existsb]; rewrite orb_false_r; auto.
    + rewrite <- Esel in *. split; intros u Hu; cbn [ss_confl ss_compat] in Hu; rewrite existsb_insert_sorted.
      * rewrite mem_app_or, orb_true_iff in Hu. destruct Hu as [Hu|Hu].
        -- rewrite (Hs1 u Hu). apply orb_true_r.
        -- now rewrite (Hrow_f u Hu).
      * assert (Hu' := Hu). apply mem_true_In, filter_In in Hu'. destruct Hu' as [Hu1 Hu2].
        apply mem_true_In in Hu1. now rewrite (Hrow_c u Hu2), (Hs2 u Hu1).
  - (* coverage *)
    intros e u He Hu Hp. apply In_insert_sorted in He.
    unfold select_update. destruct selected as [|s0 sr] eqn:Esel.
    + cbn [ss_confl]. destruct He as [->|[]]. now rewrite mem_row.
    + rewrite <- Esel in *. cbn [ss_confl]. rewrite mem_app_or. destruct He as [->|He].
      * rewrite mem_row, Hp. apply orb_true_r.
      * now rewrite (Hcov e u He Hu Hp).
  - intros e He. apply In_insert_sorted in He. destruct He as [->|He]; auto.
Qed.

(* ---- the loops ---- *)

Lemma pick_trans_c_spec cfg ev selected s rem : forall ts k x,
  INV selected s k (ts ++ rem) ->
  fst (pick_trans_c v c cfg ev selected s k ts x) = pick_trans v c cfg ev selected ts x /\
  INV selected s (snd (pick_trans_c v c cfg ev selected s k ts x)) rem /\
  match fst (fst (pick_trans_c v c cfg ev selected s k ts x)) with
  | Some ti => ~ In ti rem /\ existsb (fun si => cf ti si) selected = false
  | None => True
  end.
Proof.
  induction ts as [|ti r IH]; intros k x HI; cbn [pick_trans_c pick_trans].
  - cbn. auto.
  - assert (HIr : INV selected s k (r ++ rem)).
    { apply (INV_weaken _ _ _ _ _ HI); [intros u Hu; now right|].
      destruct HI as (_ & _ & _ & _ & Hnd). now inversion Hnd. }
    destruct (ft_history (tr c ti) || ft_initial (tr c ti)); [now apply IH|].
    destruct (match ev with Some _ => ft_spontaneous (tr c ti) | None => negb (ft_spontaneous (tr c ti)) end);
      [now apply IH|].
    cbn [app] in HI. destruct (cached_conflict_spec ti selected s k (r ++ rem) HI) as [D1 D2].
    destruct (cached_conflict v c ti selected s k) as [b k1] eqn:Ecc. cbn [fst snd] in D1, D2.
    change (existsb (fun si => conflicts v c (tr c ti) (tr c si)) selected)
      with (existsb (fun si => cf ti si) selected).
    rewrite <- D1. destruct b; [now apply IH|].
    destruct (match ev with Some e => negb (name_match_impl nm_fixed (ft_event (tr c ti)) (ev_name e)) | None => false end);
      [now apply IH|].
    assert (Hfin : INV selected s k1 rem /\ ~ In ti rem).
    { split.
      - apply (INV_weaken _ _ _ _ _ D2); [intros u Hu; apply in_or_app; now right|].
        destruct D2 as (_ & _ & _ & _ & Hnd). now apply NoDup_app_remove_l in Hnd.
      - destruct HI as (_ & _ & _ & _ & Hnd). inversion Hnd as [|? ? Hni _]; subst.
        intros Hin. apply Hni. apply in_or_app. now right. }
    destruct (ft_cond (tr c ti)) as [cnd|].
    + destruct (is_true (inst_of c cfg) cnd x) as [b x'] eqn:Eb. destruct b.
      * cbn [fst snd]. split; [reflexivity|]. split; [apply Hfin|]. split; [apply Hfin | now symmetry].
      * now apply IH.
    + cbn [fst snd]. split; [reflexivity|]. split; [apply Hfin|]. split; [apply Hfin | now symmetry].
Qed.

Definition trans_of (order : list nat) : list nat := concat (map (fun sx => fs_trans (st c sx)) order).

Lemma select_loop_c_spec cfg ev : forall order skip selected s k x,
  INV selected s k (trans_of order) ->
  fst (select_loop_c v c cfg ev order skip selected s k x) = select_loop v c cfg ev order skip selected x /\
  cache_sound (snd (select_loop_c v c cfg ev order skip selected s k x)).
Proof.
  induction order as [|sx r IH]; intros skip selected s k x HI; cbn [select_loop_c select_loop].
  - cbn. split; [reflexivity|apply HI].
  - unfold trans_of in HI. cbn [map concat] in HI. fold (trans_of r) in HI.
    assert (HIr : INV selected s k (trans_of r)).
    { apply (INV_weaken _ _ _ _ _ HI); [intros u Hu; apply in_or_app; now right|].
      destruct HI as (_ & _ & _ & _ & Hnd). now apply NoDup_app_remove_l in Hnd. }
    destruct (match skip with
              | Some cur => match fs_parent (st c cur) with Some p => p =? sx | None => false end
              | None => false
              end); [now apply IH|].
    destruct (pick_trans_c_spec cfg ev selected s (trans_of r) (fs_trans (st c sx)) k x HI) as (P1 & P2 & P3).
    destruct (pick_trans_c v c cfg ev selected s k (fs_trans (st c sx)) x) as [[o x'] k'] eqn:Ep.
    cbn [fst snd] in P1, P2, P3. rewrite <- P1. destruct o as [ti|].
    + destruct P3 as [Q1 Q2]. apply IH. now apply select_update_INV.
    + now apply IH.
Qed.

End Dec.

(* ---- duplicate-free candidate sequences ---- *)

Lemma NoDup_app_inv {A} (a b : list A) :
  NoDup (a ++ b) <-> NoDup a /\ NoDup b /\ (forall x, In x a -> ~ In x b).
Proof.
  induction a as [|y r IH]; cbn [app].
  - split; [intros H; repeat split; [constructor | exact H | intros x []] | tauto].
  - split.
    + intros H. inversion H as [|? ? Hn Hr]; subst. apply IH in Hr. destruct Hr as (R1 & R2 & R3).
      repeat split; auto.
      * constructor; auto. intros Hi. apply Hn. apply in_or_app. now left.
      * intros x [->|Hx]; [intros Hb; apply Hn; apply in_or_app; now right | now apply R3].
    + intros (R1 & R2 & R3). inversion R1 as [|? ? Hn Hr]; subst. constructor.
      * intros Hi. apply in_app_or in Hi. destruct Hi as [Hi|Hi]; [auto|]. apply (R3 y); [now left | exact Hi].
      * apply IH. repeat split; auto. intros x Hx. apply R3. now right.
Qed.

Section Concat.
Variable f : nat -> list nat.

Definition lists_ok (L : list nat) : Prop :=
  (forall s, In s L -> NoDup (f s)) /\
  (forall s s' x, In s L -> In s' L -> s <> s' -> In x (f s) -> ~ In x (f s')).

Lemma NoDup_concat_lists_ok L : NoDup L -> NoDup (concat (map f L)) -> lists_ok L.
Proof.
  induction L as [|a r IH]; intros Hl H.
  - split; [intros s [] | intros s s' x []].
  - cbn [map concat] in H. apply NoDup_app_inv in H. destruct H as (H1 & H2 & H3).
    inversion Hl as [|? ? Hna Hlr]; subst. destruct (IH Hlr H2) as [I1 I2]. split.
    + intros s [<-|Hs]; auto.
    + intros s s' x [<-|Hs] [<-|Hs'] Hne Hx Hx'.
      * congruence.
      * apply (H3 x Hx). apply in_concat. exists (f s'). split; [now apply in_map | exact Hx'].
      * apply (H3 x Hx'). apply in_concat. exists (f s). split; [now apply in_map | exact Hx].
      * now apply (I2 s s' x).
Qed.

Lemma lists_ok_NoDup_concat L : NoDup L -> lists_ok L -> NoDup (concat (map f L)).
Proof.
  induction L as [|a r IH]; intros Hl [H1 H2]; cbn [map concat]; [constructor|].
  inversion Hl as [|? ? Hna Hlr]; subst. apply NoDup_app_inv. repeat split.
  - apply H1. now left.
  - apply IH; [exact Hlr|]. split.
    + intros s Hs. apply H1. now right.
    + intros s s' x Hs Hs'. apply H2; now right.
  - intros x Hx Hc. apply in_concat in Hc. destruct Hc as (l & Hl1 & Hl2).
    apply in_map_iff in Hl1. destruct Hl1 as (s' & <- & Hs').
    apply (H2 a s' x); [now left | now right | | exact Hx | exact Hl2].
    intros ->. contradiction.
Qed.

Lemma NoDup_concat_sub L L' :
  NoDup L -> NoDup (concat (map f L)) -> NoDup L' -> (forall s, In s L' -> In s L \/ f s = []) ->
  NoDup (concat (map f L')).
Proof.
  intros Hl H Hl' Hsub. destruct (NoDup_concat_lists_ok L Hl H) as [H1 H2].
  apply lists_ok_NoDup_concat; [exact Hl'|]. split.
  - intros s Hs. destruct (Hsub s Hs) as [Hi| ->]; [now apply H1 | constructor].
  - intros s s' x Hs Hs' Hne Hx Hx'.
    destruct (Hsub s Hs) as [Hi|He]; [|rewrite He in Hx; destruct Hx].
    destruct (Hsub s' Hs') as [Hi'|He']; [|rewrite He' in Hx'; destruct Hx'].
    now apply (H2 s s' x).
Qed.
End Concat.

(* ---- strictly ascending configurations ---- *)

Fixpoint ssorted (l : list nat) : Prop :=
  match l with
  | [] => True
  | x :: r => (forall y, In y r -> x < y) /\ ssorted r
  end.

Lemma ssorted_NoDup l : ssorted l -> NoDup l.
Proof.
  induction l as [|x r IH]; cbn [ssorted]; [constructor|]. intros [H1 H2]. constructor; auto.
  intros Hi. specialize (H1 x Hi). lia.
Qed.

Lemma ssorted_insert x l : ssorted l -> ssorted (insert_sorted x l).
Proof.
  induction l as [|y r IH]; cbn [insert_sorted ssorted]; [intros _; split; [intros ? []|exact I]|].
  intros [H1 H2]. destruct (x <? y) eqn:E1.
  - apply Nat.ltb_lt in E1. cbn [ssorted]. repeat split; auto.
    intros z [<-|Hz]; [exact E1|]. specialize (H1 z Hz). lia.
  - destruct (x =? y) eqn:E2; [cbn [ssorted]; auto|]. apply Nat.ltb_ge in E1. apply Nat.eqb_neq in E2.
    cbn [ssorted]. split; [|now apply IH].
    intros z Hz. apply In_insert_sorted in Hz. destruct Hz as [->|Hz]; [lia | now apply H1].
Qed.

Lemma ssorted_filter p l : ssorted l -> ssorted (filter p l).
Proof.
  induction l as [|y r IH]; cbn [filter ssorted]; [auto|]. intros [H1 H2].
  destruct (p y); [cbn [ssorted]; split; [|now apply IH] | now apply IH].
  intros z Hz. apply filter_In in Hz. now apply H1.
Qed.

Section Step.
Variable v : lg_variant.
Variable xv : ex_variant.
Variable c : fchart.

(* every transition belongs to one state and is listed once *)
Definition tdisj : Prop := NoDup (trans_of c (seq 0 (nstates c))).

Lemma st_out_of_range s : ~ In s (seq 0 (nstates c)) -> fs_trans (st c s) = [].
Proof.
  intros H. unfold st. rewrite nth_overflow; [reflexivity|].
  rewrite in_seq in H. unfold nstates in H. lia.
Qed.

Lemma In_insert_by key x a l : In a (insert_by key x l) <-> a = x \/ In a l.
Proof.
  induction l as [|y r IH]; cbn [insert_by]; [cbn; intuition|].
  destruct (key x <? key y); cbn [In]; [intuition|]. rewrite IH. intuition.
Qed.

Lemma NoDup_insert_by key x l : ~ In x l -> NoDup l -> NoDup (insert_by key x l).
Proof.
  induction l as [|y r IH]; cbn [insert_by]; intros Hn Hd; [constructor; [auto|constructor]|].
  destruct (key x <? key y); [now constructor|].
  inversion Hd as [|? ? Hny Hr]; subst. constructor.
  - rewrite In_insert_by. intros [->|Hi]; [apply Hn; now left | contradiction].
  - apply IH; [intros Hi; apply Hn; now right | exact Hr].
Qed.

Lemma cfg_postfix_NoDup cfg : NoDup cfg -> NoDup (cfg_postfix c cfg).
Proof.
  intros Hd. unfold cfg_postfix.
  set (l := filter (fun s => match fs_trans (st c s) with [] => false | _ => true end) cfg).
  assert (Hl : NoDup l) by (now apply NoDup_filter).
  assert (G : forall acc, NoDup acc -> (forall s, In s l -> ~ In s acc) ->
                          NoDup (fold_left (fun a s => insert_by (first_trans c) s a) l acc)).
  { clearbody l. induction l as [|y r IH]; intros acc Ha Hdis; cbn [fold_left]; [exact Ha|].
    inversion Hl as [|? ? Hny Hr]; subst. apply IH; [exact Hr| |].
    - apply NoDup_insert_by; [apply Hdis; now left | exact Ha].
    - intros s Hs. rewrite In_insert_by. intros [->|Hi]; [contradiction|]. apply (Hdis s); [now right | exact Hi]. }
  apply G; [constructor | intros s _ []].
Qed.

Lemma candidates_NoDup cfg : tdisj -> NoDup cfg -> NoDup (trans_of c (cfg_postfix c cfg)).
Proof.
  intros Ht Hd. unfold trans_of.
  apply (NoDup_concat_sub (fun sx => fs_trans (st c sx)) (seq 0 (nstates c))); auto using seq_NoDup, cfg_postfix_NoDup.
  intros s _. destruct (in_dec Nat.eq_dec s (seq 0 (nstates c))) as [Hi|Hn]; [now left | right; now apply st_out_of_range].
Qed.

(* the configuration stays strictly ascending *)
Lemma exit_fold_ssorted l : forall cfg x,
  ssorted cfg -> ssorted (fst (fold_left (exit_one xv c) l (cfg, x))).
Proof.
  induction l as [|i r IH]; intros cfg x H; cbn [fold_left]; [exact H|].
  unfold exit_one at 2. cbn zeta. apply IH. now apply ssorted_filter.
Qed.

Lemma enter_one_ssorted ts a i : ssorted (ea_cfg a) -> ssorted (ea_cfg (enter_one xv c ts a i)).
Proof.
  intros H. unfold enter_one. destruct (is_pseudo (fs_type (st c i))); [exact H|]. cbn zeta.
  destruct (match fs_data (st c i) with
            | [] => _
            | _ :: _ => _
            end) as [initd1 x2].
  destruct (fs_type (st c i)); cbn [ea_cfg]; now apply ssorted_insert.
Qed.

Lemma enter_fold_ssorted ts es : forall a,
  ssorted (ea_cfg a) -> ssorted (ea_cfg (fold_left (enter_one xv c ts) es a)).
Proof.
  induction es as [|i r IH]; intros a H; cbn [fold_left]; [exact H|]. apply IH. now apply enter_one_ssorted.
Qed.

Lemma microstep_ssorted l x tg ex ts ini :
  ssorted (l_cfg l) -> ssorted (l_cfg (fst (microstep v xv c l x tg ex ts ini))).
Proof.
  intros H. unfold microstep. cbn zeta.
  destruct (entry_set v c _ _ _ _ _) as [es ts'].
  destruct (fold_left (exit_one xv c) (rev ex) (l_cfg l, x)) as [cfg1 x1] eqn:Eex.
  cbn [fst l_cfg]. apply enter_fold_ssorted. cbn [ea_cfg].
  replace cfg1 with (fst (fold_left (exit_one xv c) (rev ex) (l_cfg l, x))) by (now rewrite Eex).
  now apply exit_fold_ssorted.
Qed.

Lemma select_and_step_ssorted l x ev :
  ssorted (l_cfg l) -> ssorted (l_cfg (fst (fst (select_and_step v xv c l x ev)))).
Proof.
  intros H. unfold select_and_step. cbn zeta.
  destruct (select_loop v c _ ev _ None [] x) as [sel x1].
  destruct sel as [|s0 sr]; [exact H|].
  destruct (microstep v xv c _ _ _ _ _ false) as [l1 x2] eqn:Em. cbn [fst].
  replace l1 with (fst (microstep v xv c (upd_flags l (l_spont l) false) (emit TMsB x1)
     (fold_left (fun a ti => set_union a (ft_targets (tr c ti))) (s0 :: sr) [])
     (fold_left (fun a ti => set_union a (exit_states_of v c (l_cfg (upd_flags l (l_spont l) false)) (tr c ti))) (s0 :: sr) [])
     (s0 :: sr) false)) by (now rewrite Em).
  now apply microstep_ssorted.
Qed.

Lemma large_step_ssorted l x :
  ssorted (l_cfg l) -> ssorted (l_cfg (fst (fst (large_step v xv c l x)))).
Proof.
  intros H. unfold large_step.
  destruct (l_fin l); [exact H|]. destruct (l_tlf l); [exact H|].
  destruct (is_pristine l).
  { destruct (microstep v xv c l (emit TMsB x) _ [] [] true) as [l1 x1] eqn:Em. cbn [fst].
    replace l1 with (fst (microstep v xv c l (emit TMsB x) (fs_completion (st c 0)) [] [] true)) by (now rewrite Em).
    now apply microstep_ssorted. }
  destruct (l_spont l); [now apply select_and_step_ssorted|].
  destruct (x_iq x) as [|e r].
  - destruct (negb (l_stable l)); [exact H|].
    destruct (x_eq x) as [|e r]; [destruct (l_cancelled l); exact H|].
    destruct (ev_name e); [destruct (l_cancelled l); exact H | now apply select_and_step_ssorted].
  - destruct (ev_name e); [exact H | now apply select_and_step_ssorted].
Qed.

(* ---- one step of the engine with caches ---- *)

Lemma select_and_step_c_eq l k x ev :
  tdisj -> ssorted (l_cfg l) -> cache_sound v c k ->
  let r := select_and_step_c v xv c (l, k) x ev in
  (fst (fst (fst r)), snd (fst r), snd r) = select_and_step v xv c l x ev /\ cache_sound v c (snd (fst (fst r))).
Proof.
  intros Ht Hs Hk. unfold select_and_step_c, select_and_step. cbn zeta.
  set (cfg := l_cfg (upd_flags l (l_spont l) false)).
  assert (HI : INV v c [] ss_empty k (trans_of c (cfg_postfix c cfg))).
  { apply INV_init; [exact Hk|]. apply candidates_NoDup; [exact Ht|]. now apply ssorted_NoDup. }
  destruct (select_loop_c_spec v c cfg ev _ None [] ss_empty k x HI) as [E1 E2].
  destruct (select_loop_c v c cfg ev (cfg_postfix c cfg) None [] ss_empty k x) as [[sel x1] k1].
  cbn [fst snd] in E1, E2. rewrite <- E1.
  destruct sel as [|s0 sr]; [cbn [fst snd]; auto|].
  destruct (microstep v xv c _ _ _ _ _ false) as [l1 x2]. cbn [fst snd]. auto.
Qed.

Theorem large_step_c_eq l k x :
  tdisj -> ssorted (l_cfg l) -> cache_sound v c k ->
  let r := large_step_c v xv c (l, k) x in
  (fst (fst (fst r)), snd (fst r), snd r) = large_step v xv c l x /\ cache_sound v c (snd (fst (fst r))).
Proof.
  intros Ht Hs Hk. unfold large_step_c.
  assert (Hsame : let r := (let '(l1, x1, rc) := large_step v xv c l x in ((l1, k), x1, rc)) in
                  (fst (fst (fst r)), snd (fst r), snd r) = large_step v xv c l x /\ cache_sound v c (snd (fst (fst r)))).
  { destruct (large_step v xv c l x) as [[l1 x1] rc]. cbn [fst snd]. auto. }
  destruct (l_fin l || l_tlf l || is_pristine l) eqn:E0; [exact Hsame|].
  apply orb_false_iff in E0. destruct E0 as [E0 E3]. apply orb_false_iff in E0. destruct E0 as [E1 E2].
  unfold large_step. rewrite E1, E2, E3.
  unfold large_step in Hsame. rewrite E1, E2, E3 in Hsame.
  destruct (l_spont l) eqn:Esp; [now apply select_and_step_c_eq|].
  destruct (x_iq x) as [|e r] eqn:Eiq.
  - destruct (negb (l_stable l)) eqn:Est; [exact Hsame|].
    destruct (x_eq x) as [|e r] eqn:Eq; [exact Hsame|].
    destruct (ev_name e) eqn:En; [exact Hsame | now apply select_and_step_c_eq].
  - destruct (ev_name e) eqn:En; [cbn [fst snd]; auto | now apply select_and_step_c_eq].
Qed.

(* ---- every run ---- *)

Theorem run_cached_eq : tdisj -> forall fuel l k x evs,
  ssorted (l_cfg l) -> cache_sound v c k ->
  let r := run_loop c cstate (large_step_c v xv c) (fun s => l_cfg (fst s)) fuel (l, k) x evs in
  (fst (fst r), snd r) = run_loop c lstate (large_step v xv c) l_cfg fuel l x evs /\
  cache_sound v c (snd (fst r)).
Proof.
  intros Ht. induction fuel as [|f IH]; intros l k x evs Hs Hk; cbn [run_loop]; [cbn; auto|].
  destruct (large_step_c_eq l k x Ht Hs Hk) as [E1 E2].
  pose proof (large_step_ssorted l x Hs) as Hs1.
  destruct (large_step_c v xv c (l, k) x) as [[[l1 k1] x1] rc]. cbn [fst snd] in E1, E2.
  rewrite <- E1 in *. cbn [fst snd] in Hs1.
  change (cfg_tok c cstate (fun s => l_cfg (fst s)) (l1, k1)) with (cfg_tok c lstate l_cfg l1).
  destruct (rc =? RC_FINISHED)%N; [cbn [fst snd]; auto|].
  destruct (rc =? RC_IDLE)%N.
  - destruct evs as [|e r]; [cbn [fst snd]; auto|]. now apply IH.
  - now apply IH.
Qed.

End Step.

(* ---- every chart that LargeMicroStep::init (flatten) builds has disjoint transition lists ---- *)

Lemma index_where_spec {A} (f : A -> bool) (d : A) : forall l b,
  ssorted (index_where f l b) /\
  (forall k, In k (index_where f l b) -> b <= k /\ f (nth (k - b) l d) = true).
Proof.
  induction l as [|x r IH]; intros b; cbn [index_where].
  - split; [exact I | intros k []].
  - destruct (IH (S b)) as [I1 I2]. destruct (f x) eqn:E.
    + split.
      * cbn [ssorted]. split; [|exact I1]. intros y Hy. apply I2 in Hy. lia.
      * intros k [<-|Hk].
        -- split; [lia|]. now rewrite Nat.sub_diag.
        -- destruct (I2 k Hk) as [Hb Hf]. split; [lia|].
           replace (k - b) with (S (k - S b)) by lia. exact Hf.
    + split; [exact I1|]. intros k Hk. destruct (I2 k Hk) as [Hb Hf]. split; [lia|].
      replace (k - b) with (S (k - S b)) by lia. exact Hf.
Qed.

Lemma fs_trans_flatten late t s : s < nstates (flatten late t) ->
  fs_trans (st (flatten late t) s) =
  index_where (fun x => (fst (fst x) =? s)%nat)
              (all_trans (doc_nodes (resort t) 0 None) (resort t)) 0.
Proof.
  unfold nstates, st, flatten. cbn [fc_states]. rewrite map_length, combine_length, seq_length, Nat.min_id.
  intros Hs.
  set (nodes := doc_nodes (resort t) 0 None) in *.
  set (g := fun p : tree * option nat * nat => let '(t0, parent, i) := p in _).
  rewrite (nth_indep _ dummy_state (g ((resort t, None), 0))) by (now rewrite map_length, combine_length, seq_length, Nat.min_id).
  rewrite map_nth, combine_nth by (now rewrite seq_length).
  rewrite seq_nth by exact Hs. cbn [plus].
  destruct (nth s nodes (resort t, None)) as [t1 p1]. reflexivity.
Qed.

Theorem flatten_tdisj late t : tdisj (flatten late t).
Proof.
  unfold tdisj, trans_of. apply lists_ok_NoDup_concat; [apply seq_NoDup|]. split.
  - intros s Hs. apply in_seq in Hs. rewrite fs_trans_flatten by lia.
    apply ssorted_NoDup. apply (index_where_spec _ (0, {| tt_vid := 0; tt_event := None; tt_cond := None; tt_targets := None; tt_internal := false; tt_body := [] |}, KState)).
  - intros s s' x Hs Hs' Hne Hx Hx'. apply in_seq in Hs. apply in_seq in Hs'.
    rewrite fs_trans_flatten in Hx, Hx' by lia.
    set (d := (0, {| tt_vid := 0%N; tt_event := None; tt_cond := None; tt_targets := None; tt_internal := false; tt_body := [] |}, KState)).
    apply (index_where_spec _ d) in Hx. apply (index_where_spec _ d) in Hx'.
    destruct Hx as [_ Hx], Hx' as [_ Hx']. apply Nat.eqb_eq in Hx, Hx'. congruence.
Qed.
