(* CGenRefineDoc.v -- C04, data refinement: the check of the tables (CGenRefineTables.bref_chartb) holds for the flat
   tables of EVERY document whose root element is <scxml>, <state> or <parallel> (any kinds below it, any ids, any
   `initial` attributes and transition targets, resolvable or not): every table entry LargeMicroStep::init /
   ChartToC::prepare writes is an index below the number of states, ancestors precede their state in ascending order,
   every element but the root has a parent, `parent == root` iff `ancestors == {root}`, the root's completion is
   ascending.  Built on the structural lemmas about Chart.flatten (TreeLemmas.v, FlattenWfStruct.v).  Proofs only. *)
From V Require Import Base Chart Tables TreeLemmas LargeCacheLemmas WfCore FlattenWf FlattenWfTree FlattenWfStruct.
From V Require Import NameMatch Exec Large Fast SetLemmas GenCGen CGen CGenLemmas SerializeCodecLemmas CGenRefineBits CGenRefineTables CGenRefineRun.
From Coq Require Import Lia Sorted.
Local Open Scope nat_scope.

Definition doc_root_okb (t : tree) : bool := match t_kind t with KScxml | KState | KParallel => true | _ => false end.

Lemma bref_In_filter_map {A B} (f : A -> option B) l y : In y (filter_map f l) -> exists x, In x l /\ f x = Some y.
Proof.
  induction l as [|a r IH]; cbn [filter_map]; [intros []|].
  destruct (f a) as [b|] eqn:E.
  - intros [<-|H]; [exists a; split; [now left | exact E]|]. destruct (IH H) as (x & Hx & Ex). exists x. split; [now right | exact Ex].
  - intros H. destruct (IH H) as (x & Hx & Ex). exists x. split; [now right | exact Ex].
Qed.

Lemma bref_sortedb_complete l : SerializeCodecLemmas.ssorted l -> bref_sortedb l = true.
Proof.
  induction l as [|x r IH]; intros H; [reflexivity|].
  apply ssorted_cons_inv in H as [Hr F]. destruct r as [|y r']; [reflexivity|].
  change (bref_sortedb (x :: y :: r')) with ((x <? y) && bref_sortedb (y :: r')). rewrite (IH Hr), andb_true_r. apply Nat.ltb_lt. rewrite Forall_forall in F. apply F. now left.
Qed.

Lemma bref_blt_complete n l : (forall x, In x l -> x < n) -> bref_blt n l = true.
Proof. intros H. unfold bref_blt. apply forallb_forall. intros x Hx. apply Nat.ltb_lt. now apply H. Qed.

Lemma resort_kind t : t_kind (resort t) = t_kind t.
Proof. destruct t. reflexivity. Qed.

Lemma child_indices_sorted : forall kids s,
  SerializeCodecLemmas.ssorted (child_indices kids s) /\ forall k, In k (child_indices kids s) -> s <= k.
Proof.
  induction kids as [|x r IH]; intros s; cbn [child_indices]; [split; [constructor | intros k []]|].
  destruct (IH (s + tsize x)) as [Sr Br]. pose proof (tsize_pos x) as Px. split.
  - constructor; [exact Sr|]. apply Forall_forall. intros k Hk. specialize (Br k Hk). lia.
  - intros k [<-|Hk]; [lia | specialize (Br k Hk); lia].
Qed.

Lemma filter_map_combine_sorted {A} (g : A -> bool) : forall (kids : list A) idx, SerializeCodecLemmas.ssorted idx ->
  SerializeCodecLemmas.ssorted (filter_map (fun p : A * nat => if g (fst p) then Some (snd p) else None) (combine kids idx)) /\
  forall k, In k (filter_map (fun p : A * nat => if g (fst p) then Some (snd p) else None) (combine kids idx)) -> In k idx.
Proof.
  induction kids as [|x r IH]; intros idx Si; [split; [constructor | intros k []]|].
  destruct idx as [|j idx]; [split; [constructor | intros k []]|].
  apply ssorted_cons_inv in Si as [Si F]. destruct (IH idx Si) as [Sr Br]. cbn [combine filter_map fst snd].
  destruct (g x).
  - split.
    + constructor; [exact Sr|]. apply Forall_forall. intros k Hk. rewrite Forall_forall in F. apply F, Br, Hk.
    + intros k [<-|Hk]; [now left | right; now apply Br].
  - split; [exact Sr|]. intros k Hk. right. now apply Br.
Qed.

Section Doc.
Variable late : bool.
Variable t0 : tree.
Let root := resort t0.
Let c := flatten late t0.
Let n := tsize root.
Let nodes := nodes_of root.
Hypothesis Hroot : doc_root_okb t0 = true.

Let Hn : nstates c = n := fl_nstates late t0.

Lemma doc_interval :
  (forall a, a < n -> 1 <= fs_size (st c a) /\ a + fs_size (st c a) <= n) /\
  (forall a b, b < n -> fs_parent (st c b) = Some a -> a < b /\ b < a + fs_size (st c a)) /\
  (forall b, b < n -> (fs_parent (st c b) = None <-> b = 0)) /\
  (forall a b, a < n -> (In b (fs_children (st c a)) <-> b < n /\ fs_parent (st c b) = Some a)).
Proof. destruct (tree_interval_flatten late t0) as (_ & A & _ & B & C & D & _). split; [exact A|]. split; [exact B|]. split; [exact C | exact D]. Qed.

Lemma doc_anc_eq i : i < n ->
  fs_ancestors (st c i) = match fs_parent (st c i) with Some p => insert_sorted p (fs_ancestors (st c p)) | None => [] end.
Proof.
  intros Hi. pose proof (fl_anc late t0) as H. unfold wfb_anc in H. fold c in H. rewrite Hn in H.
  rewrite forallb_forall in H. specialize (H i ltac:(apply in_seq; lia)). now apply WfCore.list_eqb_eq in H.
Qed.

Lemma doc_anc_ok : forall i, i < n ->
  (forall a, In a (fs_ancestors (st c i)) -> a < i) /\ SerializeCodecLemmas.ssorted (fs_ancestors (st c i)).
Proof.
  induction i as [i IH] using lt_wf_ind. intros Hi. rewrite (doc_anc_eq i Hi).
  destruct (fs_parent (st c i)) as [p|] eqn:Ep; [|split; [intros a [] | constructor]].
  destruct doc_interval as (_ & P & _). destruct (P p i Hi Ep) as [Hp _].
  destruct (IH p Hp ltac:(lia)) as [B Sp]. split.
  - intros a Ha. apply In_insert_sorted' in Ha as [->|Ha]; [exact Hp | specialize (B a Ha); lia].
  - now apply insert_sorted_ssorted.
Qed.

Lemma doc_type i : i < n -> fs_type (st c i) = type_of (ntree nodes i).
Proof.
  intros Hi. destruct (st_flatten late t0 i Hi) as (_ & _ & _ & _ & _ & E). fold c root in E. rewrite E.
  unfold subd. unfold nodes. now rewrite (ntree_sub root i Hi).
Qed.

Lemma doc_root_kind : doc_root_okb (ntree nodes 0) = true.
Proof. unfold nodes. rewrite (ntree_root root). unfold doc_root_okb, root. rewrite resort_kind. exact Hroot. Qed.

Lemma doc_has_parent i : i < n -> is_pseudo_kind (t_kind (ntree nodes i)) = true \/ t_kind (ntree nodes i) = KFinal ->
  exists p, fs_parent (st c i) = Some p /\ p < i.
Proof.
  intros Hi Hk. destruct doc_interval as (_ & P & Z & _).
  destruct (fs_parent (st c i)) as [p|] eqn:Ep; [exists p; split; [reflexivity | apply (P p i Hi Ep)]|].
  apply (Z i Hi) in Ep. subst i. pose proof doc_root_kind as K. unfold doc_root_okb in K.
  destruct Hk as [Hk|Hk]; destruct (t_kind (ntree nodes 0)); discriminate.
Qed.

(* ---- the id table ---- *)
Lemma doc_sid_lt s k : nat_of_sid (fl_ids t0) s = Some k -> k < n.
Proof.
  unfold nat_of_sid. destruct (find _ _) as [[s' k']|] eqn:F; [|discriminate]. intros [= <-].
  apply find_some in F as [F _]. rewrite (fl_ids_sids t0) in F. apply in_combine_r in F. apply in_seq in F. fold root n in F. lia.
Qed.

Lemma doc_ids_bounded l x : In x (filter_map (nat_of_sid (fl_ids t0)) l) -> x < n.
Proof. intros H. apply bref_In_filter_map in H as (s & _ & E). now apply doc_sid_lt in E. Qed.

(* ---- per state ---- *)
Lemma doc_children_lt i b : i < n -> In b (fs_children (st c i)) -> b < n.
Proof. intros Hi Hb. destruct doc_interval as (_ & _ & _ & D). apply (D i b Hi) in Hb. tauto. Qed.

Lemma doc_children_eq i : i < n -> fs_children (st c i) = child_indices (t_kids (ntree nodes i)) (S i).
Proof.
  intros Hi. destruct (st_flatten late t0 i Hi) as (_ & E & _). fold c root in E. rewrite E.
  unfold subd, nodes. now rewrite (ntree_sub root i Hi).
Qed.

Lemma doc_size_eq i : i < n -> fs_size (st c i) = tsize (ntree nodes i).
Proof.
  intros Hi. destruct (st_flatten late t0 i Hi) as (_ & _ & _ & E & _). fold c root in E. rewrite E.
  unfold subd, nodes. now rewrite (ntree_sub root i Hi).
Qed.

Lemma doc_completion_lt i x : i < n -> In x (fs_completion (st c i)) -> x < n.
Proof.
  intros Hi Hx. unfold c in Hx. rewrite (fl_completion late t0 i Hi) in Hx. fold root nodes in Hx.
  assert (Kid : forall p : tree * nat, In p (combine (t_kids (ntree nodes i)) (child_indices (t_kids (ntree nodes i)) (S i))) -> snd p < n).
  { intros [u k] Hp. apply in_combine_r in Hp. cbn [snd]. rewrite <- (doc_children_eq i Hi) in Hp. now apply (doc_children_lt i). }
  unfold completion_of in Hx.
  destruct (t_kind (ntree nodes i)) eqn:Ek; cbv beta iota in Hx.
  1,2,4,7: (destruct (t_initattr (ntree nodes i)) as [l|];
            [apply (proj1 (In_set_of_list _ _)) in Hx; now apply (doc_ids_bounded l)|];
            match type of Hx with context [match ?f with Some _ => _ | None => _ end] => destruct f as [p|] eqn:F1 end;
            [destruct Hx as [<-|[]]; apply find_some in F1 as [F1 _]; now apply Kid|];
            match type of Hx with context [match ?f with Some _ => _ | None => _ end] => destruct f as [p|] eqn:F2 end;
            [|now destruct Hx];
            destruct Hx as [<-|[]]; apply find_some in F2 as [F2 _]; now apply Kid).
  - (* parallel *)
    apply bref_In_filter_map in Hx as (p & Hp & E). destruct (is_proper_kind _); [|discriminate]. inversion E; subst. now apply Kid.
  - (* shallow history *)
    destruct (npar nodes i) as [q|]; [|destruct Hx].
    apply bref_In_filter_map in Hx as (j & Hj & E). apply in_seq in Hj. rewrite doc_nodes_length in Hj. fold n in Hj.
    destruct (nth j _ _) as [tj [pj|]]; [|discriminate]. destruct (_ && _); [|discriminate]. inversion E; subst. lia.
  - (* deep history *)
    destruct (npar nodes i) as [q|] eqn:Eq; [|destruct Hx].
    apply filter_In in Hx as [Hx _]. apply in_seq in Hx.
    assert (Pq : fs_parent (st c i) = Some q).
    { pose proof (snd_nodes_parent late t0 i Hi) as SP. fold root nodes c in SP. rewrite <- SP. unfold npar, nd in Eq.
      rewrite (nth_indep _ (root, None) (dummy_tree, None)) by (unfold nodes; rewrite nodes_length; exact Hi). exact Eq. }
    destruct doc_interval as (Sz & P & _). destruct (P q i Hi Pq) as [Hq _].
    assert (Hqn : q < n) by lia. destruct (Sz q Hqn) as [_ Sq]. rewrite (doc_size_eq q Hqn) in Sq.
    assert (Et : fst (nth q (doc_nodes root 0 None) (ntree nodes i, None)) = ntree nodes q).
    { rewrite (nth_indep _ _ (root, None)) by (rewrite doc_nodes_length; exact Hqn).
      pose proof (nth_nodes_ntree t0 q Hqn) as NN. fold root nodes in NN. now rewrite NN. }
    rewrite Et in Hx. lia.
Qed.

Lemma doc_final_anc i p : i < n -> fs_parent (st c i) = Some p ->
  list_eqb (fs_ancestors (st c i)) [0] = (p =? 0).
Proof.
  intros Hi Ep. rewrite (doc_anc_eq i Hi), Ep. destruct doc_interval as (_ & P & Z & _).
  destruct (P p i Hi Ep) as [Hp _]. assert (Hpn : p < n) by lia.
  destruct (Nat.eq_dec p 0) as [->|Hne].
  - rewrite (doc_anc_eq 0 Hpn). rewrite (proj2 (Z 0 Hpn) eq_refl). reflexivity.
  - assert (E : (p =? 0) = false) by now apply Nat.eqb_neq. rewrite E.
    destruct (list_eqb (insert_sorted p (fs_ancestors (st c p))) [0]) eqn:L; [|reflexivity].
    apply CGenLemmas.list_eqb_eq in L. assert (X : In p (insert_sorted p (fs_ancestors (st c p)))) by (apply In_insert_sorted'; now left).
    rewrite L in X. destruct X as [X|[]]. congruence.
Qed.

Lemma doc_state_ok i : i < n -> bref_state_okb c i = true.
Proof.
  intros Hi. unfold bref_state_okb. cbv zeta. rewrite Hn. destruct (doc_anc_ok i Hi) as [Ba Sa].
  rewrite (bref_blt_complete n _ (fun b => doc_children_lt i b Hi)).
  rewrite (bref_blt_complete n _ (fun x => doc_completion_lt i x Hi)).
  rewrite (bref_blt_complete i _ Ba), (bref_sortedb_complete _ Sa). cbn [andb].
  rewrite (doc_type i Hi).
  assert (HP : is_hist (type_of (ntree nodes i)) || bref_is_final (type_of (ntree nodes i)) = true ->
               exists p, fs_parent (st c i) = Some p /\ p < i).
  { intros K. apply (doc_has_parent i Hi). unfold type_of in K. destruct (t_kind (ntree nodes i)); cbn in K |- *; auto; try discriminate;
      destruct (has_proper_child _); discriminate. }
  apply andb_true_iff. split.
  - destruct (is_hist (type_of (ntree nodes i)) || bref_is_final (type_of (ntree nodes i))) eqn:K; [|reflexivity].
    destruct (HP eq_refl) as (p & Ep & _). unfold bref_has_parent. now rewrite Ep.
  - destruct (type_of (ntree nodes i)) eqn:Et; try reflexivity.
    destruct (HP ltac:(reflexivity)) as (p & Ep & _). rewrite Ep. rewrite (doc_final_anc i p Hi Ep). apply Bool.eqb_reflx.
Qed.

(* ---- per transition ---- *)
Lemma doc_trs_kind ti : ti < length (trs t0) ->
  fst (fst (nth ti (trs t0) dtr)) < n /\ snd (nth ti (trs t0) dtr) = t_kind (ntree nodes (fst (fst (nth ti (trs t0) dtr)))).
Proof.
  intros Hti. pose proof (nth_In (trs t0) dtr Hti) as Hin. unfold trs at 2 in Hin. unfold all_trans in Hin.
  apply in_flat_map in Hin. destruct Hin as (i & Hi & Hx). apply postfix_states_lt in Hi. fold root n in Hi.
  rewrite (nth_nodes_ntree t0 i Hi) in Hx. cbn [fst] in Hx. apply in_map_iff in Hx. destruct Hx as (x & E & Hx).
  rewrite <- E. cbn [fst snd]. split; [exact Hi | reflexivity].
Qed.

Lemma doc_trans_ok j : j < ntrans c -> bref_trans_okb c j = true.
Proof.
  intros Hj. unfold c in Hj. rewrite (fl_ntrans late t0) in Hj. unfold bref_trans_okb. cbv zeta. rewrite Hn.
  unfold c. rewrite (fl_tr late t0 j Hj). cbn [mk_trans ft_targets ft_history ft_initial ft_source].
  destruct (doc_trs_kind j Hj) as [Hs Ek]. apply andb_true_iff. split.
  - apply bref_blt_complete. intros x Hx. destruct (tt_targets _) as [l|]; [now apply (doc_ids_bounded l) | destruct Hx].
  - destruct (is_hist_kind (snd (nth j (trs t0) dtr)) || match snd (nth j (trs t0) dtr) with KInitial => true | _ => false end) eqn:K; [|reflexivity].
    destruct (doc_has_parent _ Hs) as (p & Ep & _).
    { left. rewrite <- Ek. destruct (snd (nth j (trs t0) dtr)); cbn in K |- *; auto; discriminate. }
    unfold bref_has_parent. fold c. now rewrite Ep.
Qed.

(* ---- the root ---- *)
Lemma doc_root_type : is_hist (fs_type (st c 0)) = false.
Proof.
  pose proof (tsize_pos root) as Hp. fold n in Hp. rewrite (doc_type 0 Hp). pose proof doc_root_kind as K.
  unfold doc_root_okb in K. unfold type_of. destruct (t_kind (ntree nodes 0)); try discriminate; try reflexivity;
    destruct (has_proper_child _); reflexivity.
Qed.

Lemma doc_root_completion_sorted : SerializeCodecLemmas.ssorted (fs_completion (st c 0)).
Proof.
  pose proof (tsize_pos root) as Hp. fold n in Hp. unfold c. rewrite (fl_completion late t0 0 Hp). fold root nodes.
  pose proof doc_root_kind as K. unfold doc_root_okb in K. unfold completion_of.
  destruct (t_kind (ntree nodes 0)) eqn:Ek; try discriminate.
  1,2: (destruct (t_initattr (ntree nodes 0)) as [l|]; [apply set_of_list_ssorted|];
        destruct (find _ _) as [p|]; [repeat constructor|]; destruct (find _ _) as [p|]; repeat constructor).
  apply (filter_map_combine_sorted (fun u => is_proper_kind (t_kind u))). apply child_indices_sorted.
Qed.

Theorem bref_chartb_flatten : bref_chartb c = true.
Proof.
  unfold bref_chartb. pose proof (flatten_idx_ok late t0) as IX. fold c in IX. rewrite IX. cbn [andb].
  assert (A : forallb (bref_state_okb c) (seq 0 (nstates c)) = true).
  { apply forallb_forall. intros i Hi. apply in_seq in Hi. apply doc_state_ok. rewrite <- Hn. lia. }
  assert (B : forallb (bref_trans_okb c) (seq 0 (ntrans c)) = true).
  { apply forallb_forall. intros j Hj. apply in_seq in Hj. apply doc_trans_ok. lia. }
  rewrite A, B, (bref_sortedb_complete _ doc_root_completion_sorted), doc_root_type. reflexivity.
Qed.

End Doc.

(* the byte-level run of the harness is the set-level run, for every document with fewer than 2^24 states and transitions
   whose root is no pseudo-state and no <final> *)
Theorem run_bgen_is_run_cgen_document cv (t : tree) (evs : list bytes) (fuel : nat) :
  let c := flatten false t in
  (N.of_nat (nstates c) < 2 ^ 24)%N -> (N.of_nat (ntrans c) < 2 ^ 24)%N -> doc_root_okb t = true ->
  run_bgen cv t evs fuel = (run_cgen cv t evs fuel, BEnd).
Proof.
  intros c Hs Ht Hr. apply CGenRefineRun.run_bgen_is_run_cgen; [exact Hs | exact Ht|]. now apply bref_chartb_flatten.
Qed.
