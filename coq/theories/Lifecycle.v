(* Lifecycle.v -- model of the interpreter life-cycle (C10).  Model only; proofs are in
   LifecycleLemmas.v.

   (a) sequential API model: InterpreterImpl::{step,reset,cancel,~InterpreterImpl}, Interpreter::receive
       (src/uscxml/interpreter/InterpreterImpl.cpp:89-160, 339-427, InterpreterImpl.h:166-171,
       Interpreter.cpp:242) around the step control flow shared by LargeMicroStep::step (529-652,
       805-813) and FastMicroStep::step (797-995): the chart is an oracle ([chart]) answering
       "which micro-step does this configuration take for this event, if any".
   (b) the timer thread tear-down protocol BasicDelayedEventQueue::{run,stop} (129-172) as a
       small-step system of two threads and an environment (timer expiry).
   (c) cancel() against a step() blocked in dequeueExternal as a small-step system.

   The points at which the pinned code deviates from the property are fields of variant records,
   so that the same model covers the pinned and the repaired code. *)
From V Require Import Base GenFlags.
Local Open Scope N_scope.

(* ------------------------------------------------------------------------------------------ *)
(** * Results of step(), flags                                                                  *)

(* enum InterpreterState (values: GenFlags.IST_* ) *)
Inductive sres := R_FINISHED | R_UNDEF | R_IDLE | R_INITIALIZED | R_INSTANTIATED
                | R_MICROSTEPPED | R_MACROSTEPPED | R_CANCELLED.

Definition sres_code (r : sres) : Z :=
  match r with
  | R_FINISHED => IST_FINISHED | R_UNDEF => IST_UNDEF | R_IDLE => IST_IDLE
  | R_INITIALIZED => IST_INITIALIZED | R_INSTANTIATED => IST_INSTANTIATED
  | R_MICROSTEPPED => IST_MICROSTEPPED | R_MACROSTEPPED => IST_MACROSTEPPED
  | R_CANCELLED => IST_CANCELLED
  end.

Definition all_sres : list sres :=
  [R_FINISHED; R_UNDEF; R_IDLE; R_INITIALIZED; R_INSTANTIATED; R_MICROSTEPPED; R_MACROSTEPPED; R_CANCELLED].

Definition sres_eqb (a b : sres) : bool :=
  match a, b with
  | R_FINISHED, R_FINISHED | R_UNDEF, R_UNDEF | R_IDLE, R_IDLE | R_INITIALIZED, R_INITIALIZED
  | R_INSTANTIATED, R_INSTANTIATED | R_MICROSTEPPED, R_MICROSTEPPED
  | R_MACROSTEPPED, R_MACROSTEPPED | R_CANCELLED, R_CANCELLED => true
  | _, _ => false
  end.

(* The micro-steppers' `_flags` word.  The model keeps one boolean per USCXML_CTX_* bit;
   [fl_encode] is the word the C++ holds.  That the bits are pairwise disjoint (so that the word
   and the record determine each other) is lemma ctx_flags_disjoint / fl_encode_inj about the
   generated constants. *)
Record flags := {
  fl_spont  : bool;   (* USCXML_CTX_SPONTANEOUS *)
  fl_init   : bool;   (* USCXML_CTX_INITIALIZED *)
  fl_tlf    : bool;   (* USCXML_CTX_TOP_LEVEL_FINAL *)
  fl_found  : bool;   (* USCXML_CTX_TRANSITION_FOUND *)
  fl_fin    : bool;   (* USCXML_CTX_FINISHED *)
  fl_stable : bool    (* USCXML_CTX_STABLE *)
}.

Definition fl_pristine : flags :=
  {| fl_spont := false; fl_init := false; fl_tlf := false; fl_found := false; fl_fin := false; fl_stable := false |}.

Definition bitv (b : bool) (v : N) : N := if b then v else 0.

Definition fl_encode (f : flags) : N :=
  N.lor (bitv (fl_spont f) CTX_SPONTANEOUS)
  (N.lor (bitv (fl_init f) CTX_INITIALIZED)
  (N.lor (bitv (fl_tlf f) CTX_TOP_LEVEL_FINAL)
  (N.lor (bitv (fl_found f) CTX_TRANSITION_FOUND)
  (N.lor (bitv (fl_fin f) CTX_FINISHED)
         (bitv (fl_stable f) CTX_STABLE))))).

(* `_flags == USCXML_CTX_PRISTINE` *)
Definition fl_is_pristine (f : flags) : bool := fl_encode f =? CTX_PRISTINE.

Definition set_spont (f : flags) (b : bool) : flags :=
  {| fl_spont := b; fl_init := fl_init f; fl_tlf := fl_tlf f; fl_found := fl_found f; fl_fin := fl_fin f; fl_stable := fl_stable f |}.
Definition set_init (f : flags) (b : bool) : flags :=
  {| fl_spont := fl_spont f; fl_init := b; fl_tlf := fl_tlf f; fl_found := fl_found f; fl_fin := fl_fin f; fl_stable := fl_stable f |}.
Definition set_tlf (f : flags) (b : bool) : flags :=
  {| fl_spont := fl_spont f; fl_init := fl_init f; fl_tlf := b; fl_found := fl_found f; fl_fin := fl_fin f; fl_stable := fl_stable f |}.
Definition set_found (f : flags) (b : bool) : flags :=
  {| fl_spont := fl_spont f; fl_init := fl_init f; fl_tlf := fl_tlf f; fl_found := b; fl_fin := fl_fin f; fl_stable := fl_stable f |}.
Definition set_fin (f : flags) (b : bool) : flags :=
  {| fl_spont := fl_spont f; fl_init := fl_init f; fl_tlf := fl_tlf f; fl_found := fl_found f; fl_fin := b; fl_stable := fl_stable f |}.
Definition set_stable (f : flags) (b : bool) : flags :=
  {| fl_spont := fl_spont f; fl_init := fl_init f; fl_tlf := fl_tlf f; fl_found := fl_found f; fl_fin := fl_fin f; fl_stable := b |}.

(* ------------------------------------------------------------------------------------------ *)
(** * (a) The sequential API model                                                              *)

(* What a step makes observable besides its result: executable content that ran (<log> labels)
   and the completion callbacks. *)
Inductive logitem := LBefore | LAfter | LLog (l : N).

Definition logitem_eqb (a b : logitem) : bool :=
  match a, b with
  | LBefore, LBefore | LAfter, LAfter => true
  | LLog x, LLog y => x =? y
  | _, _ => false
  end.

Fixpoint log_eqb (a b : list logitem) : bool :=
  match a, b with
  | [], [] => true
  | x :: a', y :: b' => logitem_eqb x y && log_eqb a' b'
  | _, _ => false
  end.

Fixpoint nlist_eqb (a b : list N) : bool :=
  match a, b with
  | [], [] => true
  | x :: a', y :: b' => (x =? y) && nlist_eqb a' b'
  | _, _ => false
  end.

(* Event names are numbers; 0 is the empty name (`Event()`, for which `operator bool` is false:
   the unblock event of cancel()). *)
Definition ev := N.

Section Chart.
  Variable C : Type.     (* configurations (with whatever the datamodel holds) *)

  (* one micro-step of the chart *)
  Record mstep := {
    ms_cfg    : C;            (* configuration afterwards *)
    ms_log    : list N;       (* <log> labels executed (onexit, transition, onentry), in order *)
    ms_raised : list ev;      (* events appended to the internal queue *)
    ms_tlf    : bool          (* a top-level <final> was entered *)
  }.

  (* the chart as an oracle *)
  Record chart := {
    ch_initial : mstep;                         (* entering the initial configuration *)
    ch_select  : C -> option ev -> option mstep;(* optimal enabled transition set for the event
                                                   (None: eventless), None if there is none *)
    ch_exits   : C -> list N                    (* onexit <log> labels of the active states, in
                                                   document order *)
  }.

  (* Points where the pinned code deviates. *)
  Record lc_variant := {
    lv_lazy_queues       : bool;  (* micro-stepper and queues are created in init() (first step);
                                     receive()/cancel() dereference them unconditionally *)
    lv_reset_keeps_queue : bool   (* reset() leaves the external and internal queue untouched *)
  }.
  Definition lc_pinned : lc_variant := {| lv_lazy_queues := true;  lv_reset_keeps_queue := true |}.
  Definition lc_fixed  : lc_variant := {| lv_lazy_queues := false; lv_reset_keeps_queue := false |}.

  Record stepper := {
    m_flags     : flags;
    m_cancelled : bool;          (* _isCancelled *)
    m_cfg       : option C       (* _configuration; None = cleared *)
  }.
  Definition new_stepper : stepper := {| m_flags := fl_pristine; m_cancelled := false; m_cfg := None |}.

  Record queues := { q_ext : list ev; q_int : list ev }.
  Definition new_queues : queues := {| q_ext := []; q_int := [] |}.

  Record istate := {
    i_init    : bool;             (* InterpreterImpl::_isInitialized *)
    i_state   : sres;             (* InterpreterImpl::_state (getState()) *)
    i_stepper : option stepper;   (* _microStepper (None: null handle) *)
    i_queues  : option queues     (* _externalQueue/_internalQueue/_delayQueue (None: null) *)
  }.

  Definition fresh (v : lc_variant) : istate :=
    if lv_lazy_queues v
    then {| i_init := false; i_state := R_INSTANTIATED; i_stepper := None; i_queues := None |}
    else {| i_init := false; i_state := R_INSTANTIATED; i_stepper := Some new_stepper; i_queues := Some new_queues |}.

  Inductive outcome (A : Type) := Ok (a : A) | Crash (why : N).
  Arguments Ok {A} a.
  Arguments Crash {A} why.
  Definition crash_null_stepper : N := 1.
  Definition crash_null_queue : N := 2.

  Definition exits_of (ch : chart) (c : option C) : list N :=
    match c with Some c => ch_exits ch c | None => [] end.

  (* ESTABLISH_ENTRYSET ... end of step: the chart's micro-step is applied *)
  Definition apply_micro (m : stepper) (q : queues) (f : flags) (r : mstep)
    : stepper * queues * sres * list logitem :=
    ({| m_flags := if ms_tlf r then set_tlf f true else f;
        m_cancelled := m_cancelled m; m_cfg := Some (ms_cfg r) |},
     {| q_ext := q_ext q; q_int := q_int q ++ ms_raised r |},
     R_MICROSTEPPED, map LLog (ms_log r)).

  (* label SELECT_TRANSITIONS *)
  Definition select (ch : chart) (m : stepper) (q : queues) (e : option ev)
    : stepper * queues * sres * list logitem :=
    let f1 := set_stable (m_flags m) false in
    match (match m_cfg m with Some c => ch_select ch c e | None => None end) with
    | Some r =>
        (* _flags |= TRANSITION_FOUND; ...; _flags |= SPONTANEOUS; _flags &= ~TRANSITION_FOUND *)
        apply_micro m q (set_found (set_spont f1 true) false) r
    | None =>
        (* nothing enabled: after an event the event-less transitions are selected once more before the next
           event is dequeued (the event is bound to _event now); after an event-less selection the engine goes
           on to the queues *)
        ({| m_flags := set_spont f1 (match e with Some _ => true | None => false end);
            m_cancelled := m_cancelled m; m_cfg := m_cfg m |},
         q, R_MICROSTEPPED, [])
    end.

  (* after dequeueExternal returned a false event (none, or one with an empty name) *)
  Definition after_dequeue (m : stepper) (q : queues) : stepper * queues * sres * list logitem :=
    if m_cancelled m
    then ({| m_flags := set_tlf (m_flags m) true; m_cancelled := true; m_cfg := m_cfg m |}, q, R_CANCELLED, [])
    else (m, q, R_IDLE, []).

  (* {Large,Fast}MicroStep::step(0) for an initialised micro-stepper *)
  Definition ms_step (ch : chart) (m : stepper) (q : queues) : stepper * queues * sres * list logitem :=
    let f := m_flags m in
    if fl_fin f then (m, q, R_FINISHED, [])
    else if fl_tlf f then
      ({| m_flags := set_fin f true; m_cancelled := m_cancelled m; m_cfg := m_cfg m |}, q, R_FINISHED,
       LBefore :: map LLog (rev (exits_of ch (m_cfg m))) ++ [LAfter])
    else if fl_is_pristine f then
      apply_micro m q (set_init (set_spont f true) true) (ch_initial ch)
    else if fl_spont f then select ch m q None
    else match q_int q with
    | e :: iq => select ch m {| q_ext := q_ext q; q_int := iq |} (Some e)
    | [] =>
      if negb (fl_stable f) then
        ({| m_flags := set_stable f true; m_cancelled := m_cancelled m; m_cfg := m_cfg m |}, q, R_MACROSTEPPED, [])
      else match q_ext q with
      | e :: eq =>
          let q' := {| q_ext := eq; q_int := q_int q |} in
          if e =? 0 then after_dequeue m q' else select ch m q' (Some e)
      | [] => after_dequeue m q
      end
    end.

  (* InterpreterImpl::step(0) *)
  Definition lc_step (ch : chart) (s : istate) : outcome (istate * sres * list logitem) :=
    if negb (i_init s) then
      (* init(): creates what does not exist yet; _microStepper.init() leaves flags alone *)
      let m := match i_stepper s with Some m => m | None => new_stepper end in
      let q := match i_queues s with Some q => q | None => new_queues end in
      Ok ({| i_init := true; i_state := R_INITIALIZED; i_stepper := Some m; i_queues := Some q |},
          R_INITIALIZED, [])
    else
      match i_stepper s, i_queues s with
      | Some m, Some q =>
          let '(m', q', r, l) := ms_step ch m q in
          Ok ({| i_init := true; i_state := r; i_stepper := Some m'; i_queues := Some q' |}, r, l)
      | None, _ => Crash crash_null_stepper
      | _, None => Crash crash_null_queue
      end.

  (* Interpreter::receive -> InterpreterImpl::enqueueExternal *)
  Definition lc_receive (e : ev) (s : istate) : outcome istate :=
    match i_queues s with
    | Some q => Ok {| i_init := i_init s; i_state := i_state s; i_stepper := i_stepper s;
                      i_queues := Some {| q_ext := q_ext q ++ [e]; q_int := q_int q |} |}
    | None => Crash crash_null_queue
    end.

  (* InterpreterImpl::cancel: markAsCancelled, then the empty unblock event *)
  Definition lc_cancel (s : istate) : outcome istate :=
    match i_stepper s with
    | None => Crash crash_null_stepper
    | Some m =>
      let m' := {| m_flags := m_flags m; m_cancelled := true; m_cfg := m_cfg m |} in
      lc_receive 0 {| i_init := i_init s; i_state := i_state s; i_stepper := Some m'; i_queues := i_queues s |}
    end.

  (* InterpreterImpl::reset, {Large,Fast}MicroStep::reset *)
  Definition lc_reset (v : lc_variant) (s : istate) : istate :=
    {| i_init := false; i_state := R_INSTANTIATED;
       i_stepper := match i_stepper s with Some _ => Some new_stepper | None => None end;
       i_queues := if lv_reset_keeps_queue v then i_queues s
                   else match i_queues s with Some _ => Some new_queues | None => None end |}.

  Inductive op := OpStep | OpReceive (e : ev) | OpCancel | OpReset | OpDestroy.

  (* what a caller observes of one call; [ObStep r log exits]: result, content that ran, and the
     labelled states of the configuration afterwards *)
  Inductive ob := ObStep (r : sres) (log : list logitem) (cfg : list N)
                | ObOk | ObState (st : sres) | ObDestroyed | ObCrash | ObHang.

  (* run a sequence of calls; observations until the end, a crash, or destruction *)
  Fixpoint lc_run (v : lc_variant) (ch : chart) (s : istate) (ops : list op) : list ob :=
    match ops with
    | [] => []
    | OpStep :: r =>
        match lc_step ch s with
        | Ok (s', res, l) =>
            ObStep res l (exits_of ch (match i_stepper s' with Some m => m_cfg m | None => None end))
              :: lc_run v ch s' r
        | Crash _ => [ObCrash]
        end
    | OpReceive e :: r =>
        match lc_receive e s with Ok s' => ObOk :: lc_run v ch s' r | Crash _ => [ObCrash] end
    | OpCancel :: r =>
        match lc_cancel s with Ok s' => ObOk :: lc_run v ch s' r | Crash _ => [ObCrash] end
    | OpReset :: r => let s' := lc_reset v s in ObState (i_state s') :: lc_run v ch s' r
    | OpDestroy :: _ => [ObDestroyed]
    end.

  (* what a caller sees of a fresh interpreter driven through [ops]: getState(), then the calls *)
  Definition lc_observe (v : lc_variant) (ch : chart) (ops : list op) : list ob :=
    ObState (i_state (fresh v)) :: lc_run v ch (fresh v) ops.

  (* the state after a crash-free prefix (None after a crash or destruction) *)
  Fixpoint lc_exec (v : lc_variant) (ch : chart) (s : istate) (ops : list op) : option istate :=
    match ops with
    | [] => Some s
    | OpStep :: r => match lc_step ch s with Ok (s', _, _) => lc_exec v ch s' r | Crash _ => None end
    | OpReceive e :: r => match lc_receive e s with Ok s' => lc_exec v ch s' r | Crash _ => None end
    | OpCancel :: r => match lc_cancel s with Ok s' => lc_exec v ch s' r | Crash _ => None end
    | OpReset :: r => lc_exec v ch (lc_reset v s) r
    | OpDestroy :: _ => None
    end.
End Chart.

Arguments Ok {A} a.
Arguments Crash {A} why.
Arguments ms_cfg {C}. Arguments ms_log {C}. Arguments ms_raised {C}. Arguments ms_tlf {C}.
Arguments ch_initial {C}. Arguments ch_select {C}. Arguments ch_exits {C}.
Arguments m_flags {C}. Arguments m_cancelled {C}. Arguments m_cfg {C}.
Arguments i_init {C}. Arguments i_state {C}. Arguments i_stepper {C}. Arguments i_queues {C}.
Arguments new_stepper {C}.
Arguments fresh {C}. Arguments lc_step {C}. Arguments lc_receive {C}. Arguments lc_cancel {C}.
Arguments lc_reset {C}. Arguments lc_observe {C}. Arguments lc_run {C}. Arguments lc_exec {C}. Arguments ms_step {C}.
Arguments select {C}. Arguments apply_micro {C}. Arguments after_dequeue {C}. Arguments exits_of {C}.

(* ------------------------------------------------------------------------------------------ *)
(** * Property oracles on observed behaviour (they judge the implementation's output)            *)

(* The life-cycle language INSTANTIATED? INITIALIZED (MICROSTEPPED|MACROSTEPPED|IDLE)*
   (CANCELLED)? FINISHED^omega as an automaton over the results of step() (and of getState()
   before the first step); every state is accepting (finite observations are prefixes), a missing
   edge rejects.  reset() restarts it. *)
Inductive lstate := L_START | L_INSTANTIATED | L_RUNNING | L_CANCELLED | L_FINISHED.

Definition l_next (q : lstate) (r : sres) : option lstate :=
  match q, r with
  | L_START, R_INSTANTIATED => Some L_INSTANTIATED
  | L_START, R_INITIALIZED | L_INSTANTIATED, R_INITIALIZED => Some L_RUNNING
  | L_RUNNING, R_MICROSTEPPED | L_RUNNING, R_MACROSTEPPED | L_RUNNING, R_IDLE => Some L_RUNNING
  | L_RUNNING, R_CANCELLED => Some L_CANCELLED
  | L_RUNNING, R_FINISHED | L_CANCELLED, R_FINISHED | L_FINISHED, R_FINISHED => Some L_FINISHED
  | _, _ => None
  end.

Fixpoint l_accepts (q : lstate) (w : list sres) : bool :=
  match w with
  | [] => true
  | r :: w' => match l_next q r with Some q' => l_accepts q' w' | None => false end
  end.

(* over observations: getState() after construction / reset() is a letter, reset() restarts *)
Fixpoint lifecycle_regex_from (q : lstate) (obs : list ob) : bool :=
  match obs with
  | [] => true
  | ObStep r _ _ :: t => match l_next q r with Some q' => lifecycle_regex_from q' t | None => false end
  | ObState st :: t => match l_next L_START st with Some q' => lifecycle_regex_from q' t | None => false end
  | (ObOk | ObDestroyed | ObCrash | ObHang) :: t => lifecycle_regex_from q t
  end.
Definition lifecycle_regexb (obs : list ob) : bool := lifecycle_regex_from L_START obs.

(* no call crashed or hung *)
Fixpoint no_crashb (obs : list ob) : bool :=
  match obs with
  | [] => true
  | (ObCrash | ObHang) :: _ => false
  | _ :: t => no_crashb t
  end.

(* finished is absorbing and quiet: after a step returned FINISHED, every later step (until a
   reset) returns FINISHED and runs nothing *)
Fixpoint finished_quietb (fin : bool) (obs : list ob) : bool :=
  match obs with
  | [] => true
  | ObStep r l _ :: t =>
      if fin then sres_eqb r R_FINISHED && log_eqb l [] && finished_quietb true t
      else finished_quietb (sres_eqb r R_FINISHED) t
  | ObState _ :: t => finished_quietb false t
  | _ :: t => finished_quietb fin t
  end.

(* completion: the step that first returns FINISHED runs exactly the onexit handlers of the
   configuration the previous step left, innermost (last in document order) first, between the
   beforeCompletion/afterCompletion callbacks; no other step runs a completion callback.
   [prev]: labelled configuration after the previous step of this epoch. *)
Definition has_marker (l : list logitem) : bool :=
  existsb (fun x => match x with LBefore | LAfter => true | LLog _ => false end) l.

Fixpoint completion_okb (fin : bool) (prev : list N) (obs : list ob) : bool :=
  match obs with
  | [] => true
  | ObStep r l cfg :: t =>
      (if sres_eqb r R_FINISHED && negb fin
       then log_eqb l (LBefore :: map LLog (rev prev) ++ [LAfter])
       else negb (has_marker l))
      && completion_okb (fin || sres_eqb r R_FINISHED) cfg t
  | ObState _ :: t => completion_okb false [] t
  | _ :: t => completion_okb fin prev t
  end.

(* cancel(): from the call on (until a reset) no step returns IDLE -- a blocking step would not
   block -- and CANCELLED is returned at most once *)
Fixpoint cancel_okb (cancelled seen : bool) (ops : list op) (obs : list ob) : bool :=
  match ops, obs with
  | o :: ops', b :: obs' =>
      match o, b with
      | OpCancel, ObOk => cancel_okb true seen ops' obs'
      | OpReset, _ => cancel_okb false false ops' obs'
      | OpStep, ObStep r _ _ =>
          negb (cancelled && sres_eqb r R_IDLE) && negb (seen && sres_eqb r R_CANCELLED)
          && cancel_okb cancelled (seen || sres_eqb r R_CANCELLED) ops' obs'
      | _, _ => cancel_okb cancelled seen ops' obs'
      end
  | _, _ => true
  end.

(* the conjunction the check applies to every observed run; [obs] starts with the getState() of
   the fresh interpreter, then one observation per call *)
Definition lifecycle_okb (ops : list op) (obs : list ob) : bool :=
  no_crashb obs && lifecycle_regexb obs && finished_quietb false obs
  && completion_okb false [] obs
  && match obs with ObState _ :: t => cancel_okb false false ops t | _ => false end.

(* observational equality of runs (reset_like_fresh compares the run after reset() with the run
   of a fresh interpreter) *)
Definition ob_eqb (a b : ob) : bool :=
  match a, b with
  | ObStep r l c, ObStep r' l' c' => sres_eqb r r' && log_eqb l l' && nlist_eqb c c'
  | ObOk, ObOk | ObDestroyed, ObDestroyed | ObCrash, ObCrash | ObHang, ObHang => true
  | ObState s, ObState s' => sres_eqb s s'
  | _, _ => false
  end.
Fixpoint obs_eqb (a b : list ob) : bool :=
  match a, b with
  | [], [] => true
  | x :: a', y :: b' => ob_eqb x y && obs_eqb a' b'
  | _, _ => false
  end.

(* ------------------------------------------------------------------------------------------ *)
(** * Table charts (configurations are numbers): what the correspondence driver instantiates    *)

Record trow := { tr_cfg : N; tr_ev : option ev; tr_res : mstep N }.

Fixpoint tbl_select (rows : list trow) (c : N) (e : option ev) : option (mstep N) :=
  match rows with
  | [] => None
  | r :: t =>
      if (tr_cfg r =? c) && (match tr_ev r, e with
                             | None, None => true
                             | Some a, Some b => a =? b
                             | _, _ => false end)
      then Some (tr_res r) else tbl_select t c e
  end.

Fixpoint tbl_exits (rows : list (N * list N)) (c : N) : list N :=
  match rows with
  | [] => []
  | (k, l) :: t => if k =? c then l else tbl_exits t c
  end.

Definition table_chart (init : mstep N) (rows : list trow) (exits : list (N * list N)) : chart N :=
  {| ch_initial := init; ch_select := tbl_select rows; ch_exits := tbl_exits exits |}.

(* ------------------------------------------------------------------------------------------ *)
(** * (b) Tear-down of the timer thread: BasicDelayedEventQueue::run against ::stop              *)

(* run():  r1  read _isStarted (while condition)         [point delay.run.started_checked]
           r2  enter event_base_loop(EVLOOP_ONCE): libevent clears event_break on entry
           r3  inside the loop: leave if event_break is set; else run the callbacks of expired
               timers / activated events and leave (EVLOOP_ONCE); else block in the dispatcher
           r4  back in run(), next iteration
   stop(): s0  (destructor of InterpreterImpl only) cancelAllDelayed
           s1  _isStarted = false                        [point delay.stop.before_loopbreak]
           s2  event_base_loopbreak: event_break = 1; the dispatcher is notified only if the loop
               is running                                [point delay.stop.after_loopbreak]
           s3  cancelAllDelayed
           s4  join
   environment: a pending timer expires. *)
Inductive rpc := RP1 | RP2 | RP3 | RP4 | RDone.
Inductive spc := SP0 | SP1 | SP2 | SP3 | SP4 | SDone.

Record td_variant := {
  tv_sticky_wakeup : bool   (* repaired stop(): additionally activates an event of the base, which
                               -- unlike event_break -- survives the entry into event_base_loop *)
}.
Definition td_pinned : td_variant := {| tv_sticky_wakeup := false |}.
Definition td_fixed  : td_variant := {| tv_sticky_wakeup := true |}.

Record td := {
  t_started : bool;   (* _isStarted *)
  t_break   : bool;   (* event_base::event_break *)
  t_kick    : bool;   (* an activated internal event is pending (repaired variant only) *)
  t_timers  : nat;    (* delayed events whose timer has not expired *)
  t_due     : nat;    (* expired timers whose callback has not run *)
  t_r       : rpc;
  t_s       : spc
}.

Inductive tid := TRun | TStop | TEnv.

Definition td_init (timers : nat) (s : spc) : td :=
  {| t_started := true; t_break := false; t_kick := false; t_timers := timers; t_due := 0; t_r := RP1; t_s := s |}.

Definition td_step (v : td_variant) (s : td) (t : tid) : option td :=
  match t with
  | TRun =>
    match t_r s with
    | RP1 => Some {| t_started := t_started s; t_break := t_break s; t_kick := t_kick s; t_timers := t_timers s;
                     t_due := t_due s; t_r := if t_started s then RP2 else RDone; t_s := t_s s |}
    | RP2 => Some {| t_started := t_started s; t_break := false; t_kick := t_kick s; t_timers := t_timers s;
                     t_due := t_due s; t_r := RP3; t_s := t_s s |}
    | RP3 =>
        if t_break s then
          Some {| t_started := t_started s; t_break := true; t_kick := t_kick s; t_timers := t_timers s;
                  t_due := t_due s; t_r := RP4; t_s := t_s s |}
        else if t_kick s || negb (Nat.eqb (t_due s) 0) then
          Some {| t_started := t_started s; t_break := false; t_kick := false; t_timers := t_timers s;
                  t_due := 0; t_r := RP4; t_s := t_s s |}
        else None                                   (* blocked in the dispatcher *)
    | RP4 => Some {| t_started := t_started s; t_break := t_break s; t_kick := t_kick s; t_timers := t_timers s;
                     t_due := t_due s; t_r := RP1; t_s := t_s s |}
    | RDone => None
    end
  | TStop =>
    match t_s s with
    | SP0 => Some {| t_started := t_started s; t_break := t_break s; t_kick := t_kick s; t_timers := 0;
                     t_due := 0; t_r := t_r s; t_s := SP1 |}
    | SP1 => (* if (_isStarted) { _isStarted = false; ... } *)
        Some {| t_started := false; t_break := t_break s; t_kick := t_kick s; t_timers := t_timers s;
                t_due := t_due s; t_r := t_r s; t_s := if t_started s then SP2 else SP4 |}
    | SP2 => Some {| t_started := t_started s; t_break := true; t_kick := tv_sticky_wakeup v || t_kick s;
                     t_timers := t_timers s; t_due := t_due s; t_r := t_r s; t_s := SP3 |}
    | SP3 => Some {| t_started := t_started s; t_break := t_break s; t_kick := t_kick s; t_timers := 0;
                     t_due := 0; t_r := t_r s; t_s := SP4 |}
    | SP4 => match t_r s with
             | RDone => Some {| t_started := t_started s; t_break := t_break s; t_kick := t_kick s;
                                t_timers := t_timers s; t_due := t_due s; t_r := RDone; t_s := SDone |}
             | _ => None                            (* join blocks *)
             end
    | SDone => None
    end
  | TEnv =>
    match t_timers s with
    | O => None
    | S n => Some {| t_started := t_started s; t_break := t_break s; t_kick := t_kick s; t_timers := n;
                     t_due := S (t_due s); t_r := t_r s; t_s := t_s s |}
    end
  end.

(* a schedule: the scheduler's choices; a choice that is not enabled is skipped (stutter) *)
Fixpoint td_run (v : td_variant) (s : td) (sched : list tid) : td :=
  match sched with
  | [] => s
  | t :: r => match td_step v s t with Some s' => td_run v s' r | None => td_run v s r end
  end.

Definition td_final (s : td) : bool :=
  match t_r s, t_s s with RDone, SDone => true | _, _ => false end.

Definition td_enabled (v : td_variant) (s : td) : bool :=
  match td_step v s TRun, td_step v s TStop, td_step v s TEnv with
  | None, None, None => false
  | _, _, _ => true
  end.

(* stop() never returns: nobody can move and the join has not happened *)
Definition td_deadlocked (v : td_variant) (s : td) : bool := negb (td_final s) && negb (td_enabled v s).

(* ------------------------------------------------------------------------------------------ *)
(** * (c) cancel() against a step() blocked in dequeueExternal                                   *)

(* stepper:   p_wait   dequeue(forever): enabled when the queue is not empty; pops
              p_check  the popped event has an empty name: read _isCancelled;
                       set -> CANCELLED (p_done), clear -> IDLE, the caller steps again (p_wait)
              p_busy   a named event: micro/macro-steps, then back to dequeue
   canceller: c1 markAsCancelled [point interp.cancel.marked]; c2 enqueueExternal(Event())
   environment: receive(e) from other threads, any event, any time. *)
Inductive ppc := PWait | PCheck | PBusy | PDone.
Inductive cpc := CP1 | CP2 | CDone.

Record cu_variant := { cv_enqueue_first : bool }.  (* hypothetical: the two statements swapped *)
Definition cu_code : cu_variant := {| cv_enqueue_first := false |}.

Record cu := { u_flag : bool; u_q : list ev; u_p : ppc; u_c : cpc }.

Inductive cuid := UStep | UCancel | URecv (e : ev).

Definition cu_step (v : cu_variant) (s : cu) (t : cuid) : option cu :=
  match t with
  | UStep =>
    match u_p s with
    | PWait => match u_q s with
               | [] => None
               | e :: q => Some {| u_flag := u_flag s; u_q := q; u_p := if e =? 0 then PCheck else PBusy; u_c := u_c s |}
               end
    | PCheck => Some {| u_flag := u_flag s; u_q := u_q s; u_p := if u_flag s then PDone else PWait; u_c := u_c s |}
    | PBusy => Some {| u_flag := u_flag s; u_q := u_q s; u_p := PWait; u_c := u_c s |}
    | PDone => None
    end
  | UCancel =>
    let mark s' := {| u_flag := true; u_q := u_q s'; u_p := u_p s'; u_c := u_c s' |} in
    let enq s' := {| u_flag := u_flag s'; u_q := u_q s' ++ [0]; u_p := u_p s'; u_c := u_c s' |} in
    let at_pc (s' : cu) c := {| u_flag := u_flag s'; u_q := u_q s'; u_p := u_p s'; u_c := c |} in
    match u_c s with
    | CP1 => Some (at_pc (if cv_enqueue_first v then enq s else mark s) CP2)
    | CP2 => Some (at_pc (if cv_enqueue_first v then mark s else enq s) CDone)
    | CDone => None
    end
  | URecv e => Some {| u_flag := u_flag s; u_q := u_q s ++ [e]; u_p := u_p s; u_c := u_c s |}
  end.

Fixpoint cu_run (v : cu_variant) (s : cu) (sched : list cuid) : cu :=
  match sched with
  | [] => s
  | t :: r => match cu_step v s t with Some s' => cu_run v s' r | None => cu_run v s r end
  end.

Definition cu_init (q : list ev) (p : ppc) : cu := {| u_flag := false; u_q := q; u_p := p; u_c := CP1 |}.

(* the stepper is blocked for good unless somebody else enqueues: cancel() has returned, the
   interpreter has not seen the cancellation, and step() waits on an empty queue *)
Definition cu_lost (s : cu) : bool :=
  match u_c s, u_p s, u_q s with
  | CDone, PWait, [] => true
  | _, _, _ => false
  end.
