(* CGenEquivFlatten.v -- C04: the condition trans_lists of CGenEquivHist.v holds for every chart that LargeMicroStep::init
   builds from a document (Chart.flatten): the transition list of a state is the list of the table entries whose
   source it is, in table order -- so the emitted loop `for j < nr_transitions: if transitions[j].source == i` visits
   what the engine's per-state list holds.  Proofs only. *)
From V Require Import Base NameMatch Chart Exec Large WfCore CGen CGenLemmas LargeCacheLemmas FlattenWfStruct CGenEquivHist.
Local Open Scope nat_scope.

Lemma index_where_filter {A} (f : A -> bool) (d : A) : forall l b,
  index_where f l b = filter (fun k => f (nth (k - b) l d)) (seq b (length l)).
Proof.
  induction l as [|x r IH]; intros b; cbn [index_where length seq filter]; [reflexivity|].
  rewrite Nat.sub_diag. cbn [nth]. rewrite (IH (S b)).
  assert (E : filter (fun k => f (nth (k - S b) r d)) (seq (S b) (length r)) =
              filter (fun k => f (nth (k - b) (x :: r) d)) (seq (S b) (length r))).
  { apply filter_ext_in. intros k Hk. apply in_seq in Hk. replace (k - b) with (S (k - S b)) by lia. reflexivity. }
  rewrite E. destruct (f x); reflexivity.
Qed.

Lemma list_eqb_refl a : CGen.list_eqb a a = true.
Proof. induction a as [|x a IH]; cbn; [reflexivity|]. now rewrite Nat.eqb_refl. Qed.

Theorem trans_lists_flatten late t : trans_lists (flatten late t) = true.
Proof.
  unfold trans_lists. apply forallb_forall. intros s Hs. apply in_seq in Hs.
  rewrite (fs_trans_flatten late t s) by lia.
  rewrite (index_where_filter _ dtr), (fl_ntrans late t). fold (trs t).
  replace (filter (fun k => fst (fst (nth (k - 0) (trs t) dtr)) =? s) (seq 0 (length (trs t))))
     with (filter (fun ti => ft_source (tr (flatten late t) ti) =? s) (seq 0 (length (trs t)))); [apply list_eqb_refl|].
  apply filter_ext_in. intros k Hk. apply in_seq in Hk. rewrite Nat.sub_0_r.
  rewrite (fl_tr late t k) by lia. reflexivity.
Qed.
