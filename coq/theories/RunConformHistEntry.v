(* RunConformHistEntry.v -- C01 on charts with <history> (wf_histb): the entry set of one microstep.  The contexts are
   (domain of a selected transition, its effective targets -- Spec.eff_targets under the history value AFTER the exit);
   they are good contexts (GoodCtx of RunConformInitialBase.v) because a transition with a <history> target has no other
   target below the history's parent (wh_target_sets) and the recorded values are fragments (RunConformHistRel.v).
   Appendix D's computeEntrySet (RunConformHistSpec.v) and ESTABLISH_ENTRYSET (RunConformHistEngine.v) both compute
   RunConformInitialBase.D for these contexts: the same proper states are entered; the default transition of a targeted
   history is in the engine's transition set iff Appendix D records it in defaultHistoryContent.  Proofs only. *)
From V Require Import Base NameMatch Chart Exec Large LargeLemmas Spec Legal SetLemmas LegalAbstract LegalLarge
  LegalHistBase LegalHistEntry LegalHistStep LegalHistRun MicroConformEntry ExitSetLemmas
  RunConformInitialBase RunConformInitialSpec RunConformInitialEngine
  RunConformHistRel RunConformHistSpec RunConformHistEngine.
Local Open Scope nat_scope.

Section MEntryH.
Variable c : fchart.
Let n := nstates c.
Let par (i : nat) := fs_parent (st c i).
Let ch (i : nat) := fs_children (st c i).
Let kd (i : nat) := fs_type (st c i).
Let cpl (i : nat) := fs_completion (st c i).
Notation Anc := (LegalAbstract.Anc par).
Notation pseudo := (pseudoS c).

Hypothesis W : WFH c.
Hypothesis HcplOK : CplOK c.
Hypothesis HcplAnti : CplAnti c.
Hypothesis HtgAnti : TgAnti c.
(* no transition targets an <initial> element *)
Hypothesis HtgNoInit : forall ti g, In g (ft_targets (tr c ti)) -> kd g <> FInitial.
Hypothesis root_compound : kd 0 = FCompound.
Hypothesis HPAR : forall s, s < n -> kd s = FParallel -> fs_children (st c s) <> [].
Hypothesis Hleaf : forall x k, is_atomic_state c x = true -> par k <> Some x.

Variable cfg sel : list nat.
Variable h : hv.
Variable hist : list nat.
Hypothesis Hleg : LegalH c (fun x => In x cfg).
Hypothesis Hbound : forall x, In x cfg -> x < n.
Hypothesis Hprop : forall x, In x cfg -> pseudo x = false.
Hypothesis Hsel_src : forall ti, In ti sel -> In (ft_source (tr c ti)) cfg.
Hypothesis Hsel_ok : pairwise_ok lg_fixed c sel.
Hypothesis HH : HistOK c hist.
Hypothesis HD : HistDown c hist.
Hypothesis HR : hv_rel c hist h.
Hypothesis Hdom : forall ti, In ti sel -> transition_domain c h (tr c ti) = domain c (tr c ti).

Notation X := (LegalLarge.exitset c cfg sel).
Notation TG := (LegalLarge.targets c sel).
Notation IC := (LegalHistBase.IC c).
Notation res := (res c h).
Notation hc_one := (hc_one c h).
Notation dflt := (dflt_targets c).

Lemma n_pos_h : 0 < n.
Proof. apply Hbound. exact (lg_root _ _ _ _ Hleg). Qed.

Lemma hist_is s : is_history_state c s = histS c s.
Proof. apply hist_state_iff. Qed.

Lemma pseudo_hist_or_init s : pseudo s = true -> histS c s = true \/ kd s = FInitial.
Proof. unfold pseudoS, histS, kd. destruct (fs_type (st c s)); cbn; intros E; try discriminate; auto. Qed.

(* ------------------------------------------------------------------ what a history state stands for *)

Record ResOK (s q : nat) : Prop := {
  ro_par : par s = Some q;
  ro_kind : kd q = FCompound;
  ro_ne : res s <> [];
  ro_below : forall g, In g (res s) -> Anc q g /\ pseudo g = false;
  ro_shallow : deepS c s = false -> forall g, In g (res s) -> par g = Some q;
  ro_one : one_child_per_compound c (res s);
  ro_anti : forall g1 g2, In g1 (res s) -> In g2 (res s) -> ~ Anc g1 g2;
  ro_add : forall x, AddH c hist s x <-> IC q (res s) x
}.

Lemma res_ok s : histS c s = true -> exists q, ResOK s q.
Proof.
  intros Hh. pose proof (hist_pseudo c s Hh) as Hps. destruct (wh_pseudo_parent c W s Hps) as (q & Hq & Hkq). fold (par s) in Hq.
  exists q. destruct (hv_get h s) as [v|] eqn:Ev.
  - assert (Er : res s = v) by (unfold RunConformHistSpec.res; now rewrite hist_is, Hh, Ev).
    destruct (hv_value_facts c W hist h HH HD HR HPAR Hleaf s q v Hh Hq Ev) as (A1 & A2 & A3 & A4 & A5).
    constructor; rewrite ?Er; auto.
    + intros g Hg. destruct (A2 g Hg) as (F1 & F2 & _). auto.
    + intros Hds g Hg. destruct (A2 g Hg) as (_ & _ & F3). now apply F3.
    + intros x. assert (Ei : intersects (cpl s) hist = true).
      { destruct (intersects (cpl s) hist) eqn:E; [reflexivity|]. apply (hv_none_iff c hist h HR s Hh) in E. congruence. }
      unfold AddH. fold (par s). rewrite Hq. fold (cpl s). rewrite Ei. apply A5.
  - destruct (wh_hist_default c W s q Hh Hq) as (ti & r & Htr & Hne & Htg).
    assert (Er : res s = ft_targets (tr c ti)).
    { unfold RunConformHistSpec.res, dflt_targets. now rewrite hist_is, Hh, Ev, Htr. }
    assert (Edf : dflt s = ft_targets (tr c ti)) by (unfold dflt_targets; now rewrite Htr).
    constructor; rewrite ?Er; auto.
    + intros g Hg. destruct (Htg g Hg) as (_ & F2 & F3). split; [|exact F2].
      destruct (deepS c s); [exact F3 | now apply anc_parent].
    + intros Hds g Hg. destruct (Htg g Hg) as (_ & _ & F3). now rewrite Hds in F3.
    + exact (wh_target_sets c W ti).
    + intros g1 g2. apply HtgAnti.
    + intros x. assert (Ei : intersects (cpl s) hist = false) by (now apply (hv_none_iff c hist h HR s Hh)).
      unfold AddH. fold (par s). rewrite Hq. fold (cpl s). rewrite Ei, Edf. tauto.
Qed.

Lemma res_plain s : histS c s = false -> res s = [s].
Proof. intros Hh. unfold RunConformHistSpec.res. now rewrite hist_is, Hh. Qed.

(* Appendix D's getEffectiveTargetStates *)
Lemma eff_spec T x : (forall s, In s T -> histS c s = true -> exists q, ResOK s q) ->
  (In x (eff_targets c (Spec.n c) h T) <-> exists s, In s T /\ In x (res s)).
Proof.
  intros HT. destruct (existsb (fun s => histS c s) T) eqn:Eany.
  2: { (* no history among the targets *)
    assert (Hno : forall s, In s T -> histS c s = false).
    { intros s Hs. destruct (histS c s) eqn:E; [|reflexivity]. assert (existsb (fun s => histS c s) T = true) by (apply existsb_exists; eauto). congruence. }
    unfold Spec.n. pose proof n_pos_h as Hn. unfold n in Hn. destruct (nstates c) as [|m]; [lia|]. cbn [eff_targets].
    assert (Hg : forall l acc, (forall s, In s l -> histS c s = false) ->
       (In x (fold_left (fun acc0 s => if is_history_state c s
                                     then match hv_get h s with
                                          | Some v => unionn acc0 v
                                          | None => match pseudo_trans c s with
                                                    | Some t => unionn acc0 (eff_targets c m h (ft_targets t))
                                                    | None => acc0
                                                    end
                                          end
                                     else addn s acc0) l acc) <-> In x acc \/ In x l)).
    { induction l as [|y l IH]; intros acc Hl; cbn [fold_left]; [cbn; tauto|].
      rewrite hist_is, (Hl y (or_introl eq_refl)), IH by (intros s Hs; apply Hl; now right). rewrite me_In_addn. cbn [In]. intuition. }
    rewrite (Hg T [] Hno). cbn [In]. split.
    - intros [[]|Hx]. exists x. split; [exact Hx|]. rewrite (res_plain x (Hno x Hx)). now left.
    - intros (s & Hs & Hx). rewrite (res_plain s (Hno s Hs)) in Hx. destruct Hx as [<-|[]]. now right. }
  (* some history: the chart has at least three states *)
  apply existsb_exists in Eany as (s0 & Hs0 & Hh0). destruct (HT s0 Hs0 Hh0) as (q0 & R0).
  assert (Hn2 : 2 <= n).
  { destruct (wh_par_lt c W _ _ (ro_par _ _ R0)) as [A B']. unfold n. lia. }
  unfold Spec.n. fold n. destruct n as [|[|m]] eqn:En; try lia. cbn [eff_targets].
  assert (Hin : forall tg, (forall g, In g tg -> pseudo g = false) -> forall y, In y (eff_targets c (S m) h tg) <-> In y tg).
  { intros tg Htg y. cbn [eff_targets].
    assert (Hg : forall l acc, (forall s, In s l -> pseudo s = false) ->
       (In y (fold_left (fun acc0 s => if is_history_state c s
                                     then match hv_get h s with
                                          | Some v => unionn acc0 v
                                          | None => match pseudo_trans c s with
                                                    | Some t => unionn acc0 (eff_targets c m h (ft_targets t))
                                                    | None => acc0
                                                    end
                                          end
                                     else addn s acc0) l acc) <-> In y acc \/ In y l)).
    { induction l as [|z l IH]; intros acc Hl; cbn [fold_left]; [cbn; tauto|].
      rewrite (proper_not_hist c z (Hl z (or_introl eq_refl))), IH by (intros s Hs; apply Hl; now right). rewrite me_In_addn. cbn [In]. intuition. }
    rewrite (Hg tg [] Htg). cbn [In]. tauto. }
  assert (Hg : forall l acc, (forall s, In s l -> In s T) ->
     (In x (fold_left (fun acc0 s => if is_history_state c s
                                   then match hv_get h s with
                                        | Some v => unionn acc0 v
                                        | None => match pseudo_trans c s with
                                                  | Some t => unionn acc0 (eff_targets c (S m) h (ft_targets t))
                                                  | None => acc0
                                                  end
                                        end
                                   else addn s acc0) l acc) <-> In x acc \/ exists s, In s l /\ In x (res s))).
  { induction l as [|y l IH]; intros acc Hl; cbn [fold_left].
    - split; [tauto | intros [H|(s & [] & _)]; exact H].
    - rewrite IH by (intros s Hs; apply Hl; now right).
      assert (Hy : In x (if is_history_state c y
                         then match hv_get h y with
                              | Some v => unionn acc v
                              | None => match pseudo_trans c y with
                                        | Some t => unionn acc (eff_targets c (S m) h (ft_targets t))
                                        | None => acc
                                        end
                              end
                         else addn y acc) <-> In x acc \/ In x (res y)).
      { unfold RunConformHistSpec.res. destruct (is_history_state c y) eqn:Ehy.
        - rewrite hist_is in Ehy. destruct (HT y (Hl y (or_introl eq_refl)) Ehy) as (q & R).
          destruct (hv_get h y) as [v|] eqn:Ev.
          + unfold unionn. rewrite In_fold_addn. tauto.
          + pose proof (ro_par _ _ R) as Hq. destruct (wh_hist_default c W y q Ehy Hq) as (ti & r & Htr & _ & Htg).
            unfold pseudo_trans, dflt_targets. rewrite Htr. unfold unionn. rewrite In_fold_addn.
            rewrite (Hin (ft_targets (tr c ti))) by (intros g Hg; now destruct (Htg g Hg) as (_ & F & _)). tauto.
        - rewrite me_In_addn. cbn [In]. intuition. }
      rewrite Hy. split.
      + intros [[H|H]|(s & Hs & Hx)]; [now left | right; exists y; split; [now left | exact H] | right; exists s; split; [now right | exact Hx]].
      + intros [H|(s & [<-|Hs] & Hx)]; [left; now left | left; now right | right; exists s; auto]. }
  rewrite (Hg T [] (fun s Hs => Hs)). cbn [In]. tauto.
Qed.

(* ------------------------------------------------------------------ the targets of one selected transition *)

Section OneTrans.
Variable ti : nat.
Hypothesis Hti : In ti sel.
Notation T := (ft_targets (tr c ti)).
Notation G := (eff_targets c (Spec.n c) h T).

Lemma T_res s : In s T -> histS c s = true -> exists q, ResOK s q.
Proof. intros _ Hh. now apply res_ok. Qed.

Lemma G_spec x : In x G <-> exists s, In s T /\ In x (res s).
Proof. apply eff_spec. exact T_res. Qed.

Lemma T_proper_or_hist s : In s T -> pseudo s = true -> histS c s = true.
Proof. intros Hs Hp. destruct (pseudo_hist_or_init s Hp) as [H|H]; [exact H | exfalso; exact (HtgNoInit ti s Hs H)]. Qed.

Lemma T_plain s : In s T -> histS c s = false -> pseudo s = false.
Proof. intros Hs Hh. destruct (pseudo s) eqn:E; [|reflexivity]. rewrite (T_proper_or_hist s Hs E) in Hh. discriminate. Qed.

(* with a history among the targets, no other target lies below the history's parent *)
Lemma no_target_inside s1 q1 s2 : In s1 T -> histS c s1 = true -> ResOK s1 q1 -> In s2 T -> Anc q1 s2 -> s2 = s1.
Proof.
  intros H1 Hh1 R1 H2 Ha. destruct (hanc_child_on_path c q1 s2 Ha) as (k & Hk & Hon).
  assert (E : k = s1).
  { apply (wh_target_sets c W ti q1 k s1 s2 s1 (ro_kind _ _ R1) Hk (ro_par _ _ R1) H2 H1 Hon). now left. }
  subst k. destruct Hon as [->|F]; [reflexivity|]. exfalso. exact (pseudo_no_anc c W s1 s2 (hist_pseudo c s1 Hh1) F).
Qed.

Lemma hist_parents s1 q1 s2 q2 : In s1 T -> histS c s1 = true -> ResOK s1 q1 -> In s2 T -> histS c s2 = true -> ResOK s2 q2 ->
  (q1 = q2 \/ Anc q1 q2 \/ Anc q2 q1) -> s1 = s2.
Proof.
  intros H1 Hh1 R1 H2 Hh2 R2 [E|[E|E]].
  - subst q2. symmetry. apply (no_target_inside s1 q1 s2 H1 Hh1 R1 H2). apply anc_parent. exact (ro_par _ _ R2).
  - symmetry. apply (no_target_inside s1 q1 s2 H1 Hh1 R1 H2). eapply (hanc_trans c); [exact E | apply anc_parent; exact (ro_par _ _ R2)].
  - apply (no_target_inside s2 q2 s1 H2 Hh2 R2 H1). eapply (hanc_trans c); [exact E | apply anc_parent; exact (ro_par _ _ R1)].
Qed.

(* a state on the path to a member of res s is on the path to s, or lies below the parent of the history s *)
Lemma origin s g k : In s T -> In g (res s) -> on_pathP c k g ->
  on_pathP c k s \/ (histS c s = true /\ exists q, ResOK s q /\ Anc q k).
Proof.
  intros Hs Hg Hon. destruct (histS c s) eqn:Hh.
  - destruct (res_ok s Hh) as (q & R). destruct (ro_below _ _ R g Hg) as [Hqg _].
    assert (Hqs : Anc q s) by (apply anc_parent; exact (ro_par _ _ R)).
    destruct Hon as [->|Hkg]; [right; split; [reflexivity|]; exists q; auto|].
    destruct (hanc_chain c k q g Hkg Hqg) as [E|[E|E]].
    + subst k. left. now right.
    + left. right. eapply (hanc_trans c); eauto.
    + right. split; [reflexivity|]. exists q. auto.
  - rewrite (res_plain s Hh) in Hg. destruct Hg as [<-|[]]. now left.
Qed.

Lemma on_path_proper k g : pseudo g = false -> on_pathP c k g -> pseudo k = false.
Proof. intros Hg [->|Ha]; [exact Hg | exact (anc_not_pseudo c W k g Ha)]. Qed.

Lemma res_proper s g : In s T -> In g (res s) -> pseudo g = false.
Proof.
  intros Hs Hg. destruct (histS c s) eqn:Hh.
  - destruct (res_ok s Hh) as (q & R). now destruct (ro_below _ _ R g Hg).
  - rewrite (res_plain s Hh) in Hg. destruct Hg as [<-|[]]. now apply T_plain.
Qed.

(* the members of G below the parent of a history target are what the history stands for *)
Lemma G_own s q g : In s T -> histS c s = true -> ResOK s q -> In g G -> Anc q g -> In g (res s).
Proof.
  intros Hs Hh R Hg Hqg. apply G_spec in Hg as (s' & Hs' & Hg').
  destruct (histS c s') eqn:Hh'.
  - destruct (res_ok s' Hh') as (q' & R'). destruct (ro_below _ _ R' g Hg') as [Hq'g _].
    assert (E : s = s').
    { apply (hist_parents s q s' q' Hs Hh R Hs' Hh' R'). destruct (hanc_chain c q q' g Hqg Hq'g) as [F|[F|F]]; auto. }
    now subst s'.
  - rewrite (res_plain s' Hh') in Hg'. destruct Hg' as [<-|[]].
    pose proof (no_target_inside s q s' Hs Hh R Hs' Hqg) as E. subst s'. congruence.
Qed.

Lemma G_one : one_child_per_compound c G.
Proof.
  intros j k1 k2 g1 g2 Hj H1 H2 Hg1 Hg2 P1 P2.
  apply G_spec in Hg1 as (s1 & Hs1 & Hr1). apply G_spec in Hg2 as (s2 & Hs2 & Hr2).
  pose proof (on_path_proper k1 g1 (res_proper s1 g1 Hs1 Hr1) P1) as Hpk1.
  pose proof (on_path_proper k2 g2 (res_proper s2 g2 Hs2 Hr2) P2) as Hpk2.
  assert (Hinside : forall sa qa ka ga sb kb gb, In sa T -> histS c sa = true -> ResOK sa qa -> In ga (res sa) -> on_pathP c ka ga ->
            par ka = Some j -> Anc qa ka -> In sb T -> In gb (res sb) -> on_pathP c kb gb -> par kb = Some j -> pseudo kb = false -> ka = kb).
  { intros sa qa ka ga sb kb gb Hsa Hha Ra Hra Pa Hka Hqka Hsb Hrb Pb Hkb Hpkb.
    assert (Hjq : j = qa \/ Anc qa j) by (destruct (anc_child par _ _ _ Hka Hqka) as [->|F]; auto).
    assert (Hqkb : Anc qa kb) by (destruct Hjq as [->|F]; [now apply anc_parent | eapply anc_step; eauto]).
    assert (Hqgb : Anc qa gb) by (destruct Pb as [->|F]; [exact Hqkb | eapply (hanc_trans c); eauto]).
    assert (Hgb : In gb G) by (apply G_spec; eauto).
    pose proof (G_own sa qa gb Hsa Hha Ra Hgb Hqgb) as Hgb'.
    exact (ro_one _ _ Ra j ka kb ga gb Hj Hka Hkb Hra Hgb' Pa Pb). }
  destruct (origin s1 g1 k1 Hs1 Hr1 P1) as [O1|(Hh1 & q1 & R1 & Hq1)].
  - destruct (origin s2 g2 k2 Hs2 Hr2 P2) as [O2|(Hh2 & q2 & R2 & Hq2)].
    + exact (wh_target_sets c W ti j k1 k2 s1 s2 Hj H1 H2 Hs1 Hs2 O1 O2).
    + symmetry. exact (Hinside s2 q2 k2 g2 s1 k1 g1 Hs2 Hh2 R2 Hr2 P2 H2 Hq2 Hs1 Hr1 P1 H1 Hpk1).
  - exact (Hinside s1 q1 k1 g1 s2 k2 g2 Hs1 Hh1 R1 Hr1 P1 H1 Hq1 Hs2 Hr2 P2 H2 Hpk2).
Qed.

Lemma G_anti g1 g2 : In g1 G -> In g2 G -> ~ Anc g1 g2.
Proof.
  intros Hg1 Hg2 Ha. pose proof Hg1 as Hg1'. pose proof Hg2 as Hg2'.
  apply G_spec in Hg1 as (s1 & Hs1 & Hr1). apply G_spec in Hg2 as (s2 & Hs2 & Hr2).
  destruct (origin s2 g2 g1 Hs2 Hr2 (or_intror Ha)) as [O|(Hh2 & q2 & R2 & Hq2)].
  - (* g1 on the path to the written target s2 *)
    destruct (histS c s1) eqn:Hh1.
    + destruct (res_ok s1 Hh1) as (q1 & R1). destruct (ro_below _ _ R1 g1 Hr1) as [Hq1g1 Hpg1].
      assert (Hq1s2 : Anc q1 s2).
      { destruct O as [E|F]; [subst g1; exact Hq1g1 | eapply (hanc_trans c); eauto]. }
      pose proof (no_target_inside s1 q1 s2 Hs1 Hh1 R1 Hs2 Hq1s2) as E. subst s2.
      destruct O as [E|F]; [subst g1; rewrite (hist_pseudo c s1 Hh1) in Hpg1; discriminate|].
      destruct (anc_child par _ _ _ (ro_par _ _ R1) F) as [E|F']; [subst g1; exact (hanc_irrefl c W _ Hq1g1) | exact (hanc_antisym c W _ _ Hq1g1 F')].
    + rewrite (res_plain s1 Hh1) in Hr1. destruct Hr1 as [<-|[]].
      destruct O as [E|F]; [|exact (HtgAnti ti s1 s2 Hs1 Hs2 F)]. subst s2.
      rewrite (res_plain s1 Hh1) in Hr2. destruct Hr2 as [<-|[]]. exact (hanc_irrefl c W _ Ha).
  - pose proof (G_own s2 q2 g1 Hs2 Hh2 R2 Hg1' Hq2) as Hr1'. exact (ro_anti _ _ R2 g1 g2 Hr1' Hr2 Ha).
Qed.

Lemma G_good d : domain c (tr c ti) = Some d -> GoodCtx c d G.
Proof.
  intros Hd. destruct (hdomain_spec c W ti d (Hbound _ (Hsel_src ti Hti)) Hd) as (Hne & Hk & Htg & _).
  assert (Hbelow : forall g, In g G -> Anc d g).
  { intros g Hg. apply G_spec in Hg as (s & Hs & Hr). pose proof (Htg s Hs) as Hds.
    destruct (histS c s) eqn:Hh.
    - destruct (res_ok s Hh) as (q & R). destruct (ro_below _ _ R g Hr) as [Hqg _].
      destruct (anc_child par _ _ _ (ro_par _ _ R) Hds) as [->|F]; [exact Hqg | eapply (hanc_trans c); eauto].
    - rewrite (res_plain s Hh) in Hr. destruct Hr as [<-|[]]. exact Hds. }
  constructor.
  - destruct Hk as [Hk| ->]; [exact Hk | exact root_compound].
  - destruct T as [|s r] eqn:ET; [congruence|]. rewrite <- ET in *.
    assert (Hs : In s T) by (rewrite ET; now left).
    assert (Hex : exists g, In g (res s)).
    { destruct (histS c s) eqn:Hh.
      - destruct (res_ok s Hh) as (q & R). pose proof (ro_ne _ _ R). destruct (res s) as [|g l]; [congruence | exists g; now left].
      - rewrite (res_plain s Hh). exists s. now left. }
    destruct Hex as (g & Hg). intros E. assert (HgG : In g G) by (apply G_spec; eauto). rewrite E in HgG. destruct HgG.
  - exact Hbelow.
  - intros g Hg. apply G_spec in Hg as (s & Hs & Hr). exact (res_proper s g Hs Hr).
  - exact G_one.
  - exact G_anti.
Qed.

(* the premises of RunConformHistSpec.ctx_enter_h_ok for the targets as written *)
Lemma T_targets d : domain c (tr c ti) = Some d -> forall s, In s T ->
  (pseudo s = false /\ In s G) \/
  (is_history_state c s = true /\ exists q, par s = Some q /\ (d = q \/ Anc d q) /\
     (forall g, In g (res s) -> In g G /\ Anc q g) /\ (forall g, In g G -> Anc q g -> In g (res s))).
Proof.
  intros Hd s Hs. destruct (hdomain_spec c W ti d (Hbound _ (Hsel_src ti Hti)) Hd) as (_ & _ & Htg & _).
  destruct (histS c s) eqn:Hh.
  - right. rewrite hist_is. split; [exact Hh|]. destruct (res_ok s Hh) as (q & R). exists q. split; [exact (ro_par _ _ R)|].
    split; [destruct (anc_child par _ _ _ (ro_par _ _ R) (Htg s Hs)); auto|]. split.
    + intros g Hg. split; [apply G_spec; eauto | now destruct (ro_below _ _ R g Hg)].
    + intros g Hg Hqg. exact (G_own s q g Hs Hh R Hg Hqg).
  - left. split; [now apply T_plain|]. apply G_spec. exists s. split; [exact Hs|]. rewrite (res_plain s Hh). now left.
Qed.

End OneTrans.

(* ------------------------------------------------------------------ the contexts of the microstep *)

Definition BmH (d : nat) (G : list nat) : Prop :=
  exists ti, In ti sel /\ domain c (tr c ti) = Some d /\ G = eff_targets c (Spec.n c) h (ft_targets (tr c ti)).

Lemma HB1h r G : BmH r G -> GoodCtx c r G.
Proof. intros (ti & Hti & Hd & ->). exact (G_good ti Hti r Hd). Qed.

Lemma HB2h r G r' G' : BmH r G -> BmH r' G' -> (r = r' /\ G = G') \/ (r <> r' /\ ~ Anc r r' /\ ~ Anc r' r).
Proof.
  intros (t1 & H1 & Hd1 & ->) (t2 & H2 & Hd2 & ->). destruct (Nat.eq_dec t1 t2) as [->|Hne].
  - left. split; congruence.
  - right. exact (HDm_unrelated c W cfg sel Hleg Hbound Hprop Hsel_src Hsel_ok t1 t2 r r' H1 H2 Hne Hd1 Hd2).
Qed.

(* ------------------------------------------------------------------ Appendix D *)

Definition estep_h (e : eset) (ti : nat) : eset :=
  let t := tr c ti in
  let e1 := fold_left (fun e s => add_descendants c (spec_fuel c) h s e) (ft_targets t) e in
  let anc := transition_domain c h t in
  fold_left (fun e s => add_ancestors c (spec_fuel c) h s anc e) (eff_targets c (Spec.n c) h (ft_targets t)) e1.

Lemma compute_entry_set_fold_h : compute_entry_set c h sel =
  fold_left estep_h sel {| e_enter := []; e_default := []; e_histcontent := [] |}.
Proof. reflexivity. Qed.

Notation GIm := (GIH c BmH (fun _ => False)).
Definition hc_of (l : list nat) : list (nat * nat) := flat_map (fun ti => flat_map hc_one (ft_targets (tr c ti))) l.

Lemma estep_h_ok ti e : In ti sel -> GIm e ->
  GIm (estep_h e ti) /\ ext e (estep_h e ti) /\
  (forall d y, domain c (tr c ti) = Some d -> IC d (eff_targets c (Spec.n c) h (ft_targets (tr c ti))) y -> In y (e_enter (estep_h e ti))) /\
  e_histcontent (estep_h e ti) = hc_ins (flat_map hc_one (ft_targets (tr c ti))) (e_histcontent e).
Proof.
  intros Hti HG. unfold estep_h. cbn zeta. rewrite (Hdom ti Hti).
  destruct (ft_targets (tr c ti)) as [|g0 tg'] eqn:Htg.
  - assert (He : eff_targets c (Spec.n c) h [] = []).
    { destruct (eff_targets c (Spec.n c) h []) as [|y l] eqn:E; [reflexivity|].
      exfalso. assert (Hy : In y (eff_targets c (Spec.n c) h [])) by (rewrite E; now left).
      apply (eff_spec [] y) in Hy as (s & [] & _). intros s []. }
    rewrite He. cbn [fold_left flat_map]. split; [exact HG|]. split; [apply ext_refl|].
    split; [intros d y _ [_ (g & [] & _)] | reflexivity].
  - rewrite <- Htg in *. destruct (hdomain_some c ti) as (d & Hd); [rewrite Htg; discriminate|]. rewrite Hd.
    assert (Hb : BmH d (eff_targets c (Spec.n c) h (ft_targets (tr c ti)))) by (exists ti; auto).
    pose proof (ctx_enter_h_ok c W HcplOK HcplAnti HtgAnti BmH HB1h HB2h h d _ Hb (ft_targets (tr c ti))
                  (eff_targets c (Spec.n c) h (ft_targets (tr c ti))) e (T_targets ti Hti d Hd)) as Hc.
    destruct Hc as (A & B' & C & D').
    + intros g Hg. apply (G_spec ti) in Hg. exact Hg.
    + tauto.
    + exact HG.
    + split; [exact A|]. split; [exact B'|]. split; [|exact D']. intros d' y Hd' Hy. injection Hd' as <-. now apply C.
Qed.

Lemma spec_fold_ok_h l : forall e, (forall ti, In ti l -> In ti sel) -> GIm e ->
  GIm (fold_left estep_h l e) /\ ext e (fold_left estep_h l e) /\
  (forall ti d y, In ti l -> domain c (tr c ti) = Some d -> IC d (eff_targets c (Spec.n c) h (ft_targets (tr c ti))) y -> In y (e_enter (fold_left estep_h l e))) /\
  e_histcontent (fold_left estep_h l e) = hc_ins (hc_of l) (e_histcontent e).
Proof.
  induction l as [|ti rr IH]; intros e Hl HG; cbn [fold_left].
  - split; [exact HG|]. split; [apply ext_refl|]. split; [intros ti d y [] | reflexivity].
  - destruct (estep_h_ok ti e (Hl ti (or_introl eq_refl)) HG) as (A1 & B1 & C1 & D1).
    destruct (IH (estep_h e ti) (fun z Hz => Hl z (or_intror Hz)) A1) as (A & B' & C & D').
    split; [exact A|]. split; [eapply ext_trans; eauto|]. split.
    + intros tj d y [<-|Htj] Hd Hy; [apply (proj1 B'); exact (C1 d y Hd Hy) | exact (C tj d y Htj Hd Hy)].
    + rewrite D', D1. unfold hc_of. cbn [flat_map]. now rewrite hc_ins_app.
Qed.

Notation ES := (compute_entry_set c h sel).

Lemma spec_GI_h : GIm ES /\ (forall r G y, BmH r G -> IC r G y -> In y (e_enter ES)) /\ e_histcontent ES = hc_ins (hc_of sel) [].
Proof.
  rewrite compute_entry_set_fold_h.
  destruct (spec_fold_ok_h sel _ (fun ti H => H) (GIH_empty c BmH)) as (A & _ & C & D').
  split; [exact A|]. split; [|exact D']. intros r G y (ti & Hti & Hd & ->) Hy. exact (C ti r y Hti Hd Hy).
Qed.

Theorem spec_set_h x : In x (e_enter ES) <-> exists r G, D c BmH r G x.
Proof. destruct spec_GI_h as (A & B' & _). exact (final_set_h c W BmH HB2h ES A B' x). Qed.

Theorem spec_default_h x : In x (e_default ES) <-> kd x = FCompound /\ exists r G, D c BmH r G x /\ NTG c x G.
Proof. destruct spec_GI_h as (A & B' & _). exact (final_default_h c W BmH HB2h ES A B' x). Qed.

(* ------------------------------------------------------------------ the engine *)

Lemma Low_dom_h x : Low c BmH x <-> exists d, HDm c sel d /\ Anc d x.
Proof.
  split.
  - intros (r & G & (ti & Hti & Hd & _) & Ha). exists r. split; [exists ti; auto | exact Ha].
  - intros (d & (ti & Hti & Hd) & Ha). exists d, (eff_targets c (Spec.n c) h (ft_targets (tr c ti))). split; [exists ti; auto | exact Ha].
Qed.

Definition lowb_h (x : nat) : bool :=
  existsb (fun ti => match domain c (tr c ti) with Some d => mem d (fs_ancestors (st c x)) | None => false end) sel.

Lemma lowb_h_spec x : lowb_h x = true <-> Low c BmH x.
Proof.
  rewrite Low_dom_h. unfold lowb_h. rewrite existsb_exists. split.
  - intros (ti & Hti & Hm). destruct (domain c (tr c ti)) as [d|] eqn:Hd; [|discriminate].
    exists d. split; [exists ti; auto|]. apply (wh_anc c W). now apply mem_In.
  - intros (d & (ti & Hti & Hd) & Ha). exists ti. split; [exact Hti|]. rewrite Hd. apply mem_In. now apply (wh_anc c W).
Qed.

Lemma HLh x : Low c BmH x \/ ~ Low c BmH x.
Proof. destruct (lowb_h x) eqn:E; [left; now apply lowb_h_spec | right; intros H; apply lowb_h_spec in H; congruence]. Qed.

Lemma tgb_h g : In g TG -> 0 < g /\ g < n.
Proof. exact (htargets_bound c W sel g). Qed.

Lemma E1h r G y : BmH r G -> IC r G y ->
  In y (HE0 c TG) \/ exists H q, In H (HE0 c TG) /\ histS c H = true /\ par H = Some q /\ Anc q y.
Proof.
  intros (ti & Hti & Hd & ->) [_ (g & Hg & Hon)]. apply (G_spec ti) in Hg as (s & Hs & Hr).
  assert (Hs0 : In s (HE0 c TG)) by (apply (In_HE0 c W); exists s; split; [apply hIn_targets; eauto | now left]).
  destruct (origin ti s g y Hs Hr Hon) as [O|(Hh & q & R & Hqy)].
  - left. apply (In_HE0 c W). exists s. split; [apply hIn_targets; eauto | exact O].
  - right. exists s, q. split; [exact Hs0|]. split; [exact Hh|]. split; [exact (ro_par _ _ R) | exact Hqy].
Qed.

Lemma E2h x : In x (HE0 c TG) -> pseudo x = false -> Low c BmH x -> exists r G, BmH r G /\ IC r G x.
Proof.
  intros Hx Hpx HL. apply (In_HE0 c W) in Hx as (g & Hg & Hon). apply hIn_targets in Hg as (ti & Hti & Hg).
  destruct (htarget_below_domain c W cfg sel Hbound Hsel_src ti g Hti Hg) as (d & Hd & Hdg).
  exists d, (eff_targets c (Spec.n c) h (ft_targets (tr c ti))). split; [exists ti; auto|].
  assert (Hdx : Anc d x).
  { apply Low_dom_h in HL as (d' & (tj & Htj & Hd') & Ha').
    assert (Hnest : ~ Anc d' d).
    { intros Hn. destruct (Nat.eq_dec tj ti) as [->|Hne].
      - rewrite Hd in Hd'. injection Hd' as <-. exact (hanc_irrefl c W _ Hn).
      - destruct (HDm_unrelated c W cfg sel Hleg Hbound Hprop Hsel_src Hsel_ok tj ti d' d Htj Hti Hne Hd' Hd) as (_ & A & _). now apply A. }
    destruct Hon as [->|Hxg]; [exact Hdg|].
    destruct (hanc_chain c d x g Hdg Hxg) as [E|[E|E]]; [|exact E|].
    - exfalso. subst x. exact (Hnest Ha').
    - exfalso. apply Hnest. eapply (hanc_trans c); eauto. }
  split; [exact Hdx|].
  destruct (histS c g) eqn:Hh.
  - destruct (res_ok g Hh) as (q & R). pose proof (ro_ne _ _ R) as Hne. destruct (res g) as [|g' l] eqn:Er; [congruence|].
    assert (Hg' : In g' (res g)) by (rewrite Er; now left). destruct (ro_below _ _ R g' Hg') as [Hqg' _].
    exists g'. split; [apply (G_spec ti); eauto|]. right.
    destruct Hon as [->|Hxg]; [rewrite (hist_pseudo c g Hh) in Hpx; discriminate|].
    destruct (anc_child par _ _ _ (ro_par _ _ R) Hxg) as [->|F]; [exact Hqg' | eapply (hanc_trans c); eauto].
  - exists g. split; [|exact Hon]. apply (G_spec ti). exists g. split; [exact Hg|]. rewrite (res_plain g Hh). now left.
Qed.

Lemma E3h x : In x (HE0 c TG) -> pseudo x = true -> histS c x = true.
Proof.
  intros Hx Hp. apply (In_HE0 c W) in Hx as (g & Hg & Hon). apply hIn_targets in Hg as (ti & Hti & Hg).
  destruct Hon as [->|Ha]; [exact (T_proper_or_hist ti g Hg Hp) | rewrite (anc_not_pseudo c W x g Ha) in Hp; discriminate].
Qed.

Lemma E4h k : surv cfg X k -> ~ Low c BmH k.
Proof.
  intros [Hk Hx] HL. apply Hx. apply (hIn_exitset c W cfg sel Hleg Hbound Hprop Hsel_src). split; [exact Hk | now apply Low_dom_h].
Qed.

Lemma E6h j : QE5 c cfg sel j -> kd j = FCompound -> ~ Low c BmH j -> hblocked c cfg X (HE0 c TG) j.
Proof.
  intros [[Hjc Hjx]|HL] Hk Hnl; [|exfalso; apply Hnl; now apply Low_dom_h].
  destruct (hcfg_compound_ex c W cfg Hleg j Hjc Hk) as (k & Hpk & Hkc).
  destruct (in_dec Nat.eq_dec k X) as [Hkx|Hkx].
  2: { exists k. split; [now apply (wh_children c W) | right; split; assumption]. }
  apply (hIn_exitset c W cfg sel Hleg Hbound Hprop Hsel_src) in Hkx as [_ (d & HDd & Hdk)].
  destruct (anc_child par _ _ _ Hpk Hdk) as [->|Hdj].
  - destruct HDd as (ti & Hti & Hd).
    destruct (hdomain_spec c W ti j (Hbound _ (Hsel_src ti Hti)) Hd) as (Hne & _ & Htg & _).
    destruct (ft_targets (tr c ti)) as [|g gs] eqn:E; [congruence|].
    destruct (hanc_child_on_path c j g (Htg g (or_introl eq_refl))) as (k' & Hpk' & Hon).
    exists k'. split; [now apply (wh_children c W)|]. left. apply (In_HE0 c W). exists g. split; [|exact Hon].
    apply hIn_targets. exists ti. rewrite E. split; [exact Hti | now left].
  - exfalso. apply Hjx. apply (hIn_exitset c W cfg sel Hleg Hbound Hprop Hsel_src). split; [exact Hjc|]. exists d. auto.
Qed.

Lemma EHh H : In H (HE0 c TG) -> histS c H = true ->
  exists q d G, par H = Some q /\ BmH d G /\ (d = q \/ Anc d q) /\
                (forall x, AddH c hist H x <-> Anc q x /\ IC d G x) /\ (exists x, AddH c hist H x).
Proof.
  intros H0 Hh. apply (In_HE0 c W) in H0 as (g & Hg & Hon).
  assert (E : H = g) by (destruct Hon as [E|F]; [exact E | exfalso; exact (pseudo_no_anc c W H g (hist_pseudo c H Hh) F)]).
  subst g. apply hIn_targets in Hg as (ti & Hti & Hg).
  destruct (htarget_below_domain c W cfg sel Hbound Hsel_src ti H Hti Hg) as (d & Hd & HdH).
  destruct (res_ok H Hh) as (q & R).
  exists q, d, (eff_targets c (Spec.n c) h (ft_targets (tr c ti))). split; [exact (ro_par _ _ R)|]. split; [exists ti; auto|].
  assert (Hdq : d = q \/ Anc d q) by (destruct (anc_child par _ _ _ (ro_par _ _ R) HdH); auto).
  split; [exact Hdq|]. split.
  - intros x. rewrite (ro_add _ _ R x). split.
    + intros [Hqx (g & Hg' & Hon')]. split; [exact Hqx|]. split.
      * destruct Hdq as [->|F]; [exact Hqx | eapply (hanc_trans c); eauto].
      * exists g. split; [apply (G_spec ti); eauto | exact Hon'].
    + intros [Hqx [_ (g & Hg' & Hon')]]. split; [exact Hqx|]. exists g. split; [|exact Hon'].
      apply (G_own ti H q g Hg Hh R Hg'). destruct Hon' as [->|F]; [exact Hqx | eapply (hanc_trans c); eauto].
  - pose proof (ro_ne _ _ R) as Hne. destruct (res H) as [|g l] eqn:Er; [congruence|]. exists g. apply (ro_add _ _ R). rewrite Er.
    assert (Hg' : In g (res H)) by (rewrite Er; now left). rewrite Er in Hg'.
    split; [rewrite <- Er in Hg'; now destruct (ro_below _ _ R g Hg') | exists g; split; [now left | now left]].
Qed.

Notation EF := (EfinH c cfg X hist TG sel).
Notation TF := (TfinH c cfg X hist TG sel).

Notation eng f := (f c W HcplOK HcplAnti HtgAnti BmH HB1h HB2h cfg X hist TG sel tgb_h HH
  (HE0_uniq_step c W cfg sel Hleg Hbound Hprop Hsel_src Hsel_ok) (QE5 c cfg sel)
  (QE5_0 c W cfg sel Hleg Hbound Hprop Hsel_src Hsel_ok) (QE5_par c W cfg sel Hleg Hbound Hprop Hsel_src)
  (QE5_comp c W cfg sel Hleg Hbound Hprop Hsel_src) (QE5_pseudo c cfg sel Hprop)
  E1h E2h E3h E4h E6h HLh EHh).

Definition SurvH (x : nat) : Prop := In x cfg /\ ~ In x X.

(* (1) the states Appendix D enters are the proper states of the engine's entry set that do not survive the exit *)
Theorem entry_set_conforms_hist_sec x :
  In x (e_enter ES) <-> In x EF /\ pseudo x = false /\ ~ SurvH x.
Proof.
  rewrite spec_set_h. split.
  - intros (r & G & HDx). split; [exact (eng engine_complete_h r G x HDx)|].
    split; [exact (D_proper c W HcplOK HcplAnti HtgAnti BmH HB1h r G x HDx)|].
    intros Hs. exact (E4h x Hs (Low_D c BmH r G x HDx)).
  - intros (Hx & Hp & Hs). apply (eng engine_sound_h x Hx Hp).
    destruct (eng inv_fin_h) as [HF _]. destruct (hi_Q _ _ _ _ _ _ _ HF x Hx) as [H|H]; [contradiction | now apply Low_dom_h].
Qed.

Hypothesis Hsel_np : forall ti, In ti sel -> ft_history (tr c ti) || ft_initial (tr c ti) = false.

(* (2) the transitions of <initial> elements in the engine's transition set: those of the states Appendix D enters by default *)
Theorem trans_set_initial_hist_sec i x ti : In i (e_enter ES) -> par x = Some i -> kd x = FInitial ->
  In ti (fs_trans (st c x)) -> (In ti TF <-> In i (e_default ES) /\ cpl i = [x]).
Proof.
  intros Hi Hpx Hkx Hti.
  assert (Hps : pseudo x = true) by (unfold pseudoS; fold (kd x); now rewrite Hkx).
  rewrite (eng engine_ts_h ti). split.
  - intros [Hs|[(x' & Hx' & Hk' & Hin')|(H & r & _ & Hh & _ & Htr)]].
    + exfalso. pose proof (Hsel_src ti Hs) as Hsrc. rewrite (wh_tr_src c W x ti Hti) in Hsrc.
      rewrite (Hprop x Hsrc) in Hps. discriminate.
    + assert (x' = x) by (rewrite <- (wh_tr_src c W x' ti Hin'); exact (wh_tr_src c W x ti Hti)). subst x'.
      destruct (proj1 (eng engine_initial_h x) (conj Hx' Hkx)) as (q & r & G & A1 & A2 & _ & A4 & A5 & A6).
      fold (par x) in A1. rewrite Hpx in A1. injection A1 as <-. split; [|exact A2].
      apply spec_default_h. split; [exact A6|]. exists r, G. auto.
    + exfalso. assert (H = x).
      { rewrite <- (wh_tr_src c W H ti) by (rewrite Htr; now left). exact (wh_tr_src c W x ti Hti). }
      subst H. unfold histS, kd in *. rewrite Hkx in Hh. discriminate.
  - intros [Hd Hc]. right. left. exists x. split; [|auto].
    apply spec_default_h in Hd as (Hk & r & G & HDi & Hn).
    apply (proj2 (eng engine_initial_h x)). exists i, r, G. auto 8.
Qed.

(* (3) the default transitions of <history> elements in the engine's transition set: those of the targeted histories
   that have no value -- what Appendix D puts into defaultHistoryContent *)
Theorem trans_set_history_hist_sec H ti : histS c H = true -> In ti (fs_trans (st c H)) ->
  (In ti TF <-> In H TG /\ hv_get h H = None /\ exists r, fs_trans (st c H) = ti :: r).
Proof.
  intros Hh Hti. rewrite (eng engine_ts_h ti). split.
  - intros [Hs|[(x' & Hx' & Hk' & Hin')|(H' & r & H0 & Hh' & Hi & Htr)]].
    + exfalso. pose proof (Hsel_src ti Hs) as Hsrc. rewrite (wh_tr_src c W H ti Hti) in Hsrc.
      pose proof (hist_pseudo c H Hh) as Hp. rewrite (Hprop H Hsrc) in Hp. discriminate.
    + exfalso. assert (x' = H) by (rewrite <- (wh_tr_src c W x' ti Hin'); exact (wh_tr_src c W H ti Hti)). subst x'.
      unfold histS, kd in *. rewrite Hk' in Hh. discriminate.
    + assert (H' = H).
      { rewrite <- (wh_tr_src c W H' ti) by (rewrite Htr; now left). exact (wh_tr_src c W H ti Hti). }
      subst H'. split; [|split; [now apply (hv_none_iff c hist h HR H Hh) | eauto]].
      apply (In_HE0 c W) in H0 as (g & Hg & [->|F]); [exact Hg | exfalso; exact (pseudo_no_anc c W H g (hist_pseudo c H Hh) F)].
  - intros (Ht & Hv & r & Htr). right. right. exists H, r.
    split; [apply (In_HE0 c W); exists H; split; [exact Ht | now left]|]. split; [exact Hh|].
    split; [now apply (hv_none_iff c hist h HR H Hh) | exact Htr].
Qed.

(* (4) defaultHistoryContent: per parent at most one entry *)
Lemma hc_one_spec s p ti : In (p, ti) (hc_one s) <-> histS c s = true /\ hv_get h s = None /\ par s = Some p /\ exists r, fs_trans (st c s) = ti :: r.
Proof.
  unfold RunConformHistSpec.hc_one. rewrite hist_is. destruct (histS c s) eqn:Hh.
  - destruct (hv_get h s) as [v|]; [split; [intros [] | intros (_ & E & _); discriminate]|].
    fold (par s). destruct (fs_trans (st c s)) as [|t0 r]; [split; [destruct (par s); intros [] | intros (_ & _ & _ & r & E); discriminate]|].
    destruct (par s) as [p'|]; [|split; [intros [] | intros (_ & _ & E & _); discriminate]].
    cbn [In]. split.
    + intros [E|[]]. injection E as <- <-. eauto 6.
    + intros (_ & _ & E & r' & E'). injection E as <-. injection E' as <- _. now left.
  - split; [intros [] | intros (E & _); discriminate].
Qed.

Lemma hc_of_spec p ti : In (p, ti) (hc_of sel) <->
  exists tj s, In tj sel /\ In s (ft_targets (tr c tj)) /\ histS c s = true /\ hv_get h s = None /\ par s = Some p /\ exists r, fs_trans (st c s) = ti :: r.
Proof.
  unfold hc_of. rewrite in_flat_map. split.
  - intros (tj & Htj & Hin). apply in_flat_map in Hin as (s & Hs & Hin). apply hc_one_spec in Hin. exists tj, s. tauto.
  - intros (tj & s & Htj & Hs & A). exists tj. split; [exact Htj|]. apply in_flat_map. exists s. split; [exact Hs | now apply hc_one_spec].
Qed.

(* two targeted histories with the same parent are the same target of the same transition *)
Lemma hist_target_unique t1 s1 t2 s2 p : In t1 sel -> In s1 (ft_targets (tr c t1)) -> histS c s1 = true -> par s1 = Some p ->
  In t2 sel -> In s2 (ft_targets (tr c t2)) -> histS c s2 = true -> par s2 = Some p -> t1 = t2 /\ s1 = s2.
Proof.
  intros H1 Hs1 Hh1 Hp1 H2 Hs2 Hh2 Hp2.
  destruct (htarget_below_domain c W cfg sel Hbound Hsel_src t1 s1 H1 Hs1) as (d1 & Hd1 & Ha1).
  destruct (htarget_below_domain c W cfg sel Hbound Hsel_src t2 s2 H2 Hs2) as (d2 & Hd2 & Ha2).
  assert (E : t1 = t2).
  { destruct (Nat.eq_dec t1 t2) as [E|Hne]; [exact E|]. exfalso.
    destruct (HDm_unrelated c W cfg sel Hleg Hbound Hprop Hsel_src Hsel_ok t1 t2 d1 d2 H1 H2 Hne Hd1 Hd2) as (N0 & N1 & N2).
    destruct (anc_child par _ _ _ Hp1 Ha1) as [E1|F1], (anc_child par _ _ _ Hp2 Ha2) as [E2|F2]; subst; try congruence; try tauto.
    destruct (hanc_chain c d1 d2 p F1 F2) as [F|[F|F]]; tauto. }
  subst t2. split; [reflexivity|].
  destruct (res_ok s1 Hh1) as (q1 & R1). destruct (res_ok s2 Hh2) as (q2 & R2).
  apply (hist_parents t1 s1 q1 s2 q2 Hs1 Hh1 R1 Hs2 Hh2 R2). left.
  pose proof (ro_par _ _ R1) as E1. pose proof (ro_par _ _ R2) as E2. congruence.
Qed.

(* defaultHistoryContent is a table (one entry per parent) and holds what hc_of lists *)
Theorem spec_hc_nodup : NoDup (map fst (e_histcontent ES)).
Proof. destruct spec_GI_h as (_ & _ & A). rewrite A. apply hc_ins_keys. constructor. Qed.

Lemma hc_of_fun : hc_fun (hc_of sel).
Proof.
  intros [p1 t1] [p2 t2] H1 H2 E. cbn [fst] in E. subst p2.
  apply hc_of_spec in H1 as (tj1 & s1 & A1 & A2 & A3 & _ & A5 & r1 & A6).
  apply hc_of_spec in H2 as (tj2 & s2 & B1 & B2 & B3 & _ & B5 & r2 & B6).
  destruct (hist_target_unique tj1 s1 tj2 s2 p1 A1 A2 A3 A5 B1 B2 B3 B5) as [_ ->]. rewrite A6 in B6. now injection B6 as ->.
Qed.

Theorem spec_hc_in p ti : In (p, ti) (e_histcontent ES) <-> In (p, ti) (hc_of sel).
Proof.
  destruct spec_GI_h as (_ & _ & A). rewrite A, hc_ins_In; [cbn [In]; tauto|]. rewrite app_nil_r. exact hc_of_fun.
Qed.

(* a state that is entered by default has no targeted history child *)
Theorem default_no_hist_target i s : In i (e_default ES) -> In s TG -> histS c s = true -> par s = Some i -> False.
Proof.
  intros Hd Hs Hh Hp. apply spec_default_h in Hd as (Hk & r & G & HDi & Hn).
  assert (Hs0 : In s (HE0 c TG)) by (apply (In_HE0 c W); exists s; split; [exact Hs | now left]).
  destruct (EHh s Hs0 Hh) as (q & d & G' & Hq & Hb & Hdq & Hadd & (x1 & Hx1)).
  rewrite Hp in Hq. injection Hq as <-. apply Hadd in Hx1 as [Hix1 Hic1].
  destruct (hist_ctx c W BmH HB2h i d G' r G i Hb Hdq (ex_intro _ x1 (conj Hix1 Hic1)) HDi (or_intror (D_below c BmH r G i HDi))) as [-> ->].
  destruct Hic1 as [_ (g & Hg & Hon)]. apply (Hn g Hg). destruct Hon as [->|F]; [exact Hix1 | eapply (hanc_trans c); eauto].
Qed.

Lemma EF_bound_h x : In x EF -> x < n.
Proof. destruct (eng inv_fin_h) as [HF _]. exact (hi_bound _ _ _ _ _ _ _ HF x). Qed.

End MEntryH.
