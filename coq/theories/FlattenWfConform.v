(* FlattenWfConform.v -- C01's conformance theorems (selection, microstep, selection + microstep) with all
   their STATIC hypotheses on the document (FlattenWf.core_treeb, FlattenWfSide.c01_treeb) instead of on the
   flat tables.  The dynamic hypotheses (legal configuration, enabled transitions unrelated, conditions
   evaluate, descriptors conformant) are unchanged.  Proofs only, plus non-vacuity examples. *)
From V Require Import Base NameMatch NameMatchLemmas Chart Exec Large LargeLemmas Spec Legal SetLemmas
  LegalAbstract LegalLarge LegalRun WfCore Interp LegalOracle LargeCacheLemmas ExitSetLemmas
  SelectConform SelectConformLemmas SelectConformOrder SelectConformRoot SelectConformFlatten
  MicroConform MicroConformLemmas MicroConformEntry MicroConformCompose MicroConformFlatten
  FlattenWf FlattenWfLemmas FlattenWfSide FlattenWfSideLemmas FlattenWfRun.
Local Open Scope nat_scope.

Lemma c01_treeb_parts t : c01_treeb t = true ->
  core_treeb t = true /\ ct_par_nonemptyb t = true /\ ct_root_unmentionedb t = true /\
  ct_targets_antichainb t = true /\ ct_done_okb t = true /\ ct_root_silentb t = true.
Proof. unfold c01_treeb. intros P. do 5 (apply andb_true_iff in P as [P ?]). repeat split; assumption. Qed.

Theorem document_selection_conforms_lemma : forall late t0 cfg ev x h,
  let c := flatten late t0 in
  core_treeb t0 = true -> ct_par_nonemptyb t0 = true ->
  legal_configb c cfg = true -> ascb cfg = true ->
  unrelated_enabledb c cfg ev x = true -> conds_pureb c cfg x = true -> descs_okb c cfg ev = true ->
  select_loop lg_fixed c cfg ev (cfg_postfix c cfg) None [] x = Spec.select_transitions c cfg h ev x.
Proof.
  intros late t0 cfg ev x h c Hc Hp. destruct (flatten_wf_core_lemma late t0 Hc) as [W R].
  apply selection_conforms_flatten_lemma; [exact W | exact R | now apply side_par_nonempty].
Qed.

Theorem document_selection_conforms_spec_cfg_lemma : forall late t0 cfg' ev x h,
  let c := flatten late t0 in
  let cfg := 0 :: cfg' in
  core_treeb t0 = true -> ct_par_nonemptyb t0 = true -> ct_root_unmentionedb t0 = true ->
  legal_configb c cfg = true -> ascb cfg = true ->
  unrelated_enabledb c cfg ev x = true -> conds_pureb c cfg x = true -> descs_okb c cfg ev = true ->
  select_loop lg_fixed c cfg ev (cfg_postfix c cfg) None [] x = Spec.select_transitions c cfg' h ev x.
Proof.
  intros late t0 cfg' ev x h c cfg Hc Hp Hr. destruct (flatten_wf_core_lemma late t0 Hc) as [W R].
  apply selection_conforms_spec_cfg_lemma;
    [exact W | exact R | now apply side_par_nonempty | now apply side_root_unmentioned].
Qed.

Theorem document_microstep_conforms_lemma : forall late t0 sel l s x,
  let c := flatten late t0 in
  c01_treeb t0 = true ->
  legal_configb c (l_cfg l) = true -> corr c l s ->
  (forall ti, In ti sel -> In (ft_source (tr c ti)) (l_cfg l)) ->
  pairwise_ok lg_fixed c sel ->
  (forall ti, In ti sel -> ft_history (tr c ti) || ft_initial (tr c ti) = false) ->
  let r := microstep lg_fixed ex_fixed c l (emit TMsB x) (sel_targets c sel) (sel_exitset c (l_cfg l) sel) sel false in
  let q := Spec.spec_microstep c sel s x in
  corr c (fst r) (fst q) /\ snd q = emit (Spec.spec_cfg_tok c (fst q)) (snd r) /\ Spec.s_hv (fst q) = Spec.s_hv s.
Proof.
  intros late t0 sel l s x c P. destruct (c01_side_conditions_lemma late t0 P) as (W & R & A & B & C & D & E).
  now apply microstep_conforms_lemma.
Qed.

Theorem document_microstep_selected_conforms_lemma : forall late t0 l s ev x0 x,
  let c := flatten late t0 in
  c01_treeb t0 = true ->
  legal_configb c (l_cfg l) = true -> corr c l s ->
  let sel := fst (select_loop lg_fixed c (l_cfg l) ev (cfg_postfix c (l_cfg l)) None [] x0) in
  let r := microstep lg_fixed ex_fixed c l (emit TMsB x) (sel_targets c sel) (sel_exitset c (l_cfg l) sel) sel false in
  let q := Spec.spec_microstep c sel s x in
  corr c (fst r) (fst q) /\ snd q = emit (Spec.spec_cfg_tok c (fst q)) (snd r) /\ Spec.s_hv (fst q) = Spec.s_hv s.
Proof.
  intros late t0 l s ev x0 x c P. destruct (c01_side_conditions_lemma late t0 P) as (W & R & A & B & C & D & E).
  now apply microstep_selected_conforms_lemma.
Qed.

Theorem document_step_conforms_lemma : forall late t0 l s ev x,
  let c := flatten late t0 in
  c01_treeb t0 = true ->
  legal_configb c (l_cfg l) = true -> ascb (l_cfg l) = true -> corr c l s ->
  unrelated_enabledb c (l_cfg l) ev x = true -> conds_pureb c (l_cfg l) x = true -> descs_okb c (l_cfg l) ev = true ->
  let r := select_and_step lg_fixed ex_fixed c l x ev in
  let en := fst (Spec.select_transitions c (Spec.s_cfg s) (Spec.s_hv s) ev x) in
  snd (Spec.select_transitions c (Spec.s_cfg s) (Spec.s_hv s) ev x) = x /\
  match en with
  | [] => l_cfg (fst (fst r)) = l_cfg l /\ snd (fst r) = x
  | _ => let q := Spec.spec_microstep c en s x in
         corr c (fst (fst r)) (fst q) /\ snd q = emit (Spec.spec_cfg_tok c (fst q)) (snd (fst r)) /\
         Spec.s_hv (fst q) = Spec.s_hv s
  end.
Proof.
  intros late t0 l s ev x c P. destruct (c01_side_conditions_lemma late t0 P) as (W & R & A & B & C & D & E).
  now apply step_conforms_lemma.
Qed.

Theorem document_entry_set_conforms_lemma : forall late t0 cfg sel h hist,
  let c := flatten late t0 in
  core_treeb t0 = true -> ct_targets_antichainb t0 = true -> legal_configb c cfg = true ->
  (forall ti, In ti sel -> In (ft_source (tr c ti)) cfg) -> pairwise_ok lg_fixed c sel ->
  Spec.e_histcontent (Spec.compute_entry_set c h sel) = [] /\
  forall x, In x (Spec.e_enter (Spec.compute_entry_set c h sel)) <->
            In x (fst (entry_set lg_fixed c cfg (sel_exitset c cfg sel) hist (sel_targets c sel) sel)) /\
            ~ (In x cfg /\ ~ In x (sel_exitset c cfg sel)).
Proof.
  intros late t0 cfg sel h hist c Hc Ha. destruct (flatten_wf_core_lemma late t0 Hc) as [W R].
  apply entry_set_conforms_lemma; [exact W | now apply side_targets_antichain].
Qed.

(* ------------------------------------------------------------------ non-vacuity *)

Example ex_tree_c01 : c01_treeb ex_tree = true.
Proof. vm_compute. reflexivity. Qed.

(* nested parallels, 'initial' attributes, a <final> as grand-child of a <parallel>, multi-target transitions
   into several regions, internal and target-less transitions, conditions and executable content with In():
   scxml0 initial=s2 { s1 --101--> {s8, s12}
                      p2 { s3 initial=s5 { s4  s5 --102 [In(s8)]--> s4  f14 }
                           s6 { p7 { s8 { s9 } s10 { s11 --104--> s12  s12 } } }
                           --105--> s1 ; --106--> (no target) } } *)
Local Open Scope N_scope.
Definition ex_tree3 : tree :=
  wnode KScxml 0 (Some [2]) []
    [wnode KState 1 None [wtr 101 101 (Some [8; 12]) false] [];
     wnode KParallel 2 None [wtr 105 105 (Some [1]) false; wtr 106 106 None false]
       [wnode KState 3 (Some [5]) []
          [wnode KState 4 None [] [];
           TNode KState 5 None
             [{| tt_vid := 102; tt_event := Some [102]; tt_cond := Some (BIn 8); tt_targets := Some [4];
                 tt_internal := false; tt_body := [IIf 201 (BIn 12) [FInstr (IRaise 202 [103])]] |}]
             [[ILog 203 (INum 1)]] [] [] [];
           wnode KFinal 14 None [] []];
        wnode KState 6 None []
          [wnode KParallel 7 None []
             [wnode KState 8 None [] [wnode KState 9 None [] []];
              wnode KState 10 None []
                [wnode KState 11 None [wtr 104 104 (Some [12]) true] []; wnode KState 12 None [] []]]]]].

Example ex_tree3_c01 : c01_treeb ex_tree3 = true.
Proof. vm_compute. reflexivity. Qed.
