(* LegalHistParEntry.v -- the invariant of LargeMicroStep's "iterate for descendants" loop on charts of WFHP
   (LegalHistParBase.v: a <history> may sit directly below a <parallel>).  LegalHistEntry.v with two more
   invariant fields: while a history of a parallel state q waits in the entry set, the entry set holds nothing
   below q but children of q (hip_parh), and at most one pseudo-state of q (hip_parh2). *)
From V Require Import Base NameMatch Chart Exec Large LargeLemmas Legal SetLemmas LegalAbstract LegalLarge LegalHistBase LegalHistEntry LegalHistParBase.
Local Open Scope nat_scope.

Section HPEntry.
Variable c : fchart.
Let n := nstates c.
Let par (i : nat) := fs_parent (st c i).
Let ch (i : nat) := fs_children (st c i).
Let kd (i : nat) := fs_type (st c i).
Let cpl (i : nat) := fs_completion (st c i).
Notation Anc := (Anc par).
Notation pseudo := (pseudoS c).

Hypothesis W : WFHP c.

(* ------------------------------------------------------------------ recorded history *)


Notation Rh := (Rh c).
Notation HistOK := (HistOK c).

Lemma HistOK_nil_p : HistOK [].
Proof. split; [intros x [] | intros h q _ _; left; intros x [_ []]]. Qed.

(* ------------------------------------------------------------------ list-level helpers *)

Lemma In_fold_cond_union_p (P : nat -> bool) (f : nat -> list nat) l : forall acc x,
  In x (fold_left (fun a y => if P y then a else set_union a (f y)) l acc) <->
  In x acc \/ exists y, In y l /\ P y = false /\ In x (f y).
Proof.
  induction l as [|y r IH]; intros acc x; cbn [fold_left].
  - split; [tauto | intros [H|(y & [] & _)]; exact H].
  - rewrite IH. destruct (P y) eqn:E.
    + split.
      * intros [H|(z & Hz & Hp & Hx)]; [tauto | right; exists z; cbn; tauto].
      * intros [H|(z & [->|Hz] & Hp & Hx)]; [tauto | congruence | right; exists z; tauto].
    + rewrite In_set_union. split.
      * intros [[H|H]|(z & Hz & Hp & Hx)]; [tauto | right; exists y; cbn; tauto | right; exists z; cbn; tauto].
      * intros [H|(z & [->|Hz] & Hp & Hx)]; [tauto | tauto | right; exists z; tauto].
Qed.

Lemma In_fold_ins_union_p (f : nat -> list nat) l : forall acc x,
  In x (fold_left (fun e y => set_union (insert_sorted y e) (f y)) l acc) <->
  In x acc \/ exists y, In y l /\ (x = y \/ In x (f y)).
Proof.
  induction l as [|y r IH]; intros acc x; cbn [fold_left].
  - split; [tauto | intros [H|(y & [] & _)]; exact H].
  - rewrite IH, In_set_union, In_insert_sorted'. split.
    + intros [[[->|H]|H]|(z & Hz & Hx)]; [right; exists y; cbn; tauto | tauto | right; exists y; cbn; tauto | right; exists z; cbn; tauto].
    + intros [H|(z & [->|Hz] & Hx)]; [tauto | tauto | right; exists z; tauto].
Qed.

(* ------------------------------------------------------------------ the loop *)

Section Loop.
Variable cfg exitset hist tg ts0 : list nat.
Hypothesis tg_bound : forall g, In g tg -> 0 < g /\ g < n.
Hypothesis HH : HistOK hist.

Notation HE0 := (HE0 c tg).

Lemma In_HE0_p x : In x HE0 <-> exists g, In g tg /\ on_pathP c x g.
Proof.
  unfold LegalHistEntry.HE0, add_ancestors. rewrite In_fold_union. unfold on_pathP. split.
  - intros [H|(g & Hg & Hx)]; [exists x; tauto | exists g; split; [exact Hg|]; right; now apply (whp_anc c W)].
  - intros (g & Hg & [->|Ha]); [tauto | right; exists g; split; [exact Hg|]; now apply (whp_anc c W)].
Qed.

(* the targets name at most one child of every compound *)
Hypothesis HE0_uniq : forall i k1 k2, kd i = FCompound -> par k1 = Some i -> par k2 = Some i ->
  In k1 HE0 -> In k2 HE0 -> k1 = k2.

Notation surv := (surv cfg exitset).

Notation hblocked := (hblocked c cfg exitset).

(* a targeted history of a parallel state q: the targets name nothing below q but children of q, and one
   pseudo-state of q *)
Hypothesis HE0_par : forall q h x, kd q = FParallel -> par h = Some q -> pseudo h = true ->
  In h HE0 -> In x HE0 -> Anc q x -> par x = Some q.
Hypothesis HE0_par2 : forall q h1 h2, kd q = FParallel -> par h1 = Some q -> par h2 = Some q ->
  pseudo h1 = true -> pseudo h2 = true -> In h1 HE0 -> In h2 HE0 -> h1 = h2.

(* a property of the members of the entry set that is inherited along the additions of the loop *)
Variable Q : nat -> Prop.
Hypothesis Q0 : forall x, In x HE0 -> Q x.
Hypothesis Qpar : forall j x, Q j -> kd j = FParallel -> par x = Some j -> pseudo x = false -> Q x.
Hypothesis Qcomp : forall j x, Q j -> kd j = FCompound -> (forall k, par k = Some j -> ~ surv k) -> Anc j x -> Q x.
Hypothesis Qpseudo : forall j q x, Q j -> pseudo j = true -> par j = Some q -> Anc q x -> Q x.

Record HInvP (j : nat) (es : list nat) : Prop := {
  hip_base : forall x, In x HE0 -> pseudo x = false -> In x es;
  hip_Q : forall x, In x es -> Q x;
  hip_bound : forall x, In x es -> x < n;
  hip_closed : closedS c (fun x => In x es);
  hip_uniq : forall i k1 k2, kd i = FCompound -> par k1 = Some i -> par k2 = Some i -> In k1 es -> In k2 es -> k1 <> k2 ->
     (pseudo k1 = true /\ k1 < j /\ pseudo k2 = false) \/ (pseudo k2 = true /\ k2 < j /\ pseudo k1 = false);
  hip_done : forall i, i < j -> In i es ->
     (kd i = FParallel -> forall k, par k = Some i -> pseudo k = false -> In k es) /\
     (kd i = FCompound -> exists k, par k = Some i /\ (surv k \/ (In k es /\ (pseudo k = false \/ j <= k))));
  hip_parh : forall q h x, kd q = FParallel -> par h = Some q -> pseudo h = true -> In h es -> j <= h ->
     In x es -> Anc q x -> par x = Some q;
  hip_parh2 : forall q h1 h2, kd q = FParallel -> par h1 = Some q -> par h2 = Some q ->
     pseudo h1 = true -> pseudo h2 = true -> In h1 es -> In h2 es -> h1 = h2
}.

Lemma HE0_bound_p x : In x HE0 -> x < n.
Proof.
  intros H. apply In_HE0_p in H as (g & Hg & [->|Ha]).
  - now apply tg_bound.
  - destruct (hanc_lt_p c W _ _ Ha). destruct (tg_bound g Hg). lia.
Qed.

Lemma HE0_closed_p : closedS c (fun x => In x HE0).
Proof.
  intros x p H0 Hp. apply In_HE0_p in H0 as (g & Hg & Hx). apply In_HE0_p. exists g. split; [exact Hg|].
  right. destruct Hx as [->|Ha]; [now apply anc_parent | eapply (hanc_trans_p c); [apply anc_parent; eauto | exact Ha]].
Qed.

Lemma HInv_0_p : HInvP 0 HE0.
Proof.
  constructor.
  - auto.
  - exact Q0.
  - exact HE0_bound_p.
  - exact HE0_closed_p.
  - intros i k1 k2 Hi H1 H2 He1 He2 Hne. exfalso. apply Hne. eapply HE0_uniq; eauto.
  - intros i Hi. lia.
  - intros q h x Hq Hp Hps Hh _ Hx Ha. eapply HE0_par; eauto.
  - exact HE0_par2.
Qed.

(* nothing is added *)
Lemma HInv_keep_p j es : HInvP j es ->
  (In j es -> pseudo j = false /\ kd j <> FParallel /\ (kd j = FCompound -> hblocked es j)) ->
  HInvP (S j) es.
Proof.
  intros HI Hj. constructor.
  - exact (hip_base _ _ HI).
  - exact (hip_Q _ _ HI).
  - exact (hip_bound _ _ HI).
  - exact (hip_closed _ _ HI).
  - intros i k1 k2 Hi H1 H2 He1 He2 Hne.
    destruct (hip_uniq _ _ HI i k1 k2 Hi H1 H2 He1 He2 Hne) as [(A & B & C)|(A & B & C)]; [left | right]; repeat split; auto; lia.
  - intros i Hi Hie. destruct (Nat.eq_dec i j) as [->|Hne].
    + destruct (Hj Hie) as (Hps & Hnp & Hc). split; [intros Hk; contradiction|].
      intros Hk. destruct (Hc Hk) as (k & Hin & Hb). exists k.
      assert (Hpk : par k = Some j) by now apply (whp_children c W).
      split; [exact Hpk|]. destruct Hb as [Hb|Hb]; [right | now left].
      split; [exact Hb|]. right. destruct (whp_par_lt c W _ _ Hpk). lia.
    + destruct (hip_done _ _ HI i ltac:(lia) Hie) as [Hp Hc]. split; [exact Hp|].
      intros Hk. destruct (Hc Hk) as (k & Hpk & [Hs|[He [Hps|Hle]]]); exists k; (split; [exact Hpk|]); [now left | right; tauto|].
      right. split; [exact He|].
      destruct (Nat.eq_dec k j) as [->|Hkj]; [left; exact (proj1 (Hj He)) | right; lia].
  - intros q h x Hq Hp Hps Hh Hle. apply (hip_parh _ _ HI q h x Hq Hp Hps Hh). lia.
  - exact (hip_parh2 _ _ HI).
Qed.

(* a parallel state adds its proper children *)
Lemma HInv_par_p j es es' : HInvP j es -> In j es -> kd j = FParallel ->
  (forall x, In x es' <-> In x es \/ (par x = Some j /\ pseudo x = false)) -> HInvP (S j) es'.
Proof.
  intros HI Hje Hk Hes.
  assert (Hold : forall x, In x es' -> ~ In x es -> par x = Some j /\ pseudo x = false).
  { intros x Hx Hn. apply Hes in Hx as [Hx|Hx]; [contradiction | exact Hx]. }
  assert (Hpsold : forall x, In x es' -> pseudo x = true -> In x es).
  { intros x Hx Hps. destruct (in_dec Nat.eq_dec x es) as [H|H]; [exact H|]. destruct (Hold x Hx H) as [_ E]. congruence. }
  constructor.
  - intros x Hx Hpx. apply Hes. left. now apply (hip_base _ _ HI).
  - intros x Hx. apply Hes in Hx as [Hx|[Hx Hpx]]; [now apply (hip_Q _ _ HI)|].
    exact (Qpar j x (hip_Q _ _ HI j Hje) Hk Hx Hpx).
  - intros x Hx. apply Hes in Hx as [Hx|[Hx _]]; [now apply (hip_bound _ _ HI)|].
    now destruct (whp_par_lt c W _ _ Hx).
  - intros x p Hx Hp. apply Hes. left. apply Hes in Hx as [Hx|[Hx _]]; [exact (hip_closed _ _ HI x p Hx Hp)|].
    pose proof (eq_trans (eq_sym Hp) Hx) as E. injection E as ->. exact Hje.
  - intros i k1 k2 Hi H1 H2 He1 He2 Hne.
    assert (Hin : forall k, par k = Some i -> In k es' -> In k es).
    { intros k Hpk Hke. destruct (in_dec Nat.eq_dec k es) as [H|H]; [exact H|]. exfalso.
      destruct (Hold k Hke H) as [Hpj _]. pose proof (eq_trans (eq_sym Hpk) Hpj) as E. injection E as ->.
      unfold kd in *. congruence. }
    destruct (hip_uniq _ _ HI i k1 k2 Hi H1 H2 (Hin _ H1 He1) (Hin _ H2 He2) Hne) as [(A & B & C)|(A & B & C)];
      [left | right]; repeat split; auto; lia.
  - intros i Hi Hie.
    assert (Hie0 : In i es).
    { destruct (in_dec Nat.eq_dec i es) as [H|H]; [exact H|]. exfalso.
      destruct (Hold i Hie H) as [Hp _]. destruct (whp_par_lt c W _ _ Hp). lia. }
    destruct (Nat.eq_dec i j) as [->|Hne].
    + split; [|intros Hc; unfold kd in *; congruence]. intros _ k Hin Hpk. apply Hes. now right.
    + destruct (hip_done _ _ HI i ltac:(lia) Hie0) as [Hp Hc]. split.
      * intros Hki k Hin Hpk. apply Hes. left. now apply Hp.
      * intros Hki. destruct (Hc Hki) as (k & Hpk & [Hs|[He [Hps|Hle]]]); exists k; (split; [exact Hpk|]);
          [now left | right; split; [apply Hes; now left | now left]|].
        right. split; [apply Hes; now left|].
        destruct (Nat.eq_dec k j) as [->|Hkj]; [left; unfold pseudoS; fold (kd j); now rewrite Hk | right; lia].
  - intros q h x Hq Hp Hps Hh Hle Hx Ha.
    pose proof (Hpsold h Hh Hps) as Hh0.
    destruct (in_dec Nat.eq_dec x es) as [Hx0|Hx0]; [apply (hip_parh _ _ HI q h x Hq Hp Hps Hh0); [lia | exact Hx0 | exact Ha]|].
    destruct (Hold x Hx Hx0) as [Hpx _].
    destruct (anc_child par _ _ _ Hpx Ha) as [->|Hqj]; [exact Hpx|]. exfalso.
    (* j is a region of q, and the history h of q precedes the regions *)
    assert (Hpj : par j = Some q) by (apply (hip_parh _ _ HI q h j Hq Hp Hps Hh0); [lia | exact Hje | exact Hqj]).
    assert (Hhh : histS c h = true).
    { destruct (whp_pseudo_parent c W h Hps) as (q' & Hq' & [Hc|[Hc _]]); [|exact Hc].
      pose proof (eq_trans (eq_sym Hp) Hq') as E. injection E as <-. unfold kd in *. congruence. }
    destruct (whp_par_hist c W h q Hhh Hp Hq) as [_ Hfirst].
    assert (Hjp : pseudo j = false) by (unfold pseudoS; fold (kd j); now rewrite Hk).
    specialize (Hfirst j Hpj Hjp). lia.
  - intros q h1 h2 Hq H1 H2 P1 P2 He1 He2. exact (hip_parh2 _ _ HI q h1 h2 Hq H1 H2 P1 P2 (Hpsold _ He1 P1) (Hpsold _ He2 P2)).
Qed.

(* a fragment is added below q: q = j for a compound that is not blocked, q = the parent for a pseudo-state (a
   compound state, or a parallel state for a history); the pseudo-state itself may be taken out of the set (rm; the
   fast engine does that for <initial>).  Spar: what the fragment names below a parallel state of which it names a
   pseudo-state (only completion lists can do that). *)
Lemma HInv_grow_rm_p (rm : bool) j es es' q (S : nat -> Prop) : HInvP j es -> In j es ->
  ((q = j /\ kd j = FCompound /\ ~ hblocked es j /\ rm = false) \/
   (pseudo j = true /\ par j = Some q /\ forall x, S x -> pseudo x = false)) ->
  Frag c q S -> (forall x, S x -> j < x /\ x < n) ->
  (forall p h x, kd p = FParallel -> par h = Some p -> pseudo h = true -> S h -> S x -> Anc p x ->
                 par x = Some p /\ (pseudo x = true -> x = h)) ->
  (forall x, In x es' <-> (In x es /\ (rm = true -> x <> j)) \/ S x) -> HInvP (Datatypes.S j) es'.
Proof.
  intros HI Hje Hcase HF Hgt Spar Hes.
  assert (Hrm : rm = true -> pseudo j = true).
  { intros E. destruct Hcase as [(_ & _ & _ & E')|(Hps & _)]; [congruence | exact Hps]. }
  assert (Hkeep : forall x, In x es -> pseudo x = false -> In x es').
  { intros x Hx Hp. apply Hes. left. split; [exact Hx|]. intros E ->. rewrite (Hrm E) in Hp. discriminate. }
  assert (Hback : forall x, In x es' -> In x es \/ S x) by (intros x Hx; apply Hes in Hx; tauto).
  assert (Hqe : In q es).
  { destruct Hcase as [(-> & _)|(_ & Hp & _)]; [exact Hje | exact (hip_closed _ _ HI j q Hje Hp)]. }
  (* what the entry set holds strictly below q: the pseudo-state j itself, or children of a parallel q *)
  assert (Hnodesc : forall x, In x es -> Anc q x ->
                              (x = j /\ pseudo j = true /\ par j = Some q) \/ (par x = Some q /\ kd q = FParallel /\ pseudo j = true /\ par j = Some q)).
  { intros x Hx Ha.
    destruct (closed_desc_child c (fun x => In x es) q x (hip_closed _ _ HI) Hx Ha) as (k & Hk & Hke & Hon).
    destruct Hcase as [(-> & Hkj & Hnb & _)|(Hps & Hp & _)].
    - exfalso. apply Hnb. exists k. split; [now apply (whp_children c W) | now left].
    - destruct (whp_pseudo_parent c W j Hps) as (q' & Hq' & Hkq). pose proof (eq_trans (eq_sym Hp) Hq') as E. injection E as <-.
      destruct Hkq as [Hkq|[_ Hkq]].
      + left. destruct (Nat.eq_dec k j) as [->|Hne].
        * split; [|tauto]. destruct Hon as [->|Hjx]; [reflexivity | exfalso; exact (pseudo_no_anc_p c W j x Hps Hjx)].
        * exfalso. destruct (hip_uniq _ _ HI q k j Hkq Hk Hp Hke Hje Hne) as [(_ & _ & C)|(_ & B & _)]; [congruence | lia].
      + right. split; [|tauto]. exact (hip_parh _ _ HI q j x Hkq Hp Hps Hje (le_n j) Hx Ha). }
  assert (Hpsold : forall x, In x es' -> pseudo x = true -> In x es \/ (S x /\ q = j /\ kd j = FCompound)).
  { intros x Hx Hps. apply Hback in Hx as [Hx|Hx]; [now left|]. right. split; [exact Hx|].
    destruct Hcase as [(A & B & _)|(_ & _ & Hprop)]; [tauto|]. rewrite (Hprop x Hx) in Hps. discriminate. }
  constructor.
  - intros x Hx Hpx. apply Hkeep; [now apply (hip_base _ _ HI) | exact Hpx].
  - intros x Hx. apply Hback in Hx as [Hx|Hx]; [now apply (hip_Q _ _ HI)|].
    pose proof (fr_below c q S HF x Hx) as Hqx. pose proof (hip_Q _ _ HI j Hje) as HQj.
    destruct Hcase as [(-> & Hkj & Hnb & _)|(Hps & Hp & _)].
    + apply (Qcomp j x HQj Hkj); [|exact Hqx]. intros k Hpk Hs. apply Hnb. exists k.
      split; [now apply (whp_children c W) | now right].
    + exact (Qpseudo j q x HQj Hps Hp Hqx).
  - intros x Hx. apply Hback in Hx as [Hx|Hx]; [now apply (hip_bound _ _ HI) | now apply Hgt].
  - intros x p Hx Hp. apply Hback in Hx as [Hx|Hx].
    + apply Hkeep; [exact (hip_closed _ _ HI x p Hx Hp) | exact (parent_not_pseudo_p c W x p Hp)].
    + destruct (fr_par c q S HF x p Hx Hp) as [->|Hsp]; [|apply Hes; now right].
      apply Hkeep; [exact Hqe | exact (parent_not_pseudo_p c W x q Hp)].
  - intros i k1 k2 Hi H1 H2 He1 He2 Hne.
    (* a new child of i next to an old one: i = q and the old one is the pseudo-state j *)
    assert (Hmix : forall a b, par a = Some i -> par b = Some i -> S a -> In b es ->
                               pseudo b = true /\ b < Datatypes.S j /\ pseudo a = false).
    { intros a b Ha Hb HSa Hbe.
      assert (Hqb : Anc q b).
      { destruct (fr_par c q S HF a i HSa Ha) as [->|HSi]; [now apply anc_parent|].
        eapply anc_step; [exact Hb | exact (fr_below c q S HF i HSi)]. }
      destruct (Hnodesc b Hbe Hqb) as [(-> & Hps & Hpj)|(Hpb & Hkq & _)].
      - split; [exact Hps|]. split; [lia|].
        destruct Hcase as [(_ & Hkj & _)|(_ & _ & Hprop)]; [|now apply Hprop].
        unfold pseudoS in Hps. fold (kd j) in Hps. rewrite Hkj in Hps. discriminate.
      - exfalso. pose proof (eq_trans (eq_sym Hb) Hpb) as E. injection E as ->. unfold kd in *. congruence. }
    destruct (in_dec Nat.eq_dec k1 es) as [A1|A1], (in_dec Nat.eq_dec k2 es) as [A2|A2].
    + destruct (hip_uniq _ _ HI i k1 k2 Hi H1 H2 A1 A2 Hne) as [(A & B & C)|(A & B & C)]; [left | right]; repeat split; auto; lia.
    + left. apply Hback in He2 as [He2|He2]; [contradiction|]. exact (Hmix k2 k1 H2 H1 He2 A1).
    + right. apply Hback in He1 as [He1|He1]; [contradiction|]. exact (Hmix k1 k2 H1 H2 He1 A2).
    + exfalso. apply Hback in He1 as [He1|He1]; [contradiction|]. apply Hback in He2 as [He2|He2]; [contradiction|].
      apply Hne. exact (fr_uniq c q S HF i k1 k2 Hi H1 H2 He1 He2).
  - intros i Hi Hie.
    assert (Hie0 : In i es).
    { apply Hback in Hie as [H|H]; [exact H|]. destruct (Hgt i H). lia. }
    destruct (fr_child c q S HF) as (kq & Hkq & HSkq).
    assert (Hkq' : In kq es') by (apply Hes; now right).
    destruct (Nat.eq_dec i j) as [->|Hne].
    + destruct Hcase as [(-> & Hkj & _)|(Hps & _ & _)].
      * split; [intros Hp; unfold kd in *; congruence|]. intros _. exists kq. split; [exact Hkq|]. right.
        split; [exact Hkq'|]. right. destruct (Hgt kq HSkq). lia.
      * unfold pseudoS in Hps. fold (kd j) in Hps. split; intros Hkj; rewrite Hkj in Hps; discriminate.
    + destruct (hip_done _ _ HI i ltac:(lia) Hie0) as [Hp Hc]. split.
      * intros Hki k Hin Hpk. now apply Hkeep; [apply Hp|].
      * intros Hki. destruct (Hc Hki) as (k & Hpk & [Hs|[He [Hps|Hle]]]).
        -- exists k. split; [exact Hpk | now left].
        -- exists k. split; [exact Hpk|]. right. split; [now apply Hkeep | now left].
        -- destruct (Nat.eq_dec k j) as [->|Hkj].
           ++ destruct Hcase as [(_ & Hkj & _ & Erm)|(Hps & Hpj & Hprop)].
              ** exists j. split; [exact Hpk|]. right. split; [|left; unfold pseudoS; fold (kd j); now rewrite Hkj].
                 apply Hes. left. split; [exact He | intros E; congruence].
              ** pose proof (eq_trans (eq_sym Hpj) Hpk) as E. injection E as <-.
                 exists kq. split; [exact Hkq|]. right. split; [exact Hkq'|]. left. now apply Hprop.
           ++ exists k. split; [exact Hpk|]. right. split; [|right; lia].
              apply Hes. left. split; [exact He | intros _; exact Hkj].
  - (* hip_parh *)
    intros p h x Hkp Hph Hps Hh Hle Hx Ha.
    destruct (Hpsold h Hh Hps) as [Hh0|(HSh & -> & Hkj)].
    2: { (* h is new: everything of es' below p is new *)
      assert (Hqp : Anc j p \/ p = j).
      { destruct (fr_par c j S HF h p HSh Hph) as [->|HSp]; [now right | left; exact (fr_below c j S HF p HSp)]. }
      destruct Hqp as [Hqp| ->]; [|unfold kd in *; congruence].
      apply Hback in Hx as [Hx0|HSx]; [|exact (proj1 (Spar p h x Hkp Hph Hps HSh HSx Ha))].
      exfalso. destruct (Hnodesc x Hx0 (hanc_trans c _ _ _ Hqp Ha)) as [(_ & E & _)|(_ & _ & E & _)];
        unfold pseudoS in E; fold (kd j) in E; rewrite Hkj in E; discriminate. }
    apply Hback in Hx as [Hx0|HSx]; [apply (hip_parh _ _ HI p h x Hkp Hph Hps Hh0); [lia | exact Hx0 | exact Ha]|].
    exfalso. pose proof (fr_below c q S HF x HSx) as Hqx.
    destruct (hanc_chain c p q x Ha Hqx) as [->|[Hpq|Hqp]].
    + (* p = q: j and h are two pseudo-states of the parallel q in es *)
      destruct Hcase as [(-> & Hkj & _)|(Hpsj & Hpj & _)]; [unfold kd in *; congruence|].
      pose proof (hip_parh2 _ _ HI q h j Hkp Hph Hpj Hps Hpsj Hh0 Hje). lia.
    + (* q below p: q is a child of p *)
      assert (Hpq' : par q = Some p) by (apply (hip_parh _ _ HI p h q Hkp Hph Hps Hh0); [lia | exact Hqe | exact Hpq]).
      destruct Hcase as [(-> & Hkj & _)|(Hpsj & Hpj & _)].
      * assert (Hhh : histS c h = true).
        { destruct (whp_pseudo_parent c W h Hps) as (q' & Hq' & [Hc|[Hc _]]); [|exact Hc].
          pose proof (eq_trans (eq_sym Hph) Hq') as E. injection E as <-. unfold kd in *. congruence. }
        destruct (whp_par_hist c W h p Hhh Hph Hkp) as [_ Hfirst].
        assert (Hjp : pseudo j = false) by (unfold pseudoS; fold (kd j); now rewrite Hkj).
        specialize (Hfirst j Hpq' Hjp). lia.
      * assert (Hpj' : par j = Some p).
        { apply (hip_parh _ _ HI p h j Hkp Hph Hps Hh0); [lia | exact Hje|]. eapply anc_step; [exact Hpj | exact Hpq]. }
        pose proof (eq_trans (eq_sym Hpj) Hpj') as E. injection E as ->. exact (hanc_irrefl_p c W _ Hpq).
    + (* p below q: h is in es strictly below q *)
      assert (Hqh : Anc q h) by (eapply anc_step; [exact Hph | exact Hqp]).
      destruct (Hnodesc h Hh0 Hqh) as [(-> & _)|(Hph' & _)]; [lia|].
      pose proof (eq_trans (eq_sym Hph) Hph') as E. injection E as ->. exact (hanc_irrefl_p c W _ Hqp).
  - (* hip_parh2 *)
    intros p h1 h2 Hkp H1 H2 P1 P2 He1 He2.
    destruct (Hpsold h1 He1 P1) as [A1|(S1 & Eq & Hkj)], (Hpsold h2 He2 P2) as [A2|(S2 & Eq2 & Hkj2)].
    + exact (hip_parh2 _ _ HI p h1 h2 Hkp H1 H2 P1 P2 A1 A2).
    + exfalso. subst q.
      assert (Hjp : Anc j p).
      { destruct (fr_par c j S HF h2 p S2 H2) as [->|HSp]; [unfold kd in *; congruence | exact (fr_below c j S HF p HSp)]. }
      destruct (Hnodesc h1 A1 (anc_step par h1 p j H1 Hjp)) as [(_ & E & _)|(_ & _ & E & _)];
        unfold pseudoS in E; fold (kd j) in E; rewrite Hkj2 in E; discriminate.
    + exfalso. subst q.
      assert (Hjp : Anc j p).
      { destruct (fr_par c j S HF h1 p S1 H1) as [->|HSp]; [unfold kd in *; congruence | exact (fr_below c j S HF p HSp)]. }
      destruct (Hnodesc h2 A2 (anc_step par h2 p j H2 Hjp)) as [(_ & E & _)|(_ & _ & E & _)];
        unfold pseudoS in E; fold (kd j) in E; rewrite Hkj in E; discriminate.
    + symmetry. apply (proj2 (Spar p h1 h2 Hkp H1 P1 S1 S2 (anc_parent par h2 p H2))). exact P2.
Qed.

Lemma HInv_grow_p j es es' q (S : nat -> Prop) : HInvP j es -> In j es ->
  ((q = j /\ kd j = FCompound /\ ~ hblocked es j) \/
   (pseudo j = true /\ par j = Some q /\ forall x, S x -> pseudo x = false)) ->
  Frag c q S -> (forall x, S x -> j < x /\ x < n) ->
  (forall p h x, kd p = FParallel -> par h = Some p -> pseudo h = true -> S h -> S x -> Anc p x ->
                 par x = Some p /\ (pseudo x = true -> x = h)) ->
  (forall x, In x es' <-> In x es \/ S x) -> HInvP (Datatypes.S j) es'.
Proof.
  intros HI Hje Hcase HF Hgt Spar Hes. apply (HInv_grow_rm_p false j es es' q S HI Hje); auto.
  - destruct Hcase as [(A & B & C)|H]; [left; tauto | right; exact H].
  - intros x. rewrite Hes. split; [intros [H|H]; [left; split; [exact H | discriminate] | now right] | tauto].
Qed.

(* the fragments of proper states name no pseudo-state *)
Lemma Spar_proper (S : nat -> Prop) : (forall x, S x -> pseudo x = false) ->
  forall p h x, kd p = FParallel -> par h = Some p -> pseudo h = true -> S h -> S x -> Anc p x ->
                par x = Some p /\ (pseudo x = true -> x = h).
Proof. intros Hprop p h x _ _ Hps HSh. rewrite (Hprop h HSh) in Hps. discriminate. Qed.

(* the inner closure of a list with the clause hist_par_ok *)
Lemma Spar_IC q T : hist_par_ok c T ->
  forall p h x, kd p = FParallel -> par h = Some p -> pseudo h = true -> IC c q T h -> IC c q T x -> Anc p x ->
                par x = Some p /\ (pseudo x = true -> x = h).
Proof.
  intros Hok p h x Hkp Hph Hps [_ (gh & Hgh & Honh)] [_ (g & Hg & Hon)] Hpx.
  assert (Eh : h = gh) by (destruct Honh as [E|Ha]; [exact E | exfalso; exact (pseudo_no_anc_p c W h gh Hps Ha)]). subst gh.
  assert (Hhh : histS c h = true).
  { destruct (whp_pseudo_parent c W h Hps) as (q' & Hq' & [Hc|[Hc _]]); [|exact Hc].
    pose proof (eq_trans (eq_sym Hph) Hq') as E. injection E as <-. unfold kd in *. congruence. }
  assert (Hpg : Anc p g) by (destruct Hon as [->|Hxg]; [exact Hpx | eapply hanc_trans; eauto]).
  destruct (Hok h p g Hgh Hhh Hph Hkp Hg Hpg) as [Hparg Hone].
  destruct Hon as [->|Hxg]; [tauto|]. exfalso.
  destruct (anc_child par _ _ _ Hparg Hxg) as [->|Hxp]; [exact (hanc_irrefl_p c W _ Hpx) | exact (hanc_antisym_p c W _ _ Hpx Hxp)].
Qed.

(* ---- the additions of the single cases are fragments ---- *)

Lemma ch_nil_pseudo_p j : pseudo j = true -> forall k, ~ In k (ch j).
Proof. intros Hps k Hk. apply (whp_children c W) in Hk. exact (whp_pseudo_leaf c W j k Hps Hk). Qed.

(* es ∪ T ∪ all ancestors of T, for T below q, q in the closed set es: es ∪ IC q T *)
Lemma full_closed_IC_p es q T x : closedS c (fun y => In y es) -> In q es -> T <> [] -> (forall g, In g T -> Anc q g) ->
  ((In x es \/ exists g, In g T /\ on_pathP c x g) <-> (In x es \/ IC c q T x)).
Proof.
  intros Hc Hq Hne Hb. rewrite (full_vs_IC_p c q T x Hb). split.
  - intros [H|[H|[[->|Ha] _]]]; [tauto | tauto | tauto | left; exact (closed_anc_p c (fun y => In y es) q x Hc Hq Ha)].
  - tauto.
Qed.

Lemma IC_gt_p q T j x : (forall g, In g T -> j < g /\ g < n) -> (forall y, Anc q y -> j < y \/ ~ (exists g, In g T /\ on_pathP c y g)) ->
  IC c q T x -> j < x /\ x < n.
Proof.
  intros HT Hy [Hqx (g & Hg & Hon)]. destruct (HT g Hg) as [A B].
  split.
  - destruct (Hy x Hqx) as [H|H]; [exact H | exfalso; apply H; exists g; tauto].
  - destruct Hon as [->|Ha]; [exact B | destruct (hanc_lt_p c W _ _ Ha); lia].
Qed.

(* a state on the path from a child region of q to a target above index j lies above j, when j is a leaf child of q *)
Lemma inner_gt_leaf_p q j y g : par j = Some q -> pseudo j = true -> Anc q y -> on_pathP c y g -> j < g -> j < y.
Proof.
  intros Hpj Hps Hqy Hon Hjg. destruct Hon as [->|Hyg]; [exact Hjg|].
  destruct (Nat.lt_ge_cases j y) as [H|H]; [exact H|]. exfalso.
  destruct (hanc_lt_p c W _ _ Hyg) as [Hyg1 Hgn]. destruct (hanc_lt_p c W _ _ Hqy) as [Hqy1 Hyn].
  destruct (whp_par_lt c W _ _ Hpj) as [_ Hjn].
  destruct (Nat.eq_dec y j) as [->|Hne]; [exact (pseudo_no_anc_p c W j g Hps Hyg)|].
  (* y < j < g and g below y: j below y *)
  assert (Hyj : Anc y j).
  { apply (whp_interval c W y j Hyn Hjn). apply (whp_interval c W y g Hyn Hgn) in Hyg. lia. }
  destruct (anc_child par _ _ _ Hpj Hyj) as [->|Hyq]; [exact (hanc_irrefl_p c W _ Hqy) | exact (hanc_antisym_p c W _ _ Hqy Hyq)].
Qed.

Lemma HInv_step_p j es ts : j < n -> HInvP j es ->
  HInvP (S j) (fst (descend_one lg_fixed c cfg exitset hist (es, ts) j)).
Proof.
  intros Hj HI. unfold descend_one. destruct (mem j es) eqn:Hm; cbn [negb].
  2: { cbn [fst]. apply mem_false_In in Hm. apply HInv_keep_p; [exact HI | intros H; contradiction]. }
  apply mem_In in Hm.
  destruct (fs_type (st c j)) eqn:Hk.
  - (* atomic *) cbn [fst]. apply HInv_keep_p; [exact HI|]. intros _. unfold pseudoS, kd. rewrite Hk.
    repeat split; try discriminate.
  - (* compound *)
    fold (ch j). destruct (existsb _ (ch j)) eqn:Hb.
    + cbn [fst]. apply existsb_hblocked in Hb. apply HInv_keep_p; [exact HI|]. intros _. unfold pseudoS, kd. rewrite Hk.
      repeat split; try discriminate. intros _. exact Hb.
    + assert (Hnb : ~ hblocked es j) by (intros Hbl; apply existsb_hblocked in Hbl; unfold ch in *; congruence).
      cbn [fst]. destruct (whp_compound c W j Hk) as [Hne Hbelow]. fold (cpl j) in *.
      apply (HInv_grow_p j es _ j (IC c j (cpl j)) HI Hm).
      * left. auto.
      * apply (frag_IC_p c); [exact Hne | exact Hbelow | exact (proj1 (whp_cpl_sets c W j Hk))].
      * intros x [Hjx (g & Hg & Hon)]. destruct (hanc_lt_p c W _ _ Hjx). lia.
      * apply Spar_IC. exact (proj2 (whp_cpl_sets c W j Hk)).
      * intros x. rewrite In_fold_cond_union_p, In_set_union.
        rewrite <- (full_closed_IC_p es j (cpl j) x (hip_closed _ _ HI) Hm Hne Hbelow). split.
        -- intros [[H|H]|(g & Hg & Hp & Hx)]; [tauto | right; exists x; split; [exact H | now left]|].
           right. exists g. split; [exact Hg|]. right. now apply (whp_anc c W).
        -- intros [H|(g & Hg & [->|Ha])]; [tauto | tauto|].
           destruct (mem g (ch j)) eqn:Hgc.
           ++ (* an ancestor of a child of j: j or above, in es *)
              left. left. apply mem_In, (whp_children c W) in Hgc.
              destruct (anc_child par _ _ _ Hgc Ha) as [->|Hxj]; [exact Hm | exact (closed_anc_p c (fun y => In y es) j x (hip_closed _ _ HI) Hm Hxj)].
           ++ right. exists g. split; [exact Hg|]. split; [exact Hgc|]. now apply (whp_anc c W).
  - (* parallel *)
    cbn [fst]. apply (HInv_par_p j es _ HI Hm Hk). intros x. rewrite In_set_union. now rewrite (whp_parallel c W j x Hk).
  - (* final *) cbn [fst]. apply HInv_keep_p; [exact HI|]. intros _. unfold pseudoS, kd. rewrite Hk.
    repeat split; try discriminate.
  - (* shallow history *)
    assert (Hps : pseudo j = true) by (unfold pseudoS; fold (kd j); unfold kd; now rewrite Hk).
    assert (Hhs : histS c j = true) by (unfold histS; now rewrite Hk).
    destruct (whp_pseudo_parent c W j Hps) as (q & Hpq & Hkq).
    destruct (whp_hist_cpl c W j q Hhs Hpq) as [Hcpl _].
    rewrite orb_true_r. cbn [andb]. fold (cpl j). destruct (intersects (cpl j) hist) eqn:Hint; cbn [negb].
    + cbn [fst]. destruct HH as [Hprop HR]. destruct (HR j q Hhs Hpq) as [Hnone|HF].
      { exfalso. apply intersects_spec in Hint as (x & H1 & H2). apply (Hnone x). split; assumption. }
      apply (HInv_grow_p j es _ q (Rh hist j) HI Hm).
      * right. split; [exact Hps|]. split; [exact Hpq|]. intros x [_ Hx]. now apply Hprop.
      * exact HF.
      * intros x [Hx1 Hx2]. destruct (Hcpl x Hx1) as (A & B & _). split; [apply B; now apply Hprop | exact A].
      * apply Spar_proper. intros x [_ Hx]. now apply Hprop.
      * intros x. rewrite In_set_union, In_set_inter. unfold LegalHistEntry.Rh. tauto.
    + destruct (whp_hist_default c W j q Hhs Hpq) as (ti & r & Htr & Htne & Htg). rewrite Htr. cbn [fst].
      unfold deepS in Htg. rewrite Hk in Htg.
      assert (Hch : forall g, In g (ft_targets (tr c ti)) -> par g = Some q) by (intros g Hg; now destruct (Htg g Hg) as (_ & _ & H)).
      apply (HInv_grow_p j es _ q (IC c q (ft_targets (tr c ti))) HI Hm).
      * right. split; [exact Hps|]. split; [exact Hpq|]. intros x Hx. apply (IC_children_p c W q _ x Hch) in Hx. now destruct (Htg x Hx) as (_ & H & _).
      * apply (frag_IC_p c); [exact Htne | intros g Hg; apply anc_parent; now apply Hch | exact (proj1 (whp_target_sets c W ti))].
      * intros x Hx. apply (IC_children_p c W q _ x Hch) in Hx. destruct (Htg x Hx) as (A & _ & _).
        split; [exact A | now destruct (whp_tr_targets c W ti x Hx)].
      * apply Spar_proper. intros x Hx. apply (IC_children_p c W q _ x Hch) in Hx. now destruct (Htg x Hx) as (_ & H & _).
      * intros x. rewrite In_set_union. now rewrite (IC_children_p c W q _ x Hch).
  - (* deep history *)
    assert (Hps : pseudo j = true) by (unfold pseudoS; fold (kd j); unfold kd; now rewrite Hk).
    assert (Hhs : histS c j = true) by (unfold histS; now rewrite Hk).
    destruct (whp_pseudo_parent c W j Hps) as (q & Hpq & Hkq).
    destruct (whp_hist_cpl c W j q Hhs Hpq) as [Hcpl _].
    rewrite orb_true_r. cbn [andb]. fold (cpl j). destruct (intersects (cpl j) hist) eqn:Hint; cbn [negb].
    + cbn [fst]. destruct HH as [Hprop HR]. destruct (HR j q Hhs Hpq) as [Hnone|HF].
      { exfalso. apply intersects_spec in Hint as (x & H1 & H2). apply (Hnone x). split; assumption. }
      apply (HInv_grow_p j es _ q (Rh hist j) HI Hm).
      * right. split; [exact Hps|]. split; [exact Hpq|]. intros x [_ Hx]. now apply Hprop.
      * exact HF.
      * intros x [Hx1 Hx2]. destruct (Hcpl x Hx1) as (A & B & _). split; [apply B; now apply Hprop | exact A].
      * apply Spar_proper. intros x [_ Hx]. now apply Hprop.
      * intros x. rewrite In_set_union, In_set_inter. unfold LegalHistEntry.Rh. tauto.
    + destruct (whp_hist_default c W j q Hhs Hpq) as (ti & r & Htr & Htne & Htg). rewrite Htr. cbn [fst].
      unfold deepS in Htg. rewrite Hk in Htg.
      assert (Hbelow : forall g, In g (ft_targets (tr c ti)) -> Anc q g) by (intros g Hg; now destruct (Htg g Hg) as (_ & _ & H)).
      assert (Hni : intersects (ft_targets (tr c ti)) (fs_children (st c j)) = false).
      { destruct (intersects (ft_targets (tr c ti)) (fs_children (st c j))) eqn:E; [|reflexivity]. exfalso. apply intersects_spec in E as (x & _ & Hx). exact (ch_nil_pseudo_p j Hps x Hx). }
      rewrite Hni. cbn [negb fst].
      assert (Hqe : In q es) by exact (hip_closed _ _ HI j q Hm Hpq).
      apply (HInv_grow_p j es _ q (IC c q (ft_targets (tr c ti))) HI Hm).
      * right. split; [exact Hps|]. split; [exact Hpq|]. intros x [Hqx (g & Hg & [->|Hxg])].
        -- now destruct (Htg g Hg) as (_ & H & _).
        -- exact (anc_not_pseudo_p c W x g Hxg).
      * apply (frag_IC_p c); [exact Htne | exact Hbelow | exact (proj1 (whp_target_sets c W ti))].
      * intros x [Hqx (g & Hg & Hon)]. destruct (Htg g Hg) as (A & _ & _). split.
        -- exact (inner_gt_leaf_p q j x g Hpq Hps Hqx Hon A).
        -- destruct Hon as [->|Ha]; [now destruct (whp_tr_targets c W ti g Hg) | destruct (hanc_lt_p c W _ _ Ha); destruct (whp_tr_targets c W ti g Hg); lia].
      * apply Spar_proper. intros x [Hqx (g & Hg & [->|Hxg])].
        -- now destruct (Htg g Hg) as (_ & H & _).
        -- exact (anc_not_pseudo_p c W x g Hxg).
      * intros x. rewrite In_fold_union, In_set_union.
        rewrite <- (full_closed_IC_p es q _ x (hip_closed _ _ HI) Hqe Htne Hbelow). split.
        -- intros [[H|H]|(g & Hg & Hx)]; [tauto | right; exists x; split; [exact H | now left]|].
           right. exists g. split; [exact Hg|]. right. now apply (whp_anc c W).
        -- intros [H|(g & Hg & [->|Ha])]; [tauto | tauto|]. right. exists g. split; [exact Hg|]. now apply (whp_anc c W).
  - (* initial *)
    assert (Hps : pseudo j = true) by (unfold pseudoS; fold (kd j); unfold kd; now rewrite Hk).
    destruct (whp_pseudo_parent c W j Hps) as (q & Hpq & Hkq).
    destruct (whp_initial c W j q Hk Hpq) as (ti & Htr & Htne & Htg). rewrite Htr. cbn [fold_left fst snd].
    assert (Hbelow : forall g, In g (ft_targets (tr c ti)) -> Anc q g) by (intros g Hg; now destruct (Htg g Hg) as (H & _)).
    assert (Hqe : In q es) by exact (hip_closed _ _ HI j q Hm Hpq).
    apply (HInv_grow_p j es _ q (IC c q (ft_targets (tr c ti))) HI Hm).
    + right. split; [exact Hps|]. split; [exact Hpq|]. intros x [Hqx (g & Hg & [->|Hxg])].
      * now destruct (Htg g Hg) as (_ & _ & H).
      * exact (anc_not_pseudo_p c W x g Hxg).
    + apply (frag_IC_p c); [exact Htne | exact Hbelow | exact (proj1 (whp_target_sets c W ti))].
    + intros x [Hqx (g & Hg & Hon)]. destruct (Htg g Hg) as (_ & A & _). split.
      * exact (inner_gt_leaf_p q j x g Hpq Hps Hqx Hon A).
      * destruct Hon as [->|Ha]; [now destruct (whp_tr_targets c W ti g Hg) | destruct (hanc_lt_p c W _ _ Ha); destruct (whp_tr_targets c W ti g Hg); lia].
    + apply Spar_proper. intros x [Hqx (g & Hg & [->|Hxg])].
      * now destruct (Htg g Hg) as (_ & _ & H).
      * exact (anc_not_pseudo_p c W x g Hxg).
    + intros x. rewrite In_fold_ins_union_p.
      rewrite <- (full_closed_IC_p es q _ x (hip_closed _ _ HI) Hqe Htne Hbelow). split.
      * intros [H|(g & Hg & [->|Hx])]; [tauto | right; exists g; split; [exact Hg | now left]|].
        right. exists g. split; [exact Hg|]. right. now apply (whp_anc c W).
      * intros [H|(g & Hg & [->|Ha])]; [tauto | right; exists g; tauto|]. right. exists g. split; [exact Hg|]. right. now apply (whp_anc c W).
Qed.

Notation HEfin := (HEfin c cfg exitset hist tg ts0).

Lemma HInv_fin_p : HInvP n HEfin.
Proof.
  unfold LegalHistEntry.HEfin, entry_set.
  pose proof (fold_seq_inv c (descend_one lg_fixed c cfg exitset hist)
                           (fun j acc => HInvP j (fst acc)) n 0 (HE0, ts0) HInv_0_p) as H.
  cbn [Nat.add] in H. apply H.
  intros j [es ts] _ Hj HI. cbn [fst] in HI. now apply HInv_step_p.
Qed.

(* ---- consequences at the end of the loop, for any set with the invariant ---- *)

Section Fin.
Variable Ef : list nat.
Hypothesis HF : HInvP n Ef.

Lemma hgE1_p i p : In i Ef -> par i = Some p -> In p Ef.
Proof. intros Hi Hp. exact (hip_closed _ _ HF i p Hi Hp). Qed.

Lemma hgE2_p i k : In i Ef -> kd i = FParallel -> par k = Some i -> pseudo k = false -> In k Ef.
Proof. intros Hi Hk Hin Hpk. exact (proj1 (hip_done _ _ HF i (hip_bound _ _ HF i Hi) Hi) Hk k Hin Hpk). Qed.

Lemma hgE3_p i : In i Ef -> kd i = FCompound ->
  exists k, par k = Some i /\ (surv k \/ (In k Ef /\ pseudo k = false)).
Proof.
  intros Hi Hk. destruct (proj2 (hip_done _ _ HF i (hip_bound _ _ HF i Hi) Hi) Hk) as (k & Hpk & [Hs|[He [Hps|Hle]]]);
    exists k; (split; [exact Hpk|]); [now left | right; tauto|].
  pose proof (hip_bound _ _ HF k He). lia.
Qed.

Lemma hgE4_p i k1 k2 : kd i = FCompound -> par k1 = Some i -> par k2 = Some i ->
  In k1 Ef -> In k2 Ef -> pseudo k1 = false -> pseudo k2 = false -> k1 = k2.
Proof.
  intros Hk H1 H2 He1 He2 P1 P2. destruct (Nat.eq_dec k1 k2) as [E|Hne]; [exact E|]. exfalso.
  destruct (hip_uniq _ _ HF i k1 k2 Hk H1 H2 He1 He2 Hne) as [(A & _)|(A & _)]; congruence.
Qed.
End Fin.

End Loop.
End HPEntry.
