(* JsonRtTokenize.v -- round trip, part 1: the text Data::toJSON writes for a value of the property's
   class is tokenised by jsmn into exactly the token layout [toks_core] (types and positions), for
   every budget that holds the tokens. *)
From V Require Import Base Jsmn Json JsmnLemmas JsonLemmas.
From Coq Require Import Lia ZArith.
Local Open Scope N_scope.

(* ---------------------------------------------------------------------------------------- *)
(* induction over the nested type *)
Section DataInd.
Variable P : data -> Prop.
Hypothesis H : forall vb a l m, Forall P l -> Forall (fun kv => P (snd kv)) m -> P (D vb a l m).
Fixpoint data_ind' (d : data) : P d :=
  match d with
  | D vb a l m =>
    H vb a l m
      ((fix go (l : list data) : Forall P l :=
          match l with [] => Forall_nil _ | x :: r => Forall_cons x (data_ind' x) (go r) end) l)
      ((fix go (m : list (bytes * data)) : Forall (fun kv => P (snd kv)) m :=
          match m with [] => Forall_nil _ | kv :: r => Forall_cons kv (data_ind' (snd kv)) (go r) end) m)
  end.
End DataInd.

(* ---------------------------------------------------------------------------------------- *)
(* toJSON = leading white space (arrays only) ++ core *)

Definition lead (ind : nat) (d : data) : bytes :=
  match d with
  | D _ _ arr comp => match comp, arr with [], _ :: _ => nl ++ indent_of ind | _, _ => [] end
  end.

Definition leaf_json (v : js_variant) (verb : bool) (atom : bytes) : bytes :=
  match atom with
  | _ :: _ => if verb then [c_quote] ++ json_escape v atom ++ [c_quote] else atom
  | [] => if verb then [c_quote; c_quote] else s_null
  end.

Definition core (v : js_variant) (ind : nat) (d : data) : bytes :=
  match d with
  | D verb atom arr comp =>
    match comp with
    | _ :: _ => [c_lbrace] ++ json_entries v (to_json v (S ind)) ind (longest_key comp) true comp ++
                nl ++ indent_of ind ++ [c_rbrace]
    | [] => match arr with
            | _ :: _ => [c_lbrack] ++ json_elems (to_json v (S ind)) true arr ++ [c_rbrack]
            | [] => leaf_json v verb atom
            end
    end
  end.

Lemma to_json_lead_core v ind d : to_json v ind d = lead ind d ++ core v ind d.
Proof.
  destruct d as [verb atom arr comp]. destruct comp as [|kv comp]; [|reflexivity].
  destruct arr as [|x arr]; [destruct atom; reflexivity|].
  cbn [to_json lead core]. now rewrite <- !app_assoc.
Qed.

(* ---------------------------------------------------------------------------------------- *)
(* the token layout *)

Definition tk (ty : N) (s e : nat) : token := {| ttype := ty; tstart := Z.of_nat s; tend := Z.of_nat e |}.

Local Close Scope N_scope.
Section LayoutLists.
Variable v : js_variant.
Variable recj : data -> bytes.               (* toJSON of a child *)
Variable rect : nat -> data -> list token.   (* tokens of a child whose text starts at the position *)
Variable ind longest : nat.
Definition entry_skip (first : bool) : bytes :=
  (if first then [] else sep_comma) ++ nl ++ indent_of ind ++ [32%N; 32%N].
Definition entry_mid (k : bytes) : bytes := [c_colon; 32%N] ++ spaces (longest - length k).
Fixpoint toks_entries (first : bool) (q : nat) (m : list (bytes * data)) {struct m} : list token :=
  match m with
  | [] => []
  | (k, c) :: r =>
    let ks := q + length (entry_skip first) + 1 in
    let ke := ks + length (json_escape v k) in
    let cq := ke + 1 + length (entry_mid k) in
    tk T_STRING ks ke :: rect cq c ++ toks_entries false (cq + length (recj c)) r
  end.
Fixpoint toks_elems (first : bool) (q : nat) (l : list data) {struct l} : list token :=
  match l with
  | [] => []
  | c :: r =>
    let cq := q + length (if first then [] else sep_comma) in
    rect cq c ++ toks_elems false (cq + length (recj c)) r
  end.
End LayoutLists.

Fixpoint toks_core (v : js_variant) (ind p : nat) (d : data) {struct d} : list token :=
  match d with
  | D verb atom arr comp =>
    match comp with
    | _ :: _ =>
      tk T_OBJECT p (p + length (core v ind d)) ::
      toks_entries v (to_json v (S ind)) (fun q c => toks_core v (S ind) (q + length (lead (S ind) c)) c)
                   ind (longest_key comp) true (S p) comp
    | [] =>
      match arr with
      | _ :: _ =>
        tk T_ARRAY p (p + length (core v ind d)) ::
        toks_elems (to_json v (S ind)) (fun q c => toks_core v (S ind) (q + length (lead (S ind) c)) c)
                   true (S p) arr
      | [] =>
        match atom with
        | _ :: _ => if verb then [tk T_STRING (S p) (S p + length (json_escape v atom))]
                    else [tk T_PRIM p (p + length atom)]
        | [] => if verb then [tk T_STRING (S p) (S p)] else [tk T_PRIM p (p + 4)]
        end
      end
    end
  end.

(* number of tokens / of values *)
Fixpoint ntok (d : data) {struct d} : nat :=
  match d with
  | D _ _ arr comp =>
    match comp with
    | _ :: _ => S (fold_right (fun kv acc => S (ntok (snd kv)) + acc) O comp)
    | [] => match arr with
            | _ :: _ => S (fold_right (fun c acc => ntok c + acc) O arr)
            | [] => 1
            end
    end
  end.

Local Open Scope N_scope.

(* ---------------------------------------------------------------------------------------- *)
(* single steps of the tokenizer *)

Lemma jsmn_skip_cases c : jsmn_skip c = true -> In c [9; 13; 10; 58; 44; 32].
Proof.
  unfold jsmn_skip, c_colon, c_comma. intros H. cbn [In].
  repeat (apply orb_true_iff in H as [H|H]); apply N.eqb_eq in H; subst; tauto.
Qed.

Lemma main_char_skip b c p st : jsmn_skip c = true -> main_char b c p st = JOk (MMain, st).
Proof.
  intros H. apply jsmn_skip_cases in H. cbn [In] in H.
  repeat (destruct H as [<-|H]; [reflexivity|]). contradiction.
Qed.

Lemma run_skip b ws : forall r p st,
  forallb jsmn_skip ws = true -> jsmn_run b (ws ++ r) p MMain st = jsmn_run b r (p + length ws) MMain st.
Proof.
  induction ws as [|c ws IH]; intros r p st H; cbn [app length]; [now rewrite Nat.add_0_r|].
  cbn [forallb] in H. apply andb_true_iff in H as [H1 H2].
  cbn [jsmn_run]. rewrite (main_char_skip _ _ _ _ H1), IH by exact H2. f_equal. lia.
Qed.

Lemma spaces_skip n : forallb jsmn_skip (spaces n) = true.
Proof. induction n; cbn; [reflexivity|exact IHn]. Qed.

Lemma indent_skip ind : forallb jsmn_skip (indent_of ind) = true.
Proof. apply spaces_skip. Qed.

Lemma alloc_ok b st t : (length (toks_rev st) < b)%nat ->
  alloc b st t = JOk {| toks_rev := t :: toks_rev st; toksuper := toksuper st |}.
Proof. intros H. unfold alloc, toknext. destruct (Nat.leb_spec b (length (toks_rev st))); [lia|reflexivity]. Qed.

Lemma tok_inv_push b p st t :
  tok_inv b p st -> tok_ok p t -> (length (toks_rev st) < b)%nat ->
  tok_inv b p {| toks_rev := t :: toks_rev st; toksuper := toksuper st |}.
Proof.
  intros (A & B & C) T L. repeat split; cbn; [lia|now constructor|].
  destruct C as [C|C]; [now left|right; lia].
Qed.

Definition delim_start (rest : bytes) : Prop :=
  match rest with [] => True | c :: _ => prim_delim c = true end.

(* skipped characters, a quote, an escaped string, a quote *)
Lemma run_quoted b sk s rest q st :
  forallb jsmn_skip sk = true -> tok_inv b q st -> (length (toks_rev st) < b)%nat ->
  let ks := (q + length sk + 1)%nat in
  let ke := (ks + length (json_escape js_fixed s))%nat in
  exists st',
    jsmn_run b (sk ++ c_quote :: json_escape js_fixed s ++ c_quote :: rest) q MMain st =
    jsmn_run b rest (S ke) MMain st' /\
    toks_rev st' = tk T_STRING ks ke :: toks_rev st /\ tok_inv b (S ke) st'.
Proof.
  intros Hsk I L ks ke.
  rewrite run_skip by exact Hsk.
  cbn [jsmn_run]. change (main_char b c_quote (q + length sk) st) with (JOk (MStr (q + length sk), st)).
  cbv iota beta. rewrite escaped_tokenizes_lemma. unfold after_string.
  replace (S (q + length sk) + length (json_escape js_fixed s))%nat with ke by lia.
  assert (I' : tok_inv b ke st) by (apply tok_inv_mono with q; [lia|exact I]).
  rewrite alloc_ok by exact L.
  assert (T : tok_ok ke (str_token (q + length sk) ke)).
  { unfold tok_ok, str_token; cbn. repeat split; [cbv; discriminate|lia|right; lia]. }
  pose proof (tok_inv_push b ke st _ I' T L) as I2.
  rewrite (super_size_incr_inv b ke _ I2).
  eexists; split; [reflexivity|split].
  - cbn [toks_rev]. f_equal. unfold str_token, tk. f_equal; lia.
  - apply tok_inv_mono with ke; [lia|exact I2].
Qed.

(* an unquoted run of primitive characters *)
Definition prim_body_ok (c : N) : bool := negb (prim_delim c) && negb (prim_invalid c).

Lemma run_prim_body b body : forall rest p0 p st,
  forallb prim_body_ok body = true -> delim_start rest ->
  jsmn_run b (body ++ rest) p (MPrim p0) st =
  match prim_found b p0 (p + length body) st with
  | JOk st1 => jsmn_run b rest (p + length body) MMain st1
  | JErr e => JErr e
  | JOob => JOob
  end.
Proof.
  induction body as [|c body IH]; intros rest p0 p st H D; cbn [app length].
  - rewrite Nat.add_0_r. destruct rest as [|c r]; cbn [jsmn_run].
    + destruct (prim_found b p0 p st); reflexivity.
    + cbn in D. rewrite D. destruct (prim_found b p0 p st); reflexivity.
  - cbn [forallb] in H. apply andb_true_iff in H as [H1 H2]. unfold prim_body_ok in H1.
    apply andb_true_iff in H1 as [Ha Hb]. apply negb_true_iff in Ha, Hb.
    cbn [jsmn_run]. rewrite Ha, Hb, IH by assumption. replace (S p + length body)%nat with (p + S (length body))%nat by lia.
    reflexivity.
Qed.

Lemma num_char_cases c : num_char c = true -> In c [48; 49; 50; 51; 52; 53; 54; 55; 56; 57; 43; 45; 46; 101; 69].
Proof.
  unfold num_char. intros H. cbn [In].
  repeat (apply orb_true_iff in H as [H|H]); try (apply N.eqb_eq in H; subst; tauto).
  apply andb_true_iff in H as [H1 H2]. apply N.leb_le in H1, H2. lia.
Qed.

Lemma num_char_first b c p st : num_char c = true -> main_char b c p st = JOk (MPrim p, st).
Proof.
  intros H. apply num_char_cases in H. cbn [In] in H.
  repeat (destruct H as [<-|H]; [reflexivity|]). contradiction.
Qed.

Lemma num_char_body c : num_char c = true -> prim_body_ok c = true.
Proof.
  intros H. apply num_char_cases in H. cbn [In] in H.
  repeat (destruct H as [<-|H]; [reflexivity|]). contradiction.
Qed.

Lemma run_prim b atom rest p st :
  (atom = s_null \/ (atom <> [] /\ forallb num_char atom = true)) ->
  delim_start rest -> tok_inv b p st -> (length (toks_rev st) < b)%nat ->
  exists st',
    jsmn_run b (atom ++ rest) p MMain st = jsmn_run b rest (p + length atom) MMain st' /\
    toks_rev st' = tk T_PRIM p (p + length atom) :: toks_rev st /\ tok_inv b (p + length atom) st'.
Proof.
  intros Ha D I L.
  assert (Hs : exists c body, atom = c :: body /\ main_char b c p st = JOk (MPrim p, st) /\
                              forallb prim_body_ok body = true).
  { destruct Ha as [->|[Hne Hn]].
    - exists 110, [117; 108; 108]. repeat split.
    - destruct atom as [|c body]; [congruence|]. cbn [forallb] in Hn. apply andb_true_iff in Hn as [H1 H2].
      exists c, body. repeat split; [now apply num_char_first|].
      clear - H2. induction body as [|x r IH]; [reflexivity|]. cbn [forallb] in *.
      apply andb_true_iff in H2 as [A B]. now rewrite (num_char_body _ A), IH. }
  destruct Hs as (c & body & -> & Hc & Hb).
  cbn [app jsmn_run]. rewrite Hc, run_prim_body by assumption.
  unfold prim_found. rewrite alloc_ok by exact L.
  assert (I' : tok_inv b (S p + length body) st) by (apply tok_inv_mono with p; [lia|exact I]).
  assert (T : tok_ok (S p + length body) {| ttype := T_PRIM; tstart := Z.of_nat p; tend := Z.of_nat (S p + length body) |}).
  { unfold tok_ok; cbn. repeat split; [cbv; discriminate|lia|right; lia]. }
  pose proof (tok_inv_push b _ st _ I' T L) as I2.
  rewrite (super_size_incr_inv b _ _ I2).
  eexists; split; [|split].
  - cbn [length]. f_equal. lia.
  - cbn [toks_rev length]. f_equal. unfold tk. f_equal; lia.
  - cbn [length]. replace (p + S (length body))%nat with (S p + length body)%nat by lia. exact I2.
Qed.

(* opening and closing brackets *)
Lemma run_open b c ty r p st :
  (c = c_lbrace /\ ty = T_OBJECT) \/ (c = c_lbrack /\ ty = T_ARRAY) ->
  tok_inv b p st -> (length (toks_rev st) < b)%nat ->
  exists st', jsmn_run b (c :: r) p MMain st = jsmn_run b r (S p) MMain st' /\
              toks_rev st' = {| ttype := ty; tstart := Z.of_nat p; tend := -1 |} :: toks_rev st /\
              tok_inv b (S p) st'.
Proof.
  intros Hc I L. cbn [jsmn_run].
  pose proof (main_char_inv b c p st I) as MI.
  assert (E : exists su, main_char b c p st =
             JOk (MMain, {| toks_rev := {| ttype := ty; tstart := Z.of_nat p; tend := -1 |} :: toks_rev st; toksuper := su |})).
  { unfold main_char.
    assert (Eo : (c =? c_lbrace) || (c =? c_lbrack) = true) by (destruct Hc as [[-> _]|[-> _]]; reflexivity).
    rewrite Eo, alloc_ok by exact L.
    assert (T : tok_ok p {| ttype := if c =? c_lbrace then T_OBJECT else T_ARRAY; tstart := Z.of_nat p; tend := -1 |}).
    { unfold tok_ok; cbn. repeat split; [destruct (c =? c_lbrace); cbv; discriminate|lia|now left]. }
    rewrite (super_size_incr_inv b p _ (tok_inv_push b p st _ I T L)). cbn [toks_rev].
    eexists. do 3 f_equal. destruct Hc as [[-> ->]|[-> ->]]; reflexivity. }
  destruct E as (su & E). rewrite E in MI |- *. destruct MI as (I' & _).
  eexists; split; [reflexivity|split; [reflexivity|exact I']].
Qed.

Definition tclosed (t : token) : Prop := is_open t = false.

Lemma tk_closed ty s e : tclosed (tk ty s e).
Proof. unfold tclosed, is_open, tk; cbn. destruct (Z.eqb_spec (Z.of_nat e) (-1)); [lia|]. now rewrite andb_false_r. Qed.

Lemma close_first_closed closed ty s old pos :
  Forall tclosed closed ->
  close_first (closed ++ {| ttype := ty; tstart := Z.of_nat s; tend := -1 |} :: old) ty pos =
  JOk (closed ++ {| ttype := ty; tstart := Z.of_nat s; tend := Z.of_nat pos + 1 |} :: old).
Proof.
  induction closed as [|t cl IH]; intros F; cbn [app close_first].
  - unfold is_open; cbn. destruct (Z.eqb_spec (Z.of_nat s) (-1)); [lia|]. cbn. now rewrite N.eqb_refl.
  - inversion F as [|? ? Ht Hc]; subst. unfold tclosed in Ht. rewrite Ht, IH by exact Hc. reflexivity.
Qed.

Lemma run_close b c ty r p st closed s old :
  (c = c_rbrace /\ ty = T_OBJECT) \/ (c = c_rbrack /\ ty = T_ARRAY) ->
  tok_inv b p st -> Forall tclosed closed ->
  toks_rev st = closed ++ {| ttype := ty; tstart := Z.of_nat s; tend := -1 |} :: old ->
  exists st', jsmn_run b (c :: r) p MMain st = jsmn_run b r (S p) MMain st' /\
              toks_rev st' = closed ++ tk ty s (S p) :: old /\ tok_inv b (S p) st'.
Proof.
  intros Hc I F E. cbn [jsmn_run].
  pose proof (main_char_inv b c p st I) as MI.
  assert (Em : exists su, main_char b c p st = JOk (MMain, {| toks_rev := closed ++ tk ty s (S p) :: old; toksuper := su |})).
  { unfold main_char.
    assert (E1 : (c =? c_lbrace) || (c =? c_lbrack) = false) by (destruct Hc as [[-> _]|[-> _]]; reflexivity).
    assert (E2 : (c =? c_rbrace) || (c =? c_rbrack) = true) by (destruct Hc as [[-> _]|[-> _]]; reflexivity).
    rewrite E1, E2, E.
    replace (if c =? c_rbrace then T_OBJECT else T_ARRAY) with ty by (destruct Hc as [[-> ->]|[-> ->]]; reflexivity).
    rewrite close_first_closed by exact F.
    replace {| ttype := ty; tstart := Z.of_nat s; tend := Z.of_nat p + 1 |} with (tk ty s (S p))
      by (unfold tk; f_equal; lia).
    eexists. reflexivity. }
  destruct Em as (su & Em). rewrite Em in MI |- *. destruct MI as (I' & _).
  eexists; split; [reflexivity|split; [reflexivity|exact I']].
Qed.

(* ---------------------------------------------------------------------------------------- *)
(* shape of the layout: every token is closed, their number is [ntok] *)

Definition ntok_entries (m : list (bytes * data)) : nat := fold_right (fun kv acc => S (ntok (snd kv)) + acc)%nat O m.
Definition ntok_elems (l : list data) : nat := fold_right (fun c acc => ntok c + acc)%nat O l.

Lemma ntok_pos d : (1 <= ntok d)%nat.
Proof. destruct d as [vb a l m]. cbn [ntok]. destruct m; [destruct l|]; lia. Qed.

Section Shape.
Variable v : js_variant.

Definition shape_stmt (d : data) : Prop :=
  forall ind p, Forall tclosed (toks_core v ind p d) /\ length (toks_core v ind p d) = ntok d.

Lemma shape_entries ind longest m :
  Forall (fun kv => shape_stmt (snd kv)) m ->
  forall first q,
    let L := toks_entries v (to_json v (S ind)) (fun q c => toks_core v (S ind) (q + length (lead (S ind) c)) c)
                          ind longest first q m in
    Forall tclosed L /\ length L = ntok_entries m.
Proof.
  induction 1 as [|[k c] r Hc Hr IH]; intros first q; cbn [toks_entries ntok_entries fold_right snd]; [split; [constructor|reflexivity]|].
  cbn zeta. cbn [snd] in Hc. destruct (Hc (S ind) (q + length (entry_skip ind first) + 1 + length (json_escape v k) + 1 + length (entry_mid longest k) + length (lead (S ind) c))%nat) as (C1 & C2).
  match goal with |- Forall _ (_ :: _ ++ toks_entries _ _ _ _ _ _ ?q2 _) /\ _ => destruct (IH false q2) as (R1 & R2) end.
  split.
  - constructor; [apply tk_closed|]. apply Forall_app. split; assumption.
  - cbn [length]. rewrite app_length, C2. cbn zeta in R2. rewrite R2. reflexivity.
Qed.

Lemma shape_elems ind l :
  Forall shape_stmt l ->
  forall first q,
    let L := toks_elems (to_json v (S ind)) (fun q c => toks_core v (S ind) (q + length (lead (S ind) c)) c) first q l in
    Forall tclosed L /\ length L = ntok_elems l.
Proof.
  induction 1 as [|c r Hc Hr IH]; intros first q; cbn [toks_elems ntok_elems fold_right]; [split; [constructor|reflexivity]|].
  cbn zeta. destruct (Hc (S ind) (q + length (if first then [] else sep_comma) + length (lead (S ind) c))%nat) as (C1 & C2).
  match goal with |- Forall _ (_ ++ toks_elems _ _ _ ?q2 _) /\ _ => destruct (IH false q2) as (R1 & R2) end.
  split.
  - apply Forall_app. split; assumption.
  - rewrite app_length, C2. cbn zeta in R2. rewrite R2. reflexivity.
Qed.

Lemma toks_core_shape d : shape_stmt d.
Proof.
  induction d as [vb a l m Hl Hm] using data_ind'. intros ind p.
  destruct m as [|kv m].
  - destruct l as [|x l].
    + cbn [toks_core ntok]. destruct a, vb; (split; [repeat constructor; apply tk_closed|reflexivity]).
    + destruct (shape_elems ind (x :: l) Hl true (S p)) as (C1 & C2).
      cbn [toks_core ntok]. split; [constructor; [apply tk_closed|exact C1]|]. cbn [length]. cbn zeta in C2. now rewrite C2.
  - destruct (shape_entries ind (longest_key (kv :: m)) (kv :: m) Hm true (S p)) as (C1 & C2).
    cbn [toks_core ntok]. split; [constructor; [apply tk_closed|exact C1]|]. cbn [length]. cbn zeta in C2. now rewrite C2.
Qed.
End Shape.

(* ---------------------------------------------------------------------------------------- *)
(* (T): jsmn on the text of a value of the class *)

Section Tokenize.
Variable v : js_variant.
Hypothesis Hvtab : jv_escape_vtab v = false.

Lemma json_escape_v s : json_escape v s = json_escape js_fixed s.
Proof. unfold json_escape, escape_table. now rewrite Hvtab. Qed.

Definition Tstmt (ind : nat) (d : data) : Prop :=
  forall b p rest st,
    delim_start rest -> tok_inv b p st -> (length (toks_rev st) + ntok d <= b)%nat ->
    exists st',
      jsmn_run b (core v ind d ++ rest) p MMain st = jsmn_run b rest (p + length (core v ind d)) MMain st' /\
      toks_rev st' = rev (toks_core v ind p d) ++ toks_rev st /\
      tok_inv b (p + length (core v ind d)) st'.

Lemma lead_skip ind d : forallb jsmn_skip (lead ind d) = true.
Proof.
  destruct d as [vb a l m]. cbn [lead]. destruct m; [|reflexivity]. destruct l; [reflexivity|].
  cbn [nl app forallb]. apply indent_skip.
Qed.

(* a child: its text with the leading white space *)
Lemma Tfull ind c : Tstmt ind c ->
  forall b q rest st,
    delim_start rest -> tok_inv b q st -> (length (toks_rev st) + ntok c <= b)%nat ->
    exists st',
      jsmn_run b (to_json v ind c ++ rest) q MMain st = jsmn_run b rest (q + length (to_json v ind c)) MMain st' /\
      toks_rev st' = rev (toks_core v ind (q + length (lead ind c)) c) ++ toks_rev st /\
      tok_inv b (q + length (to_json v ind c)) st'.
Proof.
  intros T b q rest st D I B.
  rewrite to_json_lead_core, <- app_assoc, run_skip by apply lead_skip.
  destruct (T b (q + length (lead ind c))%nat rest st D) as (st' & E & R & I'); [apply tok_inv_mono with q; [lia|exact I]|exact B|].
  exists st'. rewrite app_length, Nat.add_assoc. auto.
Qed.

Lemma entry_skip_skip ind first : forallb jsmn_skip (entry_skip ind first) = true.
Proof.
  unfold entry_skip. rewrite !forallb_app, indent_skip. destruct first; reflexivity.
Qed.

Lemma entry_mid_skip longest k : forallb jsmn_skip (entry_mid longest k) = true.
Proof. unfold entry_mid. rewrite forallb_app, spaces_skip. reflexivity. Qed.

Lemma json_entries_cons recj ind longest first k c r rest :
  json_entries v recj ind longest first ((k, c) :: r) ++ rest =
  entry_skip ind first ++ c_quote :: json_escape js_fixed k ++ c_quote ::
    (entry_mid longest k ++ recj c ++ json_entries v recj ind longest false r ++ rest).
Proof.
  cbn [json_entries]. unfold entry_skip, entry_mid. rewrite json_escape_v.
  repeat rewrite <- app_assoc. cbn [app]. reflexivity.
Qed.

Lemma json_entries_length recj ind longest first k c r :
  length (json_entries v recj ind longest first ((k, c) :: r)) =
  (length (entry_skip ind first) + 1 + length (json_escape v k) + 1 + length (entry_mid longest k) +
   length (recj c) + length (json_entries v recj ind longest false r))%nat.
Proof.
  pose proof (json_entries_cons recj ind longest first k c r []) as E. rewrite !app_nil_r in E.
  rewrite E, json_escape_v. repeat (rewrite app_length || cbn [length]). lia.
Qed.

Lemma delim_entries recj ind longest r rest :
  delim_start rest -> delim_start (json_entries v recj ind longest false r ++ rest).
Proof.
  intros D. destruct r as [|[k c] r]; [exact D|]. cbn [json_entries app sep_comma delim_start]. reflexivity.
Qed.

Lemma T_entries ind longest m :
  Forall (fun kv => forall ind, Tstmt ind (snd kv)) m ->
  forall first b q rest st,
    delim_start rest -> tok_inv b q st -> (length (toks_rev st) + ntok_entries m <= b)%nat ->
    let txt := json_entries v (to_json v (S ind)) ind longest first m in
    exists st',
      jsmn_run b (txt ++ rest) q MMain st = jsmn_run b rest (q + length txt) MMain st' /\
      toks_rev st' = rev (toks_entries v (to_json v (S ind))
                            (fun q c => toks_core v (S ind) (q + length (lead (S ind) c)) c)
                            ind longest first q m) ++ toks_rev st /\
      tok_inv b (q + length txt) st'.
Proof.
  induction 1 as [|[k c] r Hc Hr IH]; intros first b q rest st D I B txt.
  - exists st. subst txt. cbn [json_entries toks_entries app rev length]. rewrite Nat.add_0_r. auto.
  - subst txt. cbn [snd] in Hc. cbn [ntok_entries fold_right snd] in B. fold (ntok_entries r) in B.
    rewrite json_entries_cons, json_entries_length.
    destruct (run_quoted b (entry_skip ind first) k
                (entry_mid longest k ++ to_json v (S ind) c ++
                 json_entries v (to_json v (S ind)) ind longest false r ++ rest) q st
                (entry_skip_skip ind first) I) as (st1 & E1 & R1 & I1); [lia|].
    cbn zeta in E1, R1, I1. rewrite E1. clear E1.
    rewrite run_skip by apply entry_mid_skip.
    set (ke := (q + length (entry_skip ind first) + 1 + length (json_escape js_fixed k))%nat) in *.
    destruct (Tfull (S ind) c (Hc (S ind)) b (S ke + length (entry_mid longest k))%nat
                    (json_entries v (to_json v (S ind)) ind longest false r ++ rest) st1) as (st2 & E2 & R2 & I2).
    { apply delim_entries; exact D. }
    { apply tok_inv_mono with (S ke); [lia|exact I1]. }
    { rewrite R1. cbn [length]. lia. }
    rewrite E2. clear E2.
    destruct (IH false b (S ke + length (entry_mid longest k) + length (to_json v (S ind) c))%nat rest st2 D I2)
      as (st3 & E3 & R3 & I3).
    { rewrite R2, app_length, rev_length, R1. cbn [length]. rewrite (proj2 (toks_core_shape v c _ _)). lia. }
    cbn zeta in E3, R3, I3. rewrite E3. clear E3.
    exists st3. rewrite json_escape_v. subst ke. split; [|split].
    + f_equal. lia.
    + rewrite R3, R2, R1. cbn [toks_entries]. cbn zeta. rewrite json_escape_v.
      cbn [rev]. rewrite rev_app_distr. repeat rewrite <- app_assoc. cbn [app].
      repeat (f_equal; try lia).
    + eapply tok_inv_mono; [|exact I3]. lia.
Qed.

Lemma json_elems_cons recj first c r rest :
  json_elems recj first (c :: r) ++ rest =
  (if first then [] else sep_comma) ++ recj c ++ json_elems recj false r ++ rest.
Proof. cbn [json_elems]. now repeat rewrite <- app_assoc. Qed.

Lemma sep_skip (first : bool) : forallb jsmn_skip (if first then [] else sep_comma) = true.
Proof. destruct first; reflexivity. Qed.

Lemma T_elems ind l :
  Forall (fun c => forall ind, Tstmt ind c) l ->
  forall first b q rest st,
    delim_start rest -> tok_inv b q st -> (length (toks_rev st) + ntok_elems l <= b)%nat ->
    let txt := json_elems (to_json v (S ind)) first l in
    exists st',
      jsmn_run b (txt ++ rest) q MMain st = jsmn_run b rest (q + length txt) MMain st' /\
      toks_rev st' = rev (toks_elems (to_json v (S ind))
                            (fun q c => toks_core v (S ind) (q + length (lead (S ind) c)) c)
                            first q l) ++ toks_rev st /\
      tok_inv b (q + length txt) st'.
Proof.
  induction 1 as [|c r Hc Hr IH]; intros first b q rest st D I B txt.
  - exists st. subst txt. cbn [json_elems toks_elems app rev length]. rewrite Nat.add_0_r. auto.
  - subst txt. cbn [ntok_elems fold_right] in B. fold (ntok_elems r) in B.
    rewrite json_elems_cons, run_skip by apply sep_skip.
    destruct (Tfull (S ind) c (Hc (S ind)) b (q + length (if first then [] else sep_comma))%nat
                    (json_elems (to_json v (S ind)) false r ++ rest) st) as (st2 & E2 & R2 & I2).
    { destruct r as [|x r]; [exact D|reflexivity]. }
    { apply tok_inv_mono with q; [lia|exact I]. }
    { lia. }
    rewrite E2. clear E2.
    destruct (IH false b (q + length (if first then [] else sep_comma) + length (to_json v (S ind) c))%nat rest st2 D I2)
      as (st3 & E3 & R3 & I3).
    { rewrite R2, app_length, rev_length. rewrite (proj2 (toks_core_shape v c _ _)). lia. }
    cbn zeta in E3, R3, I3. rewrite E3. clear E3.
    exists st3.
    assert (Len : length (json_elems (to_json v (S ind)) first (c :: r)) =
                  (length (if first then [] else sep_comma) + length (to_json v (S ind) c) +
                   length (json_elems (to_json v (S ind)) false r))%nat).
    { cbn [json_elems]. rewrite !app_length. lia. }
    rewrite Len. split; [|split].
    + f_equal. lia.
    + rewrite R3, R2. cbn [toks_elems]. cbn zeta. rewrite rev_app_distr. now rewrite <- app_assoc.
    + eapply tok_inv_mono; [|exact I3]. lia.
Qed.

Lemma canonical_children ae vb a l m :
  canonical ae (D vb a l m) = true ->
  forallb (canonical ae) l = true /\ forallb (fun kv => canonical ae (snd kv)) m = true.
Proof.
  cbn [canonical]. destruct m as [|kv m], l as [|x l], a as [|c a]; try discriminate; intros H.
  - split; reflexivity.
  - split; reflexivity.
  - apply andb_true_iff in H as [_ H]. split; [exact H|reflexivity].
  - apply andb_true_iff in H as [_ H]. split; [reflexivity|exact H].
Qed.

Lemma tokenize_core d : canonical true d = true -> forall ind, Tstmt ind d.
Proof.
  induction d as [vb a l m Hl Hm] using data_ind'. intros C ind.
  destruct (canonical_children _ _ _ _ _ C) as (Cl & Cm).
  assert (Hl' : Forall (fun c => forall ind, Tstmt ind c) l).
  { rewrite Forall_forall in *. intros x Hx. apply Hl; [exact Hx|]. rewrite forallb_forall in Cl. now apply Cl. }
  assert (Hm' : Forall (fun kv => forall ind, Tstmt ind (snd kv)) m).
  { rewrite Forall_forall in *. intros x Hx. apply Hm; [exact Hx|]. rewrite forallb_forall in Cm. now apply Cm. }
  clear Hl Hm. intros b p rest st D I B.
  cbn [canonical] in C.
  destruct m as [|kv m].
  - destruct l as [|x l].
    + (* leaves *)
      cbn [core toks_core ntok] in *. destruct a as [|c a].
      * destruct vb.
        -- (* "" *)
           destruct (run_quoted b [] [] rest p st eq_refl I) as (st' & E & R & I'); [lia|].
           cbn zeta in E, R, I'. cbn [app length json_escape json_escape_with] in E, R, I'. unfold leaf_json.
           change ([c_quote; c_quote] ++ rest) with (c_quote :: c_quote :: rest).
           rewrite E. exists st'. cbn [length]. split; [f_equal; lia|]. split.
           ++ rewrite R. cbn [rev app]. f_equal. f_equal; lia.
           ++ eapply tok_inv_mono; [|exact I']. lia.
        -- (* null *)
           destruct (run_prim b s_null rest p st (or_introl eq_refl) D I) as (st' & E & R & I'); [lia|].
           exists st'. unfold leaf_json. rewrite E. auto.
      * destruct vb.
        -- (* string *)
           destruct (run_quoted b [] (c :: a) rest p st eq_refl I) as (st' & E & R & I'); [lia|].
           cbn zeta in E, R, I'. cbn [app length] in E, R, I'. unfold leaf_json.
           rewrite json_escape_v.
           assert (Len : length ([c_quote] ++ json_escape js_fixed (c :: a) ++ [c_quote]) =
                         S (S (length (json_escape js_fixed (c :: a))))).
           { rewrite !app_length. cbn [length]. lia. }
           rewrite Len.
           replace (([c_quote] ++ json_escape js_fixed (c :: a) ++ [c_quote]) ++ rest)
             with (c_quote :: json_escape js_fixed (c :: a) ++ c_quote :: rest)
             by (repeat rewrite <- app_assoc; reflexivity).
           rewrite E. exists st'. split; [f_equal; lia|]. split.
           ++ rewrite R. cbn [rev app]. f_equal. f_equal; lia.
           ++ eapply tok_inv_mono; [|exact I']. lia.
        -- (* number *)
           cbn [orb] in C.
           destruct (run_prim b (c :: a) rest p st) as (st' & E & R & I'); [right; split; [discriminate|exact C]|exact D|exact I|lia|].
           exists st'. unfold leaf_json. rewrite E. auto.
    + (* array *)
      destruct a; [|discriminate].
      cbn [core]. cbn [ntok] in B. fold (ntok_elems (x :: l)) in B.
      cbn [app].
      destruct (run_open b c_lbrack T_ARRAY (json_elems (to_json v (S ind)) true (x :: l) ++ [c_rbrack] ++ rest) p st)
        as (st1 & E1 & R1 & I1); [now right|exact I|lia|].
      rewrite <- app_assoc. rewrite E1. clear E1.
      destruct (T_elems ind (x :: l) Hl' true b (S p) ([c_rbrack] ++ rest) st1) as (st2 & E2 & R2 & I2);
        [reflexivity|exact I1|rewrite R1; cbn [length]; lia|].
      cbn zeta in E2, R2, I2. rewrite E2. clear E2.
      cbn [app].
      destruct (run_close b c_rbrack T_ARRAY rest (S p + length (json_elems (to_json v (S ind)) true (x :: l)))%nat st2
                  (rev (toks_elems (to_json v (S ind)) (fun q c => toks_core v (S ind) (q + length (lead (S ind) c)) c) true (S p) (x :: l)))
                  p (toks_rev st)) as (st3 & E3 & R3 & I3).
      { now right. }
      { exact I2. }
      { apply Forall_rev. apply (shape_elems v ind (x :: l)). apply Forall_forall. intros; apply toks_core_shape. }
      { rewrite R2, R1. reflexivity. }
      rewrite E3. exists st3.
      assert (Len : length ([c_lbrack] ++ json_elems (to_json v (S ind)) true (x :: l) ++ [c_rbrack]) =
                    S (S (length (json_elems (to_json v (S ind)) true (x :: l))))).
      { rewrite !app_length. cbn [length]. lia. }
      cbn [app] in Len. rewrite Len. split; [f_equal; lia|]. split.
      * rewrite R3. cbn [toks_core]. cbn [rev]. rewrite <- app_assoc. cbn [app]. f_equal. f_equal.
        cbn [core app]. rewrite Len. f_equal; lia.
      * eapply tok_inv_mono; [|exact I3]. lia.
  - (* object *)
    destruct l; [|discriminate]. destruct a; [|discriminate].
    cbn [core]. cbn [ntok] in B. fold (ntok_entries (kv :: m)) in B.
    cbn [app].
    set (ents := json_entries v (to_json v (S ind)) ind (longest_key (kv :: m)) true (kv :: m)) in *.
    destruct (run_open b c_lbrace T_OBJECT (ents ++ (nl ++ indent_of ind) ++ [c_rbrace] ++ rest) p st)
      as (st1 & E1 & R1 & I1); [now left|exact I|lia|].
    replace ((ents ++ nl ++ indent_of ind ++ [c_rbrace]) ++ rest) with (ents ++ (nl ++ indent_of ind) ++ [c_rbrace] ++ rest)
      by (now repeat rewrite <- app_assoc).
    rewrite E1. clear E1.
    destruct (T_entries ind (longest_key (kv :: m)) (kv :: m) Hm' true b (S p) ((nl ++ indent_of ind) ++ [c_rbrace] ++ rest) st1)
      as (st2 & E2 & R2 & I2); [reflexivity|exact I1|rewrite R1; cbn [length]; lia|].
    cbn zeta in E2, R2, I2. fold ents in E2, I2. rewrite E2. clear E2.
    rewrite run_skip by (cbn [nl app forallb]; apply indent_skip).
    cbn [app].
    destruct (run_close b c_rbrace T_OBJECT rest (S p + length ents + length (nl ++ indent_of ind))%nat st2
                (rev (toks_entries v (to_json v (S ind)) (fun q c => toks_core v (S ind) (q + length (lead (S ind) c)) c)
                                   ind (longest_key (kv :: m)) true (S p) (kv :: m)))
                p (toks_rev st)) as (st3 & E3 & R3 & I3).
    { now left. }
    { eapply tok_inv_mono; [|exact I2]. lia. }
    { apply Forall_rev. apply (shape_entries v ind _ (kv :: m)). apply Forall_forall. intros; apply toks_core_shape. }
    { rewrite R2, R1. reflexivity. }
    rewrite E3. exists st3.
    assert (Len : length (c_lbrace :: ents ++ nl ++ indent_of ind ++ [c_rbrace]) =
                  S (S (length ents + length (nl ++ indent_of ind)))).
    { repeat (rewrite app_length || cbn [length]). lia. }
    rewrite Len. split; [f_equal; lia|]. split.
    * rewrite R3. cbn [toks_core]. cbn [rev]. rewrite <- app_assoc. cbn [app]. f_equal. f_equal.
      cbn [core app]. fold ents. rewrite Len. f_equal; lia.
    * eapply tok_inv_mono; [|exact I3]. lia.
Qed.

End Tokenize.
