(* SelectConform.v -- definitions for the positive half of C01's selection comparison: the situations in
   which LargeMicroStep's SELECT_TRANSITIONS (Large.select_loop) selects exactly what Appendix D's
   selectTransitions + removeConflictingTransitions (Spec.select_transitions) select.  Every hypothesis of
   the theorem [selection_conforms] (SelectConformLemmas.v) is a boolean that the check can evaluate.
   Model/definitions only; the proofs are in SelectConformLemmas.v. *)
From V Require Import Base NameMatch Chart Exec Large Spec.
Local Open Scope nat_scope.

Section Defs.
Variable c : fchart.
Variable cfg : list nat.
Variable ev : option event.
Variable x : xstate.

(* the event test of Appendix D (Spec.first_enabled) *)
Definition ev_ok (t : ftrans) : bool :=
  match ev with
  | None => ft_spontaneous t
  | Some e => negb (ft_spontaneous t) && name_match_spec (ft_event t) (ev_name e)
  end.

(* the value of the transition's condition in [x] (an evaluation error counts as false) *)
Definition cond_val (t : ftrans) : bool :=
  match ft_cond t with
  | None => true
  | Some cnd => fst (is_true (inst_of c cfg) cnd x)
  end.

(* "enabled": event matches and condition holds *)
Definition enabledb (ti : nat) : bool :=
  let t := tr c ti in ev_ok t && negb (ft_history t || ft_initial t) && cond_val t.

(* the first enabled transition of a state, in document order *)
Definition en_of (s : nat) : option nat := find enabledb (fs_trans (st c s)).

(* (H1) no two enabled transitions of active states have sources in ancestor-or-equal relation *)
Definition unrelated_enabledb : bool :=
  forallb (fun s1 =>
    forallb (fun s2 =>
      if (s1 =? s2) || mem s1 (fs_ancestors (st c s2)) then
        forallb (fun t1 =>
          forallb (fun t2 => negb (enabledb t1 && enabledb t2) || ((s1 =? s2) && (t1 =? t2)))
                  (fs_trans (st c s2))) (fs_trans (st c s1))
      else true) cfg) cfg.

(* (H2) evaluating a condition of a transition of an active state cannot fail (and so has no effect) *)
Definition conds_pureb : bool :=
  forallb (fun s =>
    forallb (fun ti => match ft_cond (tr c ti) with
                       | None => true
                       | Some cnd => match beval (inst_of c cfg) (x_store x) cnd with Some _ => true | None => false end
                       end) (fs_trans (st c s))) cfg.

(* (H3) the descriptors of the transitions of active states are grammar-conformant and the event name
   has no white space (the hypotheses of C12's name_match_correct) *)
Definition descs_okb : bool :=
  match ev with
  | None => true
  | Some e =>
    no_space (ev_name e) &&
    forallb (fun s => forallb (fun ti => ft_spontaneous (tr c ti) || wf_descs (ft_event (tr c ti)))
                              (fs_trans (st c s))) cfg
  end.

End Defs.

(* transitions are numbered in post-fix order of their source states -- the part that matters here: if
   the block of s1 lies before s2, every transition of s1 has a smaller index than every transition of s2
   (LargeMicroStep::init numbers transitions in post-fix order of their parent elements) *)
Definition trans_orderb (c : fchart) : bool :=
  forallb (fun s1 =>
    forallb (fun s2 =>
      if s1 + fs_size (st c s1) <=? s2 then
        forallb (fun t1 => forallb (fun t2 => t1 <? t2) (fs_trans (st c s2))) (fs_trans (st c s1))
      else true) (seq 0 (nstates c))) (seq 0 (nstates c)).

(* every <parallel> has a child (Appendix D finds transitions only by walking up from atomic states: the
   transitions of a child-less <parallel> are invisible to it, the engine sees them) *)
Definition par_nonemptyb (c : fchart) : bool :=
  forallb (fun s => match fs_type (st c s), fs_children (st c s) with
                    | FParallel, [] => false
                    | _, _ => true
                    end) (seq 0 (nstates c)).

(* strictly ascending *)
Fixpoint ascb (l : list nat) : bool :=
  match l with
  | x :: (y :: _) as r => (x <? y) && ascb r
  | _ => true
  end.

(* the two greedy filters, as functions of the list of enabled transitions *)
Fixpoint greedy (conf : nat -> nat -> bool) (l sel : list nat) : list nat :=
  match l with
  | [] => sel
  | t :: r => greedy conf r (if existsb (conf t) sel then sel else sel ++ [t])
  end.

Fixpoint greedy_ins (conf : nat -> nat -> bool) (l sel : list nat) : list nat :=
  match l with
  | [] => sel
  | t :: r => greedy_ins conf r (if existsb (conf t) sel then sel else insert_sorted t sel)
  end.

Fixpoint firstsome {A B} (f : A -> option B) (l : list A) : option B :=
  match l with
  | [] => None
  | s :: r => match f s with Some t => Some t | None => firstsome f r end
  end.
