(* TablesFlattenMain.v -- C05: Tables.Impl_tables (the transpilers' tables) and Chart.flatten with
   Large.domain / exit_interval / Fast.fconflicts (the interpreter's tables, over which the back-end
   behaviour models are built) agree, table by table; where they do not, the boundary with a witness. *)
From V Require Import Base Chart Large Fast CGen Tables TreeLemmas TablesLemmas SetLemmas LargeCacheLemmas
  FlattenWfTree FlattenWfStruct TablesFlatten TablesFlattenLemmas TablesFlattenTrans.
Local Open Scope nat_scope.

Lemma tf_existsb_filter_ne {A} (P : A -> bool) l : existsb P l = match filter P l with [] => false | _ => true end.
Proof. induction l as [|x l IH]; [reflexivity|]. cbn [existsb filter]. destruct (P x); [reflexivity | exact IH]. Qed.

Lemma tf_existsb_map {A B} (P : B -> bool) (f : A -> B) l : existsb P (map f l) = existsb (fun x => P (f x)) l.
Proof. induction l as [|x l IH]; [reflexivity|]. cbn [map existsb]. rewrite IH. reflexivity. Qed.

Lemma eff_source_noninitial_lemma c t : ft_initial t = false -> eff_source c t = t.
Proof. intros H. unfold eff_source. rewrite H. reflexivity. Qed.

Section Main.
Variable late : bool.
Variable t0 : tree.
Local Notation root := (resort t0).
Local Notation c := (flatten late t0).
Local Notation n := (tsize (resort t0)).
Local Notation nodes := (nodes_of (resort t0)).
Local Notation trs := (postfix_trans nodes root).

Lemma tf_closed v T : Impl_tables v t0 = Tables.Ok T ->
  exists chains, chains_of nodes = Some chains /\
    T = {| tbl_states := map (impl_stab nodes chains (impl_hist_results nodes chains v root)) (seq 0 n);
           tbl_trans := map (impl_ttab root chains trs) trs |}.
Proof.
  intros H. destruct (Impl_tables_closed v t0) as (chains & Hch & E). exists chains. split; [exact Hch|].
  rewrite E in H. inversion H. reflexivity.
Qed.

Lemma tf_fc_states {A} (f : fstate -> A) : map f (fc_states c) = map (fun i => f (st c i)) (seq 0 n).
Proof.
  rewrite <- (tf_nstates late t0). unfold nstates. rewrite <- (map_nth_seq' (fc_states c) dummy_state) at 1.
  rewrite map_map. reflexivity.
Qed.

Lemma tf_states_field {A} (f : stab -> A) (g : nat -> A) v T : Impl_tables v t0 = Tables.Ok T ->
  (forall chains i, chains_of nodes = Some chains -> i < n ->
     f (impl_stab nodes chains (impl_hist_results nodes chains v root) i) = g i) ->
  map f (tbl_states T) = map g (seq 0 n).
Proof.
  intros HT H. destruct (tf_closed v T HT) as (chains & Hch & ->). cbn [tbl_states]. rewrite map_map.
  apply map_ext_in. intros i Hi. apply in_seq in Hi. apply H; [exact Hch | lia].
Qed.

Lemma tf_trans_field {A} (f : ttab -> A) (g : ftrans -> A) v T : Impl_tables v t0 = Tables.Ok T ->
  (forall chains x, chains_of nodes = Some chains -> In x trs ->
     f (impl_ttab root chains trs x) = g (ftr t0 x)) ->
  map f (tbl_trans T) = map g (fc_trans c).
Proof.
  intros HT H. destruct (tf_closed v T HT) as (chains & Hch & ->). cbn [tbl_trans].
  rewrite (tf_fc_trans late t0), !map_map. apply map_ext_in. intros x Hx. apply H; assumption.
Qed.

Lemma tables_sizes_agree_lemma v T : Impl_tables v t0 = Tables.Ok T ->
  length (tbl_states T) = nstates c /\ length (tbl_trans T) = ntrans c.
Proof.
  intros HT. destruct (tf_closed v T HT) as (chains & Hch & ->). cbn [tbl_states tbl_trans].
  rewrite !map_length, seq_length, (tf_nstates late t0). split; [reflexivity|].
  unfold ntrans. rewrite (tf_fc_trans late t0), map_length. reflexivity.
Qed.

Lemma tables_parent_agree_lemma v T : Impl_tables v t0 = Tables.Ok T ->
  map sb_parent (tbl_states T) = map fs_parent (fc_states c).
Proof.
  intros HT. rewrite tf_fc_states. apply (tf_states_field _ _ v T HT). intros chains i Hch Hi.
  cbn [impl_stab sb_parent]. symmetry. apply (tf_parent late t0 i Hi).
Qed.

Lemma tables_children_agree_lemma v T : Impl_tables v t0 = Tables.Ok T ->
  map sb_child (tbl_states T) = map (fun s => bits_of_set (nstates c) (fs_children s)) (fc_states c).
Proof.
  intros HT. rewrite tf_fc_states. apply (tf_states_field _ _ v T HT). intros chains i Hch Hi.
  cbn [impl_stab sb_child]. unfold impl_child, bits_of_set. rewrite (br_idx root), (tf_nstates late t0).
  apply map_ext_in. intros j Hj. rewrite (tf_children late t0 i Hi). unfold kidx. rewrite mem_filter_seq by exact Hj. reflexivity.
Qed.

Lemma tables_ancestors_agree_lemma v T : Impl_tables v t0 = Tables.Ok T ->
  map sb_anc (tbl_states T) = map (fun s => bits_of_set (nstates c) (fs_ancestors s)) (fc_states c).
Proof.
  intros HT. rewrite tf_fc_states. apply (tf_states_field _ _ v T HT). intros chains i Hch Hi.
  cbn [impl_stab sb_anc]. unfold impl_anc, bits_of_set. rewrite (br_idx root), (tf_nstates late t0).
  apply map_ext. intros j. symmetry. apply (tf_anc late t0 chains Hch j i Hi).
Qed.

Lemma tables_kinds_agree_lemma v T : Impl_tables v t0 = Tables.Ok T ->
  map (ftype_of_stab T) (tbl_states T) = map fs_type (fc_states c) /\
  map sb_sid (tbl_states T) = map fs_sid (fc_states c).
Proof.
  intros HT. split.
  - destruct (tf_closed v T HT) as (chains & Hch & E). rewrite tf_fc_states. rewrite E at 2. cbn [tbl_states]. rewrite map_map.
    apply map_ext_in. intros i Hi. apply in_seq in Hi. cbn [Nat.add] in Hi. destruct Hi as [_ Hi].
    rewrite (tf_type late t0 i Hi). unfold ftype_of_stab, type_of. cbn [impl_stab sb_kind sb_child].
    fold (nkind nodes i).
    assert (Hex : existsb (fun p : bool * stab => fst p && is_proper_kind (sb_kind (snd p))) (combine (impl_child nodes i) (tbl_states T)) =
                  has_proper_child (ntree nodes i)).
    { rewrite E. cbn [tbl_states]. unfold impl_child. rewrite (br_idx root), combine_map_map, tf_existsb_map.
      cbn [fst snd impl_stab sb_kind]. rewrite (tf_has_proper_child late t0 i Hi). unfold child_states. rewrite (br_idx root).
      apply tf_existsb_filter_ne. }
    rewrite Hex. destruct (nkind nodes i); reflexivity.
  - rewrite tf_fc_states. apply (tf_states_field _ _ v T HT). intros chains i Hch Hi.
    cbn [impl_stab sb_sid]. symmetry. apply (tf_sid late t0 i Hi).
Qed.

Lemma tables_completion_agree_lemma T : tf_refs_ok root = true -> Impl_tables tv_fixed t0 = Tables.Ok T ->
  map sb_compl (tbl_states T) = map (fun s => bits_of_set (nstates c) (fs_completion s)) (fc_states c).
Proof.
  intros Hrefs HT. rewrite tf_fc_states. apply (tf_states_field _ _ tv_fixed T HT). intros chains i Hch Hi.
  cbn [impl_stab sb_compl]. unfold bools_of, bits_of_set. rewrite (br_idx root), (tf_nstates late t0).
  apply map_ext_in. intros j Hj. apply in_seq in Hj. symmetry.
  destruct (is_history nodes i) eqn:Hk.
  - apply (tf_completion_hist late t0 chains Hch i j Hi ltac:(lia) Hk).
  - apply (tf_completion_state late t0 Hrefs i j Hi Hk).
Qed.

Lemma tables_hashist_agree_lemma T : wf_doc root = true -> Impl_tables tv_fixed t0 = Tables.Ok T ->
  map sb_hashist (tbl_states T) = map (has_history c) (seq 0 (nstates c)).
Proof.
  intros Hwf HT. rewrite (tf_nstates late t0). apply (tf_states_field _ _ tv_fixed T HT). intros chains i Hch Hi.
  cbn [impl_stab sb_hashist]. symmetry. apply (tf_hashist late t0 chains Hch i (proj1 (wf_parts root Hwf)) Hi).
Qed.

Lemma tables_transition_order_agree_lemma v T : Impl_tables v t0 = Tables.Ok T ->
  map (fun t => (tb_source t, tb_vid t)) (tbl_trans T) = map (fun t => (ft_source t, ft_vid t)) (fc_trans c) /\
  map tb_srcstate (tbl_trans T) = map (fun t => ft_source (eff_source c t)) (fc_trans c).
Proof.
  intros HT. split.
  - apply (tf_trans_field _ _ v T HT). intros chains x Hch Hx. reflexivity.
  - apply (tf_trans_field _ _ v T HT). intros chains x Hch Hx. cbn [impl_ttab tb_srcstate].
    destruct (tf_trans_in t0 x Hx) as [He _]. symmetry. apply (tf_eff_source late t0 x He).
Qed.

Lemma tables_targets_agree_lemma v T : wf_doc root = true -> tf_refs_ok root = true -> Impl_tables v t0 = Tables.Ok T ->
  map tb_target (tbl_trans T) =
  map (fun t => if ft_targetless t then None else Some (bits_of_set (nstates c) (ft_targets t))) (fc_trans c).
Proof.
  intros Hwf Hrefs HT. apply (tf_trans_field _ _ v T HT). intros chains x Hch Hx. cbn [impl_ttab tb_target].
  rewrite (tf_nstates late t0). apply (tf_target_bools t0 Hwf Hrefs x Hx).
Qed.

Section Plain.
Hypothesis Hwf : wf_doc root = true.
Hypothesis Hrefs : tf_refs_ok root = true.
Hypothesis Hnt : tf_root_no_trans root = true.
Hypothesis Hni : tf_root_no_initial root = true.

Lemma tables_domain_agree_lemma v T : Impl_tables v t0 = Tables.Ok T ->
  map tb_domain (tbl_trans T) = map (fun t => domain c (eff_source c t)) (fc_trans c).
Proof.
  intros HT. apply (tf_trans_field _ _ v T HT). intros chains x Hch Hx. cbn [impl_ttab tb_domain]. symmetry.
  apply (tf_domain late t0 chains Hch Hwf Hrefs x Hx). apply (tf_source_not_root t0 x Hwf Hnt Hni Hx).
Qed.

Lemma tables_exit_set_agree_lemma v T : Impl_tables v t0 = Tables.Ok T ->
  map tb_exit (tbl_trans T) = map (fun t => exit_bits c (exit_interval lg_fixed c (eff_source c t))) (fc_trans c).
Proof.
  intros HT. apply (tf_trans_field _ _ v T HT). intros chains x Hch Hx. cbn [impl_ttab tb_exit].
  apply (tf_exit_bits late t0 chains Hch Hwf Hrefs x Hx). apply (tf_source_not_root t0 x Hwf Hnt Hni Hx).
Qed.

Lemma tables_conflicts_agree_with_fast_lemma v T : tf_root_compound root = true -> Impl_tables v t0 = Tables.Ok T ->
  map tb_confl (tbl_trans T) =
  map (fun t1 => map (fun t2 => fconflicts c (eff_source c t1) (eff_source c t2)) (fc_trans c)) (fc_trans c).
Proof.
  intros Hrc HT. apply (tf_trans_field _ _ v T HT). intros chains x Hch Hx. cbn [impl_ttab tb_confl].
  rewrite (tf_fc_trans late t0), map_map. apply map_ext_in. intros y Hy.
  apply (tf_conflict_bit late t0 chains Hch Hwf Hrefs Hrc x y Hx Hy);
    apply (tf_source_not_root t0 _ Hwf Hnt Hni); assumption.
Qed.

End Plain.

Lemma tf_doc_ok_parts : tf_doc_ok root = true ->
  wf_doc root = true /\ tf_refs_ok root = true /\ tf_root_no_trans root = true /\ tf_root_no_initial root = true /\
  tf_root_compound root = true.
Proof. unfold tf_doc_ok. rewrite !andb_true_iff. tauto. Qed.

(* the conjunction *)
Lemma tables_agree_with_flatten_lemma T : tf_doc_ok root = true -> Impl_tables tv_fixed t0 = Tables.Ok T ->
  let ns := nstates c in
  length (tbl_states T) = ns /\ length (tbl_trans T) = ntrans c /\
  map sb_parent (tbl_states T) = map fs_parent (fc_states c) /\
  map sb_child (tbl_states T) = map (fun s => bits_of_set ns (fs_children s)) (fc_states c) /\
  map sb_anc (tbl_states T) = map (fun s => bits_of_set ns (fs_ancestors s)) (fc_states c) /\
  map (ftype_of_stab T) (tbl_states T) = map fs_type (fc_states c) /\
  map sb_sid (tbl_states T) = map fs_sid (fc_states c) /\
  map sb_compl (tbl_states T) = map (fun s => bits_of_set ns (fs_completion s)) (fc_states c) /\
  map sb_hashist (tbl_states T) = map (has_history c) (seq 0 ns) /\
  map (fun t => (tb_source t, tb_vid t)) (tbl_trans T) = map (fun t => (ft_source t, ft_vid t)) (fc_trans c) /\
  map tb_srcstate (tbl_trans T) = map (fun t => ft_source (eff_source c t)) (fc_trans c) /\
  map tb_target (tbl_trans T) = map (fun t => if ft_targetless t then None else Some (bits_of_set ns (ft_targets t))) (fc_trans c) /\
  map tb_domain (tbl_trans T) = map (fun t => domain c (eff_source c t)) (fc_trans c) /\
  map tb_exit (tbl_trans T) = map (fun t => exit_bits c (exit_interval lg_fixed c (eff_source c t))) (fc_trans c) /\
  map tb_confl (tbl_trans T) =
    map (fun t1 => map (fun t2 => fconflicts c (eff_source c t1) (eff_source c t2)) (fc_trans c)) (fc_trans c).
Proof.
  intros Hok HT. destruct (tf_doc_ok_parts Hok) as (Hwf & Hrefs & Hnt & Hni & Hrc). cbn zeta.
  destruct (tables_sizes_agree_lemma _ T HT) as [S1 S2].
  destruct (tables_kinds_agree_lemma _ T HT) as [K1 K2].
  destruct (tables_transition_order_agree_lemma _ T HT) as [O1 O2].
  repeat split; try assumption.
  - apply (tables_parent_agree_lemma _ T HT).
  - apply (tables_children_agree_lemma _ T HT).
  - apply (tables_ancestors_agree_lemma _ T HT).
  - apply (tables_completion_agree_lemma T Hrefs HT).
  - apply (tables_hashist_agree_lemma T Hwf HT).
  - apply (tables_targets_agree_lemma _ T Hwf Hrefs HT).
  - apply (tables_domain_agree_lemma Hwf Hrefs Hnt Hni _ T HT).
  - apply (tables_exit_set_agree_lemma Hwf Hrefs Hnt Hni _ T HT).
  - apply (tables_conflicts_agree_with_fast_lemma Hwf Hrefs Hnt Hni _ T Hrc HT).
Qed.

End Main.

(* ------------------------------------------------------------------ non-vacuity *)

Example tf_rich_ok : tf_doc_ok (resort tf_rich) = true /\
  exists T, Impl_tables tv_fixed tf_rich = Tables.Ok T /\ length (tbl_states T) = 13 /\ length (tbl_trans T) = 8.
Proof. split; [vm_compute; reflexivity|]. eexists. split; [vm_compute; reflexivity|]. split; reflexivity. Qed.

(* ------------------------------------------------------------------ the boundary: witnesses *)

Definition flat_target_rows (c : fchart) : list (option (list bool)) :=
  map (fun t => if ft_targetless t then None else Some (bits_of_set (nstates c) (ft_targets t))) (fc_trans c).
Definition flat_completion_rows (c : fchart) : list (list bool) :=
  map (fun s => bits_of_set (nstates c) (fs_completion s)) (fc_states c).

(* without tf_refs_ok: a target id that names no element with an id is the number of the <scxml> element;
   the transpilers drop it, flatten makes the root the target *)
Lemma tables_targets_refs_refuted_lemma :
  exists t0 T, wf_doc (resort t0) = true /\ Impl_tables tv_fixed t0 = Tables.Ok T /\
    map tb_target (tbl_trans T) <> flat_target_rows (flatten false t0).
Proof. exists w_ref_root. eexists. split; [vm_compute; reflexivity|]. split; [vm_compute; reflexivity|]. vm_compute. discriminate. Qed.

(* without tf_refs_ok: an initial attribute naming the number of an <initial> element *)
Lemma tables_completion_refs_refuted_lemma :
  exists t0 T, wf_doc (resort t0) = true /\ Impl_tables tv_fixed t0 = Tables.Ok T /\
    map sb_compl (tbl_states T) <> flat_completion_rows (flatten false t0).
Proof. exists w_ref_initial. eexists. split; [vm_compute; reflexivity|]. split; [vm_compute; reflexivity|]. vm_compute. discriminate. Qed.

(* pinned setHistoryCompletion (tv_pinned): the history completion is not the interpreter's *)
Lemma tables_completion_pinned_refuted_lemma :
  exists t0 T, tf_doc_ok (resort t0) = true /\ Impl_tables tv_pinned t0 = Tables.Ok T /\
    map sb_compl (tbl_states T) <> flat_completion_rows (flatten false t0).
Proof. exists w_nested_history. eexists. split; [vm_compute; reflexivity|]. split; [vm_compute; reflexivity|]. vm_compute. discriminate. Qed.

(* a transition of the <scxml> element: getTransitionDomain gives NULL (empty exit set), the interpreter the root *)
Lemma tables_domain_root_trans_refuted_lemma :
  exists t0 T, wf_doc (resort t0) = true /\ tf_refs_ok (resort t0) = true /\ Impl_tables tv_fixed t0 = Tables.Ok T /\
    let c := flatten false t0 in
    map tb_domain (tbl_trans T) <> map (fun t => domain c (eff_source c t)) (fc_trans c) /\
    map tb_exit (tbl_trans T) <> map (fun t => exit_bits c (exit_interval lg_fixed c (eff_source c t))) (fc_trans c).
Proof.
  exists w_root_trans. eexists. split; [vm_compute; reflexivity|]. split; [vm_compute; reflexivity|].
  split; [vm_compute; reflexivity|]. split; vm_compute; discriminate.
Qed.

(* an <initial> child of the <scxml> element: likewise *)
Lemma tables_domain_root_initial_refuted_lemma :
  exists t0 T, wf_doc (resort t0) = true /\ tf_refs_ok (resort t0) = true /\ tf_root_no_trans (resort t0) = true /\
    Impl_tables tv_fixed t0 = Tables.Ok T /\
    let c := flatten false t0 in
    map tb_domain (tbl_trans T) <> map (fun t => domain c (eff_source c t)) (fc_trans c).
Proof.
  exists w_root_initial. eexists. split; [vm_compute; reflexivity|]. split; [vm_compute; reflexivity|].
  split; [vm_compute; reflexivity|]. split; [vm_compute; reflexivity|]. vm_compute. discriminate.
Qed.

(* a document without any proper state: the exit intervals overlap, the exit sets (proper states) are empty *)
Lemma tables_conflicts_no_proper_state_refuted_lemma :
  exists t0 T, wf_doc (resort t0) = true /\ tf_refs_ok (resort t0) = true /\ tf_root_no_trans (resort t0) = true /\
    tf_root_no_initial (resort t0) = true /\ Impl_tables tv_fixed t0 = Tables.Ok T /\
    let c := flatten false t0 in
    map tb_confl (tbl_trans T) <>
    map (fun t1 => map (fun t2 => fconflicts c (eff_source c t1) (eff_source c t2)) (fc_trans c)) (fc_trans c).
Proof.
  exists w_root_pseudo_only. eexists. split; [vm_compute; reflexivity|]. split; [vm_compute; reflexivity|].
  split; [vm_compute; reflexivity|]. split; [vm_compute; reflexivity|]. split; [vm_compute; reflexivity|]. vm_compute. discriminate.
Qed.

(* WELL-FORMED document (tf_doc_ok): for the transition of an <initial> element the interpreter's own source
   convention (source = the <initial> element) gives another domain, exit set and conflict row than the
   transpilers' (source = the state around it, getSourceState); CGen.eff_source is that convention *)
Lemma tables_initial_source_refuted_lemma :
  exists t0 T, tf_doc_ok (resort t0) = true /\ Impl_tables tv_fixed t0 = Tables.Ok T /\
    let c := flatten false t0 in
    map tb_domain (tbl_trans T) <> map (domain c) (fc_trans c) /\
    map tb_exit (tbl_trans T) <> map (fun t => exit_bits c (exit_interval lg_fixed c t)) (fc_trans c) /\
    map tb_confl (tbl_trans T) <> map (fun t1 => map (fun t2 => fconflicts c t1 t2) (fc_trans c)) (fc_trans c).
Proof.
  exists w_initial_elem. eexists. split; [vm_compute; reflexivity|]. split; [vm_compute; reflexivity|].
  split; [|split]; vm_compute; discriminate.
Qed.

(* WELL-FORMED document: the interpreter's exit interval contains the <history> / <initial> elements below the
   domain, the transpilers' exit set only proper states *)
Lemma tables_exit_interval_pseudo_refuted_lemma :
  exists t0 T, tf_doc_ok (resort t0) = true /\ Impl_tables tv_fixed t0 = Tables.Ok T /\
    let c := flatten false t0 in
    map tb_exit (tbl_trans T) <> map (fun t => exit_bits_raw c (exit_interval lg_fixed c (eff_source c t))) (fc_trans c).
Proof. exists w_hist_in_interval. eexists. split; [vm_compute; reflexivity|]. split; [vm_compute; reflexivity|]. vm_compute. discriminate. Qed.

(* WELL-FORMED document: a target-less transition has no domain; read as a plain interval, (0,0) contains the root *)
Lemma tables_targetless_interval_refuted_lemma :
  exists t0 T, tf_doc_ok (resort t0) = true /\ Impl_tables tv_fixed t0 = Tables.Ok T /\
    let c := flatten false t0 in
    map tb_exit (tbl_trans T) <>
    map (fun t => map (fun j => (fst (exit_interval lg_fixed c t) <=? j) && (j <=? snd (exit_interval lg_fixed c t)))
                      (seq 0 (nstates c))) (fc_trans c).
Proof. exists w_targetless. eexists. split; [vm_compute; reflexivity|]. split; [vm_compute; reflexivity|]. vm_compute. discriminate. Qed.

(* ------------------------------------------------------------------ the statements in the shape of props/Properties_C05.v *)

Lemma tables_domain_agree_thm : forall late v t0 T,
  wf_doc (resort t0) = true -> tf_refs_ok (resort t0) = true ->
  tf_root_no_trans (resort t0) = true -> tf_root_no_initial (resort t0) = true ->
  Impl_tables v t0 = Tables.Ok T ->
  let c := flatten late t0 in
  map tb_domain (tbl_trans T) = map (fun t => domain c (eff_source c t)) (fc_trans c).
Proof. intros late v t0 T H1 H2 H3 H4 HT. exact (tables_domain_agree_lemma late t0 H1 H2 H3 H4 v T HT). Qed.

Lemma tables_exit_set_agree_thm : forall late v t0 T,
  wf_doc (resort t0) = true -> tf_refs_ok (resort t0) = true ->
  tf_root_no_trans (resort t0) = true -> tf_root_no_initial (resort t0) = true ->
  Impl_tables v t0 = Tables.Ok T ->
  let c := flatten late t0 in
  map tb_exit (tbl_trans T) = map (fun t => exit_bits c (exit_interval lg_fixed c (eff_source c t))) (fc_trans c).
Proof. intros late v t0 T H1 H2 H3 H4 HT. exact (tables_exit_set_agree_lemma late t0 H1 H2 H3 H4 v T HT). Qed.

Lemma tables_conflicts_agree_with_fast_thm : forall late v t0 T,
  wf_doc (resort t0) = true -> tf_refs_ok (resort t0) = true ->
  tf_root_no_trans (resort t0) = true -> tf_root_no_initial (resort t0) = true -> tf_root_compound (resort t0) = true ->
  Impl_tables v t0 = Tables.Ok T ->
  let c := flatten late t0 in
  map tb_confl (tbl_trans T) =
  map (fun t1 => map (fun t2 => fconflicts c (eff_source c t1) (eff_source c t2)) (fc_trans c)) (fc_trans c).
Proof. intros late v t0 T H1 H2 H3 H4 H5 HT. exact (tables_conflicts_agree_with_fast_lemma late t0 H1 H2 H3 H4 v T H5 HT). Qed.
