(* VhdlDocLarge.v -- C18: the reference step Vhdl.next_config against the DEFAULT engine (LargeMicroStep,
   Large.select_and_step, repaired code lg_fixed) -- "the SCXML step algorithm" of the property text.
   VhdlDocEngine.ref_step_is_fast ties the reference to FastMicroStep; the engine-equivalence theorems of C03
   (EngineEquivSelect / EngineEquivRun) tie FastMicroStep to LargeMicroStep under their computable guards:
     static   wf_coreb (legal target sets included), par_nonemptyb, trans_tableb;
     dynamic  sas_guardb c l x ev = sel_guardb (the large engine's skipping of the parent of a state in which it
              just selected a transition is not observable: C03-K1 is where it fails) && ms_guardb (done.state
              events of <parallel>s, which only concern the event queue -- a hypothesis of the C03 theorem used,
              not of the configuration equality as such).
   Hence `_partial`.  Proofs only. *)
From V Require Import Base NameMatch Chart Exec Large LargeLemmas Fast Interp Legal LegalRun WfCore LegalOracle
     SelectConform MicroConform EngineEquivDone EngineEquivStep EngineEquivSelect EngineEquivRun EngineEquivMain
     Vhdl FlattenWf FlattenWfLemmas FlattenWfSideLemmas VhdlDoc VhdlDocFlat VhdlDocLemmas VhdlDocEngine.
Local Open Scope nat_scope.

Lemma vh_wfb_leaf_ok c : vh_wfb c = true -> leaf_okb c = true.
Proof.
  intros H. pose proof (vh_wfb_leaf c H) as L. unfold vh_leafb in L. rewrite vd_fseq in L.
  unfold leaf_okb. apply vd_fseq. intros i Hi. specialize (L i Hi).
  destruct (fs_type (st c i)); try reflexivity; destruct (fs_children (st c i)); try reflexivity; discriminate.
Qed.

Lemma legal_configb_range c cfg : legal_configb c cfg = true -> forall i, In i cfg -> i < nstates c.
Proof.
  unfold legal_configb. intros H i Hi. apply andb_true_iff in H as [_ H]. rewrite forallb_forall in H.
  specialize (H i Hi). unfold state_ok in H. repeat (apply andb_true_iff in H as [H _]). now apply Nat.ltb_lt.
Qed.

Theorem reference_step_is_default_engine_partial_lemma : forall xv c l x ev,
  vh_wfb c = true -> wf_coreb c = true -> par_nonemptyb c = true -> trans_tableb c = true ->
  legal_configb c (l_cfg l) = true -> ascb (l_cfg l) = true ->
  sas_guardb c l x ev = true ->
  next_config c (l_cfg l) (option_map ev_name ev) (val_of c (l_cfg l) (x_store x)) =
  l_cfg (fst (fst (select_and_step lg_fixed xv c l x ev))).
Proof.
  intros xv c l x ev Hv Hc Hp Ht HL Ha Hg.
  pose proof (legal_configb_range c _ HL) as Hr.
  unfold sas_guardb in Hg. cbn zeta in Hg. apply andb_true_iff in Hg as [Hg1 Hg2].
  pose proof (fast_large_select_equiv_lemma c (l_cfg l) ev x Hc Ht Ha Hr Hg1) as Hsel.
  pose proof (fast_large_step_equiv_given_selection_lemma xv c l l x ev Hc (vh_wfb_leaf_ok c Hv) Hp
                (lstate_eqv_refl c l) HL Ha Hsel Hg2) as Hres.
  unfold res_eqv, lstate_eqv in Hres. destruct Hres as ((Ecfg & _) & _).
  rewrite <- Ecfg. now apply reference_step_is_fast_microstep_lemma.
Qed.

(* arbitrary condition inputs: the chart with the conditions frozen to the input values *)
Theorem reference_step_is_default_engine_inputs_partial_lemma : forall xv c val l x ev,
  let c' := set_conds val c in
  vh_wfb c = true -> wf_coreb c' = true -> par_nonemptyb c' = true -> trans_tableb c' = true ->
  legal_configb c (l_cfg l) = true -> ascb (l_cfg l) = true ->
  sas_guardb c' l x ev = true ->
  next_config c (l_cfg l) (option_map ev_name ev) val =
  l_cfg (fst (fst (select_and_step lg_fixed xv c' l x ev))).
Proof.
  intros xv c val l x ev c' Hv Hc Hp Ht HL Ha Hg.
  rewrite <- (frozen_next_config val c (l_cfg l) (option_map ev_name ev) (x_store x)).
  apply reference_step_is_default_engine_partial_lemma; try assumption.
  unfold c'. now rewrite frozen_vh_wfb.
Qed.

(* at document level: the static guards except trans_tableb follow from the document predicates *)
Theorem document_step_is_default_engine_partial_lemma : forall xv t l x ev,
  let c := flatten false t in
  vh_tree_runb t = true -> ct_par_nonemptyb t = true -> trans_tableb c = true ->
  legal_configb c (l_cfg l) = true -> ascb (l_cfg l) = true ->
  vh_running c (l_cfg l) = true -> vh_event_ok c (option_map ev_name ev) = true ->
  sas_guardb c l x ev = true ->
  eval_eqs c (gen_eqs vh_fixed c) (l_cfg l) (option_map ev_name ev) (val_of c (l_cfg l) (x_store x)) =
  Some (l_cfg (fst (fst (select_and_step lg_fixed xv c l x ev)))).
Proof.
  intros xv t l x ev c Ht Hp Htab HL Ha Hrun Hev Hg.
  pose proof (vh_tree_runb_core t Ht) as Hcore.
  assert (Hvt : vh_treeb t = true) by (unfold vh_tree_runb in Ht; now apply andb_true_iff in Ht as [Ht _]).
  destruct (flatten_wf_core_lemma false t Hcore) as [Hc _].
  rewrite <- (reference_step_is_default_engine_partial_lemma xv c l x ev (flatten_vh_wf_lemma false t Hvt) Hc
                (side_par_nonempty false t Hcore Hp) Htab HL Ha Hg).
  now apply document_vhdl_next_correct_lemma.
Qed.
