(* LegalAbstract.v -- the set-level argument why a microstep preserves legality of the configuration:
   C' = (C - X) + E is legal whenever C is, X is what C has below a set of pairwise unrelated domains and
   E is ancestor-closed, parallel-closed, completed at its compounds, has at most one child per compound
   and lies, outside the surviving part of C, below the domains.  (DESIGN.md Appendix D.) *)
From V Require Import Base Chart.
Local Open Scope nat_scope.

Section Abstract.
Variable parent : nat -> option nat.
Variable children : nat -> list nat.
Variable kind : nat -> ftype.

Inductive Anc : nat -> nat -> Prop :=
| anc_parent : forall i p, parent i = Some p -> Anc p i
| anc_step : forall i p a, parent i = Some p -> Anc a p -> Anc a i.

Hypothesis child_spec : forall p k, In k (children p) <-> parent k = Some p.
Hypothesis root_no_parent : parent 0 = None.
Hypothesis root_not_parallel : kind 0 <> FParallel.

Lemma anc_child a k p : parent k = Some p -> Anc a k -> a = p \/ Anc a p.
Proof.
  intros Hp H. inversion H as [i p' Hp'|i p' a' Hp' Ha']; subst.
  - left. congruence.
  - right. congruence.
Qed.

Lemma no_anc_root a : ~ Anc a 0.
Proof. intros H. inversion H; congruence. Qed.

Record Legal (C : nat -> Prop) : Prop := {
  lg_root : C 0;
  lg_parent : forall i p, C i -> parent i = Some p -> C p;
  lg_compound_ex : forall i, C i -> kind i = FCompound -> exists k, In k (children i) /\ C k;
  lg_compound_uniq : forall i k1 k2, C i -> kind i = FCompound ->
                                     In k1 (children i) -> In k2 (children i) -> C k1 -> C k2 -> k1 = k2;
  lg_parallel : forall i k, C i -> kind i = FParallel -> In k (children i) -> C k
}.

Variable C : nat -> Prop.
Variable Dm : nat -> Prop.
Variable E : nat -> Prop.

Definition X (x : nat) : Prop := C x /\ exists d, Dm d /\ Anc d x.
Definition C' (x : nat) : Prop := (C x /\ ~ X x) \/ E x.

Hypothesis HC : Legal C.
Hypothesis Edec : forall x, E x \/ ~ E x.
Hypothesis Xdec : forall x, X x \/ ~ X x.
Hypothesis Dm_kind : forall d, Dm d -> kind d = FCompound \/ d = 0.
Hypothesis E1 : forall i p, E i -> parent i = Some p -> E p.
Hypothesis E2 : forall i k, E i -> kind i = FParallel -> In k (children i) -> E k.
Hypothesis E3 : forall i, E i -> kind i = FCompound -> exists k, In k (children i) /\ (E k \/ (C k /\ ~ X k)).
Hypothesis E4 : forall i k1 k2, kind i = FCompound -> In k1 (children i) -> In k2 (children i) -> E k1 -> E k2 -> k1 = k2.
Hypothesis E5 : forall f, E f -> (C f /\ ~ X f) \/ exists d, Dm d /\ Anc d f.
Hypothesis E7 : forall d, Dm d -> E d.

(* a surviving state's parent survives *)
Lemma survive_parent i p : C i -> ~ X i -> parent i = Some p -> C p /\ ~ X p.
Proof.
  intros Hi Hx Hp. split; [eapply lg_parent; eauto|].
  intros [_ (d & Hd & Ha)]. apply Hx. split; [exact Hi|]. exists d. split; [exact Hd|].
  eapply anc_step; eauto.
Qed.

(* a child of a surviving state that is exited sits directly below a domain equal to that state *)
Lemma exited_child_of_survivor i k : C i -> ~ X i -> parent k = Some i -> X k -> Dm i.
Proof.
  intros Hi Hx Hp [_ (d & Hd & Ha)]. destruct (anc_child _ _ _ Hp Ha) as [->|Ha']; [exact Hd|].
  exfalso. apply Hx. split; [exact Hi|]. exists d. tauto.
Qed.

Theorem abstract_legal : Legal C'.
Proof.
  constructor.
  - (* root *)
    left. split; [apply (lg_root _ HC)|]. intros [_ (d & _ & Ha)]. exact (no_anc_root _ Ha).
  - (* parent *)
    intros i p [[Hi Hx]|Hi] Hp.
    + left. eapply survive_parent; eauto.
    + right. eapply E1; eauto.
  - (* compound: existence *)
    intros i [[Hi Hx]|Hi] Hk.
    + destruct (Edec i) as [HE|HnE].
      * destruct (E3 i HE Hk) as (k & Hin & [Hk'|Hk']); exists k; (split; [exact Hin|]); [right | left]; assumption.
      * destruct (lg_compound_ex _ HC i Hi Hk) as (k & Hin & Hck). exists k. split; [exact Hin|].
        left. split; [exact Hck|]. intros HXk.
        apply HnE, E7. eapply exited_child_of_survivor; eauto. now apply child_spec.
    + destruct (E3 i Hi Hk) as (k & Hin & [Hk'|Hk']); exists k; (split; [exact Hin|]); [right | left]; assumption.
  - (* compound: uniqueness *)
    intros i k1 k2 Hi Hk Hin1 Hin2 H1 H2.
    assert (Hp1 : parent k1 = Some i) by now apply child_spec.
    assert (Hp2 : parent k2 = Some i) by now apply child_spec.
    (* one entered child and one surviving child are the same state *)
    assert (Hmix : forall a b, In a (children i) -> In b (children i) -> E a -> C b -> ~ X b -> a = b).
    { intros a b Ha Hb HEa HCb HXb.
      assert (Hpa : parent a = Some i) by now apply child_spec.
      assert (Hpb : parent b = Some i) by now apply child_spec.
      assert (HCi : C i) by (eapply lg_parent; eauto).
      destruct (E5 a HEa) as [[HCa _]|(d & Hd & Hda)].
      - eapply (lg_compound_uniq _ HC i); eauto.
      - exfalso. apply HXb. split; [exact HCb|]. exists d. split; [exact Hd|].
        destruct (anc_child _ _ _ Hpa Hda) as [->|Hdi].
        + now apply anc_parent.
        + eapply anc_step; eauto. }
    destruct H1 as [[HC1 HX1]|HE1], H2 as [[HC2 HX2]|HE2].
    + assert (HCi : C i) by (eapply lg_parent; eauto).
      eapply (lg_compound_uniq _ HC i); eauto.
    + symmetry. eapply Hmix; eauto.
    + eapply Hmix; eauto.
    + eapply E4; eauto.
  - (* parallel *)
    intros i k [[Hi Hx]|Hi] Hk Hin.
    + assert (Hp : parent k = Some i) by now apply child_spec.
      destruct (Xdec k) as [HXk|HnXk].
      * exfalso. pose proof (exited_child_of_survivor i k Hi Hx Hp HXk) as Hd.
        destruct (Dm_kind _ Hd) as [Hc| ->]; [congruence | contradiction].
      * left. split; [|exact HnXk]. eapply lg_parallel; eauto.
    + right. eapply E2; eauto.
Qed.

End Abstract.
