(* RunConformTok.v -- C01, run-level composition: executable content only emits content tokens (C{ }C LOG), which
   the projection keeps and which leave its want_cfg flag alone.  The traversal is the one of ExecLemmas.exec_instr_rel
   with the emit rule restricted to content tokens.  Proofs only. *)
From V Require Import Base NameMatch Chart Exec Large Trace TraceLemmas ExecLemmas RunConformBase.
Local Open Scope nat_scope.

Definition contentb (t : tok) : bool := match t with TCb _ | TCe _ | TLog _ => true | _ => false end.

Section RelC.
Variable inst : N -> bool.
Variable R : xstate -> xstate -> Prop.
Hypothesis Rrefl : forall x, R x x.
Hypothesis Rtrans : forall x y z, R x y -> R y z -> R x z.
Hypothesis Remit : forall t x, contentb t = true -> R x (emit t x).
Hypothesis Rint : forall e x, R x (raise_int e x).
Hypothesis Rext : forall e x, R x (raise_ext e x).
Hypothesis Rstore : forall s x, R x (set_store s x).

Lemma is_true_relc c x : R x (snd (is_true inst c x)).
Proof. unfold is_true. destruct (beval _ _ _); cbn [snd]; [apply Rrefl | apply Rint]. Qed.

Lemma fail_elem_relc vid e x : R x (snd (fail_elem vid e x)).
Proof. unfold fail_elem. cbn [snd]. apply (Rtrans _ (raise_int e x)); [apply Rint | apply Remit; reflexivity]. Qed.

Lemma exec_instr_relc i : forall y, R y (snd (exec_instr ex_fixed inst i y)).
Proof.
  induction i using instr_ind2 with
    (Q := fun it => match it with
                    | FInstr j => forall y, R y (snd (exec_instr ex_fixed inst j y))
                    | _ => True
                    end); try exact I; intros y.
  - cbn [exec_instr snd]. apply (Rtrans _ (emit (TCb v) y)); [apply Remit; reflexivity|].
    apply (Rtrans _ (raise_int {| ev_name := e; ev_kind := EvInternal |} (emit (TCb v) y))); [apply Rint | apply Remit; reflexivity].
  - cbn [exec_instr snd]. apply (Rtrans _ (emit (TCb v) y)); [apply Remit; reflexivity|].
    apply (Rtrans _ (raise_ext {| ev_name := e; ev_kind := EvExternal |} (emit (TCb v) y))); [apply Rext | apply Remit; reflexivity].
  - cbn [exec_instr]. apply (Rtrans _ (emit (TCb v) y)); [apply Remit; reflexivity | apply fail_elem_relc].
  - cbn [exec_instr]. apply (Rtrans _ (emit (TCb v) y)); [apply Remit; reflexivity | apply fail_elem_relc].
  - cbn [exec_instr]. apply (Rtrans _ (emit (TCb v) y)); [apply Remit; reflexivity|]. destruct (ieval _ _) as [z|].
    + cbn [snd]. apply (Rtrans _ (emit (TLog z) (emit (TCb v) y))); apply Remit; reflexivity.
    + apply fail_elem_relc.
  - cbn [exec_instr]. apply (Rtrans _ (emit (TCb v) y)); [apply Remit; reflexivity|]. destruct (ieval _ _) as [z|]; [destruct (lookup _ _)|].
    + cbn [snd]. apply (Rtrans _ (set_store (update (x_store (emit (TCb v) y)) x z) (emit (TCb v) y))); [apply Rstore | apply Remit; reflexivity].
    + apply fail_elem_relc.
    + apply fail_elem_relc.
  - rewrite exec_if_unfold. cbn zeta.
    assert (Hitems : forall l, Forall (fun it => match it with
                    | FInstr j => forall y, R y (snd (exec_instr ex_fixed inst j y))
                    | _ => True end) l ->
             forall b z, R z (snd (if_items inst l b z))).
    { induction l as [|it r IHl]; intros HF b z; cbn [if_items]; [apply Rrefl|].
      inversion HF as [|? ? Hit Hr]; subst. destruct it as [c'| |j].
      - destruct b; [apply Rrefl|].
        destruct (is_true inst c' z) as [b' z'] eqn:E.
        eapply Rtrans; [|apply IHl; assumption].
        replace z' with (snd (is_true inst c' z)) by (now rewrite E). apply is_true_relc.
      - destruct b; [apply Rrefl | now apply IHl].
      - destruct b; [|now apply IHl].
        destruct (exec_instr ex_fixed inst j z) as [ok z'] eqn:E.
        assert (He : R z z') by (replace z' with (snd (exec_instr ex_fixed inst j z)) by (now rewrite E); apply Hit).
        destruct ok; [eapply Rtrans; [exact He | now apply IHl] | exact He]. }
    destruct (is_true inst c (emit (TCb v) y)) as [b0 x2] eqn:E1.
    destruct (if_items inst body b0 x2) as [ok x3] eqn:E2.
    assert (Ha : R y (emit (TCb v) y)) by (apply Remit; reflexivity).
    assert (Hb : R (emit (TCb v) y) x2).
    { replace x2 with (snd (is_true inst c (emit (TCb v) y))) by (now rewrite E1). apply is_true_relc. }
    assert (Hc : R x2 x3).
    { replace x3 with (snd (if_items inst body b0 x2)) by (now rewrite E2). now apply Hitems. }
    destruct ok; cbn [snd]; (eapply Rtrans; [exact Ha|]; eapply Rtrans; [exact Hb|]; eapply Rtrans; [exact Hc | apply Remit; reflexivity]).
  - now apply IHi.
Qed.

Lemma exec_block_relc b : forall x, R x (exec_block ex_fixed inst b x).
Proof.
  induction b as [|i r IH]; intros x; cbn [exec_block]; [apply Rrefl|].
  destruct (exec_instr ex_fixed inst i x) as [ok x'] eqn:E.
  assert (He : R x x') by (replace x' with (snd (exec_instr ex_fixed inst i x)) by (now rewrite E); apply exec_instr_relc).
  destruct ok; [eapply Rtrans; [exact He | apply IH] | exact He].
Qed.

Lemma exec_blocks_relc bs : forall x, R x (exec_blocks ex_fixed inst bs x).
Proof.
  unfold exec_blocks. induction bs as [|b r IH]; intros x; cbn [fold_left]; [apply Rrefl|].
  eapply Rtrans; [apply exec_block_relc | apply IH].
Qed.
End RelC.

(* the tokens emitted between x and x' do not change the projection's want_cfg flag *)
Definition quiet (r : N) (x x' : xstate) : Prop :=
  exists new, x_out x' = new ++ x_out x /\ forall w, vw r w (rev new) = w.

Lemma quiet_refl r x : quiet r x x.
Proof. exists []. split; reflexivity. Qed.

Lemma quiet_trans r x y z : quiet r x y -> quiet r y z -> quiet r x z.
Proof.
  intros (n1 & H1 & W1) (n2 & H2 & W2). exists (n2 ++ n1). split; [rewrite H2, H1; now rewrite app_assoc|].
  intros w. rewrite rev_app_distr, vw_app, W1. apply W2.
Qed.

Lemma quiet_emit r t x : contentb t = true -> quiet r x (emit t x).
Proof. intros H. exists [t]. split; [reflexivity|]. intros w. destruct t; try discriminate; reflexivity. Qed.

Lemma quiet_same r x y : x_out y = x_out x -> quiet r x y.
Proof. intros H. exists []. split; [exact H | reflexivity]. Qed.

Lemma exec_blocks_quiet r inst bs x : quiet r x (exec_blocks ex_fixed inst bs x).
Proof.
  apply (exec_blocks_relc inst (quiet r) (quiet_refl r) (quiet_trans r) (quiet_emit r)).
  - intros e y. now apply quiet_same.
  - intros e y. now apply quiet_same.
  - intros s y. now apply quiet_same.
Qed.

Lemma quiet_vw r x x' : quiet r x x' -> vw r false (rev (x_out x')) = vw r false (rev (x_out x)).
Proof. intros (new & H & Wn). rewrite H, rev_app_distr, vw_app. apply Wn. Qed.
