(* LegalRun.v -- from the set-level theorems of LegalLarge.v to the functions of Large.v: every state of
   every run of the modelled large engine on a well-formed core chart has a legal configuration (C02). *)
From V Require Import Base NameMatch Chart Exec Large LargeLemmas Interp Legal SetLemmas LegalAbstract LegalLarge.
Local Open Scope nat_scope.

Section Run.
Variable c : fchart.
Variable xv : ex_variant.
Hypothesis W : WF c.
Hypothesis root_compound : fs_type (st c 0) = FCompound.

Let n := nstates c.
Let par (i : nat) := fs_parent (st c i).
Let ch (i : nat) := fs_children (st c i).
Let kd (i : nat) := fs_type (st c i).

Definition LegalCfg (cfg : list nat) : Prop :=
  Legal par ch kd (fun x => In x cfg) /\ (forall x, In x cfg -> x < n).

(* ---- the list-level effect of exiting and entering ---- *)

Lemma exit_fold_cfg l : forall cfg x y,
  In y (fst (fold_left (exit_one xv c) l (cfg, x))) <-> In y cfg /\ ~ In y l.
Proof.
  induction l as [|i r IH]; intros cfg x y; cbn [fold_left].
  - cbn. tauto.
  - unfold exit_one at 2. cbn zeta. rewrite IH, In_set_remove. cbn [In]. intuition.
Qed.

Lemma no_pseudo i : is_pseudo (fs_type (st c i)) = false.
Proof. destruct (wf_types c W i) as [H|[H|[H|H]]]; rewrite H; reflexivity. Qed.

Lemma enter_one_cfg ts a i y :
  In y (ea_cfg (enter_one xv c ts a i)) <-> In y (ea_cfg a) \/ y = i.
Proof.
  unfold enter_one. rewrite no_pseudo. cbn zeta.
  match goal with |- context [let '(initd1, x2) := ?e in _] => destruct e as [initd1 x2] end.
  destruct (fs_type (st c i)); cbn [ea_cfg]; rewrite In_insert_sorted'; tauto.
Qed.

Lemma enter_fold_cfg ts es : forall a y,
  In y (ea_cfg (fold_left (enter_one xv c ts) es a)) <-> In y (ea_cfg a) \/ In y es.
Proof.
  induction es as [|i r IH]; intros a y; cbn [fold_left].
  - cbn. tauto.
  - rewrite IH, enter_one_cfg. cbn [In]. intuition.
Qed.

Lemma microstep_cfg l x tg exitset ts init y :
  In y (l_cfg (fst (microstep lg_fixed xv c l x tg exitset ts init))) <->
  (In y (l_cfg l) /\ ~ In y exitset) \/
  In y (Efin c (l_cfg l) exitset (if init then l_hist l else remember_history c (l_cfg l) exitset (l_hist l)) tg ts).
Proof.
  unfold microstep, Efin. cbn zeta.
  destruct (entry_set lg_fixed c (l_cfg l) exitset _ tg ts) as [es ts'] eqn:Ees.
  destruct (fold_left (exit_one xv c) (rev exitset) (l_cfg l, x)) as [cfg1 x1] eqn:Eex.
  cbn [fst l_cfg].
  rewrite enter_fold_cfg. cbn [ea_cfg].
  assert (Hc1 : forall z, In z cfg1 <-> In z (l_cfg l) /\ ~ In z exitset).
  { intros z. replace cfg1 with (fst (fold_left (exit_one xv c) (rev exitset) (l_cfg l, x))) by (now rewrite Eex).
    rewrite exit_fold_cfg, <- in_rev. tauto. }
  rewrite In_set_diff, Hc1. cbn [fst].
  destruct (in_dec Nat.eq_dec y cfg1) as [H|H]; [apply Hc1 in H; tauto|].
  rewrite Hc1 in H. tauto.
Qed.

(* ---- the selected transitions have active sources ---- *)

Lemma pick_trans_in cfg ev sel ts x ti x' :
  pick_trans lg_fixed c cfg ev sel ts x = (Some ti, x') -> In ti ts.
Proof. intros H. exact (proj1 (pick_trans_sound lg_fixed c cfg ev sel ts x ti x' H)). Qed.

Lemma select_loop_sources cfg ev order : forall skip sel x,
  (forall s, In s order -> In s cfg) ->
  (forall ti, In ti sel -> In (ft_source (tr c ti)) cfg) ->
  forall ti, In ti (fst (select_loop lg_fixed c cfg ev order skip sel x)) -> In (ft_source (tr c ti)) cfg.
Proof.
  induction order as [|s r IH]; intros skip sel x Hord Hsel; cbn [select_loop]; [exact Hsel|].
  destruct (match skip with Some cur => match fs_parent (st c cur) with Some p => p =? s | None => false end | None => false end).
  - apply IH; [intros; apply Hord; now right | exact Hsel].
  - destruct (pick_trans lg_fixed c cfg ev sel (fs_trans (st c s)) x) as [o x'] eqn:E. destruct o as [ti|].
    + apply IH; [intros; apply Hord; now right|].
      intros t Ht. apply In_insert_sorted' in Ht as [->|Ht]; [|now apply Hsel].
      apply pick_trans_in in E. rewrite (wf_tr_src c W s ti E). apply Hord. now left.
    + apply IH; [intros; apply Hord; now right | exact Hsel].
Qed.

Lemma In_insert_by key x y l : In y (insert_by key x l) <-> y = x \/ In y l.
Proof.
  induction l as [|z r IH]; cbn [insert_by]; [cbn; intuition|].
  destruct (key x <? key z); cbn [In]; [intuition|]. rewrite IH. intuition.
Qed.

Lemma cfg_postfix_sub cfg s : In s (cfg_postfix c cfg) -> In s cfg.
Proof.
  unfold cfg_postfix.
  assert (H : forall l acc, (forall z, In z acc -> In z cfg) -> (forall z, In z l -> In z cfg) ->
                            forall z, In z (fold_left (fun a s => insert_by (first_trans c) s a) l acc) -> In z cfg).
  { induction l as [|a r IH]; intros acc Hacc Hl z; cbn [fold_left]; [apply Hacc|].
    apply IH; [|intros; apply Hl; now right].
    intros w Hw. apply In_insert_by in Hw as [->|Hw]; [apply Hl; now left | now apply Hacc]. }
  apply H; [intros z [] | intros z Hz; apply filter_In in Hz; tauto].
Qed.

(* ---- one step ---- *)

Definition CfgOK (l : lstate) : Prop :=
  (is_pristine l = true /\ l_cfg l = []) \/ (l_init l = true /\ LegalCfg (l_cfg l)).

Lemma init_not_pristine l : l_init l = true -> is_pristine l = false.
Proof. intros H. unfold is_pristine. rewrite H. now rewrite orb_true_r. Qed.

Lemma select_and_step_legal l x ev :
  LegalCfg (l_cfg l) -> LegalCfg (l_cfg (fst (fst (select_and_step lg_fixed xv c l x ev)))).
Proof.
  intros [HL HB]. unfold select_and_step. cbn zeta.
  change (l_cfg (upd_flags l (l_spont l) false)) with (l_cfg l).
  destruct (select_loop lg_fixed c (l_cfg l) ev (cfg_postfix c (l_cfg l)) None [] x) as [sel x1] eqn:E.
  assert (Hok : pairwise_ok lg_fixed c sel).
  { replace sel with (fst (select_loop lg_fixed c (l_cfg l) ev (cfg_postfix c (l_cfg l)) None [] x)) by (now rewrite E).
    apply select_loop_pairwise. apply nil_pairwise. }
  assert (Hsrc : forall ti, In ti sel -> In (ft_source (tr c ti)) (l_cfg l)).
  { replace sel with (fst (select_loop lg_fixed c (l_cfg l) ev (cfg_postfix c (l_cfg l)) None [] x)) by (now rewrite E).
    apply select_loop_sources; [intros s; apply cfg_postfix_sub | intros ti []]. }
  destruct sel as [|t r] eqn:Esel; [cbn [fst l_cfg]; split; assumption|]. rewrite <- Esel in *.
  match goal with
  | |- context [microstep lg_fixed xv c ?l0 ?x0 ?tg ?ex ?ts false] =>
    pose proof (fun y => microstep_cfg l0 x0 tg ex ts false y) as Hm;
    destruct (microstep lg_fixed xv c l0 x0 tg ex ts false) as [l1 x2]
  end.
  cbn [fst snd] in *. change (l_cfg (upd_flags l (l_spont l) false)) with (l_cfg l) in Hm.
  pose proof (microstep_sets_legal c W (l_cfg l) sel HL HB Hsrc Hok
                (remember_history c (l_cfg l) (exitset c (l_cfg l) sel) (l_hist (upd_flags l (l_spont l) false)))) as HR.
  split.
  - destruct HR as [R1 R2 R3 R4 R5]. unfold targets, exitset in *.
    constructor.
    + apply Hm. exact R1.
    + intros i p Hi Hp. apply Hm. eapply R2; [apply Hm; exact Hi | exact Hp].
    + intros i Hi Hk. destruct (R3 i (proj1 (Hm i) Hi) Hk) as (k & Hin & Hk'). exists k. split; [exact Hin | now apply Hm].
    + intros i k1 k2 Hi Hk H1 H2 Hk1 Hk2.
      exact (R4 i k1 k2 (proj1 (Hm i) Hi) Hk H1 H2 (proj1 (Hm k1) Hk1) (proj1 (Hm k2) Hk2)).
    + intros i k Hi Hk Hin. apply Hm. exact (R5 i k (proj1 (Hm i) Hi) Hk Hin).
  - intros y Hy. apply Hm in Hy as [[Hy _]|Hy]; [now apply HB|].
    exact (inv_bound _ _ _ _ _ _ (Inv_fin c W (l_cfg l) _ _ _ sel (targets_bound c W sel)) y Hy).
Qed.

Lemma initial_step_legal l x : is_pristine l = true -> l_cfg l = [] ->
  LegalCfg (l_cfg (fst (microstep lg_fixed xv c l x (fs_completion (st c 0)) [] [] true))).
Proof.
  intros _ Hnil.
  pose proof (fun y => microstep_cfg l x (fs_completion (st c 0)) [] [] true y) as Hm.
  destruct (microstep lg_fixed xv c l x (fs_completion (st c 0)) [] [] true) as [l1 x1].
  cbn [fst] in *. rewrite Hnil in Hm.
  pose proof (initial_sets_legal c W (l_hist l) root_compound) as HR. unfold Einit in HR.
  assert (Heq : forall y, In y (l_cfg l1) <-> In y (Efin c [] [] (l_hist l) (fs_completion (st c 0)) [])).
  { intros y. rewrite Hm. cbn [In]. tauto. }
  split.
  - destruct HR as [R1 R2 R3 R4 R5]. constructor.
    + apply Heq. exact R1.
    + intros i p Hi Hp. apply Heq. eapply R2; [apply Heq; exact Hi | exact Hp].
    + intros i Hi Hk. destruct (R3 i (proj1 (Heq i) Hi) Hk) as (k & Hin & Hk'). exists k. split; [exact Hin | now apply Heq].
    + intros i k1 k2 Hi Hk H1 H2 Hk1 Hk2.
      exact (R4 i k1 k2 (proj1 (Heq i) Hi) Hk H1 H2 (proj1 (Heq k1) Hk1) (proj1 (Heq k2) Hk2)).
    + intros i k Hi Hk Hin. apply Heq. exact (R5 i k (proj1 (Heq i) Hi) Hk Hin).
  - intros y Hy. apply Heq in Hy. exact (Einit_bound c W (l_hist l) root_compound y Hy).
Qed.

Lemma select_and_step_init l x ev : l_init l = true -> l_init (fst (fst (select_and_step lg_fixed xv c l x ev))) = true.
Proof.
  intros Hi. unfold select_and_step. cbn zeta.
  destruct (select_loop lg_fixed c _ ev _ None [] x) as [sel x1]. destruct sel as [|t r]; [exact Hi|].
  unfold microstep. cbn zeta.
  destruct (entry_set lg_fixed c _ _ _ _ _) as [es ts]. destruct (fold_left (exit_one xv c) _ _) as [cfg1 x2].
  reflexivity.
Qed.

Theorem large_step_legal l x : CfgOK l -> CfgOK (fst (fst (large_step lg_fixed xv c l x))).
Proof.
  intros HOK. unfold large_step.
  destruct (l_fin l) eqn:Hfin; [exact HOK|].
  destruct (l_tlf l) eqn:Htlf.
  { cbn [fst]. destruct HOK as [[Hp _]|H]; [|right; exact H].
    unfold is_pristine in Hp. rewrite Htlf in Hp. rewrite !orb_true_r in Hp. discriminate. }
  destruct (is_pristine l) eqn:Hpr.
  { destruct HOK as [[_ Hnil]|[Hi _]]; [|rewrite (init_not_pristine l Hi) in Hpr; discriminate].
    right. pose proof (initial_step_legal l (emit TMsB x) Hpr Hnil) as H.
    unfold microstep in *. cbn zeta in *.
    destruct (entry_set lg_fixed c _ _ _ _ _) as [es ts]. destruct (fold_left (exit_one xv c) _ _) as [cfg1 x2].
    cbn [fst l_init] in *. split; [reflexivity | exact H]. }
  destruct HOK as [[Hp _]|[Hi HL]]; [congruence|].
  assert (Hsel : forall y ev, CfgOK (fst (fst (select_and_step lg_fixed xv c l y ev)))).
  { intros y ev. right. split; [now apply select_and_step_init | now apply select_and_step_legal]. }
  destruct (l_spont l); [apply Hsel|].
  destruct (x_iq x) as [|e r].
  - destruct (l_stable l); cbn [negb].
    + destruct (x_eq x) as [|e r].
      * destruct (l_cancelled l); cbn [fst]; right; tauto.
      * destruct (ev_name e); [destruct (l_cancelled l); cbn [fst]; right; tauto | apply Hsel].
    + cbn [fst]. right. tauto.
  - destruct (ev_name e); [cbn [fst]; right; tauto | apply Hsel].
Qed.

(* every state of every run, for every event history and every bound on the number of steps *)
Theorem run_states_legal fuel : forall l x evs, CfgOK l ->
  CfgOK (fst (run_loop c lstate (large_step lg_fixed xv c) l_cfg fuel l x evs)).
Proof.
  induction fuel as [|f IH]; intros l x evs HOK; cbn [run_loop]; [exact HOK|].
  pose proof (large_step_legal l x HOK) as H1.
  destruct (large_step lg_fixed xv c l x) as [[l1 x1] rc]. cbn [fst] in H1.
  destruct (N.eqb rc RC_FINISHED); [exact H1|].
  destruct (N.eqb rc RC_IDLE); [|now apply IH].
  destruct evs as [|e r]; [exact H1 | now apply IH].
Qed.

Lemma pristine_ok : CfgOK l_pristine.
Proof. left. split; reflexivity. Qed.

End Run.
