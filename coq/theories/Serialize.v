(* Serialize.v -- C14: InterpreterImpl::serialize / deserialize (src/uscxml/interpreter/InterpreterImpl.cpp)
   with both engines' state encodings (LargeMicroStep.cpp: lists of document-order indices;
   FastMicroStep.cpp: bit arrays -> blocks -> base64), the queue encodings (BasicEventQueue.cpp,
   BasicDelayedEventQueue.cpp) and the driver loop with a snapshot at the k-th macrostep boundary.
   Model only (no proofs); built on the chart core (Large.v: engine state; Exec.v: store, queues).

   What the code restores, and what it does not (each deviation behind a switch of [sz_variant], so that the
   same model states the pinned and the repaired behaviour):
     restored      : configuration, history, initialised-data set, invocation set (engine encoding),
                     the value of every declared <data id>, the external queue, the INITIALIZED flag
     never written : the internal queue (sound: it is empty at every boundary, SerializeLemmas.v)
     lost          : delayed events      -- BasicDelayedEventQueue::serialize iterates the inherited, never used FIFO
                                            `_queue` instead of the timer map `_callbackData` (and InterpreterImpl does not
                                            write _delayedEventTargets, without which a fired event is dropped) [sz_delay_lost]
                     the STABLE flag     -- deserialize sets only USCXML_CTX_INITIALIZED: the resumed interpreter
                                            announces the stable configuration once more            [sz_stable_lost]
                     TOP_LEVEL_FINAL and FINISHED -- a finished interpreter resumes as a running one [sz_final_lost]
     order         : the external and the delayed queue are filled BEFORE the md5 comparison: a rejected
                     foreign state string leaves its events in the rejecting interpreter          [sz_queue_before_md5]
     left out      : (no switch of the real code, pinned or repaired; a seeded change of round 5) a value for which
                     Data::empty() holds is not written: the resumed interpreter, whose <data> initialisation is
                     skipped because the initialised-data set IS restored, has no value for it       [sz_skip_value]
     invented      : serialize() writes evalAsData(id) for EVERY <data id>, also of states never entered
                     (binding=late); the Promela datamodel evaluates an undeclared name to `false` and
                     init(id, false) DECLARES it with value 0: after the resume an assignment to it succeeds where
                     the original raises error.execution (Lua: nil stays undefined)           [sz_undeclared_restored]

   Delayed sends.  The chart core has no delay attribute; the convention of this file: an event name that starts
   with '~' and a digit r, sent with <send>, stands for <send event="name" delay="(100+10r)s"/>.  Such an event
   never stays in the external queue: [divert] moves it into the delayed queue right after the step that sent it
   (InterpreterImpl::enqueue with delayMs > 0), ordered by due time (= rank, ties in sending order).  The input
   [InTick] lets every pending delayed event become due (timerCallback -> eventReady -> external queue). *)
From V Require Import Base NameMatch Chart Exec Large Interp GenBase64.
Local Open Scope nat_scope.

(* ================================================================== codecs *)

(* ---- LargeMicroStep: Data(state->documentOrder) / strTo<uint32_t>(atom) ---- *)

(* strTo<uint32_t> on a string of decimal digits (no overflow: state indices are far below 2^32) *)
Definition undec (l : bytes) : N := fold_left (fun a d => (a * 10 + (d - 48))%N) l 0%N.

Definition idx_encode (l : list nat) : list bytes := map (fun i => dec (N.of_nat i)) l.
(* every index is inserted into an (initially empty) flat_set ordered by document order *)
Definition idx_decode (l : list bytes) : list nat := set_of_list (map (fun b => N.to_nat (undec b)) l).

(* ---- FastMicroStep::toBase64 / fromBase64 ---- *)

Definition bits_of_set (n : nat) (l : list nat) : list bool := map (fun i => mem i l) (seq 0 n).
Definition set_of_bits (b : list bool) : list nat := index_where (fun x : bool => x) b 0.

(* bit i of a block is bit (i mod 8) of byte (i / 8): little-endian blocks, so the block sequence is one
   little-endian bit stream *)
Definition byte_of_bits (l : list bool) : N :=
  fold_right (fun (b : bool) a => ((if b then 1 else 0) + 2 * a)%N) 0%N l.
Definition bits_of_byte (x : N) : list bool := map (fun i => N.testbit x (N.of_nat i)) (seq 0 8).

Fixpoint pack (nbytes : nat) (l : list bool) : bytes :=
  match nbytes with
  | O => []
  | S k => byte_of_bits (firstn 8 l) :: pack k (skipn 8 l)
  end.
Definition unpack (b : bytes) : list bool := flat_map bits_of_byte b.

Definition block_bits : nat := 8 * bitset_block_bytes.
(* dynamic_bitset::calc_num_blocks *)
Definition nblocks (n : nat) : nat := (n + (block_bits - 1)) / block_bits.

Fixpoint le_bytes (k : nat) (x : N) : bytes :=
  match k with O => [] | S k' => (x mod 256)%N :: le_bytes k' (x / 256)%N end.
Fixpoint un_le (l : bytes) : N := match l with [] => 0%N | b :: r => (b + 256 * un_le r)%N end.

(* to_block_range into num_blocks()+1 blocks, the last one holding size() *)
Definition bitset_encode (l : list bool) : bytes :=
  pack (nblocks (length l) * bitset_block_bytes) l ++ le_bytes bitset_block_bytes (N.of_nat (length l)).

Definition resize (n : nat) (l : list bool) : list bool := firstn n l ++ repeat false (n - length l).

(* init_from_block_range(begin, --end); resize(last block) *)
Definition bitset_decode (b : bytes) : list bool :=
  let nb := length b / bitset_block_bytes in
  let body := firstn ((nb - 1) * bitset_block_bytes) b in
  let last := firstn bitset_block_bytes (skipn ((nb - 1) * bitset_block_bytes) b) in
  resize (N.to_nat (un_le last)) (unpack body).

(* libb64 (Base64.c), tables from GenBase64.v *)
Definition b64_char (v : N) : N := nth (N.to_nat v) b64_encoding 61%N.    (* > 63: '=' *)

(* base64_decode_value: (signed) char; value_in -= 43; <0 or > size: -1 *)
Definition b64_value (c : N) : Z :=
  if (128 <=? c)%N then (-1)%Z
  else if (c <? b64_decoding_offset)%N then (-1)%Z
  else let i := N.to_nat (c - b64_decoding_offset) in
       if length b64_decoding <? i then (-1)%Z else nth i b64_decoding (-1)%Z.

(* base64_encode_block followed by base64_encode_blockend, the final newline dropped (`written--`);
   [cnt] is stepcount: a newline after every CHARS_PER_LINE/4 complete groups *)
Fixpoint b64_groups (cnt : nat) (l : bytes) {struct l} : bytes :=
  match l with
  | [] => []
  | [a] => [b64_char (a / 4); b64_char ((a mod 4) * 16); 61; 61]%N
  | [a; b] => [b64_char (a / 4); b64_char ((a mod 4) * 16 + b / 16); b64_char ((b mod 16) * 4); 61]%N
  | a :: b :: c :: r =>
      (b64_char (a / 4) :: b64_char ((a mod 4) * 16 + b / 16) :: b64_char ((b mod 16) * 4 + c / 64) ::
       b64_char (c mod 64) ::
       (if (S cnt =? b64_groups_per_line)%nat then 10 :: b64_groups 0 r else b64_groups (S cnt) r))%N
  end.
Definition b64_encode (l : bytes) : bytes := b64_groups 0 l.

(* base64_decode_block: characters with a negative value are skipped; only completed bytes are counted *)
Definition b64_sextets (s : bytes) : list N :=
  filter_map (fun c => let v := b64_value c in if (v <? 0)%Z then None else Some (Z.to_N v)) s.
Fixpoint b64_bytes (l : list N) : bytes :=
  match l with
  | a :: b :: c :: d :: r => (a * 4 + b / 16 :: (b mod 16) * 16 + c / 4 :: (c mod 4) * 64 + d :: b64_bytes r)%N
  | [a; b; c] => [a * 4 + b / 16; (b mod 16) * 16 + c / 4]%N
  | [a; b] => [a * 4 + b / 16]%N
  | _ => []
  end.
Definition b64_decode (s : bytes) : bytes := b64_bytes (b64_sextets s).

Definition fast_encode (n : nat) (l : list nat) : bytes := b64_encode (bitset_encode (bits_of_set n l)).
Definition fast_decode (s : bytes) : list nat := set_of_bits (bitset_decode (b64_decode s)).

(* ---- the engine's part of the state string ---- *)

Inductive engine := ELarge | EFast.
Inductive enc := EncIdx (l : list bytes) | EncBits (s : bytes).

Definition encode_set (e : engine) (n : nat) (l : list nat) : enc :=
  match e with ELarge => EncIdx (idx_encode l) | EFast => EncBits (fast_encode n l) end.
(* None: a value of the other engine's shape (array vs atom): the code then indexes / decodes garbage *)
Definition decode_set (e : engine) (x : enc) : option (list nat) :=
  match e, x with
  | ELarge, EncIdx l => Some (idx_decode l)
  | EFast, EncBits s => Some (fast_decode s)
  | _, _ => None
  end.

(* ================================================================== interpreter state, snapshot *)

Record sz_variant := {
  sz_delay_lost : bool;
  sz_stable_lost : bool;
  sz_final_lost : bool;
  sz_queue_before_md5 : bool;
  sz_undeclared_restored : bool;
  (* a value that is left out of the state string (Data::empty(): '' or {} in Lua; never an integer -- no switch of
     the code as pinned or as repaired, kept so that this way of losing a value can be stated and refuted) *)
  sz_skip_value : Z -> bool
}.
Definition sz_pinned := {| sz_delay_lost := true; sz_stable_lost := true; sz_final_lost := true; sz_queue_before_md5 := true; sz_undeclared_restored := false; sz_skip_value := fun _ => false |}.
Definition sz_fixed := {| sz_delay_lost := false; sz_stable_lost := false; sz_final_lost := false; sz_queue_before_md5 := false; sz_undeclared_restored := false; sz_skip_value := fun _ => false |}.

Record istate := {
  i_l : lstate;                    (* the micro-stepper *)
  i_x : xstate;                    (* datamodel, internal and external queue, trace *)
  i_inv : list nat;                (* _invocations *)
  i_dq : list (nat * event)        (* pending delayed events in due order: (rank, event) *)
}.

Definition fresh : istate := {| i_l := l_pristine; i_x := x_init; i_inv := []; i_dq := [] |}.

Record snapshot := {
  sn_md5 : bytes;
  sn_cfg : enc; sn_hist : enc; sn_initd : enc; sn_inv : enc;
  sn_stable : option bool;               (* written by the repaired code only *)
  sn_final : option (bool * bool);       (* TOP_LEVEL_FINAL, FINISHED; written by the repaired code only *)
  sn_data : list (N * option Z);         (* per declared <data id>, document order: evalAsData(id) *)
  sn_eq : list event;                    (* externalQueue *)
  sn_dq : list (nat * event)             (* delayQueue *)
}.

(* ---- delayed sends ---- *)
Definition delay_marker : N := 126.   (* '~' *)
Definition is_delayed (ev : event) : bool :=
  match ev_name ev with m :: _ => (m =? delay_marker)%N | [] => false end.
Definition delay_rank (ev : event) : nat :=
  match ev_name ev with _ :: d :: _ => N.to_nat (d - 48) | _ => 0 end.
Definition strip_delay (ev : event) : event := {| ev_name := skipn 2 (ev_name ev); ev_kind := ev_kind ev |}.

(* a timer with due time rank r goes behind every pending timer that is due no later *)
Fixpoint dq_insert (r : nat) (ev : event) (q : list (nat * event)) : list (nat * event) :=
  match q with
  | [] => [(r, ev)]
  | (r', e') :: t => if r <? r' then (r, ev) :: q else (r', e') :: dq_insert r ev t
  end.

Definition set_eq (q : list event) (x : xstate) : xstate :=
  {| x_store := x_store x; x_iq := x_iq x; x_eq := q; x_out := x_out x |}.

Definition divert (x : xstate) (dq : list (nat * event)) : xstate * list (nat * event) :=
  (set_eq (filter (fun ev => negb (is_delayed ev)) (x_eq x)) x,
   fold_left (fun q ev => dq_insert (delay_rank ev) (strip_delay ev) q) (filter is_delayed (x_eq x)) dq).

(* ================================================================== one step of the interpreter *)

Inductive input := InEv (name : bytes) | InTick.

Section Engine.
Variable e : engine.
Variable c : fchart.
(* the engine's step function: Large.large_step lv xv c or Fast.fast_step xv c *)
Variable step : lstate -> xstate -> lstate * xstate * N.

(* the step reaches "manage uninvocations / invocations" (no spontaneous pass pending, internal queue empty) *)
Definition at_queue_point (l : lstate) (x : xstate) : bool :=
  negb (l_fin l) && negb (l_tlf l) && negb (is_pristine l) && negb (l_spont l) &&
  match x_iq x with [] => true | _ => false end.
Definition completing (l : lstate) : bool := negb (l_fin l) && l_tlf l.

(* LargeMicroStep records EVERY active state in _invocations (the insert is outside the loop over the state's
   <invoke> elements) and clears the whole set at completion as soon as one active state is in it;
   FastMicroStep records only states that have <invoke> children -- the fragment has none *)
Definition inv_after (l : lstate) (x : xstate) (inv : list nat) : list nat :=
  match e with
  | ELarge => if completing l then (if intersects (l_cfg l) inv then [] else inv)
              else if at_queue_point l x then l_cfg l else inv
  | EFast => if completing l then [] else inv
  end.

Definition istep (s : istate) : istate * N :=
  let '(l1, x1, rc) := step (i_l s) (i_x s) in
  let '(x2, dq2) := divert x1 (i_dq s) in
  ({| i_l := l1; i_x := x2; i_inv := inv_after (i_l s) (i_x s) (i_inv s); i_dq := dq2 |}, rc).

(* ---- the driver (harness/vd_serialize.cpp; Interp.run_loop plus the tick input) ---- *)

Definition with_x (x : xstate) (s : istate) : istate :=
  {| i_l := i_l s; i_x := x; i_inv := i_inv s; i_dq := i_dq s |}.

Definition feed (i : input) (s : istate) : istate :=
  match i with
  | InEv n => with_x (raise_ext {| ev_name := n; ev_kind := EvExternal |} (i_x s)) s
  | InTick => {| i_l := i_l s; i_x := set_eq (x_eq (i_x s) ++ map snd (i_dq s)) (i_x s); i_inv := i_inv s; i_dq := [] |}
  end.

Definition cfg_token (l : lstate) : tok := TCfg (map (fun i => fs_sid (st c i)) (l_cfg l)).
Definition note (rc : N) (s : istate) : istate := with_x (emit (cfg_token (i_l s)) (emit (TRet rc) (i_x s))) s.

Fixpoint irun (fuel : nat) (s : istate) (ins : list input) : istate :=
  match fuel with
  | O => s
  | S f =>
    let '(s1, rc) := istep s in
    let s2 := note rc s1 in
    if (rc =? RC_FINISHED)%N then s2
    else if (rc =? RC_IDLE)%N then
      match ins with
      | [] => s2
      | i :: r => irun f (feed i s2) r
      end
    else irun f s2 ins
  end.

(* a macrostep boundary: serialize() accepts exactly these results of step() *)
Definition is_boundary (rc : N) : bool := ((rc =? RC_MACROSTEPPED) || (rc =? RC_IDLE) || (rc =? RC_FINISHED))%N.

Record stop := { st_state : istate; st_rc : N; st_ins : list input; st_fuel : nat }.

(* run until the k-th boundary (0-based); at an IDLE boundary the next input has not been handed in yet *)
Fixpoint irun_to (fuel k : nat) (s : istate) (ins : list input) : option stop :=
  match fuel with
  | O => None
  | S f =>
    let '(s1, rc) := istep s in
    let s2 := note rc s1 in
    if is_boundary rc then
      match k with
      | O => Some {| st_state := s2; st_rc := rc; st_ins := ins; st_fuel := f |}
      | S k' =>
        if (rc =? RC_FINISHED)%N then None
        else if (rc =? RC_IDLE)%N then
          match ins with
          | [] => None
          | i :: r => irun_to f k' (feed i s2) r
          end
        else irun_to f k' s2 ins
      end
    else irun_to f k s2 ins
  end.

(* what both interpreters do after the snapshot *)
Definition icontinue (rc : N) (fuel : nat) (s : istate) (ins : list input) : istate :=
  if (rc =? RC_FINISHED)%N then
    match fuel with O => s | S _ => let '(s1, rc1) := istep s in note rc1 s1 end
  else if (rc =? RC_IDLE)%N then
    match ins with [] => s | i :: r => irun fuel (feed i s) r end
  else irun fuel s ins.

(* ================================================================== serialize / deserialize *)

(* ids of the <data> elements in document order *)
Definition declared : list N := flat_map (fun s => map fst (fs_data s)) (fc_states c).

Definition serializable (rc : N) : bool := ((rc =? RC_IDLE) || (rc =? RC_MACROSTEPPED) || (rc =? RC_FINISHED))%N.

Section Ser.
Variable v : sz_variant.
Variable own_md5 : bytes.       (* md5 of the document this interpreter was made for *)

(* what serialize() writes for a variable: its value, unless the variant leaves that value out *)
Definition written_value (vv : sz_variant) (o : option Z) : option Z :=
  match o with Some z => if sz_skip_value vv z then None else Some z | None => None end.

(* [rc]: InterpreterImpl::_state, the last result of step() *)
Definition serialize (rc : N) (s : istate) : option snapshot :=
  if serializable rc then
    let l := i_l s in
    let n := nstates c in
    Some {| sn_md5 := own_md5;
            sn_cfg := encode_set e n (l_cfg l); sn_hist := encode_set e n (l_hist l);
            sn_initd := encode_set e n (l_initd l); sn_inv := encode_set e n (i_inv s);
            sn_stable := if sz_stable_lost v then None else Some (l_stable l);
            sn_final := if sz_final_lost v then None else Some (l_tlf l, l_fin l);
            sn_data := map (fun id => (id, written_value v (lookup (x_store (i_x s)) id))) declared;
            sn_eq := x_eq (i_x s);
            sn_dq := if sz_delay_lost v then [] else i_dq s |}
  else None.     (* "Cannot serialize an unstable interpreter" *)

Inductive dresult := DsOk (s : istate) | DsRejected (s : istate) | DsUndefined.

(* _dataModel.init(id, value) for every declared id present in the string; an undefined value stays undefined
   (Lua, and the repaired code which does not write it) or becomes a declared 0 (Promela, pinned) *)
Definition restore_store (data : list (N * option Z)) (st0 : store) : store :=
  fold_left (fun s p => match snd p with
                        | Some z => update s (fst p) z
                        | None => if sz_undeclared_restored v then update s (fst p) 0%Z else s
                        end) data st0.

(* LargeMicroStep::deserialize calls reset() first; FastMicroStep::deserialize only ORs INITIALIZED in *)
Definition keep_flag (b : bool) : bool := match e with ELarge => false | EFast => b end.

(* [f]: the interpreter the string is given to, after its init() *)
Definition deserialize (f : istate) (sn : snapshot) : dresult :=
  let xq := set_eq (x_eq (i_x f) ++ sn_eq sn) (i_x f) in
  let dq := fold_left (fun q p => dq_insert (fst p) (snd p) q) (sn_dq sn) (i_dq f) in
  let f1 := {| i_l := i_l f; i_x := xq; i_inv := i_inv f; i_dq := dq |} in
  if negb (beq_bytes (sn_md5 sn) own_md5) then
    DsRejected (if sz_queue_before_md5 v then f1 else f)      (* "MD5 hash mismatch in serialized state" *)
  else
    match decode_set e (sn_cfg sn), decode_set e (sn_hist sn), decode_set e (sn_initd sn), decode_set e (sn_inv sn) with
    | Some cfg, Some hist, Some initd, Some inv =>
      let l0 := i_l f in
      DsOk {| i_l := {| l_cfg := cfg; l_hist := hist; l_initd := initd;
                        l_spont := keep_flag (l_spont l0);
                        l_init := true;
                        l_tlf := match sn_final sn with Some (t, _) => t || keep_flag (l_tlf l0) | None => keep_flag (l_tlf l0) end;
                        l_fin := match sn_final sn with Some (_, fi) => fi || keep_flag (l_fin l0) | None => keep_flag (l_fin l0) end;
                        l_stable := match sn_stable sn with Some b => b || keep_flag (l_stable l0) | None => keep_flag (l_stable l0) end;
                        l_cancelled := match e with ELarge => false | EFast => l_cancelled l0 end |};
              i_x := {| x_store := restore_store (sn_data sn) (x_store xq); x_iq := x_iq xq; x_eq := x_eq xq; x_out := x_out xq |};
              i_inv := inv;
              i_dq := dq |}
    | _, _, _, _ => DsUndefined
    end.

End Ser.

(* ================================================================== the experiment of the correspondence *)

Record sr_result := {
  sr_stop : stop;                       (* the original at the snapshot point *)
  sr_snap : option snapshot;
  sr_orig : istate;                     (* the original after the continuation *)
  sr_des : option dresult;
  sr_res : option istate                (* the resumed interpreter after the continuation *)
}.

Definition serialize_resume (v : sz_variant) (md5o md5r : bytes) (fuel k : nat) (ins : list input) : option sr_result :=
  match irun_to fuel k fresh ins with
  | None => None
  | Some sp =>
    let o := icontinue (st_rc sp) (st_fuel sp) (st_state sp) (st_ins sp) in
    match serialize v md5o (st_rc sp) (st_state sp) with
    | None => Some {| sr_stop := sp; sr_snap := None; sr_orig := o; sr_des := None; sr_res := None |}
    | Some sn =>
      let d := deserialize v md5r fresh sn in
      Some {| sr_stop := sp; sr_snap := Some sn; sr_orig := o; sr_des := Some d;
              sr_res := match d with
                        | DsOk r => Some (icontinue (st_rc sp) (st_fuel sp) r (st_ins sp))
                        | DsRejected r => Some (irun fuel r ins)       (* the rejecting interpreter runs from its start *)
                        | DsUndefined => None
                        end |}
    end
  end.

End Engine.

(* ================================================================== instances *)

Definition events_of (l : list bytes) : list input := map InEv l.

Definition sr_large (lv : lg_variant) (xv : ex_variant) (v : sz_variant) (late : bool) (t : tree)
           (md5o md5r : bytes) (fuel k : nat) (ins : list input) : option sr_result :=
  let c := flatten late t in
  serialize_resume ELarge c (large_step lv xv c) v md5o md5r fuel k ins.

(* the trace that an interpreter added since the snapshot (x_out is newest first) *)
Definition since (before after : istate) : list tok :=
  rev (firstn (length (x_out (i_x after)) - length (x_out (i_x before))) (x_out (i_x after))).

(* ================================================================== hypotheses of the theorems, as boolean
   predicates on flat charts (evaluated on every generated chart by tools/props/c14.py) *)

(* every <raise> names an event (an unnamed internal event is never enqueued by the interpreter) *)

Definition items_forall (f : instr -> bool) : list ifitem -> bool :=
  fix go (l : list ifitem) : bool :=
    match l with
    | [] => true
    | FInstr j :: r => f j && go r
    | _ :: r => go r
    end.

Fixpoint instr_named (i : instr) : bool :=
  match i with
  | IRaise _ ev => match ev with [] => false | _ => true end
  | IIf _ _ body => items_forall instr_named body
  | _ => true
  end.

Definition block_named (b : block) : bool := forallb instr_named b.
Definition state_named (s : fstate) : bool := forallb block_named (fs_onentry s) && forallb block_named (fs_onexit s).
Definition chart_named (c : fchart) : bool :=
  forallb state_named (fc_states c) && forallb (fun t => block_named (ft_body t)) (fc_trans c).

(* the tables only mention state indices (needed by the bit-array encoding: an index beyond the array is dropped) *)
Definition tables_bounded (c : fchart) : bool :=
  forallb (fun s => forallb (fun i => i <? nstates c) (fs_ancestors s) && forallb (fun i => i <? nstates c) (fs_completion s)) (fc_states c) &&
  forallb (fun t => forallb (fun i => i <? nstates c) (ft_targets t)) (fc_trans c).

