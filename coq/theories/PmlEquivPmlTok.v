(* PmlEquivPmlTok.v -- C06: which trace lines the emitted step process prints where.  REMEMBER_HISTORY ...
   ENTER_STATES (p_microstep) and TERMINATE_MACHINE print only lines that PmlStep.pview either drops or shows as an
   exit / transition / entry / log token, and the configuration pview reconstructs from the "Exiting" / "Entering"
   lines is the configuration of the model -- unless a `chan` is full.  Every chart.  Proofs only. *)
From V Require Import Base NameMatch Chart Exec Large Fast Trie PmlStep TraceLemmas PmlStepLemmas
                      PmlEquivBase PmlEquivContent PmlEquivStep.
Local Open Scope nat_scope.

(* lines that do not open or close a microstep, name an event, or end the observation *)
Definition inner_p (t : ptok) : bool :=
  match t with
  | PStep | PEvent _ | PInitialEntry | PFound | PFinished | PTimeout | PLimit | PQueueFull => false
  | _ => true
  end.
(* ... and do not change the reconstructed configuration *)
Definition quiet_p (t : ptok) : bool :=
  inner_p t && match t with PExiting _ | PEntering _ => false | _ => true end.

(* the configuration pview reconstructs, over a newest-first list of lines *)
Fixpoint rcfg_from (seg : list ptok) (g : list nat) : list nat :=
  match seg with
  | [] => g
  | t :: r =>
    match t with
    | PExiting i => set_remove i (rcfg_from r g)
    | PEntering i => insert_sorted i (rcfg_from r g)
    | _ => rcfg_from r g
    end
  end.

Lemma rcfg_app a b g : rcfg_from (a ++ b) g = rcfg_from a (rcfg_from b g).
Proof. induction a as [|t r IH]; cbn [app rcfg_from]; [reflexivity|]. destruct t; rewrite ?IH; reflexivity. Qed.

Lemma quiet_inner t : quiet_p t = true -> inner_p t = true.
Proof. unfold quiet_p. intros E. now apply andb_true_iff in E. Qed.

Lemma rcfg_quiet seg g : forallb quiet_p seg = true -> rcfg_from seg g = g.
Proof.
  induction seg as [|t r IH]; cbn [forallb rcfg_from]; [reflexivity|]. intros E. apply andb_true_iff in E as [Et Er].
  destruct t; try (now apply IH); discriminate Et.
Qed.

Lemma forallb_quiet_inner seg : forallb quiet_p seg = true -> forallb inner_p seg = true.
Proof.
  induction seg as [|t r IH]; cbn [forallb]; [reflexivity|]. intros E. apply andb_true_iff in E as [Et Er].
  now rewrite (quiet_inner t Et), IH.
Qed.

(* ------------------------------------------------------------------ what a function adds to the trace *)
(* s' printed the lines [seg] after s, all inner, and reconstruct the configuration change *)
Definition grows (s s' : pstate) : Prop :=
  exists seg, p_out s' = seg ++ p_out s /\ forallb inner_p seg = true /\ rcfg_from seg (p_cfg s) = p_cfg s'.
(* only quiet lines, the configuration untouched *)
Definition qgrows (s s' : pstate) : Prop :=
  exists seg, p_out s' = seg ++ p_out s /\ forallb quiet_p seg = true /\ p_cfg s' = p_cfg s.

Lemma qgrows_grows s s' : qgrows s s' -> grows s s'.
Proof.
  intros (seg & E & Q & C). exists seg. split; [exact E|]. split; [now apply forallb_quiet_inner|]. now rewrite rcfg_quiet, C.
Qed.
Lemma grows_refl s : grows s s.
Proof. exists []. repeat split. Qed.
Lemma qgrows_refl s : qgrows s s.
Proof. exists []. repeat split. Qed.
Lemma grows_trans s s' s'' : grows s s' -> grows s' s'' -> grows s s''.
Proof.
  intros (a & Ea & Ia & Ca) (b & Eb & Ib & Cb). exists (b ++ a). split; [rewrite Eb, Ea; apply app_assoc|]. split.
  - rewrite forallb_app. now rewrite Ia, Ib.
  - now rewrite rcfg_app, Ca.
Qed.
Lemma qgrows_trans s s' s'' : qgrows s s' -> qgrows s' s'' -> qgrows s s''.
Proof.
  intros (a & Ea & Ia & Ca) (b & Eb & Ib & Cb). exists (b ++ a). split; [rewrite Eb, Ea; apply app_assoc|]. split.
  - rewrite forallb_app. now rewrite Ia, Ib.
  - congruence.
Qed.

Definition good (f : pstate -> pstate) : Prop := mono f /\ forall s, p_full (f s) = false -> grows s (f s).
Definition qgood (f : pstate -> pstate) : Prop := mono f /\ forall s, p_full (f s) = false -> qgrows s (f s).

Lemma qgood_good f : qgood f -> good f.
Proof. intros [M G]. split; [exact M|]. intros s Hf. now apply qgrows_grows, G. Qed.

Lemma good_id : good (fun s => s).
Proof. split; [intros s Hs; exact Hs|]. intros s _. apply grows_refl. Qed.
Lemma qgood_id : qgood (fun s => s).
Proof. split; [intros s Hs; exact Hs|]. intros s _. apply qgrows_refl. Qed.

Lemma good_comp f g : good f -> good g -> good (fun s => g (f s)).
Proof.
  intros [Mf Gf] [Mg Gg]. split; [intros s Hs; apply Mg, Mf, Hs|].
  intros s Hfull. eapply grows_trans; [apply Gf|apply Gg; exact Hfull].
  destruct (p_full (f s)) eqn:E; [|reflexivity]. rewrite (Mg _ E) in Hfull. discriminate.
Qed.
Lemma qgood_comp f g : qgood f -> qgood g -> qgood (fun s => g (f s)).
Proof.
  intros [Mf Gf] [Mg Gg]. split; [intros s Hs; apply Mg, Mf, Hs|].
  intros s Hfull. eapply qgrows_trans; [apply Gf|apply Gg; exact Hfull].
  destruct (p_full (f s)) eqn:E; [|reflexivity]. rewrite (Mg _ E) in Hfull. discriminate.
Qed.

Lemma good_fold {A} (f : pstate -> A -> pstate) l : (forall a, good (fun s => f s a)) -> good (fun s => fold_left f l s).
Proof.
  intros Hf. induction l as [|a r IH]; cbn [fold_left]; [apply good_id|].
  apply (good_comp (fun s => f s a) (fun s => fold_left f r s)); [apply Hf|exact IH].
Qed.
Lemma qgood_fold {A} (f : pstate -> A -> pstate) l : (forall a, qgood (fun s => f s a)) -> qgood (fun s => fold_left f l s).
Proof.
  intros Hf. induction l as [|a r IH]; cbn [fold_left]; [apply qgood_id|].
  apply (qgood_comp (fun s => f s a) (fun s => fold_left f r s)); [apply Hf|exact IH].
Qed.

Lemma good_if (b : pstate -> bool) f g : good f -> good g -> good (fun s => if b s then f s else g s).
Proof.
  intros [Mf Gf] [Mg Gg]. split; [intros s Hs; destruct (b s); auto|]. intros s Hfull. destruct (b s); auto.
Qed.
Lemma qgood_if (b : pstate -> bool) f g : qgood f -> qgood g -> qgood (fun s => if b s then f s else g s).
Proof.
  intros [Mf Gf] [Mg Gg]. split; [intros s Hs; destruct (b s); auto|]. intros s Hfull. destruct (b s); auto.
Qed.

Lemma qgood_out t : quiet_p t = true -> qgood (out t).
Proof.
  intros Ht. split; [intros s Hs; exact Hs|]. intros s _. exists [t]. split; [reflexivity|]. split; [cbn; now rewrite Ht|reflexivity].
Qed.
(* updates that touch neither the trace nor the configuration nor the "full" flag *)
Lemma qgood_silent f : (forall s, p_out (f s) = p_out s /\ p_cfg (f s) = p_cfg s /\ p_full (f s) = p_full s) -> qgood f.
Proof.
  intros Hf. split; [intros s Hs; destruct (Hf s) as (_ & _ & E); congruence|].
  intros s _. destruct (Hf s) as (E1 & E2 & _). exists []. split; [exact E1|]. split; [reflexivity|exact E2].
Qed.

Section Content.
Variable pv : pml_variant.
Variable c : fchart.
Variable iq eq : nat.

Lemma set_full_full s : p_full (set_full s) = true.
Proof. unfold set_full. destruct (p_full s) eqn:E; [exact E|reflexivity]. Qed.

Lemma qgood_raise e : qgood (p_raise iq e).
Proof.
  split; [apply mono_keeps, keeps_raise|]. intros s Hf. unfold p_raise in *.
  destruct (negb (p_fin s) || p_tlf s); [|apply qgrows_refl].
  destruct (length (p_iq s) <? iq); [exists []; repeat split|]. rewrite set_full_full in Hf. discriminate.
Qed.
Lemma qgood_raise_direct e : qgood (p_raise_direct iq e).
Proof.
  split; [apply mono_keeps, keeps_raise_direct|]. intros s Hf. unfold p_raise_direct in *.
  destruct (length (p_iq s) <? iq); [exists []; repeat split|]. rewrite set_full_full in Hf. discriminate.
Qed.
Lemma qgood_send e : qgood (p_send eq e).
Proof.
  split; [apply mono_keeps, keeps_send|]. intros s Hf. unfold p_send in *.
  destruct (negb (p_fin s) || p_tlf s); [|apply qgrows_refl].
  destruct (length (p_eq s) <? eq); [exists []; repeat split|]. rewrite set_full_full in Hf. discriminate.
Qed.

Lemma qgood_instr i : qgood (pexec_instr pv c iq eq i).
Proof.
  induction i using instr_ind2 with (Q := fun it => match it with FInstr j => qgood (pexec_instr pv c iq eq j) | _ => True end);
    try exact I; try assumption.
  - apply qgood_raise.
  - apply qgood_send.
  - apply qgood_send.
  - apply qgood_id.
  - split; [intros s Hs; exact Hs|]. intros s _. cbn [pexec_instr]. eexists [_]. repeat split.
  - apply qgood_silent. intros s. repeat split.
  - split; [apply mono_keeps, keeps_instr|]. intros s. rewrite pexec_if_unfold.
    generalize (pml_beval (pml_in pv c (p_cfg s)) (p_store s) c0). revert s.
    induction H as [|it r Hit Hr IH]; intros s taken; cbn [p_if_items]; [intros _; apply qgrows_refl|].
    destruct it as [c'| |j].
    + destruct taken; [intros _; apply qgrows_refl|apply IH].
    + destruct taken; [intros _; apply qgrows_refl|apply IH].
    + destruct taken; [|apply IH]. intros Hf.
      assert (M : mono (fun s => p_if_items pv c (pexec_instr pv c iq eq) r true s)).
      { clear. induction r as [|it r IHr]; cbn [p_if_items]; [intros s Hs; exact Hs|].
        destruct it as [c'| |j']; [intros s Hs; exact Hs|intros s Hs; exact Hs|].
        intros s Hs. apply IHr. now apply (mono_keeps _ (keeps_instr pv c iq eq j')). }
      destruct Hit as [_ Gj].
      eapply qgrows_trans; [apply Gj; now apply (not_full_before _ _ M)|apply IH; exact Hf].
Qed.

Lemma qgood_block b : qgood (pexec_block pv c iq eq b).
Proof. unfold pexec_block. apply qgood_fold. intros i. apply qgood_instr. Qed.
Lemma qgood_blocks bs : qgood (pexec_blocks pv c iq eq bs).
Proof. unfold pexec_blocks. apply qgood_fold. intros b. apply qgood_block. Qed.

Lemma qgood_opt_blocks bs t : quiet_p t = true ->
  qgood (fun s => match bs with [] => s | b :: l => pexec_blocks pv c iq eq (b :: l) (out t s) end).
Proof.
  intros Ht. destruct bs as [|b r]; [apply qgood_id|].
  apply (qgood_comp (out t) (pexec_blocks pv c iq eq (b :: r))); [now apply qgood_out|apply qgood_blocks].
Qed.

(* ---- the phases ---- *)
Lemma good_exit_body i : good (fun s => p_exit_body pv c iq eq s i).
Proof.
  split; [apply mono_exit_body|]. intros s Hf. unfold p_exit_body in *. cbn [set_cfg p_full] in Hf. cbv zeta in *.
  destruct (qgood_opt_blocks (fs_onexit (st c i)) (PProcExit i) eq_refl) as [_ G].
  destruct (G (out (PExiting i) s) Hf) as (seg & E & Q & C). cbn [out p_out p_cfg] in E, C.
  exists (seg ++ [PExiting i]). cbn [set_cfg p_out p_cfg]. split; [rewrite E; now rewrite <- app_assoc|]. split.
  - rewrite forallb_app, (forallb_quiet_inner seg Q). reflexivity.
  - rewrite rcfg_app, rcfg_quiet by exact Q. cbn [rcfg_from]. now rewrite C.
Qed.

Lemma good_exit_one ex i : good (fun s => p_exit_one pv c iq eq ex s i).
Proof.
  change (good (fun s => if mem i ex && mem i (p_cfg s) then p_exit_body pv c iq eq s i else s)).
  apply (good_if (fun s => mem i ex && mem i (p_cfg s))); [apply good_exit_body|apply good_id].
Qed.

Lemma qgood_trans_body j : qgood (fun s => p_trans_body pv c iq eq s j).
Proof. unfold p_trans_body. apply (qgood_comp (out (PProcTrans j)) (pexec_block pv c iq eq (ft_body (tr c j)))); [now apply qgood_out|apply qgood_block]. Qed.

Lemma qgood_take_one ts j : qgood (fun s => p_take_one pv c iq eq ts s j).
Proof.
  unfold p_take_one. apply (qgood_if (fun _ => mem j ts && negb (ft_history (tr c j)) && negb (ft_initial (tr c j)))); [|apply qgood_id].
  apply (qgood_comp (fun s => out (PProcTrans j) (out (PTaking j) s)) (pexec_block pv c iq eq (ft_body (tr c j)))); [|apply qgood_block].
  apply (qgood_comp (out (PTaking j)) (out (PProcTrans j))); now apply qgood_out.
Qed.

Lemma good_pe1 i : good (pe1 i).
Proof.
  split; [apply mono_pe1|]. intros s _. exists [PEntering i]. unfold pe1. cbn [set_cfg out p_out p_cfg rcfg_from]. repeat split.
Qed.

Lemma qgood_pe2 i : qgood (pe2 pv c iq eq i).
Proof. unfold pe2. now apply qgood_opt_blocks. Qed.

Lemma qgood_pe3 ts i : qgood (pe3 pv c iq eq ts i).
Proof.
  unfold pe3. apply qgood_fold. intros j. cbv zeta.
  apply (qgood_if (fun _ => mem j ts && (ft_history (tr c j) || ft_initial (tr c j)) && (pparent c (ft_source (tr c j)) =? i))); [|apply qgood_id].
  apply (qgood_comp (out (PProcTrans j)) (pexec_block pv c iq eq (ft_body (tr c j)))); [now apply qgood_out|apply qgood_block].
Qed.

Lemma qgood_pe4 i : qgood (pe4 c iq i).
Proof.
  unfold pe4. destruct (mem 1 _).
  - apply qgood_silent. intros s. repeat split.
  - destruct (fs_parent (st c i)); [apply qgood_raise_direct|apply qgood_id].
Qed.

Lemma qgood_pe5 i : qgood (pe5 c iq i).
Proof.
  unfold pe5. apply qgood_fold. intros j. unfold p_parallel_done.
  apply (qgood_if (fun _ => is_par (ptype c j) && mem j (fs_ancestors (st c i)))); [|apply qgood_id].
  split.
  - intros s Hs. match goal with |- p_full (match ?t with [] => _ | _ => _ end) = true => destruct t end; [|exact Hs].
    now apply (mono_keeps _ (keeps_raise_direct iq _)).
  - intros s. match goal with |- p_full (match ?t with [] => _ | _ => _ end) = false -> _ => destruct t end.
    + apply qgood_raise_direct.
    + intros _. apply qgrows_refl.
Qed.

Lemma good_enter_body ts i : good (fun s => p_enter_body pv c iq eq ts s i).
Proof.
  unfold p_enter_body. cbv zeta.
  assert (G3 : good (fun s => pe3 pv c iq eq ts i (pe2 pv c iq eq i (pe1 i s)))).
  { apply (good_comp (fun s => pe2 pv c iq eq i (pe1 i s)) (pe3 pv c iq eq ts i)); [|apply qgood_good, qgood_pe3].
    apply (good_comp (pe1 i) (pe2 pv c iq eq i)); [apply good_pe1|apply qgood_good, qgood_pe2]. }
  destruct (is_fin (ptype c i)); [|exact G3].
  apply (good_comp (fun s => pe3 pv c iq eq ts i (pe2 pv c iq eq i (pe1 i s))) (fun s3 => pe5 c iq i (pe4 c iq i s3))); [exact G3|].
  apply qgood_good. apply (qgood_comp (pe4 c iq i) (pe5 c iq i)); [apply qgood_pe4|apply qgood_pe5].
Qed.

Lemma good_enter_one es ts i : good (fun s => p_enter_one pv c iq eq es ts s i).
Proof.
  assert (E : forall s, p_enter_one pv c iq eq es ts s i =
                        if mem i es && (negb (mem i (p_cfg s)) && negb (is_pseudo (ptype c i))) then p_enter_body pv c iq eq ts s i else s)
    by (intros s; apply p_enter_one_form).
  destruct (good_if (fun s => mem i es && (negb (mem i (p_cfg s)) && negb (is_pseudo (ptype c i))))
              (fun s => p_enter_body pv c iq eq ts s i) (fun s => s) (good_enter_body ts i) good_id) as [M G].
  split.
  - intros s Hs. rewrite E. now apply M.
  - intros s Hf. rewrite E in *. now apply G.
Qed.

Lemma qgood_remember ex : qgood (p_remember pv c ex).
Proof.
  unfold p_remember.
  apply (qgood_if (fun s => nonempty (p_cfg (out PSaveHist s)))
           (fun s => out (PHistory (p_hist (fold_left (p_history_one pv c ex) (seq 0 (pn c)) (out PSaveHist s))))
                       (fold_left (p_history_one pv c ex) (seq 0 (pn c)) (out PSaveHist s)))
           (out PSaveHist)); [|now apply qgood_out].
  split.
  - intros s Hs. cbn [out p_full].
    apply (mono_fold (p_history_one pv c ex) (seq 0 (pn c))); [|exact Hs].
    intros i s1 Hs1. unfold p_history_one. destruct (_ && _); exact Hs1.
  - intros s Hf. cbn [out p_full] in Hf.
    assert (Gh : qgood (fun s => fold_left (p_history_one pv c ex) (seq 0 (pn c)) s)).
    { apply qgood_fold. intros i. unfold p_history_one.
      apply (qgood_if (fun _ => is_hist (ptype c i) && mem (pparent c i) ex)); [|apply qgood_id].
      split; [intros s0 Hs0; exact Hs0|]. intros s0 _. eexists [_; _; _; _]. cbn [set_hist out p_out p_cfg]. repeat split. }
    destruct Gh as [_ Gh].
    destruct (Gh (out PSaveHist s) Hf) as (seg & E & Q & C). cbn [out p_out p_cfg] in E, C.
    eexists (_ :: seg ++ [PSaveHist]). cbn [out p_out p_cfg]. split; [rewrite E; cbn [app]; now rewrite <- app_assoc|]. split; [|exact C].
    cbn [forallb quiet_p inner_p andb]. rewrite forallb_app, Q. reflexivity.
Qed.

(* ---- ESTABLISH_ENTRY_SET only prints quiet lines ---- *)
Definition outs (seg : list ptok) (s : pstate) : pstate := fold_right out s seg.

Lemma outs_app a b s : outs (a ++ b) s = outs a (outs b s).
Proof. unfold outs. apply fold_right_app. Qed.

Lemma outs_qgrows seg s : forallb quiet_p seg = true -> qgrows s (outs seg s) /\ p_full (outs seg s) = p_full s.
Proof.
  induction seg as [|t r IH]; cbn [forallb outs fold_right]; intros Q; [split; [apply qgrows_refl|reflexivity]|].
  apply andb_true_iff in Q as [Qt Qr]. destruct (IH Qr) as [(seg & E & Qs & C) F]. fold (outs r s) in *. split; [|exact F].
  exists (t :: seg). cbn [out p_out p_cfg]. split; [now rewrite E|]. split; [cbn; now rewrite Qt, Qs|exact C].
Qed.

Definition only_outs (s s' : pstate) : Prop := exists seg, forallb quiet_p seg = true /\ s' = outs seg s.
Lemma only_outs_refl s : only_outs s s.
Proof. exists []. split; reflexivity. Qed.
Lemma only_outs_out t s s' : quiet_p t = true -> only_outs s s' -> only_outs s (out t s').
Proof. intros Ht (seg & Q & ->). exists (t :: seg). split; [cbn; now rewrite Ht, Q|reflexivity]. Qed.

Lemma descend_only_outs cfg ex hist es ts s0 s i : only_outs s0 s -> only_outs s0 (snd (p_descend_one pv c cfg ex hist (es, ts, s) i)).
Proof.
  intros Hs. unfold p_descend_one. destruct (negb (mem i es)); [exact Hs|].
  destruct (fs_type (st c i)); try exact Hs.
  - destruct (negb (intersects es (fs_children (st c i))) && _); [|exact Hs].
    destruct (pv_deep_unnegated pv).
    + destruct (intersects _ _); [|exact Hs]. destruct (filter _ _); exact Hs.
    + destruct (negb (pv_completion_guarded pv) || negb _); exact Hs.
  - destruct (negb (intersects (pcompl pv c i) hist) && _).
    + destruct (find _ _); cbn [snd]; repeat (apply only_outs_out; [reflexivity|]); exact Hs.
    + destruct (if pv_hist_or pv then _ else _); cbn [snd]; repeat (apply only_outs_out; [reflexivity|]); exact Hs.
  - destruct (negb (intersects (pcompl pv c i) hist) && _).
    + destruct (find _ _); cbn [snd]; repeat (apply only_outs_out; [reflexivity|]); exact Hs.
    + destruct (if pv_hist_or pv then _ else _); cbn [snd]; repeat (apply only_outs_out; [reflexivity|]); exact Hs.
  - destruct (pnt c); [exact Hs|].
    match goal with |- only_outs s0 (snd (fold_left ?f ?l ?a0)) =>
      assert (G : forall l' (a : list nat * list nat * pstate), only_outs s0 (snd a) -> only_outs s0 (snd (fold_left f l' a))) end.
    { induction l' as [|j r IH]; intros a Ha; cbn [fold_left]; [exact Ha|].
      apply IH. destruct a as [[e tset] s']. cbn [snd] in *. destruct (ft_source (tr c j) =? i); cbn [snd]; [|exact Ha].
      apply only_outs_out; [reflexivity|exact Ha]. }
    apply G. cbn [snd]. apply only_outs_out; [reflexivity|exact Hs].
Qed.

Lemma entry_set_only_outs cfg ex hist tg tset s : only_outs s (snd (p_entry_set pv c cfg ex hist tg tset s)).
Proof.
  unfold p_entry_set.
  assert (G : forall l (a : list nat * list nat * pstate), only_outs s (snd a) ->
             only_outs s (snd (fold_left (p_descend_one pv c cfg ex hist) l a))).
  { induction l as [|i r IH]; intros a Ha; cbn [fold_left]; [exact Ha|].
    apply IH. destruct a as [[e t] s']. now apply descend_only_outs. }
  specialize (G (seq 0 (pn c)) (p_anc_close c tg, tset, s) (only_outs_refl s)).
  destruct (fold_left _ _ _) as [[e t] s']. cbn [snd] in *. apply only_outs_out; [reflexivity|exact G].
Qed.

(* ---- REMEMBER_HISTORY ... ENTER_STATES ---- *)
Theorem good_microstep tg ex tset : good (p_microstep pv c iq eq tg ex tset).
Proof.
  assert (Gphases : forall es ts, good (fun s => fold_left (p_enter_one pv c iq eq es ts) (seq 0 (pn c))
                                          (fold_left (p_take_one pv c iq eq ts) (seq 0 (pnt c))
                                             (fold_left (p_exit_one pv c iq eq ex) (rev (seq 0 (pn c))) s)))).
  { intros es ts.
    apply (good_comp (fun s => fold_left (p_take_one pv c iq eq ts) (seq 0 (pnt c)) (fold_left (p_exit_one pv c iq eq ex) (rev (seq 0 (pn c))) s))
             (fun s => fold_left (p_enter_one pv c iq eq es ts) (seq 0 (pn c)) s)).
    - apply (good_comp (fun s => fold_left (p_exit_one pv c iq eq ex) (rev (seq 0 (pn c))) s)
               (fun s => fold_left (p_take_one pv c iq eq ts) (seq 0 (pnt c)) s)).
      + apply good_fold. intros i. apply good_exit_one.
      + apply qgood_good, qgood_fold. intros j. apply qgood_take_one.
    - apply good_fold. intros i. apply good_enter_one. }
  split.
  - intros s Hs. unfold p_microstep.
    destruct (qgood_remember ex) as [Mr _]. pose proof (Mr s Hs) as H1.
    destruct (entry_set_only_outs (p_cfg (p_remember pv c ex s)) ex (p_hist (p_remember pv c ex s)) tg tset (p_remember pv c ex s))
      as (seg & Q & E).
    destruct (p_entry_set _ _ _ _ _ _ _ _) as [[es ts] s2]. cbn [snd] in E. subst s2.
    destruct (Gphases es ts) as [M _]. apply M. destruct (outs_qgrows seg (p_remember pv c ex s) Q) as [_ F]. congruence.
  - intros s. unfold p_microstep.
    destruct (entry_set_only_outs (p_cfg (p_remember pv c ex s)) ex (p_hist (p_remember pv c ex s)) tg tset (p_remember pv c ex s))
      as (seg & Q & E).
    destruct (p_entry_set _ _ _ _ _ _ _ _) as [[es ts] s2]. cbn [snd] in E. subst s2.
    destruct (Gphases es ts) as [M G]. intros Hf.
    pose proof (not_full_before _ _ M Hf) as Hf2.
    destruct (outs_qgrows seg (p_remember pv c ex s) Q) as [Q2 F2].
    destruct (qgood_remember ex) as [_ Gr].
    eapply grows_trans; [apply qgrows_grows, Gr; congruence|].
    eapply grows_trans; [apply qgrows_grows, Q2|]. now apply G.
Qed.

(* ---- TERMINATE_MACHINE between its first and last line ---- *)
Lemma qgood_terminate_fold :
  qgood (fun s => fold_left (fun a i => if mem i (p_cfg a) && p_tlf a
                                        then match fs_onexit (st c i) with
                                             | [] => a
                                             | b :: bs => pexec_blocks pv c iq eq (b :: bs) (out (PProcExit i) a)
                                             end
                                        else a) (rev (seq 0 (pn c))) s).
Proof.
  apply qgood_fold. intros i. apply (qgood_if (fun a => mem i (p_cfg a) && p_tlf a)); [|apply qgood_id].
  now apply qgood_opt_blocks.
Qed.

End Content.
