(* Exec.v -- executable content over an abstract integer datamodel, following
   BasicContentExecutor::process / processIf / InterpreterImpl::isTrue.  Model only. *)
From V Require Import Base Chart.
Local Open Scope N_scope.

(* ------------------------------------------------------------------ events, observable trace *)

Inductive evkind := EvInternal | EvExternal | EvPlatform.

Record event := { ev_name : bytes; ev_kind : evkind }.

Definition s_error_execution : bytes :=
  [101;114;114;111;114;46;101;120;101;99;117;116;105;111;110].
Definition s_error_communication : bytes :=
  [101;114;114;111;114;46;99;111;109;109;117;110;105;99;97;116;105;111;110].
Definition s_done_state : bytes := [100;111;110;101;46;115;116;97;116;101;46].  (* "done.state." *)

Definition err_exec : event := {| ev_name := s_error_execution; ev_kind := EvPlatform |}.
Definition err_comm : event := {| ev_name := s_error_communication; ev_kind := EvPlatform |}.

Inductive tok :=
| TRet (code : N)                 (* result of step() *)
| TCfg (l : list N)               (* configuration (state ids, ascending document order) *)
| TEv (name : bytes)              (* beforeProcessingEvent *)
| TMsB | TMsE                     (* before/afterMicroStep *)
| TXb (s : N) | TXe (s : N)       (* before/afterExitingState *)
| TTb (t : N) | TTe (t : N)       (* before/afterTakingTransition *)
| TEb (s : N) | TEe (s : N)       (* before/afterEnteringState *)
| TCb (i : N) | TCe (i : N)       (* before/afterExecutingContent *)
| TLog (v : Z)
| TStable
| TComplB | TComplE
| TDiag (flags : N).            (* emitted by Spec only: classification of the microstep, see Spec.diag *)

(* return codes of step() as in InterpreterState.h; regenerated values are checked elsewhere *)
Definition RC_FINISHED : N := 0.
Definition RC_INITIALIZED : N := 1.
Definition RC_MICROSTEPPED : N := 2.
Definition RC_MACROSTEPPED : N := 3.
Definition RC_IDLE : N := 4.
Definition RC_CANCELLED : N := 5.

(* ------------------------------------------------------------------ datamodel *)

Definition store := list (N * Z).

Fixpoint lookup (s : store) (v : N) : option Z :=
  match s with [] => None | (k, z) :: r => if k =? v then Some z else lookup r v end.

Fixpoint update (s : store) (v : N) (z : Z) : store :=
  match s with
  | [] => [(v, z)]
  | (k, z') :: r => if k =? v then (k, z) :: r else (k, z') :: update r v z
  end.

Fixpoint ieval (s : store) (e : iexpr) : option Z :=
  match e with
  | INum z => Some z
  | IVar v => lookup s v
  | IAdd a b => match ieval s a, ieval s b with Some x, Some y => Some (x + y)%Z | _, _ => None end
  | ISub a b => match ieval s a, ieval s b with Some x, Some y => Some (x - y)%Z | _, _ => None end
  | IBad => None
  end.

(* [inst] decides In(id) against the current configuration *)
Fixpoint beval (inst : N -> bool) (s : store) (e : bexpr) : option bool :=
  match e with
  | BTrue => Some true
  | BFalse => Some false
  | BIn sid => Some (inst sid)
  | BLt a b => match ieval s a, ieval s b with Some x, Some y => Some (x <? y)%Z | _, _ => None end
  | BNot a => match beval inst s a with Some x => Some (negb x) | None => None end
  | BAnd a b => match beval inst s a, beval inst s b with Some x, Some y => Some (x && y) | _, _ => None end
  | BOr a b => match beval inst s a, beval inst s b with Some x, Some y => Some (x || y) | _, _ => None end
  | BBad => None
  end.

(* ------------------------------------------------------------------ execution state *)

Record xstate := {
  x_store : store;
  x_iq : list event;        (* internal queue, oldest first *)
  x_eq : list event;        (* external queue *)
  x_out : list tok          (* trace, newest first *)
}.

Definition emit (t : tok) (x : xstate) : xstate :=
  {| x_store := x_store x; x_iq := x_iq x; x_eq := x_eq x; x_out := t :: x_out x |}.
Definition raise_int (e : event) (x : xstate) : xstate :=
  {| x_store := x_store x; x_iq := x_iq x ++ [e]; x_eq := x_eq x; x_out := x_out x |}.
Definition raise_ext (e : event) (x : xstate) : xstate :=
  {| x_store := x_store x; x_iq := x_iq x; x_eq := x_eq x ++ [e]; x_out := x_out x |}.
Definition set_store (s : store) (x : xstate) : xstate :=
  {| x_store := s; x_iq := x_iq x; x_eq := x_eq x; x_out := x_out x |}.

(* InterpreterImpl::isTrue: an evaluation error enqueues error.execution and counts as false *)
Definition is_true (inst : N -> bool) (c : bexpr) (x : xstate) : bool * xstate :=
  match beval inst (x_store x) c with
  | Some b => (b, x)
  | None => (false, raise_int err_exec x)
  end.

(* variant points of the executor *)
Record ex_variant := {
  (* an Event re-thrown by a nested element passes the `catch (ErrorEvent)` of the enclosing <if>,
     so the <if> gets no afterExecutingContent *)
  ex_if_after_skipped_on_nested_error : bool
}.
Definition ex_pinned := {| ex_if_after_skipped_on_nested_error := true |}.
Definition ex_fixed := {| ex_if_after_skipped_on_nested_error := false |}.

(* result of executing: true = completed, false = aborted by a (re-thrown) error *)
Section Exec.
Variable v : ex_variant.
Variable inst : N -> bool.

Definition fail_elem (vid : N) (e : event) (x : xstate) : bool * xstate :=
  (false, emit (TCe vid) (raise_int e x)).

Fixpoint exec_instr (i : instr) (x : xstate) {struct i} : bool * xstate :=
  match i with
  | IRaise vid ev =>
      (true, emit (TCe vid) (raise_int {| ev_name := ev; ev_kind := EvInternal |} (emit (TCb vid) x)))
  | ISend vid ev =>
      (true, emit (TCe vid) (raise_ext {| ev_name := ev; ev_kind := EvExternal |} (emit (TCb vid) x)))
  | ISendBadType vid ev => fail_elem vid err_exec (emit (TCb vid) x)
  | ISendBadTarget vid ev => fail_elem vid err_comm (emit (TCb vid) x)
  | ILog vid e =>
      let x1 := emit (TCb vid) x in
      match ieval (x_store x1) e with
      | Some z => (true, emit (TCe vid) (emit (TLog z) x1))
      | None => fail_elem vid err_exec x1
      end
  | IAssign vid var e =>
      let x1 := emit (TCb vid) x in
      match ieval (x_store x1) e, lookup (x_store x1) var with
      | Some z, Some _ => (true, emit (TCe vid) (set_store (update (x_store x1) var z) x1))
      | _, _ => fail_elem vid err_exec x1
      end
  | IIf vid c body =>
      let x1 := emit (TCb vid) x in
      let '(b0, x2) := is_true inst c x1 in
      let '(ok, x3) :=
        (fix items (l : list ifitem) (blockIsTrue : bool) (x : xstate) {struct l} : bool * xstate :=
           match l with
           | [] => (true, x)
           | FElseif c' :: r =>
               if blockIsTrue then (true, x)
               else let '(b, x') := is_true inst c' x in items r b x'
           | FElse :: r => if blockIsTrue then (true, x) else items r true x
           | FInstr j :: r =>
               if blockIsTrue then
                 let '(ok, x') := exec_instr j x in
                 if ok then items r blockIsTrue x' else (false, x')
               else items r blockIsTrue x
           end) body b0 x2 in
      if ok then (true, emit (TCe vid) x3)
      else if ex_if_after_skipped_on_nested_error v then (false, x3)
      else (false, emit (TCe vid) x3)
  end.

(* one block (<onentry>, <onexit>, <transition> body): stops at the first failing element; the
   micro-stepper swallows the exception *)
Fixpoint exec_block (b : block) (x : xstate) : xstate :=
  match b with
  | [] => x
  | i :: r => let '(ok, x') := exec_instr i x in if ok then exec_block r x' else x'
  end.

Definition exec_blocks (bs : list block) (x : xstate) : xstate := fold_left (fun a b => exec_block b a) bs x.

(* InterpreterImpl::initData for one <data id expr> *)
Definition init_data (d : N * iexpr) (x : xstate) : xstate :=
  match ieval (x_store x) (snd d) with
  | Some z => set_store (update (x_store x) (fst d) z) x
  | None => raise_int err_exec x
  end.

End Exec.
