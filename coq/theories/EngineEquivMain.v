(* EngineEquivMain.v -- C03: the statements of the engine comparison on boolean hypotheses (what the check can
   evaluate), assembled from the EngineEquiv* layers.  Proofs only. *)
From V Require Import Base NameMatch Chart Exec Large LargeLemmas Fast Interp Legal SetLemmas LegalAbstract LegalLarge
  LegalRun WfCore LegalOracle LargeCacheLemmas SelectConform SelectConformLemmas MicroConform MicroConformLemmas
  EngineEquivBase EngineEquivEntry EngineEquivDone EngineEquivStep EngineEquivMicro EngineEquivSelect EngineEquivRun.
Local Open Scope nat_scope.

Lemma eq_chartb_parts c : eq_chartb c = true ->
  wf_coreb c = true /\ fs_type (st c 0) = FCompound /\ leaf_okb c = true /\ par_nonemptyb c = true /\ trans_tableb c = true.
Proof.
  unfold eq_chartb. intros H. apply andb_true_iff in H as [H H5]. apply andb_true_iff in H as [H H4].
  apply andb_true_iff in H as [H H3]. apply andb_true_iff in H as [H1 H2].
  split; [exact H1|]. split; [|tauto]. destruct (fs_type (st c 0)); try discriminate. reflexivity.
Qed.

(* 1. ESTABLISH_ENTRYSET *)
Lemma fast_large_entry_set_equiv_lemma c cfg sel hist ts :
  wf_coreb c = true -> legal_configb c cfg = true ->
  (forall ti, In ti sel -> In (ft_source (tr c ti)) cfg) ->
  fentry_set c cfg (sel_exitset c cfg sel) hist (sel_targets c sel) ts =
  entry_set lg_fixed c cfg (sel_exitset c cfg sel) hist (sel_targets c sel) ts.
Proof.
  intros Hwf HL Hsrc. pose proof (wf_coreb_sound c Hwf) as W.
  apply (ee_entry_set_sel c W cfg sel (legal_configb_sound c W cfg HL) Hsrc).
Qed.

Lemma fast_large_entry_set_equiv_initial_lemma c hist ts :
  wf_coreb c = true -> fs_type (st c 0) = FCompound ->
  fentry_set c [] [] hist (fs_completion (st c 0)) ts = entry_set lg_fixed c [] [] hist (fs_completion (st c 0)) ts.
Proof. intros Hwf Hr. apply (ee_entry_set_init c (wf_coreb_sound c Hwf) Hr). Qed.

(* 2. one microstep from the same selection *)
Lemma fast_large_microstep_equiv_lemma xv c lf ll x sel :
  wf_coreb c = true -> leaf_okb c = true -> par_nonemptyb c = true ->
  lstate_eqv c lf ll -> legal_configb c (l_cfg ll) = true -> ascb (l_cfg ll) = true ->
  (forall ti, In ti sel -> In (ft_source (tr c ti)) (l_cfg ll)) -> pairwise_ok lg_fixed c sel ->
  plain_transb c sel = true ->
  ms_guardb c ll (sel_targets c sel) (sel_exitset c (l_cfg ll) sel) sel false = true ->
  lstate_eqv c (fst (fmicrostep xv c lf x (sel_targets c sel) (sel_exitset c (l_cfg ll) sel) sel false))
               (fst (microstep lg_fixed xv c ll x (sel_targets c sel) (sel_exitset c (l_cfg ll) sel) sel false)) /\
  snd (fmicrostep xv c lf x (sel_targets c sel) (sel_exitset c (l_cfg ll) sel) sel false) =
  snd (microstep lg_fixed xv c ll x (sel_targets c sel) (sel_exitset c (l_cfg ll) sel) sel false).
Proof.
  intros Hwf Hleaf Hpar Hrel HL Hasc Hsrc Hok Hplain Hg. pose proof (wf_coreb_sound c Hwf) as W.
  apply (ee_microstep_sel xv c Hwf Hleaf Hpar lf ll x sel Hrel (legal_configb_sound c W _ HL) (ascb_ssorted _ Hasc) Hsrc Hok Hplain Hg).
Qed.

Lemma fast_large_initial_microstep_equiv_lemma xv c lf ll x :
  wf_coreb c = true -> leaf_okb c = true -> par_nonemptyb c = true -> fs_type (st c 0) = FCompound ->
  lstate_eqv c lf ll -> l_cfg ll = [] ->
  ms_guardb c ll (fs_completion (st c 0)) [] [] true = true ->
  lstate_eqv c (fst (fmicrostep xv c lf x (fs_completion (st c 0)) [] [] true))
               (fst (microstep lg_fixed xv c ll x (fs_completion (st c 0)) [] [] true)) /\
  snd (fmicrostep xv c lf x (fs_completion (st c 0)) [] [] true) =
  snd (microstep lg_fixed xv c ll x (fs_completion (st c 0)) [] [] true).
Proof. intros Hwf Hleaf Hpar Hr Hrel Hnil Hg. now apply ee_microstep_init. Qed.

(* 3. SELECT_TRANSITIONS *)
Lemma fast_large_select_equiv_lemma c cfg ev x :
  wf_coreb c = true -> trans_tableb c = true -> ascb cfg = true -> (forall s, In s cfg -> s < nstates c) ->
  sel_guardb c cfg ev (cfg_postfix c cfg) None [] x = true ->
  fselect c cfg ev (seq 0 (ntrans c)) [] x = select_loop lg_fixed c cfg ev (cfg_postfix c cfg) None [] x.
Proof.
  intros Hwf Htab Hasc Hb Hg. pose proof (ssorted_NoDup _ (ascb_ssorted _ Hasc)) as Hnd.
  apply (ee_select_eq c (wf_coreb_sound c Hwf) cfg ev x Hnd); [|exact Hg]. now apply ee_cand_ok.
Qed.

(* 4. step() *)
Lemma fast_large_step_equiv_lemma xv c lf ll x :
  eq_chartb c = true -> lstate_eqv c lf ll -> CfgOK c ll -> ascb (l_cfg ll) = true -> step_guardb c ll x = true ->
  res_eqv c (fast_step xv c lf x) (large_step lg_fixed xv c ll x).
Proof.
  intros Hc Hrel HOK Hasc Hg. destruct (eq_chartb_parts c Hc) as (Hwf & Hr & Hleaf & Hpar & Htab).
  apply (ee_step_rel xv c Hwf Hr Hleaf Hpar Htab lf ll x Hrel HOK (ascb_ssorted _ Hasc) Hg).
Qed.

Lemma fast_large_step_equiv_given_selection_lemma xv c lf ll x ev :
  wf_coreb c = true -> leaf_okb c = true -> par_nonemptyb c = true ->
  lstate_eqv c lf ll -> legal_configb c (l_cfg ll) = true -> ascb (l_cfg ll) = true ->
  fselect c (l_cfg ll) ev (seq 0 (ntrans c)) [] x = select_loop lg_fixed c (l_cfg ll) ev (cfg_postfix c (l_cfg ll)) None [] x ->
  (let '(sel, x1) := select_loop lg_fixed c (l_cfg ll) ev (cfg_postfix c (l_cfg ll)) None [] x in
   match sel with [] => true | _ => ms_guardb c ll (sel_targets c sel) (sel_exitset c (l_cfg ll) sel) sel false end) = true ->
  res_eqv c (fselect_and_step xv c lf x ev) (select_and_step lg_fixed xv c ll x ev).
Proof.
  intros Hwf Hleaf Hpar Hrel HL Hasc Hsel Hms. pose proof (wf_coreb_sound c Hwf) as W.
  apply (ee_sas_given_selection xv c Hwf Hleaf Hpar lf ll x ev Hrel (legal_configb_sound c W _ HL) (ascb_ssorted _ Hasc) Hsel Hms).
Qed.

(* 5. runs from the pristine state *)
Lemma fast_large_run_equiv_lemma xv c fuel evs :
  eq_chartb c = true -> eq_guard_run xv c fuel l_pristine x_init evs = true ->
  lstate_eqv c (fst (run_loop c lstate (fast_step xv c) l_cfg fuel l_pristine x_init evs))
               (fst (run_loop c lstate (large_step lg_fixed xv c) l_cfg fuel l_pristine x_init evs)) /\
  snd (run_loop c lstate (fast_step xv c) l_cfg fuel l_pristine x_init evs) =
  snd (run_loop c lstate (large_step lg_fixed xv c) l_cfg fuel l_pristine x_init evs).
Proof.
  intros Hc Hg. destruct (eq_chartb_parts c Hc) as (Hwf & Hr & Hleaf & Hpar & Htab).
  apply (ee_run_rel xv c Hwf Hr Hleaf Hpar Htab fuel l_pristine l_pristine x_init evs); try assumption.
  - apply lstate_eqv_refl.
  - apply pristine_ok.
  - exact I.
Qed.

(* the observable behaviour: trace and datamodel *)
Lemma fast_large_trace_equiv_lemma xv late t evs fuel :
  eq_chartb (flatten late t) = true -> eq_guard_run xv (flatten late t) fuel l_pristine x_init evs = true ->
  run_fast xv late t evs fuel = run_large lg_fixed xv late t evs fuel.
Proof.
  intros Hc Hg. unfold run_fast, run_large. cbn zeta.
  destruct (fast_large_run_equiv_lemma xv (flatten late t) fuel evs Hc Hg) as [_ E].
  destruct (run_loop (flatten late t) lstate (fast_step xv (flatten late t)) l_cfg fuel l_pristine x_init evs) as [lf xf].
  destruct (run_loop (flatten late t) lstate (large_step lg_fixed xv (flatten late t)) l_cfg fuel l_pristine x_init evs) as [ll xl].
  cbn [snd] in E. now subst xf.
Qed.

(* 6. legality of the fast engine's configurations along guarded runs *)
Lemma fast_run_always_legal_partial_lemma xv c fuel evs :
  eq_chartb c = true -> eq_guard_run xv c fuel l_pristine x_init evs = true ->
  CfgOK c (fst (run_loop c lstate (fast_step xv c) l_cfg fuel l_pristine x_init evs)).
Proof.
  intros Hc Hg. destruct (fast_large_run_equiv_lemma xv c fuel evs Hc Hg) as [R _].
  destruct (eq_chartb_parts c Hc) as (Hwf & Hr & _).
  apply (CfgOK_eqv c _ _ R). apply run_states_legal; [now apply wf_coreb_sound | exact Hr | apply pristine_ok].
Qed.

(* the guard of a run is the conjunction of the guards of its prefixes' last steps: a run guarded for [fuel]
   steps is guarded for fewer *)
Lemma eq_guard_run_mono xv c : forall fuel l x evs, eq_guard_run xv c (S fuel) l x evs = true -> eq_guard_run xv c fuel l x evs = true.
Proof.
  induction fuel as [|f IH]; intros l x evs H; [reflexivity|].
  cbn [eq_guard_run] in H |- *. apply andb_true_iff in H as [H1 H2]. rewrite H1. cbn [andb].
  destruct (large_step lg_fixed xv c l x) as [[l1 x1] rc].
  destruct (N.eqb rc RC_FINISHED); [reflexivity|].
  destruct (N.eqb rc RC_IDLE).
  - destruct evs as [|e r]; [reflexivity|]. now apply IH.
  - now apply IH.
Qed.

(* a static condition under which the done-event part of the guard always holds: no <final> has a <parallel>
   among its proper ancestors (no done.state event of a <parallel> is ever raised) *)
Definition final_free_parb (c : fchart) : bool :=
  forallb (fun f => negb (is_finalb c f) || forallb (fun a => negb (is_parb c a)) (fs_ancestors (st c f)))
          (seq 0 (nstates c)).

Lemma ms_guard_static_lemma c l tg X ts ini : final_free_parb c = true -> ms_guardb c l tg X ts ini = true.
Proof.
  intros H. unfold ms_guardb, done_guardb. cbn zeta. apply forallb_forall. intros f _.
  destruct (is_finalb c f) eqn:Hf; [|reflexivity]. cbn [negb orb].
  assert (Hn : f < nstates c).
  { destruct (Nat.lt_ge_cases f (nstates c)) as [Hlt|Hge]; [exact Hlt|]. exfalso.
    unfold is_finalb, st in Hf. rewrite nth_overflow in Hf by exact Hge. discriminate. }
  pose proof (forallb_seq_lt _ _ H f Hn) as Hp. cbn beta in Hp. rewrite Hf in Hp. cbn [negb orb] in Hp.
  rewrite forallb_forall in Hp. apply andb_true_iff. split.
  - unfold no_later_entryb. apply forallb_forall. intros a Ha. now rewrite (Hp a Ha).
  - unfold single_doneb, done_pars. rewrite ee_filter_none; [reflexivity|].
    intros a Ha. specialize (Hp a Ha). apply negb_true_iff in Hp. now rewrite Hp.
Qed.
