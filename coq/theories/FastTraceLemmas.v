(* FastTraceLemmas.v -- well-nestedness of the traces of the FastMicroStep model (C13), and the
   refutation for the executor as pinned. *)
From V Require Import Base NameMatch Chart Exec Large Interp Trace TraceLemmas Fast.
Local Open Scope N_scope.

Lemma fold_same_out {A} (g : xstate -> A -> xstate) l :
  (forall x a, same_out x (g x a)) -> forall x, same_out x (fold_left g l x).
Proof.
  intros Hg. induction l as [|a r IH]; intros x; cbn [fold_left]; [reflexivity|].
  eapply same_out_trans; [apply Hg | apply IH].
Qed.

Section FastEngine.
Variable c : fchart.

Lemma fselect_same_out cfg ev ts : forall sel x, same_out x (snd (fselect c cfg ev ts sel x)).
Proof.
  induction ts as [|t r IH]; intros sel x; cbn [fselect]; [reflexivity|].
  repeat match goal with
         | |- context [if ?b then _ else _] => destruct b; try apply IH
         end.
  destruct (ft_cond (tr c t)) as [cnd|]; [|apply IH].
  destruct (is_true (inst_of c cfg) cnd x) as [b x'] eqn:E.
  assert (Hs : same_out x x') by (replace x' with (snd (is_true (inst_of c cfg) cnd x)) by (now rewrite E); apply same_out_is_true).
  destruct b; (eapply same_out_trans; [exact Hs | apply IH]).
Qed.

Lemma fenter_one_emits transset a i p : (p <= 2)%nat ->
  ms_emits (ea_x a) (ea_x (fenter_one ex_fixed c transset a i)) p.
Proof.
  intros Hp. unfold fenter_one.
  destruct (mem i (ea_cfg a)); [now apply ms_emits_refl|].
  destruct (is_pseudo (fs_type (st c i))); [now apply ms_emits_refl|].
  cbn zeta.
  set (s := st c i).
  set (x1 := emit (TEb (fs_sid s)) (ea_x a)).
  set (cfg1 := insert_sorted i (ea_cfg a)).
  assert (Hdata : forall ds y, same_out y (fold_left (fun x d => init_data d x) ds y)).
  { induction ds as [|d r IHd]; intros y; cbn [fold_left]; [reflexivity|].
    eapply same_out_trans; [|apply IHd]. unfold init_data. destruct (ieval _ _); reflexivity. }
  match goal with
  | |- context [let '(initd1, x2) := ?e in _] => destruct e as [initd1 x2] eqn:Einit
  end.
  assert (H12 : same_out x1 x2).
  { destruct (mem i (ea_initd a)); injection Einit as _ <-; [reflexivity | apply Hdata]. }
  set (x3 := exec_blocks ex_fixed (inst_of c cfg1) (fs_onentry s) x2).
  set (x4 := emit (TEe (fs_sid s)) x3).
  assert (H04 : emits (ea_x a) x4 [FrMS p] [FrMS 2]).
  { assert (Hb : wf_step [FrMS p] (TEb (fs_sid s)) = Some [FrE (fs_sid s); FrMS 2]).
    { cbn. destruct (Nat.leb_spec p 2); [reflexivity | lia]. }
    eapply emits_trans; [apply emits_tok; exact Hb|].
    eapply emits_trans; [apply same_out_emits; exact H12|].
    eapply emits_trans; [apply exec_blocks_emits; exact I|].
    apply emits_tok. cbn. now rewrite N.eqb_refl. }
  match goal with
  | |- context [fold_left ?f transset x4] => set (F := f); set (x5 := fold_left F transset x4)
  end.
  assert (H45 : emits x4 x5 [FrMS 2] [FrMS 2]).
  { assert (HF : forall l z, emits z (fold_left F l z) [FrMS 2] [FrMS 2]).
    { induction l as [|ti rt IHt]; intros z; cbn [fold_left]; [apply emits_refl|].
      eapply emits_trans; [|apply IHt]. unfold F.
      destruct ((ft_history (tr c ti) || ft_initial (tr c ti)) &&
                match fs_parent (st c (ft_source (tr c ti))) with Some p0 => (p0 =? i)%nat | None => false end); [|apply emits_refl].
      destruct (trans_bracket_emits c cfg1 (tr c ti) z 2 (le_n 2)) as (p' & Hp1 & Hp2 & He).
      assert (p' = 2%nat) by lia. subst p'. exact He. }
    apply HF. }
  assert (H05 : emits (ea_x a) x5 [FrMS p] [FrMS 2]) by (eapply emits_trans; eassumption).
  exists 2%nat. split; [lia|]. split; [lia|].
  destruct (fs_type s) eqn:Ety; cbn [ea_x]; try exact H05.
  eapply emits_trans; [exact H05|]. apply same_out_emits.
  (* done events: no tokens *)
  eapply same_out_trans; [|apply fold_same_out].
  - destruct (match fs_ancestors s with [0%nat] => true | _ => false end); [reflexivity|].
    destruct (fs_parent s); reflexivity.
  - intros z j. destruct (fs_type (st c j)); try reflexivity.
    destruct (fpar_done c cfg1 j); reflexivity.
Qed.

Lemma fenter_fold_emits transset es : forall a p, (p <= 2)%nat ->
  ms_emits (ea_x a) (ea_x (fold_left (fenter_one ex_fixed c transset) es a)) p.
Proof.
  induction es as [|i r IH]; intros a p Hp; cbn [fold_left]; [now apply ms_emits_refl|].
  eapply ms_emits_trans; [now apply fenter_one_emits|]. intros p' _ Hp'. now apply IH.
Qed.

Lemma fmicrostep_emits l x targets exitset transset initial_step :
  emits x (snd (fmicrostep ex_fixed c l x targets exitset transset initial_step)) [FrMS 0] [].
Proof.
  unfold fmicrostep. cbn zeta.
  destruct (fentry_set c (l_cfg l) exitset _ targets transset) as [es ts].
  destruct (fold_left (exit_one ex_fixed c) (rev exitset) (l_cfg l, x)) as [cfg1 x1] eqn:Eexit.
  assert (H1 : emits x x1 [FrMS 0] [FrMS 0]).
  { replace x1 with (snd (fold_left (exit_one ex_fixed c) (rev exitset) (l_cfg l, x))) by (now rewrite Eexit).
    apply exit_fold_emits. }
  cbn [snd].
  destruct (take_fold_emits c cfg1 ts x1 0 ltac:(lia)) as (p2 & _ & Hp2 & H2).
  match goal with
  | |- context [fold_left (fenter_one ex_fixed c ts) ?es1 ?a0] =>
    destruct (fenter_fold_emits ts es1 a0 p2 Hp2) as (p3 & _ & Hp3 & H3)
  end.
  cbn [ea_x] in H3.
  eapply emits_trans; [exact H1|]. eapply emits_trans; [exact H2|]. eapply emits_trans; [exact H3|].
  apply emits_tok. reflexivity.
Qed.

Lemma fselect_and_step_emits l x ev :
  emits x (snd (fst (fselect_and_step ex_fixed c l x ev))) [] [].
Proof.
  unfold fselect_and_step. cbn zeta.
  destruct (fselect c _ ev _ [] x) as [sel x1] eqn:E.
  assert (Hs : same_out x x1).
  { replace x1 with (snd (fselect c (l_cfg (upd_flags l (l_spont l) false)) ev (seq 0 (ntrans c)) [] x)) by (now rewrite E).
    apply fselect_same_out. }
  destruct sel as [|t r].
  - cbn [fst snd]. now apply same_out_emits.
  - match goal with
    | |- context [fmicrostep ex_fixed c ?l0 ?x0 ?tg ?ex ?ts false] =>
      pose proof (fmicrostep_emits l0 x0 tg ex ts false) as Hm;
      destruct (fmicrostep ex_fixed c l0 x0 tg ex ts false) as [l1 x2]
    end.
    cbn [fst snd] in *.
    eapply emits_trans; [apply same_out_emits; exact Hs|].
    apply (emits_trans _ (emit TMsB x1) _ _ [FrMS 0] _); [apply emits_tok; reflexivity | exact Hm].
Qed.

Lemma fast_step_emits l x : emits x (snd (fst (fast_step ex_fixed c l x))) [] [].
Proof.
  unfold fast_step.
  destruct (l_fin l); [apply emits_refl|].
  destruct (l_tlf l).
  { cbn [fst snd].
    apply (emits_bracket x TComplB TComplE [] [FrCompl] []
             (fun y => fold_left (fun x i => exec_blocks ex_fixed (inst_of c (l_cfg l)) (fs_onexit (st c i)) x) (rev (l_cfg l)) y));
      [reflexivity | reflexivity |].
    intros y. apply fold_left_emits. intros z a. apply exec_blocks_emits. exact I. }
  destruct (is_pristine l).
  { match goal with
    | |- context [fmicrostep ex_fixed c l ?x0 ?tg [] [] true] =>
      pose proof (fmicrostep_emits l x0 tg [] [] true) as Hm;
      destruct (fmicrostep ex_fixed c l x0 tg [] [] true) as [l1 x1]
    end.
    cbn [fst snd] in *. apply (emits_trans _ (emit TMsB x) _ _ [FrMS 0] _); [apply emits_tok; reflexivity | exact Hm]. }
  destruct (l_spont l); [apply fselect_and_step_emits|].
  destruct (x_iq x) as [|e r].
  - destruct (l_stable l); cbn [negb].
    + destruct (x_eq x) as [|e r].
      * destruct (l_cancelled l); apply emits_refl.
      * destruct (ev_name e) as [|b bs] eqn:En.
        -- destruct (l_cancelled l); cbn [fst snd]; now apply same_out_emits.
        -- eapply emits_trans; [|apply fselect_and_step_emits].
           apply (emits_tok_after _ _ (TEv (b :: bs)) [] []); reflexivity.
    + cbn [fst snd]. apply (emits_tok _ TStable [] []). reflexivity.
  - destruct (ev_name e) as [|b bs] eqn:En; [apply emits_refl|].
    eapply emits_trans; [|apply fselect_and_step_emits].
    apply (emits_tok_after _ _ (TEv (b :: bs)) [] []); reflexivity.
Qed.

End FastEngine.

Lemma run_fast_wf late t evs fuel :
  wf_traceb (fst (run_fast ex_fixed late t evs fuel)) = true.
Proof.
  unfold run_fast.
  pose proof (run_loop_emits (flatten late t) lstate (fast_step ex_fixed (flatten late t)) l_cfg
                             (fast_step_emits (flatten late t)) fuel l_pristine x_init evs) as H.
  destruct (run_loop (flatten late t) lstate (fast_step ex_fixed (flatten late t)) l_cfg fuel l_pristine x_init evs) as [l x].
  cbn [fst snd] in *. now apply emits_from_init_wf.
Qed.

(* the executor as pinned: an error in an element nested in <if> leaves the <if>'s bracket open.
   Witness: <state id="s1"><onentry><if cond="In('s1')"><send type="nosuchtype"/><raise event="f"/></if>
   <raise event="g"/></onentry></state> *)
Definition f7_tree : tree :=
  TNode KScxml 0 None [] [] [] []
    [TNode KState 1 None []
       [[IIf 105 (BIn 1) [FInstr (ISendBadType 106 [113]); FInstr (IRaise 107 [102])]; IRaise 108 [103]]]
       [] [] []].

Lemma content_bracket_on_nested_error_refuted_lemma :
  exists t evs fuel, wf_traceb (fst (run_large lg_fixed ex_pinned false t evs fuel)) = false.
Proof. exists f7_tree, [], 10%nat. vm_compute. reflexivity. Qed.

Example f7_fixed_is_wf : wf_traceb (fst (run_large lg_fixed ex_fixed false f7_tree [] 10)) = true.
Proof. vm_compute. reflexivity. Qed.
