(* Interp.v -- the driver loop of the correspondence harness around a micro-step function:
   step(0) until FINISHED; on IDLE hand in the next external event (Interpreter::receive);
   at most [fuel] steps.  The trace is the canonical observable behaviour. *)
From V Require Import Base NameMatch Chart Exec Large.
Local Open Scope N_scope.

Section Run.
Variable c : fchart.
(* one engine step: engine state, execution state -> new states and the result of step() *)
Variable S : Type.
Variable step : S -> xstate -> S * xstate * N.
Variable cfg_of : S -> list nat.

Definition cfg_tok (s : S) : tok := TCfg (map (fun i => fs_sid (st c i)) (cfg_of s)).

Fixpoint run_loop (fuel : nat) (s : S) (x : xstate) (evs : list bytes) : S * xstate :=
  match fuel with
  | O => (s, x)
  | Datatypes.S f =>
    let '(s1, x1, rc) := step s x in
    let x2 := emit (cfg_tok s1) (emit (TRet rc) x1) in
    if rc =? RC_FINISHED then (s1, x2)
    else if rc =? RC_IDLE then
      match evs with
      | [] => (s1, x2)
      | e :: r => run_loop f s1 (raise_ext {| ev_name := e; ev_kind := EvExternal |} x2) r
      end
    else run_loop f s1 x2 evs
  end.
End Run.

Definition x_init : xstate := {| x_store := []; x_iq := []; x_eq := []; x_out := [] |}.

Definition run_large (lv : lg_variant) (xv : ex_variant) (late : bool) (t : tree) (evs : list bytes) (fuel : nat)
  : list tok * store :=
  let c := flatten late t in
  let '(l, x) := run_loop c lstate (large_step lv xv c) l_cfg fuel l_pristine x_init evs in
  (rev (x_out x), x_store x).
