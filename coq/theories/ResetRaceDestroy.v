(* ResetRaceDestroy.v -- C10 (and C09's "never a use of freed memory"): the destruction of an interpreter
   racing the timer thread, as a small-step transition system.  Model only (proofs: ResetRaceDestroyLemmas.v).

   Code modelled (src/uscxml/interpreter):
     InterpreterImpl::~InterpreterImpl   the part of the body that concerns the delayed queue, the point where the
                                         body is finished (interp.destroy.done), then the members in REVERSE order
                                         of declaration (regenerated: gen/GenDestroyOrder.destroy_members), then
                                         the memory of the object is released
     DelayedEventQueue (handle)          a shared_ptr: when the LAST handle is given up, ~BasicDelayedEventQueue
                                         runs stop(), which joins the timer thread: it returns when no callback
                                         is running, and no callback runs afterwards.  The interpreter holds up
                                         to two handles: the member _delayQueue and -- once getActionLanguage()
                                         has been called -- the copy in the member _al
     BasicDelayedEventQueue::timerCallback / InterpreterImpl::eventReady   as in ResetRace.v; here each step
                                         records which members of the interpreter it uses:
                                           eventReady entry           _delayMutex, _delayedEventTargets
                                           dispatch (target found)    _ioProcs, then the event queue it enqueues into
                                           the unblock event          _externalQueue
   A step of the callback that uses a member that is already destroyed (or the object after its memory was
   released) is a use of freed memory: [d_fault].  [d_after_done] records that the callback worked inside the
   object after the destructor's body had finished (what the replay on the implementation can observe).

   Variant switches (regenerated from the destructor's source by tools/translate/tr_destroyorder.py):
     dv_locks_targets   the body takes _delayMutex, clears _delayedEventTargets and cancels the timers inside that scope
     dv_drops_al        the body gives up _al's handle
     dv_joins_in_body   the body gives up the member's handle (after the scope of the lock)
   Code as found: all false.  patches/C10-destroy-inflight-callback.diff: all true.

   Not modelled: a handle to the queue held by somebody else (then nobody joins the timer thread and a callback
   that is under way calls eventReady on a dead object whatever the destructor does); subclasses of
   InterpreterImpl; the dead-lock of cancelAllDelayed against a callback that has not reached its critical
   section is modelled ([d_blocked], known finding C09-deadlock). *)
From V Require Import Base GenResetOrder GenDestroyOrder ResetRace.
Local Open Scope N_scope.

Record dvariant := { dv_locks_targets : bool; dv_drops_al : bool; dv_joins_in_body : bool }.
Definition dv_found := {| dv_locks_targets := false; dv_drops_al := false; dv_joins_in_body := false |}.
Definition dv_fixed := {| dv_locks_targets := true; dv_drops_al := true; dv_joins_in_body := true |}.
Definition dv_gen := {| dv_locks_targets := destroy_locks_targets; dv_drops_al := destroy_drops_al;
                        dv_joins_in_body := destroy_joins_in_body |}.

(* the destroying thread's sub-steps *)
Inductive dstep :=
| DCancel                (* _delayQueue.cancelAllDelayed(), no lock on _delayMutex *)
| DLockClear             (* lock _delayMutex; _delayedEventTargets.clear() *)
| DCancelUnlock          (* cancelAllDelayed(); end of the lock's scope *)
| DRelAl                 (* _al's handle is given up (in the body, or when the member _al is destroyed) *)
| DRelQueue              (* the member's handle is given up (in the body, or when the member is destroyed) *)
| DBodyDone              (* interp.destroy.done *)
| DKillIoProcs | DKillQueues | DKillDelayM     (* members destroyed *)
| DFree.                 (* operator delete *)

Definition kill_of (m : dmember) : dstep :=
  match m with
  | MAl => DRelAl
  | MTargets | MDelayMutex => DKillDelayM
  | MInternalQueue | MExternalQueue => DKillQueues
  | MDelayQueue => DRelQueue
  | MIoProcs => DKillIoProcs
  end.

(* the destructor: body, then the members in reverse order of declaration, then the memory *)
Definition destroy_prog (v : dvariant) (members : list dmember) : list dstep :=
  (if dv_locks_targets v then [DLockClear; DCancelUnlock] else [DCancel])
  ++ (if dv_drops_al v then [DRelAl] else [])
  ++ (if dv_joins_in_body v then [DRelQueue] else [])
  ++ [DBodyDone] ++ map kill_of (rev members) ++ [DFree].

Record dstate := {
  d_pend : list N;                 (* armed timers *)
  d_targets : list (N * tkind);    (* _delayedEventTargets *)
  d_cb : cb_t;                     (* the timer thread *)
  d_todo : list dstep;             (* what the destroying thread still has to do *)
  d_locked : bool;                 (* the destructor holds _delayMutex *)
  d_blocked : bool;                (* event_del waits for the callback that waits for _mutex *)
  d_q_held : bool;                 (* the member _delayQueue holds a handle *)
  d_al_held : bool;                (* _al.delayQueue holds a handle *)
  d_joined : bool;                 (* the timer thread has been joined: it does not run any more *)
  d_ioprocs : bool;                (* alive: _ioProcs *)
  d_queues : bool;                 (* alive: _internalQueue, _externalQueue *)
  d_delaym : bool;                 (* alive: _delayMutex, _delayedEventTargets *)
  d_obj : bool;                    (* the memory of the object is not released *)
  d_body_done : bool;
  d_fault : bool;                  (* a callback step used a destroyed member *)
  d_after_done : bool              (* history: a callback step inside the object after the body had finished *)
}.

Definition d_at_call (prog : list dstep) (pend : list N) (targets : list (N * tkind)) (cb : cb_t) (alref : bool) : dstate :=
  {| d_pend := pend; d_targets := targets; d_cb := cb; d_todo := prog; d_locked := false; d_blocked := false;
     d_q_held := true; d_al_held := alref; d_joined := false; d_ioprocs := true; d_queues := true; d_delaym := true;
     d_obj := true; d_body_done := false; d_fault := false; d_after_done := false |}.

(* ---- setters ---- *)
Definition dset_cb (s : dstate) (c : cb_t) : dstate :=
  {| d_pend := d_pend s; d_targets := d_targets s; d_cb := c; d_todo := d_todo s; d_locked := d_locked s;
     d_blocked := d_blocked s; d_q_held := d_q_held s; d_al_held := d_al_held s; d_joined := d_joined s;
     d_ioprocs := d_ioprocs s; d_queues := d_queues s; d_delaym := d_delaym s; d_obj := d_obj s;
     d_body_done := d_body_done s; d_fault := d_fault s; d_after_done := d_after_done s |}.
Definition dset_todo (s : dstate) (t : list dstep) : dstate :=
  {| d_pend := d_pend s; d_targets := d_targets s; d_cb := d_cb s; d_todo := t; d_locked := d_locked s;
     d_blocked := d_blocked s; d_q_held := d_q_held s; d_al_held := d_al_held s; d_joined := d_joined s;
     d_ioprocs := d_ioprocs s; d_queues := d_queues s; d_delaym := d_delaym s; d_obj := d_obj s;
     d_body_done := d_body_done s; d_fault := d_fault s; d_after_done := d_after_done s |}.

(* a callback step inside the object: which members it needs alive *)
Definition touch (s : dstate) (c : cb_t) (pend : list N) (targets : list (N * tkind)) (need : bool) : dstate :=
  {| d_pend := pend; d_targets := targets; d_cb := c; d_todo := d_todo s; d_locked := d_locked s;
     d_blocked := d_blocked s; d_q_held := d_q_held s; d_al_held := d_al_held s; d_joined := d_joined s;
     d_ioprocs := d_ioprocs s; d_queues := d_queues s; d_delaym := d_delaym s; d_obj := d_obj s;
     d_body_done := d_body_done s; d_fault := d_fault s || negb need;
     d_after_done := d_after_done s || d_body_done s |}.

Definition dtimer_step (s : dstate) : dstate :=
  match d_cb s with
  | CbIdle => s
  | CbEntered u =>
      (* critical section 1: the queue object only (it outlives the join) *)
      if mem u (d_pend s)
      then {| d_pend := remove u (d_pend s); d_targets := d_targets s; d_cb := CbTaken u; d_todo := d_todo s;
              d_locked := d_locked s; d_blocked := d_blocked s; d_q_held := d_q_held s; d_al_held := d_al_held s;
              d_joined := d_joined s; d_ioprocs := d_ioprocs s; d_queues := d_queues s; d_delaym := d_delaym s;
              d_obj := d_obj s; d_body_done := d_body_done s; d_fault := d_fault s; d_after_done := d_after_done s |}
      else dset_cb s CbIdle
  | CbTaken u =>
      (* eventReady: the object, _delayMutex, _delayedEventTargets *)
      if negb (d_obj s && d_delaym s) then touch s CbIdle (d_pend s) (d_targets s) false
      else if d_locked s then s
      else match lookup (d_targets s) u with
           | None => touch s CbIdle (d_pend s) (d_targets s) true
           | Some KDeliver =>
               touch s CbIdle (d_pend s) (erase u (d_targets s)) (d_ioprocs s && d_queues s)
           | Some KError =>
               touch s (CbErrQueued u) (d_pend s) (erase u (d_targets s)) (d_ioprocs s && d_queues s)
           end
  | CbErrQueued u =>
      touch s CbIdle (d_pend s) (d_targets s) (d_obj s && d_queues s)
  end.

Definition dfire_step (s : dstate) (u : N) : dstate :=
  match d_cb s with
  | CbIdle => if mem u (d_pend s) then dset_cb s (CbEntered u) else s
  | _ => s
  end.

(* cancelAllDelayed, entered with the queue's _mutex; [unlock]: the scope of the lock on _delayMutex ends *)
Definition dcancel (s : dstate) (rest : list dstep) : dstate :=
  match d_cb s with
  | CbEntered u =>
      if mem u (d_pend s)
      then {| d_pend := d_pend s; d_targets := d_targets s; d_cb := d_cb s; d_todo := d_todo s; d_locked := d_locked s;
              d_blocked := true; d_q_held := d_q_held s; d_al_held := d_al_held s; d_joined := d_joined s;
              d_ioprocs := d_ioprocs s; d_queues := d_queues s; d_delaym := d_delaym s; d_obj := d_obj s;
              d_body_done := d_body_done s; d_fault := d_fault s; d_after_done := d_after_done s |}
      else {| d_pend := []; d_targets := d_targets s; d_cb := d_cb s; d_todo := rest; d_locked := false;
              d_blocked := false; d_q_held := d_q_held s; d_al_held := d_al_held s; d_joined := d_joined s;
              d_ioprocs := d_ioprocs s; d_queues := d_queues s; d_delaym := d_delaym s; d_obj := d_obj s;
              d_body_done := d_body_done s; d_fault := d_fault s; d_after_done := d_after_done s |}
  | _ => {| d_pend := []; d_targets := d_targets s; d_cb := d_cb s; d_todo := rest; d_locked := false;
            d_blocked := false; d_q_held := d_q_held s; d_al_held := d_al_held s; d_joined := d_joined s;
            d_ioprocs := d_ioprocs s; d_queues := d_queues s; d_delaym := d_delaym s; d_obj := d_obj s;
            d_body_done := d_body_done s; d_fault := d_fault s; d_after_done := d_after_done s |}
  end.

(* giving up a handle; the last one joins the timer thread: waits until no callback runs *)
Definition release (s : dstate) (is_al : bool) (rest : list dstep) : dstate :=
  let mine := if is_al then d_al_held s else d_q_held s in
  let other := if is_al then d_q_held s else d_al_held s in
  if negb mine then dset_todo s rest
  else if other then
    {| d_pend := d_pend s; d_targets := d_targets s; d_cb := d_cb s; d_todo := rest; d_locked := d_locked s;
       d_blocked := d_blocked s; d_q_held := if is_al then d_q_held s else false;
       d_al_held := if is_al then false else d_al_held s; d_joined := d_joined s;
       d_ioprocs := d_ioprocs s; d_queues := d_queues s; d_delaym := d_delaym s; d_obj := d_obj s;
       d_body_done := d_body_done s; d_fault := d_fault s; d_after_done := d_after_done s |}
  else match d_cb s with
       | CbIdle =>
           {| d_pend := []; d_targets := d_targets s; d_cb := CbIdle; d_todo := rest; d_locked := d_locked s;
              d_blocked := d_blocked s; d_q_held := false; d_al_held := false; d_joined := true;
              d_ioprocs := d_ioprocs s; d_queues := d_queues s; d_delaym := d_delaym s; d_obj := d_obj s;
              d_body_done := d_body_done s; d_fault := d_fault s; d_after_done := d_after_done s |}
       | _ => s                                         (* join() waits for the running callback *)
       end.

Definition kill (s : dstate) (what : dstep) (rest : list dstep) : dstate :=
  {| d_pend := d_pend s; d_targets := d_targets s; d_cb := d_cb s; d_todo := rest; d_locked := d_locked s;
     d_blocked := d_blocked s; d_q_held := d_q_held s; d_al_held := d_al_held s; d_joined := d_joined s;
     d_ioprocs := match what with DKillIoProcs => false | _ => d_ioprocs s end;
     d_queues := match what with DKillQueues => false | _ => d_queues s end;
     d_delaym := match what with DKillDelayM => false | _ => d_delaym s end;
     d_obj := match what with DFree => false | _ => d_obj s end;
     d_body_done := match what with DBodyDone => true | _ => d_body_done s end;
     d_fault := d_fault s; d_after_done := d_after_done s |}.

Definition ddestroy_step (s : dstate) : dstate :=
  match d_todo s with
  | [] => s
  | DCancel :: rest => dcancel s rest
  | DLockClear :: rest =>
      match d_cb s with
      | CbErrQueued _ => s                              (* eventReady holds _delayMutex *)
      | _ => {| d_pend := d_pend s; d_targets := []; d_cb := d_cb s; d_todo := rest; d_locked := true;
                d_blocked := d_blocked s; d_q_held := d_q_held s; d_al_held := d_al_held s; d_joined := d_joined s;
                d_ioprocs := d_ioprocs s; d_queues := d_queues s; d_delaym := d_delaym s; d_obj := d_obj s;
                d_body_done := d_body_done s; d_fault := d_fault s; d_after_done := d_after_done s |}
      end
  | DCancelUnlock :: rest => dcancel s rest
  | DRelAl :: rest => release s true rest
  | DRelQueue :: rest => release s false rest
  | DBodyDone :: rest => kill s DBodyDone rest
  | DKillIoProcs :: rest => kill s DKillIoProcs rest
  | DKillQueues :: rest => kill s DKillQueues rest
  | DKillDelayM :: rest => kill s DKillDelayM rest
  | DFree :: rest => kill s DFree rest
  end.

Inductive dact := DaFire (u : N) | DaTimer | DaDestroy.

Definition d_step (s : dstate) (a : dact) : dstate :=
  if d_blocked s then s
  else match a with
       | DaDestroy => ddestroy_step s
       | DaFire u => if d_joined s then s else dfire_step s u
       | DaTimer => if d_joined s then s else dtimer_step s
       end.

Definition d_run (s : dstate) (sched : list dact) : dstate := fold_left d_step sched s.

(* the condition under which the destruction is safe whatever the order of the members: the body gives up the
   member's handle and that is the last one (the handle of _al was given up before, or never taken), so that the
   timer thread is joined while every member exists *)
Definition destroy_safeb (v : dvariant) (alref : bool) : bool :=
  dv_joins_in_body v && (dv_drops_al v || negb alref).

(* the other safe shape: no join in the body, but the targets are cleared under the lock, _al's handle is given
   up in the body, and the member _delayQueue is declared after _delayMutex and _delayedEventTargets (it is destroyed,
   and joins, before they are) *)
Fixpoint queue_dies_firstb (kills : list dstep) : bool :=
  match kills with
  | [] => false
  | DRelQueue :: _ => true
  | DKillDelayM :: _ | DFree :: _ | DRelAl :: _ | DCancel :: _ | DLockClear :: _ | DCancelUnlock :: _ => false
  | _ :: r => queue_dies_firstb r
  end.
Definition destroy_safe_by_orderb (v : dvariant) (alref : bool) (members : list dmember) : bool :=
  dv_locks_targets v && (dv_drops_al v || negb alref) && queue_dies_firstb (map kill_of (rev members)).

(* outcome classes for the replay *)
Inductive d_outcome := DClean | DAfterDestruction | DBlocked | DNotFinished.
Definition d_classify (s : dstate) : d_outcome :=
  if d_blocked s then DBlocked
  else if d_fault s || d_after_done s then DAfterDestruction
  else match d_todo s with [] => DClean | _ => DNotFinished end.
