(* PmlEquivHistMicro.v -- C06 beyond the history-free core: one d_step of the emitted step process against one
   Fast.fselect_and_step on corresponding states, for charts WITH pseudo-states (wf_histb: <initial>, deep / multiple
   initial attributes, shallow and deep <history>), every legal configuration with legal recorded history (StOK,
   LegalHistRun.v), every event, every datamodel state -- the repaired template, content that cannot fail, the chart
   conditions chart_ph.  Composition of selection (PmlStepLemmas), exit / target set and history (PmlEquivExit, all
   charts), entry set (PmlEquivHistEntry), exit / take / enter (PmlEquivHistStep); the legality of the next state is
   LegalHistFastRun.fselect_and_step_legal.  Proofs only. *)
From V Require Import Base NameMatch Chart Exec Large LargeLemmas Fast Interp Legal SetLemmas LegalAbstract LegalLarge LegalRun
                      WfCore Trie PmlStep TraceLemmas PmlStepLemmas SerializeCodecLemmas SerializeLemmas SerializeFastLemmas
                      LegalHistBase LegalHistEntry LegalHistStep LegalHistRun LegalHistWf LegalHistFast LegalHistFastRun
                      CGenEquivHist CGenEquivHistRun
                      PmlEquivBase PmlEquivExit PmlEquivContent PmlEquivStep PmlEquivMicro PmlEquivPmlTok
                      PmlEquivHistEntry PmlEquivHistStep.
From Coq Require Import Sorted.
Local Open Scope nat_scope.

(* the static conflict table of the emitted model is the engine's conflict matrix (a theorem on the core:
   PmlEquivExit.conflict_static_core; checked per chart here) *)
Definition conflict_tableb (c : fchart) : bool :=
  forallb (fun i => forallb (fun j => Bool.eqb (conflict_static c (tr c i) (tr c j)) (fconflicts c (tr c i) (tr c j)))
                            (seq 0 (ntrans c))) (seq 0 (ntrans c)).

(* the conditions on a chart with pseudo-states, in one *)
Definition chart_ph (c : fchart) : bool :=
  pml_deep_alone c && trans_lists c && conflict_tableb c && sortedb (fs_completion (st c 0)).

(* the template with its patches, as far as one iteration depends on them *)
Definition pv_repaired (pv : pml_variant) : Prop :=
  pv_in_reads_root pv = false /\ pv_cond_bare pv = false /\ pv_found_stale pv = false /\ entry_repaired pv.
Lemma pml_repaired_is : pv_repaired pml_repaired.
Proof. repeat split. Qed.

(* the engine's state: legal configuration, legal recorded history, ascending sets *)
Definition hst_ok (c : fchart) (l : lstate) : Prop := StOK c l /\ Il l.

(* ---- ESTABLISH_ENTRY_SET prints only lines that show nothing ---- *)
Section Silent.
Variable pv : pml_variant.
Variable c : fchart.
Definition silent_p (t : ptok) : bool := quiet_p t && match pobs c t with None => true | Some _ => false end.
Definition silent_outs (s s' : pstate) : Prop := exists seg, forallb silent_p seg = true /\ s' = outs seg s.
Lemma silent_refl s : silent_outs s s.
Proof. exists []. split; reflexivity. Qed.
Lemma silent_out t s s' : silent_p t = true -> silent_outs s s' -> silent_outs s (out t s').
Proof. intros Ht (seg & Q & ->). exists (t :: seg). split; [cbn; now rewrite Ht, Q|reflexivity]. Qed.

Lemma descend_silent cfg ex hist es ts s0 s i : silent_outs s0 s -> silent_outs s0 (snd (p_descend_one pv c cfg ex hist (es, ts, s) i)).
Proof.
  intros Hs. unfold p_descend_one. destruct (negb (mem i es)); [exact Hs|].
  destruct (fs_type (st c i)); try exact Hs.
  - destruct (negb (intersects es (fs_children (st c i))) && _); [|exact Hs].
    destruct (pv_deep_unnegated pv).
    + destruct (intersects _ _); [|exact Hs]. destruct (filter _ _); exact Hs.
    + destruct (negb (pv_completion_guarded pv) || negb _); exact Hs.
  - destruct (negb (intersects (pcompl pv c i) hist) && _).
    + destruct (find _ _); cbn [snd]; repeat (apply silent_out; [reflexivity|]); exact Hs.
    + destruct (if pv_hist_or pv then _ else _); cbn [snd]; repeat (apply silent_out; [reflexivity|]); exact Hs.
  - destruct (negb (intersects (pcompl pv c i) hist) && _).
    + destruct (find _ _); cbn [snd]; repeat (apply silent_out; [reflexivity|]); exact Hs.
    + destruct (if pv_hist_or pv then _ else _); cbn [snd]; repeat (apply silent_out; [reflexivity|]); exact Hs.
  - destruct (pnt c); [exact Hs|].
    match goal with |- silent_outs s0 (snd (fold_left ?f ?l ?a0)) =>
      assert (G : forall l' (a : list nat * list nat * pstate), silent_outs s0 (snd a) -> silent_outs s0 (snd (fold_left f l' a))) end.
    { induction l' as [|j r IH]; intros a Ha; cbn [fold_left]; [exact Ha|].
      apply IH. destruct a as [[e tset] s']. cbn [snd] in *. destruct (ft_source (tr c j) =? i); cbn [snd]; [|exact Ha].
      apply silent_out; [reflexivity|exact Ha]. }
    apply G. cbn [snd]. apply silent_out; [reflexivity|exact Hs].
Qed.

Lemma entry_set_silent cfg ex hist tg tset s : silent_outs s (snd (p_entry_set pv c cfg ex hist tg tset s)).
Proof.
  unfold p_entry_set.
  assert (G : forall l (a : list nat * list nat * pstate), silent_outs s (snd a) ->
             silent_outs s (snd (fold_left (p_descend_one pv c cfg ex hist) l a))).
  { induction l as [|i r IH]; intros a Ha; cbn [fold_left]; [exact Ha|].
    apply IH. destruct a as [[e t] s']. now apply descend_silent. }
  specialize (G (seq 0 (pn c)) (p_anc_close c tg, tset, s) (silent_refl s)).
  destruct (fold_left _ _ _) as [[e t] s']. cbn [snd] in *. apply silent_out; [reflexivity|exact G].
Qed.

Lemma silent_fields seg s : forallb silent_p seg = true ->
  pcore (outs seg s) = pcore s /\ p_hist (outs seg s) = p_hist s /\ pobs_list c (p_out (outs seg s)) = pobs_list c (p_out s).
Proof.
  induction seg as [|t r IH]; cbn [forallb outs fold_right]; intros Q; [repeat split|].
  apply andb_true_iff in Q as [Qt Qr]. destruct (IH Qr) as (A & B & C). fold (outs r s) in *.
  split; [exact A|]. split; [exact B|]. cbn [out p_out]. unfold pobs_list in *. cbn [filter_map].
  unfold silent_p in Qt. apply andb_true_iff in Qt as [_ Qt]. destruct (pobs c t); [discriminate|exact C].
Qed.
End Silent.

(* ---- the transition set after ESTABLISH_ENTRYSET ---- *)
Section TransSet.
Variable c : fchart.
Hypothesis Htl : trans_lists c = true.

Lemma fdescend_ts_ok cfg ex hist es ts j : j < nstates c -> ssorted ts -> bounded (ntrans c) ts ->
  ssorted (snd (fdescend_one c cfg ex hist (es, ts) j)) /\ bounded (ntrans c) (snd (fdescend_one c cfg ex hist (es, ts) j)).
Proof.
  intros Hj Hs Hb.
  assert (Hin : forall ti, In ti (fs_trans (st c j)) -> ti < ntrans c).
  { intros ti Hti. rewrite (trans_list_of c Htl j Hj) in Hti. apply filter_In in Hti as [Hti _]. apply in_seq in Hti. lia. }
  assert (Ins : forall ti tset, ti < ntrans c -> ssorted tset -> bounded (ntrans c) tset ->
                ssorted (insert_sorted ti tset) /\ bounded (ntrans c) (insert_sorted ti tset)).
  { intros ti tset Hti S B. split; [now apply insert_sorted_ssorted|]. apply bounded_intro. intros y Hy.
    apply insert_sorted_In in Hy as [->|Hy]; [exact Hti|now apply (bounded_In _ tset)]. }
  unfold fdescend_one. destruct (negb (mem j es)); [split; assumption|].
  destruct (fs_type (st c j)); cbn [snd]; try (split; assumption).
  - destruct (_ && _); cbn [snd]; split; assumption.
  - destruct (negb _); [|cbn [snd]; split; assumption].
    destruct (fs_trans (st c j)) as [|ti r] eqn:E; cbn [snd]; [split; assumption|]. apply Ins; auto. apply Hin. now left.
  - destruct (negb _); [|cbn [snd]; split; assumption].
    destruct (fs_trans (st c j)) as [|ti r] eqn:E; cbn [snd]; [split; assumption|]. apply Ins; auto. apply Hin. now left.
  - revert Hin. generalize (fs_trans (st c j)). intros l. revert es ts Hs Hb.
    induction l as [|ti r IH]; intros es ts Hs Hb Hin; cbn [fold_left snd]; [split; assumption|].
    destruct (Ins ti ts (Hin ti (or_introl eq_refl)) Hs Hb) as [S1 B1].
    apply IH; cbn [snd]; auto. intros t0 Ht0. apply Hin. now right.
Qed.

Lemma fentry_ts_ok cfg ex hist tg ts : ssorted ts -> bounded (ntrans c) ts ->
  ssorted (snd (fentry_set c cfg ex hist tg ts)) /\ bounded (ntrans c) (snd (fentry_set c cfg ex hist tg ts)).
Proof.
  unfold fentry_set, fn. generalize (add_ancestors c tg).
  assert (G : forall k j es ts0, j + k = nstates c -> ssorted ts0 -> bounded (ntrans c) ts0 ->
              ssorted (snd (fold_left (fdescend_one c cfg ex hist) (seq j k) (es, ts0))) /\
              bounded (ntrans c) (snd (fold_left (fdescend_one c cfg ex hist) (seq j k) (es, ts0)))).
  { induction k as [|k IH]; intros j es ts0 Hjk S B; cbn [seq fold_left]; [split; assumption|].
    destruct (fdescend_ts_ok cfg ex hist es ts0 j ltac:(lia) S B) as [S1 B1].
    destruct (fdescend_one c cfg ex hist (es, ts0) j) as [es1 ts1]. cbn [snd] in *. apply IH; auto. lia. }
  intros es S B. now apply G.
Qed.

Lemma fentry_es_sorted cfg ex hist tg ts : ssorted tg -> ssorted (fst (fentry_set c cfg ex hist tg ts)).
Proof.
  intros St. unfold fentry_set. generalize (seq 0 (fn c)).
  assert (S0 : ssorted (add_ancestors c tg)) by (unfold add_ancestors; now apply fold_union_ssorted).
  revert S0. generalize (add_ancestors c tg). intros es S0 l. revert es ts S0.
  induction l as [|j r IH]; intros es ts0 S0; cbn [fold_left]; [exact S0|].
  pose proof (fdescend_sorted c cfg ex hist j es ts0 S0) as S1.
  destruct (fdescend_one c cfg ex hist (es, ts0) j) as [es1 ts1]. now apply IH.
Qed.
End TransSet.

Section HMicro.
Variable pv : pml_variant.
Variable c : fchart.
Variable iq eq : nat.
Variable dom : list N.
Hypothesis Hpv : pv_repaired pv.
Hypothesis H : wf_histb c = true.
Hypothesis Hch : chart_ph c = true.
Hypothesis Hcontent : content_ok dom c = true.
Hypothesis Hdata : forall i, i <> 0 -> fs_data (st c i) = [].
Let W : WFH c := wf_histb_sound c H.
Notation n := (nstates c).
Notation Anc := (LegalAbstract.Anc (fun i => fs_parent (st c i))).

Lemma chart_ph_parts : pml_deep_alone c = true /\ trans_lists c = true /\ conflict_tableb c = true /\ ssorted (fs_completion (st c 0)).
Proof.
  unfold chart_ph in Hch. apply andb_true_iff in Hch as [Hc1 S0]. apply andb_true_iff in Hc1 as [Hc2 T].
  apply andb_true_iff in Hc2 as [D L]. repeat split; auto. now apply sortedb_sound.
Qed.

Lemma conflict_table_h i j : i < ntrans c -> j < ntrans c ->
  conflict_static c (tr c i) (tr c j) = fconflicts c (tr c i) (tr c j).
Proof.
  intros Hi Hj. destruct chart_ph_parts as (_ & _ & T & _). unfold conflict_tableb in T.
  pose proof (forallb_seq0 _ _ T i Hi) as T1. cbv beta in T1. pose proof (forallb_seq0 _ _ T1 j Hj) as T2. now apply eqb_prop.
Qed.

Variable s : pstate.
Variable l : lstate.
Variable x : xstate.
Variable evf : option event.
Hypothesis Hcorr : corr c dom s l x.
Hypothesis Hok : hst_ok c l.
Hypothesis Hinit : l_init l = true.
Hypothesis Hmatch : forall i e, i < ntrans c -> evf = Some e -> ft_spontaneous (tr c i) = false ->
  resolved_match (guard_literals pv c i) (ev_name e) = name_match_impl nm_fixed (ft_event (tr c i)) (ev_name e).

Let cfg := l_cfg l.
Let evp := option_map ev_name evf.
Let A := selected pv c cfg evp (x_store x).
Let ex := set_inter (k_exit A) cfg.

Lemma hcfg_facts :
  LegalH c (fun y => In y cfg) /\ (forall y, In y cfg -> y < n) /\ (forall y, In y cfg -> pseudoS c y = false) /\
  ssorted cfg /\ In 0 cfg /\ HistOK c (l_hist l).
Proof.
  destruct Hok as [[[HL HB] HH] [(S1 & _) _ _]]. fold cfg in HL, HB, S1.
  split; [exact HL|]. split; [intros y Hy; now destruct (HB y Hy)|]. split; [intros y Hy; now destruct (HB y Hy)|].
  split; [exact S1|]. split; [exact (lg_root _ _ _ _ HL)|exact HH].
Qed.

Lemma hcfg_nonempty : nonempty cfg = true.
Proof. destruct hcfg_facts as (_ & _ & _ & _ & H0 & _). destruct cfg; [destruct H0|reflexivity]. Qed.

Lemma hselection : fselect c cfg evf (seq 0 (ntrans c)) [] x = (k_trans A, x) /\ k_found A = nonempty (k_trans A).
Proof.
  destruct Hpv as (Hin & Hbare & _).
  apply (pml_select_equiv_lemma pv c cfg evf x Hin Hbare).
  - exact conflict_table_h.
  - exact Hmatch.
  - intros i cnd _ Hc. destruct (trans_content_ok c dom Hcontent i) as (_ & _ & Hokc).
    rewrite (beval_total dom _ _ _ (co_store _ _ _ _ _ Hcorr) (Hokc cnd Hc)). discriminate.
Qed.

Lemma hnotfound_step : k_trans A = [] ->
  fselect_and_step ex_fixed c l x evf =
  (upd_flags (upd_flags l (l_spont l) false) (match evf with Some _ => true | None => false end) false, x, RC_MICROSTEPPED).
Proof.
  intros E. unfold fselect_and_step. cbn [upd_flags l_cfg]. fold cfg. destruct hselection as [Sel _]. rewrite Sel, E. reflexivity.
Qed.

Lemma hcfg_proper : cfg_proper c cfg = true.
Proof.
  destruct hcfg_facts as (_ & _ & HBp & _). unfold cfg_proper. apply forallb_forall. intros i Hi.
  specialize (HBp i Hi). unfold pseudoS in HBp. now rewrite HBp.
Qed.

Lemma hex_facts :
  ssorted ex /\ bounded n ex /\ (forall i, In i ex -> In i cfg) /\ mem 0 ex = false /\
  ex = exitset c cfg (k_trans A) /\ k_target A = targets c (k_trans A) /\
  ssorted (k_target A) /\ ssorted (k_trans A) /\ bounded (ntrans c) (k_trans A).
Proof.
  destruct (selected_sets pv c cfg evp (x_store x)) as [E1 E2 E3 E4 E5 E6]. fold A in E1, E2, E3, E4, E5, E6.
  destruct hcfg_facts as (_ & HBn & _).
  assert (Hsub : forall i, In i ex -> In i cfg) by (intros i Hi; apply In_set_inter in Hi; tauto).
  destruct (pml_exit_set_lemma pv c cfg evp (x_store x) hcfg_proper) as [X1 X2].
  split; [now apply set_inter_ssorted|]. split; [apply bounded_intro; intros i Hi; apply HBn; auto|]. split; [exact Hsub|]. split.
  - apply mem_false_In. intros H0. apply In_set_inter in H0 as [H0 _]. apply E4 in H0 as (ti & _ & H0).
    apply In_mem_true in H0. rewrite exit_static_no_root in H0. discriminate.
  - split; [exact X1|]. split; [exact X2|]. split; [exact E2|]. split; [exact E3|].
    apply bounded_intro. intros ti Hti. now apply (selected_bound pv c cfg evp (x_store x)).
Qed.

Lemma hsel_facts : pairwise_ok lg_fixed c (k_trans A) /\ (forall ti, In ti (k_trans A) -> In (ft_source (tr c ti)) cfg).
Proof.
  pose proof (fselect_ok c cfg evf (seq 0 (ntrans c)) [] x (nil_pairwise lg_fixed c) (fun ti (F : In ti []) => match F with end)) as [P1 P2].
  destruct hselection as [Sel _]. rewrite Sel in P1, P2. cbn [fst] in P1, P2. split; assumption.
Qed.

Record at_microstep (s3 : pstate) (x0 : xstate) : Prop := {
  am_cfg : p_cfg s3 = cfg;
  am_hist : p_hist s3 = l_hist l;
  am_rx : Rx c s3 x0;
  am_store : store_has dom (x_store x0);
  am_tlf : p_tlf s3 = l_tlf l;
  am_fin : p_fin s3 = l_tlf l;
  am_spont : p_spont s3 = true
}.

Lemma hmicrostep_sim s3 x0 : at_microstep s3 x0 ->
  let s' := p_microstep pv c iq eq (k_target A) ex (k_trans A) s3 in
  let l0 := upd_flags l (l_spont l) false in
  let r := fmicrostep ex_fixed c l0 x0 (k_target A) ex (k_trans A) false in
  p_full s' = false ->
  corr c dom s' (fst r) (snd r) /\ p_spont s' = true /\ l_spont (fst r) = true.
Proof.
  intros [Mc Mh Mr Ms Mt Mf Msp]. cbv zeta.
  destruct Hpv as (Hin & _ & _ & Her). pose proof Her as (_ & _ & _ & _ & Hcov & _).
  destruct chart_ph_parts as (D & T & _ & _).
  destruct hex_facts as (Xs & Xb & Xsub & X0 & Xe & Xt & Ts & Trs & Trb).
  destruct hcfg_facts as (HL & HBn & HBp & Cs & C0 & HH).
  destruct hsel_facts as [Pok Psrc].
  unfold p_microstep, fmicrostep. cbn [upd_flags l_cfg l_hist l_initd l_tlf l_fin l_stable l_cancelled]. fold cfg.
  (* REMEMBER_HISTORY *)
  destruct (pml_history_lemma pv c Hcov ex X0 s3) as (Hh & Hcore & Hobs). cbv zeta in Hh, Hcore, Hobs.
  set (s1 := p_remember pv c ex s3) in *.
  rewrite Mc, hcfg_nonempty, Mh in Hh.
  assert (Hc1 : p_cfg s1 = cfg) by (unfold pcore in Hcore; congruence).
  set (hist := fremember c cfg ex (l_hist l)) in *.
  rewrite Hc1, Hh.
  (* ESTABLISH_ENTRY_SET *)
  assert (Hex' : forall y, In y (exitset c cfg (k_trans A)) -> In y cfg) by (rewrite <- Xe; exact Xsub).
  assert (HH' : HistOK c hist) by (unfold hist; rewrite Xe; exact (fremember_HistOK c W cfg _ HL HBp Hex' (l_hist l) HH)).
  destruct (pentry_set_h pv c W Her D T cfg ex hist (k_target A)
              ltac:(rewrite Xt; exact (htargets_bound c W (k_trans A))) Ts HH'
              ltac:(rewrite Xt; exact (HE0_uniq_step c W cfg (k_trans A) HL HBn HBp Psrc Pok))
              (QE5 c cfg (k_trans A))
              ltac:(rewrite Xt; exact (QE5_0 c W cfg (k_trans A) HL HBn HBp Psrc Pok))
              (QE5_par c W cfg (k_trans A) HL HBn HBp Psrc)
              ltac:(rewrite Xe; exact (QE5_comp c W cfg (k_trans A) HL HBn HBp Psrc))
              (QE5_pseudo c cfg (k_trans A) HBp)
              HBn (fun y p Hy Hp => hcfg_parent c cfg HL HBp y p Hy Hp) Xsub
              ltac:(rewrite Xe, Xt; exact (fexit_dom c W cfg (k_trans A) HL HBn HBp Psrc))
              (k_trans A) s1) as [Ee _].
  pose proof (entry_set_silent pv c cfg ex hist (k_target A) (k_trans A) s1) as (seg & Qseg & Es2).
  assert (HF : HInv c cfg ex (k_target A) (QE5 c cfg (k_trans A)) n (FEfin c cfg ex hist (k_target A) (k_trans A))).
  { rewrite Xe, Xt. apply (FInv_fin c W cfg _ _ _ (k_trans A)).
    - exact (htargets_bound c W (k_trans A)).
    - exact HH'.
    - exact (HE0_uniq_step c W cfg (k_trans A) HL HBn HBp Psrc Pok).
    - exact (QE5_0 c W cfg (k_trans A) HL HBn HBp Psrc Pok).
    - exact (QE5_par c W cfg (k_trans A) HL HBn HBp Psrc).
    - exact (QE5_comp c W cfg (k_trans A) HL HBn HBp Psrc).
    - exact (QE5_pseudo c cfg (k_trans A) HBp).
    - exact HBn.
    - intros y p Hy Hp. exact (hcfg_parent c cfg HL HBp y p Hy Hp).
    - exact Hex'.
    - exact (fexit_dom c W cfg (k_trans A) HL HBn HBp Psrc). }
  pose proof (fentry_ts_ok c T cfg ex hist (k_target A) (k_trans A) Trs Trb) as [Ts' Tb'].
  pose proof (fentry_es_sorted c cfg ex hist (k_target A) (k_trans A) Ts) as Es.
  destruct (p_entry_set pv c cfg ex hist (k_target A) (k_trans A) s1) as [[es1 ts1] s2] eqn:Epe. cbn [fst snd] in Ee, Es2.
  unfold FEfin in HF.
  destruct (fentry_set c cfg ex hist (k_target A) (k_trans A)) as [es ts'] eqn:Efs. cbn [fst snd] in *.
  injection Ee as -> ->. subst s2.
  destruct (silent_fields c seg s1 Qseg) as (Sc & Sh & So).
  set (s2 := outs seg s1) in *.
  assert (Ebd : bounded n es) by (apply bounded_intro; exact (hi_bound _ _ _ _ _ _ _ HF)).
  unfold pcore in Sc, Hcore.
  assert (R2 : Rx c s2 x0).
  { destruct Mr as (R1 & R2 & R3 & R4). unfold PmlEquivContent.Rx. repeat split; congruence. }
  assert (C2 : p_cfg s2 = cfg) by congruence.
  intros Hfull.
  destruct (hphases_sim pv c iq eq dom Hin H Hcontent Hdata ex ts' es s2 x0 (l_initd l) Xs Xb Ts' Tb' Es Ebd
              ltac:(rewrite C2; exact Cs) ltac:(rewrite C2; apply bounded_intro; exact HBn) ltac:(rewrite C2; exact C0) X0
              ltac:(rewrite C2; exact Xsub) R2 Ms ltac:(congruence) Hfull) as (P1 & P2 & P3 & P4 & P5 & P6 & P7).
  rewrite C2 in P1, P2, P3, P4, P5.
  assert (Et : p_tlf s2 = l_tlf l) by congruence. rewrite Et in P1, P2, P3, P4, P5.
  destruct (fold_left (exit_one ex_fixed c) (rev ex) (cfg, x0)) as [cfg1 x1] eqn:Eex. cbn [fst snd] in *.
  split; [|split; [congruence|reflexivity]].
  constructor; cbn [l_cfg l_hist l_tlf]; try congruence; try exact P3.
  apply Rx_emit_none; [reflexivity|exact P2].
Qed.

(* ---- the d_step against fselect_and_step ---- *)
Theorem pml_microstep_hist_lemma :
  let s' := fst (pml_dstep pv c iq eq evp s) in
  let r := fselect_and_step ex_fixed c l x evf in
  p_full s' = false ->
  corr c dom s' (fst (fst r)) (snd (fst r)) /\ hst_ok c (fst (fst r)) /\
  (if nonempty (k_trans A) then p_spont s' = true /\ l_spont (fst (fst r)) = true
   else p_spont s' = false /\ l_spont (fst (fst r)) = match evf with Some _ => true | None => false end).
Proof.
  cbv zeta. destruct Hpv as (Hin & Hbare & Hstale & Her).
  assert (Hnext : hst_ok c (fst (fst (fselect_and_step ex_fixed c l x evf)))).
  { destruct Hok as [O1 O2]. split; [now apply fselect_and_step_legal|now apply fselect_and_step_Il]. }
  rewrite pml_dstep_unfold. cbv zeta.
  destruct (p_select_form pv c dom Hstale s l x evf Hcorr Hmatch) as (Ea & Pc & Ph & Po). fold evp in Ea, Pc, Ph, Po. fold cfg in Ea. fold A in Ea. fold ex in Ea. rewrite Ea. cbn [k_found k_target k_exit k_trans].
  set (s2 := snd (p_select pv c evp s)) in *.
  destruct Hcorr as [Cc Ch Cr Cs Ct Cf].
  assert (C2 : p_cfg s2 = cfg) by (unfold pcore in Pc; unfold cfg; congruence).
  cbn [set_flags p_cfg p_found p_tlf p_fin]. rewrite C2, hcfg_nonempty. cbn [negb].
  destruct hselection as [Sel Fnd]. rewrite Fnd.
  assert (R2 : Rx c s2 x).
  { destruct Cr as (R1 & R2 & R3 & R4). unfold pcore in Pc. unfold PmlEquivContent.Rx. repeat split; congruence. }
  destruct (k_trans A) as [|t0 tr0] eqn:Ek; cbn [nonempty].
  - (* nothing selected *)
    rewrite (hnotfound_step Ek) in *.
    cbn [fst snd out set_flags p_found p_full p_spont upd_flags l_cfg l_spont]. intros _.
    split; [|split; [exact Hnext|split; reflexivity]].
    unfold pcore in Pc. constructor; cbn [out set_flags p_cfg p_hist p_tlf p_fin upd_flags l_cfg l_hist l_tlf]; try congruence; try exact Cs.
    apply Rx_out_none; [reflexivity|]. apply Rx_set_flags. exact R2.
  - (* a microstep *)
    rewrite <- Ek in *. cbn [p_found set_flags out].
    set (s3 := {| p_cfg := p_cfg s2; p_hist := p_hist s2; p_spont := true; p_tlf := p_tlf s2; p_found := true; p_fin := p_fin s2;
                 p_store := p_store s2; p_iq := p_iq s2; p_eq := p_eq s2; p_full := p_full s2; p_out := PFound :: p_out s2 |}).
    assert (M : at_microstep s3 (emit TMsB x)).
    { unfold pcore in Pc. constructor; unfold s3; cbn [p_cfg p_hist p_tlf p_fin p_spont]; try congruence.
      - apply Rx_emit_none; [reflexivity|]. apply (Rx_out_none c PFound s2 x eq_refl) in R2. exact R2.
      - exact Cs. }
    pose proof (hmicrostep_sim s3 (emit TMsB x) M) as MS. cbv zeta in MS.
    intros Hfull. cbn [fst snd] in Hfull |- *.
    destruct hex_facts as (_ & _ & _ & _ & Xe & Xt & _).
    unfold fselect_and_step in *. cbn [upd_flags l_cfg] in *. fold cfg in Hnext |- *. rewrite Sel in *. rewrite Ek in Hnext |- *. rewrite <- Ek in Hnext |- *.
    unfold exitset, targets in Xe, Xt. rewrite <- Xe, <- Xt in *.
    destruct (fmicrostep ex_fixed c _ (emit TMsB x) (k_target A) ex (k_trans A) false) as [l1 x2] eqn:Efm.
    cbn [fst snd] in *. destruct (MS Hfull) as (K1 & K3 & K4).
    split; [exact K1|]. split; [exact Hnext|]. split; assumption.
Qed.

End HMicro.
