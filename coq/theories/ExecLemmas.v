(* ExecLemmas.v -- the error protocol of the modelled content executor (C07). *)
From V Require Import Base NameMatch Chart Exec TraceLemmas.
Local Open Scope N_scope.

Definition is_plat (e : event) : bool := match ev_kind e with EvPlatform => true | _ => false end.
Definition n_plat (x : xstate) : nat := length (filter is_plat (x_iq x)).

(* the internal queue only grows, at its end *)
Definition iq_extends (x x' : xstate) : Prop := exists new, x_iq x' = x_iq x ++ new.

Lemma iq_extends_refl x : iq_extends x x.
Proof. exists []. now rewrite app_nil_r. Qed.
Lemma iq_extends_trans x y z : iq_extends x y -> iq_extends y z -> iq_extends x z.
Proof. intros (a & Ha) (b & Hb). exists (a ++ b). now rewrite Hb, Ha, app_assoc. Qed.
Lemma iq_extends_same x x' : x_iq x' = x_iq x -> iq_extends x x'.
Proof. intros H. exists []. now rewrite app_nil_r. Qed.
Lemma iq_extends_emit t x : iq_extends x (emit t x).
Proof. now apply iq_extends_same. Qed.
Lemma iq_extends_raise_int e x : iq_extends x (raise_int e x).
Proof. exists [e]. reflexivity. Qed.
Lemma iq_extends_raise_ext e x : iq_extends x (raise_ext e x).
Proof. now apply iq_extends_same. Qed.
Lemma iq_extends_set_store s x : iq_extends x (set_store s x).
Proof. now apply iq_extends_same. Qed.

Lemma n_plat_emit t x : n_plat (emit t x) = n_plat x. Proof. reflexivity. Qed.
Lemma n_plat_raise_ext e x : n_plat (raise_ext e x) = n_plat x. Proof. reflexivity. Qed.
Lemma n_plat_set_store s x : n_plat (set_store s x) = n_plat x. Proof. reflexivity. Qed.
Lemma n_plat_raise_int e x : n_plat (raise_int e x) = (n_plat x + if is_plat e then 1 else 0)%nat.
Proof.
  unfold n_plat, raise_int. cbn [x_iq]. rewrite filter_app, app_length. cbn [filter].
  destruct (is_plat e); reflexivity.
Qed.

Section Proto.
Variable inst : N -> bool.

(* whether a block runs to its end *)
Fixpoint exec_block_ok (b : block) (x : xstate) : bool * xstate :=
  match b with
  | [] => (true, x)
  | i :: r => let '(ok, x') := exec_instr ex_fixed inst i x in
              if ok then exec_block_ok r x' else (false, x')
  end.

Lemma exec_block_is_snd b : forall x, exec_block ex_fixed inst b x = snd (exec_block_ok b x).
Proof.
  induction b as [|i r IH]; intros x; cbn [exec_block exec_block_ok]; [reflexivity|].
  destruct (exec_instr ex_fixed inst i x) as [ok x']. destruct ok; [apply IH | reflexivity].
Qed.

(* a failing element ends its block: whatever follows it in the block is not executed *)
Lemma rest_of_block_skipped_lemma a b x :
  fst (exec_block_ok a x) = false ->
  exec_block ex_fixed inst (a ++ b) x = exec_block ex_fixed inst a x.
Proof.
  revert x. induction a as [|i r IH]; intros x H; cbn in H; [discriminate|].
  cbn [app exec_block]. cbn [exec_block_ok] in H.
  destruct (exec_instr ex_fixed inst i x) as [ok x']. destruct ok; [now apply IH | reflexivity].
Qed.

(* ... and if no element fails, the rest runs from the state the prefix left *)
Lemma block_continues_lemma a b x :
  fst (exec_block_ok a x) = true ->
  exec_block ex_fixed inst (a ++ b) x = exec_block ex_fixed inst b (exec_block ex_fixed inst a x).
Proof.
  revert x. induction a as [|i r IH]; intros x H; cbn [app exec_block]; [reflexivity|].
  cbn [exec_block_ok] in H.
  destruct (exec_instr ex_fixed inst i x) as [ok x']. destruct ok; [now apply IH | discriminate].
Qed.

(* the element kinds without children: an element that fails enqueues exactly one platform error event,
   one that succeeds none *)
Definition leaf (i : instr) : bool := match i with IIf _ _ _ => false | _ => true end.

Lemma leaf_one_error_lemma i x :
  leaf i = true ->
  let '(ok, x') := exec_instr ex_fixed inst i x in
  n_plat x' = (n_plat x + if ok then 0 else 1)%nat.
Proof.
  destruct i; cbn [leaf]; intros H; try discriminate; cbn [exec_instr].
  - rewrite n_plat_emit, n_plat_raise_int, n_plat_emit. reflexivity.
  - rewrite n_plat_emit, n_plat_raise_ext, n_plat_emit. lia.
  - unfold fail_elem. rewrite n_plat_emit, n_plat_raise_int, n_plat_emit. reflexivity.
  - unfold fail_elem. rewrite n_plat_emit, n_plat_raise_int, n_plat_emit. reflexivity.
  - destruct (ieval _ _).
    + rewrite !n_plat_emit. lia.
    + unfold fail_elem. rewrite n_plat_emit, n_plat_raise_int, n_plat_emit. reflexivity.
  - destruct (ieval _ _); [destruct (lookup _ _)|].
    + rewrite n_plat_emit, n_plat_set_store, n_plat_emit. lia.
    + unfold fail_elem. rewrite n_plat_emit, n_plat_raise_int, n_plat_emit. reflexivity.
    + unfold fail_elem. rewrite n_plat_emit, n_plat_raise_int, n_plat_emit. reflexivity.
Qed.

(* any reflexive, transitive relation between execution states that every primitive step respects is
   respected by every element of executable content *)
Section Rel.
Variable R : xstate -> xstate -> Prop.
Hypothesis Rrefl : forall x, R x x.
Hypothesis Rtrans : forall x y z, R x y -> R y z -> R x z.
Hypothesis Remit : forall t x, R x (emit t x).
Hypothesis Rint : forall e x, R x (raise_int e x).
Hypothesis Rext : forall e x, R x (raise_ext e x).
Hypothesis Rstore : forall s x, R x (set_store s x).

Lemma is_true_rel c x : R x (snd (is_true inst c x)).
Proof. unfold is_true. destruct (beval _ _ _); cbn [snd]; [apply Rrefl | apply Rint]. Qed.

Lemma fail_elem_rel vid e x : R x (snd (fail_elem vid e x)).
Proof. unfold fail_elem. cbn [snd]. eapply Rtrans; [apply Rint | apply Remit]. Qed.

Lemma exec_instr_rel i : forall y, R y (snd (exec_instr ex_fixed inst i y)).
Proof.
  induction i using instr_ind2 with
    (Q := fun it => match it with
                    | FInstr j => forall y, R y (snd (exec_instr ex_fixed inst j y))
                    | _ => True
                    end); try exact I; intros y.
  - cbn [exec_instr snd]. eapply Rtrans; [apply Remit|]. eapply Rtrans; [apply Rint | apply Remit].
  - cbn [exec_instr snd]. eapply Rtrans; [apply Remit|]. eapply Rtrans; [apply Rext | apply Remit].
  - cbn [exec_instr]. eapply Rtrans; [apply Remit | apply fail_elem_rel].
  - cbn [exec_instr]. eapply Rtrans; [apply Remit | apply fail_elem_rel].
  - cbn [exec_instr]. eapply Rtrans; [apply Remit|]. destruct (ieval _ _).
    + cbn [snd]. eapply Rtrans; apply Remit.
    + apply fail_elem_rel.
  - cbn [exec_instr]. eapply Rtrans; [apply Remit|]. destruct (ieval _ _); [destruct (lookup _ _)|].
    + cbn [snd]. eapply Rtrans; [apply Rstore | apply Remit].
    + apply fail_elem_rel.
    + apply fail_elem_rel.
  - rewrite exec_if_unfold. cbn zeta.
    assert (Hitems : forall l, Forall (fun it => match it with
                    | FInstr j => forall y, R y (snd (exec_instr ex_fixed inst j y))
                    | _ => True end) l ->
             forall b z, R z (snd (if_items inst l b z))).
    { induction l as [|it r IHl]; intros HF b z; cbn [if_items]; [apply Rrefl|].
      inversion HF as [|? ? Hit Hr]; subst. destruct it as [c'| |j].
      - destruct b; [apply Rrefl|].
        destruct (is_true inst c' z) as [b' z'] eqn:E.
        eapply Rtrans; [|apply IHl; assumption].
        replace z' with (snd (is_true inst c' z)) by (now rewrite E). apply is_true_rel.
      - destruct b; [apply Rrefl | now apply IHl].
      - destruct b; [|now apply IHl].
        destruct (exec_instr ex_fixed inst j z) as [ok z'] eqn:E.
        assert (He : R z z') by (replace z' with (snd (exec_instr ex_fixed inst j z)) by (now rewrite E); apply Hit).
        destruct ok; [eapply Rtrans; [exact He | now apply IHl] | exact He]. }
    destruct (is_true inst c (emit (TCb v) y)) as [b0 x2] eqn:E1.
    destruct (if_items inst body b0 x2) as [ok x3] eqn:E2.
    assert (Ha : R y (emit (TCb v) y)) by apply Remit.
    assert (Hb : R (emit (TCb v) y) x2).
    { replace x2 with (snd (is_true inst c (emit (TCb v) y))) by (now rewrite E1). apply is_true_rel. }
    assert (Hc : R x2 x3).
    { replace x3 with (snd (if_items inst body b0 x2)) by (now rewrite E2). now apply Hitems. }
    destruct ok; cbn [snd]; (eapply Rtrans; [exact Ha|]; eapply Rtrans; [exact Hb|]; eapply Rtrans; [exact Hc | apply Remit]).
  - now apply IHi.
Qed.

Lemma exec_block_rel b : forall x, R x (exec_block ex_fixed inst b x).
Proof.
  induction b as [|i r IH]; intros x; cbn [exec_block]; [apply Rrefl|].
  destruct (exec_instr ex_fixed inst i x) as [ok x'] eqn:E.
  assert (He : R x x') by (replace x' with (snd (exec_instr ex_fixed inst i x)) by (now rewrite E); apply exec_instr_rel).
  destruct ok; [eapply Rtrans; [exact He | apply IH] | exact He].
Qed.
End Rel.

(* events already in the internal queue keep their place; error events and raised events are appended in
   the order in which they occur *)
Lemma exec_block_iq b x : iq_extends x (exec_block ex_fixed inst b x).
Proof.
  apply (exec_block_rel iq_extends iq_extends_refl iq_extends_trans iq_extends_emit iq_extends_raise_int
                        iq_extends_raise_ext iq_extends_set_store).
Qed.

Definition plat_mono (x x' : xstate) : Prop := (n_plat x <= n_plat x')%nat.

Lemma exec_instr_plat_mono i y : plat_mono y (snd (exec_instr ex_fixed inst i y)).
Proof.
  apply (exec_instr_rel plat_mono); unfold plat_mono; intros.
  - lia.
  - lia.
  - now rewrite n_plat_emit.
  - rewrite n_plat_raise_int. lia.
  - now rewrite n_plat_raise_ext.
  - now rewrite n_plat_set_store.
Qed.

(* a failure (the element does not complete) always leaves at least one more platform error event *)
Lemma exec_instr_fail_raises i : forall y,
  fst (exec_instr ex_fixed inst i y) = false ->
  (n_plat y < n_plat (snd (exec_instr ex_fixed inst i y)))%nat.
Proof.
  induction i using instr_ind2 with
    (Q := fun it => match it with
                    | FInstr j => forall y, fst (exec_instr ex_fixed inst j y) = false ->
                                            (n_plat y < n_plat (snd (exec_instr ex_fixed inst j y)))%nat
                    | _ => True
                    end); try exact I; intros y.
  1-6: match goal with
       | |- fst (exec_instr ex_fixed inst ?i ?z) = false -> _ =>
         pose proof (leaf_one_error_lemma i z eq_refl) as HL;
         destruct (exec_instr ex_fixed inst i z) as [ok x']; cbn [fst snd]; intros ->; lia
       end.
  - rewrite exec_if_unfold. cbn zeta.
    assert (Hitems : forall l, Forall (fun it => match it with
                    | FInstr j => forall y, fst (exec_instr ex_fixed inst j y) = false ->
                                            (n_plat y < n_plat (snd (exec_instr ex_fixed inst j y)))%nat
                    | _ => True end) l ->
             forall b z, fst (if_items inst l b z) = false -> (n_plat z < n_plat (snd (if_items inst l b z)))%nat).
    { induction l as [|it r IHl]; intros HF b z; cbn [if_items]; [discriminate|].
      inversion HF as [|? ? Hit Hr]; subst. destruct it as [c'| |j].
      - destruct b; [discriminate|].
        destruct (is_true inst c' z) as [b' z'] eqn:E. intros Hf.
        pose proof (is_true_rel plat_mono ltac:(unfold plat_mono; lia) ltac:(unfold plat_mono; intros; rewrite n_plat_raise_int; lia) c' z) as Hm.
        rewrite E in Hm. cbn [snd] in Hm. unfold plat_mono in Hm.
        specialize (IHl Hr b' z' Hf). lia.
      - destruct b; [discriminate | now apply IHl].
      - destruct b; [|now apply IHl].
        destruct (exec_instr ex_fixed inst j z) as [ok z'] eqn:E. destruct ok.
        + intros Hf. specialize (IHl Hr true z' Hf).
          pose proof (exec_instr_plat_mono j z) as Hm. rewrite E in Hm. unfold plat_mono in Hm. cbn [snd] in Hm. lia.
        + intros _. cbn [snd]. specialize (Hit z). rewrite E in Hit. cbn [fst snd] in Hit. now apply Hit. }
    destruct (is_true inst c (emit (TCb v) y)) as [b0 x2] eqn:E1.
    destruct (if_items inst body b0 x2) as [ok x3] eqn:E2.
    destruct ok; cbn [fst snd]; [discriminate|]. intros _.
    pose proof (is_true_rel plat_mono ltac:(unfold plat_mono; lia) ltac:(unfold plat_mono; intros; rewrite n_plat_raise_int; lia) c (emit (TCb v) y)) as Hm.
    rewrite E1 in Hm. cbn [snd] in Hm. unfold plat_mono in Hm. rewrite n_plat_emit in Hm.
    specialize (Hitems body H b0 x2). rewrite E2 in Hitems. cbn [fst snd] in Hitems.
    rewrite n_plat_emit. specialize (Hitems eq_refl). lia.
  - now apply IHi.
Qed.

End Proto.
