(* TablesFlattenTrans.v -- C05: the per-transition tables of Chart.flatten + Large.domain / exit_interval /
   Fast.fconflicts against Tables.Impl_tables (Predicates.cpp getTransitionDomain, getExitSet, conflicts):
   order, source, targets, domain, exit set, conflict bit.  Proofs only. *)
From V Require Import Base Chart Large Fast CGen Tables TreeLemmas TablesLemmas SetLemmas LargeCacheLemmas
  FlattenWfTree FlattenWfStruct TablesFlatten TablesFlattenLemmas.
From Coq Require Import Sorted.
Local Open Scope nat_scope.

Lemma tf_map_flat_map {A B C} (g : B -> C) (f : A -> list B) l : map g (flat_map f l) = flat_map (fun x => map g (f x)) l.
Proof. induction l as [|x l IH]; [reflexivity|]. cbn [flat_map]. rewrite map_app, IH. reflexivity. Qed.

Lemma tf_map_combine_seq {A B} (h : A -> B) (tl : list A) : forall s,
  map (fun p : nat * A => h (snd p)) (combine (seq s (length tl)) tl) = map h tl.
Proof. induction tl as [|x tl IH]; intros s; [reflexivity|]. cbn [length seq combine map snd]. rewrite IH. reflexivity. Qed.

Section Trans.
Variable late : bool.
Variable t0 : tree.
Local Notation root := (resort t0).
Local Notation c := (flatten late t0).
Local Notation n := (tsize (resort t0)).
Local Notation nodes := (nodes_of (resort t0)).
Local Notation ids := (fl_ids t0).
Variable chains : list (list nat).
Hypothesis Hch : chains_of nodes = Some chains.

Local Notation trs := (postfix_trans nodes root).

(* the flat transition made from the <transition> x = (element, position, transition) *)
Definition ftr (x : nat * nat * ttrans) : ftrans :=
  mk_trans ids (fst (fst x)) (nkind nodes (fst (fst x))) (snd x).

Lemma tf_all_trans :
  all_trans (doc_nodes root 0 None) root = map (fun x => (fst (fst x), snd x, nkind nodes (fst (fst x)))) trs.
Proof.
  unfold all_trans, postfix_trans. rewrite tf_map_flat_map. apply flat_map_ext_in. intros i Hi.
  apply postfix_states_lt in Hi. cbn zeta. rewrite map_map. cbn [fst snd].
  unfold nkind, ntree, nd. rewrite (nth_indep (nodes_of root) (dummy_tree, None) (root, None)) by (rewrite nodes_length; exact Hi).
  unfold nodes_of.
  rewrite (tf_map_combine_seq (fun x => (i, x, t_kind (fst (nth i (doc_nodes root 0 None) (root, None)))))). reflexivity.
Qed.

(* transition order: the flat transition table is the transpilers' post-fix list, transition by transition *)
Lemma tf_fc_trans : fc_trans c = map ftr trs.
Proof.
  unfold flatten. cbn [fc_trans]. rewrite tf_all_trans, map_map. apply map_ext. intros x. reflexivity.
Qed.

Lemma tf_trans_in x : In x trs -> fst (fst x) < n /\ In (snd x) (t_trans (ntree nodes (fst (fst x)))).
Proof.
  intros Hx. split; [apply (postfix_trans_source_lt root x Hx)|].
  unfold postfix_trans in Hx. apply in_flat_map in Hx. destruct Hx as (i & Hi & Hx). apply postfix_states_lt in Hi.
  cbn zeta in Hx. apply in_map_iff in Hx. destruct Hx as ([q1 q2] & <- & Hq). cbn [fst snd]. apply in_combine_r in Hq.
  unfold ntree, nd. rewrite (nth_indep (nodes_of root) (dummy_tree, None) (root, None)) by (rewrite nodes_length; exact Hi).
  exact Hq.
Qed.

(* getSourceState against CGen.eff_source *)
Lemma tf_eff_source x : fst (fst x) < n ->
  ft_source (eff_source c (ftr x)) = source_state nodes (fst (fst x)) /\
  ft_targets (eff_source c (ftr x)) = ft_targets (ftr x) /\
  ft_internal (eff_source c (ftr x)) = tt_internal (snd x).
Proof.
  intros He. unfold eff_source, ftr, source_state. cbn [mk_trans ft_initial ft_source].
  rewrite (tf_parent late t0 _ He).
  destruct (nkind nodes (fst (fst x))); cbn [ft_source ft_targets ft_internal mk_trans]; repeat split; reflexivity.
Qed.

Hypothesis Hwf : wf_doc root = true.
Hypothesis Hrefs : tf_refs_ok root = true.

(* target lists: id by id the same state *)
Lemma tf_targets x : In x trs -> ft_targets (ftr x) = target_states nodes (snd x).
Proof.
  intros Hx. destruct (tf_trans_in x Hx) as [He Ht]. unfold ftr, target_states. cbn [mk_trans ft_targets].
  destruct (tt_targets (snd x)) as [l|] eqn:Hl; [|reflexivity].
  apply (tf_resolve_targets t0 Hrefs _ _ l He Ht Hl).
Qed.

Lemma tf_target_bools x : In x trs ->
  impl_target_bools nodes (snd x) =
  if ft_targetless (ftr x) then None else Some (bits_of_set n (ft_targets (ftr x))).
Proof.
  intros Hx. rewrite (target_bools_spec root), (tf_targets x Hx). unfold ftr. cbn [mk_trans ft_targetless].
  destruct (tt_targets (snd x)) as [l|] eqn:Hl; [|reflexivity]. f_equal.
  unfold set_bools, bits_of_set. rewrite (br_sidx root). apply map_ext. intros j.
  apply bool_eq_iff. rewrite !mem_In. symmetry. apply (target_states_set root Hwf).
Qed.

(* ------------------------------------------------------------------ transition domain *)

Lemma tf_wf_leaves : wf_leaves root = true.
Proof. apply (wf_parts root Hwf). Qed.

Lemma tf_domain x : In x trs -> source_state nodes (fst (fst x)) <> 0 ->
  domain c (eff_source c (ftr x)) = impl_domain nodes chains (fst (fst x)) (snd x).
Proof.
  intros Hx Hs0. destruct (tf_trans_in x Hx) as [He Ht].
  destruct (tf_eff_source x He) as (Esrc & Etg & Eint).
  unfold domain, impl_domain. rewrite Esrc, Etg, Eint, (tf_targets x Hx).
  pose proof (source_state_lt root _ He) as Hs. set (s := source_state nodes (fst (fst x))) in *.
  pose proof (target_states_lt root Hwf (snd x)) as Hlt.
  destruct (target_states nodes (snd x)) as [|y ts] eqn:Hts; [reflexivity|].
  set (tg := y :: ts) in *.
  assert (Hall : forall a, forallb (fun x0 => mem a (fs_ancestors (st c x0))) tg = forallb (fun x0 => is_desc chains x0 a) tg).
  { intros a. apply forallb_set_ext; [reflexivity|]. intros z Hz. apply (tf_anc late t0 chains Hch). apply Hlt. exact Hz. }
  rewrite Hall, (tf_is_comp late t0 s tf_wf_leaves Hs).
  destruct (tt_internal (snd x) && is_compound nodes s && forallb (fun x0 => is_desc chains x0 s) tg); [reflexivity|].
  unfold find_lcca. rewrite (proper_ancestors_chain root chains Hch Hwf s Hs).
  destruct (chain_facts root chains Hch s Hs) as (Hin & Hsort & Hzero).
  rewrite (tf_find_desc_ext
             (fun a => is_comp (fs_type (st c a)) && forallb (fun x0 => mem a (fs_ancestors (st c x0))) tg)
             (fun a => is_compound nodes a && forallb (fun s0 => is_desc chains s0 a) (s :: tg))
             (rev (fs_ancestors (st c s))) (nchain chains s)).
  - destruct (find _ (nchain chains s)) as [a|]; [reflexivity|].
    specialize (Hzero Hs0). destruct (nchain chains s) as [|a0 l0] eqn:Hl; [destruct Hzero|].
    rewrite (last_sorted_desc_zero (a0 :: l0) Hsort Hzero). reflexivity.
  - apply tf_ssorted_rev_desc. apply (tf_anc_ssorted late t0 s Hs).
  - exact Hsort.
  - intros a. rewrite <- in_rev, <- mem_In, (tf_anc late t0 chains Hch a s Hs). unfold is_desc. apply mem_In.
  - intros a Ha. rewrite <- in_rev, <- mem_In, (tf_anc late t0 chains Hch a s Hs) in Ha.
    assert (Han : a < n) by (apply (tf_anc_lt t0 chains Hch a s Hs Ha)).
    rewrite Hall, (tf_is_comp late t0 a tf_wf_leaves Han). cbn [forallb]. rewrite Ha. reflexivity.
Qed.

(* the domain, when there is one, is a node, and it is compound or the root *)
Lemma tf_domain_facts x d : In x trs ->
  domain c (eff_source c (ftr x)) = Some d -> d < n /\ (is_comp (fs_type (st c d)) = true \/ d = 0).
Proof.
  intros Hx. destruct (tf_trans_in x Hx) as [He _]. destruct (tf_eff_source x He) as (Esrc & _ & _).
  pose proof (source_state_lt root _ He) as Hs. unfold domain. rewrite Esrc.
  set (s := source_state nodes (fst (fst x))) in *. set (tg := ft_targets (eff_source c (ftr x))).
  destruct tg as [|y ts]; [discriminate|].
  destruct (ft_internal _ && is_comp (fs_type (st c s)) && _) eqn:Hc.
  - intros E. inversion E; subst d. rewrite !andb_true_iff in Hc. split; [exact Hs | left; apply Hc].
  - destruct (find _ (rev (fs_ancestors (st c s)))) as [a|] eqn:Hf.
    + intros E. inversion E; subst d. apply find_some in Hf. destruct Hf as [Hin Hp].
      rewrite <- in_rev, <- mem_In, (tf_anc late t0 chains Hch a s Hs) in Hin. rewrite andb_true_iff in Hp.
      split; [apply (tf_anc_lt t0 chains Hch a s Hs Hin) | left; apply Hp].
    + intros E. inversion E. pose proof (tsize_pos root). split; [lia | right; reflexivity].
Qed.

(* ------------------------------------------------------------------ exit set *)

Lemma tf_exit_mem x j : In x trs -> source_state nodes (fst (fst x)) <> 0 -> j < n ->
  mem j (impl_exit_list nodes chains (fst (fst x)) (snd x)) =
  match domain c (eff_source c (ftr x)) with
  | Some d => (d <? j) && (j <? d + fs_size (st c d)) && negb (is_pseudo (fs_type (st c j)))
  | None => false
  end.
Proof.
  intros Hx Hs0 Hj. destruct (tf_trans_in x Hx) as [He _].
  rewrite (impl_exit_spec root chains Hch Hwf _ _ j He Hj). unfold spec_exit.
  rewrite <- (impl_domain_spec root chains Hch Hwf _ _ He), <- (tf_domain x Hx Hs0).
  destruct (domain c (eff_source c (ftr x))) as [d|] eqn:Hd; [|reflexivity].
  destruct (tf_domain_facts x d Hx Hd) as [Hdn _].
  rewrite (br_sidx root), mem_filter_seq by (apply in_seq; lia).
  rewrite (br_anc root chains Hch d j Hdn Hj). unfold spec_proper. rewrite (br_kind root j Hj).
  rewrite (tf_pseudo late t0 j Hj), (tf_size late t0 d Hdn). unfold is_proper_kind. f_equal.
  apply bool_eq_iff. rewrite (tf_anc_interval late t0 chains Hch d j Hdn Hj), andb_true_iff, !Nat.ltb_lt. reflexivity.
Qed.

Lemma tf_exit_bits x : In x trs -> source_state nodes (fst (fst x)) <> 0 ->
  bools_of nodes (impl_exit_list nodes chains (fst (fst x)) (snd x)) =
  exit_bits c (exit_interval lg_fixed c (eff_source c (ftr x))).
Proof.
  intros Hx Hs0. unfold bools_of, exit_bits. rewrite (br_idx root), (tf_nstates late t0).
  apply map_ext_in. intros j Hj. apply in_seq in Hj. rewrite (tf_exit_mem x j Hx Hs0) by lia.
  unfold exit_interval. destruct (domain c (eff_source c (ftr x))) as [d|] eqn:Hd; [|reflexivity].
  cbn [lg_exit_overreach lg_fixed andb fst snd].
  destruct (tf_domain_facts x d Hx Hd) as [Hdn _].
  destruct (tree_interval_flatten late t0) as (_ & Hsz & _). specialize (Hsz d Hdn).
  f_equal. apply bool_eq_iff. rewrite !andb_true_iff, !Nat.ltb_lt, !Nat.leb_le, negb_true_iff, Nat.eqb_neq. lia.
Qed.

(* ------------------------------------------------------------------ conflict bit *)

Lemma tf_desc_trans a b d : a < n -> is_desc chains a b = true -> is_desc chains b d = true -> is_desc chains a d = true.
Proof.
  intros Ha H1 H2. assert (Hb : b < n) by (apply (tf_anc_lt t0 chains Hch b a Ha H1)).
  apply (is_desc_prefix root chains Hch a b Ha) in H1. apply (is_desc_prefix root chains Hch b d Hb) in H2.
  apply (is_desc_prefix root chains Hch a d Ha). split; [apply H2|].
  apply (proper_prefix_trans _ (pth_of root b)); [apply H2 | apply H1].
Qed.

(* the blocks of the numbering are laminar *)
Lemma tf_laminar a b : a < n -> b < n -> a <= b -> b < a + fs_size (st c a) ->
  b + fs_size (st c b) <= a + fs_size (st c a).
Proof.
  intros Ha Hb Hab Hlt. destruct (Nat.eq_dec a b) as [->|Hne]; [lia|].
  destruct (tree_interval_flatten late t0) as (_ & Hsz & _). pose proof (Hsz b Hb) as [Hb1 Hb2].
  destruct (Nat.eq_dec (fs_size (st c b)) 1) as [E|E]; [lia|].
  set (j := b + fs_size (st c b) - 1). assert (Hjn : j < n) by (unfold j; lia).
  assert (H1 : is_desc chains b a = true).
  { apply (tf_anc_interval late t0 chains Hch a b Ha Hb). rewrite <- (tf_size late t0 a Ha). lia. }
  assert (H2 : is_desc chains j b = true).
  { apply (tf_anc_interval late t0 chains Hch b j Hb Hjn). rewrite <- (tf_size late t0 b Hb). unfold j. lia. }
  pose proof (tf_desc_trans j b a Hjn H2 H1) as H3.
  apply (tf_anc_interval late t0 chains Hch a j Ha Hjn) in H3. rewrite <- (tf_size late t0 a Ha) in H3. unfold j in H3. lia.
Qed.

Hypothesis Hrc : tf_root_compound root = true.

(* a transition domain has a proper state strictly below it *)
Lemma tf_domain_child x d : In x trs -> domain c (eff_source c (ftr x)) = Some d ->
  exists k, d < k /\ k < d + fs_size (st c d) /\ k < n /\ is_pseudo (fs_type (st c k)) = false.
Proof.
  intros Hx Hd. destruct (tf_domain_facts x d Hx Hd) as [Hdn Hk].
  assert (Hpc : has_proper_child (ntree nodes d) = true).
  { destruct Hk as [Hk | ->].
    - rewrite (tf_type late t0 d Hdn) in Hk. unfold type_of in Hk.
      destruct (t_kind (ntree nodes d)); try discriminate; destruct (has_proper_child (ntree nodes d)); try discriminate; reflexivity.
    - rewrite (ntree_root root). exact Hrc. }
  rewrite (tf_has_proper_child late t0 d Hdn) in Hpc.
  destruct (child_states nodes d) as [|k l] eqn:Hcs; [discriminate|].
  assert (Hin : In k (child_states nodes d)) by (rewrite Hcs; left; reflexivity).
  unfold child_states in Hin. rewrite filter_In, (br_idx root), in_seq, andb_true_iff in Hin. destruct Hin as [Hkn [Hp Hks]].
  assert (Hkn' : k < n) by lia. exists k.
  assert (Hpar : fs_parent (st c k) = Some d).
  { rewrite (tf_parent late t0 k Hkn'). destruct (npar nodes k) as [q|]; [|discriminate]. cbn in Hp. apply Nat.eqb_eq in Hp. congruence. }
  destruct (tree_interval_flatten late t0) as (_ & _ & _ & Hp4 & _). destruct (Hp4 d k Hkn' Hpar) as [H1 H2].
  repeat split; try assumption. rewrite (tf_pseudo late t0 k Hkn'). unfold k_state, is_proper_kind in Hks.
  apply negb_true_iff in Hks. exact Hks.
Qed.

Lemma tf_conflicts_intersects x y : In x trs -> In y trs ->
  source_state nodes (fst (fst x)) <> 0 -> source_state nodes (fst (fst y)) <> 0 ->
  intersects (impl_exit_list nodes chains (fst (fst x)) (snd x)) (impl_exit_list nodes chains (fst (fst y)) (snd y)) =
  conflicts lg_fixed c (eff_source c (ftr x)) (eff_source c (ftr y)).
Proof.
  intros Hx Hy Hsx Hsy. destruct (tf_trans_in x Hx) as [Hex _]. destruct (tf_trans_in y Hy) as [Hey _].
  pose proof (fun j => impl_exit_in_range root chains Hch Hwf (fst (fst x)) (snd x) j Hex) as Hrx.
  pose proof (fun j => impl_exit_in_range root chains Hch Hwf (fst (fst y)) (snd y) j Hey) as Hry.
  pose proof (fun j => tf_exit_mem x j Hx Hsx) as Mx. pose proof (fun j => tf_exit_mem y j Hy Hsy) as My.
  unfold conflicts, exit_interval. cbn [lg_exit_overreach lg_fixed andb].
  set (ex := impl_exit_list nodes chains (fst (fst x)) (snd x)) in *.
  set (ey := impl_exit_list nodes chains (fst (fst y)) (snd y)) in *.
  apply bool_eq_iff. unfold intersects. rewrite existsb_exists.
  destruct (tree_interval_flatten late t0) as (_ & Hsz & _).
  destruct (domain c (eff_source c (ftr x))) as [dx|] eqn:Hdx; destruct (domain c (eff_source c (ftr y))) as [dy|] eqn:Hdy.
  2:{ cbn. split; [|discriminate]. intros (j & Hj & Hm). pose proof (Hrx j Hj) as Hjn.
      rewrite (My j Hjn) in Hm. discriminate. }
  2:{ cbn. split; [|discriminate]. intros (j & Hj & _). pose proof (Hrx j Hj) as Hjn. apply mem_In in Hj. rewrite (Mx j Hjn) in Hj. discriminate. }
  2:{ cbn. split; [|discriminate]. intros (j & Hj & _). pose proof (Hrx j Hj) as Hjn. apply mem_In in Hj. rewrite (Mx j Hjn) in Hj. discriminate. }
  destruct (tf_domain_facts x dx Hx Hdx) as [Hdxn _]. destruct (tf_domain_facts y dy Hy Hdy) as [Hdyn _].
  pose proof (Hsz dx Hdxn) as [Hx1 Hx2]. pose proof (Hsz dy Hdyn) as [Hy1 Hy2].
  cbn [negb Nat.eqb andb]. rewrite orb_true_iff, !andb_true_iff, !Nat.leb_le. split.
  - intros (j & Hj & Hm). pose proof (Hrx j Hj) as Hjn. apply mem_In in Hj. rewrite (Mx j Hjn) in Hj. rewrite (My j Hjn) in Hm.
    rewrite !andb_true_iff, !Nat.ltb_lt in Hj, Hm. lia.
  - intros Hc.
    assert (Hcase : (dx <= dy /\ dy < dx + fs_size (st c dx)) \/ (dy <= dx /\ dx < dy + fs_size (st c dy))) by lia.
    destruct Hcase as [[H1 H2] | [H1 H2]].
    + destruct (tf_domain_child y dy Hy Hdy) as (k & K1 & K2 & K3 & K4).
      pose proof (tf_laminar dx dy Hdxn Hdyn H1 H2) as Hlam.
      exists k. split.
      * apply mem_In. rewrite (Mx k K3), K4, !andb_true_iff, !Nat.ltb_lt. repeat split; [lia | lia].
      * rewrite (My k K3), K4, !andb_true_iff, !Nat.ltb_lt. repeat split; [lia | lia].
    + destruct (tf_domain_child x dx Hx Hdx) as (k & K1 & K2 & K3 & K4).
      pose proof (tf_laminar dy dx Hdyn Hdxn H1 H2) as Hlam.
      exists k. split.
      * apply mem_In. rewrite (Mx k K3), K4, !andb_true_iff, !Nat.ltb_lt. repeat split; [lia | lia].
      * rewrite (My k K3), K4, !andb_true_iff, !Nat.ltb_lt. repeat split; [lia | lia].
Qed.

Lemma tf_conflict_bit x y : In x trs -> In y trs ->
  source_state nodes (fst (fst x)) <> 0 -> source_state nodes (fst (fst y)) <> 0 ->
  intersects (impl_exit_list nodes chains (fst (fst x)) (snd x)) (impl_exit_list nodes chains (fst (fst y)) (snd y)) ||
  (source_state nodes (fst (fst x)) =? source_state nodes (fst (fst y))) ||
  is_desc chains (source_state nodes (fst (fst x))) (source_state nodes (fst (fst y))) ||
  is_desc chains (source_state nodes (fst (fst y))) (source_state nodes (fst (fst x))) =
  fconflicts c (eff_source c (ftr x)) (eff_source c (ftr y)).
Proof.
  intros Hx Hy Hsx Hsy. destruct (tf_trans_in x Hx) as [Hex _]. destruct (tf_trans_in y Hy) as [Hey _].
  unfold fconflicts. rewrite (tf_conflicts_intersects x y Hx Hy Hsx Hsy).
  destruct (tf_eff_source x Hex) as (-> & _ & _). destruct (tf_eff_source y Hey) as (-> & _ & _).
  rewrite !(tf_anc late t0 chains Hch) by (apply source_state_lt; assumption). reflexivity.
Qed.

End Trans.

(* ------------------------------------------------------------------ the side conditions give: no transition has the root as source state *)

Section SourceNotRoot.
Variable t0 : tree.
Local Notation root := (resort t0).

Lemma tf_source_not_root x :
  wf_doc root = true -> tf_root_no_trans root = true -> tf_root_no_initial root = true ->
  In x (postfix_trans (nodes_of root) root) -> source_state (nodes_of root) (fst (fst x)) <> 0.
Proof.
  intros Hwf Hnt Hni Hx. destruct (tf_trans_in t0 x Hx) as [He Ht].
  assert (He0 : fst (fst x) <> 0).
  { intros E. rewrite E, (ntree_root root) in Ht. unfold tf_root_no_trans in Hnt. destruct (t_trans root); [destruct Ht | discriminate]. }
  unfold source_state. destruct (nkind (nodes_of root) (fst (fst x))) eqn:Hk; try exact He0.
  destruct (npar (nodes_of root) (fst (fst x))) as [p|] eqn:Hp; [|exact He0]. intros ->.
  (* an <initial> child of the root *)
  unfold tf_root_no_initial in Hni. apply negb_true_iff in Hni.
  assert (Hex : existsb (fun k => match t_kind k with KInitial => true | _ => false end) (t_kids root) = true); [|congruence].
  pose proof (tsize_pos root) as Hpos.
  pose proof (tf_kids false t0 0 Hpos) as Hkids. rewrite (ntree_root root) in Hkids. rewrite <- Hkids.
  apply existsb_exists. exists (ntree (nodes_of root) (fst (fst x))). split.
  - apply in_map. unfold kidx. apply filter_In. split; [apply in_seq; lia|]. rewrite Hp. reflexivity.
  - unfold nkind in Hk. rewrite Hk. reflexivity.
Qed.

End SourceNotRoot.
