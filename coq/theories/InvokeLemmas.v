(* InvokeLemmas.v -- proofs about the C11 model (Invoke.v). *)
From V Require Import Base Invoke.
Local Open Scope nat_scope.

(* ------------------------------------------------------------------------------------------ *)
(** * (b) the parent / child protocol: invariants over all interleavings                        *)

Section ProtocolProofs.
  Variable W : nat.

  Inductive reachable : ist -> Prop :=
  | reach_init : reachable ist_init
  | reach_step : forall s l s', reachable s -> istep W s l = Some s' -> reachable s'.

  Lemma irun_reachable : forall ls s, reachable s -> reachable (fst (irun W s ls)).
  Proof.
    induction ls as [|l r IH]; intros s Hs; simpl; auto.
    destruct (istep W s l) as [s'|] eqn:E; simpl; auto.
    specialize (IH s' (reach_step _ _ _ Hs E)).
    destruct (irun W s' r) as [t [k|]]; simpl in *; auto.
  Qed.

  Definition past_u1 (p : ppc) : bool :=
    match p with PU2 | PU3 | PU3b | PU4 | PRet => true | _ => false end.
  Definition past_mark (p : ppc) : bool :=
    match p with PU3b | PU4 | PRet => true | _ => false end.
  Definition past_unblock (p : ppc) : bool :=
    match p with PU4 | PRet => true | _ => false end.
  Definition past_loop (c : cpc) : bool :=
    match c with C2 | C3 | C4 | CEnd => true | _ => false end.

  Lemma count_done_app : forall a b, count_done (a ++ b) = count_done a + count_done b.
  Proof. intros; unfold count_done; rewrite filter_app, app_length; reflexivity. Qed.

  Lemma msgs_app : forall a b, msgs (a ++ b) = msgs a ++ msgs b.
  Proof. induction a as [|[|k] a IH]; intros; simpl; rewrite ?IH; reflexivity. Qed.

  (* invert one step: all the ways [istep] can return [Some] *)
  Ltac step_cases H :=
    unfold istep in H;
    repeat match type of H with
           | match ?x with _ => _ end = Some _ => destruct x eqn:?
           end;
    try discriminate H; inversion H; subst; clear H.

  Lemma in_done_count : forall q, In PDone q -> count_done q <> 0.
  Proof.
    intros q Hin Hc. unfold count_done in Hc. apply length_zero_iff_nil in Hc.
    assert (In PDone (filter pev_is_done q)) by (apply filter_In; split; auto).
    rewrite Hc in H. destruct H.
  Qed.

  Lemma done_last_snoc_msg : forall q k a b,
    (forall a' b', q = a' ++ PDone :: b' -> b' = []) -> count_done q = 0 ->
    q ++ [PMsg k] = a ++ PDone :: b -> b = [].
  Proof.
    intros q k a b Hq Hc H. exfalso.
    assert (In PDone (q ++ [PMsg k])) by (rewrite H; apply in_or_app; right; left; reflexivity).
    apply in_app_or in H0. destruct H0 as [H0|[H0|[]]]; try discriminate.
    apply in_done_count in H0. auto.
  Qed.

  Lemma done_last_snoc_done : forall q a b,
    count_done q = 0 -> q ++ [PDone] = a ++ PDone :: b -> b = [].
  Proof.
    intros q a b Hc H.
    destruct b as [|z b]; auto. exfalso.
    assert (Hin : In PDone q).
    { clear Hc. revert a H. induction q as [|y q IH]; intros a H.
      - destruct a as [|? [|? ?]]; simpl in *; discriminate.
      - destruct a as [|a0 a]; simpl in *; inversion H; subst.
        + left; reflexivity.
        + right. apply (IH a); auto. }
    apply in_done_count in Hin. auto.
  Qed.


  Ltac rw_all :=
    repeat match goal with
           | H : ?a = ?b |- _ => progress (rewrite H in * )
           end.
  Ltac fin :=
    simpl in *; rw_all; simpl in *;
    try discriminate; try congruence; try tauto; auto;
    try solve [intuition (try discriminate; try congruence)].

  (* P1 *)
  Definition I_active_false s := past_u1 (pp s) = true -> isActive s = false.
  Lemma I_active_false_step : forall s l s', istep W s l = Some s' -> I_active_false s -> I_active_false s'.
  Proof. unfold I_active_false; intros s l s' H I; destruct l; step_cases H; fin. Qed.

  (* P2 *)
  Definition I_p0 s := pp s = P0 <-> cp s = CNone.
  Lemma I_p0_step : forall s l s', istep W s l = Some s' -> I_p0 s -> I_p0 s'.
  Proof.
    unfold I_p0; intros s l s' H I; destruct l; step_cases H; fin.
    all: try (destruct (isActive s); fin).
    all: try (destruct (cancelled s); fin).
  Qed.

  (* P3 *)
  Definition I_active_true s := pp s = PRun -> cp s <> CEnd -> isActive s = true.
  Lemma I_active_true_step : forall s l s', istep W s l = Some s' -> I_active_true s -> I_active_true s'.
  Proof.
    unfold I_active_true; intros s l s' H I; destruct l; step_cases H; fin.
    all: try (destruct (isActive s); fin).
    all: try (destruct (cancelled s); fin).
  Qed.

  (* P4 *)
  Definition I_cancel s := cancelled s = true <-> past_mark (pp s) = true.
  Lemma I_cancel_step : forall s l s', istep W s l = Some s' -> I_cancel s -> I_cancel s'.
  Proof. unfold I_cancel; intros s l s' H I; destruct l; step_cases H; fin. Qed.

  (* P5 *)
  Definition I_unblock s := In CUnblock (cq s) -> past_unblock (pp s) = true.
  Lemma I_unblock_step : forall s l s', istep W s l = Some s' -> I_unblock s -> I_unblock s'.
  Proof.
    unfold I_unblock; intros s l s' H I; destruct l; step_cases H; fin.
    all: try solve [destruct (isActive s); fin; intros Hin; apply in_app_or in Hin; destruct Hin as [Hin|[Hin|[]]]; fin].
  Qed.

  (* P6 *)
  Definition I_token s := past_unblock (pp s) = true -> In CUnblock (cq s) \/ past_loop (cp s) = true.
  Lemma I_token_step : forall s l s', istep W s l = Some s' -> I_cancel s -> I_token s -> I_token s'.
  Proof.
    unfold I_token, I_cancel; intros s l s' H Ic I; destruct l; step_cases H; fin.
    all: try solve [intros Hx; left; apply in_or_app; right; left; reflexivity].
    all: try solve [intros Hx; destruct (I Hx) as [[?|?]|?]; fin].
    all: try solve [intros Hx; destruct (cancelled s) eqn:E; fin; destruct Ic as [_ Ic]; rewrite Ic in *; fin;
                    destruct (pp s); fin].
    all: try solve [destruct (isActive s); fin].
  Qed.

  (* P7 *)
  Definition I_saw s :=
    match cp s with
    | CNone | CBusy _ | CWait | C2 => c2_saw s = None /\ count_done (pq s) = 0
    | C3 => c2_saw s = Some true /\ count_done (pq s) = 0
    | C4 | CEnd => exists b, c2_saw s = Some b /\ count_done (pq s) = (if b then 1 else 0)
    end.
  Lemma I_saw_step : forall s l s', istep W s l = Some s' -> I_p0 s -> I_saw s -> I_saw s'.
  Proof.
    unfold I_saw, I_p0; intros s l s' H Ip I; destruct l; step_cases H; fin.
    all: try solve [destruct (cp s); fin].
    all: try solve [destruct (isActive s); fin; eexists; split; [reflexivity|fin]].
    all: try solve [rewrite count_done_app; simpl; fin].
    all: try solve [destruct (cancelled s); fin].
    all: try solve [destruct (isActive s); fin].
    all: try solve [destruct I as [I1 I2]; rewrite count_done_app, I2; simpl; auto].
    all: try solve [destruct I as [I1 I2]; exists true; rewrite count_done_app, I2; simpl; auto].
  Qed.
  (* P9 *)
  Definition I_c2_active s := cp s = C2 -> isActive s = true -> fin_alone s = true.
  Lemma I_c2_active_step : forall s l s', istep W s l = Some s' ->
    I_cancel s -> I_active_false s -> I_p0 s -> I_c2_active s -> I_c2_active s'.
  Proof.
    unfold I_c2_active, I_cancel, I_active_false, I_p0; intros s l s' H Ic Iaf Ip I; destruct l; step_cases H; fin.
    all: try solve [destruct (isActive s); fin].
    all: try solve [destruct (cancelled s) eqn:E; fin; destruct Ic as [Ic _]; specialize (Ic eq_refl);
                    destruct (pp s); fin].
  Qed.

  (* P8 *)
  Definition I_saw_fin s := c2_saw s = Some true -> fin_alone s = true.
  Lemma I_saw_fin_step : forall s l s', istep W s l = Some s' -> I_c2_active s -> I_saw_fin s -> I_saw_fin s'.
  Proof.
    unfold I_saw_fin, I_c2_active; intros s l s' H Ic I; destruct l; step_cases H; fin.
    all: try solve [destruct (isActive s); fin].
  Qed.

  (* P10 *)
  Definition I_saw_false s := c2_saw s = Some false -> past_u1 (pp s) = true.
  Lemma I_saw_false_step : forall s l s', istep W s l = Some s' ->
    I_p0 s -> I_active_true s -> I_saw_false s -> I_saw_false s'.
  Proof.
    unfold I_saw_false, I_p0, I_active_true; intros s l s' H Ip Iat I; destruct l; step_cases H; fin.
    all: try solve [destruct (isActive s) eqn:E; fin; destruct (pp s); fin].
  Qed.

  (* P11 *)
  Definition I_ret s := pp s = PRet -> cp s = CEnd.
  Lemma I_ret_step : forall s l s', istep W s l = Some s' -> I_ret s -> I_ret s'.
  Proof.
    unfold I_ret; intros s l s' H I; destruct l; step_cases H; fin.
    all: try solve [intros Hx; specialize (I Hx); fin].
  Qed.

  (* P12 *)
  Definition I_retlen s :=
    match pq_at_ret s with
    | Some k => pp s = PRet /\ k = length (pq s)
    | None => pp s <> PRet
    end.
  Lemma I_retlen_step : forall s l s', istep W s l = Some s' -> I_ret s -> I_retlen s -> I_retlen s'.
  Proof.
    unfold I_retlen, I_ret; intros s l s' H Ir I; destruct l; step_cases H; fin.
    all: try solve [destruct (pq_at_ret s); fin].
    all: try solve [destruct (pq_at_ret s); fin; destruct I as [I1 I2]; specialize (Ir I1); fin].
  Qed.

  (* P13 *)
  Definition I_msgs s := msgs (pq s) = seq 0 (nsent s).
  Lemma I_msgs_step : forall s l s', istep W s l = Some s' -> I_msgs s -> I_msgs s'.
  Proof.
    unfold I_msgs; intros s l s' H I; destruct l; step_cases H; simpl in *; auto.
    all: try solve [change (0 :: seq 1 (nsent s)) with (seq 0 (S (nsent s))); rewrite msgs_app, I, seq_S; reflexivity].
    all: try solve [rewrite msgs_app, I; simpl; rewrite app_nil_r; reflexivity].
    all: try solve [destruct (isActive s); auto].
    all: try solve [destruct (cancelled s); auto].
  Qed.

  (* P14 *)
  Definition I_done s :=
    (count_done (pq s) = 0 \/ cp s = C4 \/ cp s = CEnd) /\
    (forall a b, pq s = a ++ PDone :: b -> b = []).
  Lemma I_done_step : forall s l s', istep W s l = Some s' -> I_p0 s -> I_saw s -> I_done s -> I_done s'.
  Proof.
    unfold I_done, I_saw, I_p0; intros s l s' H Ip Is [I1 I2]; destruct l; step_cases H; simpl in *.
    all: try solve [split; auto].
    all: try rewrite Heqc in *.
    all: try solve [split; auto; left; destruct Is; auto].
    all: try solve [split; auto; destruct (isActive s); left; destruct Is; auto].
    all: try solve [split; auto; destruct (cancelled s); left; destruct Is; auto].
    - (* LInvoke *) split; auto. left. destruct Ip as [Ip _]. rewrite (Ip eq_refl) in Is. destruct Is; auto.
    - (* LP2 *) destruct Is as [_ Is]. split.
      + left. rewrite count_done_app, Is. reflexivity.
      + intros a b Hab. eapply done_last_snoc_msg; eauto.
    - (* LEnqDone *) destruct Is as [_ Is]. split; auto.
      intros a b Hab. eapply done_last_snoc_done; eauto.
  Qed.

  (* P15 *)
  Definition I_started s := isStarted s = true <-> (pp s = PRun \/ pp s = PU2).
  Lemma I_started_step : forall s l s', istep W s l = Some s' -> I_started s -> I_started s'.
  Proof.
    unfold I_started; intros s l s' H I; destruct l; step_cases H; fin.
    all: try solve [split; [auto | intros [?|?]; discriminate]].
    all: try solve [split; [discriminate | intros [?|?]; discriminate]].
    all: try solve [destruct I as [Ia Ib]; split; [intros Hx; specialize (Ia Hx); destruct Ia; discriminate | intros [?|?]; discriminate]].
  Qed.

  (* P16 *)
  Definition I_fin s := fin_alone s = true -> past_loop (cp s) = true.
  Lemma I_fin_step : forall s l s', istep W s l = Some s' -> I_p0 s -> I_fin s -> I_fin s'.
  Proof.
    unfold I_fin, I_p0; intros s l s' H Ip I; destruct l; step_cases H; fin.
    all: try solve [intros Hx; specialize (I Hx); destruct Ip as [Ip _]; rewrite (Ip eq_refl) in I; discriminate].
    all: try solve [destruct (isActive s); fin].
    all: try solve [destruct (cancelled s); fin].
  Qed.

  (** the invariant *)
  Record Inv (s : ist) : Prop := {
    inv_active_false : I_active_false s;
    inv_p0 : I_p0 s;
    inv_active_true : I_active_true s;
    inv_cancel : I_cancel s;
    inv_unblock : I_unblock s;
    inv_token : I_token s;
    inv_saw : I_saw s;
    inv_c2_active : I_c2_active s;
    inv_saw_fin : I_saw_fin s;
    inv_saw_false : I_saw_false s;
    inv_ret : I_ret s;
    inv_retlen : I_retlen s;
    inv_msgs : I_msgs s;
    inv_done : I_done s;
    inv_started : I_started s;
    inv_fin : I_fin s
  }.

  Lemma Inv_init : Inv ist_init.
  Proof.
    constructor; red; simpl; intros; try discriminate; try tauto; auto.
    all: try solve [split; intros; try discriminate; intuition discriminate].
    split; auto. intros a b H; destruct a; discriminate.
  Qed.

  Lemma Inv_step : forall s l s', Inv s -> istep W s l = Some s' -> Inv s'.
  Proof.
    intros s l s' I H. destruct I. constructor.
    - eapply I_active_false_step; eauto.
    - eapply I_p0_step; eauto.
    - eapply I_active_true_step; eauto.
    - eapply I_cancel_step; eauto.
    - eapply I_unblock_step; eauto.
    - eapply I_token_step; eauto.
    - eapply I_saw_step; eauto.
    - eapply I_c2_active_step; eauto.
    - eapply I_saw_fin_step; eauto.
    - eapply I_saw_false_step; eauto.
    - eapply I_ret_step; eauto.
    - eapply I_retlen_step; eauto.
    - eapply I_msgs_step; eauto.
    - eapply I_done_step; eauto.
    - eapply I_started_step; eauto.
    - eapply I_fin_step; eauto.
  Qed.

  Lemma reachable_Inv : forall s, reachable s -> Inv s.
  Proof. induction 1; [apply Inv_init | eapply Inv_step; eauto]. Qed.

  (** ** consequences *)

  Lemma done_at_most_once_lemma : forall s, reachable s -> count_done (pq s) <= 1.
  Proof.
    intros s R. pose proof (inv_saw _ (reachable_Inv _ R)) as I. red in I.
    destruct (cp s); try (destruct I as [_ I]; lia).
    all: destruct I as [[|] [_ I]]; lia.
  Qed.

  Lemma done_only_if_finished_alone_lemma : forall s,
    reachable s -> count_done (pq s) = 1 -> fin_alone s = true /\ c2_saw s = Some true.
  Proof.
    intros s R Hc. pose proof (reachable_Inv _ R) as I.
    pose proof (inv_saw _ I) as Is. pose proof (inv_saw_fin _ I) as Isf. red in Is, Isf.
    destruct (cp s); try (destruct Is as [_ Is]; lia).
    all: destruct Is as [[|] [Hs Is]]; try lia; auto.
  Qed.

  (* when the child's thread has ended: done.invoke was delivered exactly once iff the child finished
     on its own and read _isActive before uninvoke cleared it *)
  Lemma done_iff_lemma : forall s, reachable s -> cp s = CEnd ->
    (count_done (pq s) = 1 <-> (fin_alone s = true /\ c2_saw s <> Some false)).
  Proof.
    intros s R He. pose proof (reachable_Inv _ R) as I.
    pose proof (inv_saw _ I) as Is. pose proof (inv_saw_fin _ I) as Isf. red in Is, Isf.
    rewrite He in Is. destruct Is as [b [Hs Hc]]. split.
    - intros H1. destruct b; try lia. split; auto. rewrite Hs; discriminate.
    - intros [Hf Hn]. destruct b; auto. congruence.
  Qed.

  (* ... in particular whenever the parent has not begun to cancel *)
  Lemma done_if_not_cancelled_lemma : forall s, reachable s -> cp s = CEnd -> pp s = PRun ->
    count_done (pq s) = 1 /\ fin_alone s = true.
  Proof.
    intros s R He Hp. pose proof (reachable_Inv _ R) as I.
    pose proof (inv_saw _ I) as Is. pose proof (inv_saw_fin _ I) as Isf. pose proof (inv_saw_false _ I) as Isn.
    red in Is, Isf, Isn. rewrite He in Is. destruct Is as [b [Hs Hc]].
    destruct b.
    - split; auto.
    - specialize (Isn Hs). rewrite Hp in Isn. discriminate.
  Qed.

  Lemma cancelled_child_never_done_lemma : forall s, reachable s -> fin_alone s = false -> count_done (pq s) = 0.
  Proof.
    intros s R Hf. pose proof (done_at_most_once_lemma _ R).
    destruct (count_done (pq s)) as [|[|n]] eqn:E; auto; try lia.
    destruct (done_only_if_finished_alone_lemma _ R E). congruence.
  Qed.

  (* the strict reading (finished alone => done.invoke) fails: the parent leaves the invoking state
     after the child's last step and before the child reads _isActive *)
  Definition strict_witness : list label := [LInvoke; LFinAlone; LU1; LRead; LClear].
  Lemma done_iff_strict_refuted_lemma :
    exists s, reachable s /\ cp s = CEnd /\ fin_alone s = true /\ count_done (pq s) = 0.
  Proof.
    exists (fst (irun W ist_init strict_witness)). split.
    - apply irun_reachable. constructor.
    - vm_compute. auto.
  Qed.

  (* join-based: once uninvoke has returned there is no step of the child any more (no step at all of
     this invocation), so the parent's queue cannot receive anything from it *)
  Lemma no_step_after_return_lemma : forall s, reachable s -> pp s = PRet ->
    cp s = CEnd /\ (forall l, istep W s l = None) /\ pq_at_ret s = Some (length (pq s)).
  Proof.
    intros s R Hp. pose proof (reachable_Inv _ R) as I.
    pose proof (inv_ret _ I Hp) as He. pose proof (inv_retlen _ I) as Il. red in Il.
    split; auto. split.
    - intros l. destruct l; unfold istep; rewrite ?Hp, ?He; auto.
    - destruct (pq_at_ret s); [destruct Il; congruence | congruence].
  Qed.

  (* the Recommendation's stronger demand (6.4: events of a cancelled session must not be inserted into
     the external queue of the invoking session) fails between the begin and the return of uninvoke *)
  Definition late_done_witness : list label := [LInvoke; LFinAlone; LRead; LU1; LU2; LU3a; LU3b].
  Lemma event_after_uninvoke_begun_refuted_lemma :
    exists s s', reachable s /\ past_unblock (pp s) = true /\ istep W s LEnqDone = Some s' /\
                 length (pq s') = S (length (pq s)).
  Proof.
    exists (fst (irun W ist_init late_done_witness)).
    eexists. split; [apply irun_reachable; constructor|].
    vm_compute. split; [reflexivity|]. split; reflexivity.
  Qed.

  (* no dead-lock: every reachable state is final (uninvoke returned, child thread ended) or has an
     enabled step; and while the parent waits in join the step is the child's *)
  Definition child_can_move (s : ist) : Prop :=
    exists l s', is_parent_label l = false /\ istep W s l = Some s'.

  Lemma join_never_blocks_forever_lemma : forall s, reachable s -> pp s = PU4 -> cp s <> CEnd -> child_can_move s.
  Proof.
    intros s R Hp Hc. pose proof (reachable_Inv _ R) as I.
    pose proof (inv_token _ I) as It. pose proof (inv_p0 _ I) as Ip0. pose proof (inv_cancel _ I) as Ican.
    red in It, Ip0, Ican. rewrite Hp in *. simpl in *.
    unfold child_can_move.
    destruct (cp s) as [| [|] | | | | |] eqn:E.
    - destruct Ip0 as [_ Ip0]. specialize (Ip0 eq_refl). discriminate.
    - exists LStable. eexists. split; auto. unfold istep. rewrite E. reflexivity.
    - exists LP2. eexists. split; auto. unfold istep. rewrite E. reflexivity.
    - destruct (It eq_refl) as [Hin|Hx]; [|discriminate].
      destruct (cq s) as [|[|] r] eqn:Eq; [destruct Hin| |].
      + exists LDeqEvt. eexists. split; auto. unfold istep. rewrite E, Eq. reflexivity.
      + exists LDeqUnblock. eexists. split; auto. unfold istep. rewrite E, Eq. reflexivity.
    - exists LRead. eexists. split; auto. unfold istep. rewrite E. reflexivity.
    - exists LEnqDone. eexists. split; auto. unfold istep. rewrite E. reflexivity.
    - exists LClear. eexists. split; auto. unfold istep. rewrite E. reflexivity.
    - congruence.
  Qed.

  Lemma no_deadlock_lemma : forall s, reachable s ->
    (pp s = PRet /\ cp s = CEnd) \/ exists l s', istep W s l = Some s'.
  Proof.
    intros s R. pose proof (reachable_Inv _ R) as I.
    destruct (pp s) eqn:Hp.
    - right. exists LInvoke. eexists. unfold istep. rewrite Hp. reflexivity.
    - right. exists LU1. eexists. unfold istep. rewrite Hp. reflexivity.
    - right. exists LU2. eexists. unfold istep. rewrite Hp. reflexivity.
    - right. exists LU3a. eexists. unfold istep. rewrite Hp. reflexivity.
    - right. exists LU3b. eexists. unfold istep. rewrite Hp. reflexivity.
    - destruct (cp s) eqn:Hc.
      7: { right. exists LU4. eexists. unfold istep. rewrite Hp, Hc. reflexivity. }
      all: right; destruct (join_never_blocks_forever_lemma _ R Hp) as [l [s' [_ Hs]]]; [congruence | eauto].
    - left. split; auto. apply (inv_ret _ I Hp).
  Qed.

  (* and the wait is finite when the child's macrosteps are (each at most W microsteps): every step
     taken while the parent is in join strictly decreases a measure *)
  Definition mu (s : ist) : nat :=
    length (cq s) * (2 * W + 8) +
    match cp s with
    | CNone => 0
    | CBusy SIdle => 2 * work s + 6
    | CBusy SChecked => 2 * work s + 7
    | CWait => 5
    | C2 => 4 | C3 => 3 | C4 => 2 | CEnd => 1
    end.

  Lemma work_bounded : forall s, reachable s -> work s <= W.
  Proof.
    induction 1 as [|s l s' R IH H]; [simpl; lia|].
    destruct l; step_cases H; simpl; lia.
  Qed.

  Lemma join_wait_decreases_lemma : forall s l s', reachable s -> pp s = PU4 -> istep W s l = Some s' ->
    pp s' = PRet \/ (pp s' = PU4 /\ mu s' < mu s).
  Proof.
    intros s l s' R Hp H. pose proof (work_bounded _ R) as Hw.
    destruct l; step_cases H; simpl in *; try congruence; auto; right; split; auto; unfold mu; simpl.
    all: try rewrite Heqc; try rewrite Heql; try rewrite Heqn; simpl; try lia.
    all: try solve [destruct (isActive s); lia].
    all: try solve [destruct (cancelled s); lia].
  Qed.

  (* send order: the child's events sit in the parent's queue in the order of the sends, none lost or
     duplicated, and done.invoke is the last event of the invocation *)
  Lemma child_sends_in_order_lemma : forall s, reachable s ->
    msgs (pq s) = seq 0 (nsent s) /\ (forall a b, pq s = a ++ PDone :: b -> b = []).
  Proof.
    intros s R. pose proof (reachable_Inv _ R) as I. split.
    - apply (inv_msgs _ I).
    - apply (inv_done _ I).
  Qed.

  (* the flag isStarted is never read; it mirrors the parent's progress *)
  Lemma started_mirror_lemma : forall s, reachable s -> (isStarted s = true <-> (pp s = PRun \/ pp s = PU2)).
  Proof. intros s R. apply (inv_started _ (reachable_Inv _ R)). Qed.
End ProtocolProofs.

(* ------------------------------------------------------------------------------------------ *)
(** * (b') teardown of the invoked session's delayed-event thread inside uninvoke               *)

Inductive treachable (sticky : bool) (d : dpc) : tst -> Prop :=
| treach_init : treachable sticky d (tst_init d)
| treach_step : forall s l s', treachable sticky d s -> tstep sticky s l = Some s' -> treachable sticky d s'.

Lemma trun_treachable : forall k d ls s s', treachable k d s -> trun k s ls = Some s' -> treachable k d s'.
Proof.
  induction ls as [|l r IH]; intros s s' R H; simpl in H.
  - inversion H; subst; auto.
  - destruct (tstep k s l) as [s1|] eqn:E; [|discriminate]. apply (IH s1 s'); auto. econstructor; eauto.
Qed.

(* stop() begins while the thread is between its test of _isStarted and event_base_loop: the break is
   lost, the thread blocks in the loop, the join never returns -- uninvoke does not return *)
Lemma teardown_deadlock_refuted_lemma :
  exists s, treachable false DRead s /\ tp s = TJoin /\ dp s = DLoop /\ tstuck false s = true /\
            (forall l, tstep false s l = None).
Proof.
  destruct (trun false (tst_init DRead) [TD_read; TT_clear; TT_break; TD_enter]) as [s|] eqn:E; [|discriminate].
  exists s. split; [eapply trun_treachable; [constructor | exact E]|].
  vm_compute in E. inversion E; subst. repeat split; auto.
  intros l; destruct l; reflexivity.
Qed.

Lemma tst_eqb_eq : forall a b, tst_eqb a b = true <-> a = b.
Proof.
  intros [a1 a2 a3 a4] [b1 b2 b3 b4]. unfold tst_eqb; simpl. split.
  - intros H. apply andb_true_iff in H. destruct H as [H H4]. apply andb_true_iff in H. destruct H as [H H3].
    apply andb_true_iff in H. destruct H as [H1 H2].
    apply Bool.eqb_prop in H1. apply Bool.eqb_prop in H2. subst.
    destruct a3, b3; try discriminate; destruct a4, b4; try discriminate; reflexivity.
  - intros H. inversion H; subst. rewrite !Bool.eqb_reflx. destruct b3, b4; reflexivity.
Qed.

Definition tclosed (k : bool) (seen : list tst) : bool :=
  forallb (fun s => forallb (fun s' => existsb (tst_eqb s') seen) (tsucc k s)) seen.

Lemma tclosed_covers : forall k d seen, tclosed k seen = true -> existsb (tst_eqb (tst_init d)) seen = true ->
  forall s, treachable k d s -> existsb (tst_eqb s) seen = true.
Proof.
  intros k d seen Hc Hi s R. induction R as [|s l s' R IH H]; auto.
  apply existsb_exists in IH. destruct IH as [x [Hx Hex]]. apply tst_eqb_eq in Hex. subst x.
  unfold tclosed in Hc. rewrite forallb_forall in Hc. specialize (Hc s Hx).
  rewrite forallb_forall in Hc. apply Hc.
  unfold tsucc. apply in_flat_map. exists l. split.
  - destruct l; simpl; auto 10.
  - rewrite H. left; reflexivity.
Qed.

Lemma texplore_never_stuck : forall k d seen,
  tclosed k seen = true -> existsb (tst_eqb (tst_init d)) seen = true ->
  forallb (fun x => negb (tstuck k x)) seen = true ->
  forall s, treachable k d s -> tstuck k s = false.
Proof.
  intros k d seen Hc Hi Hall s R.
  pose proof (tclosed_covers k d seen Hc Hi s R) as Hin.
  rewrite forallb_forall in Hall.
  apply existsb_exists in Hin. destruct Hin as [x [Hx He]]. apply tst_eqb_eq in He. subst x.
  specialize (Hall s Hx). destruct (tstuck k s); [discriminate | reflexivity].
Qed.

(* partial (pinned): when the thread already sits in event_base_loop the teardown returns; missing:
   exactly the window of the lemma above *)
Lemma teardown_from_loop_never_stuck_lemma : forall s, treachable false DLoop s -> tstuck false s = false.
Proof.
  apply (texplore_never_stuck false DLoop (texplore false 64 [tst_init DLoop] [tst_init DLoop])); vm_compute; reflexivity.
Qed.

(* repaired stop(): wherever the thread is when stop() begins, no reachable state is stuck *)
Lemma teardown_sticky_never_stuck_lemma : forall d s, treachable true d s -> tstuck true s = false.
Proof.
  intros d. destruct d.
  - apply (texplore_never_stuck true DRead (texplore true 64 [tst_init DRead] [tst_init DRead])); vm_compute; reflexivity.
  - apply (texplore_never_stuck true DEnter (texplore true 64 [tst_init DEnter] [tst_init DEnter])); vm_compute; reflexivity.
  - apply (texplore_never_stuck true DLoop (texplore true 64 [tst_init DLoop] [tst_init DLoop])); vm_compute; reflexivity.
  - apply (texplore_never_stuck true DEnd (texplore true 64 [tst_init DEnd] [tst_init DEnd])); vm_compute; reflexivity.
Qed.

(* ------------------------------------------------------------------------------------------ *)
(** * (a) bookkeeping                                                                           *)

Section BookkeepingProofs.
  Variable has_invoke : nat -> bool.

  Definition cnt (a : bk_action) (l : list bk_action) : nat := length (filter (bk_action_eqb a) l).
  Definition cntn (x : nat) (l : list nat) : nat := length (filter (Nat.eqb x) l).

  Lemma cnt_app : forall a l1 l2, cnt a (l1 ++ l2) = cnt a l1 + cnt a l2.
  Proof. intros; unfold cnt; rewrite filter_app, app_length; reflexivity. Qed.

  Lemma cnt_inv_map_inv : forall s l, cnt (BInvoke s) (map BInvoke l) = cntn s l.
  Proof. induction l as [|x l IH]; simpl; auto. unfold cnt, cntn in *; simpl. destruct (Nat.eqb s x); simpl; auto. Qed.
  Lemma cnt_inv_map_un : forall s l, cnt (BInvoke s) (map BUninvoke l) = 0.
  Proof. induction l as [|x l IH]; simpl; auto. Qed.
  Lemma cnt_un_map_un : forall s l, cnt (BUninvoke s) (map BUninvoke l) = cntn s l.
  Proof. induction l as [|x l IH]; simpl; auto. unfold cnt, cntn in *; simpl. destruct (Nat.eqb s x); simpl; auto. Qed.
  Lemma cnt_un_map_inv : forall s l, cnt (BUninvoke s) (map BInvoke l) = 0.
  Proof. induction l as [|x l IH]; simpl; auto. Qed.

  Lemma mem_In : forall x l, mem x l = true <-> In x l.
  Proof.
    intros x l. unfold mem. rewrite existsb_exists. split.
    - intros [y [Hy He]]. apply Nat.eqb_eq in He. subst; auto.
    - intros H. exists x. split; auto. apply Nat.eqb_refl.
  Qed.

  Lemma mem_filter : forall p x l, mem x (filter p l) = p x && mem x l.
  Proof.
    intros p x l. induction l as [|y l IH]; simpl.
    - rewrite andb_false_r; reflexivity.
    - destruct (p y) eqn:Ep; simpl; rewrite IH.
      + destruct (Nat.eqb x y) eqn:E; simpl.
        * apply Nat.eqb_eq in E. subst. rewrite Ep. reflexivity.
        * reflexivity.
      + destruct (Nat.eqb x y) eqn:E; simpl; auto.
        apply Nat.eqb_eq in E. subst. rewrite Ep. reflexivity.
  Qed.

  Lemma mem_app : forall x a b, mem x (a ++ b) = mem x a || mem x b.
  Proof. intros; unfold mem; apply existsb_app. Qed.

  Lemma NoDup_filter : forall (p : nat -> bool) l, NoDup l -> NoDup (filter p l).
  Proof.
    induction l as [|y l IH]; simpl; intros H; auto.
    inversion H; subst. destruct (p y); auto. constructor; auto.
    intros Hin. apply filter_In in Hin. tauto.
  Qed.

  Lemma cntn_NoDup : forall x l, NoDup l -> cntn x l = if mem x l then 1 else 0.
  Proof.
    induction l as [|y l IH]; intros H; simpl; auto.
    inversion H; subst. unfold cntn in *; simpl. destruct (Nat.eqb x y) eqn:E; simpl.
    - apply Nat.eqb_eq in E. subst. rewrite IH; auto.
      destruct (mem y l) eqn:Em; auto. apply mem_In in Em. contradiction.
    - apply IH; auto.
  Qed.

  Lemma NoDup_app_disj : forall (a b : list nat), NoDup a -> NoDup b ->
    (forall x, In x a -> In x b -> False) -> NoDup (a ++ b).
  Proof.
    induction a as [|x a IH]; simpl; intros b Ha Hb Hd; auto.
    inversion Ha; subst. constructor.
    - intros Hin. apply in_app_or in Hin. destruct Hin as [Hin|Hin]; [contradiction|].
      apply (Hd x); auto.
    - apply IH; auto. intros y Hy1 Hy2. apply (Hd y); auto.
  Qed.

  Lemma NoDup_union : forall a b, NoDup a -> NoDup b -> NoDup (union a b).
  Proof.
    intros a b Ha Hb. unfold union, diff. apply NoDup_app_disj; auto.
    - apply NoDup_filter; auto.
    - intros x Hx Hy. apply filter_In in Hy. destruct Hy as [_ Hy].
      apply mem_In in Hx. rewrite Hx in Hy. discriminate.
  Qed.

  Lemma mem_union : forall x a b, mem x (union a b) = mem x a || mem x b.
  Proof.
    intros. unfold union, diff. rewrite mem_app, mem_filter.
    destruct (mem x a); simpl; auto.
  Qed.

  (** one macrostep end, Large *)
  Lemma large_macro_end_exact : forall cfg inv, NoDup cfg -> NoDup inv ->
    let '(a, inv') := large_macro_end has_invoke cfg inv in
    NoDup inv' /\ (forall s, mem s inv' = mem s cfg) /\
    (forall s, cnt (BInvoke s) a = if has_invoke s && mem s cfg && negb (mem s inv) then 1 else 0) /\
    (forall s, cnt (BUninvoke s) a = if has_invoke s && mem s inv && negb (mem s cfg) then 1 else 0).
  Proof.
    intros cfg inv Hc Hi. unfold large_macro_end. split; [|split; [|split]].
    - apply NoDup_union; auto. apply NoDup_filter; auto.
    - intros s. rewrite mem_union, mem_filter. destruct (mem s cfg); simpl; auto. apply orb_true_r.
    - intros s. rewrite cnt_app, cnt_inv_map_un, cnt_inv_map_inv. simpl.
      rewrite cntn_NoDup by (repeat apply NoDup_filter; auto).
      repeat (rewrite mem_filter; cbv beta).
      destruct (has_invoke s), (mem s cfg), (mem s inv); reflexivity.
    - intros s. rewrite cnt_app, cnt_un_map_un, cnt_un_map_inv, Nat.add_0_r.
      rewrite cntn_NoDup by (repeat apply NoDup_filter; auto).
      repeat (rewrite mem_filter; cbv beta).
      destruct (has_invoke s), (mem s cfg), (mem s inv); reflexivity.
  Qed.

  (** one macrostep end, Fast; its _invocations only ever holds states with <invoke> children *)
  Lemma fast_macro_end_exact : forall cfg inv, NoDup cfg -> NoDup inv ->
    (forall s, mem s inv = true -> has_invoke s = true) ->
    let '(a, inv') := fast_macro_end has_invoke cfg inv in
    NoDup inv' /\ (forall s, mem s inv' = has_invoke s && mem s cfg) /\
    (forall s, cnt (BInvoke s) a = if has_invoke s && mem s cfg && negb (mem s inv) then 1 else 0) /\
    (forall s, cnt (BUninvoke s) a = if has_invoke s && mem s inv && negb (mem s cfg) then 1 else 0).
  Proof.
    intros cfg inv Hc Hi Hh. unfold fast_macro_end. split; [|split; [|split]].
    - apply NoDup_union; repeat apply NoDup_filter; auto.
    - intros s. rewrite mem_union; repeat (rewrite mem_filter; cbv beta).
      specialize (Hh s).
      destruct (has_invoke s), (mem s cfg), (mem s inv); simpl; auto.
      all: specialize (Hh eq_refl); discriminate.
    - intros s. rewrite cnt_app, cnt_inv_map_un, cnt_inv_map_inv. simpl.
      rewrite cntn_NoDup by (repeat apply NoDup_filter; auto).
      repeat (rewrite mem_filter; cbv beta).
      destruct (has_invoke s), (mem s cfg), (mem s inv); reflexivity.
    - intros s. rewrite cnt_app, cnt_un_map_un, cnt_un_map_inv, Nat.add_0_r.
      rewrite cntn_NoDup by (repeat apply NoDup_filter; auto).
      repeat (rewrite mem_filter; cbv beta).
      destruct (has_invoke s), (mem s cfg), (mem s inv); reflexivity.
  Qed.

  (** a whole run: the k-th macrostep end calls invoke exactly for the states (with <invoke>) that are
      active now and were not at the previous macrostep end, uninvoke exactly for those that were and
      are no longer -- each exactly once *)
  Definition prev_cfg (cfgs : list (list nat)) (k : nat) : list nat :=
    match k with O => [] | S j => nth j cfgs [] end.

  Definition step_exact (cfg prev : list nat) (a : list bk_action) : Prop :=
    (forall s, cnt (BInvoke s) a = if has_invoke s && mem s cfg && negb (mem s prev) then 1 else 0) /\
    (forall s, cnt (BUninvoke s) a = if has_invoke s && mem s prev && negb (mem s cfg) then 1 else 0).

  Lemma last_nonempty_indep : forall (A : Type) (l : list A) x d d', last (x :: l) d = last (x :: l) d'.
  Proof. induction l as [|y l IH]; intros; [reflexivity|]. change (last (y :: l) d = last (y :: l) d'). apply IH. Qed.

  Lemma bk_run_large_gen : forall cfgs inv prev, Forall (@NoDup nat) cfgs -> NoDup inv ->
    (forall s, mem s inv = mem s prev) ->
    let '(tr, inv') := bk_run (large_macro_end has_invoke) cfgs inv in
    length tr = length cfgs /\
    (forall k, k < length cfgs ->
       step_exact (nth k cfgs []) (match k with O => prev | S j => nth j cfgs [] end) (nth k tr [])) /\
    NoDup inv' /\ (forall s, mem s inv' = mem s (last cfgs prev)).
  Proof.
    induction cfgs as [|c r IH]; intros inv prev Hn Hi He; cbn [bk_run].
    - split; auto. split; [intros k Hk; simpl in Hk; lia|]. split; auto.
    - inversion Hn; subst.
      pose proof (large_macro_end_exact c inv H1 Hi) as Hs.
      destruct (large_macro_end has_invoke c inv) as [a inv1] eqn:E1.
      destruct Hs as [Hnd [Hm [Hci Hcu]]].
      specialize (IH inv1 c H2 Hnd Hm).
      destruct (bk_run (large_macro_end has_invoke) r inv1) as [tr inv2] eqn:E2.
      destruct IH as [Hl [Hk [Hnd2 Hm2]]].
      cbn [length]. split; [lia|]. split; [|split; auto].
      + intros [|k] Hlt.
        * simpl. split; intros s; [rewrite Hci | rewrite Hcu]; rewrite He; reflexivity.
        * simpl. assert (Hk' : k < length r) by (simpl in Hlt; lia).
          specialize (Hk k Hk'). destruct k; exact Hk.
      + intros s. rewrite Hm2. destruct r as [|l r']; [reflexivity|].
        change (last (c :: l :: r') prev) with (last (l :: r') prev).
        rewrite (last_nonempty_indep _ r' l c prev). reflexivity.
  Qed.

  Lemma bk_run_fast_gen : forall cfgs inv prev, Forall (@NoDup nat) cfgs -> NoDup inv ->
    (forall s, mem s inv = has_invoke s && mem s prev) ->
    let '(tr, inv') := bk_run (fast_macro_end has_invoke) cfgs inv in
    length tr = length cfgs /\
    (forall k, k < length cfgs ->
       step_exact (nth k cfgs []) (match k with O => prev | S j => nth j cfgs [] end) (nth k tr [])) /\
    NoDup inv' /\ (forall s, mem s inv' = has_invoke s && mem s (last cfgs prev)).
  Proof.
    induction cfgs as [|c r IH]; intros inv prev Hn Hi He; cbn [bk_run].
    - split; auto. split; [intros k Hk; simpl in Hk; lia|]. split; auto.
    - inversion Hn; subst.
      assert (Hh : forall s, mem s inv = true -> has_invoke s = true).
      { intros s Hs. rewrite He in Hs. apply andb_true_iff in Hs. tauto. }
      pose proof (fast_macro_end_exact c inv H1 Hi Hh) as Hs.
      destruct (fast_macro_end has_invoke c inv) as [a inv1] eqn:E1.
      destruct Hs as [Hnd [Hm [Hci Hcu]]].
      specialize (IH inv1 c H2 Hnd Hm).
      destruct (bk_run (fast_macro_end has_invoke) r inv1) as [tr inv2] eqn:E2.
      destruct IH as [Hl [Hk [Hnd2 Hm2]]].
      cbn [length]. split; [lia|]. split; [|split; auto].
      + intros [|k] Hlt.
        * simpl. split; intros s; [rewrite Hci | rewrite Hcu]; rewrite He;
            destruct (has_invoke s), (mem s c), (mem s prev); reflexivity.
        * simpl. assert (Hk' : k < length r) by (simpl in Hlt; lia).
          specialize (Hk k Hk'). destruct k; exact Hk.
      + intros s. rewrite Hm2. destruct r as [|l r']; [reflexivity|].
        change (last (c :: l :: r') prev) with (last (l :: r') prev).
        rewrite (last_nonempty_indep _ r' l c prev). reflexivity.
  Qed.

  Lemma invoke_bookkeeping_lemma : forall cfgs, Forall (@NoDup nat) cfgs ->
    (let tr := fst (bk_run (large_macro_end has_invoke) cfgs []) in
     length tr = length cfgs /\
     forall k, k < length cfgs -> step_exact (nth k cfgs []) (prev_cfg cfgs k) (nth k tr [])) /\
    (let tr := fst (bk_run (fast_macro_end has_invoke) cfgs []) in
     length tr = length cfgs /\
     forall k, k < length cfgs -> step_exact (nth k cfgs []) (prev_cfg cfgs k) (nth k tr [])).
  Proof.
    intros cfgs Hn. split.
    - pose proof (bk_run_large_gen cfgs [] [] Hn (NoDup_nil _) (fun s => eq_refl)) as H.
      destruct (bk_run (large_macro_end has_invoke) cfgs []) as [tr inv']. simpl.
      destruct H as [Hl [Hk _]]. split; [exact Hl | exact Hk].
    - assert (He : forall s, mem s [] = has_invoke s && mem s []) by (intros; simpl; rewrite andb_false_r; reflexivity).
      pose proof (bk_run_fast_gen cfgs [] [] Hn (NoDup_nil _) He) as H.
      destruct (bk_run (fast_macro_end has_invoke) cfgs []) as [tr inv']. simpl.
      destruct H as [Hl [Hk _]]. split; [exact Hl | exact Hk].
  Qed.

  Lemma mem_rev : forall x l, mem x (rev l) = mem x l.
  Proof.
    intros x l. destruct (mem x l) eqn:E.
    - apply mem_In. apply -> in_rev. apply mem_In. auto.
    - destruct (mem x (rev l)) eqn:E2; auto.
      apply mem_In in E2. apply in_rev in E2. apply mem_In in E2. congruence.
  Qed.

  (** completion: Fast and the repaired Large cancel every running invocation exactly once *)
  Lemma completion_exact_lemma : forall cfg inv, NoDup cfg -> NoDup inv ->
    (forall s, cnt (BUninvoke s) (fst (fast_completion has_invoke cfg inv)) = if has_invoke s && mem s inv then 1 else 0) /\
    snd (fast_completion has_invoke cfg inv) = [] /\
    (forall s, cnt (BUninvoke s) (fst (large_completion has_invoke iv_fixed cfg inv)) = if has_invoke s && mem s inv then 1 else 0) /\
    snd (large_completion has_invoke iv_fixed cfg inv) = [].
  Proof.
    intros cfg inv Hc Hi. split; [|split; [reflexivity|split; [|reflexivity]]].
    - intros s. unfold fast_completion. simpl. rewrite cnt_un_map_un.
      rewrite cntn_NoDup by (apply NoDup_filter; apply NoDup_rev; auto).
      rewrite mem_filter, mem_rev. reflexivity.
    - intros s. unfold large_completion. simpl. rewrite cnt_un_map_un.
      rewrite filter_app. unfold cntn. rewrite filter_app, app_length. fold (cntn s (filter has_invoke (filter (fun s0 => mem s0 inv) (rev cfg)))).
      fold (cntn s (filter has_invoke (filter (fun s0 => negb (mem s0 cfg)) (rev inv)))).
      rewrite !cntn_NoDup by (repeat apply NoDup_filter; apply NoDup_rev; auto).
      repeat (rewrite mem_filter; cbv beta). rewrite !mem_rev.
      destruct (has_invoke s), (mem s inv), (mem s cfg); reflexivity.
  Qed.

  Definition b2n (b : bool) : nat := if b then 1 else 0.

  (** hence: over a whole run every invocation that was started and not yet cancelled belongs to a
      state of the last configuration -- started once per activation, cancelled once per exit *)
  Lemma telescope : forall cfgs prev tr, length tr = length cfgs ->
    (forall k, k < length cfgs ->
       step_exact (nth k cfgs []) (match k with O => prev | S j => nth j cfgs [] end) (nth k tr [])) ->
    forall s, cnt (BInvoke s) (concat tr) + b2n (has_invoke s && mem s prev) =
              cnt (BUninvoke s) (concat tr) + b2n (has_invoke s && mem s (last cfgs prev)).
  Proof.
    induction cfgs as [|c r IH]; intros prev tr Hl Hk s.
    - destruct tr; [|discriminate]. simpl. reflexivity.
    - destruct tr as [|a tr]; [discriminate|].
      simpl in Hl. injection Hl as Hl.
      assert (H0 := Hk 0 (Nat.lt_0_succ _)). simpl in H0. destruct H0 as [Hi Hu].
      assert (Hk' : forall k, k < length r ->
                 step_exact (nth k r []) (match k with O => c | S j => nth j r [] end) (nth k tr [])).
      { intros k Hlt. assert (H1 := Hk (S k) (proj1 (Nat.succ_lt_mono _ _) Hlt)). simpl in H1.
        destruct k; exact H1. }
      specialize (IH c tr Hl Hk' s).
      simpl concat. rewrite !cnt_app, Hi, Hu.
      assert (Hlast : last (c :: r) prev = last r c).
      { destruct r as [|l r']; [reflexivity|].
        change (last (c :: l :: r') prev) with (last (l :: r') prev). apply last_nonempty_indep. }
      rewrite Hlast.
      unfold b2n in *.
      destruct (has_invoke s), (mem s c), (mem s prev); simpl in *; lia.
  Qed.

  Lemma lifetime_balance_lemma : forall cfgs, Forall (@NoDup nat) cfgs ->
    forall s,
      (let '(tr, inv) := bk_run (fast_macro_end has_invoke) cfgs [] in
       cnt (BInvoke s) (concat tr) =
       cnt (BUninvoke s) (concat tr ++ fst (fast_completion has_invoke (last cfgs []) inv))) /\
      (let '(tr, inv) := bk_run (large_macro_end has_invoke) cfgs [] in
       cnt (BInvoke s) (concat tr) =
       cnt (BUninvoke s) (concat tr ++ fst (large_completion has_invoke iv_fixed (last cfgs []) inv))).
  Proof.
    intros cfgs Hn s. split.
    - assert (He : forall s, mem s [] = has_invoke s && mem s []) by (intros; simpl; rewrite andb_false_r; reflexivity).
      pose proof (bk_run_fast_gen cfgs [] [] Hn (NoDup_nil _) He) as H.
      destruct (bk_run (fast_macro_end has_invoke) cfgs []) as [tr inv].
      destruct H as [Hl [Hk [Hnd Hm]]].
      pose proof (telescope cfgs [] tr Hl Hk s) as T.
      assert (Hlc : NoDup (last cfgs [])).
      { clear -Hn. induction cfgs as [|c r IH]; [constructor|]. inversion Hn; subst.
        destruct r; [exact H1|]. apply IH; auto. }
      rewrite cnt_app. destruct (completion_exact_lemma (last cfgs []) inv Hlc Hnd) as [Hc _].
      rewrite Hc, Hm. simpl in T. rewrite andb_false_r in T. simpl in T.
      unfold b2n in T. destruct (has_invoke s), (mem s (last cfgs [])); simpl in *; lia.
    - pose proof (bk_run_large_gen cfgs [] [] Hn (NoDup_nil _) (fun s => eq_refl)) as H.
      destruct (bk_run (large_macro_end has_invoke) cfgs []) as [tr inv].
      destruct H as [Hl [Hk [Hnd Hm]]].
      pose proof (telescope cfgs [] tr Hl Hk s) as T.
      assert (Hlc : NoDup (last cfgs [])).
      { clear -Hn. induction cfgs as [|c r IH]; [constructor|]. inversion Hn; subst.
        destruct r; [exact H1|]. apply IH; auto. }
      rewrite cnt_app. destruct (completion_exact_lemma (last cfgs []) inv Hlc Hnd) as [_ [_ [Hc _]]].
      rewrite Hc, Hm. simpl in T. rewrite andb_false_r in T. simpl in T.
      unfold b2n in T. destruct (has_invoke s), (mem s (last cfgs [])); simpl in *; lia.
  Qed.
End BookkeepingProofs.

(* the pinned Large does not: state 1 carries the <invoke>, its child state 2 is the last state of the
   configuration; on completion nothing is cancelled *)
Lemma large_completion_pinned_refuted_lemma :
  exists has_invoke cfgs s,
    Forall (@NoDup nat) cfgs /\ has_invoke s = true /\ mem s (last cfgs []) = true /\
    let '(tr, inv) := bk_run (large_macro_end has_invoke) cfgs [] in
    cnt (BInvoke s) (concat tr) = 1 /\
    cnt (BUninvoke s) (concat tr ++ fst (large_completion has_invoke iv_pinned (last cfgs []) inv)) = 0.
Proof.
  exists (Nat.eqb 1), [[0; 1; 2]], 1. split.
  - repeat constructor; simpl; intuition lia.
  - vm_compute. auto.
Qed.

(* ------------------------------------------------------------------------------------------ *)
(** * (a') the engines' end-of-macrostep bookkeeping against the Recommendation's                *)

Section W3CBookkeeping.
  Variable has_invoke : nat -> bool.

  Fixpoint pend_after (s : nat) (ms : list microstep) (b : bool) : bool :=
    match ms with
    | [] => b
    | (ex, en) :: r => pend_after s r ((b && negb (mem s ex)) || mem s en)
    end.
  Fixpoint exited_some (s : nat) (ms : list microstep) : bool :=
    match ms with [] => false | (ex, _) :: r => mem s ex || exited_some s r end.
  Fixpoint entered_some (s : nat) (ms : list microstep) : bool :=
    match ms with [] => false | (_, en) :: r => mem s en || entered_some s r end.

  Lemma mem_diff : forall x a b, mem x (diff a b) = mem x a && negb (mem x b).
  Proof. intros. unfold diff. rewrite mem_filter. apply andb_comm. Qed.
  Lemma mem_inter : forall x a b, mem x (inter a b) = mem x a && mem x b.
  Proof. intros. unfold inter. rewrite mem_filter. apply andb_comm. Qed.

  Lemma cfg_after_mem : forall ms cfg s, mem s (cfg_after ms cfg) = pend_after s ms (mem s cfg).
  Proof.
    induction ms as [|[ex en] r IH]; intros cfg s; simpl; auto.
    rewrite IH, mem_union, mem_diff. reflexivity.
  Qed.

  Lemma pend_after_exited : forall s ms b b', exited_some s ms = true -> pend_after s ms b = pend_after s ms b'.
  Proof.
    induction ms as [|[ex en] r IH]; intros b b' H; simpl in *; [discriminate|].
    destruct (mem s ex) eqn:E; simpl in *.
    - rewrite !andb_false_r. reflexivity.
    - apply IH; auto.
  Qed.

  Lemma pend_after_not_exited : forall s ms b, exited_some s ms = false -> pend_after s ms b = b || entered_some s ms.
  Proof.
    induction ms as [|[ex en] r IH]; intros b H; simpl in *.
    - rewrite orb_false_r; reflexivity.
    - apply orb_false_iff in H. destruct H as [H1 H2]. rewrite H1. simpl.
      rewrite andb_true_r, IH by auto. rewrite orb_assoc. reflexivity.
  Qed.

  Lemma w3c_micro_char : forall ms running pending,
    NoDup running -> NoDup pending -> Forall (fun m : microstep => NoDup (snd m)) ms ->
    let '(a, ru, pe) := w3c_micro has_invoke ms running pending in
    (forall s, cnt (BUninvoke s) a = b2n (has_invoke s && mem s running && exited_some s ms)) /\
    (forall s, cnt (BInvoke s) a = 0) /\
    (forall s, mem s ru = mem s running && negb (exited_some s ms)) /\
    (forall s, mem s pe = pend_after s ms (mem s pending)) /\
    NoDup ru /\ NoDup pe.
  Proof.
    induction ms as [|[ex en] r IH]; intros running pending Hr Hp Hms; cbn [w3c_micro].
    - simpl. repeat split; auto. intros s. rewrite !andb_false_r. reflexivity.
      intros s. rewrite andb_true_r. reflexivity.
    - inversion Hms; subst. simpl in H1.
      assert (Hr1 : NoDup (diff running ex)) by (apply NoDup_filter; auto).
      assert (Hp1 : NoDup (union (diff pending ex) en)) by (apply NoDup_union; auto; apply NoDup_filter; auto).
      specialize (IH (diff running ex) (union (diff pending ex) en) Hr1 Hp1 H2).
      destruct (w3c_micro has_invoke r (diff running ex) (union (diff pending ex) en)) as [[a ru] pe].
      destruct IH as [Hu [Hi [Hru [Hpe [Hn1 Hn2]]]]].
      repeat split; auto.
      + intros s. rewrite cnt_app, cnt_un_map_un, Hu.
        rewrite cntn_NoDup by (repeat apply NoDup_filter; auto).
        rewrite mem_filter, mem_inter, mem_diff. simpl.
        unfold b2n.
        destruct (has_invoke s), (mem s running), (mem s ex), (exited_some s r); reflexivity.
      + intros s. rewrite cnt_app, cnt_inv_map_un, Hi. reflexivity.
      + intros s. rewrite Hru, mem_diff. simpl.
        destruct (mem s running), (mem s ex), (exited_some s r); reflexivity.
      + intros s. rewrite Hpe, mem_union, mem_diff. reflexivity.
  Qed.

  (** [inv] is what the engine holds when the macrostep begins (Large: the previous configuration) *)
  Definition no_reentry (cfg0 : list nat) (ms : list microstep) : Prop :=
    forall s, has_invoke s = true -> mem s cfg0 = true -> entered_some s ms = true ->
              mem s (cfg_after ms cfg0) = false.

  Lemma macro_end_vs_w3c_lemma : forall cfg0 inv ms,
    NoDup cfg0 -> NoDup inv -> NoDup (cfg_after ms cfg0) ->
    Forall (fun m : microstep => NoDup (snd m)) ms ->
    (forall s, mem s inv = mem s cfg0) ->
    no_reentry cfg0 ms ->
    forall s,
      cnt (BUninvoke s) (fst (large_macro_end has_invoke (cfg_after ms cfg0) inv)) =
      cnt (BUninvoke s) (fst (w3c_macro has_invoke ms (filter has_invoke cfg0))) /\
      cnt (BInvoke s) (fst (large_macro_end has_invoke (cfg_after ms cfg0) inv)) =
      cnt (BInvoke s) (fst (w3c_macro has_invoke ms (filter has_invoke cfg0))).
  Proof.
    intros cfg0 inv ms Hc Hi Hce Hms He Hnr s.
    pose proof (large_macro_end_exact has_invoke (cfg_after ms cfg0) inv Hce Hi) as HL.
    destruct (large_macro_end has_invoke (cfg_after ms cfg0) inv) as [la linv].
    destruct HL as [_ [_ [HLi HLu]]].
    assert (Hrn : NoDup (filter has_invoke cfg0)) by (apply NoDup_filter; auto).
    pose proof (w3c_micro_char ms (filter has_invoke cfg0) [] Hrn (NoDup_nil _) Hms) as HW.
    unfold w3c_macro.
    destruct (w3c_micro has_invoke ms (filter has_invoke cfg0) []) as [[wa wru] wpe].
    destruct HW as [HWu [HWi [HWru [HWpe [Hn1 Hn2]]]]].
    simpl fst. rewrite HLu, HLi, !cnt_app, HWu, HWi, cnt_un_map_inv, cnt_inv_map_inv.
    rewrite cntn_NoDup by (apply NoDup_filter; auto).
    rewrite !mem_filter, HWpe, He, cfg_after_mem. simpl (mem s []).
    specialize (Hnr s). rewrite cfg_after_mem in Hnr.
    destruct (exited_some s ms) eqn:Ex.
    - rewrite (pend_after_exited s ms false (mem s cfg0) Ex) in *.
      assert (Hent : has_invoke s = true -> mem s cfg0 = true -> pend_after s ms (mem s cfg0) = true -> False).
      { intros H1 H2 H3.
        (* active at the end after an exit: it was entered *)
        assert (entered_some s ms = true).
        { clear -Ex H3. revert H3 Ex. generalize (mem s cfg0) as b.
          induction ms as [|[ex en] r IH]; intros b H3 Ex; simpl in *; [discriminate|].
          destruct (mem s en) eqn:En; simpl; auto.
          destruct (mem s ex) eqn:Ee; simpl in *.
          - rewrite andb_false_r in H3. simpl in H3.
            destruct (exited_some s r) eqn:Er.
            + eapply IH; eauto.
            + rewrite pend_after_not_exited in H3 by auto. simpl in H3. exact H3.
          - eapply IH; eauto. }
        specialize (Hnr H1 H2 H). congruence. }
      unfold b2n. destruct (has_invoke s) eqn:Eh, (mem s cfg0) eqn:Ec, (pend_after s ms true) eqn:Ep; simpl; auto;
        try (exfalso; apply Hent; auto; fail).
      all: rewrite ?andb_true_r; auto.
    - rewrite !pend_after_not_exited by auto. simpl.
      unfold b2n. destruct (has_invoke s) eqn:Eh, (mem s cfg0) eqn:Ec, (entered_some s ms) eqn:Ee; simpl; auto.
      rewrite pend_after_not_exited in Hnr by auto. simpl in Hnr. specialize (Hnr eq_refl eq_refl eq_refl). discriminate.
  Qed.
End W3CBookkeeping.

(* a state that is left and re-entered within one macrostep: the Recommendation cancels its invocation
   and starts a new one, both engines do nothing *)
Lemma macro_end_vs_w3c_reentry_refuted_lemma :
  exists has_invoke cfg0 ms s,
    cfg_after ms cfg0 = cfg0 /\
    cnt (BUninvoke s) (fst (w3c_macro has_invoke ms (filter has_invoke cfg0))) = 1 /\
    cnt (BInvoke s) (fst (w3c_macro has_invoke ms (filter has_invoke cfg0))) = 1 /\
    fst (large_macro_end has_invoke (cfg_after ms cfg0) cfg0) = [] /\
    fst (fast_macro_end has_invoke (cfg_after ms cfg0) (filter has_invoke cfg0)) = [].
Proof.
  exists (Nat.eqb 1), [0; 1], [([1], [1])], 1. vm_compute. auto.
Qed.

(* ------------------------------------------------------------------------------------------ *)
(** * (c) routing, finalize, autoforward                                                        *)

Lemma beq_bytes_refl : forall a, beq_bytes a a = true.
Proof. induction a as [|x a IH]; simpl; auto. rewrite N.eqb_refl, IH. reflexivity. Qed.

Lemma beq_bytes_eq : forall a b, beq_bytes a b = true <-> a = b.
Proof.
  induction a as [|x a IH]; destruct b as [|y b]; simpl; split; intros H; try discriminate; auto.
  - apply andb_true_iff in H. destruct H as [H1 H2]. apply N.eqb_eq in H1. apply IH in H2. subst; auto.
  - inversion H; subst. rewrite N.eqb_refl. simpl. apply IH. reflexivity.
Qed.

Lemma beq_bytes_neq : forall a b, beq_bytes a b = false <-> a <> b.
Proof.
  intros a b. split; intros H.
  - intros E. apply beq_bytes_eq in E. congruence.
  - destruct (beq_bytes a b) eqn:E; auto. apply beq_bytes_eq in E. contradiction.
Qed.

(* invoke ids that the special target forms shadow *)
Definition reserved_id (id : bytes) : bool :=
  beq_bytes id s_internal || beq_bytes id s_parent ||
  ((6 <? length id) && beq_bytes (firstn 6 id) s_scxml_us).

(* the Recommendation's target forms (C.1): the declarative specification of routing *)
Inductive routes_to (tb : session_tables) : bytes -> dest -> Prop :=
| RT_empty : routes_to tb [] DExternalSelf
| RT_internal : routes_to tb (s_hash_us ++ s_internal) DInternalSelf
| RT_parent : st_has_parent tb = true -> routes_to tb (s_hash_us ++ s_parent) DParent
| RT_session : forall sid, sid <> [] -> mem_bytes sid (st_sessions tb) = true ->
    routes_to tb (s_hash_us ++ s_scxml_us ++ sid) (DSession sid)
| RT_invoker : forall id, id <> [] -> mem_bytes id (st_invokers tb) = true -> reserved_id id = false ->
    routes_to tb (s_hash_us ++ id) (DInvoker id).

Lemma route_hash_us : forall id tb,
  route iv_fixed (35%N :: 95%N :: id) tb =
  if beq_bytes id s_internal then DInternalSelf
  else if beq_bytes id s_parent then (if st_has_parent tb then DParent else DError ErrCommunication)
  else if (6 <? length id) && beq_bytes (firstn 6 id) s_scxml_us then
    (if mem_bytes (skipn 6 id) (st_sessions tb) then DSession (skipn 6 id) else DError ErrCommunication)
  else if (0 <? length id) && true then
    (if mem_bytes id (st_invokers tb) then DInvoker id else DError ErrCommunication)
  else DError ErrCommunication.
Proof. intros. reflexivity. Qed.

Lemma route_sound_lemma : forall tb t d, routes_to tb t d -> route iv_fixed t tb = d /\ is_valid_target t = true.
Proof.
  intros tb t d H. destruct H.
  - split; reflexivity.
  - split; reflexivity.
  - split; [|reflexivity]. unfold route, str_eq. simpl. rewrite H. reflexivity.
  - split; [|reflexivity]. unfold route, str_eq. simpl.
    destruct sid as [|c sid]; [contradiction|]. simpl.
    rewrite H0. reflexivity.
  - split; [|reflexivity]. unfold reserved_id in H1.
    apply orb_false_iff in H1. destruct H1 as [H1 H3]. apply orb_false_iff in H1. destruct H1 as [H1 H2].
    change (s_hash_us ++ id) with (35%N :: 95%N :: id).
    rewrite route_hash_us, H1, H2, H3.
    destruct id as [|c id]; [contradiction|].
    change (0 <? length (c :: id)) with true. cbn [andb]. rewrite H0. reflexivity.
Qed.

Lemma firstn_skipn_eq : forall (n : nat) (t p : bytes), (n <? length t) = true -> beq_bytes (firstn n t) p = true ->
  t = p ++ skipn n t /\ skipn n t <> [].
Proof.
  intros n t p Hl Hb. apply beq_bytes_eq in Hb. split.
  - rewrite <- Hb. symmetry. apply firstn_skipn.
  - intros E. apply Nat.ltb_lt in Hl.
    assert (length (skipn n t) = length t - n) by apply skipn_length. rewrite E in H. simpl in H. lia.
Qed.

Lemma route_complete_lemma : forall tb t d, route iv_fixed t tb = d ->
  match d with DError _ => True | _ => routes_to tb t d end.
Proof.
  intros tb t d H. unfold route, str_eq in H. simpl (iv_route_case_insensitive iv_fixed) in H. cbv iota in H.
  destruct t as [|c t]; [subst; constructor|].
  destruct (beq_bytes (c :: t) (s_hash_us ++ s_internal)) eqn:E1.
  { apply beq_bytes_eq in E1. rewrite E1. subst. constructor. }
  destruct (beq_bytes (c :: t) (s_hash_us ++ s_parent)) eqn:E2.
  { apply beq_bytes_eq in E2. rewrite E2. destruct (st_has_parent tb) eqn:Ep; subst; auto. constructor; auto. }
  destruct ((8 <? length (c :: t)) && beq_bytes (firstn 8 (c :: t)) (s_hash_us ++ s_scxml_us)) eqn:E3.
  { apply andb_true_iff in E3. destruct E3 as [E3 E4].
    destruct (firstn_skipn_eq 8 (c :: t) _ E3 E4) as [Ht Hne].
    destruct (mem_bytes (skipn 8 (c :: t)) (st_sessions tb)) eqn:Em; subst; auto.
    rewrite Ht at 1. rewrite <- app_assoc. constructor; auto. }
  destruct ((2 <? length (c :: t)) && beq_bytes (firstn 2 (c :: t)) s_hash_us) eqn:E5.
  { apply andb_true_iff in E5. destruct E5 as [E5 E6].
    destruct (firstn_skipn_eq 2 (c :: t) _ E5 E6) as [Ht Hne].
    destruct (mem_bytes (skipn 2 (c :: t)) (st_invokers tb)) eqn:Em; subst; auto.
    rewrite Ht at 1. constructor; auto.
    (* not reserved: the earlier branches were not taken *)
    set (id := skipn 2 (c :: t)) in *.
    assert (Hform : c :: t = 35%N :: 95%N :: id) by exact Ht.
    rewrite Hform in E1, E2, E3.
    change (beq_bytes (35%N :: 95%N :: id) (s_hash_us ++ s_internal)) with (beq_bytes id s_internal) in E1.
    change (beq_bytes (35%N :: 95%N :: id) (s_hash_us ++ s_parent)) with (beq_bytes id s_parent) in E2.
    change ((8 <? length (35%N :: 95%N :: id)) && beq_bytes (firstn 8 (35%N :: 95%N :: id)) (s_hash_us ++ s_scxml_us))
      with ((6 <? length id) && beq_bytes (firstn 6 id) s_scxml_us) in E3.
    unfold reserved_id. rewrite E1, E2, E3. reflexivity. }
  subst. exact I.
Qed.

(* the pinned comparison is case-insensitive: an invoked session whose id is "Parent" cannot be
   addressed *)
Lemma route_pinned_refuted_lemma :
  exists tb t d, routes_to tb t d /\ route iv_pinned t tb <> d.
Proof.
  exists {| st_has_parent := false; st_sessions := []; st_invokers := [[80; 97; 114; 101; 110; 116]%N] |}.
  exists (s_hash_us ++ [80; 97; 114; 101; 110; 116]%N), (DInvoker [80; 97; 114; 101; 110; 116]%N).
  split.
  - apply RT_invoker; [discriminate | reflexivity | reflexivity].
  - vm_compute. discriminate.
Qed.

(* send order: delivering a list of sends one after the other leaves, in every destination queue,
   exactly the sends routed to it, in the order in which they were sent *)
Lemma deliver_order_lemma : forall v tb sends q d,
  deliver_seq v tb sends q d = q d ++ deliver_all v tb sends d.
Proof.
  intros v tb sends. induction sends as [|[t e] r IH]; intros q d; simpl.
  - unfold deliver_all. simpl. rewrite app_nil_r. reflexivity.
  - rewrite IH. unfold deliver_all. simpl.
    destruct (dest_eqb (send_dest v t tb) d); simpl.
    + rewrite <- app_assoc. reflexivity.
    + reflexivity.
Qed.

(* finalize runs (only for an event that carries the invokeid of an invocation with <finalize>, once)
   before autoforwarding and before the event is handed to transition selection *)
Lemma dequeue_external_shape_lemma : forall ev fins afw invs,
  exists fin fwd,
    dequeue_external ev fins afw invs = [ASetEvent] ++ fin ++ fwd ++ [AMatch] /\
    fin = (if (negb (beq_bytes ev [])) && mem_bytes ev fins then [AFinalize ev] else []) /\
    fwd = map AForward (filter (fun i => mem_bytes i afw) invs).
Proof.
  intros. eexists. eexists. split; [|split; reflexivity].
  unfold dequeue_external. destruct ev; simpl; reflexivity.
Qed.

Lemma finalize_before_match_lemma : forall ev fins afw invs i,
  In (AFinalize i) (dequeue_external ev fins afw invs) ->
  i = ev /\ ev <> [] /\ mem_bytes ev fins = true /\
  exists a b, dequeue_external ev fins afw invs = a ++ AFinalize i :: b /\
              In AMatch b /\ ~ In AMatch a /\ ~ In (AFinalize i) a /\ ~ In (AFinalize i) b /\
              (forall j, ~ In (AForward j) a).
Proof.
  intros ev fins afw invs i H.
  destruct (dequeue_external_shape_lemma ev fins afw invs) as [fin [fwd [Hs [Hf Hw]]]].
  rewrite Hs in H |- *.
  assert (Hnf : forall j, ~ In (AFinalize j) fwd).
  { intros j Hin. rewrite Hw in Hin. apply in_map_iff in Hin. destruct Hin as [x [Hx _]]. discriminate. }
  simpl in H. destruct H as [H|H]; [discriminate|].
  apply in_app_or in H. destruct H as [H|H].
  2: { apply in_app_or in H. destruct H as [H|[H|[]]]; [exfalso; eapply Hnf; eauto | discriminate]. }
  destruct (negb (beq_bytes ev []) && mem_bytes ev fins) eqn:E; rewrite Hf in H |- *; [|destruct H].
  destruct H as [H|[]]. inversion H; subst i.
  apply andb_true_iff in E. destruct E as [E1 E2].
  split; auto. split.
  { intros Hx. subst ev. discriminate. }
  split; auto.
  exists [ASetEvent], (fwd ++ [AMatch]). split; [reflexivity|].
  split; [apply in_or_app; right; left; reflexivity|].
  split; [intros [Hx|[]]; discriminate|].
  split; [intros [Hx|[]]; discriminate|].
  split.
  - intros Hin. apply in_app_or in Hin. destruct Hin as [Hin|[Hin|[]]]; [eapply Hnf; eauto | discriminate].
  - intros j [Hx|[]]. discriminate.
Qed.

Lemma autoforward_exact_lemma : forall ev fins afw invs i,
  In (AForward i) (dequeue_external ev fins afw invs) <-> (In i invs /\ mem_bytes i afw = true).
Proof.
  intros ev fins afw invs i.
  destruct (dequeue_external_shape_lemma ev fins afw invs) as [fin [fwd [Hs [Hf Hw]]]].
  rewrite Hs. split.
  - intros H. simpl in H. destruct H as [H|H]; [discriminate|].
    apply in_app_or in H. destruct H as [H|H].
    { rewrite Hf in H. destruct (negb (beq_bytes ev []) && mem_bytes ev fins); [destruct H as [H|[]]; discriminate | destruct H]. }
    apply in_app_or in H. destruct H as [H|[H|[]]]; [|discriminate].
    rewrite Hw in H. apply in_map_iff in H. destruct H as [x [Hx Hin]]. inversion Hx; subst.
    apply filter_In in Hin. exact Hin.
  - intros [H1 H2]. simpl. right. apply in_or_app. right. apply in_or_app. left.
    rewrite Hw. apply in_map. apply filter_In. auto.
Qed.

(* ------------------------------------------------------------------------------------------ *)
(** * the oracle                                                                                 *)

Lemma increasing_from_seq : forall n k, increasing_from k (seq k n) = true.
Proof.
  induction n as [|n IH]; intros k; simpl; auto.
  rewrite Nat.leb_refl. simpl. apply IH.
Qed.

(* what the harness observes of a completed invocation, read off a model state *)
Definition obs_of_state (s : ist) : inv_obs :=
  {| o_macro_end_active := true; o_before_inv := 1; o_after_inv := 1; o_before_uninv := 1; o_after_uninv := 1;
     o_exited := true; o_done := count_done (pq s); o_child_final_alone := fin_alone s;
     o_c2_before_u1 := match c2_saw s with Some true => true | _ => false end;
     o_uninvoke_begun := true;
     o_after_return := length (pq s) - match pq_at_ret s with Some k => k | None => 0 end;
     o_child_steps_after_return := 0; o_msgs := msgs (pq s); o_stuck := false |}.

Lemma model_satisfies_oracle_lemma : forall W s, reachable W s -> pp s = PRet ->
  invoke_protocolb (obs_of_state s) = true.
Proof.
  intros W s R Hp. pose proof (reachable_Inv W _ R) as I.
  destruct (no_step_after_return_lemma W s R Hp) as [He [_ Hr]].
  pose proof (inv_saw _ I) as Is. red in Is. rewrite He in Is. destruct Is as [b [Hs Hc]].
  pose proof (inv_saw_fin _ I) as Isf. red in Isf.
  pose proof (inv_msgs _ I) as Im. red in Im.
  unfold invoke_protocolb, obs_of_state. simpl.
  rewrite Hr, Nat.sub_diag, Hs, Hc, Im, increasing_from_seq. simpl.
  destruct b; simpl.
  - rewrite (Isf Hs). reflexivity.
  - destruct (fin_alone s); reflexivity.
Qed.

(* ------------------------------------------------------------------------------------------ *)
(** * the hypotheses of the theorems are satisfiable                                             *)

(* a complete run: invoke, the child sends, finishes on its own and reports; the parent cancels and
   the join returns *)
Example ex_reachable_returned :
  exists s, reachable 3 s /\ pp s = PRet /\ cp s = CEnd /\ count_done (pq s) = 1 /\ msgs (pq s) = [0].
Proof.
  exists (fst (irun 3 ist_init [LInvoke; LP1; LP2; LFinAlone; LRead; LEnqDone; LClear; LU1; LU2; LU3a; LU3b; LU4])).
  split; [apply irun_reachable; constructor | vm_compute; auto].
Qed.

(* a cancelled child: blocked at its queue, woken by cancel's empty event, no done.invoke *)
Example ex_reachable_cancelled :
  exists s, reachable 3 s /\ pp s = PRet /\ fin_alone s = false /\ count_done (pq s) = 0.
Proof.
  exists (fst (irun 3 ist_init [LInvoke; LStable; LU1; LU2; LU3a; LU3b; LDeqUnblock; LRead; LClear; LU4])).
  split; [apply irun_reachable; constructor | vm_compute; auto].
Qed.

(* the parent waiting in join while the child still has work *)
Example ex_join_waits :
  exists s, reachable 3 s /\ pp s = PU4 /\ cp s <> CEnd.
Proof.
  exists (fst (irun 3 ist_init [LInvoke; LSendChild; LStable; LU1; LU2; LU3a; LU3b])).
  split; [apply irun_reachable; constructor | vm_compute; split; [auto | discriminate]].
Qed.

Example ex_no_reentry : no_reentry (Nat.eqb 1) [0; 1; 2] [([2; 1], [3])].
Proof. intros s H1 H2 H3. destruct s as [|[|[|[|s]]]]; vm_compute in *; congruence. Qed.

Example ex_routes_to :
  routes_to {| st_has_parent := true; st_sessions := [[120]%N]; st_invokers := [[105; 110; 118]%N] |}
            (s_hash_us ++ [105; 110; 118]%N) (DInvoker [105; 110; 118]%N).
Proof. apply RT_invoker; [discriminate | reflexivity | reflexivity]. Qed.
